(* C14 - the N-Triples / N-Quads line tokenizer (parse_ntriples_parts) on rendered terms: after each rendered
   term the state machine is back in its initial state with the term appended to the parts. *)
Require Import List NArith Bool Lia ZifyBool ZifyN.
Import ListNotations.
Require Import KV.Codec14.Model KV.Codec14.Turtle KV.Codec14.Spec KV.Codec14.StrProofs KV.Codec14.LitProofs.
Open Scope N_scope.

Definition cst (ps : list str) : pst := PS ps [] false false false 0 PNormal.

Arguments trim : simpl never.
Arguments escape : simpl never.
Ltac psimp1 :=
  unfold p_push, p_emit, p_set_mode, p_set_uri, p_set_lit, p_set_esc, p_set_dep, p_close, cst; cbn.
Ltac psimp := psimp1; repeat (progress psimp1).

Lemma p_go_step : forall s c r s1, p_step s c (hd_error r) = (s1, false) -> p_go s (c :: r) = p_go s1 r.
Proof. intros s c r s1 H. cbn [p_go]. now rewrite H. Qed.

(* ---- characters ------------------------------------------------------------------------------------- *)
Lemma iri_char_basic : forall c, iri_char c = true ->
  (c =? cLT) = false /\ (c =? cGT) = false /\ (c =? cDQ) = false /\ (c =? cBS) = false /\
  (c =? cSP) = false /\ (c =? cTAB) = false /\ (c =? cLF) = false.
Proof.
  intros c H. unfold iri_char in H. apply andb_true_iff in H as [H32 H].
  apply negb_true_iff in H. repeat (apply orb_false_iff in H as [H ?]).
  apply N.ltb_lt in H32.
  repeat split; try assumption; apply N.eqb_neq; unfold cSP, cTAB, cLF; lia.
Qed.

(* ---- <iri> --------------------------------------------------------------------------------------------- *)
Lemma go_uri_body : forall body ps cur rest, forallb iri_char body = true ->
  p_go (PS ps cur true false false 0 PNormal) (body ++ cGT :: rest) =
  p_go (cst (ps ++ [trim (cur ++ body ++ [cGT])])) rest.
Proof.
  induction body as [|c body IH]; intros ps cur rest H.
  - cbn [app]. erewrite p_go_step; [reflexivity|]. reflexivity.
  - cbn in H. apply andb_true_iff in H as [Hc Hb].
    destruct (iri_char_basic c Hc) as (H1 & H2 & H3 & H4 & H5 & H6 & _).
    cbn [app]. erewrite p_go_step.
    2:{ unfold p_step, p_normal. psimp. rewrite H1, H2, H3, H4, H5, H6. cbn. reflexivity. }
    psimp. rewrite IH by assumption. unfold cst. now rewrite <- app_assoc.
Qed.

Lemma trim_snoc_id : forall c m d, is_ws c = false -> is_ws d = false -> trim (c :: m ++ [d]) = c :: m ++ [d].
Proof.
  intros c m d Hc Hd. apply trim_id.
  - cbn. now rewrite Hc.
  - change (c :: m ++ [d]) with ((c :: m) ++ [d]). rewrite last_not_app by discriminate. cbn. now rewrite Hd.
Qed.

Lemma trim_angle : forall s, trim (angle s) = angle s.
Proof. intro s. unfold angle. now apply trim_snoc_id. Qed.

Lemma go_sp_clean : forall ps r, p_go (cst ps) (cSP :: r) = p_go (cst ps) r.
Proof. intros. erewrite p_go_step; reflexivity. Qed.

Lemma go_angle : forall s ps rest, forallb iri_char s = true ->
  p_go (cst ps) (angle s ++ rest) = p_go (cst (ps ++ [angle s])) rest.
Proof.
  intros s ps rest H. unfold angle. cbn [app]. rewrite <- app_assoc. cbn [app].
  assert (Hpk : peek_is cLT (hd_error (s ++ cGT :: rest)) = false).
  { destruct s as [|c s']; [reflexivity|]. cbn in H. apply andb_true_iff in H as [Hc _].
    destruct (iri_char_basic c Hc) as (H1 & _). exact H1. }
  erewrite p_go_step.
  2:{ unfold p_step, p_normal. psimp. rewrite Hpk. reflexivity. }
  psimp. rewrite go_uri_body by assumption. cbn [app].
  change (cLT :: s ++ [cGT]) with (angle s). now rewrite trim_angle.
Qed.

(* ---- a term without delimiters (blank node label) -------------------------------------------------------- *)
Definition tok_plain (c : N) : bool :=
  negb ((c =? cLT) || (c =? cGT) || (c =? cDQ) || (c =? cSP) || (c =? cTAB)).

Lemma go_plain_body : forall body ps cur rest, forallb tok_plain body = true ->
  p_go (PS ps cur false false false 0 PNormal) (body ++ rest) =
  p_go (PS ps (cur ++ body) false false false 0 PNormal) rest.
Proof.
  induction body as [|c body IH]; intros ps cur rest H.
  - now rewrite app_nil_r.
  - cbn in H. apply andb_true_iff in H as [Hc Hb].
    unfold tok_plain in Hc. apply negb_true_iff in Hc. repeat (apply orb_false_iff in Hc as [Hc ?]).
    cbn [app]. erewrite p_go_step.
    2:{ unfold p_step, p_normal. psimp. rewrite Hc, H, H0, H1, H2. destruct (c =? cBS); cbn; reflexivity. }
    psimp. rewrite IH by assumption. now rewrite <- app_assoc.
Qed.

Lemma go_plain_sp : forall ps cur r, cur <> [] ->
  p_go (PS ps cur false false false 0 PNormal) (cSP :: r) = p_go (cst (ps ++ [trim cur])) r.
Proof.
  intros ps cur r H. erewrite p_go_step.
  2:{ unfold p_step, p_normal. psimp. destruct cur; [congruence|]. cbn. reflexivity. }
  reflexivity.
Qed.

Lemma go_plain_end : forall ps cur, cur <> [] ->
  p_go (PS ps cur false false false 0 PNormal) [] = ps ++ [trim cur].
Proof. intros ps cur H. cbn. unfold p_finish. psimp. destruct cur; [congruence|reflexivity]. Qed.

(* ---- "escaped literal" --------------------------------------------------------------------------------------- *)
Lemma go_lit_char : forall c ps cur rest,
  p_go (PS ps cur false true false 0 PNormal) (esc_char c ++ rest) =
  p_go (PS ps (cur ++ esc_char c) false true false 0 PNormal) rest.
Proof.
  intros c ps cur rest. unfold esc_char.
  destruct (N.eqb_spec c cBS) as [->|Hbs].
  { cbn [app]. erewrite p_go_step by reflexivity. erewrite p_go_step by reflexivity. psimp. now rewrite <- app_assoc. }
  destruct (N.eqb_spec c cDQ) as [->|Hdq].
  { cbn [app]. erewrite p_go_step by reflexivity. erewrite p_go_step by reflexivity. psimp. now rewrite <- app_assoc. }
  destruct (N.eqb_spec c cLF) as [->|Hlf].
  { cbn [app]. erewrite p_go_step by reflexivity. erewrite p_go_step by reflexivity. psimp. now rewrite <- app_assoc. }
  destruct (N.eqb_spec c cCR) as [->|Hcr].
  { cbn [app]. erewrite p_go_step by reflexivity. erewrite p_go_step by reflexivity. psimp. now rewrite <- app_assoc. }
  destruct (N.eqb_spec c cTAB) as [->|Htab].
  { cbn [app]. erewrite p_go_step by reflexivity. erewrite p_go_step by reflexivity. psimp. now rewrite <- app_assoc. }
  cbn [app]. erewrite p_go_step.
  2:{ unfold p_step, p_normal. psimp. apply N.eqb_neq in Hbs, Hdq. rewrite Hbs, Hdq.
      destruct (c =? cLT), (c =? cGT), (c =? cSP), (c =? cTAB); cbn; reflexivity. }
  reflexivity.
Qed.

Lemma go_lit_body : forall v ps cur rest,
  p_go (PS ps cur false true false 0 PNormal) (escape v ++ rest) =
  p_go (PS ps (cur ++ escape v) false true false 0 PNormal) rest.
Proof.
  induction v as [|c v IH]; intros ps cur rest.
  - cbn. now rewrite app_nil_r.
  - unfold escape. cbn [flat_map]. fold (escape v). rewrite <- app_assoc.
    rewrite go_lit_char, IH. now rewrite <- app_assoc.
Qed.

Lemma trim_quoted : forall v, trim (quoted v) = quoted v.
Proof. intro v. unfold quoted. now apply trim_snoc_id. Qed.

Lemma go_quoted_sp : forall v ps rest,
  p_go (cst ps) (quoted v ++ cSP :: rest) = p_go (cst (ps ++ [quoted v])) rest.
Proof.
  intros v ps rest. unfold quoted. cbn [app]. rewrite <- app_assoc. cbn [app].
  erewrite p_go_step by reflexivity. psimp.
  rewrite go_lit_body. erewrite p_go_step by reflexivity. psimp.
  psimp.
  change (cDQ :: escape v ++ [cDQ]) with (quoted v). now rewrite trim_quoted.
Qed.

Lemma go_quoted_end : forall v ps, p_go (cst ps) (quoted v) = ps ++ [quoted v].
Proof.
  intros v ps. unfold quoted. cbn [app].
  erewrite p_go_step by reflexivity. psimp.
  rewrite go_lit_body. erewrite p_go_step by reflexivity. psimp.
  cbn [p_go]. unfold p_finish. psimp. cbn [app is_nil].
  change (cDQ :: escape v ++ [cDQ]) with (quoted v). now rewrite trim_quoted.
Qed.

(* ---- rendered terms ---------------------------------------------------------------------------------------------- *)

Lemma wf_iri_chars : forall s, wf_iri s = true -> forallb iri_char s = true.
Proof. intros s H. unfold wf_iri in H. now apply andb_true_iff in H as [_ H]. Qed.

Lemma scheme_of_hd : forall s c r, scheme_of s = Some (c :: r) -> exists s', s = c :: s'.
Proof.
  intros [|x s] c r H; cbn in H; [discriminate|].
  destruct (x =? cCOLON); [discriminate|].
  destruct (scheme_of s); cbn in H; [|discriminate]. injection H as -> _. now exists s.
Qed.

Lemma abs_iri_hd : forall s, looks_like_absolute_iri s = true -> exists c s', s = c :: s' /\ is_ascii_alpha c = true.
Proof.
  intros s H. unfold looks_like_absolute_iri in H.
  destruct (scheme_of s) as [[|c r]|] eqn:E; try discriminate.
  apply andb_true_iff in H as [Ha _]. destruct (scheme_of_hd _ _ _ E) as [s' ->]. now exists c, s'.
Qed.

Lemma wf_iri_hd : forall s, wf_iri s = true -> exists c s', s = c :: s' /\ is_ascii_alpha c = true.
Proof. intros s H. unfold wf_iri in H. apply andb_true_iff in H as [H _]. now apply abs_iri_hd. Qed.

Lemma alpha_facts : forall c, is_ascii_alpha c = true ->
  (c =? cLT) = false /\ (c =? cDQ) = false /\ (c =? cUS) = false /\ (c =? cHASH) = false /\ is_ws c = false.
Proof.
  intros c H. unfold is_ascii_alpha in H. unfold is_ws, cLT, cDQ, cUS, cHASH. lia.
Qed.

Lemma bn_char_facts : forall c, bn_char c = true -> tok_plain c = true /\ is_ws c = false /\ (c =? cLF) = false.
Proof.
  intros c H. unfold bn_char, is_ascii_alnum, is_ascii_alpha, is_ascii_digit, cUS, cMINUS, cDOT in H.
  unfold tok_plain, is_ws, cLT, cGT, cDQ, cSP, cTAB, cLF. lia.
Qed.

Lemma forallb_last_not : forall (f g : N -> bool) l,
  (forall c, f c = true -> g c = false) -> l <> [] -> forallb f l = true -> last_not g l = true.
Proof.
  intros f g l Hfg. induction l as [|c l IH]; intros Hne H; [congruence|].
  cbn in H. apply andb_true_iff in H as [Hc Hl].
  destruct l as [|d l'].
  - cbn. now rewrite (Hfg c Hc).
  - change (last_not g (c :: d :: l')) with (last_not g (d :: l')). apply IH; [discriminate|assumption].
Qed.

Lemma wf_bnode_shape : forall s, wf_bnode s = true ->
  exists c r, s = cUS :: cCOLON :: c :: r /\ forallb bn_char (c :: r) = true.
Proof.
  intros s H. unfold wf_bnode in H. destruct s as [|a [|b [|c r]]]; try discriminate.
  apply andb_true_iff in H as [H H3]. apply andb_true_iff in H as [H1 H2].
  apply N.eqb_eq in H1, H2. subst. now exists c, r.
Qed.

Lemma wf_bnode_plain : forall s, wf_bnode s = true -> forallb tok_plain s = true /\ trim s = s /\ s <> [].
Proof.
  intros s H. destruct (wf_bnode_shape s H) as (c & r & -> & Hb).
  assert (Hp : forallb tok_plain (c :: r) = true).
  { apply forallb_forall. intros x Hx. rewrite forallb_forall in Hb. now apply bn_char_facts, Hb. }
  split; [|split; [|discriminate]].
  - change (forallb tok_plain (cUS :: cCOLON :: c :: r)) with (forallb tok_plain (c :: r)). exact Hp.
  - apply trim_id; [reflexivity|].
    change (cUS :: cCOLON :: c :: r) with ([cUS; cCOLON] ++ (c :: r)). rewrite last_not_app by discriminate.
    apply forallb_last_not with (f := bn_char); [|discriminate|assumption].
    intros x Hx. now apply bn_char_facts.
Qed.

(* ---- a rendered quoted triple "<< s p o >>" (bare components): the depth counter returns to its value ----------------------- *)
(* characters of the components of a safe quoted triple *)
Definition pq (c : N) : bool := negb ((c =? cLT) || (c =? cGT) || (c =? cDQ) || (c =? cLF)).

Lemma p_go_step2 : forall s c c2 r s1, p_step s c (Some c2) = (s1, true) -> p_go s (c :: c2 :: r) = p_go s1 r.
Proof. intros s c c2 r s1 H. cbn [p_go hd_error]. now rewrite H. Qed.

Lemma p_step_depth : forall ps cur d c pk, (0 <? d) = true -> pq c = true ->
  p_step (PS ps cur false false false d PNormal) c pk = (PS ps (cur ++ [c]) false false false d PNormal, false).
Proof.
  intros ps cur d c pk Hd Hc. unfold pq in Hc. apply negb_true_iff in Hc.
  apply orb_false_iff in Hc as [Hc _]. apply orb_false_iff in Hc as [Hc H3]. apply orb_false_iff in Hc as [H1 H2].
  assert (Hd0 : (d =? 0) = false) by lia.
  unfold p_step, p_normal. cbn [p_mode p_lit p_esc p_uri p_dep p_cur p_parts].
  rewrite H1, H2, H3, Hd0. cbn [negb andb orb]. rewrite !andb_false_r. reflexivity.
Qed.

Lemma p_depth_plain : forall X ps cur d rest, (0 <? d) = true -> forallb pq X = true ->
  p_go (PS ps cur false false false d PNormal) (X ++ rest) = p_go (PS ps (cur ++ X) false false false d PNormal) rest.
Proof.
  induction X as [|c X IH]; intros ps cur d rest Hd H; [now rewrite app_nil_r|].
  cbn in H. apply andb_true_iff in H as [Hc HX]. cbn [app].
  erewrite p_go_step by (now apply p_step_depth). rewrite IH by assumption. now rewrite <- app_assoc.
Qed.

Lemma p_step_open : forall ps cur d,
  p_step (PS ps cur false false false d PNormal) cLT (Some cLT) = (PS ps (cur ++ [cLT] ++ [cLT]) false false false (d + 1) PNormal, true).
Proof.
  intros. unfold p_step, p_normal. cbn [p_mode p_lit p_esc p_uri p_dep p_cur p_parts peek_is].
  replace (cLT =? cLT) with true by reflexivity. cbn [negb andb]. unfold p_set_dep, p_push.
  cbn [p_mode p_lit p_esc p_uri p_dep p_cur p_parts]. now rewrite <- app_assoc.
Qed.

Lemma p_step_close : forall ps cur d,
  p_step (PS ps cur false false false (d + 1) PNormal) cGT (Some cGT) =
  (if d =? 0 then PS (ps ++ [trim (cur ++ [cGT] ++ [cGT])]) [] false false false d PNormal
   else PS ps (cur ++ [cGT] ++ [cGT]) false false false d PNormal, true).
Proof.
  intros. unfold p_step, p_normal. cbn [p_mode p_lit p_esc p_uri p_dep p_cur p_parts peek_is].
  replace (cGT =? cLT) with false by reflexivity. replace (cGT =? cGT) with true by reflexivity.
  replace (0 <? d + 1) with true by lia. cbn [negb andb].
  unfold p_set_dep, p_push, p_emit. cbn [p_mode p_lit p_esc p_uri p_dep p_cur p_parts].
  rewrite N.add_sub, <- app_assoc. destruct (d =? 0); reflexivity.
Qed.

Definition qleafb (t : qterm) : bool := match t with QQt _ _ _ => false | _ => true end.

Lemma word_char_pq : forall c, word_char c = true -> pq c = true.
Proof. intros c H. unfold word_char, sep_char, cSP, cTAB, cLF, cCR, cLT, cGT, cDQ, cBS in H. unfold pq, cLT, cGT, cDQ, cLF. lia. Qed.

Lemma join_words_pq : forall ws, forallb word_ok ws = true -> forallb pq (join [cSP] ws) = true.
Proof.
  induction ws as [|w ws IH]; intro H; [reflexivity|].
  cbn in H. apply andb_true_iff in H as [Hw Hws]. unfold word_ok in Hw. apply andb_true_iff in Hw as [_ Hw].
  assert (Hq : forallb pq w = true).
  { apply forallb_forall. intros c Hc. rewrite forallb_forall in Hw. now apply word_char_pq, Hw. }
  destruct ws as [|w2 ws']; [exact Hq|].
  change (join [cSP] (w :: w2 :: ws')) with (w ++ [cSP] ++ join [cSP] (w2 :: ws')).
  rewrite !forallb_app, Hq, (IH Hws). reflexivity.
Qed.

Lemma iri_chars_pq : forall s, forallb iri_char s = true -> forallb pq s = true.
Proof.
  intros s H. apply forallb_forall. intros c Hc. rewrite forallb_forall in H.
  destruct (iri_char_basic c (H c Hc)) as (H1 & H2 & H3 & _ & _ & _ & H7). unfold pq. now rewrite H1, H2, H3, H7.
Qed.

Lemma qleaf_pq : forall t, qsafe t = true -> qleafb t = true -> forallb pq (qrender t) = true.
Proof.
  intros [s|s|ws|a b c] H Hl; try discriminate; cbn [qsafe qrender] in *.
  - apply andb_true_iff in H as [H _]. now apply iri_chars_pq, wf_iri_chars.
  - destruct (wf_bnode_shape s H) as (c & r & -> & Hb).
    change (forallb pq (cUS :: cCOLON :: c :: r)) with (forallb pq (c :: r)).
    apply forallb_forall. intros x Hx. rewrite forallb_forall in Hb. destruct (bn_char_facts x (Hb x Hx)) as (Hp & _ & Hlf).
    unfold tok_plain, cLT, cGT, cDQ, cSP, cTAB in Hp. unfold cLF in Hlf. unfold pq, cLT, cGT, cDQ, cLF. lia.
  - apply andb_true_iff in H as [H _]. now apply join_words_pq.
Qed.

Lemma p_depth_term : forall t, qsafe t = true -> forall ps cur d rest, (0 <? d) = true ->
  p_go (PS ps cur false false false d PNormal) (qrender t ++ rest) =
  p_go (PS ps (cur ++ qrender t) false false false d PNormal) rest.
Proof.
  induction t as [s|s|ws|a IHa b IHb c IHc]; intros Hs ps cur d rest Hd.
  1-3: apply p_depth_plain; [assumption|now apply qleaf_pq].
  cbn [qsafe] in Hs. apply andb_true_iff in Hs as [Hs Hc]. apply andb_true_iff in Hs as [Hs _].
  apply andb_true_iff in Hs as [Hs Hb]. apply andb_true_iff in Hs as [Ha _].
  assert (Hd1 : (0 <? d + 1) = true) by lia. assert (Hd0 : (d =? 0) = false) by lia.
  cbn [qrender]. unfold sLTLT, sGTGT. repeat (rewrite <- app_assoc; cbn [app]).
  erewrite p_go_step2 by apply p_step_open.
  erewrite p_go_step by (now apply p_step_depth). rewrite IHa by assumption.
  erewrite p_go_step by (now apply p_step_depth). rewrite IHb by assumption.
  erewrite p_go_step by (now apply p_step_depth). rewrite IHc by assumption.
  erewrite p_go_step by (now apply p_step_depth).
  erewrite p_go_step2 by apply p_step_close. rewrite Hd0.
  f_equal. f_equal. repeat (rewrite <- app_assoc; cbn [app]). reflexivity.
Qed.

Lemma qrender_trim : forall a b c, trim (qrender (QQt a b c)) = qrender (QQt a b c).
Proof.
  intros. apply trim_id; [reflexivity|]. cbn [qrender]. rewrite !app_assoc. rewrite last_not_app by discriminate. reflexivity.
Qed.

Lemma go_qt_top : forall a b c ps rest, qsafe (QQt a b c) = true ->
  p_go (cst ps) (qrender (QQt a b c) ++ rest) = p_go (cst (ps ++ [qrender (QQt a b c)])) rest.
Proof.
  intros a b c ps rest Hs. rewrite <- (qrender_trim a b c) at 2.
  cbn [qsafe] in Hs. apply andb_true_iff in Hs as [Hs Hc]. apply andb_true_iff in Hs as [Hs _].
  apply andb_true_iff in Hs as [Hs Hb]. apply andb_true_iff in Hs as [Ha _].
  assert (Hd1 : (0 <? 0 + 1) = true) by reflexivity.
  cbn [qrender]. unfold sLTLT, sGTGT, cst. repeat (rewrite <- app_assoc; cbn [app]).
  erewrite p_go_step2 by apply p_step_open.
  erewrite p_go_step by (now apply p_step_depth). rewrite p_depth_term by assumption.
  erewrite p_go_step by (now apply p_step_depth). rewrite p_depth_term by assumption.
  erewrite p_go_step by (now apply p_step_depth). rewrite p_depth_term by assumption.
  erewrite p_go_step by (now apply p_step_depth).
  erewrite p_go_step2 by apply p_step_close. cbn [N.eqb].
  f_equal. f_equal. f_equal. f_equal. repeat (rewrite <- app_assoc; cbn [app]). reflexivity.
Qed.

(* rterm R v: R is the text one of the serialisers writes for the stored value v *)
Inductive rterm : str -> str -> Prop :=
| RT_angle : forall s, forallb iri_char s = true -> rterm (angle s) s
| RT_bn : forall s, wf_bnode s = true -> rterm s s
| RT_lit : forall v, rterm (quoted v) v
| RT_qt : forall a b c, qsafe (QQt a b c) = true -> rterm (qrender (QQt a b c)) (qrender (QQt a b c)).

Lemma tok_term_sp : forall R v ps rest, rterm R v ->
  p_go (cst ps) (R ++ cSP :: rest) = p_go (cst (ps ++ [R])) rest.
Proof.
  intros R v ps rest H. destruct H as [s H|s H|v|a b c H].
  - rewrite go_angle by assumption. apply go_sp_clean.
  - destruct (wf_bnode_plain s H) as (Hp & Ht & Hne).
    unfold cst at 1. rewrite go_plain_body by assumption. cbn [app].
    rewrite go_plain_sp by assumption. now rewrite Ht.
  - apply go_quoted_sp.
  - rewrite go_qt_top by assumption. apply go_sp_clean.
Qed.

Lemma tok_term_end : forall R v ps, rterm R v -> p_go (cst ps) R = ps ++ [R].
Proof.
  intros R v ps H. destruct H as [s H|s H|v|a b c H].
  - rewrite <- (app_nil_r (angle s)) at 1. rewrite go_angle by assumption. reflexivity.
  - destruct (wf_bnode_plain s H) as (Hp & Ht & Hne).
    rewrite <- (app_nil_r s) at 1. unfold cst. rewrite go_plain_body by assumption. cbn [app].
    rewrite go_plain_end by assumption. now rewrite Ht.
  - apply go_quoted_end.
  - rewrite <- (app_nil_r (qrender (QQt a b c))) at 1. rewrite go_qt_top by assumption. reflexivity.
Qed.

(* tokenize_rendered_line: the tokenizer returns exactly the rendered terms of a rendered line *)
Lemma tokenize_rendered_4 : forall S P O G s p o g, rterm S s -> rterm P p -> rterm O o -> rterm G g ->
  parts (S ++ cSP :: P ++ cSP :: O ++ cSP :: G) = [S; P; O; G].
Proof.
  intros. unfold parts. change p_init with (cst []).
  rewrite (tok_term_sp S s) by assumption. rewrite (tok_term_sp P p) by assumption.
  rewrite (tok_term_sp O o) by assumption. now rewrite (tok_term_end G g) by assumption.
Qed.

Lemma tokenize_rendered_3 : forall S P O s p o, rterm S s -> rterm P p -> rterm O o ->
  parts (S ++ cSP :: P ++ cSP :: O) = [S; P; O].
Proof.
  intros. unfold parts. change p_init with (cst []).
  rewrite (tok_term_sp S s) by assumption. rewrite (tok_term_sp P p) by assumption.
  now rewrite (tok_term_end O o) by assumption.
Qed.
