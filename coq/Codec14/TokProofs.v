(* C14 - the N-Triples / N-Quads line tokenizer (parse_ntriples_parts) on rendered terms: after each rendered
   term the state machine is back in its initial state with the term appended to the parts. *)
Require Import List NArith Bool Lia ZifyBool ZifyN.
Import ListNotations.
Require Import KV.Codec14.Model KV.Codec14.Turtle KV.Codec14.Spec KV.Codec14.StrProofs KV.Codec14.LitProofs.
Open Scope N_scope.

Definition cst (ps : list str) : pst := PS ps [] false false false 0 PNormal.

Arguments trim : simpl never.
Arguments escape : simpl never.
Ltac psimp1 :=
  unfold p_push, p_emit, p_set_mode, p_set_uri, p_set_lit, p_set_esc, p_set_dep, p_close, cst; cbn.
Ltac psimp := psimp1; repeat (progress psimp1).

Lemma p_go_step : forall s c r s1, p_step s c (hd_error r) = (s1, false) -> p_go s (c :: r) = p_go s1 r.
Proof. intros s c r s1 H. cbn [p_go]. now rewrite H. Qed.

(* ---- characters ------------------------------------------------------------------------------------- *)
Lemma iri_char_basic : forall c, iri_char c = true ->
  (c =? cLT) = false /\ (c =? cGT) = false /\ (c =? cDQ) = false /\ (c =? cBS) = false /\
  (c =? cSP) = false /\ (c =? cTAB) = false /\ (c =? cLF) = false.
Proof.
  intros c H. unfold iri_char in H. apply andb_true_iff in H as [H32 H].
  apply negb_true_iff in H. repeat (apply orb_false_iff in H as [H ?]).
  apply N.ltb_lt in H32.
  repeat split; try assumption; apply N.eqb_neq; unfold cSP, cTAB, cLF; lia.
Qed.

(* ---- <iri> --------------------------------------------------------------------------------------------- *)
Lemma go_uri_body : forall body ps cur rest, forallb iri_char body = true ->
  p_go (PS ps cur true false false 0 PNormal) (body ++ cGT :: rest) =
  p_go (cst (ps ++ [trim (cur ++ body ++ [cGT])])) rest.
Proof.
  induction body as [|c body IH]; intros ps cur rest H.
  - cbn [app]. erewrite p_go_step; [reflexivity|]. reflexivity.
  - cbn in H. apply andb_true_iff in H as [Hc Hb].
    destruct (iri_char_basic c Hc) as (H1 & H2 & H3 & H4 & H5 & H6 & _).
    cbn [app]. erewrite p_go_step.
    2:{ unfold p_step, p_normal. psimp. rewrite H1, H2, H3, H4, H5, H6. cbn. reflexivity. }
    psimp. rewrite IH by assumption. unfold cst. now rewrite <- app_assoc.
Qed.

Lemma trim_snoc_id : forall c m d, is_ws c = false -> is_ws d = false -> trim (c :: m ++ [d]) = c :: m ++ [d].
Proof.
  intros c m d Hc Hd. apply trim_id.
  - cbn. now rewrite Hc.
  - change (c :: m ++ [d]) with ((c :: m) ++ [d]). rewrite last_not_app by discriminate. cbn. now rewrite Hd.
Qed.

Lemma trim_angle : forall s, trim (angle s) = angle s.
Proof. intro s. unfold angle. now apply trim_snoc_id. Qed.

Lemma go_sp_clean : forall ps r, p_go (cst ps) (cSP :: r) = p_go (cst ps) r.
Proof. intros. erewrite p_go_step; reflexivity. Qed.

Lemma go_angle : forall s ps rest, forallb iri_char s = true ->
  p_go (cst ps) (angle s ++ rest) = p_go (cst (ps ++ [angle s])) rest.
Proof.
  intros s ps rest H. unfold angle. cbn [app]. rewrite <- app_assoc. cbn [app].
  assert (Hpk : peek_is cLT (hd_error (s ++ cGT :: rest)) = false).
  { destruct s as [|c s']; [reflexivity|]. cbn in H. apply andb_true_iff in H as [Hc _].
    destruct (iri_char_basic c Hc) as (H1 & _). exact H1. }
  erewrite p_go_step.
  2:{ unfold p_step, p_normal. psimp. rewrite Hpk. reflexivity. }
  psimp. rewrite go_uri_body by assumption. cbn [app].
  change (cLT :: s ++ [cGT]) with (angle s). now rewrite trim_angle.
Qed.

(* ---- a term without delimiters (blank node label) -------------------------------------------------------- *)
Definition tok_plain (c : N) : bool :=
  negb ((c =? cLT) || (c =? cGT) || (c =? cDQ) || (c =? cSP) || (c =? cTAB)).

Lemma go_plain_body : forall body ps cur rest, forallb tok_plain body = true ->
  p_go (PS ps cur false false false 0 PNormal) (body ++ rest) =
  p_go (PS ps (cur ++ body) false false false 0 PNormal) rest.
Proof.
  induction body as [|c body IH]; intros ps cur rest H.
  - now rewrite app_nil_r.
  - cbn in H. apply andb_true_iff in H as [Hc Hb].
    unfold tok_plain in Hc. apply negb_true_iff in Hc. repeat (apply orb_false_iff in Hc as [Hc ?]).
    cbn [app]. erewrite p_go_step.
    2:{ unfold p_step, p_normal. psimp. rewrite Hc, H, H0, H1, H2. destruct (c =? cBS); cbn; reflexivity. }
    psimp. rewrite IH by assumption. now rewrite <- app_assoc.
Qed.

Lemma go_plain_sp : forall ps cur r, cur <> [] ->
  p_go (PS ps cur false false false 0 PNormal) (cSP :: r) = p_go (cst (ps ++ [trim cur])) r.
Proof.
  intros ps cur r H. erewrite p_go_step.
  2:{ unfold p_step, p_normal. psimp. destruct cur; [congruence|]. cbn. reflexivity. }
  reflexivity.
Qed.

Lemma go_plain_end : forall ps cur, cur <> [] ->
  p_go (PS ps cur false false false 0 PNormal) [] = ps ++ [trim cur].
Proof. intros ps cur H. cbn. unfold p_finish. psimp. destruct cur; [congruence|reflexivity]. Qed.

(* ---- "escaped literal" --------------------------------------------------------------------------------------- *)
Lemma go_lit_char : forall c ps cur rest,
  p_go (PS ps cur false true false 0 PNormal) (esc_char c ++ rest) =
  p_go (PS ps (cur ++ esc_char c) false true false 0 PNormal) rest.
Proof.
  intros c ps cur rest. unfold esc_char.
  destruct (N.eqb_spec c cBS) as [->|Hbs].
  { cbn [app]. erewrite p_go_step by reflexivity. erewrite p_go_step by reflexivity. psimp. now rewrite <- app_assoc. }
  destruct (N.eqb_spec c cDQ) as [->|Hdq].
  { cbn [app]. erewrite p_go_step by reflexivity. erewrite p_go_step by reflexivity. psimp. now rewrite <- app_assoc. }
  destruct (N.eqb_spec c cLF) as [->|Hlf].
  { cbn [app]. erewrite p_go_step by reflexivity. erewrite p_go_step by reflexivity. psimp. now rewrite <- app_assoc. }
  destruct (N.eqb_spec c cCR) as [->|Hcr].
  { cbn [app]. erewrite p_go_step by reflexivity. erewrite p_go_step by reflexivity. psimp. now rewrite <- app_assoc. }
  destruct (N.eqb_spec c cTAB) as [->|Htab].
  { cbn [app]. erewrite p_go_step by reflexivity. erewrite p_go_step by reflexivity. psimp. now rewrite <- app_assoc. }
  cbn [app]. erewrite p_go_step.
  2:{ unfold p_step, p_normal. psimp. apply N.eqb_neq in Hbs, Hdq. rewrite Hbs, Hdq.
      destruct (c =? cLT), (c =? cGT), (c =? cSP), (c =? cTAB); cbn; reflexivity. }
  reflexivity.
Qed.

Lemma go_lit_body : forall v ps cur rest,
  p_go (PS ps cur false true false 0 PNormal) (escape v ++ rest) =
  p_go (PS ps (cur ++ escape v) false true false 0 PNormal) rest.
Proof.
  induction v as [|c v IH]; intros ps cur rest.
  - cbn. now rewrite app_nil_r.
  - unfold escape. cbn [flat_map]. fold (escape v). rewrite <- app_assoc.
    rewrite go_lit_char, IH. now rewrite <- app_assoc.
Qed.

Lemma trim_quoted : forall v, trim (quoted v) = quoted v.
Proof. intro v. unfold quoted. now apply trim_snoc_id. Qed.

Lemma go_quoted_sp : forall v ps rest,
  p_go (cst ps) (quoted v ++ cSP :: rest) = p_go (cst (ps ++ [quoted v])) rest.
Proof.
  intros v ps rest. unfold quoted. cbn [app]. rewrite <- app_assoc. cbn [app].
  erewrite p_go_step by reflexivity. psimp.
  rewrite go_lit_body. erewrite p_go_step by reflexivity. psimp.
  psimp.
  change (cDQ :: escape v ++ [cDQ]) with (quoted v). now rewrite trim_quoted.
Qed.

Lemma go_quoted_end : forall v ps, p_go (cst ps) (quoted v) = ps ++ [quoted v].
Proof.
  intros v ps. unfold quoted. cbn [app].
  erewrite p_go_step by reflexivity. psimp.
  rewrite go_lit_body. erewrite p_go_step by reflexivity. psimp.
  cbn [p_go]. unfold p_finish. psimp. cbn [app is_nil].
  change (cDQ :: escape v ++ [cDQ]) with (quoted v). now rewrite trim_quoted.
Qed.

(* ---- rendered terms ---------------------------------------------------------------------------------------------- *)
(* rterm R v: R is the text one of the serialisers writes for the stored value v *)
Inductive rterm : str -> str -> Prop :=
| RT_angle : forall s, forallb iri_char s = true -> rterm (angle s) s
| RT_bn : forall s, wf_bnode s = true -> rterm s s
| RT_lit : forall v, rterm (quoted v) v.

Lemma wf_iri_chars : forall s, wf_iri s = true -> forallb iri_char s = true.
Proof. intros s H. unfold wf_iri in H. now apply andb_true_iff in H as [_ H]. Qed.

Lemma scheme_of_hd : forall s c r, scheme_of s = Some (c :: r) -> exists s', s = c :: s'.
Proof.
  intros [|x s] c r H; cbn in H; [discriminate|].
  destruct (x =? cCOLON); [discriminate|].
  destruct (scheme_of s); cbn in H; [|discriminate]. injection H as -> _. now exists s.
Qed.

Lemma abs_iri_hd : forall s, looks_like_absolute_iri s = true -> exists c s', s = c :: s' /\ is_ascii_alpha c = true.
Proof.
  intros s H. unfold looks_like_absolute_iri in H.
  destruct (scheme_of s) as [[|c r]|] eqn:E; try discriminate.
  apply andb_true_iff in H as [Ha _]. destruct (scheme_of_hd _ _ _ E) as [s' ->]. now exists c, s'.
Qed.

Lemma wf_iri_hd : forall s, wf_iri s = true -> exists c s', s = c :: s' /\ is_ascii_alpha c = true.
Proof. intros s H. unfold wf_iri in H. apply andb_true_iff in H as [H _]. now apply abs_iri_hd. Qed.

Lemma alpha_facts : forall c, is_ascii_alpha c = true ->
  (c =? cLT) = false /\ (c =? cDQ) = false /\ (c =? cUS) = false /\ (c =? cHASH) = false /\ is_ws c = false.
Proof.
  intros c H. unfold is_ascii_alpha in H. unfold is_ws, cLT, cDQ, cUS, cHASH. lia.
Qed.

Lemma bn_char_facts : forall c, bn_char c = true -> tok_plain c = true /\ is_ws c = false /\ (c =? cLF) = false.
Proof.
  intros c H. unfold bn_char, is_ascii_alnum, is_ascii_alpha, is_ascii_digit, cUS, cMINUS, cDOT in H.
  unfold tok_plain, is_ws, cLT, cGT, cDQ, cSP, cTAB, cLF. lia.
Qed.

Lemma forallb_last_not : forall (f g : N -> bool) l,
  (forall c, f c = true -> g c = false) -> l <> [] -> forallb f l = true -> last_not g l = true.
Proof.
  intros f g l Hfg. induction l as [|c l IH]; intros Hne H; [congruence|].
  cbn in H. apply andb_true_iff in H as [Hc Hl].
  destruct l as [|d l'].
  - cbn. now rewrite (Hfg c Hc).
  - change (last_not g (c :: d :: l')) with (last_not g (d :: l')). apply IH; [discriminate|assumption].
Qed.

Lemma wf_bnode_shape : forall s, wf_bnode s = true ->
  exists c r, s = cUS :: cCOLON :: c :: r /\ forallb bn_char (c :: r) = true.
Proof.
  intros s H. unfold wf_bnode in H. destruct s as [|a [|b [|c r]]]; try discriminate.
  apply andb_true_iff in H as [H H3]. apply andb_true_iff in H as [H1 H2].
  apply N.eqb_eq in H1, H2. subst. now exists c, r.
Qed.

Lemma wf_bnode_plain : forall s, wf_bnode s = true -> forallb tok_plain s = true /\ trim s = s /\ s <> [].
Proof.
  intros s H. destruct (wf_bnode_shape s H) as (c & r & -> & Hb).
  assert (Hp : forallb tok_plain (c :: r) = true).
  { apply forallb_forall. intros x Hx. rewrite forallb_forall in Hb. now apply bn_char_facts, Hb. }
  split; [|split; [|discriminate]].
  - change (forallb tok_plain (cUS :: cCOLON :: c :: r)) with (forallb tok_plain (c :: r)). exact Hp.
  - apply trim_id; [reflexivity|].
    change (cUS :: cCOLON :: c :: r) with ([cUS; cCOLON] ++ (c :: r)). rewrite last_not_app by discriminate.
    apply forallb_last_not with (f := bn_char); [|discriminate|assumption].
    intros x Hx. now apply bn_char_facts.
Qed.

Lemma tok_term_sp : forall R v ps rest, rterm R v ->
  p_go (cst ps) (R ++ cSP :: rest) = p_go (cst (ps ++ [R])) rest.
Proof.
  intros R v ps rest H. destruct H as [s H|s H|v].
  - rewrite go_angle by assumption. apply go_sp_clean.
  - destruct (wf_bnode_plain s H) as (Hp & Ht & Hne).
    unfold cst at 1. rewrite go_plain_body by assumption. cbn [app].
    rewrite go_plain_sp by assumption. now rewrite Ht.
  - apply go_quoted_sp.
Qed.

Lemma tok_term_end : forall R v ps, rterm R v -> p_go (cst ps) R = ps ++ [R].
Proof.
  intros R v ps H. destruct H as [s H|s H|v].
  - rewrite <- (app_nil_r (angle s)) at 1. rewrite go_angle by assumption. reflexivity.
  - destruct (wf_bnode_plain s H) as (Hp & Ht & Hne).
    rewrite <- (app_nil_r s) at 1. unfold cst. rewrite go_plain_body by assumption. cbn [app].
    rewrite go_plain_end by assumption. now rewrite Ht.
  - apply go_quoted_end.
Qed.

(* tokenize_rendered_line: the tokenizer returns exactly the rendered terms of a rendered line *)
Lemma tokenize_rendered_4 : forall S P O G s p o g, rterm S s -> rterm P p -> rterm O o -> rterm G g ->
  parts (S ++ cSP :: P ++ cSP :: O ++ cSP :: G) = [S; P; O; G].
Proof.
  intros. unfold parts. change p_init with (cst []).
  rewrite (tok_term_sp S s) by assumption. rewrite (tok_term_sp P p) by assumption.
  rewrite (tok_term_sp O o) by assumption. now rewrite (tok_term_end G g) by assumption.
Qed.

Lemma tokenize_rendered_3 : forall S P O s p o, rterm S s -> rterm P p -> rterm O o ->
  parts (S ++ cSP :: P ++ cSP :: O) = [S; P; O].
Proof.
  intros. unfold parts. change p_init with (cst []).
  rewrite (tok_term_sp S s) by assumption. rewrite (tok_term_sp P p) by assumption.
  now rewrite (tok_term_end O o) by assumption.
Qed.
