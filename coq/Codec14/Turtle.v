(* C14 - model of generate_turtle and parse_turtle (sparql_database.rs), for databases and documents without
   prefix declarations.  No proofs in this file. *)
Require Import List NArith Bool.
Import ListNotations.
Require Import KV.Codec14.Model.
Open Scope N_scope.

(* ---- generate_turtle ---------------------------------------------------------------------------- *)
(* String order of BTreeMap<String, _>: byte-wise on UTF-8 = lexicographic on code points *)
Fixpoint str_cmp (a b : str) : comparison :=
  match a, b with
  | [], [] => Eq
  | [], _ :: _ => Lt
  | _ :: _, [] => Gt
  | x :: a', y :: b' => match x ?= y with Eq => str_cmp a' b' | c => c end
  end.

(* entry(k).or_default() followed by an update of the value: sorted association list *)
Fixpoint bt_upd {V} (dflt : V) (f : V -> V) (k : str) (m : list (str * V)) : list (str * V) :=
  match m with
  | [] => [(k, f dflt)]
  | (k', v) :: r =>
      match str_cmp k k' with
      | Eq => (k', f v) :: r
      | Lt => (k, f dflt) :: m
      | Gt => (k', v) :: bt_upd dflt f k r
      end
  end.

Definition groups := list (str * list (str * list str)).
Definition add_triple (g : groups) (q : quad) : groups :=
  bt_upd [] (bt_upd [] (fun os => os ++ [qd_o q]) (qd_p q)) (qd_s q) g.
Definition group (triples : list quad) : groups := fold_left add_triple triples [].

Definition ttl_obj (o : str) : str := nt_obj o.      (* same three-way choice as generate_ntriples *)
Fixpoint ttl_objs (j : bool) (os : list str) : str :=      (* j: not the first object *)
  match os with
  | [] => []
  | o :: r => (if j then [cSP; cCOMMA] else []) ++ [cSP] ++ ttl_obj o ++ ttl_objs true r
  end.
Definition sCONT : str := [cSP; cSEMI; cSP].      (* " ; " (commit 5932e73: one statement per line) *)
Fixpoint ttl_preds (first : bool) (ps : list (str * list str)) : str :=
  match ps with
  | [] => []
  | (p, os) :: r =>
      (if first then [cSP] else sCONT) ++ angle p ++ ttl_objs false os ++
      (if is_nil r then sEND else []) ++ ttl_preds false r
  end.
Definition ttl_subject (e : str * list (str * list str)) : str :=
  nt_subj (fst e) ++ ttl_preds true (snd e).
(* generate_turtle of a database with an empty prefix map; `triples` = query_default_triples in store order *)
Definition gen_ttl_triples (triples : list quad) : str := flat_map ttl_subject (group triples).
Definition gen_ttl (db : list quad) : str := gen_ttl_triples (default_part db).

(* ---- tokenize_turtle_star_line --------------------------------------------------------------------- *)
Record tst := TS { t_toks : list str; t_cur : str; t_dep : N; t_uri : bool; t_lit : bool; t_esc : bool }.
Definition t_init : tst := TS [] [] 0 false false false.
Definition t_push (c : N) (s : tst) : tst := TS (t_toks s) (t_cur s ++ [c]) (t_dep s) (t_uri s) (t_lit s) (t_esc s).
Definition t_emit (s : tst) : tst :=                 (* tokens.push(current.trim()); current.clear() *)
  TS (t_toks s ++ [trim (t_cur s)]) [] (t_dep s) (t_uri s) (t_lit s) (t_esc s).
Definition t_flush (s : tst) : tst :=                (* push the trimmed token only if it is not empty *)
  if is_nil (trim (t_cur s)) then s else t_emit s.
Definition t_tok (c : N) (s : tst) : tst := TS (t_toks s ++ [[c]]) (t_cur s) (t_dep s) (t_uri s) (t_lit s) (t_esc s).
Definition t_set_dep (d : N) (s : tst) : tst := TS (t_toks s) (t_cur s) d (t_uri s) (t_lit s) (t_esc s).
Definition t_set_uri (b : bool) (s : tst) : tst := TS (t_toks s) (t_cur s) (t_dep s) b (t_lit s) (t_esc s).
Definition t_set_lit (b : bool) (s : tst) : tst := TS (t_toks s) (t_cur s) (t_dep s) (t_uri s) b (t_esc s).
Definition t_set_esc (b : bool) (s : tst) : tst := TS (t_toks s) (t_cur s) (t_dep s) (t_uri s) (t_lit s) b.

Definition t_step (s : tst) (c : N) (pk : option N) : tst * bool :=
  if t_esc s then (t_push c (t_set_esc false s), false)
  else if (c =? cBS) && t_lit s then (t_set_esc true (t_push c s), false)
  else if (c =? cDQ) && ((negb (t_uri s) && (t_dep s =? 0)) || (0 <? t_dep s)) then
    (t_push c (t_set_lit (negb (t_lit s)) s), false)
  else if (c =? cLT) && negb (t_lit s) then
    if peek_is cLT pk && negb (t_uri s) then (t_set_dep (t_dep s + 1) (t_push cLT (t_push c s)), true)
    else if 0 <? t_dep s then
      if peek_is cLT pk then (t_set_dep (t_dep s + 1) (t_push cLT (t_push c s)), true)
      else (t_push c s, false)
    else (t_push c (t_set_uri true s), false)
  else if (c =? cGT) && negb (t_lit s) then
    if (0 <? t_dep s) && negb (t_uri s) then
      if peek_is cGT pk then
        let s1 := t_set_dep (t_dep s - 1) (t_push cGT (t_push c s)) in
        (if t_dep s1 =? 0 then t_emit s1 else s1, true)
      else (t_push c s, false)
    else if t_uri s then
      let s1 := t_push c (t_set_uri false s) in
      (if t_dep s1 =? 0 then t_emit s1 else s1, false)
    else (t_push c s, false)
  else if ((c =? cSEMI) || (c =? cCOMMA) || (c =? cDOT)) && (t_dep s =? 0) && negb (t_uri s) && negb (t_lit s) then
    (t_tok c (t_flush s), false)
  else if ((c =? cSP) || (c =? cTAB) || (c =? cLF) || (c =? cCR)) && (t_dep s =? 0) && negb (t_uri s) && negb (t_lit s) then
    (t_flush s, false)
  else (t_push c s, false).

Fixpoint t_go (s : tst) (l : str) : list str :=
  match l with
  | [] => t_toks (t_flush s)
  | c :: r =>
      let '(s1, skip) := t_step s c (hd_error r) in
      if skip then match r with [] => t_toks (t_flush s1) | _ :: r' => t_go s1 r' end
      else t_go s1 r
  end.
Definition tokenize_ttl (line : str) : list str := t_go t_init line.

(* ---- clean_turtle_term / resolve_query_term ---------------------------------------------------------- *)
(* commit dbe5296: every term that starts with a quote is decoded like clean_ntriples_term does; total *)
Definition clean_ttl (term0 : str) : str :=
  let term := trim term0 in
  if starts_with sLTLT term then term
  else if starts_with [cLT] term && ends_with [cGT] term then strip1 term
  else if starts_with [cDQ] term then
    let fallback := if (2 <=? N.of_nat (length term)) && ends_with [cDQ] term then strip1 term
                    else trim_matches cDQ term in
    match decode term with
    | Some (v, rest) =>
        if is_nil rest then v
        else if starts_with [cCARET; cCARET] rest then v
        else if starts_with [cAT] rest then v ++ rest
        else fallback
    | None => fallback
    end
  else trim_matches cDQ term.

(* resolve_query_term with no prefix known (neither in the argument nor in the database) *)
Definition resolve (term : str) : str :=
  if starts_with sLTLT term && ends_with sGTGT term then term
  else if starts_with [cLT] term && ends_with [cGT] term then drop_end (N.eqb cGT) (drop_while (N.eqb cLT) term)
  else if starts_with [cDQ] term && ends_with [cDQ] term then trim_matches cDQ term
  else term.

(* ---- parse_turtle: the statement state machine over the tokens of ONE line ------------------------------ *)
Inductive tres := TOk (triples : list quad) | TUnsupported.   (* TUnsupported: a prefix declaration *)

Record gst := GS { g_subj : option str; g_pred : option str; g_objs : list str;
                   g_es : bool; g_ep : bool; g_eo : bool; g_out : list quad; g_bad : option tres }.
Definition g_init : gst := GS None None [] true false false [] None.

Definition sANN_OPEN := [cLBRACE; cBAR].   Definition sANN_CLOSE := [cBAR; cRBRACE].

(* str::find: the text before the first occurrence of p and the text after it *)
Fixpoint find_sub (p l : str) : option (str * str) :=
  if starts_with p l then Some ([], skipn (length p) l)
  else match l with
       | [] => None
       | c :: r => match find_sub p r with Some (a, b) => Some (c :: a, b) | None => None end
       end.
(* commit e7e251c: the opening marker is searched only after the end of a leading quoted literal
   (object_raw[after_literal..]) *)
Definition ann_searched (object_raw : str) : str :=
  if starts_with [cDQ] object_raw then
    match decode object_raw with Some (_, rest) => rest | None => object_raw end
  else object_raw.
(* splitn(2, char::is_whitespace) *)
Fixpoint split_ws1 (l : str) : str * option str :=
  match l with
  | [] => ([], None)
  | c :: r => if is_ws c then ([], Some r) else let '(a, b) := split_ws1 r in (c :: a, b)
  end.

(* the main triple of flush_object and its annotation triples *)
Definition g_emit (s : gst) (sr pr object_part : str) (anns : list (str * str)) : gst :=
  let s2 := resolve (clean_ttl sr) in let p2 := resolve (clean_ttl pr) in let o2 := resolve (clean_ttl object_part) in
  let t := if starts_with sLTLT s2 || starts_with sLTLT o2
           then (ets s2, ets p2, ets o2, None)
           else (s2, p2, o2, None) in
  let qt := sLTLT ++ [cSP] ++ s2 ++ [cSP] ++ p2 ++ [cSP] ++ o2 ++ [cSP] ++ sGTGT in
  let ats := map (fun a => (ets qt, ets (resolve (clean_ttl (fst a))), ets (resolve (clean_ttl (snd a))), None : option str)) anns in
  GS (g_subj s) (g_pred s) [] (g_es s) (g_ep s) (g_eo s) (g_out s ++ [t] ++ ats) (g_bad s).

(* flush_object *)
Definition g_flush (s : gst) : gst :=
  match g_subj s, g_pred s with
  | Some sr, Some pr =>
      if is_nil (g_objs s) then s
      else
        let object_raw := join [cSP] (g_objs s) in
        let searched := ann_searched object_raw in
        let lit_part := firstn (length object_raw - length searched) object_raw in
        match find_sub sANN_OPEN searched with
        | None => g_emit s sr pr object_raw []
        | Some (pre, post) =>
            match find_sub sANN_CLOSE post with
            | None => g_emit s sr pr object_raw []
            | Some (content, _) =>
                let obj := trim (lit_part ++ pre) in
                match split_ws1 (trim content) with
                | (a, Some b) => g_emit s sr pr obj [(a, b)]
                | (_, None) => g_emit s sr pr obj []
                end
            end
        end
  | _, _ => s
  end.

Definition g_step (s : gst) (tok : str) : gst :=
  if str_eqb tok [cDOT] then
    let s1 := g_flush s in GS None None (g_objs s1) true false false (g_out s1) (g_bad s1)
  else if str_eqb tok [cSEMI] then
    let s1 := g_flush s in GS (g_subj s1) None (g_objs s1) (g_es s1) true false (g_out s1) (g_bad s1)
  else if str_eqb tok [cCOMMA] then
    let s1 := g_flush s in GS (g_subj s1) (g_pred s1) (g_objs s1) (g_es s1) (g_ep s1) true (g_out s1) (g_bad s1)
  else if g_es s then GS (Some tok) (g_pred s) (g_objs s) false true (g_eo s) (g_out s) (g_bad s)
  else if g_ep s then GS (g_subj s) (Some tok) (g_objs s) (g_es s) false true (g_out s) (g_bad s)
  else GS (g_subj s) (g_pred s) (g_objs s ++ [tok]) (g_es s) (g_ep s) (g_eo s) (g_out s) (g_bad s).

Definition sPREFIX1 : str := [64; 112; 114; 101; 102; 105; 120].     (* "@prefix" *)
Definition sPREFIX2 : str := [80; 82; 69; 70; 73; 88].               (* "PREFIX" *)

(* one iteration of the line loop of parse_turtle (all statement state is local to the iteration) *)
Definition ttl_load_line (raw : str) : tres :=
  let line := trim raw in
  if is_comment_or_empty line then TOk []
  else if starts_with sPREFIX1 line || starts_with sPREFIX2 line then TUnsupported
  else
    let s := g_flush (fold_left g_step (tokenize_ttl line) g_init) in
    match g_bad s with
    | Some b => b
    | None => TOk (g_out s)
    end.

Fixpoint ttl_collect (rs : list tres) : tres :=
  match rs with
  | [] => TOk []
  | TOk a :: r => match ttl_collect r with TOk b => TOk (a ++ b) | e => e end
  | e :: _ => e
  end.
Definition load_ttl (text : str) : tres := ttl_collect (map ttl_load_line (lines text)).
