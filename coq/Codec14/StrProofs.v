(* C14 - lemmas about the string helpers of Model.v (trim, prefixes, lines). *)
Require Import List NArith Bool Lia.
Import ListNotations.
Require Import KV.Codec14.Model.
Open Scope N_scope.

Lemma str_eqb_refl : forall a, str_eqb a a = true.
Proof. induction a as [|x a IH]; cbn; [reflexivity|]. now rewrite N.eqb_refl, IH. Qed.

Lemma str_eqb_eq : forall a b, str_eqb a b = true <-> a = b.
Proof.
  induction a as [|x a IH]; destruct b as [|y b]; cbn; split; intro H; try reflexivity; try discriminate.
  - apply andb_true_iff in H as [H1 H2]. apply N.eqb_eq in H1. apply IH in H2. now subst.
  - injection H as -> ->. now rewrite N.eqb_refl, str_eqb_refl.
Qed.

Lemma starts_with_app : forall p r, starts_with p (p ++ r) = true.
Proof. induction p as [|x p IH]; intro r; cbn; [reflexivity|]. now rewrite N.eqb_refl, IH. Qed.

Lemma starts_with_nil_r : forall p, p <> [] -> starts_with p [] = false.
Proof. destruct p; [congruence|reflexivity]. Qed.

(* ---- drop_while / drop_end ---------------------------------------------------------------------- *)
Definition hd_not (f : N -> bool) (l : str) : bool := match l with c :: _ => negb (f c) | [] => false end.
Fixpoint last_not (f : N -> bool) (l : str) : bool :=
  match l with
  | [] => false
  | [d] => negb (f d)
  | _ :: r => last_not f r
  end.

Lemma drop_while_hd : forall f l, hd_not f l = true -> drop_while f l = l.
Proof. intros f [|c r] H; cbn in *; [reflexivity|]. apply negb_true_iff in H. now rewrite H. Qed.

Lemma drop_end_last : forall f l, last_not f l = true -> drop_end f l = l.
Proof.
  intros f. induction l as [|c r IH]; intro H; [reflexivity|].
  destruct r as [|d r'].
  - cbn in *. apply negb_true_iff in H. now rewrite H.
  - change (last_not f (c :: d :: r')) with (last_not f (d :: r')) in H.
    change (drop_end f (c :: d :: r')) with (match drop_end f (d :: r') with [] => if f c then [] else [c] | r0 => c :: r0 end).
    now rewrite (IH H).
Qed.

Lemma last_not_app : forall f a b, b <> [] -> last_not f (a ++ b) = last_not f b.
Proof.
  intros f. induction a as [|c a IH]; intros b Hb; [reflexivity|].
  cbn [app]. destruct (a ++ b) eqn:E.
  - destruct a, b; cbn in E; congruence.
  - rewrite <- E. change (last_not f (c :: a ++ b)) with (match a ++ b with [] => negb (f c) | _ => last_not f (a ++ b) end).
    rewrite E. rewrite <- E. now apply IH.
Qed.

Lemma last_not_single : forall f d, last_not f [d] = negb (f d).
Proof. reflexivity. Qed.

Lemma drop_end_snoc_true : forall f l c, f c = true -> drop_end f (l ++ [c]) = drop_end f l.
Proof.
  intros f. induction l as [|x l IH]; intros c Hc; cbn.
  - now rewrite Hc.
  - now rewrite IH.
Qed.

Lemma hd_not_app : forall f a b, hd_not f a = true -> hd_not f (a ++ b) = true.
Proof. intros f [|c a] b H; cbn in *; [discriminate|assumption]. Qed.

Lemma trim_id : forall l, hd_not is_ws l = true -> last_not is_ws l = true -> trim l = l.
Proof. intros l H1 H2. unfold trim, trim_start, trim_end. rewrite drop_while_hd by assumption. now apply drop_end_last. Qed.

(* removing the final character *)
Lemma removelast_snoc : forall (l : str) c, removelast (l ++ [c]) = l.
Proof. intros. now rewrite removelast_app, app_nil_r by discriminate. Qed.

Lemma ends_with_snoc : forall l c, ends_with [c] (l ++ [c]) = true.
Proof. intros. unfold ends_with. rewrite rev_app_distr. cbn. now rewrite N.eqb_refl. Qed.

Lemma ends_with_app : forall p l, ends_with p (l ++ p) = true.
Proof. intros. unfold ends_with. rewrite rev_app_distr. apply starts_with_app. Qed.

(* ---- lines ------------------------------------------------------------------------------------------ *)
Definition no_lf (l : str) : bool := forallb (fun c => negb (c =? cLF)) l.

Lemma lines_line : forall l rest, no_lf l = true -> lines (l ++ cLF :: rest) = l :: lines rest.
Proof.
  induction l as [|c l IH]; intros rest H.
  - reflexivity.
  - cbn in H. apply andb_true_iff in H as [Hc Hl]. apply negb_true_iff in Hc.
    cbn [app]. cbn [lines]. rewrite Hc.
    destruct (l ++ cLF :: rest) eqn:E; [destruct l; discriminate|].
    rewrite <- E. now rewrite (IH rest Hl).
Qed.

Lemma lines_flat_map : forall {A} (body : A -> str) (db : list A),
  (forall q, In q db -> no_lf (body q) = true) ->
  lines (flat_map (fun q => body q ++ [cLF]) db) = map body db.
Proof.
  induction db as [|q db IH]; intro H; [reflexivity|].
  cbn [flat_map map]. rewrite <- app_assoc. cbn [app].
  rewrite lines_line by (apply H; now left).
  f_equal. apply IH. intros; apply H; now right.
Qed.
