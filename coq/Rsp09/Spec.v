(* C09 - specification: what the property text says about the reports of a time window, stated
   over the stream alone (no window state).  Executable boolean versions are used by the check. *)
Require Import List NArith Bool Sorted.
Require Import KV.Rsp09.Model.
Import ListNotations.
Open Scope N_scope.

(* a stream is a list of (item, timestamp) *)
Definition ev_item (e : N * N) : N := fst e.
Definition ev_ts (e : N * N) : N := snd e.

(* in-order: timestamps non-decreasing (duplicates and arbitrary gaps allowed) *)
Definition in_order (evs : list (N * N)) : Prop := StronglySorted N.le (map snd evs).

(* timestamp t lies in [c - w, c)   (c - w may be negative: written without subtraction) *)
Definition in_interval (w c t : N) : Prop := c <= t + w /\ t < c.
Definition in_intervalb (w c t : N) : bool := (c <=? t + w) && (t <? c).

(* the events of the stream whose timestamp lies in [c - w, c) *)
Definition interval_evs (w c : N) (evs : list (N * N)) : list (N * N) :=
  filter (fun e => in_intervalb w c (snd e)) evs.

(* `cont` is precisely the set of items of the stream with a timestamp in [c - w, c), each once,
   each with its latest timestamp in the interval: none missing, none foreign. *)
Definition content_exact (w c : N) (evs : list (N * N)) (cont : content) : Prop :=
  NoDup (map fst (elems cont)) /\
  forall i u, In (i, u) (elems cont) <->
    (In (i, u) evs /\ in_interval w c u /\
     forall u', In (i, u') evs -> in_interval w c u' -> u' <= u).

(* set-level reading: the items of the content are exactly the items with a timestamp in the interval *)
Definition content_items_exact (w c : N) (evs : list (N * N)) (cont : content) : Prop :=
  forall i, In i (map fst (elems cont)) <-> exists u, In (i, u) evs /\ in_interval w c u.

(* one firing is a correct report of one aligned interval *)
Definition firing_ok (w s : N) (evs : list (N * N)) (f : firing) : Prop :=
  (exists x, nth_error evs (N.to_nat (fidx f)) = Some (x, ftime f)) /\
  exists c, fwin f = (c - w, c) /\ N.divide s c /\ c <= ftime f /\ content_exact w c evs (fcont f).

(* firings are ordered: triggering times strictly increase, intervals do not go back
   (closes even strictly increase, opens are non-decreasing) *)
Definition firing_lt (f g : firing) : Prop :=
  fidx f < fidx g /\ ftime f < ftime g /\ wclose (fwin f) < wclose (fwin g) /\ wopen (fwin f) <= wopen (fwin g).

(* timestamp of the event before position `pre` (0 = t_0 for the first event) *)
Definition prev_ts (pre : list (N * N)) : N := last (map snd pre) 0.

(* interval with close c is reported exactly once in fs, by the event at index k *)
Definition reported_once_at (fs : list firing) (c k : N) : Prop :=
  exists f, In f fs /\ wclose (fwin f) = c /\ fidx f = k /\
            forall g, In g fs -> wclose (fwin g) = c -> g = f.

(* The known class C09-hopping-gap: slide > width and no event timestamp in [c - w, c]. *)
Definition known_gap (w s : N) (evs : list (N * N)) (c : N) : bool :=
  (w <? s) && forallb (fun e => negb ((c <=? snd e + w) && (snd e <=? c))) evs.

(* the three clauses of the property, for an arbitrary list of firings fs observed on the stream evs *)
Definition spec_holds (w s : N) (evs : list (N * N)) (fs : list firing) : Prop :=
  (forall f, In f fs -> firing_ok w s evs f) /\
  StronglySorted firing_lt fs /\
  (forall pre x t post c, evs = pre ++ (x, t) :: post ->
     prev_ts pre < t -> t <= prev_ts pre + s -> N.divide s c -> prev_ts pre < c -> c <= t ->
     known_gap w s evs c = false -> reported_once_at fs c (N.of_nat (length pre))).

(* ---------------------------------------------------------------------------------------------- *)
(* Executable checker of the three clauses on an arbitrary list of firings (used by the check on the
   implementation's output).  Returns the list of violated clauses:
     1 = a firing is not an exact report of an aligned interval (or does not belong to an event)
     2 = firings not strictly ordered
     3 = an interval that closes between two events at most one slide apart is not reported exactly
         once at the closing event (outside the known class)
   and separately the closes skipped inside the known class. *)
Definition lookup (i : N) (l : list (N * N)) : option N :=
  match find (fun p => N.eqb (fst p) i) l with Some p => Some (snd p) | None => None end.

Fixpoint nodupb (l : list N) : bool :=
  match l with [] => true | a :: r => negb (existsb (N.eqb a) r) && nodupb r end.

Definition content_exactb (w c : N) (evs : list (N * N)) (cont : content) : bool :=
  nodupb (map fst (elems cont)) &&
  forallb (fun p => existsb (fun e => N.eqb (fst e) (fst p) && N.eqb (snd e) (snd p)) evs
                    && in_intervalb w c (snd p)) (elems cont) &&
  forallb (fun e => negb (in_intervalb w c (snd e)) ||
                    match lookup (fst e) (elems cont) with Some u => snd e <=? u | None => false end) evs.

Definition firing_okb (w s : N) (evs : list (N * N)) (f : firing) : bool :=
  match nth_error evs (N.to_nat (fidx f)) with
  | Some (_, t) => N.eqb t (ftime f)
  | None => false
  end &&
  let c := wclose (fwin f) in
  N.eqb (wopen (fwin f)) (c - w) && N.eqb (c mod s) 0 && (c <=? ftime f) && content_exactb w c evs (fcont f).

Definition firing_ltb (f g : firing) : bool :=
  (fidx f <? fidx g) && (ftime f <? ftime g) && (wclose (fwin f) <? wclose (fwin g))
  && (wopen (fwin f) <=? wopen (fwin g)).

Fixpoint chainb (fs : list firing) : bool :=
  match fs with
  | f :: ((g :: _) as r) => firing_ltb f g && chainb r
  | _ => true
  end.

(* closes (tp < c <= t, s | c) at each event with tp < t <= tp + s, with the index of the event *)
Fixpoint closings (s : N) (tp k : N) (evs : list (N * N)) : list (N * N) :=
  match evs with
  | [] => []
  | (_, t) :: r =>
      let c := (t / s) * s in
      (if (tp <? t) && (t <=? tp + s) && (tp <? c) then [(c, k)] else []) ++ closings s t (k + 1) r
  end.

Definition once_atb (fs : list firing) (ck : N * N) : bool :=
  match filter (fun f => N.eqb (wclose (fwin f)) (fst ck)) fs with
  | [f] => N.eqb (fidx f) (snd ck)
  | _ => false
  end.

Definition spec_check (w s : N) (evs : list (N * N)) (fs : list firing) : list N * list N :=
  let cl := closings s 0 0 evs in
  ((if forallb (firing_okb w s evs) fs then [] else [1]) ++
   (if chainb fs then [] else [2]) ++
   (if forallb (fun ck => known_gap w s evs (fst ck) || once_atb fs ck) cl then [] else [3]),
   map fst (filter (fun ck => known_gap w s evs (fst ck) && negb (once_atb fs ck)) cl)).
