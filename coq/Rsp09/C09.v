(* C09 - A time window reports exactly the stream items of one aligned interval.
   This file contains only the property theorems; each is closed by `exact <lemma>` and followed by
   Print Assumptions.  The lemmas live in ContentProofs.v, ScopeProofs.v, StepProofs.v, RunProofs.v.

   Setting: `run w s evs` (Model.v) is the list of firings of a CSPARQLWindow of width w and slide s
   (ReportStrategy::OnWindowClose, Tick::TimeDriven, t_0 = 0) fed the stream evs : list (item, timestamp)
   through add_to_window, one event after the other.  A firing records the index and timestamp of the
   triggering event, the reported window (open, close) and its content (item -> latest timestamp).
   Every theorem is for every width, every slide >= 1 and every stream with non-decreasing timestamps
   (`in_order`), of any length, with duplicates and arbitrary gaps.
   Arithmetic is exact (N); the code's f64 computation in `scope` agrees with it for values below 2^53
   (hypothesis of the correspondence, not proved here). *)
Require Import List NArith Bool Sorted.
Require Import KV.Rsp09.Model KV.Rsp09.Spec KV.Rsp09.RunProofs KV.Rsp09.CheckerProofs.
Import ListNotations.
Open Scope N_scope.

(* Content exactness.  Every firing f is triggered by the event at position `fidx f` (timestamp
   `ftime f`), and there is a close c with: the reported window is [c - w, c), s divides c,
   c <= triggering timestamp, and (firing_ok / content_exact) the content holds each item once and
      (i, u) is in the content  <->  (i, u) is an event of the stream, c - w <= u < c, and u is the
                                      latest timestamp of i in [c - w, c)
   - none missing, none foreign.  Second conjunct: the same at the level of item sets. *)
Theorem C09_content_exact :
  forall (w s : N) (evs : list (N * N)),
    1 <= w -> 1 <= s -> in_order evs ->
    forall f, In f (run w s evs) ->
      firing_ok w s evs f /\
      content_items_exact w (wclose (fwin f)) evs (fcont f).
Proof. exact thm_content_exact. Qed.
Print Assumptions C09_content_exact.

(* Monotonicity.  For any two firings f before g in the run: g is triggered by a later event, at a
   strictly larger timestamp, its interval closes strictly later and opens no earlier. *)
Theorem C09_monotone :
  forall (w s : N) (evs : list (N * N)),
    1 <= w -> 1 <= s -> in_order evs ->
    StronglySorted firing_lt (run w s evs).
Proof. exact thm_monotone. Qed.
Print Assumptions C09_monotone.

(* Exactly once, outside the known class.  Let (x, t) be an event whose predecessor has timestamp
   tp = prev_ts pre (t_0 = 0 for the first event) with tp < t <= tp + s, and let c be a multiple of the
   slide with tp < c <= t (the interval [c - w, c) closes at this event).  Unless the case is in the
   class C09-hopping-gap (slide > width and no event timestamp in [c - w, c]), the interval is reported
   by this event and by no other firing of the run. *)
Theorem C09_once_general :
  forall (w s : N) (evs pre : list (N * N)) (x t : N) (post : list (N * N)) (c : N),
    1 <= w -> 1 <= s -> in_order evs -> evs = pre ++ (x, t) :: post ->
    prev_ts pre < t -> t <= prev_ts pre + s ->
    N.divide s c -> prev_ts pre < c -> c <= t ->
    known_gap w s evs c = false ->
    reported_once_at (run w s evs) c (N.of_nat (length pre)).
Proof. exact thm_once_general. Qed.
Print Assumptions C09_once_general.

(* Exactly once for sliding and tumbling windows (width >= slide): no side condition. *)
Theorem C09_once :
  forall (w s : N) (evs pre : list (N * N)) (x t : N) (post : list (N * N)) (c : N),
    1 <= s -> s <= w -> in_order evs -> evs = pre ++ (x, t) :: post ->
    prev_ts pre < t -> t <= prev_ts pre + s ->
    N.divide s c -> prev_ts pre < c -> c <= t ->
    reported_once_at (run w s evs) c (N.of_nat (length pre)).
Proof. exact thm_once. Qed.
Print Assumptions C09_once.

(* The full statement "every interval that closes is reported exactly once" (C09_once_general without
   the known_gap hypothesis) is false for hopping windows: w = 1, s = 3, stream [1; 4]; the interval
   [2, 3) closes at the second event, one slide after the first, and no firing reports it. *)
Theorem C09_gap_refuted :
  exists (w s : N) (evs : list (N * N)) (c : N) (pre : list (N * N)) (x t : N) (post : list (N * N)),
    1 <= w /\ 1 <= s /\ in_order evs /\ evs = pre ++ (x, t) :: post /\
    prev_ts pre < t /\ t <= prev_ts pre + s /\ N.divide s c /\ prev_ts pre < c /\ c <= t /\
    known_gap w s evs c = true /\
    forall f, In f (run w s evs) -> wclose (fwin f) <> c.
Proof.
  exists 1, 3, [(0,1);(1,4)], 3, [(0,1)], 1, 4, [].
  split; [vm_compute; congruence|]. split; [vm_compute; congruence|].
  split; [unfold in_order; cbn; repeat constructor; vm_compute; congruence|].
  split; [reflexivity|]. split; [vm_compute; reflexivity|]. split; [vm_compute; congruence|].
  split; [exists 1; reflexivity|]. split; [vm_compute; reflexivity|]. split; [vm_compute; congruence|].
  split; [vm_compute; reflexivity|]. vm_compute. intros f [].
Qed.
Print Assumptions C09_gap_refuted.

(* Model adequacy: the fuel of the model's scope loop always suffices (the totalising branch of
   Model.scope is dead code). *)
Theorem C09_model_scope_total :
  forall (w s e : N) (act : list (win * content)), 1 <= s -> scope_opt w s e act <> None.
Proof. exact thm_scope_total. Qed.
Print Assumptions C09_model_scope_total.

(* The executable checker used by the correspondence check (Spec.spec_check, evaluated by
   Run.model_check / Run.check_firings) decides the property: it reports no violated clause for a list of
   firings fs observed on evs iff fs satisfies the three clauses (every firing an exact aligned report;
   strictly ordered; every closing interval outside the known class reported exactly once at its event). *)
Theorem C09_checker_decides :
  forall (w s : N) (evs : list (N * N)) (fs : list firing), 1 <= s ->
    (fst (spec_check w s evs fs) = [] <-> spec_holds w s evs fs).
Proof. exact thm_checker_decides. Qed.
Print Assumptions C09_checker_decides.

(* ... and it accepts every run of the model on an ordered stream (the three theorems above, combined). *)
Theorem C09_checker_accepts_model :
  forall (w s : N) (evs : list (N * N)), 1 <= w -> 1 <= s -> in_order evs ->
    fst (spec_check w s evs (run w s evs)) = [].
Proof. exact thm_checker_accepts_model. Qed.
Print Assumptions C09_checker_accepts_model.

(* ---------------------------------------------------------------------------------------------- *)
(* non-vacuity *)

(* a concrete run: width 3, slide 2; item 0 occurs twice; four reports, the third one keeps the latest
   timestamp of item 0 *)
Example C09_example_run :
  run 3 2 [(0,1); (1,2); (0,3); (2,4); (3,9)] =
  [ mkF 1 2 (0,2) (mkC [(0,1)] 1);
    mkF 3 4 (1,4) (mkC [(0,3); (1,2)] 3);
    mkF 4 9 (3,6) (mkC [(0,3); (2,4)] 4) ].
Proof. vm_compute. reflexivity. Qed.

Example C09_example_in_order : in_order [(0,1); (1,2); (0,3); (2,4); (3,9)].
Proof. unfold in_order; cbn. repeat constructor; vm_compute; congruence. Qed.

(* the hypotheses of C09_once are satisfiable with a non-empty report: the interval [1,4) closes at
   the event (2,4) of the stream above and is reported exactly once, by the event at index 3 *)
Example C09_example_once :
  reported_once_at (run 3 2 [(0,1); (1,2); (0,3); (2,4); (3,9)]) 4 3.
Proof.
  apply (C09_once 3 2 _ [(0,1); (1,2); (0,3)] 2 4 [(3,9)] 4).
  - vm_compute; congruence.
  - vm_compute; congruence.
  - exact C09_example_in_order.
  - reflexivity.
  - vm_compute; reflexivity.
  - vm_compute; congruence.
  - exists 2; reflexivity.
  - vm_compute; reflexivity.
  - vm_compute; congruence.
Qed.

(* the hypotheses of C09_once_general are satisfiable for a hopping window (slide > width) outside the
   known class: w = 2, s = 4, the interval [6,8) contains the event timestamp 7 *)
Example C09_example_once_hopping :
  reported_once_at (run 2 4 [(0,5); (1,7); (2,9)]) 8 2.
Proof.
  apply (C09_once_general 2 4 _ [(0,5); (1,7)] 2 9 [] 8).
  - vm_compute; congruence.
  - vm_compute; congruence.
  - unfold in_order; cbn. repeat constructor; vm_compute; congruence.
  - reflexivity.
  - vm_compute; reflexivity.
  - vm_compute; congruence.
  - exists 2; reflexivity.
  - vm_compute; reflexivity.
  - vm_compute; congruence.
  - vm_compute; reflexivity.
Qed.

(* the executable Spec checker accepts the model's run on the example and flags the gap witness only
   as a known-class skip *)
Example C09_example_check : spec_check 3 2 [(0,1); (1,2); (0,3); (2,4); (3,9)] (run 3 2 [(0,1); (1,2); (0,3); (2,4); (3,9)]) = ([], []).
Proof. vm_compute. reflexivity. Qed.
Example C09_example_check_gap : spec_check 1 3 [(0,1); (1,4)] (run 1 3 [(0,1); (1,4)]) = ([], [3]).
Proof. vm_compute. reflexivity. Qed.
