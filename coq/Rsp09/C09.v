(* C09 - property theorems (thin slice; extended below as proofs land). *)
Require Import List NArith Bool.
Require Import KV.Rsp09.Model KV.Rsp09.Spec.
Import ListNotations.
Open Scope N_scope.

Theorem C09_gap_refuted :
  exists w s evs c pre x t post,
    1 <= w /\ 1 <= s /\ in_order evs /\ evs = pre ++ (x, t) :: post /\
    prev_ts pre < t /\ t <= prev_ts pre + s /\ N.divide s c /\ prev_ts pre < c /\ c <= t /\
    known_gap w s evs c = true /\
    forall f, In f (run w s evs) -> wclose (fwin f) <> c.
Proof.
  exists 1, 3, [(0,1);(1,4)], 3, [(0,1)], 1, 4, [].
  split; [vm_compute; congruence|]. split; [vm_compute; congruence|].
  split; [unfold in_order; cbn; repeat constructor; vm_compute; congruence|].
  split; [reflexivity|]. split; [vm_compute; reflexivity|]. split; [vm_compute; congruence|].
  split; [exists 1; reflexivity|]. split; [vm_compute; reflexivity|]. split; [vm_compute; congruence|].
  split; [vm_compute; reflexivity|]. vm_compute. intros f [].
Qed.
Print Assumptions C09_gap_refuted.
