(* C09 - lemmas about the pieces of add_to_window: scope, the keep/add filter, max-close selection. *)
Require Import List NArith ZArith Bool Lia ZifyBool ZifyN.
Require Import KV.Rsp09.Model KV.Rsp09.Spec KV.Rsp09.ContentProofs.
Import ListNotations.
Open Scope N_scope.

Definition keys (act : list (win * content)) : list win := map fst act.

Lemma win_eqb_eq : forall a b, win_eqb a b = true <-> a = b.
Proof.
  intros [a1 a2] [b1 b2]. unfold win_eqb. cbn. rewrite andb_true_iff, !N.eqb_eq.
  split; [intros [-> ->]; reflexivity|intros E; inversion E; auto].
Qed.

Lemma wmem_spec : forall wn act, wmem wn act = true <-> In wn (keys act).
Proof.
  intros wn act. unfold wmem, keys. rewrite existsb_exists. split.
  - intros ([wn' c] & Hin & E). apply win_eqb_eq in E. cbn in E. subst wn'.
    change wn with (fst (wn, c)). apply in_map. assumption.
  - intros H. apply in_map_iff in H. destruct H as ([wn' c] & E & Hin). cbn in E. subst wn'.
    exists (wn, c). split; [assumption|]. apply win_eqb_eq. reflexivity.
Qed.

(* ---------------------------------------------------------------------------------------------- *)
(* one iteration of the scope loop: insert if absent *)
Definition insert_absent (wn : win) (act : list (win * content)) :=
  if wmem wn act then act else act ++ [(wn, empty_content)].

Lemma insert_absent_spec : forall wn act,
  (forall wc, In wc act -> In wc (insert_absent wn act)) /\
  (forall wc, In wc (insert_absent wn act) -> In wc act \/ (wc = (wn, empty_content) /\ ~ In wn (keys act))) /\
  In wn (keys (insert_absent wn act)) /\
  (NoDup (keys act) -> NoDup (keys (insert_absent wn act))).
Proof.
  intros wn act. unfold insert_absent. destruct (wmem wn act) eqn:E.
  - apply wmem_spec in E. repeat split; auto.
  - assert (Hn : ~ In wn (keys act)) by (rewrite <- wmem_spec; congruence).
    repeat split.
    + intros wc H. apply in_or_app; auto.
    + intros wc H. apply in_app_or in H. destruct H as [H|[H|[]]]; [left; assumption|right; split; auto].
    + unfold keys. rewrite map_app. apply in_or_app. right. left. reflexivity.
    + intros Hnd. unfold keys. rewrite map_app. cbn.
      (* NoDup (keys act ++ [wn]) *)
      clear - Hn Hnd. unfold keys in *. induction (map fst act) as [|a l IH]; cbn.
      * constructor; [intros []|constructor].
      * inversion Hnd; subst. constructor.
        -- intros F. apply in_app_or in F. destruct F as [F|[F|[]]]; [contradiction|]. subst. apply Hn. left; reflexivity.
        -- apply IH; [|assumption]. intros F. apply Hn. right; assumption.
Qed.

Definition mkwin (w : N) (o : Z) : win := (Z.to_N o, Z.to_N (o + Z.of_N w)).

Lemma scope_loop_unfold : forall f w s e o act,
  scope_loop (S f) w s e o act =
  let act' := insert_absent (mkwin w o) act in
  if (o + Z.of_N s >? Z.of_N e)%Z then Some act' else scope_loop f w s e (o + Z.of_N s)%Z act'.
Proof. reflexivity. Qed.

Lemma scope_loop_spec : forall w s e, 1 <= s -> forall fuel o act act',
  scope_loop fuel w s e o act = Some act' ->
  (forall wc, In wc act -> In wc act') /\
  (forall wc, In wc act' -> In wc act \/
      (snd wc = empty_content /\ ~ In (fst wc) (keys act) /\
       exists j : Z, (0 <= j)%Z /\ fst wc = mkwin w (o + j * Z.of_N s) /\ (j = 0%Z \/ (o + j * Z.of_N s <= Z.of_N e)%Z))) /\
  (forall j : Z, (0 <= j)%Z -> (j = 0%Z \/ (o + j * Z.of_N s <= Z.of_N e)%Z) -> In (mkwin w (o + j * Z.of_N s)) (keys act')) /\
  (NoDup (keys act) -> NoDup (keys act')).
Proof.
  intros w s e Hs. induction fuel as [|f IH]; intros o act act' H; [discriminate|].
  rewrite scope_loop_unfold in H. cbv zeta in H.
  destruct (insert_absent_spec (mkwin w o) act) as (I1 & I2 & I3 & I4).
  set (act1 := insert_absent (mkwin w o) act) in *.
  destruct (Z.gtb_spec (o + Z.of_N s) (Z.of_N e)) as [Hgt|Hle].
  - inversion H; subst act'; clear H. split; [exact I1|]. split; [|split; [|exact I4]].
    + intros wc Hwc. destruct (I2 wc Hwc) as [Ho|[E Hn]]; [left; assumption|]. right. subst wc. cbn [fst snd].
      split; [reflexivity|]. split; [assumption|]. exists 0%Z. split; [lia|]. split; [|left; reflexivity].
      f_equal; lia.
    + intros j Hj [Hz|Hc].
      * subst j. replace (o + 0 * Z.of_N s)%Z with o by lia. exact I3.
      * assert (j = 0 \/ 1 <= j)%Z as [Hz|Hp] by lia.
        -- subst j. replace (o + 0 * Z.of_N s)%Z with o by lia. exact I3.
        -- exfalso. nia.
  - destruct (IH _ _ _ H) as (J1 & J2 & J3 & J4). split; [|split; [|split]].
    + intros wc Hwc. apply J1. apply I1. assumption.
    + intros wc Hwc. destruct (J2 wc Hwc) as [Ho|(Hc & Hn & j & Hj & Hw & Hcond)].
      * destruct (I2 wc Ho) as [Ho'|[E Hn]]; [left; assumption|]. right. subst wc. cbn [fst snd].
        split; [reflexivity|]. split; [assumption|]. exists 0%Z. split; [lia|]. split; [|left; reflexivity].
        f_equal; lia.
      * right. split; [assumption|]. split.
        -- intros F. apply Hn. unfold keys in *. apply in_map_iff in F. destruct F as (wc' & E & Hin).
           apply in_map_iff. exists wc'. split; [assumption|]. apply I1. assumption.
        -- exists (j + 1)%Z. split; [lia|]. split.
           ++ rewrite Hw. f_equal; lia.
           ++ right. destruct Hcond as [Hz|Hc']; [subst; lia|lia].
    + intros j Hj Hcond. assert (j = 0 \/ 1 <= j)%Z as [Hz|Hp] by lia.
      * subst j. replace (o + 0 * Z.of_N s)%Z with o by lia.
        unfold keys in *. apply in_map_iff in I3. destruct I3 as (wc & E & Hin).
        apply in_map_iff. exists wc. split; [assumption|]. apply J1. assumption.
      * replace (o + j * Z.of_N s)%Z with (o + Z.of_N s + (j - 1) * Z.of_N s)%Z by lia.
        apply J3; [lia|]. destruct Hcond as [Hz|Hc]; [lia|]. right. lia.
    + intros Hnd. apply J4. apply I4. assumption.
Qed.

Lemma scope_loop_total : forall w s e, 1 <= s -> forall fuel o act,
  (Z.of_N e - o < Z.of_nat (S fuel) * Z.of_N s)%Z ->
  exists act', scope_loop (S fuel) w s e o act = Some act'.
Proof.
  intros w s e Hs. induction fuel as [|f IH]; intros o act H; rewrite scope_loop_unfold; cbv zeta.
  - destruct (Z.gtb_spec (o + Z.of_N s) (Z.of_N e)) as [Hgt|Hle]; [eexists; reflexivity|]. exfalso. lia.
  - destruct (Z.gtb_spec (o + Z.of_N s) (Z.of_N e)) as [Hgt|Hle]; [eexists; reflexivity|].
    apply IH. lia.
Qed.

(* termination of the scope loop within its fuel: the None branch of `scope` is dead *)
Lemma scope_total : forall w s e act, 1 <= s -> exists act', scope_opt w s e act = Some act'.
Proof.
  intros w s e act Hs. unfold scope_opt, scope_fuel. apply scope_loop_total; [assumption|].
  destruct (csup_spec s e Hs) as (_ & Hle & _).
  assert (Hdm := N.div_mod w s ltac:(lia)). assert (Hlt := N.mod_lt w s ltac:(lia)).
  revert Hdm Hlt. generalize (w / s) (w mod s). intros q r Hdm Hlt.
  rewrite Nat2Z.inj_succ, N_nat_Z. nia.
Qed.

(* what `scope` does, in terms of closes: it adds, if absent and with empty content, the windows
   (c - w, c) for c = c_sup and for the further multiples c of the slide with c - w <= e *)
Lemma scope_spec : forall w s e act, 1 <= s ->
  let act' := scope w s e act in
  (forall wc, In wc act -> In wc act') /\
  (forall wn c, In (wn, c) act' -> In (wn, c) act \/
      (c = empty_content /\ ~ In wn (keys act) /\
       exists k, wn = (k - w, k) /\ N.divide s k /\ e <= k /\ (k = csup s e \/ k <= e + w))) /\
  (forall k, N.divide s k -> e <= k -> (k = csup s e \/ k <= e + w) -> In (k - w, k) (keys act')) /\
  (NoDup (keys act) -> NoDup (keys act')).
Proof.
  intros w s e act Hs. unfold scope. destruct (scope_total w s e act Hs) as (a & Ha). rewrite Ha. cbv zeta.
  unfold scope_opt in Ha. destruct (scope_loop_spec w s e Hs _ _ _ _ Ha) as (J1 & J2 & J3 & J4).
  destruct (csup_spec s e Hs) as ([q0 Hq0] & Hle & Hlt).
  split; [exact J1|]. split; [|split; [|exact J4]].
  - intros wn c Hin. destruct (J2 _ Hin) as [Ho|(Hc & Hn & j & Hj & Hw & Hcond)]; [left; assumption|].
    right. cbn [fst snd] in *. split; [assumption|]. split; [assumption|].
    exists (csup s e + Z.to_N j * s). split; [|split; [|split]].
    + rewrite Hw. unfold mkwin. f_equal; lia.
    + rewrite Hq0. exists (q0 + Z.to_N j). lia.
    + lia.
    + destruct Hcond as [Hz|Hc']; [left; subst; cbn; lia|right; lia].
  - intros k [q Hq] Hek Hcond.
    assert (Hq0q : q0 <= q) by (apply (mul_gap_le q0 q s); lia).
    specialize (J3 (Z.of_N (q - q0)) ltac:(lia)).
    replace (mkwin w (Z.of_N (csup s e) - Z.of_N w + Z.of_N (q - q0) * Z.of_N s)) with (k - w, k) in J3.
    + apply J3. destruct Hcond as [Hk|Hk]; [left; nia|right; nia].
    + unfold mkwin. f_equal; nia.
Qed.

(* ---------------------------------------------------------------------------------------------- *)
(* keep_add *)
Lemma keep_add_spec : forall x t act wn c',
  In (wn, c') (keep_add x t act) <-> exists c, In (wn, c) act /\ in_win wn t = true /\ c' = cadd x t c.
Proof.
  intros x t act wn c'. induction act as [|[wn0 c0] act IH]; cbn [keep_add].
  - split; [intros []|intros (c & [] & _)].
  - destruct (in_win wn0 t) eqn:E; cbn [In]; rewrite IH; split.
    + intros [H|(c & H1 & H2 & H3)]; [inversion H; subst; exists c0; auto|exists c; auto].
    + intros (c & [H1|H1] & H2 & H3); [inversion H1; subst; left; reflexivity|right; exists c; auto].
    + intros (c & H1 & H2 & H3). exists c; auto.
    + intros (c & [H1|H1] & H2 & H3); [inversion H1; subst; congruence|exists c; auto].
Qed.

Lemma keep_add_keys : forall x t act, keys (keep_add x t act) = filter (fun wn => in_win wn t) (keys act).
Proof.
  intros x t act. induction act as [|[wn0 c0] act IH]; [reflexivity|].
  cbn [keep_add keys map fst filter]. destruct (in_win wn0 t); cbn [keys map fst]; unfold keys in IH; rewrite IH; reflexivity.
Qed.

Lemma keep_add_nodup : forall x t act, NoDup (keys act) -> NoDup (keys (keep_add x t act)).
Proof. intros. rewrite keep_add_keys. apply NoDup_filter. assumption. Qed.

Lemma in_win_spec : forall wn t, in_win wn t = true <-> wopen wn <= t /\ t < wclose wn.
Proof. intros. unfold in_win. rewrite andb_true_iff, N.leb_le, N.ltb_lt. tauto. Qed.

(* ---------------------------------------------------------------------------------------------- *)
(* max_close *)
Lemma max_close_spec : forall l m, max_close l = Some m ->
  In m l /\ forall y, In y l -> wclose (fst y) <= wclose (fst m).
Proof.
  induction l as [|wc l IH]; intros m H; [discriminate|]. cbn [max_close] in H.
  destruct (max_close l) as [m'|] eqn:E.
  - destruct (IH m' eq_refl) as [H1 H2].
    destruct (N.ltb_spec (wclose (fst m')) (wclose (fst wc))) as [L|L]; inversion H; subst; clear H.
    + split; [left; reflexivity|]. intros y [Hy|Hy]; [subst; lia|specialize (H2 y Hy); lia].
    + split; [right; assumption|]. intros y [Hy|Hy]; [subst; lia|apply H2; assumption].
  - inversion H; subst. destruct l; [|cbn in E; destruct (max_close l); [destruct (_ <? _)|]; discriminate].
    split; [left; reflexivity|]. intros y [Hy|[]]. subst; lia.
Qed.

Lemma max_close_none : forall l, max_close l = None -> l = [].
Proof.
  intros [|wc l] H; [reflexivity|]. cbn in H. destruct (max_close l); [destruct (_ <? _)|]; discriminate.
Qed.
