(* C09 - entry points for the correspondence check: outputs rendered as numbers / lists / tuples. *)
Require Import List NArith ZArith Bool.
Require Import KV.Rsp09.Model KV.Rsp09.Spec.
Import ListNotations.
Open Scope N_scope.

Definition render_firing (f : firing) :=
  (fidx f, ftime f, fst (fwin f), snd (fwin f), elems (fcont f), last_changed (fcont f)).

Definition render_wins (act : list (win * content)) :=
  map (fun wc => (fst (fst wc), snd (fst wc), elems (snd wc), last_changed (snd wc))) act.

(* all firings of the run *)
Definition model_run (w s : N) (evs : list (N * N)) := map render_firing (run w s evs).

(* per step: windows after `scope` (before the item is added), windows after the step, app_time,
   and whether the scope loop ended within its fuel *)
Fixpoint trace (w s : N) (st : wstate) (evs : list (N * N)) :=
  match evs with
  | [] => []
  | ev :: r =>
      let st' := fst (step w s st ev) in
      (render_wins (scope w s (snd ev) (active st)), render_wins (active st'), app_time st',
       match scope_opt w s (snd ev) (active st) with Some _ => true | None => false end)
      :: trace w s st' r
  end.

Definition model_trace (w s : N) (evs : list (N * N)) := (model_run w s evs, trace w s init evs).

(* the Spec-level checker on the model's own run: (violated clauses, closes skipped as known) *)
Definition model_check (w s : N) (evs : list (N * N)) := spec_check w s evs (run w s evs).

(* one case of the correspondence check (the stream literal is parsed once) *)
Definition model_case (w s : N) (evs : list (N * N)) := (model_run w s evs, 0, model_check w s evs).
Definition model_case_trace (w s : N) (evs : list (N * N)) := (model_trace w s evs, model_check w s evs).

(* the Spec-level checker on firings observed elsewhere (the implementation), given as
   (idx, time, open, close, elems, last_changed) *)
Definition mk_firing (r : N * N * N * N * list (N * N) * N) : firing :=
  let '(k, t, o, c, el, lc) := r in mkF k t (o, c) (mkC el lc).
Definition check_firings (w s : N) (evs : list (N * N)) (rs : list (N * N * N * N * list (N * N) * N)) :=
  spec_check w s evs (map mk_firing rs).

(* function-level: successive calls of `scope` on a fresh window *)
Fixpoint scope_seq (w s : N) (act : list (win * content)) (tss : list N) :=
  match tss with
  | [] => []
  | t :: r => let a := scope w s t act in
              (render_wins a, match scope_opt w s t act with Some _ => true | None => false end)
              :: scope_seq w s a r
  end.
Definition model_scope (w s : N) (tss : list N) := scope_seq w s [] tss.
