(* C09 - the invariant of the window state and what one add_to_window call does. *)
Require Import List NArith ZArith Bool Lia ZifyBool ZifyN Sorted.
Require Import KV.Rsp09.Model KV.Rsp09.Spec KV.Rsp09.ContentProofs KV.Rsp09.ScopeProofs.
Import ListNotations.
Open Scope N_scope.

Lemma list_nil_dec : forall (A : Type) (l : list A), l = [] \/ l <> [].
Proof. intros A [|a l]; [left; reflexivity|right; discriminate]. Qed.

Lemma snoc_not_nil : forall (A : Type) (l : list A) a, l ++ [a] <> [].
Proof. intros A l a F. apply app_eq_nil in F. destruct F; discriminate. Qed.

Section Step.
Variables w s : N.
Hypothesis Hs : 1 <= s.

(* After the events `pre` (last timestamp tp) the active windows are exactly the aligned windows
   (c - w, c) with tp in [c - w, c), each holding exactly the events of pre in its interval. *)
Definition active_spec (pre : list (N * N)) (wn : win) (cont : content) : Prop :=
  exists c, wn = (c - w, c) /\ N.divide s c /\ pre <> [] /\ prev_ts pre < c /\ c <= prev_ts pre + w /\
            cont = content_of (interval_evs w c pre).

Definition Inv (pre : list (N * N)) (st : wstate) : Prop :=
  NoDup (keys (active st)) /\
  (forall wn cont, In (wn, cont) (active st) <-> active_spec pre wn cont) /\
  app_time st <= prev_ts pre /\
  (pre <> [] -> N.divide s (prev_ts pre) -> app_time st = prev_ts pre).

(* the closes that can be reported by an event at t after the events pre: windows still active
   from before, or the window that closes exactly now *)
Definition cand (pre : list (N * N)) (t c : N) : Prop :=
  N.divide s c /\ c <= t /\ ((pre <> [] /\ prev_ts pre < c /\ c <= prev_ts pre + w) \/ c = t).

Lemma Inv_init : Inv [] init.
Proof.
  split; [constructor|]. split; [|split; [cbn; lia|intros H; congruence]].
  intros wn cont. split; [intros []|]. intros (c & _ & _ & H & _). congruence.
Qed.

Lemma step_unfold : forall st x t,
  step w s st (x, t) =
  let act := scope w s t (active st) in
  let test := keep_add x t act in
  match max_close (filter (fun wc => report (fst wc) t) act) with
  | Some m => if app_time st <? t then (mkS test t, Some m) else (mkS test (app_time st), None)
  | None => (mkS test (app_time st), None)
  end.
Proof. reflexivity. Qed.

Lemma interval_evs_snoc_in : forall c pre x t, in_interval w c t ->
  content_of (interval_evs w c (pre ++ [(x, t)])) = cadd x t (content_of (interval_evs w c pre)).
Proof.
  intros c pre x t H. rewrite interval_evs_app. unfold interval_evs at 2. cbn [filter snd].
  apply in_intervalb_spec in H. rewrite H. rewrite content_of_snoc. reflexivity.
Qed.

Section OneStep.
Variables (pre : list (N * N)) (st : wstate) (x t : N).
Hypothesis HInv : Inv pre st.
Hypothesis Hord : in_order (pre ++ [(x, t)]).

Let scoped := scope w s t (active st).

Lemma pre_le_t : forall a, In a pre -> snd a <= t.
Proof.
  intros a Ha. destruct (in_order_app_inv _ _ Hord) as (_ & _ & H3).
  apply (H3 a (x, t)); [assumption|left; reflexivity].
Qed.

Lemma pre_ordered : in_order pre.
Proof. destruct (in_order_app_inv _ _ Hord) as (H & _). exact H. Qed.

Lemma tp_le_t : prev_ts pre <= t.
Proof.
  destruct (list_nil_dec _ pre) as [E|E]; [rewrite E; cbn; lia|].
  destruct (prev_ts_in pre E) as (b & Hb & Eb). rewrite <- Eb.
  apply pre_le_t; assumption.
Qed.

(* a window absent from the active set has had no event in its interval *)
Lemma absent_empty : forall c, N.divide s c -> t <= c -> (c = t -> app_time st < t) ->
  ~ In (c - w, c) (keys (active st)) -> interval_evs w c pre = [].
Proof.
  intros c Hd Htc Happ Hn. destruct HInv as (_ & Hact & _ & Hdiv).
  apply interval_evs_nil. intros e He [Hiv1 Hiv2]. apply Hn.
  assert (Hne : pre <> []) by (intro F; rewrite F in He; destruct He).
  assert (Hmax := prev_ts_max pre e pre_ordered He). assert (Htp := tp_le_t).
  assert (Hlt : prev_ts pre < c).
  { destruct (N.eq_dec (prev_ts pre) c) as [E|E]; [|lia].
    exfalso. assert (Hct : c = t) by lia. specialize (Happ Hct).
    rewrite <- E in Hd. specialize (Hdiv Hne Hd). lia. }
  unfold keys. apply in_map_iff. exists ((c - w, c), content_of (interval_evs w c pre)). split; [reflexivity|].
  apply Hact. exists c. repeat split; auto. lia.
Qed.

(* the active windows after the step *)
Lemma active_after :
  NoDup (keys (keep_add x t scoped)) /\
  forall wn cont, In (wn, cont) (keep_add x t scoped) <-> active_spec (pre ++ [(x, t)]) wn cont.
Proof.
  destruct HInv as (Hnd & Hact & Happ & Hdiv).
  destruct (scope_spec w s t (active st) Hs) as (S1 & S2 & S3 & S4). fold scoped in S1, S2, S3, S4.
  assert (Htp := tp_le_t).
  split; [apply keep_add_nodup; apply S4; assumption|].
  intros wn cont. rewrite keep_add_spec. unfold active_spec. rewrite prev_ts_snoc. cbn [snd]. split.
  - intros (c0 & Hin & Hw & Hc). apply in_win_spec in Hw. destruct (S2 _ _ Hin) as [Hold|(Hc0 & Hn & k & Hk & Hdk & Htk & Hcond)].
    + apply Hact in Hold. destruct Hold as (c & Ewn & Hd & Hne & H1 & H2 & Ec0). subst wn. cbn [wopen wclose fst snd] in Hw.
      exists c. split; [reflexivity|]. split; [assumption|]. split; [apply snoc_not_nil|].
      split; [lia|]. split; [lia|]. subst cont c0. symmetry. apply interval_evs_snoc_in. split; lia.
    + subst wn. cbn [wopen wclose fst snd] in Hw.
      exists k. split; [reflexivity|]. split; [assumption|]. split; [apply snoc_not_nil|].
      split; [lia|]. split; [lia|]. subst cont c0.
      rewrite interval_evs_snoc_in by (split; lia).
      rewrite (absent_empty k Hdk Htk ltac:(lia) Hn). reflexivity.
  - intros (c & Ewn & Hd & _ & H1 & H2 & Ec). subst wn.
    assert (Hk : In (c - w, c) (keys scoped)) by (apply S3; [assumption|lia|right; assumption]).
    unfold keys in Hk. apply in_map_iff in Hk. destruct Hk as ([wn0 c0] & E & Hin). cbn in E. subst wn0.
    exists c0. split; [assumption|]. split; [apply in_win_spec; cbn; lia|].
    subst cont. rewrite interval_evs_snoc_in by (split; lia). f_equal.
    destruct (S2 _ _ Hin) as [Hold|(Hc0 & Hn & _)].
    + apply Hact in Hold. destruct Hold as (c' & Ewn & _ & _ & _ & _ & Ec0). inversion Ewn; subst c'. symmetry; assumption.
    + subst c0. rewrite (absent_empty c Hd ltac:(lia) ltac:(lia) Hn). reflexivity.
Qed.

(* every candidate close has a window among those `report` accepts *)
Lemma cand_reportable : forall c, cand pre t c ->
  exists cont, In ((c - w, c), cont) (filter (fun wc => report (fst wc) t) scoped).
Proof.
  intros c (Hd & Hct & Hcase). destruct HInv as (_ & Hact & _ & _).
  destruct (scope_spec w s t (active st) Hs) as (S1 & _ & S3 & _). fold scoped in S1, S3.
  assert (Hrep : forall cont : content, report (fst ((c - w, c), cont)) t = true)
    by (intros; unfold report; cbn; apply N.leb_le; assumption).
  destruct Hcase as [(Hne & H1 & H2)|E].
  - exists (content_of (interval_evs w c pre)). apply filter_In. split; [|apply Hrep].
    apply S1. apply Hact. exists c. repeat split; auto.
  - subst c. assert (Hk : In (t - w, t) (keys scoped)).
    { apply S3; [assumption|lia|left]. symmetry. apply csup_multiple; assumption. }
    unfold keys in Hk. apply in_map_iff in Hk. destruct Hk as ([wn0 c0] & E & Hin). cbn in E. subst wn0.
    exists c0. apply filter_In. split; [assumption|apply Hrep].
Qed.

(* every window `report` accepts is a candidate with exact content *)
Lemma reportable_cand : forall wn cont, app_time st < t ->
  In (wn, cont) (filter (fun wc => report (fst wc) t) scoped) ->
  exists c, wn = (c - w, c) /\ cand pre t c /\ app_time st < c /\ cont = content_of (interval_evs w c pre).
Proof.
  intros wn cont Happlt Hin. apply filter_In in Hin. destruct Hin as [Hin Hrep].
  unfold report in Hrep. cbn [fst] in Hrep. apply N.leb_le in Hrep.
  destruct HInv as (_ & Hact & Happ & _).
  destruct (scope_spec w s t (active st) Hs) as (_ & S2 & _ & _). fold scoped in S2.
  destruct (S2 _ _ Hin) as [Hold|(Hc0 & Hn & k & Hk & Hdk & Htk & Hcond)].
  - apply Hact in Hold. destruct Hold as (c & Ewn & Hd & Hne & H1 & H2 & Ec). subst wn. cbn [wclose snd] in Hrep.
    exists c. split; [reflexivity|]. split; [|split; [lia|assumption]].
    split; [assumption|]. split; [assumption|]. left. auto.
  - subst wn. cbn [wclose snd] in Hrep. assert (k = t) by lia. subst k.
    exists t. split; [reflexivity|]. split; [|split; [assumption|]].
    + split; [assumption|]. split; [lia|]. right; reflexivity.
    + subst cont. rewrite (absent_empty t Hdk ltac:(lia) ltac:(auto) Hn). reflexivity.
Qed.

Lemma step_spec :
  let r := step w s st (x, t) in
  Inv (pre ++ [(x, t)]) (fst r) /\
  app_time st <= app_time (fst r) /\
  match snd r with
  | Some (wn, cont) =>
      app_time st < t /\ app_time (fst r) = t /\
      exists c, wn = (c - w, c) /\ N.divide s c /\ c <= t /\ app_time st < c /\
                cont = content_of (interval_evs w c pre) /\ cand pre t c /\
                forall c', cand pre t c' -> c' <= c
  | None => app_time (fst r) = app_time st /\ (app_time st < t -> forall c', ~ cand pre t c')
  end.
Proof.
  cbv zeta. rewrite step_unfold. cbv zeta. fold scoped.
  destruct active_after as (Hnd' & Hact').
  assert (Htp := tp_le_t).
  destruct HInv as (Hnd & Hact & Happ & Hdiv).
  destruct (max_close (filter (fun wc => report (fst wc) t) scoped)) as [[wn cont]|] eqn:Emax.
  - destruct (max_close_spec _ _ Emax) as (Hin & Hmaxc).
    destruct (N.ltb_spec (app_time st) t) as [Hlt|Hge]; cbn [fst snd active app_time].
    + split; [|split; [lia|]].
      * split; [exact Hnd'|]. split; [exact Hact'|]. rewrite prev_ts_snoc. cbn [snd app_time].
        split; [lia|]. intros; reflexivity.
      * split; [assumption|]. split; [reflexivity|].
        destruct (reportable_cand wn cont Hlt Hin) as (c & Ewn & Hcand & Hac & Ec).
        exists c. split; [assumption|]. destruct Hcand as (Hd & Hct & Hcase).
        split; [assumption|]. split; [assumption|]. split; [assumption|]. split; [assumption|].
        split; [split; [assumption|split; assumption]|].
        intros c' Hc'. destruct (cand_reportable c' Hc') as (cont' & Hin').
        specialize (Hmaxc _ Hin'). subst wn. cbn [fst wclose snd] in Hmaxc. assumption.
    + split; [|split; [lia|]].
      * split; [exact Hnd'|]. split; [exact Hact'|]. rewrite prev_ts_snoc. cbn [snd app_time].
        split; [lia|]. intros _ _. lia.
      * split; [reflexivity|]. intros F. lia.
  - apply max_close_none in Emax. cbn [fst snd active app_time].
    assert (Hnc : forall c', ~ cand pre t c').
    { intros c' Hc'. destruct (cand_reportable c' Hc') as (cont' & Hin'). rewrite Emax in Hin'. destruct Hin'. }
    split; [|split; [lia|]].
    + split; [exact Hnd'|]. split; [exact Hact'|]. rewrite prev_ts_snoc. cbn [snd app_time].
      split; [lia|]. intros _ Hdt. exfalso. apply (Hnc t). split; [assumption|]. split; [lia|right; reflexivity].
    + split; [reflexivity|]. intros _. exact Hnc.
Qed.

End OneStep.
End Step.
