(* C09 - the binary64 arithmetic of CSPARQLWindow::scope is exact below 2^53.

   `scope` (kolibrie/src/rsp/s2r.rs) computes in f64:
       c_sup = ((event_time as f64 - t_0 as f64).abs() / (slide as f64)).ceil() * slide as f64      (t_0 = 0)
       o_i   = c_sup - width as f64
       loop { window { open: o_i as usize, close: (o_i + width as f64) as usize }; insert if absent;
              o_i += slide as f64; if o_i > event_time as f64 { break } }
   The model (Model.scope_loop / scope_opt) does the same with exact N / Z arithmetic.

   Here the f64 computation is written out over the reals with every operation rounded to binary64
   (round-to-nearest-even in the format FLT(emin = -1074, prec = 53), i.e. the value IEEE-754 specifies
   for +, -, *, / and for integer -> float conversion when no overflow occurs), `ceil` exact (it is, in
   IEEE arithmetic), and the saturating cast `as usize` as truncation with negative values sent to 0.
   Theorem f_scope_opt_exact: for slide >= 1 and event_time + width + slide < 2^53 this computation returns
   exactly what the model returns.

   This file depends on Flocq and on the axioms of the standard library's real numbers; it is kept out of
   the main development so that the theorems of C09.v stay axiom-free. *)
Require Import List NArith ZArith Bool Lia Reals Lra.
From Flocq Require Import Core Relative.
Require Import KV.Rsp09.Model KV.Rsp09.ContentProofs KV.Rsp09.ScopeProofs.
Import ListNotations.
Open Scope R_scope.

(* ---------------------------------------------------------------------------------------------- *)
(* binary64 *)
Definition prec64 : Z := 53.
Definition emin64 : Z := -1074.
Definition fexp64 : Z -> Z := FLT_exp emin64 prec64.

#[global] Instance prec64_gt_0 : Prec_gt_0 prec64.
Proof. unfold Prec_gt_0, prec64. lia. Qed.

#[global] Instance fexp64_valid : Valid_exp fexp64.
Proof. unfold fexp64. apply FLT_exp_valid. exact prec64_gt_0. Qed.

(* the binary64 value of a real operation result: round to nearest, ties to even *)
Definition fl (x : R) : R := round radix2 fexp64 ZnearestE x.

(* `n as f64` for an unsigned integer *)
Definition of_usize (n : N) : R := fl (IZR (Z.of_N n)).

(* `x as usize`: truncation toward zero, negative values (and -0.0) give 0.  (Saturation at usize::MAX
   and NaN -> 0 do not arise for the finite values below 2^53 considered here.) *)
Definition cast_usize (x : R) : N := Z.to_N (Ztrunc x).

(* f64::ceil is exact: the least integer not below x, as a float *)
Definition fceil (x : R) : R := IZR (Zceil x).

(* ---------------------------------------------------------------------------------------------- *)
(* the f64 computation of scope, operation by operation *)

Definition f_csup (s e : N) : R :=
  fl (fceil (fl (Rabs (fl (of_usize e - of_usize 0)) / of_usize s)) * of_usize s).

Fixpoint f_scope_loop (fuel : nat) (w s e : N) (o : R) (act : list (win * content))
  : option (list (win * content)) :=
  match fuel with
  | O => None
  | S f =>
      let wn : win := (cast_usize o, cast_usize (fl (o + of_usize w))) in
      let act' := if wmem wn act then act else act ++ [(wn, empty_content)] in
      let o' := fl (o + of_usize s) in
      if Rlt_bool (of_usize e) o' then Some act' else f_scope_loop f w s e o' act'
  end.

Definition f_scope_opt (w s e : N) (act : list (win * content)) : option (list (win * content)) :=
  f_scope_loop (scope_fuel w s) w s e (fl (f_csup s e - of_usize w)) act.

(* ---------------------------------------------------------------------------------------------- *)
(* integers below 2^53 are binary64 numbers, so operations whose exact result is such an integer are exact *)

Definition B53 : Z := 9007199254740992.   (* 2^53 *)

Lemma B53_pow : B53 = (2 ^ 53)%Z.
Proof. reflexivity. Qed.

Lemma format_int : forall z : Z, (Z.abs z < B53)%Z -> generic_format radix2 fexp64 (IZR z).
Proof.
  intros z Hz. unfold fexp64. apply generic_format_FLT.
  apply (FLT_spec radix2 emin64 prec64 (IZR z) (Float radix2 z 0)).
  - unfold F2R. cbn. lra.
  - cbn [Fnum]. unfold prec64. change (Zpower radix2 53) with B53. exact Hz.
  - cbn [Fexp]. unfold emin64. lia.
Qed.

Lemma fl_int : forall z : Z, (Z.abs z < B53)%Z -> fl (IZR z) = IZR z.
Proof. intros z Hz. unfold fl. apply round_generic; [apply valid_rnd_N|]. apply format_int. exact Hz. Qed.

Lemma fl_le : forall x y, x <= y -> fl x <= fl y.
Proof. intros x y H. unfold fl. apply round_le; [exact fexp64_valid|apply valid_rnd_N|exact H]. Qed.

Lemma of_usize_exact : forall n : N, (Z.of_N n < B53)%Z -> of_usize n = IZR (Z.of_N n).
Proof. intros n H. unfold of_usize. apply fl_int. lia. Qed.

Lemma cast_int : forall z : Z, cast_usize (IZR z) = Z.to_N z.
Proof. intros z. unfold cast_usize. rewrite Ztrunc_IZR. reflexivity. Qed.

(* ---------------------------------------------------------------------------------------------- *)
(* (a) the rounded quotient of two integers below 2^53 has the same ceiling as the exact quotient:
       e/s lies in (k-1, k] with distance at least 1/s from k-1, while rounding moves it by at most
       2^-53 * e/s < 1/s, and never past the representable integer k. *)

Lemma bpow_m53 : bpow radix2 (-53) = / IZR B53.
Proof. unfold bpow, B53. f_equal. Qed.

Lemma fl_rel_error : forall x, bpow radix2 (-1022) <= Rabs x -> Rabs (fl x - x) <= / IZR B53 * Rabs x.
Proof.
  intros x Hx. unfold fl.
  assert (H := relative_error_N_FLT radix2 emin64 prec64 prec64_gt_0 (fun z => negb (Z.even z)) x).
  unfold emin64, prec64 in H. change (-1074 + 53 - 1)%Z with (-1022)%Z in H. specialize (H Hx).
  change (- (53) + 1)%Z with (-52)%Z in H.
  assert (E : bpow radix2 (-52) = / IZR 4503599627370496) by (unfold bpow; f_equal).
  rewrite E in H. unfold B53.
  replace (/ IZR 9007199254740992) with (/ 2 * / IZR 4503599627370496) by lra. exact H.
Qed.

Lemma ceil_div_exact : forall e s k : Z,
  (0 <= e < B53)%Z -> (1 <= s < B53)%Z -> ((k - 1) * s < e)%Z -> (e <= k * s)%Z ->
  Zceil (fl (IZR e / IZR s)) = k.
Proof.
  intros e s k He Hs Hk1 Hk2.
  assert (HS : 1 <= IZR s) by (apply IZR_le; lia).
  assert (HSB : IZR s < IZR B53) by (apply IZR_lt; lia).
  assert (HSpos : 0 < IZR s) by lra.
  assert (HB : 0 < IZR B53) by (apply IZR_lt; reflexivity).
  set (r := / IZR s). assert (Hr : 0 < r) by (apply Rinv_0_lt_compat; exact HSpos).
  assert (HSr : IZR s * r = 1) by (unfold r; apply Rinv_r; lra).
  change (IZR e / IZR s) with (IZR e * r).
  assert (HE0 : 0 <= IZR e) by (apply IZR_le; lia).
  assert (HEB : IZR e < IZR B53) by (apply IZR_lt; lia).
  assert (HK1 : IZR (k - 1) * IZR s + 1 <= IZR e).
  { rewrite <- mult_IZR. rewrite <- plus_IZR. apply IZR_le. lia. }
  assert (HK2 : IZR e <= IZR k * IZR s) by (rewrite <- mult_IZR; apply IZR_le; lia).
  assert (Hkpos : (0 <= k)%Z) by nia.
  assert (Hkle : (k <= e)%Z) by nia.
  (* q = e * r lies in (k-1, k], at distance >= r from k-1 *)
  assert (Hq2 : IZR e * r <= IZR k).
  { replace (IZR k) with (IZR k * IZR s * r) by (rewrite Rmult_assoc, HSr; ring).
    apply Rmult_le_compat_r; lra. }
  assert (Hq1 : IZR (k - 1) + r <= IZR e * r).
  { replace (IZR (k - 1) + r) with ((IZR (k - 1) * IZR s + 1) * r)
      by (rewrite Rmult_plus_distr_r, Rmult_assoc, HSr; ring).
    apply Rmult_le_compat_r; lra. }
  apply Zceil_imp. split.
  - (* not rounded down to k - 1 *)
    destruct (Z.eq_dec e 0) as [E0|E0].
    + subst e. assert (k = 0)%Z by nia. subst k. rewrite Rmult_0_l.
      unfold fl. rewrite round_0; [|apply valid_rnd_N]. cbn. lra.
    + assert (HE1 : 1 <= IZR e) by (apply IZR_le; lia).
      assert (Hqr : r <= IZR e * r).
      { rewrite <- (Rmult_1_l r) at 1. apply Rmult_le_compat_r; lra. }
      assert (HrB : / IZR B53 < r).
      { unfold r. apply Rinv_lt_contravar; [apply Rmult_lt_0_compat; lra|lra]. }
      assert (Hnorm : bpow radix2 (-1022) <= Rabs (IZR e * r)).
      { rewrite Rabs_pos_eq by lra.
        apply Rle_trans with (bpow radix2 (-53)); [apply bpow_le; lia|]. rewrite bpow_m53. lra. }
      assert (Herr := fl_rel_error _ Hnorm). rewrite (Rabs_pos_eq (IZR e * r)) in Herr by lra.
      (* the error is below r: e / 2^53 < 1 *)
      assert (Hsmall : / IZR B53 * (IZR e * r) < r).
      { replace (/ IZR B53 * (IZR e * r)) with ((IZR e * / IZR B53) * r) by ring.
        rewrite <- (Rmult_1_l r) at 2. apply Rmult_lt_compat_r; [exact Hr|].
        apply Rmult_lt_reg_r with (IZR B53); [exact HB|].
        rewrite Rmult_assoc, Rinv_l by lra. lra. }
      assert (Hlow : IZR e * r - / IZR B53 * (IZR e * r) <= fl (IZR e * r)).
      { assert (Ha := Rabs_le_inv _ _ Herr). lra. }
      lra.
  - (* not rounded past the representable integer k *)
    rewrite <- (fl_int k) by lia. apply fl_le. exact Hq2.
Qed.

(* ---------------------------------------------------------------------------------------------- *)
(* (b) c_sup *)
Lemma f_csup_exact : forall s e : N, (1 <= s)%N -> (Z.of_N e + Z.of_N s < B53)%Z ->
  f_csup s e = IZR (Z.of_N (csup s e)).
Proof.
  intros s e Hs Hb. unfold f_csup.
  destruct (csup_spec s e Hs) as ([q Hq] & Hle & Hlt).
  rewrite (of_usize_exact e) by lia. rewrite (of_usize_exact s) by lia. rewrite (of_usize_exact 0) by (cbn; unfold B53; lia).
  cbn [Z.of_N]. rewrite Rminus_0_r.
  rewrite fl_int by lia. rewrite Rabs_pos_eq by (apply IZR_le; lia).
  unfold fceil. rewrite (ceil_div_exact (Z.of_N e) (Z.of_N s) (Z.of_N q)); try lia.
  rewrite <- mult_IZR. rewrite fl_int by lia. f_equal. lia.
Qed.

(* ---------------------------------------------------------------------------------------------- *)
(* (b), (c) the loop: every window bound is an exact integer; the break test agrees even when the last
   sum o_i + slide is not representable (it is then still > event_time after rounding) *)
Lemma f_scope_loop_exact : forall (w s e : N), (1 <= s)%N -> (Z.of_N e + Z.of_N w + Z.of_N s < B53)%Z ->
  forall fuel (o : Z) act, (- B53 < o)%Z -> (o + Z.of_N w < B53)%Z ->
  f_scope_loop fuel w s e (IZR o) act = scope_loop fuel w s e o act.
Proof.
  intros w s e Hs Hb. induction fuel as [|f IH]; intros o act Hlo Hhi; [reflexivity|].
  cbn [f_scope_loop scope_loop].
  rewrite (of_usize_exact w) by lia. rewrite (of_usize_exact s) by lia. rewrite (of_usize_exact e) by lia.
  rewrite <- !plus_IZR. rewrite (fl_int (o + Z.of_N w)) by lia. rewrite !cast_int.
  destruct (Z.gtb_spec (o + Z.of_N s) (Z.of_N e)) as [Hgt|Hle].
  - (* real sum beyond event_time: the rounded sum is at least event_time + 1 *)
    rewrite Rlt_bool_true; [reflexivity|].
    apply Rlt_le_trans with (IZR (Z.of_N e + 1)); [apply IZR_lt; lia|].
    rewrite <- (fl_int (Z.of_N e + 1)) by lia. apply fl_le. apply IZR_le. lia.
  - rewrite (fl_int (o + Z.of_N s)) by lia.
    rewrite Rlt_bool_false by (apply IZR_le; lia).
    apply IH; lia.
Qed.

Theorem f_scope_opt_exact : forall (w s e : N) (act : list (win * content)),
  (1 <= s)%N -> (Z.of_N e + Z.of_N w + Z.of_N s < B53)%Z ->
  f_scope_opt w s e act = scope_opt w s e act.
Proof.
  intros w s e act Hs Hb. unfold f_scope_opt, scope_opt.
  destruct (csup_spec s e Hs) as (_ & Hle & Hlt).
  rewrite f_csup_exact by lia. rewrite (of_usize_exact w) by lia.
  rewrite <- minus_IZR. rewrite fl_int by lia.
  apply f_scope_loop_exact; lia.
Qed.
