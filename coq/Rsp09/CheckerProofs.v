(* C09 - the executable Spec checker (Spec.spec_check, used by the correspondence check on observed
   firings) decides exactly the three clauses of the property. *)
Require Import List NArith ZArith Bool Lia ZifyBool ZifyN Sorted.
Require Import KV.Rsp09.Model KV.Rsp09.Spec KV.Rsp09.ContentProofs KV.Rsp09.RunProofs.
Import ListNotations.
Open Scope N_scope.

(* ---------------------------------------------------------------------------------------------- *)
(* clause 1 *)

Lemma nodupb_spec : forall l, nodupb l = true <-> NoDup l.
Proof.
  induction l as [|a l IH]; cbn [nodupb].
  - split; [constructor|reflexivity].
  - rewrite andb_true_iff, negb_true_iff, IH. split.
    + intros [H1 H2]. constructor; [|assumption]. intros F.
      assert (existsb (N.eqb a) l = true) by (apply existsb_exists; exists a; split; [assumption|apply N.eqb_refl]).
      congruence.
    + intros H. inversion H as [|? ? Hn Hd]; subst. split; [|assumption].
      destruct (existsb (N.eqb a) l) eqn:E; [|reflexivity].
      apply existsb_exists in E. destruct E as (b & Hb & Eb). apply N.eqb_eq in Eb. subst b. contradiction.
Qed.

Lemma lookup_in : forall i l u, NoDup (map fst l) -> (lookup i l = Some u <-> In (i, u) l).
Proof.
  intros i l u. unfold lookup. induction l as [|[j v] l IH]; intros Hnd; cbn [find fst snd].
  - split; [discriminate|intros []].
  - cbn [map fst] in Hnd. inversion Hnd as [|? ? Hn Hd]; subst.
    destruct (N.eqb_spec j i) as [E|E].
    + subst j. cbn [snd]. split.
      * intros H. inversion H; subst. left; reflexivity.
      * intros [H|H]; [inversion H; reflexivity|].
        exfalso. apply Hn. change i with (fst (i, u)). apply in_map. assumption.
    + rewrite (IH Hd). split; [intros H; right; assumption|].
      intros [H|H]; [inversion H; congruence|assumption].
Qed.

Lemma lookup_none : forall i l, lookup i l = None -> ~ In i (map fst l).
Proof.
  intros i l. unfold lookup. induction l as [|[j v] l IH]; cbn [find fst snd map]; [intros _ []|].
  destruct (N.eqb_spec j i) as [E|E]; [discriminate|].
  intros H [F|F]; [congruence|]. apply IH; assumption.
Qed.

Lemma content_exactb_spec : forall w c evs cont, content_exactb w c evs cont = true <-> content_exact w c evs cont.
Proof.
  intros w c evs cont. unfold content_exactb, content_exact.
  rewrite !andb_true_iff, nodupb_spec, !forallb_forall. split.
  - intros [[Hnd H2] H3]. split; [assumption|]. intros i u. split.
    + intros Hin. specialize (H2 _ Hin). cbn [fst snd] in H2. apply andb_true_iff in H2. destruct H2 as [H2a H2b].
      apply existsb_exists in H2a. destruct H2a as ([i' u'] & He & Eq). cbn [fst snd] in Eq.
      apply andb_true_iff in Eq. destruct Eq as [E1 E2]. apply N.eqb_eq in E1. apply N.eqb_eq in E2. subst i' u'.
      apply in_intervalb_spec in H2b. split; [assumption|]. split; [assumption|].
      intros u' Hu' Hiv'. specialize (H3 _ Hu'). cbn [fst snd] in H3. apply orb_true_iff in H3.
      destruct H3 as [H3|H3].
      * apply negb_true_iff in H3. apply in_intervalb_spec in Hiv'. congruence.
      * destruct (lookup i (elems cont)) as [u2|] eqn:El; [|discriminate].
        apply (lookup_in _ _ _ Hnd) in El. apply N.leb_le in H3.
        (* both (i,u) and (i,u2) are in elems with distinct keys *)
        assert (u2 = u).
        { apply (lookup_in _ _ _ Hnd) in El. apply (lookup_in _ _ _ Hnd) in Hin. congruence. }
        lia.
    + intros (Hev & Hiv & Hmax). specialize (H3 _ Hev). cbn [fst snd] in H3. apply orb_true_iff in H3.
      destruct H3 as [H3|H3].
      * apply negb_true_iff in H3. apply in_intervalb_spec in Hiv. congruence.
      * destruct (lookup i (elems cont)) as [u2|] eqn:El; [|discriminate].
        apply (lookup_in _ _ _ Hnd) in El. apply N.leb_le in H3.
        assert (Hin2 := El). specialize (H2 _ Hin2). cbn [fst snd] in H2. apply andb_true_iff in H2. destruct H2 as [H2a H2b].
        apply existsb_exists in H2a. destruct H2a as ([i' u'] & He & Eq). cbn [fst snd] in Eq.
        apply andb_true_iff in Eq. destruct Eq as [E1 E2]. apply N.eqb_eq in E1. apply N.eqb_eq in E2. subst i' u'.
        apply in_intervalb_spec in H2b. specialize (Hmax u2 He H2b).
        assert (u2 = u) by lia. subst u2. assumption.
  - intros [Hnd Hi]. split; [split; [assumption|]|].
    + intros [i u] Hin. cbn [fst snd]. apply Hi in Hin. destruct Hin as (Hev & Hiv & _).
      apply andb_true_iff. split; [|apply in_intervalb_spec; assumption].
      apply existsb_exists. exists (i, u). split; [assumption|]. cbn. rewrite !N.eqb_refl. reflexivity.
    + intros [i u] Hev. cbn [fst snd]. destruct (in_intervalb w c u) eqn:Eiv; [|reflexivity]. cbn [negb orb].
      apply in_intervalb_spec in Eiv.
      destruct (max_ts_exists i (interval_evs w c evs) u ltac:(apply interval_evs_In; split; assumption)) as (m & Hm1 & Hm2).
      apply interval_evs_In in Hm1. destruct Hm1 as [Hm1 Hm1']. cbn [snd] in Hm1'.
      assert (Hin : In (i, m) (elems cont)).
      { apply Hi. split; [assumption|]. split; [assumption|]. intros u' Hu' Hiv'. apply Hm2. apply interval_evs_In. split; assumption. }
      apply (lookup_in _ _ _ Hnd) in Hin. rewrite Hin. apply N.leb_le. apply Hm2. apply interval_evs_In. split; assumption.
Qed.

Lemma mod_divide_iff : forall s c, 1 <= s -> (N.eqb (c mod s) 0 = true <-> N.divide s c).
Proof. intros s c Hs. rewrite N.eqb_eq. apply N.mod_divide. lia. Qed.

Lemma firing_okb_spec : forall w s evs f, 1 <= s -> (firing_okb w s evs f = true <-> firing_ok w s evs f).
Proof.
  intros w s evs f Hs. unfold firing_okb, firing_ok. cbv zeta. rewrite !andb_true_iff. split.
  - intros [Hn [[[Ho Hm] Hc] Hce]].
    destruct (nth_error evs (N.to_nat (fidx f))) as [[x t]|] eqn:En; [|discriminate].
    apply N.eqb_eq in Hn. subst t. split; [exists x; reflexivity|].
    exists (wclose (fwin f)). apply N.eqb_eq in Ho. apply mod_divide_iff in Hm; [|assumption]. apply N.leb_le in Hc.
    apply content_exactb_spec in Hce.
    split; [destruct (fwin f) as [o c]; cbn [wopen wclose fst snd] in *; subst o; reflexivity|].
    split; [assumption|]. split; assumption.
  - intros [[x Hx] (c & Ewn & Hd & Hc & Hce)]. rewrite Hx. rewrite Ewn. cbn [wopen wclose fst snd].
    split; [apply N.eqb_refl|]. split; [split; [split|]|].
    + apply N.eqb_refl.
    + apply mod_divide_iff; assumption.
    + apply N.leb_le; assumption.
    + apply content_exactb_spec; assumption.
Qed.

(* ---------------------------------------------------------------------------------------------- *)
(* clause 2 *)

Lemma firing_ltb_spec : forall f g, firing_ltb f g = true <-> firing_lt f g.
Proof.
  intros f g. unfold firing_ltb, firing_lt. rewrite !andb_true_iff, !N.ltb_lt, N.leb_le. tauto.
Qed.

Lemma firing_lt_trans : forall f g h, firing_lt f g -> firing_lt g h -> firing_lt f h.
Proof. unfold firing_lt. intros f g h (A1 & A2 & A3 & A4) (B1 & B2 & B3 & B4). repeat split; lia. Qed.

Lemma chainb_spec : forall fs, chainb fs = true <-> StronglySorted firing_lt fs.
Proof.
  induction fs as [|f fs IH]; [split; [constructor|reflexivity]|].
  destruct fs as [|g r].
  - split; [intros _; constructor; constructor|reflexivity].
  - change (chainb (f :: g :: r)) with (firing_ltb f g && chainb (g :: r)).
    rewrite andb_true_iff, firing_ltb_spec, IH. split.
    + intros [Hfg Hs]. constructor; [assumption|].
      inversion Hs as [|? ? Hs' Hall]; subst. constructor; [assumption|].
      eapply Forall_impl; [|exact Hall]. intros h Hgh. eapply firing_lt_trans; eassumption.
    + intros H. inversion H as [|? ? Hs Hall]; subst. inversion Hall; subst. split; assumption.
Qed.

Lemma sorted_nodup : forall fs, StronglySorted firing_lt fs -> NoDup fs.
Proof.
  induction fs as [|f fs IH]; intros H; [constructor|].
  inversion H as [|? ? Hs Hall]; subst. constructor; [|apply IH; assumption].
  intros F. rewrite Forall_forall in Hall. destruct (Hall f F) as (H1 & _). lia.
Qed.

(* ---------------------------------------------------------------------------------------------- *)
(* clause 3 *)

Lemma last_cons_default : forall (l : list N) t d, last (t :: l) d = last l t.
Proof.
  induction l as [|a l IH]; intros t d; [reflexivity|].
  change (last (t :: a :: l) d) with (last (a :: l) d). rewrite (IH a d), (IH a t). reflexivity.
Qed.

(* the closings enumerated by the checker are exactly the (c, position) of the property's clause *)
Lemma closings_spec : forall s, 1 <= s -> forall evs tp k c j,
  In (c, j) (closings s tp k evs) <->
  exists pre x t post, evs = pre ++ (x, t) :: post /\ j = k + N.of_nat (length pre) /\
    let tp' := last (map snd pre) tp in
    tp' < t /\ t <= tp' + s /\ N.divide s c /\ tp' < c /\ c <= t.
Proof.
  intros s Hs. induction evs as [|[x t] evs IH]; intros tp k c j.
  - cbn [closings]. split; [intros []|]. intros (pre & x & t & post & E & _). destruct pre; discriminate.
  - cbn [closings]. rewrite in_app_iff. rewrite IH. split.
    + intros [H|(pre & x0 & t0 & post & E & Ej & Hp)].
      * exists [], x, t, evs. cbn [app length map last].
        destruct ((tp <? t) && (t <=? tp + s) && (tp <? t / s * s)) eqn:Ec; [|destruct H].
        destruct H as [H|[]]. inversion H; subst c j.
        apply andb_true_iff in Ec. destruct Ec as [Ec E3]. apply andb_true_iff in Ec. destruct Ec as [E1 E2].
        apply N.ltb_lt in E1. apply N.leb_le in E2. apply N.ltb_lt in E3.
        split; [reflexivity|]. split; [lia|]. cbv zeta.
        split; [assumption|]. split; [assumption|]. split; [exists (t / s); reflexivity|]. split; [assumption|].
        assert (Hdm := N.div_mod t s ltac:(lia)). nia.
      * exists ((x, t) :: pre), x0, t0, post. split; [rewrite E; reflexivity|]. split; [cbn [length]; lia|].
        cbv zeta in *. cbn [map snd].
        rewrite last_cons_default. assumption.
    + intros (pre & x0 & t0 & post & E & Ej & Hp). destruct pre as [|[y u] pre].
      * left. cbn [app] in E. inversion E; subst x0 t0 post. cbn [map last length] in *. cbv zeta in Hp.
        destruct Hp as (H1 & H2 & [q Hq] & H4 & H5).
        assert (Hc : c = t / s * s).
        { assert (Hdm := N.div_mod t s ltac:(lia)). assert (Hlt := N.mod_lt t s ltac:(lia)).
          apply (divide_gap_eq s); [exists q; assumption|exists (t / s); reflexivity| |]; nia. }
        assert (Ec : (tp <? t) && (t <=? tp + s) && (tp <? t / s * s) = true).
        { rewrite !andb_true_iff, !N.ltb_lt, N.leb_le. rewrite <- Hc. repeat split; assumption. }
        rewrite Ec. left. subst j. f_equal; [symmetry; assumption|lia].
      * right. cbn [app] in E. inversion E; subst y u evs.
        exists pre, x0, t0, post. split; [reflexivity|]. split; [cbn [length] in Ej; lia|].
        cbv zeta in *. cbn [map snd] in Hp.
        rewrite last_cons_default in Hp. assumption.
Qed.

Lemma filter_singleton : forall (A : Type) (p : A -> bool) l f,
  NoDup l -> (filter p l = [f] <-> (In f l /\ p f = true /\ forall g, In g l -> p g = true -> g = f)).
Proof.
  intros A p l f. induction l as [|a l IH]; intros Hnd.
  - cbn. split; [discriminate|intros [[] _]].
  - inversion Hnd as [|? ? Hn Hd]; subst. cbn [filter]. destruct (p a) eqn:Ea.
    + split.
      * intros H. inversion H as [[E1 E2]]. subst a. split; [left; reflexivity|]. split; [assumption|].
        intros g [Hg|Hg] Hpg; [symmetry; assumption|].
        exfalso. assert (In g (filter p l)) by (apply filter_In; split; assumption). rewrite E2 in H0. destruct H0.
      * intros (Hin & Hpf & Huniq). assert (a = f) by (apply Huniq; [left; reflexivity|assumption]). subst a.
        f_equal. destruct (filter p l) as [|g r] eqn:Ef; [reflexivity|].
        exfalso. assert (Hg : In g (filter p l)) by (rewrite Ef; left; reflexivity).
        apply filter_In in Hg. destruct Hg as [Hg1 Hg2].
        assert (g = f) by (apply Huniq; [right; assumption|assumption]). subst g. contradiction.
    + rewrite (IH Hd). split.
      * intros (Hin & Hpf & Huniq). split; [right; assumption|]. split; [assumption|].
        intros g [Hg|Hg] Hpg; [subst g; congruence|apply Huniq; assumption].
      * intros ([Hin|Hin] & Hpf & Huniq); [subst a; congruence|].
        split; [assumption|]. split; [assumption|]. intros g Hg Hpg. apply Huniq; [right; assumption|assumption].
Qed.

Lemma once_atb_spec : forall fs c k, NoDup fs -> (once_atb fs (c, k) = true <-> reported_once_at fs c k).
Proof.
  intros fs c k Hnd. unfold once_atb, reported_once_at. cbn [fst snd]. split.
  - destruct (filter (fun f => N.eqb (wclose (fwin f)) c) fs) as [|f [|g r]] eqn:Ef; try discriminate.
    intros Hk. apply N.eqb_eq in Hk. apply (filter_singleton _ _ _ _ Hnd) in Ef. destruct Ef as (Hin & Hc & Hu).
    apply N.eqb_eq in Hc. exists f. split; [assumption|]. split; [assumption|]. split; [assumption|].
    intros g Hg Eg. apply Hu; [assumption|apply N.eqb_eq; assumption].
  - intros (f & Hin & Hc & Hk & Hu).
    assert (Ef : filter (fun f => N.eqb (wclose (fwin f)) c) fs = [f]).
    { apply (filter_singleton _ _ _ _ Hnd). split; [assumption|]. split; [apply N.eqb_eq; assumption|].
      intros g Hg Eg. apply Hu; [assumption|apply N.eqb_eq; assumption]. }
    rewrite Ef. apply N.eqb_eq. assumption.
Qed.

(* ---------------------------------------------------------------------------------------------- *)
(* the three clauses as one proposition, and the checker deciding it *)

Lemma spec_check_decides : forall w s evs fs, 1 <= s ->
  (fst (spec_check w s evs fs) = [] <-> spec_holds w s evs fs).
Proof.
  intros w s evs fs Hs. unfold spec_check, spec_holds. cbn [fst].
  destruct (forallb (firing_okb w s evs) fs) eqn:E1; cbn [app].
  2:{ split; [discriminate|]. intros (H1 & _). exfalso.
      assert (forallb (firing_okb w s evs) fs = true); [|congruence].
      apply forallb_forall. intros f Hf. apply firing_okb_spec; [assumption|]. apply H1; assumption. }
  destruct (chainb fs) eqn:E2; cbn [app].
  2:{ split; [discriminate|]. intros (_ & H2 & _). apply chainb_spec in H2. congruence. }
  apply chainb_spec in E2. assert (Hnd := sorted_nodup _ E2).
  rewrite forallb_forall in E1.
  match goal with |- context [forallb ?p ?l] => destruct (forallb p l) eqn:E3 end.
  - split; [intros _|reflexivity]. split; [|split; [assumption|]].
    + intros f Hf. apply firing_okb_spec; [assumption|]. apply E1; assumption.
    + intros pre x t post c Eevs H1 H2 Hd H3 H4 Hk.
      rewrite forallb_forall in E3.
      assert (Hin : In (c, N.of_nat (length pre)) (closings s 0 0 evs)).
      { apply (closings_spec s Hs). exists pre, x, t, post. split; [assumption|]. split; [lia|].
        cbv zeta. fold (prev_ts pre). auto. }
      specialize (E3 _ Hin). cbn [fst] in E3. rewrite Hk in E3. cbn [orb] in E3.
      apply once_atb_spec; assumption.
  - split; [discriminate|]. intros (_ & _ & H3). exfalso.
    match type of E3 with forallb ?p ?l = false => assert (forallb p l = true); [|congruence] end.
    apply forallb_forall. intros [c j] Hin. cbn [fst].
    destruct (known_gap w s evs c) eqn:Hk; [reflexivity|]. cbn [orb].
    apply (closings_spec s Hs) in Hin. destruct Hin as (pre & x & t & post & Eevs & Ej & Hp).
    cbv zeta in Hp. fold (prev_ts pre) in Hp. destruct Hp as (P1 & P2 & P3 & P4 & P5).
    replace j with (N.of_nat (length pre)) by lia.
    apply once_atb_spec; [assumption|]. apply (H3 pre x t post c); assumption.
Qed.

(* the checker accepts every run of the model on an ordered stream *)
Lemma spec_check_accepts_run : forall w s evs, 1 <= w -> 1 <= s -> in_order evs ->
  fst (spec_check w s evs (run w s evs)) = [].
Proof.
  intros w s evs Hw Hs Ho. apply spec_check_decides; [assumption|]. split; [|split].
  - intros f Hf. apply (thm_content_exact w s evs Hw Hs Ho f Hf).
  - apply thm_monotone; assumption.
  - intros pre x t post c E H1 H2 Hd H3 H4 Hk. apply (thm_once_general w s evs pre x t post c); assumption.
Qed.

Lemma thm_checker_decides : forall w s evs fs, 1 <= s ->
  (fst (spec_check w s evs fs) = [] <-> spec_holds w s evs fs).
Proof. exact spec_check_decides. Qed.

Lemma thm_checker_accepts_model : forall w s evs, 1 <= w -> 1 <= s -> in_order evs ->
  fst (spec_check w s evs (run w s evs)) = [].
Proof. exact spec_check_accepts_run. Qed.
