(* C09 - the f64 arithmetic of CSPARQLWindow::scope agrees with the exact arithmetic of the model.
   Separate property file: it depends on Flocq and on the axioms of the standard library's real numbers
   (listed by Print Assumptions below); the theorems of C09.v do not. *)
Require Import List NArith ZArith Reals.
From Flocq Require Import Core.
Require Import KV.Rsp09.Model KV.Rsp09.Float.
Import ListNotations.

(* `f_scope_opt w s e act` (Float.v) is the computation of `scope` written operation by operation with
   every +, -, *, / and every `as f64` conversion rounded to binary64 (round-to-nearest-even, precision 53,
   emin -1074), `ceil` exact and `as usize` truncating with negative values sent to 0;
   `scope_opt w s e act` (Model.v) is the model's exact N/Z computation.
   For slide >= 1 and event_time + width + slide < 2^53 they return the same windows.
   (Steps: (a) ceil(fl(e/s)) = ceil(e/s): the quotient lies in (k-1, k], at distance >= 1/s from k-1, the
   rounding error is <= 2^-53 * e/s < 1/s, and rounding is monotone so it cannot pass the representable
   integer k; (b) ceil*s, c_sup - w, o_i + w and the sums o_i + s that stay <= event_time are integers of
   magnitude < 2^53, hence exact; a sum beyond event_time may be inexact but is still > event_time after
   rounding, which is all the loop tests; (c) the cast of a negative value gives 0 = Z.to_N.) *)
Theorem C09_f64_exact :
  forall (w s e : N) (act : list (win * content)),
    (1 <= s)%N -> (Z.of_N e + Z.of_N w + Z.of_N s < 2 ^ 53)%Z ->
    f_scope_opt w s e act = scope_opt w s e act.
Proof. exact f_scope_opt_exact. Qed.
Print Assumptions C09_f64_exact.

(* the key lemma on its own: the ceiling of the rounded quotient *)
Theorem C09_f64_ceil_div :
  forall e s k : Z,
    (0 <= e < 2 ^ 53)%Z -> (1 <= s < 2 ^ 53)%Z -> ((k - 1) * s < e)%Z -> (e <= k * s)%Z ->
    Zceil (fl (IZR e / IZR s)) = k.
Proof. exact ceil_div_exact. Qed.
Print Assumptions C09_f64_ceil_div.

(* non-vacuity: the hypotheses hold for the gap witness's second event (w = 1, s = 3, e = 4), and the
   float computation then opens exactly the window (5, 6) *)
Example C09_f64_example : f_scope_opt 1 3 4 [] = Some [((5, 6)%N, empty_content)].
Proof. rewrite C09_f64_exact; [vm_compute; reflexivity|vm_compute; congruence|vm_compute; reflexivity]. Qed.
