(* C09 - executable Gallina model of kolibrie/src/rsp/s2r.rs:
     CSPARQLWindow::{scope, add_to_window}, Report::report, ContentContainer::{add, add_element}
   for the configuration the engine builds by default and the property describes:
     report strategies = [OnWindowClose], tick = TimeDriven, t_0 = 0.
   Same state components (active_windows, app_time), same order of updates, same case splits.
   No proofs in this file.

   Numbers: timestamps, widths, slides and item identifiers are N.  The code computes the first
   window in f64 (`ceil(|e - t_0| / slide) * slide`, `o_i = c_sup - width`, possibly negative);
   the model uses exact arithmetic (N for c_sup, Z for o_i).  This is the code's arithmetic as
   long as every intermediate value is below 2^53 (trusted base, see notes/C09.md). *)
Require Import List NArith ZArith Bool.
Import ListNotations.
Open Scope N_scope.

(* ---------------------------------------------------------------------------------------------- *)
(* Window { open, close } *)
Definition win := (N * N)%type.
Definition wopen (wn : win) : N := fst wn.
Definition wclose (wn : win) : N := snd wn.
Definition win_eqb (a b : win) : bool := N.eqb (fst a) (fst b) && N.eqb (snd a) (snd b).

(* ContentContainer: `elements : HashMap<I, usize>` as an association list item -> latest timestamp
   (insertion order; the check sorts), and `last_timestamp_changed`.  `deterministic_items` is the key
   set of `elements` on this path (only `add` is used); `probabilistic_occurrences` stays empty. *)
Record content := mkC { elems : list (N * N); last_changed : N }.
Definition empty_content : content := mkC [] 0.

(* elements.entry(item).and_modify(last := max(last, ts)).or_insert(ts) *)
Fixpoint upd (i t : N) (l : list (N * N)) : list (N * N) :=
  match l with
  | [] => [(i, t)]
  | (j, u) :: r => if N.eqb i j then (j, N.max u t) :: r else (j, u) :: upd i t r
  end.

(* ContentContainer::add *)
Definition cadd (i t : N) (c : content) : content := mkC (upd i t (elems c)) t.

Record wstate := mkS { active : list (win * content); app_time : N }.
Definition init : wstate := mkS [] 0.

Definition wmem (wn : win) (act : list (win * content)) : bool :=
  existsb (fun wc => win_eqb wn (fst wc)) act.

(* ---------------------------------------------------------------------------------------------- *)
(* scope *)

(* ceil(e / s) for s >= 1 *)
Definition cdiv (e s : N) : N := if N.eqb (e mod s) 0 then e / s else e / s + 1.
(* c_sup = ceil(|e - 0| / slide) * slide *)
Definition csup (s e : N) : N := cdiv e s * s.

(* The `loop { ... }` of scope.  `o` is the code's o_i (f64, may be negative: Z here);
   `as usize` saturates negative values to 0 (Z.to_N).  Returns None when the fuel runs out
   (excluded by Proofs.scope_loop_total for the fuel used by `scope`). *)
Fixpoint scope_loop (fuel : nat) (w s e : N) (o : Z) (act : list (win * content))
  : option (list (win * content)) :=
  match fuel with
  | O => None
  | S f =>
      let wn : win := (Z.to_N o, Z.to_N (o + Z.of_N w)) in
      let act' := if wmem wn act then act else act ++ [(wn, empty_content)] in
      let o' := (o + Z.of_N s)%Z in
      if (o' >? Z.of_N e)%Z then Some act' else scope_loop f w s e o' act'
  end.

Definition scope_fuel (w s : N) : nat := S (N.to_nat (w / s)).

Definition scope_opt (w s e : N) (act : list (win * content)) : option (list (win * content)) :=
  scope_loop (scope_fuel w s) w s e (Z.of_N (csup s e) - Z.of_N w)%Z act.

(* The None branch is dead (Proofs.scope_total: scope_opt is always Some for s >= 1). *)
Definition scope (w s e : N) (act : list (win * content)) : list (win * content) :=
  match scope_opt w s e act with Some a => a | None => act end.

(* ---------------------------------------------------------------------------------------------- *)
(* add_to_window *)

(* window.open <= event_time && event_time < window.close *)
Definition in_win (wn : win) (t : N) : bool := (wopen wn <=? t) && (t <? wclose wn).

(* the filter_map building `test`: keep the windows containing ts, with the item added *)
Fixpoint keep_add (x t : N) (act : list (win * content)) : list (win * content) :=
  match act with
  | [] => []
  | (wn, c) :: r => if in_win wn t then (wn, cadd x t c) :: keep_add x t r else keep_add x t r
  end.

(* Report::report with strategies = [OnWindowClose]: window.close <= ts *)
Definition report (wn : win) (t : N) : bool := wclose wn <=? t.

(* .filter(report).max_by(close) *)
Fixpoint max_close (l : list (win * content)) : option (win * content) :=
  match l with
  | [] => None
  | wc :: r =>
      match max_close r with
      | None => Some wc
      | Some m => if wclose (fst m) <? wclose (fst wc) then Some wc else Some m
      end
  end.

(* One call of add_to_window(item x, ts t): new state and the content sent to the consumers, if any
   (together with the window it belongs to). *)
Definition step (w s : N) (st : wstate) (ev : N * N) : wstate * option (win * content) :=
  let '(x, t) := ev in
  let act := scope w s t (active st) in
  let test := keep_add x t act in
  match max_close (filter (fun wc => report (fst wc) t) act) with
  | Some m =>
      if app_time st <? t          (* Tick::TimeDriven: if ts > self.app_time *)
      then (mkS test t, Some m)
      else (mkS test (app_time st), None)
  | None => (mkS test (app_time st), None)
  end.

(* A firing: index of the triggering event in the stream, its timestamp, the window, the content. *)
Record firing := mkF { fidx : N; ftime : N; fwin : win; fcont : content }.

Fixpoint run_from (w s : N) (st : wstate) (k : N) (evs : list (N * N)) : list firing :=
  match evs with
  | [] => []
  | ev :: r =>
      let '(st', o) := step w s st ev in
      match o with
      | Some (wn, c) => mkF k (snd ev) wn c :: run_from w s st' (k + 1) r
      | None => run_from w s st' (k + 1) r
      end
  end.

Fixpoint exec (w s : N) (st : wstate) (evs : list (N * N)) : wstate :=
  match evs with
  | [] => st
  | ev :: r => exec w s (fst (step w s st ev)) r
  end.

Definition run (w s : N) (evs : list (N * N)) : list firing := run_from w s init 0 evs.

(* Delivery.  On a firing add_to_window first sends a clone of the content to the channel consumer, if one was
   registered with register() - a failed send (the Receiver was dropped) is only logged (`warn!`) - and then
   calls the callback consumer, if one was registered.  Neither outcome feeds back into the window: app_time
   was set before, `self.active_windows = test` follows unconditionally.  So every consumer sees the firings of
   `run`; a channel whose Receiver is dropped just before event number d has received those of the events
   before d.  (Checked on one window carrying both consumers, stream "both" of checks/c09.py.) *)
Definition callback_view (fs : list firing) : list firing := fs.
Definition channel_view (drop : option N) (fs : list firing) : list firing :=
  match drop with
  | None => fs
  | Some d => filter (fun f => fidx f <? d) fs
  end.
