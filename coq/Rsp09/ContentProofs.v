(* C09 - lemmas about arithmetic on slide multiples, ordered streams and window contents. *)
Require Import List NArith ZArith Bool Lia Sorted.
Require Import KV.Rsp09.Model KV.Rsp09.Spec.
Import ListNotations.
Open Scope N_scope.

(* ---------------------------------------------------------------------------------------------- *)
(* multiples of the slide *)

Lemma mul_gap_le : forall a b s, a * s < b * s + s -> a <= b.
Proof. intros a b s H. nia. Qed.

Lemma divide_gap_eq : forall s c c', N.divide s c -> N.divide s c' -> c < c' + s -> c' < c + s -> c = c'.
Proof.
  intros s c c' [a Ha] [b Hb] H1 H2. subst.
  assert (a <= b) by (apply (mul_gap_le a b s); lia).
  assert (b <= a) by (apply (mul_gap_le b a s); lia).
  assert (a = b) by lia. subst; reflexivity.
Qed.

Lemma divide_gap_le : forall s c c', N.divide s c -> N.divide s c' -> c < c' + s -> c <= c'.
Proof.
  intros s c c' [a Ha] [b Hb] H1. subst.
  assert (a <= b) by (apply (mul_gap_le a b s); lia). nia.
Qed.

Lemma csup_spec : forall s e, 1 <= s -> N.divide s (csup s e) /\ e <= csup s e /\ csup s e < e + s.
Proof.
  intros s e Hs. unfold csup, cdiv.
  assert (Hdm := N.div_mod e s ltac:(lia)).
  assert (Hlt := N.mod_lt e s ltac:(lia)).
  destruct (N.eqb_spec (e mod s) 0) as [Hz|Hz].
  - split; [exists (e / s); reflexivity|].
    revert Hdm Hlt Hz. generalize (e / s) (e mod s). intros q r Hdm Hlt Hz. subst r. nia.
  - split; [exists (e / s + 1); reflexivity|].
    revert Hdm Hlt Hz. generalize (e / s) (e mod s). intros q r Hdm Hlt Hz. nia.
Qed.

Lemma csup_least : forall s e c, 1 <= s -> N.divide s c -> e <= c -> csup s e <= c.
Proof.
  intros s e c Hs Hd He. destruct (csup_spec s e Hs) as (Hd' & _ & Hlt).
  apply (divide_gap_le s); auto. lia.
Qed.

Lemma csup_multiple : forall s e, 1 <= s -> N.divide s e -> csup s e = e.
Proof.
  intros s e Hs Hd. destruct (csup_spec s e Hs) as (Hd' & Hle & Hlt).
  apply (divide_gap_eq s); auto; lia.
Qed.

(* ---------------------------------------------------------------------------------------------- *)
(* ordered streams *)

Lemma ssorted_app_inv : forall (l1 l2 : list N),
  StronglySorted N.le (l1 ++ l2) ->
  StronglySorted N.le l1 /\ StronglySorted N.le l2 /\ forall a b, In a l1 -> In b l2 -> a <= b.
Proof.
  induction l1 as [|x l1 IH]; intros l2 H; cbn in *.
  - split; [constructor|]. split; [assumption|]. intros a b [].
  - inversion H as [|? ? Hs Hf]; subst. destruct (IH l2 Hs) as (H1 & H2 & H3).
    rewrite Forall_forall in Hf.
    split.
    + constructor; [assumption|]. rewrite Forall_forall. intros y Hy. apply Hf. apply in_or_app; auto.
    + split; [assumption|]. intros a b [Ha|Ha] Hb.
      * subst. apply Hf. apply in_or_app; auto.
      * apply H3; assumption.
Qed.

Lemma in_order_app_inv : forall l1 l2, in_order (l1 ++ l2) ->
  in_order l1 /\ in_order l2 /\ forall a b, In a l1 -> In b l2 -> snd a <= snd b.
Proof.
  unfold in_order. intros l1 l2 H. rewrite map_app in H.
  destruct (ssorted_app_inv _ _ H) as (H1 & H2 & H3).
  split; [assumption|]. split; [assumption|].
  intros a b Ha Hb. apply H3; apply in_map; assumption.
Qed.

Lemma last_in : forall (l : list N) d, l <> [] -> In (last l d) l.
Proof.
  induction l as [|a l IH]; intros d H; [congruence|].
  destruct l as [|b l]; [left; reflexivity|].
  right. change (last (a :: b :: l) d) with (last (b :: l) d). apply IH. congruence.
Qed.

Lemma last_app1 : forall (l : list N) a d, last (l ++ [a]) d = a.
Proof. intros. apply last_last. Qed.

Lemma prev_ts_snoc : forall pre e, prev_ts (pre ++ [e]) = snd e.
Proof. intros. unfold prev_ts. rewrite map_app. cbn. apply last_app1. Qed.

Lemma prev_ts_nil : prev_ts [] = 0.
Proof. reflexivity. Qed.

(* in an ordered stream the last timestamp is the largest *)
Lemma prev_ts_max : forall pre a, in_order pre -> In a pre -> snd a <= prev_ts pre.
Proof.
  intros pre a Ho Ha. unfold prev_ts.
  destruct (exists_last (l := pre)) as (l' & z & E); [intro; subst; contradiction|].
  subst pre. rewrite map_app. cbn. rewrite last_app1.
  apply in_app_or in Ha. destruct Ha as [Ha|[Ha|[]]]; [|subst; lia].
  destruct (in_order_app_inv _ _ Ho) as (_ & _ & H3). apply H3; [assumption|left; reflexivity].
Qed.

Lemma prev_ts_in : forall pre, pre <> [] -> exists a, In a pre /\ snd a = prev_ts pre.
Proof.
  intros pre H. destruct (exists_last H) as (l' & z & E). subst.
  exists z. split; [apply in_or_app; right; left; reflexivity|]. rewrite prev_ts_snoc. reflexivity.
Qed.

(* ---------------------------------------------------------------------------------------------- *)
(* contents *)

Definition add_ev (c : content) (e : N * N) : content := cadd (fst e) (snd e) c.
(* the content a window holds after receiving exactly the events of l, in order *)
Definition content_of (l : list (N * N)) : content := fold_left add_ev l empty_content.

Lemma content_of_snoc : forall l e, content_of (l ++ [e]) = add_ev (content_of l) e.
Proof. intros. unfold content_of. rewrite fold_left_app. reflexivity. Qed.

Lemma in_intervalb_spec : forall w c t, in_intervalb w c t = true <-> in_interval w c t.
Proof.
  intros. unfold in_intervalb, in_interval. rewrite andb_true_iff, N.leb_le, N.ltb_lt. tauto.
Qed.

Lemma interval_evs_app : forall w c l1 l2, interval_evs w c (l1 ++ l2) = interval_evs w c l1 ++ interval_evs w c l2.
Proof. intros. unfold interval_evs. apply filter_app. Qed.

Lemma interval_evs_In : forall w c l e, In e (interval_evs w c l) <-> In e l /\ in_interval w c (snd e).
Proof. intros. unfold interval_evs. rewrite filter_In, in_intervalb_spec. tauto. Qed.

Lemma interval_evs_nil : forall w c l, (forall e, In e l -> ~ in_interval w c (snd e)) -> interval_evs w c l = [].
Proof.
  intros w c l H. induction l as [|a l IH]; [reflexivity|].
  unfold interval_evs. cbn [filter]. destruct (in_intervalb w c (snd a)) eqn:E.
  - apply in_intervalb_spec in E. exfalso. apply (H a); [left; reflexivity|assumption].
  - apply IH. intros e He. apply H. right; assumption.
Qed.

Lemma upd_keys : forall i t l j, In j (map fst (upd i t l)) <-> j = i \/ In j (map fst l).
Proof.
  intros i t l. induction l as [|[k u] l IH]; intros j; cbn [upd].
  - cbn. intuition.
  - destruct (N.eqb_spec i k) as [E|E]; cbn [map fst In].
    + subst. intuition.
    + rewrite IH. intuition.
Qed.

Lemma upd_nodup : forall i t l, NoDup (map fst l) -> NoDup (map fst (upd i t l)).
Proof.
  intros i t l. induction l as [|[k u] l IH]; intros H; cbn [upd].
  - cbn. constructor; [intros []|constructor].
  - cbn [map fst] in H. inversion H as [|? ? Hn Hd]; subst.
    destruct (N.eqb_spec i k) as [E|E]; cbn [map fst].
    + constructor; assumption.
    + constructor; [|apply IH; assumption]. rewrite upd_keys. intros [F|F]; [congruence|contradiction].
Qed.

Lemma upd_in : forall i t l j u, NoDup (map fst l) ->
  (In (j, u) (upd i t l) <->
   (j <> i /\ In (j, u) l) \/
   (j = i /\ ((exists u0, In (i, u0) l /\ u = N.max u0 t) \/ (~ In i (map fst l) /\ u = t)))).
Proof.
  intros i t l j u. induction l as [|[k v] l IH]; intros Hnd; cbn [upd].
  - cbn. split.
    + intros [E|[]]. inversion E; subst. right. split; [reflexivity|]. right. split; [tauto|reflexivity].
    + intros [[_ []]|[E [[u0 [[] _]]|[_ E2]]]]. subst. left; reflexivity.
  - cbn [map fst] in Hnd. inversion Hnd as [|? ? Hn Hd]; subst.
    destruct (N.eqb_spec i k) as [E|E].
    + subst k. cbn [In map fst]. split.
      * intros [H|H].
        -- inversion H; subst. right. split; [reflexivity|]. left. exists v. split; [left; reflexivity|reflexivity].
        -- destruct (N.eq_dec j i) as [Ej|Ej].
           ++ subst. exfalso. apply Hn. change i with (fst (i, u)). apply in_map. assumption.
           ++ left. split; [assumption|right; assumption].
      * intros [[Hj [H|H]]|[Hj [[u0 [[H|H] Hu]]|[Hni _]]]].
        -- inversion H; congruence.
        -- right; assumption.
        -- inversion H; subst. left; reflexivity.
        -- exfalso. apply Hn. change i with (fst (i, u0)). apply in_map. assumption.
        -- exfalso. apply Hni. left; reflexivity.
    + cbn [In map fst]. rewrite (IH Hd). split.
      * intros [H|[[Hj H]|[Hj [[u0 [H Hu]]|[Hni Hu]]]]].
        -- inversion H; subst. left. split; [congruence|left; reflexivity].
        -- left. split; [assumption|right; assumption].
        -- right. split; [assumption|]. left. exists u0. split; [right; assumption|assumption].
        -- right. split; [assumption|]. right. split; [|assumption]. intros [F|F]; [congruence|contradiction].
      * intros [[Hj [H|H]]|[Hj [[u0 [[H|H] Hu]]|[Hni Hu]]]].
        -- left; assumption.
        -- right. left. split; assumption.
        -- inversion H; congruence.
        -- right. right. split; [assumption|]. left. exists u0. split; assumption.
        -- right. right. split; [assumption|]. right. split; [|assumption]. intro F. apply Hni. right; assumption.
Qed.

(* among the occurrences of item i in l there is one with the largest timestamp *)
Lemma max_ts_exists : forall i (l : list (N * N)) u, In (i, u) l ->
  exists m, In (i, m) l /\ forall v, In (i, v) l -> v <= m.
Proof.
  intros i l. induction l as [|[y s] l IHl]; intros u Hin; [destruct Hin|].
  destruct (existsb (fun p => N.eqb (fst p) i) l) eqn:Ex.
  - apply existsb_exists in Ex. destruct Ex as ([y' v] & Hv & Hy). cbn in Hy. apply N.eqb_eq in Hy. subst y'.
    destruct (IHl v Hv) as (m & Hm1 & Hm2).
    destruct (N.eq_dec y i) as [E|E].
    + subst y. destruct (N.le_ge_cases m s) as [L|L].
      * exists s. split; [left; reflexivity|]. intros v' [Hv'|Hv']; [inversion Hv'; lia|specialize (Hm2 v' Hv'); lia].
      * exists m. split; [right; assumption|]. intros v' [Hv'|Hv']; [inversion Hv'; lia|apply Hm2; assumption].
    + exists m. split; [right; assumption|]. intros v' [Hv'|Hv']; [inversion Hv'; congruence|apply Hm2; assumption].
  - destruct Hin as [Hin|Hin].
    + inversion Hin; subst. exists u. split; [left; reflexivity|].
      intros v' [Hv'|Hv']; [inversion Hv'; lia|].
      exfalso. assert (F : existsb (fun p => N.eqb (fst p) i) l = true)
        by (apply existsb_exists; exists (i, v'); split; [assumption|cbn; apply N.eqb_refl]). congruence.
    + exfalso. assert (F : existsb (fun p => N.eqb (fst p) i) l = true)
        by (apply existsb_exists; exists (i, u); split; [assumption|cbn; apply N.eqb_refl]). congruence.
Qed.

(* a content built from the events of l: the keys are the items of l, each once, each with its
   largest timestamp in l *)
Lemma content_of_spec : forall l,
  NoDup (map fst (elems (content_of l))) /\
  forall i u, In (i, u) (elems (content_of l)) <-> (In (i, u) l /\ forall u', In (i, u') l -> u' <= u).
Proof.
  induction l as [|[x t] l IH] using rev_ind.
  - split; [constructor|]. intros i u. cbn. tauto.
  - destruct IH as [IHn IHi]. rewrite content_of_snoc. unfold add_ev, cadd. cbn [elems fst snd].
    split; [apply upd_nodup; assumption|].
    intros i u. rewrite (upd_in x t _ i u IHn). split.
    + intros [[Hj H]|[Hj [[u0 [H Hu]]|[Hni Hu]]]].
      * apply IHi in H. destruct H as [H1 H2]. split; [apply in_or_app; left; assumption|].
        intros u' Hu'. apply in_app_or in Hu'. destruct Hu' as [Hu'|[Hu'|[]]]; [apply H2; assumption|].
        inversion Hu'; congruence.
      * subst i. apply IHi in H. destruct H as [H1 H2]. split.
        -- destruct (N.max_spec u0 t) as [[_ E]|[_ E]]; rewrite Hu, E.
           ++ apply in_or_app; right; left; reflexivity.
           ++ apply in_or_app; left; assumption.
        -- intros u' Hu'. apply in_app_or in Hu'. destruct Hu' as [Hu'|[Hu'|[]]].
           ++ specialize (H2 u' Hu'). lia.
           ++ inversion Hu'; subst. lia.
      * subst i u. split; [apply in_or_app; right; left; reflexivity|].
        intros u' Hu'. apply in_app_or in Hu'. destruct Hu' as [Hu'|[Hu'|[]]].
        -- exfalso. apply Hni.
           assert (Hk : exists v, In (x, v) (elems (content_of l))).
           { destruct (max_ts_exists x l u' Hu') as (v & Hv1 & Hv2). exists v. apply IHi. split; assumption. }
           destruct Hk as (v & Hv). change x with (fst (x, v)). apply in_map. assumption.
        -- inversion Hu'; subst. lia.
    + intros [Hin Hmax]. apply in_app_or in Hin. destruct Hin as [Hin|[Hin|[]]].
      * destruct (N.eq_dec i x) as [E|E].
        -- subst i. right. split; [reflexivity|]. left.
           assert (Ht : t <= u) by (apply Hmax; apply in_or_app; right; left; reflexivity).
           exists u. split; [|lia]. apply IHi. split; [assumption|].
           intros u' Hu'. apply Hmax. apply in_or_app; left; assumption.
        -- left. split; [assumption|]. apply IHi. split; [assumption|].
           intros u' Hu'. apply Hmax. apply in_or_app; left; assumption.
      * inversion Hin; subst. right. split; [reflexivity|].
        destruct (in_dec N.eq_dec i (map fst (elems (content_of l)))) as [Hk|Hk].
        -- left. apply in_map_iff in Hk. destruct Hk as ([i' v] & Ei & Hv). cbn in Ei; subst i'.
           exists v. split; [assumption|]. apply IHi in Hv. destruct Hv as [Hv1 _].
           assert (v <= u) by (apply Hmax; apply in_or_app; left; assumption). lia.
        -- right. split; [assumption|reflexivity].
Qed.

(* the content built from the events of the interval is the exact item set of the interval *)
Lemma content_of_interval_exact : forall w c evs, content_exact w c evs (content_of (interval_evs w c evs)).
Proof.
  intros w c evs. destruct (content_of_spec (interval_evs w c evs)) as [Hn Hi].
  split; [assumption|]. intros i u. rewrite Hi. rewrite interval_evs_In. cbn [snd]. split.
  - intros [[H1 H2] H3]. split; [assumption|]. split; [assumption|].
    intros u' Hu' Hiv. apply H3. apply interval_evs_In. split; assumption.
  - intros [H1 [H2 H3]]. split; [split; assumption|].
    intros u' Hu'. apply interval_evs_In in Hu'. destruct Hu' as [Hu1 Hu2]. apply H3; assumption.
Qed.

Lemma content_exact_items : forall w c evs cont, content_exact w c evs cont -> content_items_exact w c evs cont.
Proof.
  intros w c evs cont [Hn Hi] i. split.
  - intros Hk. apply in_map_iff in Hk. destruct Hk as ([i' u] & E & Hu). cbn in E; subst i'.
    apply Hi in Hu. destruct Hu as (H1 & H2 & _). exists u. split; assumption.
  - intros (u & Hu & Hiv).
    (* take the largest timestamp of i in the interval *)
    assert (Hex : exists m, In (i, m) (interval_evs w c evs) /\ forall v, In (i, v) (interval_evs w c evs) -> v <= m).
    { apply (max_ts_exists i _ u). apply interval_evs_In. split; assumption. }
    destruct Hex as (m & Hm1 & Hm2). apply interval_evs_In in Hm1. destruct Hm1 as [Hm1 Hm1'].
    change i with (fst (i, m)). apply in_map. apply Hi. split; [assumption|]. split; [assumption|].
    intros u' Hu' Hiv'. apply Hm2. apply interval_evs_In. split; assumption.
Qed.
