(* C09 - from one step to whole runs: the lemmas behind the property theorems. *)
Require Import List NArith ZArith Bool Lia ZifyBool ZifyN Sorted.
Require Import KV.Rsp09.Model KV.Rsp09.Spec KV.Rsp09.ContentProofs KV.Rsp09.ScopeProofs KV.Rsp09.StepProofs.
Import ListNotations.
Open Scope N_scope.

Lemma forallb_false_exists : forall (A : Type) (f : A -> bool) l,
  forallb f l = false -> exists a, In a l /\ f a = false.
Proof.
  intros A f l. induction l as [|a l IH]; cbn; [discriminate|].
  destruct (f a) eqn:E; cbn.
  - intros H. destruct (IH H) as (b & Hb & Fb). exists b. auto.
  - intros _. exists a. auto.
Qed.

Lemma snoc_assoc : forall (A : Type) (pre : list A) e l, pre ++ e :: l = (pre ++ [e]) ++ l.
Proof. intros. rewrite <- app_assoc. reflexivity. Qed.

Lemma in_order_head_le : forall x t l e, in_order ((x, t) :: l) -> In e l -> t <= snd e.
Proof.
  intros x t l e Ho He. unfold in_order in Ho. cbn [map snd] in Ho.
  inversion Ho as [|? ? _ Hall]. rewrite Forall_forall in Hall. apply Hall. apply in_map. assumption.
Qed.

Section Run.
Variables w s : N.
Hypothesis Hs : 1 <= s.

Lemma exec_inv : forall l pre st, Inv w s pre st -> in_order (pre ++ l) -> Inv w s (pre ++ l) (exec w s st l).
Proof.
  induction l as [|[x t] l IH]; intros pre st HI Ho; cbn [exec].
  - rewrite app_nil_r. assumption.
  - rewrite snoc_assoc in Ho |- *. apply IH; [|assumption].
    destruct (in_order_app_inv _ _ Ho) as (Ho1 & _).
    destruct (step_spec w s Hs pre st x t HI Ho1) as (H & _). exact H.
Qed.

Lemma run_from_In : forall l st k f, In f (run_from w s st k l) ->
  exists l1 x t l2, l = l1 ++ (x, t) :: l2 /\ fidx f = k + N.of_nat (length l1) /\ ftime f = t /\
                    snd (step w s (exec w s st l1) (x, t)) = Some (fwin f, fcont f).
Proof.
  induction l as [|[x t] l IH]; intros st k f Hin; [destruct Hin|].
  cbn [run_from] in Hin. destruct (step w s st (x, t)) as [st' o] eqn:E.
  assert (Htail : In f (run_from w s st' (k + 1) l) ->
    exists l1 x0 t0 l2, (x, t) :: l = l1 ++ (x0, t0) :: l2 /\ fidx f = k + N.of_nat (length l1) /\ ftime f = t0 /\
                        snd (step w s (exec w s st l1) (x0, t0)) = Some (fwin f, fcont f)).
  { intros H. destruct (IH _ _ _ H) as (l1 & x0 & t0 & l2 & El & Ei & Et & Es).
    exists ((x, t) :: l1), x0, t0, l2. split; [rewrite El; reflexivity|]. split; [cbn [length]; lia|].
    split; [assumption|]. cbn [exec]. rewrite E. cbn [fst]. assumption. }
  destruct o as [[wn c]|]; [|apply Htail; assumption].
  destruct Hin as [Hf|Hin]; [|apply Htail; assumption].
  exists [], x, t, l. subst f. cbn [fidx ftime fwin fcont length exec snd app]. rewrite E.
  split; [reflexivity|]. split; [lia|]. split; reflexivity.
Qed.

Lemma run_from_In_rev : forall l1 st k x t l2 wn c,
  snd (step w s (exec w s st l1) (x, t)) = Some (wn, c) ->
  In (mkF (k + N.of_nat (length l1)) t wn c) (run_from w s st k (l1 ++ (x, t) :: l2)).
Proof.
  induction l1 as [|[y u] l1 IH]; intros st k x t l2 wn c H.
  - cbn [app exec length] in *. cbn [run_from]. destruct (step w s st (x, t)) as [st' o] eqn:E.
    cbn [snd] in H. subst o. replace (k + N.of_nat 0) with k by lia. left. reflexivity.
  - cbn [app exec length] in *. cbn [run_from]. destruct (step w s st (y, u)) as [st' o] eqn:E. cbn [fst] in H.
    specialize (IH st' (k + 1) x t l2 wn c H).
    replace (k + N.of_nat (S (length l1))) with (k + 1 + N.of_nat (length l1)) by lia.
    destruct o as [[wn0 c0]|]; [right|]; assumption.
Qed.

(* facts about every firing produced from a state satisfying the invariant *)
Definition after (st : wstate) (k : N) (f : firing) : Prop :=
  app_time st < ftime f /\ app_time st < wclose (fwin f) /\ k <= fidx f /\ wopen (fwin f) = wclose (fwin f) - w.

Lemma run_from_sorted : forall l pre st k, Inv w s pre st -> in_order (pre ++ l) ->
  StronglySorted firing_lt (run_from w s st k l) /\ Forall (after st k) (run_from w s st k l).
Proof.
  induction l as [|[x t] l IH]; intros pre st k HI Ho; cbn [run_from].
  - split; constructor.
  - rewrite snoc_assoc in Ho. destruct (in_order_app_inv _ _ Ho) as (Ho1 & _).
    assert (Hstep := step_spec w s Hs pre st x t HI Ho1). cbv zeta in Hstep.
    destruct (step w s st (x, t)) as [st' o] eqn:E. cbn [fst snd] in Hstep.
    destruct Hstep as (HI' & Hmono & Hfire).
    destruct (IH _ st' (k + 1) HI' Ho) as (Hsort & Hall).
    assert (Hall' : Forall (after st k) (run_from w s st' (k + 1) l)).
    { eapply Forall_impl; [|exact Hall]. intros f (H1 & H2 & H3 & H4). unfold after. repeat split; first [lia|assumption]. }
    destruct o as [[wn c]|]; [|split; assumption].
    destruct Hfire as (Hlt & Happ' & c0 & Ewn & Hd & Hct & Hac & Ec & _). subst wn.
    split.
    + constructor; [assumption|]. eapply Forall_impl; [|exact Hall].
      intros g (H1 & H2 & H3 & H4). unfold firing_lt. cbn [fidx ftime fwin wclose wopen fst snd].
      unfold wclose, wopen in *. rewrite H4. lia.
    + constructor; [|assumption]. unfold after. cbn [fidx ftime fwin wclose wopen fst snd]. repeat split; lia.
Qed.

Lemma sorted_close_unique : forall fs f g,
  StronglySorted firing_lt fs -> In f fs -> In g fs -> wclose (fwin f) = wclose (fwin g) -> f = g.
Proof.
  induction fs as [|a fs IH]; intros f g Hs0 Hf Hg E; [destruct Hf|].
  inversion Hs0 as [|? ? Hs1 Hall]; subst. rewrite Forall_forall in Hall.
  destruct Hf as [Hf|Hf]; destruct Hg as [Hg|Hg].
  - congruence.
  - subst a. destruct (Hall g Hg) as (_ & _ & H & _). lia.
  - subst a. destruct (Hall f Hf) as (_ & _ & H & _). lia.
  - apply IH; assumption.
Qed.

(* ---------------------------------------------------------------------------------------------- *)
(* the property lemmas *)

Lemma init_exec_inv : forall pre l, in_order (pre ++ l) -> Inv w s pre (exec w s init pre).
Proof.
  intros pre l Ho. destruct (in_order_app_inv _ _ Ho) as (Ho1 & _).
  apply (exec_inv pre [] init (Inv_init w s Hs)). exact Ho1.
Qed.

Lemma content_exact_run : forall evs, in_order evs -> forall f, In f (run w s evs) -> firing_ok w s evs f.
Proof.
  intros evs Ho f Hin. unfold run in Hin.
  destruct (run_from_In _ _ _ _ Hin) as (l1 & x & t & l2 & El & Ei & Et & Es).
  subst evs. assert (HI := init_exec_inv l1 _ Ho).
  assert (Ho' := Ho). rewrite snoc_assoc in Ho'. destruct (in_order_app_inv _ _ Ho') as (Ho1 & _).
  assert (Hstep := step_spec w s Hs l1 _ x t HI Ho1). cbv zeta in Hstep. rewrite Es in Hstep.
  destruct Hstep as (_ & _ & _ & _ & c & Ewn & Hd & Hct & _ & Ec & _).
  split.
  - exists x. rewrite Ei, Et. replace (N.to_nat (0 + N.of_nat (length l1))) with (length l1 + 0)%nat by lia.
    rewrite nth_error_app2 by lia. replace (length l1 + 0 - length l1)%nat with 0%nat by lia. reflexivity.
  - exists c. split; [assumption|]. split; [assumption|]. split; [rewrite Et; assumption|].
    rewrite Ec.
    replace (interval_evs w c l1) with (interval_evs w c (l1 ++ (x, t) :: l2)); [apply content_of_interval_exact|].
    rewrite interval_evs_app. rewrite (interval_evs_nil w c ((x, t) :: l2)); [apply app_nil_r|].
    intros e He [_ Hlt].
    destruct (in_order_app_inv _ _ Ho) as (_ & Ho2 & _).
    destruct He as [He|He]; [subst e; cbn in Hlt; lia|].
    assert (t <= snd e) by (apply (in_order_head_le x t l2); assumption). lia.
Qed.

Lemma monotone_run : forall evs, in_order evs -> StronglySorted firing_lt (run w s evs).
Proof.
  intros evs Ho. unfold run. apply (run_from_sorted evs [] init 0 (Inv_init w s Hs)). exact Ho.
Qed.

Lemma once_run : forall evs pre x t post c,
  in_order evs -> evs = pre ++ (x, t) :: post ->
  prev_ts pre < t -> t <= prev_ts pre + s ->
  N.divide s c -> prev_ts pre < c -> c <= t ->
  known_gap w s evs c = false ->
  reported_once_at (run w s evs) c (N.of_nat (length pre)).
Proof.
  intros evs pre x t post c Ho Eevs Hgap1 Hgap2 Hd Hc1 Hc2 Hk. subst evs.
  assert (HI := init_exec_inv pre _ Ho).
  assert (Ho' := Ho). rewrite snoc_assoc in Ho'. destruct (in_order_app_inv _ _ Ho') as (Ho1 & _).
  assert (Hpo : in_order pre) by (destruct (in_order_app_inv _ _ Ho1) as (H & _); exact H).
  (* c is a candidate at this event *)
  assert (Hcand : cand w s pre t c).
  { split; [assumption|]. split; [assumption|].
    destruct (list_nil_dec _ pre) as [Epre|Hne].
    - right. rewrite Epre in *. cbn in Hgap2, Hc1. destruct Hd as [q Hq]. subst c.
      assert (1 <= q) by nia. nia.
    - unfold known_gap in Hk. apply andb_false_iff in Hk. destruct Hk as [Hk|Hk].
      + left. split; [assumption|]. split; [assumption|]. apply N.ltb_ge in Hk. lia.
      + apply forallb_false_exists in Hk. destruct Hk as (e & He & Fe).
        apply negb_false_iff in Fe. apply andb_true_iff in Fe. destruct Fe as [F1 F2].
        apply N.leb_le in F1. apply N.leb_le in F2.
        apply in_app_or in He. destruct He as [He|[He|He]].
        * left. split; [assumption|]. split; [assumption|].
          assert (snd e <= prev_ts pre) by (apply prev_ts_max; assumption). lia.
        * subst e. cbn [snd] in *. right. lia.
        * right. destruct (in_order_app_inv _ _ Ho) as (_ & Ho2 & _).
          assert (t <= snd e) by (apply (in_order_head_le x t post); assumption). lia. }
  assert (Hstep := step_spec w s Hs pre _ x t HI Ho1). cbv zeta in Hstep.
  destruct HI as (_ & _ & Happ & _).
  destruct (snd (step w s (exec w s init pre) (x, t))) as [[wn cont]|] eqn:Es.
  - destruct Hstep as (_ & _ & _ & _ & c0 & Ewn & Hd0 & Hct0 & _ & _ & _ & Hmaxc).
    assert (Hle : c <= c0) by (apply Hmaxc; assumption).
    assert (c0 = c) by (apply (divide_gap_eq s); auto; lia). subst c0 wn.
    assert (Hin := run_from_In_rev pre init 0 x t post _ _ Es).
    replace (0 + N.of_nat (length pre)) with (N.of_nat (length pre)) in Hin by lia.
    eexists. split; [exact Hin|]. split; [reflexivity|]. split; [reflexivity|].
    intros g Hg Eg. apply (sorted_close_unique (run w s (pre ++ (x, t) :: post))); auto.
    apply monotone_run; assumption.
  - exfalso. destruct Hstep as (_ & _ & _ & Hno). apply (Hno ltac:(lia) c). assumption.
Qed.

End Run.

(* ---------------------------------------------------------------------------------------------- *)
(* final forms, as stated in C09.v *)

Lemma thm_content_exact : forall w s evs, 1 <= w -> 1 <= s -> in_order evs ->
  forall f, In f (run w s evs) ->
    firing_ok w s evs f /\ content_items_exact w (wclose (fwin f)) evs (fcont f).
Proof.
  intros w s evs _ Hs Ho f Hin. assert (H := content_exact_run w s Hs evs Ho f Hin).
  split; [exact H|]. destruct H as (_ & c & Ewn & _ & _ & Hc). rewrite Ewn. cbn [wclose snd].
  apply content_exact_items. exact Hc.
Qed.

Lemma thm_monotone : forall w s evs, 1 <= w -> 1 <= s -> in_order evs -> StronglySorted firing_lt (run w s evs).
Proof. intros w s evs _ Hs Ho. apply monotone_run; assumption. Qed.

Lemma thm_once_general : forall w s evs pre x t post c,
  1 <= w -> 1 <= s -> in_order evs -> evs = pre ++ (x, t) :: post ->
  prev_ts pre < t -> t <= prev_ts pre + s ->
  N.divide s c -> prev_ts pre < c -> c <= t ->
  known_gap w s evs c = false ->
  reported_once_at (run w s evs) c (N.of_nat (length pre)).
Proof. intros w s evs pre x t post c _ Hs. apply once_run; assumption. Qed.

Lemma thm_once : forall w s evs pre x t post c,
  1 <= s -> s <= w -> in_order evs -> evs = pre ++ (x, t) :: post ->
  prev_ts pre < t -> t <= prev_ts pre + s ->
  N.divide s c -> prev_ts pre < c -> c <= t ->
  reported_once_at (run w s evs) c (N.of_nat (length pre)).
Proof.
  intros w s evs pre x t post c Hs Hws Ho E H1 H2 Hd H3 H4.
  apply (once_run w s Hs evs pre x t post c); auto.
  unfold known_gap. destruct (N.ltb_spec w s); [lia|reflexivity].
Qed.

Lemma thm_scope_total : forall w s e act, 1 <= s -> scope_opt w s e act <> None.
Proof. intros w s e act Hs. destruct (scope_total w s e act Hs) as (a & Ha). congruence. Qed.
