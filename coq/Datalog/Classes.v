(* Decidable classes of programs on which a strategy of the unchanged code is known to miss the
   least model (known_findings.json); the same booleans are computed by checks/c05.py. *)
Require Export KV.Datalog.Syntax.

Definition is_var (t : term) : bool := match t with V _ => true | C _ => false end.

(* C05-parallel-shapes: infer_new_facts_semi_naive_parallel only fires rules with one or two
   premises, finds candidate rules through a premise with a *constant* predicate equal to the delta
   triple's predicate, and never evaluates filters. *)
Definition par_unsupported (r : rule) : bool :=
  Nat.ltb 2 (length (prem r))
  || existsb (fun a => is_var (a_p a)) (prem r)
  || negb (match filt r with [] => true | _ => false end).
Definition known_C05_par (P : list rule) : bool := existsb par_unsupported P.

(* C05-negation-ignored: the naive, semi-naive and parallel strategies never read negative_premise. *)
Definition known_C05_neg (P : list rule) : bool :=
  existsb (fun r => negb (match negp r with [] => true | _ => false end)) P.
