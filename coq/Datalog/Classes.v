(* Decidable classes of programs on which a strategy of the unchanged code is known to miss the
   least model (known_findings.json); the same booleans are computed by checks/c05.py. *)
Require Export KV.Datalog.Syntax.

Definition is_var (t : term) : bool := match t with V _ => true | C _ => false end.

(* C05-parallel-shapes: infer_new_facts_semi_naive_parallel only fires rules with one or two
   premises, finds candidate rules through a premise with a *constant* predicate equal to the delta
   triple's predicate, and never evaluates filters. *)
Definition par_unsupported (r : rule) : bool :=
  Nat.ltb 2 (length (prem r))
  || existsb (fun a => is_var (a_p a)) (prem r)
  || negb (match filt r with [] => true | _ => false end).
Definition known_C05_par (P : list rule) : bool := existsb par_unsupported P.

(* C05-negation-ignored: the naive, semi-naive and parallel strategies never read negative_premise. *)
Definition known_C05_neg (P : list rule) : bool :=
  existsb (fun r => negb (match negp r with [] => true | _ => false end)) P.

(* C05-negation-single-pass: the provenance strategy evaluates the rules with negated atoms in ONE pass
   after the positive fixpoint, so a conclusion of such a rule can feed nothing.  Class: some conclusion of
   a rule with negated atoms is position-wise compatible (equal constants, or a variable on either side)
   with a premise or a negated atom of some rule. *)
Definition term_compat (t u : term) : bool :=
  match t, u with C a, C b => N.eqb a b | _, _ => true end.
Definition atom_compat (a b : atom) : bool :=
  term_compat (a_s a) (a_s b) && term_compat (a_p a) (a_p b) && term_compat (a_o a) (a_o b).
Definition has_neg (r : rule) : bool := negb (match negp r with [] => true | _ => false end).
Definition known_C05_neg_feed (P : list rule) : bool :=
  existsb (fun r1 => has_neg r1 &&
                     existsb (fun c => existsb (fun r2 => existsb (atom_compat c) (prem r2 ++ negp r2)) P) (concl r1)) P.

