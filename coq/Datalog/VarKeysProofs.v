(* When no rule variable is spelled like an invented join variable, the string-spelling variant
   (VarKeys.v) is the base model, so every theorem about the base model applies to it. *)
Require Import KV.Datalog.Syntax KV.Datalog.HashJoin KV.Datalog.NestedJoin KV.Datalog.Strategies KV.Datalog.VarKeys.
Require Import KV.Datalog.HashJoinProofs.

Section Agree.
  Variable vk : name -> key.

  Lemma vskey_eq : forall a, (forall x, In x (atom_vars a) -> vk x = KV x) -> vskey vk a = skey a.
  Proof.
    intros a H. unfold vskey, skey. destruct (a_s a) as [x | c] eqn:E; [| reflexivity].
    apply H. unfold atom_vars. rewrite E. cbn. auto.
  Qed.
  Lemma vokey_eq : forall a, (forall x, In x (atom_vars a) -> vk x = KV x) -> vokey vk a = okey a.
  Proof.
    intros a H. unfold vokey, okey. destruct (a_o a) as [x | c] eqn:E; [| reflexivity].
    apply H. unfold atom_vars. rewrite E, !in_app_iff. cbn. auto.
  Qed.
  Lemma pred_var_in : forall a v, pred_var a = Some v -> In v (atom_vars a).
  Proof.
    intros a v H. unfold pred_var in H. unfold atom_vars. destruct (a_p a) as [x | c] eqn:E; [| discriminate].
    inversion H; subst. rewrite !in_app_iff. cbn. auto.
  Qed.

  Lemma vbind_eq : forall r pv pid, (forall v, pv = Some v -> vk v = KV v) ->
                                   vbind_predicate vk r pv pid = bind_predicate r pv pid.
  Proof. intros r [v |] pid H; cbn; [rewrite (H v eq_refl); reflexivity | reflexivity]. Qed.

  Lemma vprocess_eq : forall t sk ok pv tb, (forall v, pv = Some v -> vk v = KV v) ->
                                           vprocess_triple vk t sk ok pv tb = process_triple t sk ok pv tb.
  Proof.
    intros t sk ok pv tb H. unfold vprocess_triple, process_triple.
    destruct (mm_get pair_eqb (f_s t, f_o t) (both_bound tb)).
    - apply omap_rows_ext. intros r _. apply vbind_eq. exact H.
    - f_equal; [| f_equal]; apply omap_rows_ext; intros r _; apply vbind_eq; exact H.
  Qed.

  Lemma vhash_join_eq : forall a F rows, (forall x, In x (atom_vars a) -> vk x = KV x) ->
                                        vhash_join vk a F rows = hash_join a F rows.
  Proof.
    intros a F rows H. unfold vhash_join, hash_join. rewrite (vskey_eq a H), (vokey_eq a H).
    destruct rows; [reflexivity |]. destruct (filter (prefilter a) F); [reflexivity |].
    apply flat_map_ext_in. intros t _. apply vprocess_eq. intros v Hv. apply H. apply pred_var_in. exact Hv.
  Qed.

  Lemma vjoin_all_eq : forall prems F rows, (forall x, In x (atoms_vars prems) -> vk x = KV x) ->
                                           vjoin_all vk prems F rows = join_all prems F rows.
  Proof.
    induction prems as [|a prems IH]; intros F rows H; cbn; [reflexivity |].
    rewrite vhash_join_eq by (intros x Hx; apply H; unfold atoms_vars; cbn; apply in_app_iff; auto).
    destruct (hash_join a F rows); [reflexivity |]. apply IH. intros x Hx. apply H. unfold atoms_vars. cbn. apply in_app_iff. auto.
  Qed.

  Lemma vrow_inst_eq : forall r c, (forall x, In x (atom_vars c) -> vk x = KV x) -> vrow_inst vk r c = row_inst r c.
  Proof.
    intros r c H. unfold vrow_inst, row_inst.
    assert (T : forall t, In t [a_s c; a_p c; a_o c] -> vrow_term vk r t = row_term r t).
    { intros [x | k] Ht; cbn; [| reflexivity]. rewrite H; [reflexivity |]. unfold atom_vars. rewrite !in_app_iff.
      destruct Ht as [E | [E | [E | []]]]; rewrite E; cbn; auto. }
    rewrite !T; cbn; auto.
  Qed.

  Lemma veval_filter_eq : forall nv r f, (forall x, In x (filter_vars f) -> vk x = KV x) -> veval_filter vk nv r f = eval_filter nv r f.
  Proof.
    intros nv r [x op z | x op y] H; cbn in *; rewrite ?(H x), ?(H y); auto.
  Qed.

  Lemma veval_filters_eq : forall nv r fs, (forall x, In x (flat_map filter_vars fs) -> vk x = KV x) ->
                                          veval_filters vk nv r fs = eval_filters nv r fs.
  Proof.
    intros nv r fs. unfold veval_filters, eval_filters. induction fs as [|f fs IH]; intros H; cbn; [reflexivity |].
    cbn in H. rewrite veval_filter_eq, IH; auto; intros x Hx; apply H; rewrite in_app_iff; auto.
  Qed.

  Lemma fold_left_ext_in : forall (A B : Type) (f g : A -> B -> A) l a,
      (forall a b, In b l -> f a b = g a b) -> fold_left f l a = fold_left g l a.
  Proof.
    intros A B f g l. induction l as [|b l IH]; intros a H; cbn; [reflexivity |].
    rewrite H by (left; reflexivity). apply IH. intros a' b' Hb. apply H. right. exact Hb.
  Qed.

  Lemma vconclude_eq : forall nv r known rows acc,
      (forall x, In x (rule_vars r) -> vk x = KV x) -> vconclude vk nv r known rows acc = conclude nv r known rows acc.
  Proof.
    intros nv r known rows acc H. unfold vconclude, conclude. apply fold_left_ext_in. intros a row _.
    rewrite veval_filters_eq by (intros x Hx; apply H; unfold rule_vars; rewrite !in_app_iff; auto).
    destruct (eval_filters nv row (filt r)); [| reflexivity].
    apply fold_left_ext_in. intros a' c Hc. cbv zeta.
    rewrite vrow_inst_eq; [reflexivity |]. intros x Hx. apply H. unfold rule_vars. rewrite !in_app_iff. right. left.
    apply in_flat_map. exists c. auto.
  Qed.

  Lemma vnaive_solutions_eq : forall r all, (forall x, In x (rule_vars r) -> vk x = KV x) -> vnaive_solutions vk r all = naive_solutions r all.
  Proof.
    intros r all H. unfold vnaive_solutions, naive_solutions. destruct (prem r) as [|a ps] eqn:E; [reflexivity |].
    apply vjoin_all_eq. intros x Hx. apply H. unfold rule_vars. rewrite E. apply in_app_iff. auto.
  Qed.

  Variable P : list rule.
  Hypothesis HV : forall x, In x (prog_vars P) -> vk x = KV x.

  Lemma rule_vars_prog : forall r x, In r P -> In x (rule_vars r) -> In x (prog_vars P).
  Proof. intros r x Hr Hx. unfold prog_vars. apply in_flat_map. exists r. auto. Qed.

  Lemma vnaive_round_eq : forall nv st all, vnaive_round vk nv P st all = naive_round nv P st all.
  Proof.
    intros nv st all. unfold vnaive_round, naive_round. f_equal. apply fold_left_ext_in. intros acc r Hr.
    assert (Hr' : forall x, In x (rule_vars r) -> vk x = KV x) by (intros x Hx; apply HV; apply (rule_vars_prog r x Hr Hx)).
    rewrite vnaive_solutions_eq by exact Hr'. apply vconclude_eq. exact Hr'.
  Qed.

  Lemma infer_loop_ext : forall (St : Type) (r1 r2 : St -> list fact -> St * list fact) fuel st all,
      (forall st all, r1 st all = r2 st all) -> infer_loop r1 fuel st all = infer_loop r2 fuel st all.
  Proof.
    intros St r1 r2 fuel. induction fuel as [|k IH]; intros st all H; cbn; [reflexivity |].
    rewrite H. destruct (r2 st all) as [st' inf]. destruct inf; [reflexivity |]. apply IH. exact H.
  Qed.

  Theorem vnaive_run_eq : forall nv fuel F, vnaive_run vk nv fuel P F = naive_run nv fuel P F.
  Proof.
    intros nv fuel F. unfold vnaive_run, naive_run, infer_with_strategy.
    rewrite (infer_loop_ext unit (vnaive_round vk nv P) (naive_round nv P) fuel tt F (vnaive_round_eq nv)). reflexivity.
  Qed.
End Agree.

Lemma no_synthetic_names_spec : forall tbl P,
    no_synthetic_names tbl P = true -> forall x, In x (prog_vars P) -> vk_of tbl x = KV x.
Proof.
  intros tbl P H x Hx. unfold no_synthetic_names in H. rewrite forallb_forall in H.
  apply key_eqb_eq. apply H. exact Hx.
Qed.
