(* One round of the naive and of the semi-naive strategy, characterised through substitutions. *)
Require Import KV.Datalog.Syntax KV.Datalog.LeastModel KV.Datalog.BasicLemmas KV.Datalog.LeastModelProofs.
Require Import KV.Datalog.HashJoin KV.Datalog.NestedJoin KV.Datalog.HashJoinProofs KV.Datalog.JoinSemantics.
Require Import KV.Datalog.Strategies KV.Datalog.Classes.

(* ---- join_all ---------------------------------------------------------------------------------- *)
Lemma hash_join_nil : forall a F, hash_join a F [] = [].
Proof. reflexivity. Qed.

Lemma fold_join_nil : forall prems F, fold_left (fun rows a => hash_join a F rows) prems [] = [].
Proof. induction prems as [|a prems IH]; intros F; cbn; [reflexivity | apply IH]. Qed.

Lemma join_all_fold : forall prems F rows,
    join_all prems F rows = fold_left (fun rows a => hash_join a F rows) prems rows.
Proof.
  induction prems as [|a prems IH]; intros F rows; cbn; [reflexivity |].
  destruct (hash_join a F rows) as [|r0 rs] eqn:E.
  - rewrite fold_join_nil. reflexivity.
  - apply IH.
Qed.

Definition with_facts (F : list fact) (prems : list atom) : list (atom * list fact) := map (fun a => (a, F)) prems.

Lemma join_all_exact : forall prems F rows done,
    exactM rows done -> exactM (join_all prems F rows) (done ++ with_facts F prems).
Proof.
  intros prems F rows done. rewrite join_all_fold. revert rows done.
  induction prems as [|a prems IH]; intros rows done H.
  - cbn. rewrite app_nil_r. exact H.
  - cbn [fold_left]. change (with_facts F (a :: prems)) with ((a, F) :: with_facts F prems).
    replace (done ++ (a, F) :: with_facts F prems) with ((done ++ [(a, F)]) ++ with_facts F prems)
      by (rewrite <- app_assoc; reflexivity).
    apply IH. apply exactM_step. exact H.
Qed.

Lemma map_fst_with_facts : forall F prems, map fst (with_facts F prems) = prems.
Proof. intros F prems. unfold with_facts. rewrite map_map. cbn. apply map_id. Qed.

Lemma psol_with_facts : forall F prems sg, psol (with_facts F prems) sg <-> (forall a, In a prems -> In (inst sg a) F).
Proof.
  intros F prems sg. unfold psol, with_facts. split.
  - intros H a Ha. apply (H a F). apply in_map_iff. exists a. auto.
  - intros H a Fa Ha. apply in_map_iff in Ha. destruct Ha as [b [E Hb]]. inversion E; subst. apply H. exact Hb.
Qed.

(* ---- rows as total substitutions --------------------------------------------------------------- *)
Definition row_val (r : row) : subst := fun x => match rget (KV x) r with Some v => v | None => 0 end.

Lemma ragrees_row_val : forall r, ragrees r (row_val r).
Proof. intros r x v H. unfold row_val. rewrite H. reflexivity. Qed.

Lemma row_inst_val : forall r c, row_inst r c = inst (row_val r) c.
Proof.
  intros r c. unfold row_inst, inst.
  assert (E : forall t, row_term r t = tv (row_val r) t) by (intros [x | k]; reflexivity).
  rewrite !E. reflexivity.
Qed.

Lemma eval_filter_val : forall nv r f,
    (forall x, In x (filter_vars f) -> bound (KV x) r = true) -> eval_filter nv r f = filter_ok nv (row_val r) f.
Proof.
  intros nv r [x op z | x op y] H; cbn in *.
  - destruct (bound_true _ _ (H x (or_introl eq_refl))) as [l El]. unfold row_val. rewrite El. reflexivity.
  - destruct (bound_true _ _ (H x (or_introl eq_refl))) as [l El].
    destruct (bound_true _ _ (H y (or_intror (or_introl eq_refl)))) as [m Em]. unfold row_val. rewrite El, Em.
    destruct op; reflexivity.
Qed.

Lemma eval_filters_val : forall nv r fs,
    (forall x, In x (flat_map filter_vars fs) -> bound (KV x) r = true) -> eval_filters nv r fs = filters_ok nv (row_val r) fs.
Proof.
  intros nv r fs. unfold eval_filters, filters_ok. induction fs as [|f fs IH]; intros H; cbn; [reflexivity |].
  cbn in H. rewrite eval_filter_val, IH; auto; intros x Hx; apply H; rewrite in_app_iff; auto.
Qed.

(* ---- conclude ------------------------------------------------------------------------------------ *)
Lemma conclude_inner : forall known row cs acc,
    fold_left (fun acc c => let f := row_inst row c in if mem f known then acc else set_add f acc) cs acc =
    collect known (map (row_inst row) cs) acc.
Proof.
  intros known row cs. induction cs as [|c cs IH]; intros acc; cbn; [reflexivity |]. rewrite IH. reflexivity.
Qed.

Lemma conclude_In : forall nv r known rows acc f,
    In f (conclude nv r known rows acc) <->
    In f acc \/ (~ In f known /\ exists row c, In row rows /\ eval_filters nv row (filt r) = true /\ In c (concl r) /\ f = row_inst row c).
Proof.
  intros nv r known rows. unfold conclude. induction rows as [|row rows IH]; intros acc f; cbn.
  - split; [auto | intros [H | [_ [row [c [[] _]]]]]; exact H].
  - rewrite IH. destruct (eval_filters nv row (filt r)) eqn:E.
    + rewrite conclude_inner, collect_In, in_map_iff. split.
      * intros [[H | [[c [Hc1 Hc2]] Hk]] | [Hk [row' [c [Hr H]]]]].
        -- auto.
        -- right. split; [exact Hk |]. exists row, c. auto.
        -- right. split; [exact Hk |]. exists row', c. destruct H as [H1 [H2 H3]]. auto.
      * intros [H | [Hk [row' [c [[<- | Hr] [H1 [H2 H3]]]]]]].
        -- auto.
        -- left. right. split; [exists c; auto | exact Hk].
        -- right. split; [exact Hk |]. exists row', c. auto.
    + split.
      * intros [H | [Hk [row' [c [Hr H]]]]]; [auto |]. right. split; [exact Hk |]. exists row', c. destruct H as [H1 [H2 H3]]. auto.
      * intros [H | [Hk [row' [c [[<- | Hr] [H1 [H2 H3]]]]]]]; [auto | congruence |]. right. split; [exact Hk |]. exists row', c. auto.
Qed.

Lemma conclude_NoDup : forall nv r known rows acc, NoDup acc -> NoDup (conclude nv r known rows acc).
Proof.
  intros nv r known rows. unfold conclude. induction rows as [|row rows IH]; intros acc H; cbn; [exact H |].
  apply IH. destruct (eval_filters nv row (filt r)); [| exact H]. rewrite conclude_inner. apply collect_NoDup. exact H.
Qed.

(* rows that represent exactly the solutions of [done] fire exactly the instances of the conclusions *)
Lemma rows_fire : forall nv r rows done f,
    exactM rows done ->
    (forall c x, In c (concl r) -> In x (atom_vars c) -> In x (atoms_vars (map fst done))) ->
    (forall x, In x (flat_map filter_vars (filt r)) -> In x (atoms_vars (map fst done))) ->
    ((exists row c, In row rows /\ eval_filters nv row (filt r) = true /\ In c (concl r) /\ f = row_inst row c) <->
     (exists sg c, psol done sg /\ filters_ok nv sg (filt r) = true /\ In c (concl r) /\ f = inst sg c)).
Proof.
  intros nv r rows done f [Hh OK D S Cm] RC RF. split.
  - intros [row [c [Hr [Hf [Hc ->]]]]]. exists (row_val row), c.
    split; [apply (S row _ Hr (ragrees_row_val row)) |]. split; [| split; [exact Hc | apply row_inst_val]].
    rewrite <- eval_filters_val; [exact Hf |]. intros x Hx. apply (D row x Hr). apply RF. exact Hx.
  - intros [sg [c [Hs [Hf [Hc ->]]]]]. destruct (Cm sg Hs) as [row [Hr A]].
    assert (EQ : forall x, In x (atoms_vars (map fst done)) -> row_val row x = sg x).
    { intros x Hx. apply (D row x Hr) in Hx. destruct (bound_true _ _ Hx) as [v Ev].
      unfold row_val. rewrite Ev. symmetry. apply A. exact Ev. }
    exists row, c. split; [exact Hr |]. split; [| split; [exact Hc |]].
    + rewrite eval_filters_val by (intros x Hx; apply (D row x Hr); apply RF; exact Hx).
      rewrite (filters_ok_ext nv (row_val row) sg); [exact Hf |]. intros x Hx. apply EQ. apply RF. exact Hx.
    + rewrite row_inst_val. symmetry. apply inst_ext. intros x Hx. apply EQ. apply (RC c x Hc Hx).
Qed.

(* ---- a fold of conclude over the rules ------------------------------------------------------------- *)
Lemma fold_conclude_In : forall nv known (sols : rule -> list row) P acc f,
    In f (fold_left (fun acc r => conclude nv r known (sols r) acc) P acc) <->
    In f acc \/ (~ In f known /\ exists r row c, In r P /\ In row (sols r) /\ eval_filters nv row (filt r) = true /\ In c (concl r) /\ f = row_inst row c).
Proof.
  intros nv known sols P. induction P as [|r P IH]; intros acc f; cbn.
  - split; [auto | intros [H | [_ [r [row [c [[] _]]]]]]; exact H].
  - rewrite IH, conclude_In. split.
    + intros [[H | [Hk [row [c H]]]] | [Hk [r' [row [c [Hr H]]]]]].
      * auto.
      * right. split; [exact Hk |]. exists r, row, c. tauto.
      * right. split; [exact Hk |]. exists r', row, c. tauto.
    + intros [H | [Hk [r' [row [c [[<- | Hr] H]]]]]].
      * auto.
      * left. right. split; [exact Hk |]. exists row, c. exact H.
      * right. split; [exact Hk |]. exists r', row, c. tauto.
Qed.

Lemma fold_conclude_NoDup : forall nv known (sols : rule -> list row) P acc,
    NoDup acc -> NoDup (fold_left (fun acc r => conclude nv r known (sols r) acc) P acc).
Proof.
  intros nv known sols P. induction P as [|r P IH]; intros acc H; cbn; [exact H |].
  apply IH. apply conclude_NoDup. exact H.
Qed.

(* ---- naive round ------------------------------------------------------------------------------------ *)
Lemma naive_solutions_exact : forall r all, prem r <> [] -> exactM (naive_solutions r all) (with_facts all (prem r)).
Proof.
  intros r all H. unfold naive_solutions. destruct (prem r) as [|a ps] eqn:E; [congruence |].
  apply (join_all_exact (a :: ps) all [[]] []). apply exactM_init.
Qed.

Theorem naive_round_spec : forall nv P all f,
    safe P = true ->
    (In f (snd (naive_round nv P tt all)) <-> one_step nv P all f /\ ~ In f all).
Proof.
  intros nv P all f HS. unfold naive_round. cbn [snd].
  rewrite (fold_conclude_In nv all (fun r => naive_solutions r all) P [] f). cbn [In]. split.
  - intros [[] | [Hk [r [row [c [Hr [Hrow [Hf [Hc ->]]]]]]]]]. split; [| exact Hk].
    destruct (safe_rule_spec r (safe_In P r HS Hr)) as [Hne [RC RF]].
    pose proof (naive_solutions_exact r all Hne) as EX.
    destruct (proj1 (rows_fire nv r _ _ (row_inst row c) EX
                      ltac:(rewrite map_fst_with_facts; exact RC) ltac:(rewrite map_fst_with_facts; exact RF)))
      as [sg [c' [Hs [Hf' [Hc' E]]]]]; [exists row, c; auto |].
    exists r, sg, c'. split; [exact Hr |]. split; [apply psol_with_facts; exact Hs | auto].
  - intros [[r [sg [c [Hr [Hp [Hf [Hc ->]]]]]]] Hk]. right. split; [exact Hk |].
    destruct (safe_rule_spec r (safe_In P r HS Hr)) as [Hne [RC RF]].
    pose proof (naive_solutions_exact r all Hne) as EX.
    destruct (proj2 (rows_fire nv r _ _ (inst sg c) EX
                      ltac:(rewrite map_fst_with_facts; exact RC) ltac:(rewrite map_fst_with_facts; exact RF)))
      as [row [c' [Hrow [Hf' [Hc' E]]]]].
    { exists sg, c. split; [apply psol_with_facts; exact Hp | auto]. }
    exists r, row, c'. auto.
Qed.

Lemma naive_round_NoDup : forall nv P all, NoDup (snd (naive_round nv P tt all)).
Proof. intros. unfold naive_round. cbn [snd]. apply fold_conclude_NoDup. constructor. Qed.

(* ---- semi-naive round -------------------------------------------------------------------------------- *)
Lemma others_In : forall (A : Type) (l : list A) i a x,
    nth_error l i = Some a -> (In x l <-> x = a \/ In x (others i l)).
Proof.
  intros A l. induction l as [|y l IH]; intros i a x H.
  - destruct i; discriminate.
  - destruct i as [|i]; cbn in H.
    + inversion H; subst y. unfold others. cbn. split; [intros [-> | Hx]; auto | intros [-> | Hx]; auto].
    + unfold others in *. cbn. rewrite (IH i a x H). split.
      * intros [-> | [-> | Hx]]; auto.
      * intros [-> | [-> | Hx]]; auto.
Qed.

(* f is an instance of a conclusion with all premises in [all] and at least one of them in [delta] *)
Definition delta_step (nv : N -> Z) (P : list rule) (all delta : list fact) (f : fact) : Prop :=
  exists r sg c, In r P /\ (forall a, In a (prem r) -> In (inst sg a) all) /\
                 (exists a, In a (prem r) /\ In (inst sg a) delta) /\
                 filters_ok nv sg (filt r) = true /\ In c (concl r) /\ f = inst sg c.

Lemma semi_rows_exact : forall r all delta i a,
    nth_error (prem r) i = Some a ->
    exactM (join_all (others i (prem r)) all (hash_join a delta [[]])) ((a, delta) :: with_facts all (others i (prem r))).
Proof.
  intros r all delta i a H.
  apply (join_all_exact (others i (prem r)) all (hash_join a delta [[]]) [(a, delta)]).
  apply (exactM_step [[]] [] a delta). apply exactM_init.
Qed.

Theorem semi_round_spec : forall nv P start all f,
    safe P = true ->
    (In f (snd (semi_round nv P start all)) <-> delta_step nv P all (skipn start all) f /\ ~ In f all).
Proof.
  intros nv P start all f HS. unfold semi_round. cbn [snd].
  set (delta := skipn start all).
  assert (Hdelta : forall g, In g delta -> In g all).
  { intros g Hg. rewrite <- (firstn_skipn start all). apply in_app_iff. right. exact Hg. }
  rewrite (fold_conclude_In nv all (fun r => semi_solutions r all delta) P [] f). cbn [In].
  assert (VARS : forall r i a x, nth_error (prem r) i = Some a ->
                 (In x (atoms_vars (map fst ((a, delta) :: with_facts all (others i (prem r))))) <-> In x (atoms_vars (prem r)))).
  { intros r i a x Hn. cbn [map fst]. rewrite map_fst_with_facts. rewrite !atoms_vars_In. split.
    - intros [b [Hb Hx]]. exists b. split; [| exact Hx]. apply (others_In _ (prem r) i a b Hn). destruct Hb as [<- | Hb]; auto.
    - intros [b [Hb Hx]]. exists b. split; [| exact Hx]. apply (others_In _ (prem r) i a b Hn) in Hb. destruct Hb as [-> | Hb]; [left | right]; auto. }
  split.
  - intros [[] | [Hk [r [row [c [Hr [Hrow [Hf [Hc ->]]]]]]]]]. split; [| exact Hk].
    destruct (safe_rule_spec r (safe_In P r HS Hr)) as [Hne [RC RF]].
    unfold semi_solutions in Hrow. apply in_flat_map in Hrow. destruct Hrow as [i [Hi Hrow]].
    destruct (nth_error (prem r) i) as [a |] eqn:Hn; [| destruct Hrow].
    pose proof (semi_rows_exact r all delta i a Hn) as EX.
    destruct (proj1 (rows_fire nv r _ _ (row_inst row c) EX
                      ltac:(intros c0 x Hc0 Hx; apply (VARS r i a x Hn); apply (RC c0 x Hc0 Hx))
                      ltac:(intros x Hx; apply (VARS r i a x Hn); apply (RF x Hx))))
      as [sg [c' [Hs [Hf' [Hc' E]]]]]; [exists row, c; auto |].
    exists r, sg, c'. split; [exact Hr |].
    assert (Ha : In (inst sg a) delta) by (apply (Hs a delta); left; reflexivity).
    assert (Ho : forall b, In b (others i (prem r)) -> In (inst sg b) all).
    { intros b Hb. apply (Hs b all). right. unfold with_facts. apply in_map_iff. exists b. auto. }
    split; [| split; [| auto]].
    + intros b Hb. apply (others_In _ (prem r) i a b Hn) in Hb. destruct Hb as [-> | Hb]; [apply Hdelta; exact Ha | apply Ho; exact Hb].
    + exists a. split; [apply (nth_error_In _ _ Hn) | exact Ha].
  - intros [[r [sg [c [Hr [Hp [[a [Ha Had]] [Hf [Hc ->]]]]]]]] Hk]. right. split; [exact Hk |].
    destruct (safe_rule_spec r (safe_In P r HS Hr)) as [Hne [RC RF]].
    destruct (In_nth_error _ _ Ha) as [i Hn].
    pose proof (semi_rows_exact r all delta i a Hn) as EX.
    destruct (proj2 (rows_fire nv r _ _ (inst sg c) EX
                      ltac:(intros c0 x Hc0 Hx; apply (VARS r i a x Hn); apply (RC c0 x Hc0 Hx))
                      ltac:(intros x Hx; apply (VARS r i a x Hn); apply (RF x Hx))))
      as [row [c' [Hrow [Hf' [Hc' E]]]]].
    { exists sg, c. split; [| auto]. intros b Fb [Hb | Hb].
      - inversion Hb; subst b Fb. exact Had.
      - unfold with_facts in Hb. apply in_map_iff in Hb. destruct Hb as [b' [E Hb']]. inversion E; subst b' Fb.
        apply Hp. apply (others_In _ (prem r) i a b Hn). right. exact Hb'. }
    exists r, row, c'. split; [exact Hr |]. split; [| auto].
    unfold semi_solutions. apply in_flat_map. exists i. split.
    + apply in_seq. split; [lia |]. cbn. apply nth_error_Some. congruence.
    + rewrite Hn. exact Hrow.
Qed.

Lemma semi_round_NoDup : forall nv P start all, NoDup (snd (semi_round nv P start all)).
Proof. intros. unfold semi_round. cbn [snd]. apply fold_conclude_NoDup. constructor. Qed.

Lemma semi_round_state : forall nv P start all, fst (semi_round nv P start all) = length all.
Proof. reflexivity. Qed.
