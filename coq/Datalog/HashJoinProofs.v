(* join_bucketed_eq_nested: on a homogeneous list of rows the bucketed hash join returns exactly
   (same rows, same order) the nested-loop extension of each row by each matching triple. *)
Require Import KV.Datalog.Syntax KV.Datalog.HashJoin KV.Datalog.NestedJoin.

Lemma key_eqb_eq : forall a b, key_eqb a b = true <-> a = b.
Proof.
  intros [x | x | x] [y | y | y]; cbn; rewrite ?N.eqb_eq; split; intros H; try discriminate; try congruence.
Qed.
Lemma key_eqb_refl : forall a, key_eqb a a = true.
Proof. intros. apply key_eqb_eq. reflexivity. Qed.
Lemma pair_eqb_eq : forall a b, pair_eqb a b = true <-> a = b.
Proof.
  intros [a1 a2] [b1 b2]. unfold pair_eqb. cbn. rewrite andb_true_iff, !N.eqb_eq. split.
  - intros [-> ->]. reflexivity.
  - intros H. inversion H. auto.
Qed.

(* ---- multi-maps ---------------------------------------------------------------------------------- *)
Section MM.
  Context {K : Type} (keqb : K -> K -> bool) (keqb_eq : forall a b, keqb a b = true <-> a = b).

  Lemma keqb_refl : forall a, keqb a a = true.
  Proof. intros. apply keqb_eq. reflexivity. Qed.

  Lemma mm_get_push_same : forall k v m, mm_get keqb k (mm_push keqb k v m) = Some (bucket (mm_get keqb k m) ++ [v]).
  Proof.
    intros k v m. induction m as [|[k1 vs] m IH]; cbn.
    - rewrite keqb_refl. reflexivity.
    - destruct (keqb k k1) eqn:E; cbn; rewrite E; [reflexivity | exact IH].
  Qed.

  Lemma mm_get_push_other : forall k k' v m, keqb k k' = false -> mm_get keqb k (mm_push keqb k' v m) = mm_get keqb k m.
  Proof.
    intros k k' v m Hk. induction m as [|[k1 vs] m IH]; cbn.
    - rewrite Hk. reflexivity.
    - destruct (keqb k' k1) eqn:E; cbn.
      + apply keqb_eq in E. subst k1. rewrite Hk. reflexivity.
      + destruct (keqb k k1); [reflexivity | exact IH].
  Qed.

  Definition mstep (keyf : row -> option K) (m : list (K * list row)) (r : row) : list (K * list row) :=
    match keyf r with Some k => mm_push keqb k r m | None => m end.
  Definition sel (keyf : row -> option K) (k : K) (r : row) : bool :=
    match keyf r with Some k' => keqb k k' | None => false end.

  Lemma mm_get_fold : forall keyf k rows m,
      mm_get keqb k (fold_left (mstep keyf) rows m) =
      match filter (sel keyf k) rows with
      | [] => mm_get keqb k m
      | l => Some (bucket (mm_get keqb k m) ++ l)
      end.
  Proof.
    intros keyf k rows. induction rows as [|r rows IH]; intros m; cbn; [reflexivity |].
    rewrite IH. destruct (keyf r) as [k' |] eqn:Ek.
    - assert (Hs : sel keyf k r = keqb k k') by (unfold sel; rewrite Ek; reflexivity).
      assert (Hm : mstep keyf m r = mm_push keqb k' r m) by (unfold mstep; rewrite Ek; reflexivity).
      rewrite Hs, Hm. destruct (keqb k k') eqn:E.
      + apply keqb_eq in E. subst k'. rewrite mm_get_push_same. cbn.
        destruct (filter (sel keyf k) rows); cbn; [reflexivity | rewrite <- app_assoc; reflexivity].
      + rewrite mm_get_push_other by exact E. reflexivity.
    - assert (Hs : sel keyf k r = false) by (unfold sel; rewrite Ek; reflexivity).
      assert (Hm : mstep keyf m r = m) by (unfold mstep; rewrite Ek; reflexivity).
      rewrite Hs, Hm. reflexivity.
  Qed.

  Lemma mm_get_build : forall keyf k rows,
      mm_get keqb k (fold_left (mstep keyf) rows []) =
      match filter (sel keyf k) rows with [] => None | l => Some l end.
  Proof. intros. rewrite mm_get_fold. cbn. reflexivity. Qed.
End MM.

(* ---- the four buckets of build_table ----------------------------------------------------------- *)
Section Buckets.
  Variables sk ok : key.

  Definition keyf_both (r : row) : option (N * N) :=
    match rget sk r, rget ok r with Some s, Some o => Some (s, o) | _, _ => None end.
  Definition keyf_subj (r : row) : option N :=
    match rget sk r, rget ok r with Some s, None => Some s | _, _ => None end.
  Definition keyf_obj (r : row) : option N :=
    match rget sk r, rget ok r with None, Some o => Some o | _, _ => None end.
  Definition is_neither (r : row) : bool :=
    match rget sk r, rget ok r with None, None => true | _, _ => false end.

  Lemma build_both : forall rows tb,
      both_bound (fold_left (table_add sk ok) rows tb) = fold_left (mstep pair_eqb keyf_both) rows (both_bound tb).
  Proof.
    induction rows as [|r rows IH]; intros tb; cbn; [reflexivity |]. rewrite IH. f_equal.
    unfold table_add, mstep, keyf_both. destruct (rget sk r), (rget ok r); reflexivity.
  Qed.
  Lemma build_subj : forall rows tb,
      subject_bound (fold_left (table_add sk ok) rows tb) = fold_left (mstep N.eqb keyf_subj) rows (subject_bound tb).
  Proof.
    induction rows as [|r rows IH]; intros tb; cbn; [reflexivity |]. rewrite IH. f_equal.
    unfold table_add, mstep, keyf_subj. destruct (rget sk r), (rget ok r); reflexivity.
  Qed.
  Lemma build_obj : forall rows tb,
      object_bound (fold_left (table_add sk ok) rows tb) = fold_left (mstep N.eqb keyf_obj) rows (object_bound tb).
  Proof.
    induction rows as [|r rows IH]; intros tb; cbn; [reflexivity |]. rewrite IH. f_equal.
    unfold table_add, mstep, keyf_obj. destruct (rget sk r), (rget ok r); reflexivity.
  Qed.
  Lemma build_neither : forall rows tb,
      neither_bound (fold_left (table_add sk ok) rows tb) = neither_bound tb ++ filter is_neither rows.
  Proof.
    induction rows as [|r rows IH]; intros tb; cbn; [rewrite app_nil_r; reflexivity |]. rewrite IH.
    unfold table_add, is_neither. destruct (rget sk r), (rget ok r); cbn; try reflexivity.
    rewrite <- app_assoc. reflexivity.
  Qed.

  (* process_triple on a built table, for arbitrary rows *)
  Definition nonempty_or {A} (l : list row) (some : list row -> A) (none : A) : A :=
    match l with [] => none | _ => some l end.

  Lemma process_triple_build : forall t pv rows,
      process_triple t sk ok pv (build_table rows sk ok) =
      match filter (sel pair_eqb keyf_both (f_s t, f_o t)) rows with
      | [] =>
          omap_rows (fun r => bind_predicate (rins ok (f_o t) r) pv (f_p t)) (filter (sel N.eqb keyf_subj (f_s t)) rows)
          ++ omap_rows (fun r => bind_predicate (rins sk (f_s t) r) pv (f_p t)) (filter (sel N.eqb keyf_obj (f_o t)) rows)
          ++ omap_rows (fun r => bind_predicate (rins ok (f_o t) (rins sk (f_s t) r)) pv (f_p t)) (filter is_neither rows)
      | rs => omap_rows (fun r => bind_predicate r pv (f_p t)) rs
      end.
  Proof.
    intros t pv rows. unfold process_triple, build_table.
    rewrite build_both, build_subj, build_obj, build_neither. cbn [both_bound subject_bound object_bound neither_bound empty_table app].
    rewrite (mm_get_build pair_eqb pair_eqb_eq), !(mm_get_build N.eqb N.eqb_eq).
    destruct (filter (sel pair_eqb keyf_both (f_s t, f_o t)) rows); [| reflexivity].
    destruct (filter (sel N.eqb keyf_subj (f_s t)) rows), (filter (sel N.eqb keyf_obj (f_o t)) rows); reflexivity.
  Qed.
End Buckets.

(* ---- per-row view ---------------------------------------------------------------------------------- *)
Lemma omap_rows_filter : forall (p : row -> bool) f l,
    omap_rows f (filter p l) = omap_rows (fun r => if p r then f r else None) l.
Proof.
  intros p f l. unfold omap_rows. induction l as [|r l IH]; cbn; [reflexivity |].
  destruct (p r); cbn; rewrite IH; reflexivity.
Qed.

Lemma omap_rows_ext : forall f g l, (forall r, In r l -> f r = g r) -> omap_rows f l = omap_rows g l.
Proof.
  intros f g l H. unfold omap_rows. induction l as [|r l IH]; cbn; [reflexivity |].
  rewrite (H r) by (left; reflexivity). rewrite IH; [reflexivity |]. intros r' Hr'. apply H. right. exact Hr'.
Qed.

Lemma omap_rows_none : forall f l, (forall r, In r l -> f r = None) -> omap_rows f l = [].
Proof.
  intros f l H. unfold omap_rows. induction l as [|r l IH]; cbn; [reflexivity |].
  rewrite (H r) by (left; reflexivity). cbn. apply IH. intros r' Hr'. apply H. right. exact Hr'.
Qed.

Lemma filter_none : forall (p : row -> bool) l, (forall r, In r l -> p r = false) -> filter p l = [].
Proof.
  intros p l H. induction l as [|r l IH]; cbn; [reflexivity |].
  rewrite (H r) by (left; reflexivity). apply IH. intros r' Hr'. apply H. right. exact Hr'.
Qed.

Lemma bound_true : forall k r, bound k r = true -> exists v, rget k r = Some v.
Proof. intros k r H. unfold bound in H. destruct (rget k r); [eauto | discriminate]. Qed.
Lemma bound_false : forall k r, bound k r = false -> rget k r = None.
Proof. intros k r H. unfold bound in H. destruct (rget k r); [discriminate | reflexivity]. Qed.

(* one triple, all rows of the same kind *)
Lemma process_triple_nested : forall a t rows b1 b2,
    (forall r, In r rows -> bound (skey a) r = b1 /\ bound (okey a) r = b2) ->
    prefilter a t = true ->
    process_triple t (skey a) (okey a) (pred_var a) (build_table rows (skey a) (okey a)) =
    omap_rows (fun r => extend a r t) rows.
Proof.
  intros a t rows b1 b2 Hk Hpre. rewrite process_triple_build.
  assert (EXT : forall r, extend a r t =
     match rget (skey a) r, rget (okey a) r with
     | Some s, Some o => if N.eqb s (f_s t) && N.eqb o (f_o t) then bind_predicate r (pred_var a) (f_p t) else None
     | Some s, None => if N.eqb s (f_s t) then bind_predicate (rins (okey a) (f_o t) r) (pred_var a) (f_p t) else None
     | None, Some o => if N.eqb o (f_o t) then bind_predicate (rins (skey a) (f_s t) r) (pred_var a) (f_p t) else None
     | None, None => bind_predicate (rins (okey a) (f_o t) (rins (skey a) (f_s t) r)) (pred_var a) (f_p t)
     end).
  { intros r. unfold extend. rewrite Hpre. reflexivity. }
  destruct b1, b2.
  - (* both bound *)
    assert (E : omap_rows (fun r => extend a r t) rows =
                omap_rows (fun r => bind_predicate r (pred_var a) (f_p t)) (filter (sel pair_eqb (keyf_both (skey a) (okey a)) (f_s t, f_o t)) rows)).
    { rewrite omap_rows_filter. apply omap_rows_ext. intros r Hr. rewrite EXT.
      destruct (Hk r Hr) as [B1 B2]. apply bound_true in B1, B2. destruct B1 as [s Es], B2 as [o Eo].
      unfold sel, keyf_both. rewrite ?Es, ?Eo. unfold pair_eqb. cbn [fst snd].
      rewrite (N.eqb_sym (f_s t) s), (N.eqb_sym (f_o t) o). reflexivity. }
    rewrite E. destruct (filter (sel pair_eqb (keyf_both (skey a) (okey a)) (f_s t, f_o t)) rows) eqn:F; [| reflexivity].
    rewrite (filter_none (sel N.eqb (keyf_subj (skey a) (okey a)) (f_s t))), (filter_none (sel N.eqb (keyf_obj (skey a) (okey a)) (f_o t))), (filter_none (is_neither (skey a) (okey a))); [reflexivity | | |];
      intros r Hr; destruct (Hk r Hr) as [B1 B2]; apply bound_true in B1, B2; destruct B1 as [s Es], B2 as [o Eo];
      unfold sel, keyf_subj, keyf_obj, is_neither; rewrite ?Es, ?Eo; reflexivity.
  - (* subject bound *)
    rewrite (filter_none (sel pair_eqb (keyf_both (skey a) (okey a)) (f_s t, f_o t))), (filter_none (sel N.eqb (keyf_obj (skey a) (okey a)) (f_o t))), (filter_none (is_neither (skey a) (okey a)));
      try (intros r Hr; destruct (Hk r Hr) as [B1 B2]; apply bound_true in B1; apply bound_false in B2; destruct B1 as [s Es];
           unfold sel, keyf_both, keyf_obj, is_neither; rewrite ?Es, ?B2; reflexivity).
    cbn [omap_rows flat_map app]. rewrite app_nil_r. rewrite omap_rows_filter. apply omap_rows_ext. intros r Hr. rewrite EXT.
    destruct (Hk r Hr) as [B1 B2]. apply bound_true in B1. apply bound_false in B2. destruct B1 as [s Es].
    unfold sel, keyf_subj. rewrite ?Es, ?B2. rewrite (N.eqb_sym (f_s t) s). reflexivity.
  - (* object bound *)
    rewrite (filter_none (sel pair_eqb (keyf_both (skey a) (okey a)) (f_s t, f_o t))), (filter_none (sel N.eqb (keyf_subj (skey a) (okey a)) (f_s t))), (filter_none (is_neither (skey a) (okey a)));
      try (intros r Hr; destruct (Hk r Hr) as [B1 B2]; apply bound_false in B1; apply bound_true in B2; destruct B2 as [o Eo];
           unfold sel, keyf_both, keyf_subj, is_neither; rewrite ?B1, ?Eo; reflexivity).
    cbn [omap_rows flat_map app]. rewrite app_nil_r. rewrite omap_rows_filter. apply omap_rows_ext. intros r Hr. rewrite EXT.
    destruct (Hk r Hr) as [B1 B2]. apply bound_false in B1. apply bound_true in B2. destruct B2 as [o Eo].
    unfold sel, keyf_obj. rewrite ?B1, ?Eo. rewrite (N.eqb_sym (f_o t) o). reflexivity.
  - (* neither bound *)
    rewrite (filter_none (sel pair_eqb (keyf_both (skey a) (okey a)) (f_s t, f_o t))), (filter_none (sel N.eqb (keyf_subj (skey a) (okey a)) (f_s t))), (filter_none (sel N.eqb (keyf_obj (skey a) (okey a)) (f_o t)));
      try (intros r Hr; destruct (Hk r Hr) as [B1 B2]; apply bound_false in B1, B2;
           unfold sel, keyf_both, keyf_subj, keyf_obj; rewrite ?B1, ?B2; reflexivity).
    cbn [omap_rows flat_map app]. rewrite omap_rows_filter. apply omap_rows_ext. intros r Hr. rewrite EXT.
    destruct (Hk r Hr) as [B1 B2]. apply bound_false in B1, B2.
    unfold is_neither. rewrite ?B1, ?B2. reflexivity.
Qed.

Lemma flat_map_filter_skip : forall (A B : Type) (p : A -> bool) (g : A -> list B) l,
    (forall x, p x = false -> g x = []) -> flat_map g l = flat_map g (filter p l).
Proof.
  intros A B p g l H. induction l as [|x l IH]; cbn; [reflexivity |].
  destruct (p x) eqn:E; cbn; rewrite IH; [reflexivity | rewrite (H x E); reflexivity].
Qed.

Lemma flat_map_ext_in : forall (A B : Type) (f g : A -> list B) l,
    (forall x, In x l -> f x = g x) -> flat_map f l = flat_map g l.
Proof.
  intros A B f g l H. induction l as [|x l IH]; cbn; [reflexivity |].
  rewrite (H x) by (left; reflexivity). rewrite IH; [reflexivity |]. intros y Hy. apply H. right. exact Hy.
Qed.

Lemma flat_map_nil : forall (A B : Type) (l : list A), flat_map (fun _ : A => @nil B) l = [].
Proof. induction l; cbn; auto. Qed.

Theorem join_bucketed_eq_nested : forall a triples rows,
    homogeneous rows -> hash_join a triples rows = nested_join a triples rows.
Proof.
  intros a triples rows Hh. unfold nested_join.
  rewrite (flat_map_filter_skip _ _ (prefilter a) (fun t => omap_rows (fun r => extend a r t) rows) triples).
  2:{ intros t Hp. apply omap_rows_none. intros r _. unfold extend. rewrite Hp. reflexivity. }
  unfold hash_join. destruct rows as [|r0 rows'].
  - unfold omap_rows. cbn. rewrite flat_map_nil. reflexivity.
  - set (rows := r0 :: rows') in *.
    destruct (filter (prefilter a) triples) as [|t0 ft] eqn:F; [reflexivity |]. rewrite <- F.
    apply flat_map_ext_in. intros t Ht. apply filter_In in Ht. destruct Ht as [_ Hp].
    apply (process_triple_nested a t rows (bound (skey a) r0) (bound (okey a) r0)); [| exact Hp].
    intros r Hr. split; apply Hh; [exact Hr | left; reflexivity | exact Hr | left; reflexivity].
Qed.
