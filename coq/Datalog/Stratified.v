(* SPEC, one stratum of negation.  Stratum 0 = the rules without negated atoms; its least model M0
   decides the negated atoms.  Stratum 1 = all rules, a rule instance being admitted only when none of
   its negated atoms is in M0.  This is the stratified (perfect) model whenever the split is a
   stratification: no fact that needs a rule with a negated atom is itself an instance of a negated atom
   ([stratifiable]; [strat_ok] is the executable sufficient check used by the correspondence check). *)
Require Export KV.Datalog.LeastModel.

Definition no_negs (r : rule) : bool := match negp r with [] => true | _ => false end.
Definition pos_rules (P : list rule) : list rule := filter no_negs P.

Inductive sderives (nv : N -> Z) (P : list rule) (F : list fact) (M0 : fact -> Prop) : fact -> Prop :=
| sd_base : forall f, In f F -> sderives nv P F M0 f
| sd_rule : forall r sg c,
    In r P ->
    (forall a, In a (prem r) -> sderives nv P F M0 (inst sg a)) ->
    filters_ok nv sg (filt r) = true ->
    (forall n, In n (negp r) -> ~ M0 (inst sg n)) ->
    In c (concl r) ->
    sderives nv P F M0 (inst sg c).

Definition stratified_model (nv : N -> Z) (P : list rule) (F : list fact) (f : fact) : Prop :=
  sderives nv P F (derives nv (pos_rules P) F) f.

Definition stratifiable (nv : N -> Z) (P : list rule) (F : list fact) : Prop :=
  forall r sg n, In r P -> In n (negp r) ->
                 stratified_model nv P F (inst sg n) -> derives nv (pos_rules P) F (inst sg n).

(* ---- executable ----------------------------------------------------------------------------- *)
Definition negs_ok (M0 : list fact) (sg : subst) (negs : list atom) : bool :=
  forallb (fun n => negb (mem (inst sg n) M0)) negs.

Definition consequences_neg (nv : N -> Z) (M0 : list fact) (r : rule) (F : list fact) : list fact :=
  flat_map (fun s => if filters_ok nv (sub_val s) (filt r) && negs_ok M0 (sub_val s) (negp r)
                     then map (inst (sub_val s)) (concl r) else [])
           (solutions (prem r) F).
Definition tp_neg (nv : N -> Z) (M0 : list fact) (P : list rule) (F : list fact) : list fact :=
  flat_map (fun r => consequences_neg nv M0 r F) P.

Fixpoint lfp_neg (nv : N -> Z) (fuel : nat) (M0 : list fact) (P : list rule) (F : list fact) : option (list fact) :=
  match fuel with
  | O => None
  | S k =>
      match fresh F (tp_neg nv M0 P F) with
      | [] => Some F
      | new => lfp_neg nv k M0 P (F ++ new)
      end
  end.

(* no fact outside M0 is an instance of a negated atom *)
Definition strat_ok (P : list rule) (M0 M1 : list fact) : bool :=
  forallb (fun f => mem f M0 ||
                    forallb (fun r => forallb (fun n => match match_atom n f [] with None => true | Some _ => false end) (negp r)) P) M1.

(* (M0, stratified model, stratification check) *)
Definition stratified_exec (nv : N -> Z) (fuel : nat) (P : list rule) (F : list fact) : option (list fact * list fact * bool) :=
  match least_model nv fuel (pos_rules P) F with
  | None => None
  | Some M0 =>
      match lfp_neg nv fuel M0 P F with
      | None => None
      | Some M1 => Some (M0, M1, strat_ok P M0 M1)
      end
  end.
