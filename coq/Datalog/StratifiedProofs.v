(* The executable stratified Spec computes the inductive definition, and its stratification check
   is sound. *)
Require Import KV.Datalog.Syntax KV.Datalog.LeastModel KV.Datalog.Stratified KV.Datalog.BasicLemmas KV.Datalog.LeastModelProofs.

Definition sone_step (nv : N -> Z) (P : list rule) (M0 : fact -> Prop) (M : list fact) (f : fact) : Prop :=
  exists r sg c, In r P /\ (forall a, In a (prem r) -> In (inst sg a) M) /\
                 filters_ok nv sg (filt r) = true /\ (forall n, In n (negp r) -> ~ M0 (inst sg n)) /\
                 In c (concl r) /\ f = inst sg c.

Lemma sderives_step : forall nv P F M0 M f,
    (forall g, In g M -> sderives nv P F M0 g) -> sone_step nv P M0 M f -> sderives nv P F M0 f.
Proof.
  intros nv P F M0 M f HM [r [sg [c [Hr [Hp [Hf [Hn [Hc ->]]]]]]]]. eapply sd_rule; eauto.
Qed.

Lemma sderives_least : forall nv P F M0 M,
    (forall g, In g F -> In g M) -> (forall g, sone_step nv P M0 M g -> In g M) ->
    forall f, sderives nv P F M0 f -> In f M.
Proof.
  intros nv P F M0 M HF HM f H. induction H as [f Hf | r sg c Hr Hp IH Hfl Hn Hc]; [auto |].
  apply HM. exists r, sg, c. split; [exact Hr |]. split; [exact IH |]. auto.
Qed.

Lemma sderives_ext : forall nv P F (M0 M0' : fact -> Prop) f,
    (forall g, M0 g <-> M0' g) -> sderives nv P F M0 f -> sderives nv P F M0' f.
Proof.
  intros nv P F M0 M0' f HE H. induction H as [f Hf | r sg c Hr Hp IH Hfl Hn Hc]; [apply sd_base; exact Hf |].
  eapply sd_rule; eauto. intros n Hin HM. apply (Hn n Hin). apply HE. exact HM.
Qed.

Definition rr_neg (r : rule) : Prop := forall x, In x (atoms_vars (negp r)) -> In x (atoms_vars (prem r)).

Lemma safe_rr_neg : forall P, safe P = true -> forall r, In r P -> rr_neg r.
Proof.
  intros P H r Hr x Hx. pose proof (safe_In P r H Hr) as HS. unfold safe_rule in HS. apply andb_true_iff in HS.
  destruct HS as [_ HS]. rewrite forallb_forall in HS. apply nmem_In. apply HS. rewrite !in_app_iff. right. right. exact Hx.
Qed.

Lemma negs_ok_spec : forall M0 sg negs, negs_ok M0 sg negs = true <-> (forall n, In n negs -> ~ In (inst sg n) M0).
Proof.
  intros M0 sg negs. unfold negs_ok. rewrite forallb_forall. split.
  - intros H n Hn. apply mem_false. apply negb_true_iff. apply H. exact Hn.
  - intros H n Hn. apply negb_true_iff. apply mem_false. apply H. exact Hn.
Qed.

Lemma negs_ok_ext : forall M0 s1 s2 negs,
    (forall x, In x (atoms_vars negs) -> s1 x = s2 x) -> negs_ok M0 s1 negs = negs_ok M0 s2 negs.
Proof.
  intros M0 s1 s2 negs. unfold negs_ok. induction negs as [|n negs IH]; intros H; cbn; [reflexivity |].
  unfold atoms_vars in H. cbn in H. rewrite (inst_ext s1 s2 n), IH; auto; intros x Hx; apply H; rewrite in_app_iff; auto.
Qed.

Lemma consequences_neg_spec : forall nv M0 r F f,
    rr_rule r -> rr_neg r ->
    (In f (consequences_neg nv M0 r F) <->
     exists sg c, sol F (prem r) sg /\ filters_ok nv sg (filt r) = true /\ negs_ok M0 sg (negp r) = true /\
                  In c (concl r) /\ f = inst sg c).
Proof.
  intros nv M0 r F f [RC RF] RN. destruct (solutions_exact (prem r) F) as [D S Cm].
  unfold consequences_neg. rewrite in_flat_map. split.
  - intros [s [Hs H]]. destruct (filters_ok nv (sub_val s) (filt r)) eqn:E; [| destruct H].
    destruct (negs_ok M0 (sub_val s) (negp r)) eqn:E2; [| destruct H]. cbn [andb] in H.
    apply in_map_iff in H. destruct H as [c [<- Hc]].
    exists (sub_val s), c. split; [| auto]. apply (S s _ Hs). apply sagrees_sub_val.
  - intros [sg [c [Hsol [Hf [Hn [Hc ->]]]]]]. destruct (Cm sg Hsol) as [s [Hs A]].
    assert (EQ : forall x, In x (atoms_vars (prem r)) -> sub_val s x = sg x).
    { intros x Hx. apply (D s x Hs) in Hx. unfold sdom in Hx. unfold sub_val.
      destruct (slookup x s) as [v |] eqn:E; [| congruence]. symmetry. apply A. exact E. }
    exists s. split; [exact Hs |].
    rewrite (filters_ok_ext nv (sub_val s) sg) by (intros x Hx; apply EQ; apply RF; exact Hx).
    rewrite (negs_ok_ext M0 (sub_val s) sg) by (intros x Hx; apply EQ; apply RN; exact Hx).
    rewrite Hf, Hn. cbn [andb]. apply in_map_iff. exists c. split; [| exact Hc].
    apply inst_ext. intros x Hx. apply EQ. apply (RC c x Hc Hx).
Qed.

Lemma tp_neg_spec : forall nv M0 P F f,
    (forall r, In r P -> rr_rule r /\ rr_neg r) ->
    (In f (tp_neg nv M0 P F) <-> sone_step nv P (fun g => In g M0) F f).
Proof.
  intros nv M0 P F f HP. unfold tp_neg, sone_step. rewrite in_flat_map. split.
  - intros [r [Hr H]]. destruct (HP r Hr) as [R1 R2]. apply (consequences_neg_spec nv M0 r F f R1 R2) in H.
    destruct H as [sg [c [H1 [H2 [H3 [H4 H5]]]]]]. exists r, sg, c. rewrite negs_ok_spec in H3. auto 7.
  - intros [r [sg [c [Hr [H1 [H2 [H3 [H4 H5]]]]]]]]. exists r. split; [exact Hr |]. destruct (HP r Hr) as [R1 R2].
    apply (consequences_neg_spec nv M0 r F f R1 R2). exists sg, c. rewrite negs_ok_spec. auto.
Qed.

Lemma lfp_neg_inv : forall nv M0 P F fuel G M,
    (forall r, In r P -> rr_rule r /\ rr_neg r) ->
    (forall g, In g F -> In g G) -> (forall g, In g G -> sderives nv P F (fun g => In g M0) g) ->
    lfp_neg nv fuel M0 P G = Some M ->
    forall f, In f M <-> sderives nv P F (fun g => In g M0) f.
Proof.
  intros nv M0 P F fuel. induction fuel as [|k IH]; intros G M HP HF HS H; cbn in H; [discriminate |].
  destruct (fresh G (tp_neg nv M0 P G)) as [|n new] eqn:E.
  - inversion H; subst M. intros f. split; [apply HS |]. apply sderives_least; [exact HF |].
    intros g Hg. apply (tp_neg_spec nv M0 P G g HP) in Hg.
    destruct (In_fact_dec g G) as [Hin | Hnin]; [exact Hin |].
    assert (X : In g (fresh G (tp_neg nv M0 P G))) by (apply fresh_In; auto). rewrite E in X. destruct X.
  - apply (IH (G ++ n :: new) M HP); [| | exact H].
    + intros g Hg. apply in_app_iff. auto.
    + intros g Hg. apply in_app_iff in Hg. destruct Hg as [Hg | Hg]; [auto |].
      rewrite <- E in Hg. apply fresh_In in Hg. destruct Hg as [Hg _].
      apply (tp_neg_spec nv M0 P G g HP) in Hg. apply (sderives_step nv P F _ G g HS Hg).
Qed.

Lemma pos_rules_In : forall P r, In r (pos_rules P) -> In r P.
Proof. intros P r H. unfold pos_rules in H. apply filter_In in H. tauto. Qed.

Theorem stratified_exec_correct : forall nv fuel P F M0 M1 ok,
    safe P = true -> stratified_exec nv fuel P F = Some (M0, M1, ok) ->
    (forall f, In f M0 <-> derives nv (pos_rules P) F f) /\
    (forall f, In f M1 <-> stratified_model nv P F f) /\
    (ok = true -> stratifiable nv P F).
Proof.
  intros nv fuel P F M0 M1 ok HS H. unfold stratified_exec in H.
  destruct (least_model nv fuel (pos_rules P) F) as [m0 |] eqn:E0; [| discriminate].
  destruct (lfp_neg nv fuel m0 P F) as [m1 |] eqn:E1; [| discriminate]. inversion H; subst M0 M1 ok. clear H.
  assert (A0 : forall f, In f m0 <-> derives nv (pos_rules P) F f).
  { apply (least_model_correct nv fuel (pos_rules P) F m0); [| exact E0].
    intros r Hr. apply (safe_rr P HS). apply pos_rules_In. exact Hr. }
  assert (A1 : forall f, In f m1 <-> stratified_model nv P F f).
  { intros f. unfold stratified_model.
    rewrite (lfp_neg_inv nv m0 P F fuel F m1 (fun r Hr => conj (safe_rr P HS r Hr) (safe_rr_neg P HS r Hr))
                         (fun g Hg => Hg) (fun g Hg => sd_base _ _ _ _ g Hg) E1 f).
    split; apply sderives_ext; intros g; [apply A0 | symmetry; apply A0]. }
  split; [exact A0 |]. split; [exact A1 |].
  intros Hok r sg n Hr Hn Hm. apply A0. apply A1 in Hm. unfold strat_ok in Hok. rewrite forallb_forall in Hok.
  pose proof (Hok _ Hm) as Hf. apply orb_true_iff in Hf. destruct Hf as [Hf | Hf]; [apply mem_In; exact Hf |].
  rewrite forallb_forall in Hf. pose proof (Hf r Hr) as Hf'. rewrite forallb_forall in Hf'. pose proof (Hf' n Hn) as Hf''.
  destruct (match_atom_complete n (inst sg n) [] sg (sagrees_nil sg) eq_refl) as [s' Es]. rewrite Es in Hf''. discriminate.
Qed.
