(* MODEL VARIANT: join keys as the STRINGS of the code.
   In join_algorithm.rs a binding row is a BTreeMap<String,String>; its keys are the rule's variable names and,
   for constant subjects/objects, the invented names "__const_subj_<id>" / "__const_obj_<id>"
   (extract_join_parameters).  The base model (HashJoin.v) keeps these apart by constructor (KV / KS / KO), i.e.
   it assumes that no rule variable is spelled like an invented name.  This variant drops the assumption:
   a rule comes with the spelling of its variables ([names] : variable number -> string), and the key of a
   variable is the key its spelling denotes: "__const_subj_<decimal c>" IS the key KS c, "__const_obj_<decimal c>"
   IS KO c (exactly the strings format!("__const_subj_{}", c) produces), every other spelling is a key of its
   own (KV x; spellings of distinct variables are distinct - they are the same variable otherwise).
   Everything else is the naive strategy of Strategies.v / HashJoin.v with [vk x] in place of [KV x]. *)
Require Export KV.Datalog.Strategies.
Require Coq.Strings.String Coq.Strings.Ascii DecimalString DecimalN.
Import String.StringSyntax.
Delimit Scope string_scope with string.

Definition dec (c : N) : String.string := DecimalString.NilEmpty.string_of_uint (N.to_uint c).
Definition undec (s : String.string) : option N :=
  match DecimalString.NilEmpty.uint_of_string s with
  | Some d => let c := N.of_uint d in if String.eqb (dec c) s then Some c else None   (* "007" is not what format! prints *)
  | None => None
  end.

Definition names := list (name * String.string).
(* the spelling of variable x: the table entry, "X<x>" by default (what harness/src/bin/c05.rs does) *)
Definition spelling (tbl : names) (x : name) : String.string :=
  match find (fun e => N.eqb (fst e) x) tbl with
  | Some e => snd e
  | None => String.append "X"%string (dec x)
  end.

Definition subj_prefix : String.string := "__const_subj_"%string.
Definition obj_prefix : String.string := "__const_obj_"%string.
Definition strip (p s : String.string) : option String.string :=
  if String.prefix p s then Some (String.substring (String.length p) (String.length s - String.length p) s) else None.

(* the key a variable spelled s denotes *)
Definition key_of_spelling (x : name) (s : String.string) : key :=
  match strip subj_prefix s with
  | Some rest => match undec rest with Some c => KS c | None => KV x end
  | None =>
      match strip obj_prefix s with
      | Some rest => match undec rest with Some c => KO c | None => KV x end
      | None => KV x
      end
  end.
Definition vk_of (tbl : names) (x : name) : key := key_of_spelling x (spelling tbl x).

(* the variables of a program *)
Definition rule_vars (r : rule) : list name :=
  atoms_vars (prem r) ++ atoms_vars (concl r) ++ atoms_vars (negp r) ++ flat_map filter_vars (filt r).
Definition prog_vars (P : list rule) : list name := flat_map rule_vars P.

(* C05-synthetic-var-capture: no variable is spelled like an invented join variable *)
Definition no_synthetic_names (tbl : names) (P : list rule) : bool :=
  forallb (fun x => key_eqb (vk_of tbl x) (KV x)) (prog_vars P).

(* ---- the join and the naive strategy with [vk x] in place of [KV x] -------------------------------------- *)
Section VarKeys.
  Variable vk : name -> key.

  Definition vskey (a : atom) : key := match a_s a with V x => vk x | C c => KS c end.
  Definition vokey (a : atom) : key := match a_o a with V x => vk x | C c => KO c end.

  Definition vbind_predicate (r : row) (pv : option name) (pid : N) : option row :=
    match pv with
    | None => Some r
    | Some v => match rget (vk v) r with
                | Some e => if N.eqb e pid then Some r else None
                | None => Some (rins (vk v) pid r)
                end
    end.

  Definition vprocess_triple (t : fact) (sk ok : key) (pv : option name) (tb : table) : list row :=
    match mm_get pair_eqb (f_s t, f_o t) (both_bound tb) with
    | Some rs => omap_rows (fun r => vbind_predicate r pv (f_p t)) rs
    | None =>
        omap_rows (fun r => vbind_predicate (rins ok (f_o t) r) pv (f_p t)) (bucket (mm_get N.eqb (f_s t) (subject_bound tb)))
        ++ omap_rows (fun r => vbind_predicate (rins sk (f_s t) r) pv (f_p t)) (bucket (mm_get N.eqb (f_o t) (object_bound tb)))
        ++ omap_rows (fun r => vbind_predicate (rins ok (f_o t) (rins sk (f_s t) r)) pv (f_p t)) (neither_bound tb)
    end.

  Definition vhash_join (a : atom) (triples : list fact) (rows : list row) : list row :=
    match rows with
    | [] => []
    | _ =>
        match filter (prefilter a) triples with
        | [] => []
        | ft =>
            let tb := build_table rows (vskey a) (vokey a) in
            flat_map (fun t => vprocess_triple t (vskey a) (vokey a) (pred_var a) tb) ft
        end
    end.

  Fixpoint vjoin_all (prems : list atom) (facts : list fact) (rows : list row) : list row :=
    match prems with
    | [] => rows
    | a :: rest =>
        match vhash_join a facts rows with
        | [] => []
        | rows' => vjoin_all rest facts rows'
        end
    end.

  Definition vnaive_solutions (r : rule) (all : list fact) : list row :=
    match prem r with
    | [] => []
    | ps => vjoin_all ps all [[]]
    end.

  Definition vrow_term (r : row) (t : term) : N :=
    match t with
    | C c => c
    | V x => match rget (vk x) r with Some v => v | None => 0 end
    end.
  Definition vrow_inst (r : row) (c : atom) : fact := (vrow_term r (a_s c), vrow_term r (a_p c), vrow_term r (a_o c)).

  Definition veval_filter (nv : N -> Z) (r : row) (f : fcond) : bool :=
    match f with
    | FNum x op z => match rget (vk x) r with Some l => cmp_num op (nv l) z | None => true end
    | FVar x op y =>
        match rget (vk x) r with
        | Some l => match rget (vk y) r with
                    | Some rr => match op with
                                 | Ne => negb (N.eqb l rr) | Eq => N.eqb l rr
                                 | _ => cmp_num op (nv l) (nv rr)
                                 end
                    | None => cmp_num op (nv l) 0%Z
                    end
        | None => true
        end
    end.
  Definition veval_filters (nv : N -> Z) (r : row) (fs : list fcond) : bool := forallb (veval_filter nv r) fs.

  Definition vconclude (nv : N -> Z) (r : rule) (known : list fact) (rows : list row) (acc : list fact) : list fact :=
    fold_left (fun acc row =>
                 if veval_filters nv row (filt r)
                 then fold_left (fun acc c => let f := vrow_inst row c in if mem f known then acc else set_add f acc)
                                (concl r) acc
                 else acc) rows acc.

  Definition vnaive_round (nv : N -> Z) (P : list rule) (st : unit) (all : list fact) : unit * list fact :=
    (tt, fold_left (fun acc r => vconclude nv r all (vnaive_solutions r all) acc) P []).

  Definition vnaive_run (nv : N -> Z) (fuel : nat) (P : list rule) (F : list fact) :=
    infer_with_strategy (vnaive_round nv P) fuel tt F.
End VarKeys.
