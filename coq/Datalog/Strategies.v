(* MODEL of the forward-chaining strategies of datalog/src/reasoning/materialisation/:
   infer_generic.rs (driver infer_with_strategy), my_naive.rs, semi_naive.rs,
   semi_naive_parallel.rs (+ shared/src/rule_index.rs candidate lookup, rules.rs matches_rule_pattern),
   provenance_semi_naive.rs at the Boolean semiring without probability seeds,
   rules.rs (evaluate_filters), materialisation.rs (replace_variables_with_bound_values).

   State components: all_facts is the fact vector (a list, new facts appended); known_facts (a
   HashSet kept equal to the vector by the driver) is membership in that list; the HashSet of facts
   inferred in a round is a repetition-free list in insertion order; start_idx_for_delta is a nat.
   Loops are on explicit fuel; [None] = fuel exhausted (excluded by C05_terminates). *)
Require Export KV.Datalog.HashJoin.

(* ---- conclusions and filters on a converted binding row ------------------------------------- *)
(* get_id_from_term; an unbound variable gives 0 (the code warns; in object position it would allocate
   a placeholder id in the dictionary -- outside the model, excluded by rule safety). *)
Definition row_term (r : row) (t : term) : N :=
  match t with
  | C c => c
  | V x => match rget (KV x) r with Some v => v | None => 0 end
  end.
(* replace_variables_with_bound_values *)
Definition row_inst (r : row) (c : atom) : fact := (row_term r (a_s c), row_term r (a_p c), row_term r (a_o c)).

(* evaluate_filters (as repaired by 7537bd2): a filter whose variable is unbound is skipped; when the value names a
   bound variable "=" and "!=" compare the ids and the four order operators compare the numeric values of the two
   terms (a term that does not parse as a number counts as 0.0, as against a constant); a variable-valued filter
   whose value variable is unbound falls through to the numeric comparison with parse("X..") = 0.0 *)
Definition eval_filter (nv : N -> Z) (r : row) (f : fcond) : bool :=
  match f with
  | FNum x op z => match rget (KV x) r with Some l => cmp_num op (nv l) z | None => true end
  | FVar x op y =>
      match rget (KV x) r with
      | Some l => match rget (KV y) r with
                  | Some rr => match op with
                               | Ne => negb (N.eqb l rr) | Eq => N.eqb l rr      (* identity of terms *)
                               | _ => cmp_num op (nv l) (nv rr)                   (* numeric values of both terms *)
                               end
                  | None => cmp_num op (nv l) 0%Z
                  end
      | None => true
      end
  end.
Definition eval_filters (nv : N -> Z) (r : row) (fs : list fcond) : bool := forallb (eval_filter nv r) fs.

(* evaluate_filters before 7537bd2 (regression lemma C05_varcmp_regression only): between two bound variables every
   operator other than = / != fell into `_ => {}` *)
Definition eval_filter_pre7537 (nv : N -> Z) (r : row) (f : fcond) : bool :=
  match f with
  | FVar x op y =>
      match rget (KV x) r, rget (KV y) r with
      | Some l, Some rr => match op with Ne => negb (N.eqb l rr) | Eq => N.eqb l rr | _ => true end
      | _, _ => eval_filter nv r f
      end
  | _ => eval_filter nv r f
  end.

(* the body shared by the naive and semi-naive infer_round: for every solution that passes the
   filters, every conclusion that is not known is inserted into the round's set *)
Definition conclude (nv : N -> Z) (r : rule) (known : list fact) (rows : list row) (acc : list fact) : list fact :=
  fold_left (fun acc row =>
               if eval_filters nv row (filt r)
               then fold_left (fun acc c => let f := row_inst row c in if mem f known then acc else set_add f acc)
                              (concl r) acc
               else acc) rows acc.

(* ---- infer_with_strategy ---------------------------------------------------------------------- *)
(* for fact in inferred.drain(): if !known.contains(fact) { known.insert; index.insert; all_facts.push } *)
Definition absorb (all inferred : list fact) : list fact :=
  fold_left (fun all f => if mem f all then all else all ++ [f]) inferred all.

Section Driver.
  Context {St : Type} (round : St -> list fact -> St * list fact).
  Fixpoint infer_loop (fuel : nat) (st : St) (all : list fact) : option (list fact) :=
    match fuel with
    | O => None
    | S k =>
        let (st', inferred) := round st all in
        match inferred with
        | [] => Some all
        | _ => infer_loop k st' (absorb all inferred)
        end
    end.
  (* result: (facts in the store afterwards, returned new facts = all_facts.split_off(idx_before)) *)
  Definition infer_with_strategy (fuel : nat) (st0 : St) (F : list fact) : option (list fact * list fact) :=
    match infer_loop fuel st0 F with
    | Some all => Some (all, skipn (length F) all)
    | None => None
    end.
End Driver.

(* ---- my_naive.rs ------------------------------------------------------------------------------ *)
(* for premise in premises { rows = join(premise, facts, rows); if rows.is_empty() { break } } *)
Fixpoint join_all (prems : list atom) (facts : list fact) (rows : list row) : list row :=
  match prems with
  | [] => rows
  | a :: rest =>
      match hash_join a facts rows with
      | [] => []
      | rows' => join_all rest facts rows'
      end
  end.

Definition naive_solutions (r : rule) (all : list fact) : list row :=
  match prem r with
  | [] => []
  | ps => join_all ps all [[]]
  end.

Definition naive_round (nv : N -> Z) (P : list rule) (st : unit) (all : list fact) : unit * list fact :=
  (tt, fold_left (fun acc r => conclude nv r all (naive_solutions r all) acc) P []).

Definition naive_run (nv : N -> Z) (fuel : nat) (P : list rule) (F : list fact) :=
  infer_with_strategy (naive_round nv P) fuel tt F.

(* ---- semi_naive.rs ---------------------------------------------------------------------------- *)
Definition others {A} (i : nat) (l : list A) : list A := firstn i l ++ skipn (S i) l.

(* for i: premise i against the delta, then every other premise (in order) against all facts *)
Definition semi_solutions (r : rule) (all delta : list fact) : list row :=
  flat_map (fun i => match nth_error (prem r) i with
                     | None => []
                     | Some a => join_all (others i (prem r)) all (hash_join a delta [[]])
                     end)
           (seq 0 (length (prem r))).

Definition semi_round (nv : N -> Z) (P : list rule) (start : nat) (all : list fact) : nat * list fact :=
  let delta := skipn start all in
  (length all, fold_left (fun acc r => conclude nv r all (semi_solutions r all delta) acc) P []).

Definition semi_run (nv : N -> Z) (fuel : nat) (P : list rule) (F : list fact) :=
  infer_with_strategy (semi_round nv P) fuel O F.

(* ---- semi_naive_parallel.rs ------------------------------------------------------------------- *)
Definition bindings := list (name * N).
Definition bget (x : name) (b : bindings) : option N := lookup N.eqb x b.

(* one position of matches_rule_pattern *)
Definition mrp_term (t : term) (v : N) (b : bindings) : option bindings :=
  match t with
  | C c => if N.eqb c v then Some b else None
  | V x => match bget x b with
           | Some w => if N.eqb w v then Some b else None
           | None => Some (insert x v b)
           end
  end.
Definition matches_rule_pattern (a : atom) (f : fact) (b : bindings) : option bindings :=
  match mrp_term (a_s a) (f_s f) b with
  | None => None
  | Some b1 => match mrp_term (a_p a) (f_p f) b1 with
               | None => None
               | Some b2 => mrp_term (a_o a) (f_o f) b2
               end
  end.
Definition b_term (b : bindings) (t : term) : N :=
  match t with C c => c | V x => match bget x b with Some v => v | None => 0 end end.
Definition b_inst (b : bindings) (c : atom) : fact := (b_term b (a_s c), b_term b (a_p c), b_term b (a_o c)).

(* rule_index: one entry (s_val, p_val, o_val, rule_id) per premise; WILDCARD = None.
   query_candidate_rules(None, Some(p), None) = union of pos[p][*] and pso[p][*] = the ids of the rules
   with a premise whose predicate is the constant p (a HashSet: each id once). *)
Definition index := list ((option N * option N * option N) * nat).
Definition build_index (P : list rule) : index :=
  flat_map (fun ir => map (fun a => ((const_of (a_s a), const_of (a_p a), const_of (a_o a)), fst ir)) (prem (snd ir)))
           (combine (seq 0 (length P)) P).
Definition nat_add (i : nat) (l : list nat) : list nat := if existsb (Nat.eqb i) l then l else l ++ [i].
Definition candidates_by_pred (idx : index) (p : N) : list nat :=
  fold_left (fun acc e => match snd (fst (fst e)) with
                          | Some q => if N.eqb q p then nat_add (snd e) acc else acc
                          | None => acc
                          end) idx [].

(* what one delta triple derives through one candidate rule *)
Definition par_fire (r : rule) (t1 : fact) (all : list fact) : list fact :=
  match prem r with
  | [a0] =>
      match matches_rule_pattern a0 t1 [] with
      | Some b => map (b_inst b) (concl r)
      | None => []
      end
  | [a0; a1] =>
      (match matches_rule_pattern a0 t1 [] with
       | Some b1 => flat_map (fun t2 => match matches_rule_pattern a1 t2 b1 with
                                        | Some b2 => map (b_inst b2) (concl r)
                                        | None => []
                                        end) all
       | None => []
       end)
      ++
      (match matches_rule_pattern a1 t1 [] with
       | Some b1 => flat_map (fun t2 => match matches_rule_pattern a0 t2 b1 with
                                        | Some b2 => map (b_inst b2) (concl r)
                                        | None => []
                                        end) all
       | None => []
       end)
  | _ => []
  end.

Definition par_round (P : list rule) (idx : index) (all delta : list fact) : list fact :=
  fold_left (fun acc t1 =>
               fold_left (fun acc rid =>
                            match nth_error P rid with
                            | Some r => fold_left (fun acc f => if mem f all then acc else set_add f acc) (par_fire r t1 all) acc
                            | None => acc
                            end)
                         (candidates_by_pred idx (f_p t1)) acc)
            delta [].

Fixpoint par_loop (fuel : nat) (P : list rule) (idx : index) (all delta inferred : list fact) : option (list fact * list fact) :=
  match fuel with
  | O => None
  | S k =>
      match par_round P idx all delta with
      | [] => Some (all, inferred)
      | new => par_loop k P idx (all ++ new) new (inferred ++ new)
      end
  end.

Definition par_run (fuel : nat) (P : list rule) (F : list fact) : option (list fact * list fact) :=
  par_loop fuel P (build_index P) F F [].

(* ---- provenance_semi_naive.rs at BooleanProvenance, no probability seeds ---------------------- *)
(* Every tag is `true` (TagStore::get_tag defaults to one(); set_tag(one) stores nothing;
   update_disjunction never reports a change), so stratum 0 is the semi-naive loop over the rules
   without negated atoms and the driver stops when a round adds no fact.  The derivation
   de-duplication (seen_derivations) does not change the set of inferred facts and is not modelled.
   Stratum 1: one pass of the rules with negated atoms over the closure. *)
Definition no_neg (r : rule) : bool := match negp r with [] => true | _ => false end.

Definition row_resolve (r : row) (t : term) : option N :=
  match t with C c => Some c | V x => rget (KV x) r end.
(* contribution of the negated atoms: zero as soon as one is present in the closure or unbound *)
Definition neg_ok (r : row) (all : list fact) (negs : list atom) : bool :=
  forallb (fun a => match row_resolve r (a_s a), row_resolve r (a_p a), row_resolve r (a_o a) with
                    | Some s, Some p, Some o => negb (mem (s, p, o) all)
                    | _, _, _ => false
                    end) negs.

Definition neg_pass (nv : N -> Z) (negrules : list rule) (all : list fact) : list fact :=
  fold_left (fun derived r =>
               fold_left (fun derived row =>
                            if eval_filters nv row (filt r) && neg_ok row all (negp r)
                            then fold_left (fun derived c => let f := row_inst row c in
                                                             if mem f all || mem f derived then derived else derived ++ [f])
                                           (concl r) derived
                            else derived)
                         (join_all (prem r) all [[]]) derived)
            negrules [].

Definition prov_bool_run (nv : N -> Z) (fuel : nat) (P : list rule) (F : list fact) : option (list fact * list fact) :=
  match infer_with_strategy (semi_round nv (filter no_neg P)) fuel O F with
  | None => None
  | Some (all, new) =>
      match filter (fun r => negb (no_neg r)) P with
      | [] => Some (all, new)
      | negrules => let d := neg_pass nv negrules all in Some (all ++ d, new ++ d)
      end
  end.

(* ---- shared/src/rule.rs: check_rule_safety (called by Reasoner::try_add_rule) ------------------- *)
(* every variable of a negated atom must occur in a positive premise; otherwise the rule is rejected *)
Definition check_rule_safety (r : rule) : bool :=
  forallb (fun x => nmem x (atoms_vars (prem r))) (atoms_vars (negp r)).
