(* The fixpoint driver (infer_with_strategy) with the naive and the semi-naive round: soundness,
   completeness, idempotence, order independence, termination within |constants|^3 + 1 rounds. *)
Require Import KV.Datalog.Syntax KV.Datalog.LeastModel KV.Datalog.BasicLemmas KV.Datalog.LeastModelProofs.
Require Import KV.Datalog.HashJoin KV.Datalog.Strategies KV.Datalog.RoundProofs.

(* ---- absorb --------------------------------------------------------------------------------------- *)
Lemma absorb_spec : forall inf all,
    exists l, absorb all inf = all ++ l /\ NoDup l /\ (forall f, In f l <-> In f inf /\ ~ In f all).
Proof.
  unfold absorb. induction inf as [|g inf IH]; intros all; cbn.
  - exists []. rewrite app_nil_r. split; [reflexivity |]. split; [constructor |]. intros f. cbn. tauto.
  - destruct (mem g all) eqn:E.
    + apply mem_In in E. destruct (IH all) as [l [H1 [H2 H3]]]. exists l. split; [exact H1 |]. split; [exact H2 |].
      intros f. rewrite H3. split; [tauto |]. intros [[-> | H] Hn]; [contradiction | auto].
    + apply mem_false in E. destruct (IH (all ++ [g])) as [l [H1 [H2 H3]]]. exists (g :: l).
      split; [rewrite H1, <- app_assoc; reflexivity |]. split.
      * constructor; [| exact H2]. intros Hg. apply H3 in Hg. destruct Hg as [_ Hg]. apply Hg. apply in_app_iff. right. left. reflexivity.
      * intros f. cbn. rewrite H3, in_app_iff. cbn. split.
        -- intros [<- | [Hf Hn]]; [auto |]. split; [auto |]. intros Hfa. apply Hn. auto.
        -- intros [[<- | Hf] Hn]; [auto |]. destruct (fact_eq_dec g f) as [-> | Hne]; [auto |]. right. split; [exact Hf |].
           intros [Hfa | [Hfg | []]]; [auto | congruence].
Qed.

Lemma absorb_In : forall all inf f, In f (absorb all inf) <-> In f all \/ In f inf.
Proof.
  intros all inf f. destruct (absorb_spec inf all) as [l [H1 [_ H3]]]. rewrite H1, in_app_iff, H3.
  destruct (In_fact_dec f all); tauto.
Qed.

Lemma NoDup_app_iff_local : forall (A : Type) (l l' : list A),
    NoDup l -> NoDup l' -> (forall x, In x l -> In x l' -> False) -> NoDup (l ++ l').
Proof.
  intros A l l' H1 H2 H3. induction l as [|y l IH]; cbn; [exact H2 |].
  inversion H1; subst. constructor.
  - rewrite in_app_iff. intros [H | H]; [auto | apply (H3 y); [left; reflexivity | exact H]].
  - apply IH; [assumption |]. intros x Hx. apply H3. right. exact Hx.
Qed.

(* ---- the driver loop -------------------------------------------------------------------------------- *)
Section Loop.
  Context {St : Type} (round : St -> list fact -> St * list fact).
  Variable Inv : St -> list fact -> Prop.
  Hypothesis Inv_step : forall st all, Inv st all -> snd (round st all) <> [] ->
                                       Inv (fst (round st all)) (absorb all (snd (round st all))).

  Lemma infer_loop_inv : forall fuel st all res,
      Inv st all -> infer_loop round fuel st all = Some res ->
      exists st', Inv st' res /\ snd (round st' res) = [].
  Proof.
    induction fuel as [|k IH]; intros st all res HI H; cbn in H; [discriminate |].
    pose proof (Inv_step st all HI) as Hs. destruct (round st all) as [st' inf] eqn:E. cbn [fst snd] in Hs.
    destruct inf as [|g inf].
    - inversion H; subst res. exists st. split; [exact HI |]. rewrite E. reflexivity.
    - apply (IH st' (absorb all (g :: inf)) res); [apply Hs; discriminate | exact H].
  Qed.

  (* termination: every productive round adds a fact of the finite universe U that was not there *)
  Variable U : list fact.
  Variable F : list fact.
  Hypothesis Inv_new : forall st all g, Inv st all -> In g (snd (round st all)) -> In g U /\ ~ In g all.

  Lemma infer_loop_terminates : forall fuel st l,
      Inv st (F ++ l) -> NoDup l -> (forall g, In g l -> In g U) ->
      (length U < fuel + length l)%nat ->
      infer_loop round fuel st (F ++ l) <> None.
  Proof.
    induction fuel as [|k IH]; intros st l HI Hnd Hin Hlen.
    - exfalso. pose proof (NoDup_incl_length Hnd Hin). cbn in Hlen. lia.
    - cbn. pose proof (Inv_step st (F ++ l) HI) as Hs. pose proof (Inv_new st (F ++ l)) as Hn.
      destruct (round st (F ++ l)) as [st' inf] eqn:E. cbn [fst snd] in Hs, Hn.
      destruct inf as [|g inf]; [discriminate |].
      destruct (absorb_spec (g :: inf) (F ++ l)) as [l' [H1 [H2 H3]]].
      rewrite H1, <- app_assoc. rewrite H1, <- app_assoc in Hs. apply IH.
      + apply Hs. discriminate.
      + apply NoDup_app_iff_local; [exact Hnd | exact H2 |]. intros x Hx Hx'. apply H3 in Hx'. destruct Hx' as [_ Hx'].
        apply Hx'. apply in_app_iff. auto.
      + intros x Hx. apply in_app_iff in Hx. destruct Hx as [Hx | Hx]; [auto |]. apply H3 in Hx. destruct Hx as [Hx _].
        apply (Hn x HI Hx).
      + assert (Hl' : l' <> []).
        { intros ->. assert (X : In g []) by (apply H3; split; [left; reflexivity | apply (Hn g HI); left; reflexivity]). destruct X. }
        rewrite app_length. destruct l'; [congruence | cbn; lia].
  Qed.
End Loop.
