(* Termination of the parallel and of the provenance (Boolean) strategy models within the same
   finite-universe bound as the naive / semi-naive driver. *)
Require Import KV.Datalog.Syntax KV.Datalog.LeastModel KV.Datalog.BasicLemmas KV.Datalog.LeastModelProofs.
Require Import KV.Datalog.HashJoin KV.Datalog.Strategies KV.Datalog.Classes.
Require Import KV.Datalog.RoundProofs KV.Datalog.DriverProofs KV.Datalog.MainProofs KV.Datalog.ParallelProofs KV.Datalog.ProvProofs KV.Datalog.NegProofs.

Section ParTerm.
  Variables (nv : N -> Z) (P : list rule) (F : list fact).
  Hypothesis HP : forall r, In r P -> par_ok r.

  Lemma pinv_init : pinv nv P F F F [].
  Proof.
    split; [intros g Hg; apply d_base; exact Hg |]. split; [rewrite app_nil_r; reflexivity |].
    split; [constructor |]. split; [intros g [] |]. exists []. split; [reflexivity |].
    intros g [r [sg [c [Hr [Hp _]]]]]. destruct (par_ok_spec r (HP r Hr)) as [_ [_ [_ [Hne _]]]].
    destruct (prem r) as [|a ps]; [congruence |]. destruct (Hp a (or_introl eq_refl)).
  Qed.

  Lemma pinv_step : forall all delta inferred n ns,
      pinv nv P F all delta inferred ->
      par_round P (build_index P) all delta = n :: ns ->
      pinv nv P F (all ++ n :: ns) (n :: ns) (inferred ++ n :: ns) /\
      (forall g, In g (n :: ns) -> ~ In g all) /\ NoDup (n :: ns).
  Proof.
    intros all delta inferred n ns HI E.
    destruct HI as [HD [Hall [Hnd [Hdis [old [Hold Hcl]]]]]].
    assert (Hda : forall g, In g delta -> In g all) by (intros g Hg; rewrite Hold; apply in_app_iff; auto).
    pose proof (fun f => par_round_spec nv P all delta f HP Hda) as RS.
    assert (CL : forall all', (forall g, In g all -> In g all') ->
                              (forall g, delta_step nv P all delta g -> In g all') ->
                              forall g, one_step nv P all g -> In g all').
    { intros all' Hsub Hdl. apply (semi_closure nv P (length old) all all' Hsub).
      - intros g Hg. apply Hcl. rewrite Hold in Hg. rewrite firstn_app_exact in Hg. exact Hg.
      - intros g Hg. apply Hdl. replace delta with (skipn (length old) all); [exact Hg | rewrite Hold; apply skipn_app_exact]. }
    pose proof (par_round_NoDup P (build_index P) all delta) as ND. rewrite E in ND.
    assert (NEW : forall g, In g (n :: ns) -> delta_step nv P all delta g /\ ~ In g all) by (intros g Hg; apply RS; rewrite E; exact Hg).
    split; [| split; [intros g Hg; apply (NEW g Hg) | exact ND]].
    split; [| split; [| split; [| split]]].
    - intros g Hg. apply in_app_iff in Hg. destruct Hg as [Hg | Hg]; [auto |].
      destruct (NEW g Hg) as [[r [sg [c [Hr [Hp [_ [Hf [Hc ->]]]]]]]] _].
      apply (derives_step nv P F all _ HD). exists r, sg, c. auto.
    - rewrite Hall, app_assoc. reflexivity.
    - apply NoDup_app_iff_local; [exact Hnd | exact ND |]. intros x Hx Hx'. destruct (NEW x Hx') as [_ Hn]. apply Hn.
      rewrite Hall. apply in_app_iff. auto.
    - intros g Hg. apply in_app_iff in Hg. destruct Hg as [Hg | Hg]; [auto |]. destruct (NEW g Hg) as [_ Hn].
      intros HF. apply Hn. rewrite Hall. apply in_app_iff. auto.
    - exists all. split; [reflexivity |]. apply (CL (all ++ n :: ns)); [intros g Hg; apply in_app_iff; auto |].
      intros g Hg. apply in_app_iff. destruct (In_fact_dec g all) as [Hin | Hnin]; [auto | right]. rewrite <- E. apply RS. auto.
  Qed.

  Lemma par_loop_terminates : forall fuel all delta inferred,
      pinv nv P F all delta inferred ->
      (length (cube (consts P F)) < fuel + length inferred)%nat ->
      par_loop fuel P (build_index P) all delta inferred <> None.
  Proof.
    induction fuel as [|k IH]; intros all delta inferred HI Hlen.
    - exfalso. destruct HI as [HD [Hall [Hnd _]]].
      assert (Hin : incl inferred (cube (consts P F))).
      { intros g Hg. apply (derives_in_cube nv P F g (par_safe P HP)). apply HD. rewrite Hall. apply in_app_iff. auto. }
      pose proof (NoDup_incl_length Hnd Hin). cbn in Hlen. lia.
    - cbn. destruct (par_round P (build_index P) all delta) as [|n ns] eqn:E; [discriminate |].
      destruct (pinv_step all delta inferred n ns HI E) as [HI' _].
      apply IH; [exact HI' |]. rewrite app_length. cbn. lia.
  Qed.

  Theorem par_terminates : forall fuel,
      (length (cube (consts P F)) < fuel)%nat -> par_run fuel P F <> None.
  Proof.
    intros fuel Hf. unfold par_run. apply par_loop_terminates; [apply pinv_init | cbn; lia].
  Qed.
End ParTerm.

(* ---- provenance (Boolean): stratum 0 is the semi-naive loop over the rules without negated atoms, stratum 1 one pass *)
Lemma flat_map_filter_length : forall (A B : Type) (f : A -> list B) (p : A -> bool) l,
    (length (flat_map f (filter p l)) <= length (flat_map f l))%nat.
Proof.
  intros A B f p l. induction l as [|x l IH]; cbn; [lia |].
  destruct (p x); cbn; rewrite !app_length; lia.
Qed.

Lemma consts_filter_length : forall (p : rule -> bool) P F, (length (consts (filter p P) F) <= length (consts P F))%nat.
Proof.
  intros p P F. unfold consts. rewrite !app_length. pose proof (flat_map_filter_length _ _ rule_consts p P). lia.
Qed.

Lemma cube_length_mono : forall cs cs', (length cs <= length cs')%nat -> (length (cube cs) <= length (cube cs'))%nat.
Proof.
  intros cs cs' H. rewrite !cube_length. apply Nat.mul_le_mono; [exact H |]. apply Nat.mul_le_mono; exact H.
Qed.

Theorem prov_terminates : forall nv P F fuel,
    safe P = true -> (length (cube (consts P F)) < fuel)%nat -> prov_bool_run nv fuel P F <> None.
Proof.
  intros nv P F fuel HS Hf. unfold prov_bool_run.
  pose proof (cube_length_mono _ _ (consts_filter_length no_neg P F)) as Hm.
  assert (T : semi_run nv fuel (filter no_neg P) F <> None).
  { apply (semi_terminates nv (filter no_neg P) F (safe_pos P HS)). lia. }
  unfold semi_run in T. destruct (infer_with_strategy (semi_round nv (filter no_neg P)) fuel 0%nat F) as [[all new] |]; [| congruence].
  destruct (filter (fun r => negb (no_neg r)) P); discriminate.
Qed.
