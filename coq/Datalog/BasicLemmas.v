(* Lemmas about the list-as-set helpers of Syntax.v, about total substitutions and about the
   immediate-consequence relation; shared by the proofs about the Spec and about the model. *)
Require Import KV.Datalog.Syntax KV.Datalog.LeastModel.

Lemma fact_eqb_eq : forall f g, fact_eqb f g = true <-> f = g.
Proof.
  intros [[a b] c] [[a' b'] c']. unfold fact_eqb, f_s, f_p, f_o. cbn [fst snd].
  rewrite !andb_true_iff, !N.eqb_eq. split.
  - intros [[-> ->] ->]. reflexivity.
  - intros H. inversion H. auto.
Qed.

Lemma fact_eq_dec : forall f g : fact, {f = g} + {f <> g}.
Proof.
  intros f g. destruct (fact_eqb f g) eqn:E.
  - left. apply fact_eqb_eq. exact E.
  - right. intros H. apply fact_eqb_eq in H. congruence.
Qed.

Lemma In_fact_dec : forall (f : fact) l, {In f l} + {~ In f l}.
Proof. intros. apply in_dec. apply fact_eq_dec. Qed.

Lemma mem_In : forall f l, mem f l = true <-> In f l.
Proof.
  intros f l. unfold mem. rewrite existsb_exists. split.
  - intros [g [Hg E]]. apply fact_eqb_eq in E. subst. exact Hg.
  - intros H. exists f. split; [exact H | apply fact_eqb_eq; reflexivity].
Qed.

Lemma mem_false : forall f l, mem f l = false <-> ~ In f l.
Proof.
  intros f l. rewrite <- mem_In. destruct (mem f l); split; intros; congruence.
Qed.

Lemma NoDup_snoc : forall (A : Type) (l : list A) x, NoDup l -> ~ In x l -> NoDup (l ++ [x]).
Proof.
  intros A l x Hl Hx. induction l as [|y l IH]; cbn.
  - constructor; [intros [] | constructor].
  - inversion Hl; subst. constructor.
    + rewrite in_app_iff. cbn. intros [H | [H | []]]; [auto | subst; apply Hx; left; reflexivity].
    + apply IH; [assumption | intros H; apply Hx; right; exact H].
Qed.

Lemma set_add_In : forall f g l, In g (set_add f l) <-> g = f \/ In g l.
Proof.
  intros f g l. unfold set_add. destruct (mem f l) eqn:E.
  - apply mem_In in E. split; [auto | intros [-> | H]; auto].
  - rewrite in_app_iff. cbn. split; [intros [H | [H | []]]; auto | intros [-> | H]; auto].
Qed.

Lemma set_add_NoDup : forall f l, NoDup l -> NoDup (set_add f l).
Proof.
  intros f l H. unfold set_add. destruct (mem f l) eqn:E; [exact H |].
  apply mem_false in E. apply NoDup_snoc; assumption.
Qed.

Lemma nmem_In : forall x l, nmem x l = true <-> In x l.
Proof.
  intros x l. unfold nmem. rewrite existsb_exists. split.
  - intros [y [Hy E]]. apply N.eqb_eq in E. subst. exact Hy.
  - intros H. exists x. split; [exact H | apply N.eqb_refl].
Qed.

(* ---- folds that collect into a set ---------------------------------------------------------- *)
(* the shape "for x in xs: if keep(x) then acc.insert(x)" *)
Definition collect (known : list fact) (l acc : list fact) : list fact :=
  fold_left (fun acc f => if mem f known then acc else set_add f acc) l acc.

Lemma collect_In : forall known l acc f,
    In f (collect known l acc) <-> In f acc \/ (In f l /\ ~ In f known).
Proof.
  intros known l. induction l as [|g l IH]; intros acc f; cbn.
  - tauto.
  - unfold collect in *. cbn. rewrite IH. destruct (mem g known) eqn:E.
    + apply mem_In in E. split.
      * intros [H | [H1 H2]]; [auto | right; split; auto].
      * intros [H | [[-> | H1] H2]]; [auto | contradiction | right; split; auto].
    + apply mem_false in E. rewrite set_add_In. split.
      * intros [[-> | H] | [H1 H2]]; [right; split; auto | auto | right; split; auto].
      * intros [H | [[-> | H1] H2]]; [auto | auto | right; split; auto].
Qed.

Lemma collect_NoDup : forall known l acc, NoDup acc -> NoDup (collect known l acc).
Proof.
  intros known l. induction l as [|g l IH]; intros acc H; cbn; [exact H |].
  unfold collect in *. cbn. apply IH. destruct (mem g known); [exact H | apply set_add_NoDup; exact H].
Qed.

Lemma fresh_In : forall F l f, In f (fresh F l) <-> In f l /\ ~ In f F.
Proof.
  intros. unfold fresh. change (In f (collect F l []) <-> In f l /\ ~ In f F).
  rewrite collect_In. cbn. tauto.
Qed.

Lemma fresh_NoDup : forall F l, NoDup (fresh F l).
Proof. intros. apply (collect_NoDup F l []). constructor. Qed.

(* ---- total substitutions ------------------------------------------------------------------------ *)
Lemma tv_ext : forall s1 s2 t, (forall x, In x (term_vars t) -> s1 x = s2 x) -> tv s1 t = tv s2 t.
Proof. intros s1 s2 [x | c] H; cbn; [apply H; left; reflexivity | reflexivity]. Qed.

Lemma inst_ext : forall s1 s2 a, (forall x, In x (atom_vars a) -> s1 x = s2 x) -> inst s1 a = inst s2 a.
Proof.
  intros s1 s2 a H. unfold inst, atom_vars in *.
  rewrite (tv_ext s1 s2 (a_s a)), (tv_ext s1 s2 (a_p a)), (tv_ext s1 s2 (a_o a)); auto;
    intros x Hx; apply H; rewrite !in_app_iff; auto.
Qed.

Lemma filter_ok_ext : forall nv s1 s2 f, (forall x, In x (filter_vars f) -> s1 x = s2 x) -> filter_ok nv s1 f = filter_ok nv s2 f.
Proof.
  intros nv s1 s2 [x op z | x op y] H; cbn in *.
  - rewrite (H x); auto.
  - rewrite (H x), (H y) by auto. reflexivity.
Qed.

Lemma filters_ok_ext : forall nv s1 s2 fs,
    (forall x, In x (flat_map filter_vars fs) -> s1 x = s2 x) -> filters_ok nv s1 fs = filters_ok nv s2 fs.
Proof.
  intros nv s1 s2 fs. unfold filters_ok. induction fs as [|f fs IH]; intros H; cbn; [reflexivity |].
  cbn in H. rewrite (filter_ok_ext nv s1 s2 f), IH; auto; intros x Hx; apply H; rewrite in_app_iff; auto.
Qed.

Lemma atoms_vars_In : forall x l, In x (atoms_vars l) <-> exists a, In a l /\ In x (atom_vars a).
Proof. intros. unfold atoms_vars. apply in_flat_map. Qed.

(* ---- rule safety -------------------------------------------------------------------------------- *)
Lemma safe_rule_spec : forall r, safe_rule r = true ->
    prem r <> [] /\
    (forall c x, In c (concl r) -> In x (atom_vars c) -> In x (atoms_vars (prem r))) /\
    (forall x, In x (flat_map filter_vars (filt r)) -> In x (atoms_vars (prem r))).
Proof.
  intros r H. unfold safe_rule in H. apply andb_true_iff in H. destruct H as [H1 H2].
  rewrite forallb_forall in H2. split; [| split].
  - destruct (prem r); [discriminate | discriminate].
  - intros c x Hc Hx. apply nmem_In. apply H2. rewrite in_app_iff. left. apply atoms_vars_In. exists c. auto.
  - intros x Hx. apply nmem_In. apply H2. rewrite !in_app_iff. right. left. exact Hx.
Qed.

Lemma safe_In : forall P r, safe P = true -> In r P -> safe_rule r = true.
Proof. intros P r H Hr. unfold safe in H. rewrite forallb_forall in H. auto. Qed.

(* ---- the immediate-consequence relation ------------------------------------------------------------ *)
(* f is the instance of a conclusion of a rule of P whose premises are all in M and whose filters hold *)
Definition one_step (nv : N -> Z) (P : list rule) (M : list fact) (f : fact) : Prop :=
  exists r sg c, In r P /\ (forall a, In a (prem r) -> In (inst sg a) M) /\
                 filters_ok nv sg (filt r) = true /\ In c (concl r) /\ f = inst sg c.

Lemma derives_step : forall nv P F M f,
    (forall g, In g M -> derives nv P F g) -> one_step nv P M f -> derives nv P F f.
Proof.
  intros nv P F M f HM [r [sg [c [Hr [Hp [Hf [Hc ->]]]]]]].
  eapply d_rule; eauto.
Qed.

Lemma derives_least : forall nv P F M,
    (forall g, In g F -> In g M) -> (forall g, one_step nv P M g -> In g M) ->
    forall f, derives nv P F f -> In f M.
Proof.
  intros nv P F M HF HM f H. induction H as [f Hf | r sg c Hr Hp IH Hfl Hc].
  - auto.
  - apply HM. exists r, sg, c. auto.
Qed.

(* a set that contains F, is contained in the derivable facts and is closed is the least model *)
Lemma least_model_char : forall nv P F M,
    (forall g, In g F -> In g M) -> (forall g, In g M -> derives nv P F g) ->
    (forall g, one_step nv P M g -> In g M) ->
    forall f, In f M <-> derives nv P F f.
Proof.
  intros nv P F M HF HS HC f. split; [apply HS | apply derives_least; assumption].
Qed.

Lemma derives_mono_facts : forall nv P F F' f, (forall g, In g F -> In g F') -> derives nv P F f -> derives nv P F' f.
Proof.
  intros nv P F F' f H D. induction D as [f Hf | r sg c Hr Hp IH Hfl Hc].
  - apply d_base. auto.
  - eapply d_rule; eauto.
Qed.

Lemma derives_mono_rules : forall nv P P' F f, (forall r, In r P -> In r P') -> derives nv P F f -> derives nv P' F f.
Proof.
  intros nv P P' F f H D. induction D as [f Hf | r sg c Hr Hp IH Hfl Hc].
  - apply d_base. auto.
  - eapply d_rule; eauto.
Qed.

(* derivation from derived facts adds nothing *)
Lemma derives_trans : forall nv P F M f,
    (forall g, In g M -> derives nv P F g) -> derives nv P M f -> derives nv P F f.
Proof.
  intros nv P F M f HM D. induction D as [f Hf | r sg c Hr Hp IH Hfl Hc].
  - auto.
  - eapply d_rule; eauto.
Qed.
