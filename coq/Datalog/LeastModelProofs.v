(* The executable Spec [least_model] computes exactly the inductively defined [derives]. *)
Require Import KV.Datalog.Syntax KV.Datalog.LeastModel KV.Datalog.BasicLemmas.

Definition sagrees (s : sub) (sg : subst) : Prop := forall x v, slookup x s = Some v -> sg x = v.
Definition sdom (s : sub) (x : name) : Prop := slookup x s <> None.

(* range restriction: what [safe_rule] gives besides the non-empty body *)
Definition rr_rule (r : rule) : Prop :=
  (forall c x, In c (concl r) -> In x (atom_vars c) -> In x (atoms_vars (prem r))) /\
  (forall x, In x (flat_map filter_vars (filt r)) -> In x (atoms_vars (prem r))).

Lemma safe_rr : forall P, safe P = true -> forall r, In r P -> rr_rule r.
Proof.
  intros P H r Hr. destruct (safe_rule_spec r (safe_In P r H Hr)) as [_ [H1 H2]]. split; assumption.
Qed.

Lemma slookup_insert : forall y x v s, slookup y (insert x v s) = if N.eqb y x then Some v else slookup y s.
Proof. reflexivity. Qed.

Lemma sagrees_nil : forall sg, sagrees [] sg.
Proof. intros sg x v H. discriminate. Qed.

Lemma sagrees_sub_val : forall s, sagrees s (sub_val s).
Proof. intros s x v H. unfold sub_val. rewrite H. reflexivity. Qed.

Lemma bind_term_sound : forall t v s s',
    bind_term t v s = Some s' ->
    (forall sg, sagrees s' sg <-> sagrees s sg /\ tv sg t = v) /\
    (forall x, sdom s' x <-> sdom s x \/ In x (term_vars t)).
Proof.
  intros [x | c] v s s' H; cbn in H.
  - destruct (slookup x s) as [w |] eqn:E.
    + destruct (N.eqb w v) eqn:Ev; [| discriminate]. inversion H; subst s'. apply N.eqb_eq in Ev. subst w.
      split.
      * intros sg. cbn. split; [intros A; split; [exact A | apply A; exact E] | tauto].
      * intros y. cbn. split; [auto |]. intros [A | [<- | []]]; [exact A |]. unfold sdom. rewrite E. discriminate.
    + inversion H; subst s'. split.
      * intros sg. cbn. split.
        -- intros A. split.
           ++ intros y w Hy. apply A. rewrite slookup_insert. destruct (N.eqb y x) eqn:Ey; [| exact Hy].
              apply N.eqb_eq in Ey. subst y. congruence.
           ++ apply A. rewrite slookup_insert, N.eqb_refl. reflexivity.
        -- intros [A B] y w. rewrite slookup_insert. destruct (N.eqb y x) eqn:Ey.
           ++ apply N.eqb_eq in Ey. subst y. intros Hw. inversion Hw. subst w. exact B.
           ++ apply A.
      * intros y. unfold sdom. rewrite slookup_insert. cbn. destruct (N.eqb y x) eqn:Ey.
        -- apply N.eqb_eq in Ey. subst y. split; [auto | intros _; discriminate].
        -- apply N.eqb_neq in Ey. split; [auto |]. intros [A | [A | []]]; [exact A | congruence].
  - destruct (N.eqb c v) eqn:Ev; [| discriminate]. inversion H; subst s'. apply N.eqb_eq in Ev. subst c. split.
    + intros sg. cbn. tauto.
    + intros y. cbn. tauto.
Qed.

Lemma bind_term_complete : forall t v s sg,
    sagrees s sg -> tv sg t = v -> exists s', bind_term t v s = Some s'.
Proof.
  intros [x | c] v s sg A H; cbn in *.
  - destruct (slookup x s) as [w |] eqn:E.
    + rewrite (A x w E) in H. subst w. rewrite N.eqb_refl. eauto.
    + eauto.
  - subst c. rewrite N.eqb_refl. eauto.
Qed.

Lemma inst_eq : forall sg a f, inst sg a = f <-> tv sg (a_s a) = f_s f /\ tv sg (a_p a) = f_p f /\ tv sg (a_o a) = f_o f.
Proof.
  intros sg a [[s p] o]. unfold inst, f_s, f_p, f_o. cbn [fst snd]. split.
  - intros H. inversion H. auto.
  - intros [-> [-> ->]]. reflexivity.
Qed.

Lemma match_atom_sound : forall a f s s',
    match_atom a f s = Some s' ->
    (forall sg, sagrees s' sg <-> sagrees s sg /\ inst sg a = f) /\
    (forall x, sdom s' x <-> sdom s x \/ In x (atom_vars a)).
Proof.
  intros a f s s' H. unfold match_atom in H.
  destruct (bind_term (a_s a) (f_s f) s) as [s1 |] eqn:E1; [| discriminate].
  destruct (bind_term (a_p a) (f_p f) s1) as [s2 |] eqn:E2; [| discriminate].
  destruct (bind_term_sound _ _ _ _ E1) as [A1 D1].
  destruct (bind_term_sound _ _ _ _ E2) as [A2 D2].
  destruct (bind_term_sound _ _ _ _ H) as [A3 D3].
  split.
  - intros sg. rewrite A3, A2, A1, inst_eq. tauto.
  - intros x. rewrite D3, D2, D1. unfold atom_vars. rewrite !in_app_iff. tauto.
Qed.

Lemma match_atom_complete : forall a f s sg,
    sagrees s sg -> inst sg a = f -> exists s', match_atom a f s = Some s'.
Proof.
  intros a f s sg A H. apply inst_eq in H. destruct H as [H1 [H2 H3]]. unfold match_atom.
  destruct (bind_term_complete _ _ _ _ A H1) as [s1 E1]. rewrite E1.
  destruct (bind_term_sound _ _ _ _ E1) as [A1 _].
  assert (B1 : sagrees s1 sg) by (apply A1; auto).
  destruct (bind_term_complete _ _ _ _ B1 H2) as [s2 E2]. rewrite E2.
  destruct (bind_term_sound _ _ _ _ E2) as [A2 _].
  assert (B2 : sagrees s2 sg) by (apply A2; auto).
  apply (bind_term_complete _ _ _ _ B2 H3).
Qed.

(* ---- exactness of the list of partial solutions ------------------------------------------------ *)
Definition sol (F : list fact) (done : list atom) (sg : subst) : Prop := forall a, In a done -> In (inst sg a) F.

Record exact (F : list fact) (subs : list sub) (done : list atom) : Prop := {
  ex_dom : forall s x, In s subs -> (sdom s x <-> In x (atoms_vars done));
  ex_sound : forall s sg, In s subs -> sagrees s sg -> sol F done sg;
  ex_complete : forall sg, sol F done sg -> exists s, In s subs /\ sagrees s sg
}.

Lemma olist_In : forall (A : Type) (o : option A) x, In x (olist o) <-> o = Some x.
Proof. intros A [y |] x; cbn; split; try tauto; try discriminate; [intros [-> | []]; reflexivity | intros H; inversion H; auto]. Qed.

Lemma extend_all_In : forall a F subs s',
    In s' (extend_all a F subs) <-> exists s f, In s subs /\ In f F /\ match_atom a f s = Some s'.
Proof.
  intros. unfold extend_all. rewrite in_flat_map. split.
  - intros [s [Hs H]]. apply in_flat_map in H. destruct H as [f [Hf H]]. apply olist_In in H. eauto.
  - intros [s [f [Hs [Hf H]]]]. exists s. split; [exact Hs |]. apply in_flat_map. exists f. split; [exact Hf |].
    apply olist_In. exact H.
Qed.

Lemma exact_init : forall F, exact F [[]] [].
Proof.
  intros F. split.
  - intros s x [<- | []]. unfold sdom. cbn. tauto.
  - intros s sg _ _ a [].
  - intros sg _. exists []. split; [left; reflexivity | apply sagrees_nil].
Qed.

Lemma exact_step : forall F subs done a, exact F subs done -> exact F (extend_all a F subs) (done ++ [a]).
Proof.
  intros F subs done a [D S Cm]. split.
  - intros s' x H. apply extend_all_In in H. destruct H as [s [f [Hs [Hf H]]]].
    destruct (match_atom_sound _ _ _ _ H) as [_ Dm]. rewrite Dm, (D s x Hs).
    unfold atoms_vars. rewrite flat_map_app, in_app_iff. cbn. rewrite app_nil_r. tauto.
  - intros s' sg H A b Hb. apply extend_all_In in H. destruct H as [s [f [Hs [Hf H]]]].
    destruct (match_atom_sound _ _ _ _ H) as [Am _]. apply Am in A. destruct A as [A1 A2].
    apply in_app_iff in Hb. destruct Hb as [Hb | [<- | []]].
    + apply (S s sg Hs A1 b Hb).
    + rewrite A2. exact Hf.
  - intros sg H.
    assert (H1 : sol F done sg) by (intros b Hb; apply H; apply in_app_iff; auto).
    destruct (Cm sg H1) as [s [Hs A]].
    assert (Hf : In (inst sg a) F) by (apply H; apply in_app_iff; right; left; reflexivity).
    destruct (match_atom_complete a (inst sg a) s sg A eq_refl) as [s' E].
    exists s'. split.
    + apply extend_all_In. eauto.
    + destruct (match_atom_sound _ _ _ _ E) as [Am _]. apply Am. auto.
Qed.

Lemma exact_fold : forall F prems subs done,
    exact F subs done -> exact F (fold_left (fun subs a => extend_all a F subs) prems subs) (done ++ prems).
Proof.
  intros F prems. induction prems as [|a prems IH]; intros subs done H; cbn.
  - rewrite app_nil_r. exact H.
  - replace (done ++ a :: prems) with ((done ++ [a]) ++ prems) by (rewrite <- app_assoc; reflexivity).
    apply IH. apply exact_step. exact H.
Qed.

Lemma solutions_exact : forall prems F, exact F (solutions prems F) prems.
Proof. intros. apply (exact_fold F prems [[]] []). apply exact_init. Qed.

(* ---- consequences, tp, least_model ------------------------------------------------------------- *)
Lemma consequences_spec : forall nv r F f,
    rr_rule r ->
    (In f (consequences nv r F) <->
     exists sg c, sol F (prem r) sg /\ filters_ok nv sg (filt r) = true /\ In c (concl r) /\ f = inst sg c).
Proof.
  intros nv r F f [RC RF]. destruct (solutions_exact (prem r) F) as [D S Cm].
  unfold consequences. rewrite in_flat_map. split.
  - intros [s [Hs H]]. destruct (filters_ok nv (sub_val s) (filt r)) eqn:E; [| destruct H].
    apply in_map_iff in H. destruct H as [c [<- Hc]].
    exists (sub_val s), c. split; [| auto]. apply (S s _ Hs). apply sagrees_sub_val.
  - intros [sg [c [Hsol [Hf [Hc ->]]]]]. destruct (Cm sg Hsol) as [s [Hs A]].
    assert (EQ : forall x, In x (atoms_vars (prem r)) -> sub_val s x = sg x).
    { intros x Hx. apply (D s x Hs) in Hx. unfold sdom in Hx. unfold sub_val.
      destruct (slookup x s) as [v |] eqn:E; [| congruence]. symmetry. apply A. exact E. }
    exists s. split; [exact Hs |].
    rewrite (filters_ok_ext nv (sub_val s) sg) by (intros x Hx; apply EQ; apply RF; exact Hx).
    rewrite Hf. apply in_map_iff. exists c. split; [| exact Hc].
    apply inst_ext. intros x Hx. apply EQ. apply (RC c x Hc Hx).
Qed.

Lemma tp_spec : forall nv P F f,
    (forall r, In r P -> rr_rule r) -> (In f (tp nv P F) <-> one_step nv P F f).
Proof.
  intros nv P F f HP. unfold tp, one_step. rewrite in_flat_map. split.
  - intros [r [Hr H]]. apply (consequences_spec nv r F f (HP r Hr)) in H.
    destruct H as [sg [c [H1 [H2 [H3 H4]]]]]. exists r, sg, c. auto.
  - intros [r [sg [c [Hr [H1 [H2 [H3 H4]]]]]]]. exists r. split; [exact Hr |].
    apply (consequences_spec nv r F f (HP r Hr)). exists sg, c. auto.
Qed.

Lemma least_model_inv : forall nv P F fuel G M,
    (forall r, In r P -> rr_rule r) ->
    (forall g, In g F -> In g G) -> (forall g, In g G -> derives nv P F g) ->
    least_model nv fuel P G = Some M ->
    forall f, In f M <-> derives nv P F f.
Proof.
  intros nv P F fuel. induction fuel as [|k IH]; intros G M HP HF HS H; cbn in H; [discriminate |].
  destruct (fresh G (tp nv P G)) as [|n new] eqn:E.
  - inversion H; subst M. apply least_model_char; [assumption | assumption |].
    intros g Hg. apply (tp_spec nv P G g HP) in Hg.
    destruct (In_fact_dec g G) as [Hin | Hnin]; [exact Hin |].
    assert (X : In g (fresh G (tp nv P G))) by (apply fresh_In; auto). rewrite E in X. destruct X.
  - apply (IH (G ++ n :: new) M HP); [| | exact H].
    + intros g Hg. apply in_app_iff. auto.
    + intros g Hg. apply in_app_iff in Hg. destruct Hg as [Hg | Hg]; [auto |].
      rewrite <- E in Hg. apply fresh_In in Hg. destruct Hg as [Hg _].
      apply (tp_spec nv P G g HP) in Hg. apply (derives_step nv P F G g HS Hg).
Qed.

Theorem least_model_correct : forall nv fuel P F M,
    (forall r, In r P -> rr_rule r) ->
    least_model nv fuel P F = Some M ->
    forall f, In f M <-> derives nv P F f.
Proof.
  intros nv fuel P F M HP H. apply (least_model_inv nv P F fuel F M HP); [auto | | exact H].
  intros g Hg. apply d_base. exact Hg.
Qed.
