(* Syntax shared by the specification (LeastModel.v) and the model (HashJoin.v, Strategies.v):
   triple patterns over variables and dictionary ids, rules (shared/src/rule.rs), filters, and a
   tiny association-list library (used for substitutions in the Spec and for binding rows in the model).

   Abstractions (stated once here, see notes/C05.md):
   - dictionary ids (u32) are unbounded N; the dictionary is a bijection between the strings and
     the ids that occur in the program and the facts (C15), so a binding row that maps a variable
     to a *string* (BTreeMap<String,String> in join_algorithm.rs) is modelled as a map to the id;
   - variable names are numbers (rendered "X<n>" for the real code); the engine's synthetic join
     variables "__const_subj_<c>" / "__const_obj_<c>" are separate constructors of [key] (HashJoin.v), so
     a rule variable can never collide with them;
   - quoted-triple terms (Term::QuotedTriple) are outside the model;
   - a filter compares a variable with an integer constant or with another variable (six operators).
     The numeric value of an id (its string parsed as f64, 0.0 if it does not parse) is the parameter
     [nv : N -> Z]: Spec and model use the same convention, a term that is not a number counts as 0
     (what the code does; the property's "numeric filters" are about terms that are numbers).  Between two
     variables = and != are identity of terms, the order operators compare the numeric values. *)
Require Export List NArith ZArith Bool Lia.
Export ListNotations.
Open Scope N_scope.

Definition name := N.
Inductive term := V (x : name) | C (c : N).
Definition atom := (term * term * term)%type.
Definition fact := (N * N * N)%type.

Definition a_s (a : atom) : term := fst (fst a).
Definition a_p (a : atom) : term := snd (fst a).
Definition a_o (a : atom) : term := snd a.
Definition f_s (f : fact) : N := fst (fst f).
Definition f_p (f : fact) : N := snd (fst f).
Definition f_o (f : fact) : N := snd f.

Inductive cmp := Gt | Lt | Ge | Le | Eq | Ne.
Inductive fcond :=
| FNum (x : name) (op : cmp) (z : Z)      (* FilterCondition{variable:x, operator:op, value:"<z>"} *)
| FVar (x : name) (op : cmp) (y : name).   (* FilterCondition{variable:x, operator:op, value: name of variable y} *)

Record rule := Rule {
  prem : list atom;       (* premise *)
  negp : list atom;       (* negative_premise *)
  filt : list fcond;     (* filters *)
  concl : list atom       (* conclusion *)
}.

Definition fact_eqb (f g : fact) : bool :=
  N.eqb (f_s f) (f_s g) && N.eqb (f_p f) (f_p g) && N.eqb (f_o f) (f_o g).
Definition mem (f : fact) (l : list fact) : bool := existsb (fact_eqb f) l.
(* HashSet<Triple>::insert on a list without repetition (insertion order kept) *)
Definition set_add (f : fact) (l : list fact) : list fact := if mem f l then l else l ++ [f].

Definition cmp_num (op : cmp) (a b : Z) : bool :=
  match op with
  | Gt => Z.ltb b a | Lt => Z.ltb a b | Ge => Z.leb b a | Le => Z.leb a b
  | Eq => Z.eqb a b | Ne => negb (Z.eqb a b)
  end.

Definition term_vars (t : term) : list name := match t with V x => [x] | C _ => [] end.
Definition atom_vars (a : atom) : list name := term_vars (a_s a) ++ term_vars (a_p a) ++ term_vars (a_o a).
Definition atoms_vars (l : list atom) : list name := flat_map atom_vars l.
Definition filter_vars (f : fcond) : list name :=
  match f with FNum x _ _ => [x] | FVar x _ y => [x; y] end.
Definition nmem (x : name) (l : list name) : bool := existsb (N.eqb x) l.

(* A rule is safe when it has at least one premise and every variable of its conclusions, filters
   and negated atoms occurs in a premise (the property quantifies over safe rule sets with 1..n premises). *)
Definition safe_rule (r : rule) : bool :=
  negb (match prem r with [] => true | _ => false end) &&
  forallb (fun x => nmem x (atoms_vars (prem r)))
          (atoms_vars (concl r) ++ flat_map filter_vars (filt r) ++ atoms_vars (negp r)).
Definition safe (P : list rule) : bool := forallb safe_rule P.
Definition positive (P : list rule) : bool := forallb (fun r => match negp r with [] => true | _ => false end) P.

(* ---- association lists: [lookup] returns the first entry, [insert] shadows ---------------- *)
Section Assoc.
  Context {K : Type} (keqb : K -> K -> bool).
  Fixpoint lookup (k : K) (r : list (K * N)) : option N :=
    match r with
    | [] => None
    | (k', v) :: r' => if keqb k k' then Some v else lookup k r'
    end.
  Definition insert (k : K) (v : N) (r : list (K * N)) : list (K * N) := (k, v) :: r.
End Assoc.
