(* The provenance strategy (Boolean tags) on programs with one stratum of negation: outside the class
   known_C05_neg_feed its single negative pass yields the stratified model. *)
Require Import KV.Datalog.Syntax KV.Datalog.LeastModel KV.Datalog.Stratified KV.Datalog.BasicLemmas KV.Datalog.LeastModelProofs KV.Datalog.StratifiedProofs.
Require Import KV.Datalog.HashJoin KV.Datalog.NestedJoin KV.Datalog.HashJoinProofs KV.Datalog.JoinSemantics.
Require Import KV.Datalog.Strategies KV.Datalog.Classes KV.Datalog.RoundProofs KV.Datalog.DriverProofs KV.Datalog.MainProofs.

(* ---- a generic "for every row that passes the test, insert the unknown conclusions" fold -------- *)
Definition gfold (test : row -> bool) (cs : list atom) (known : list fact) (rows : list row) (acc : list fact) : list fact :=
  fold_left (fun acc row => if test row then collect known (map (row_inst row) cs) acc else acc) rows acc.

Lemma gfold_In : forall test cs known rows acc f,
    In f (gfold test cs known rows acc) <->
    In f acc \/ (~ In f known /\ exists row c, In row rows /\ test row = true /\ In c cs /\ f = row_inst row c).
Proof.
  intros test cs known rows. unfold gfold. induction rows as [|row rows IH]; intros acc f; cbn.
  - split; [auto | intros [H | [_ [row [c [[] _]]]]]; exact H].
  - rewrite IH. destruct (test row) eqn:E.
    + rewrite collect_In, in_map_iff. split.
      * intros [[H | [[c [Hc1 Hc2]] Hk]] | [Hk [row' [c [Hr H]]]]].
        -- auto.
        -- right. split; [exact Hk |]. exists row, c. auto.
        -- right. split; [exact Hk |]. exists row', c. destruct H as [H1 [H2 H3]]. auto.
      * intros [H | [Hk [row' [c [[<- | Hr] [H1 [H2 H3]]]]]]].
        -- auto.
        -- left. right. split; [exists c; auto | exact Hk].
        -- right. split; [exact Hk |]. exists row', c. auto.
    + split.
      * intros [H | [Hk [row' [c [Hr H]]]]]; [auto |]. right. split; [exact Hk |]. exists row', c. destruct H as [H1 [H2 H3]]. auto.
      * intros [H | [Hk [row' [c [[<- | Hr] [H1 [H2 H3]]]]]]]; [auto | congruence |]. right. split; [exact Hk |]. exists row', c. auto.
Qed.

Lemma gfold_NoDup : forall test cs known rows acc, NoDup acc -> NoDup (gfold test cs known rows acc).
Proof.
  intros test cs known rows. unfold gfold. induction rows as [|row rows IH]; intros acc H; cbn; [exact H |].
  apply IH. destruct (test row); [apply collect_NoDup; exact H | exact H].
Qed.

Lemma fold_left_ext : forall (A B : Type) (f g : A -> B -> A) l a,
    (forall a b, f a b = g a b) -> fold_left f l a = fold_left g l a.
Proof. intros A B f g l. induction l as [|b l IH]; intros a H; cbn; [reflexivity |]. rewrite H. apply IH. exact H. Qed.

(* the inner loops of run_negative_stratum_pass are this fold *)
Lemma neg_inner : forall all row cs derived,
    fold_left (fun derived c => let f := row_inst row c in if mem f all || mem f derived then derived else derived ++ [f]) cs derived =
    collect all (map (row_inst row) cs) derived.
Proof.
  intros all row cs. induction cs as [|c cs IH]; intros derived; cbn; [reflexivity |]. rewrite IH. f_equal.
  unfold set_add. destruct (mem (row_inst row c) all); cbn; [reflexivity |]. destruct (mem (row_inst row c) derived); reflexivity.
Qed.

Definition neg_test (nv : N -> Z) (all : list fact) (r : rule) (row : row) : bool :=
  eval_filters nv row (filt r) && neg_ok row all (negp r).

Lemma neg_pass_gfold : forall nv negrules all,
    neg_pass nv negrules all =
    fold_left (fun derived r => gfold (neg_test nv all r) (concl r) all (join_all (prem r) all [[]]) derived) negrules [].
Proof.
  intros nv negrules all. unfold neg_pass. apply fold_left_ext. intros derived r. unfold gfold.
  apply fold_left_ext. intros d row. unfold neg_test. destruct (eval_filters nv row (filt r) && neg_ok row all (negp r)); [| reflexivity].
  apply neg_inner.
Qed.

Lemma neg_pass_In : forall nv negrules all f,
    In f (neg_pass nv negrules all) <->
    ~ In f all /\ exists r row c, In r negrules /\ In row (join_all (prem r) all [[]]) /\ neg_test nv all r row = true /\
                                  In c (concl r) /\ f = row_inst row c.
Proof.
  intros nv negrules all f. rewrite neg_pass_gfold.
  assert (G : forall acc, In f (fold_left (fun derived r => gfold (neg_test nv all r) (concl r) all (join_all (prem r) all [[]]) derived) negrules acc)
                          <-> In f acc \/ (~ In f all /\ exists r row c, In r negrules /\ In row (join_all (prem r) all [[]]) /\ neg_test nv all r row = true /\ In c (concl r) /\ f = row_inst row c)).
  { induction negrules as [|r rs IH]; intros acc; cbn [fold_left].
    - split; [auto | intros [H | [_ [r [row [c [[] _]]]]]]; exact H].
    - rewrite IH, gfold_In. split.
      + intros [[H | [Hk [row [c H]]]] | [Hk [r' [row [c [Hr H]]]]]].
        * auto.
        * right. split; [exact Hk |]. exists r, row, c. cbn. tauto.
        * right. split; [exact Hk |]. exists r', row, c. cbn. tauto.
      + intros [H | [Hk [r' [row [c [[<- | Hr] H]]]]]].
        * auto.
        * left. right. split; [exact Hk |]. exists row, c. exact H.
        * right. split; [exact Hk |]. exists r', row, c. tauto. }
  rewrite G. cbn [In]. tauto.
Qed.

Lemma neg_pass_NoDup : forall nv negrules all, NoDup (neg_pass nv negrules all).
Proof.
  intros nv negrules all. rewrite neg_pass_gfold.
  assert (G : forall acc, NoDup acc -> NoDup (fold_left (fun derived r => gfold (neg_test nv all r) (concl r) all (join_all (prem r) all [[]]) derived) negrules acc)).
  { induction negrules as [|r rs IH]; intros acc H; cbn [fold_left]; [exact H |]. apply IH. apply gfold_NoDup. exact H. }
  apply G. constructor.
Qed.

(* ---- rows against substitutions, with an extra test ------------------------------------------------ *)
Lemma rows_fire_gen : forall (cs : list atom) rows done f (rp : row -> bool) (sp : subst -> bool),
    exactM rows done ->
    (forall c x, In c cs -> In x (atom_vars c) -> In x (atoms_vars (map fst done))) ->
    (forall row, In row rows -> rp row = sp (row_val row)) ->
    (forall s1 s2, (forall x, In x (atoms_vars (map fst done)) -> s1 x = s2 x) -> sp s1 = sp s2) ->
    ((exists row c, In row rows /\ rp row = true /\ In c cs /\ f = row_inst row c) <->
     (exists sg c, psol done sg /\ sp sg = true /\ In c cs /\ f = inst sg c)).
Proof.
  intros cs rows done f rp sp [Hh OK D S Cm] RC Hrp Hsp. split.
  - intros [row [c [Hr [Hf [Hc ->]]]]]. exists (row_val row), c.
    split; [apply (S row _ Hr (ragrees_row_val row)) |]. split; [rewrite <- (Hrp row Hr); exact Hf |].
    split; [exact Hc | apply row_inst_val].
  - intros [sg [c [Hs [Hf [Hc ->]]]]]. destruct (Cm sg Hs) as [row [Hr A]].
    assert (EQ : forall x, In x (atoms_vars (map fst done)) -> row_val row x = sg x).
    { intros x Hx. apply (D row x Hr) in Hx. destruct (bound_true _ _ Hx) as [v Ev].
      unfold row_val. rewrite Ev. symmetry. apply A. exact Ev. }
    exists row, c. split; [exact Hr |]. split; [rewrite (Hrp row Hr), (Hsp (row_val row) sg EQ); exact Hf |].
    split; [exact Hc |]. rewrite row_inst_val. symmetry. apply inst_ext. intros x Hx. apply EQ. apply (RC c x Hc Hx).
Qed.

Lemma row_resolve_val : forall r t, (forall x, In x (term_vars t) -> bound (KV x) r = true) -> row_resolve r t = Some (tv (row_val r) t).
Proof.
  intros r [x | c] H; cbn; [| reflexivity].
  destruct (bound_true _ _ (H x (or_introl eq_refl))) as [v Ev]. unfold row_val. rewrite Ev. reflexivity.
Qed.

Lemma neg_ok_val : forall r all negs,
    (forall x, In x (atoms_vars negs) -> bound (KV x) r = true) -> neg_ok r all negs = negs_ok all (row_val r) negs.
Proof.
  intros r all negs. unfold neg_ok, negs_ok. induction negs as [|n negs IH]; intros H; cbn; [reflexivity |].
  unfold atoms_vars in H. cbn in H.
  rewrite !row_resolve_val by (intros x Hx; apply H; unfold atom_vars; rewrite !in_app_iff; auto).
  rewrite IH by (intros x Hx; apply H; rewrite in_app_iff; auto). reflexivity.
Qed.

(* ---- compatibility of atoms with a common instance ------------------------------------------------ *)
Lemma term_compat_inst : forall s1 s2 t u, tv s1 t = tv s2 u -> term_compat t u = true.
Proof. intros s1 s2 [x | a] [y | b] H; cbn in *; try reflexivity. apply N.eqb_eq. exact H. Qed.

Lemma atom_compat_inst : forall s1 s2 c a, inst s1 c = inst s2 a -> atom_compat c a = true.
Proof.
  intros s1 s2 c a H. unfold inst in H. inversion H. unfold atom_compat.
  rewrite (term_compat_inst s1 s2 _ _ H1), (term_compat_inst s1 s2 _ _ H2), (term_compat_inst s1 s2 _ _ H3). reflexivity.
Qed.

Lemma no_neg_same : no_neg = no_negs.
Proof. reflexivity. Qed.

Lemma derives_pos_sderives : forall nv P F (M0 : fact -> Prop) f, derives nv (pos_rules P) F f -> sderives nv P F M0 f.
Proof.
  intros nv P F M0 f H. induction H as [f Hf | r sg c Hr Hp IH Hfl Hc]; [apply sd_base; exact Hf |].
  unfold pos_rules in Hr. apply filter_In in Hr. destruct Hr as [Hr Hn]. unfold no_negs in Hn.
  eapply sd_rule; eauto. intros n Hin. destruct (negp r); [destruct Hin | discriminate].
Qed.

Section NegProv.
  Variables (nv : N -> Z) (P : list rule) (F : list fact).
  Hypothesis HS : safe P = true.
  Hypothesis HK : known_C05_neg_feed P = false.

  Let negrules := filter (fun r => negb (no_neg r)) P.

  Lemma safe_pos : safe (filter no_neg P) = true.
  Proof. unfold safe in *. rewrite forallb_forall in *. intros r Hr. apply HS. apply filter_In in Hr. tauto. Qed.

  (* a fact produced by the negative pass is not an instance of any premise *)
  Lemma no_feed : forall r1 c r2 a s1 s2,
      In r1 P -> no_neg r1 = false -> In c (concl r1) -> In r2 P -> In a (prem r2) -> inst s1 c <> inst s2 a.
  Proof.
    intros r1 c r2 a s1 s2 H1 Hn Hc H2 Ha E. apply atom_compat_inst in E.
    assert (X : known_C05_neg_feed P = true).
    { unfold known_C05_neg_feed. apply existsb_exists. exists r1. split; [exact H1 |]. apply andb_true_iff. split.
      - unfold has_neg. unfold no_neg in Hn. destruct (negp r1); [discriminate | reflexivity].
      - apply existsb_exists. exists c. split; [exact Hc |]. apply existsb_exists. exists r2. split; [exact H2 |].
        apply existsb_exists. exists a. split; [apply in_app_iff; auto | exact E]. }
    congruence.
  Qed.

  (* the negative pass, through substitutions *)
  Lemma neg_pass_spec : forall all f,
      In f (neg_pass nv negrules all) <->
      ~ In f all /\ exists r sg c, In r P /\ no_neg r = false /\ (forall a, In a (prem r) -> In (inst sg a) all) /\
                                   filters_ok nv sg (filt r) = true /\ (forall n, In n (negp r) -> ~ In (inst sg n) all) /\
                                   In c (concl r) /\ f = inst sg c.
  Proof.
    intros all f. rewrite neg_pass_In.
    assert (FIRE : forall r, In r P ->
               ((exists row c, In row (join_all (prem r) all [[]]) /\ neg_test nv all r row = true /\ In c (concl r) /\ f = row_inst row c) <->
                (exists sg c, psol (with_facts all (prem r)) sg /\
                              filters_ok nv sg (filt r) && negs_ok all sg (negp r) = true /\ In c (concl r) /\ f = inst sg c))).
    { intros r Hr. destruct (safe_rule_spec r (safe_In P r HS Hr)) as [Hne [RC RF]].
      pose proof (safe_rr_neg P HS r Hr) as RN.
      pose proof (join_all_exact (prem r) all [[]] [] exactM_init) as EX. cbn [app] in EX.
      apply (rows_fire_gen (concl r) _ _ f (neg_test nv all r) (fun sg => filters_ok nv sg (filt r) && negs_ok all sg (negp r)) EX).
      - rewrite map_fst_with_facts. exact RC.
      - intros row Hrow. unfold neg_test. destruct EX as [_ _ D _ _]. rewrite map_fst_with_facts in D.
        rewrite eval_filters_val by (intros x Hx; apply (D row x Hrow); apply RF; exact Hx).
        rewrite neg_ok_val by (intros x Hx; apply (D row x Hrow); apply RN; exact Hx). reflexivity.
      - intros s1 s2 Heq. rewrite map_fst_with_facts in Heq.
        rewrite (filters_ok_ext nv s1 s2) by (intros x Hx; apply Heq; apply RF; exact Hx).
        rewrite (negs_ok_ext all s1 s2) by (intros x Hx; apply Heq; apply RN; exact Hx). reflexivity. }
    split.
    - intros [Hk [r [row [c [Hr H]]]]]. split; [exact Hk |]. unfold negrules in Hr. apply filter_In in Hr. destruct Hr as [Hr Hn].
      apply negb_true_iff in Hn.
      destruct (proj1 (FIRE r Hr)) as [sg [c' [Hs [Ht [Hc' E]]]]]; [exists row, c; exact H |].
      apply andb_true_iff in Ht. destruct Ht as [T1 T2]. rewrite negs_ok_spec in T2. rewrite psol_with_facts in Hs.
      exists r, sg, c'. auto 8.
    - intros [Hk [r [sg [c [Hr [Hn [Hp [Hf [Hng [Hc E]]]]]]]]]]. split; [exact Hk |].
      destruct (proj2 (FIRE r Hr)) as [row [c' [Hrow H]]].
      { exists sg, c. split; [apply psol_with_facts; exact Hp |]. split; [| auto].
        apply andb_true_iff. split; [exact Hf | apply negs_ok_spec; exact Hng]. }
      exists r, row, c'. split; [| split; [exact Hrow | exact H]].
      unfold negrules. apply filter_In. split; [exact Hr | rewrite Hn; reflexivity].
  Qed.

  Theorem prov_neg_correct : forall fuel all new,
      prov_bool_run nv fuel P F = Some (all, new) ->
      (forall f, In f all <-> stratified_model nv P F f) /\
      (forall f, In f new <-> stratified_model nv P F f /\ ~ In f F) /\ NoDup new.
  Proof.
    intros fuel all new H. unfold prov_bool_run in H.
    destruct (infer_with_strategy (semi_round nv (filter no_neg P)) fuel 0%nat F) as [[all0 new0] |] eqn:E0; [| discriminate].
    destruct (semi_correct nv (filter no_neg P) F safe_pos fuel all0 new0 E0) as [A0 [N0 ND0]].
    rewrite no_neg_same in A0, N0. fold (pos_rules P) in A0, N0.
    set (d := neg_pass nv negrules all0).
    assert (RES : all = all0 ++ d /\ new = new0 ++ d).
    { fold negrules in H. unfold d. destruct negrules as [|r0 rs] eqn:En.
      - inversion H; subst. cbn. rewrite !app_nil_r. auto.
      - inversion H; subst. auto. }
    destruct RES as [-> ->]. clear H.
    pose proof (fun f => neg_pass_spec all0 f) as DS. fold d in DS.
    assert (HF0 : forall g, In g F -> In g all0) by (intros g Hg; apply A0; apply d_base; exact Hg).
    assert (M : forall f, In f (all0 ++ d) <-> stratified_model nv P F f).
    { intros f. unfold stratified_model. split.
      - intros Hf. apply in_app_iff in Hf. destruct Hf as [Hf | Hf].
        + apply derives_pos_sderives. apply A0. exact Hf.
        + apply DS in Hf. destruct Hf as [_ [r [sg [c [Hr [Hn [Hp [Hfl [Hng [Hc ->]]]]]]]]]].
          eapply sd_rule; eauto.
          * intros a Ha. apply derives_pos_sderives. apply A0. apply Hp. exact Ha.
          * intros n Hin HM. apply (Hng n Hin). apply A0. exact HM.
      - apply sderives_least; [intros g Hg; apply in_app_iff; left; apply HF0; exact Hg |].
        intros g [r [sg [c [Hr [Hp [Hfl [Hng [Hc ->]]]]]]]].
        assert (Hp0 : forall a, In a (prem r) -> In (inst sg a) all0).
        { intros a Ha. pose proof (Hp a Ha) as Hin. apply in_app_iff in Hin. destruct Hin as [Hin | Hin]; [exact Hin |].
          apply DS in Hin. destruct Hin as [_ [r1 [s1 [c1 [Hr1 [Hn1 [_ [_ [_ [Hc1 E]]]]]]]]]].
          exfalso. apply (no_feed r1 c1 r a s1 sg Hr1 Hn1 Hc1 Hr Ha). symmetry. exact E. }
        apply in_app_iff. destruct (no_neg r) eqn:Hn.
        + left. apply (model_closed nv (pos_rules P) F all0 _ A0). exists r, sg, c.
          split; [unfold pos_rules; apply filter_In; split; [exact Hr | rewrite <- no_neg_same; exact Hn] | auto].
        + destruct (In_fact_dec (inst sg c) all0) as [Hin | Hnin]; [auto | right].
          apply DS. split; [exact Hnin |]. exists r, sg, c. split; [exact Hr |]. split; [exact Hn |]. split; [exact Hp0 |].
          split; [exact Hfl |]. split; [| auto]. intros n Hin HM. apply (Hng n Hin). apply A0. exact HM. }
    split; [exact M |]. split.
    - intros f. rewrite in_app_iff, N0. split.
      + intros [[Hd Hn] | Hd].
        * split; [apply M; apply in_app_iff; left; apply A0; exact Hd | exact Hn].
        * split; [apply M; apply in_app_iff; auto |]. apply DS in Hd. destruct Hd as [Hk _]. intros HF. apply Hk. apply HF0. exact HF.
      + intros [Hm Hn]. apply M in Hm. apply in_app_iff in Hm. destruct Hm as [Hm | Hm]; [left | right; exact Hm].
        split; [apply A0; exact Hm | exact Hn].
    - apply NoDup_app_iff_local; [exact ND0 | apply neg_pass_NoDup |].
      intros x Hx Hx'. apply DS in Hx'. destruct Hx' as [Hk _]. apply Hk. apply A0. apply N0 in Hx. tauto.
  Qed.
End NegProv.
