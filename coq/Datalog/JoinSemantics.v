(* What the (bucketed = nested) join means: starting from the empty row and joining the premises one
   after the other, each against its own list of facts, yields a homogeneous list of rows that
   represents exactly the substitutions sending every premise into its fact list. *)
Require Import KV.Datalog.Syntax KV.Datalog.LeastModel KV.Datalog.BasicLemmas KV.Datalog.LeastModelProofs.
Require Import KV.Datalog.HashJoin KV.Datalog.NestedJoin KV.Datalog.HashJoinProofs.

Definition ragrees (r : row) (sg : subst) : Prop := forall x v, rget (KV x) r = Some v -> sg x = v.
Definition row_ok (r : row) : Prop :=
  (forall c v, rget (KS c) r = Some v -> v = c) /\ (forall c v, rget (KO c) r = Some v -> v = c).
Definition req (r1 r2 : row) : Prop := forall k, rget k r1 = rget k r2.

Lemma rget_rins : forall k k' v r, rget k (rins k' v r) = if key_eqb k k' then Some v else rget k r.
Proof. reflexivity. Qed.

Lemma bound_rins : forall k k' v r, bound k (rins k' v r) = key_eqb k k' || bound k r.
Proof. intros. unfold bound. rewrite rget_rins. destruct (key_eqb k k'); reflexivity. Qed.

Lemma req_refl : forall r, req r r.
Proof. intros r k. reflexivity. Qed.
Lemma req_rins : forall k v r1 r2, req r1 r2 -> req (rins k v r1) (rins k v r2).
Proof. intros k v r1 r2 H k'. rewrite !rget_rins. rewrite (H k'). reflexivity. Qed.
Lemma req_ragrees : forall r1 r2 sg, req r1 r2 -> (ragrees r1 sg <-> ragrees r2 sg).
Proof. intros r1 r2 sg H. unfold ragrees. split; intros A x v Hx; apply A; [rewrite (H (KV x)) | rewrite <- (H (KV x))]; exact Hx. Qed.
Lemma req_row_ok : forall r1 r2, req r1 r2 -> row_ok r2 -> row_ok r1.
Proof. intros r1 r2 H [A B]. split; intros c v Hc; [apply A | apply B]; rewrite <- (H _); exact Hc. Qed.
Lemma req_bound : forall r1 r2 k, req r1 r2 -> bound k r1 = bound k r2.
Proof. intros r1 r2 k H. unfold bound. rewrite (H k). reflexivity. Qed.

(* ---- one position ------------------------------------------------------------------------------- *)
Definition pos_step (k : key) (v : N) (r : row) : option row :=
  match rget k r with
  | Some w => if N.eqb w v then Some r else None
  | None => Some (rins k v r)
  end.

(* the key that stands for a term in a row *)
Definition tkey_ok (t : term) (k : key) : Prop :=
  match t with V x => k = KV x | C c => k = KS c \/ k = KO c end.

Lemma tkey_get : forall r sg t k w,
    row_ok r -> ragrees r sg -> tkey_ok t k -> rget k r = Some w -> tv sg t = w.
Proof.
  intros r sg [x | c] k w [OS OO] A Hk Hg; cbn in *.
  - subst k. apply A. exact Hg.
  - destruct Hk as [-> | ->]; symmetry; [apply (OS c w Hg) | apply (OO c w Hg)].
Qed.

Lemma pos_step_sound : forall t k v r r',
    row_ok r -> tkey_ok t k -> (forall c, t = C c -> v = c) ->
    pos_step k v r = Some r' ->
    row_ok r' /\ (forall sg, ragrees r' sg <-> ragrees r sg /\ tv sg t = v) /\
    (forall k', bound k' r' = key_eqb k' k || bound k' r).
Proof.
  intros t k v r r' OK Hk Hc H. unfold pos_step in H. destruct (rget k r) as [w |] eqn:E.
  - destruct (N.eqb w v) eqn:Ev; [| discriminate]. inversion H; subst r'. apply N.eqb_eq in Ev. subst w.
    split; [exact OK |]. split.
    + intros sg. split; [| tauto]. intros A. split; [exact A |]. apply (tkey_get r sg t k v OK A Hk E).
    + intros k'. destruct (key_eqb k' k) eqn:Ek; [| reflexivity]. apply key_eqb_eq in Ek. subst k'.
      unfold bound. rewrite E. reflexivity.
  - inversion H; subst r'. split; [| split].
    + destruct OK as [OS OO]. split; intros c w; rewrite rget_rins.
      * destruct (key_eqb (KS c) k) eqn:Ek; [| apply OS]. apply key_eqb_eq in Ek. subst k.
        intros Hw. inversion Hw; subst w. destruct t as [x | c']; cbn in Hk.
        -- discriminate.
        -- destruct Hk as [Hk | Hk]; inversion Hk; subst c'. apply Hc. reflexivity.
      * destruct (key_eqb (KO c) k) eqn:Ek; [| apply OO]. apply key_eqb_eq in Ek. subst k.
        intros Hw. inversion Hw; subst w. destruct t as [x | c']; cbn in Hk.
        -- discriminate.
        -- destruct Hk as [Hk | Hk]; inversion Hk; subst c'. apply Hc. reflexivity.
    + intros sg. destruct t as [x | c]; cbn in Hk.
      * subst k. cbn [tv]. split.
        -- intros A. split.
           ++ intros y w Hy. apply A. rewrite rget_rins. destruct (key_eqb (KV y) (KV x)) eqn:Ey; [| exact Hy].
              apply key_eqb_eq in Ey. inversion Ey; subst y. congruence.
           ++ apply A. rewrite rget_rins, key_eqb_refl. reflexivity.
        -- intros [A B] y w. rewrite rget_rins. destruct (key_eqb (KV y) (KV x)) eqn:Ey.
           ++ apply key_eqb_eq in Ey. inversion Ey; subst y. intros Hw. inversion Hw; subst w. exact B.
           ++ apply A.
      * cbn [tv]. rewrite (Hc c eq_refl). split.
        -- intros A. split; [| reflexivity]. intros y w Hy. apply A. rewrite rget_rins.
           destruct (key_eqb (KV y) k) eqn:Ey; [| exact Hy]. apply key_eqb_eq in Ey. subst k. destruct Hk; discriminate.
        -- intros [A _] y w. rewrite rget_rins.
           destruct (key_eqb (KV y) k) eqn:Ey; [| apply A]. apply key_eqb_eq in Ey. subst k. destruct Hk; discriminate.
    + intros k'. apply bound_rins.
Qed.

Lemma pos_step_complete : forall t k v r sg,
    row_ok r -> ragrees r sg -> tkey_ok t k -> tv sg t = v -> exists r', pos_step k v r = Some r'.
Proof.
  intros t k v r sg OK A Hk Hv. unfold pos_step. destruct (rget k r) as [w |] eqn:E; [| eauto].
  rewrite <- (tkey_get r sg t k w OK A Hk E), Hv, N.eqb_refl. eauto.
Qed.

Lemma pos_step_req : forall k v r1 r2, req r1 r2 ->
    match pos_step k v r1, pos_step k v r2 with
    | Some a, Some b => req a b
    | None, None => True
    | _, _ => False
    end.
Proof.
  intros k v r1 r2 H. unfold pos_step. rewrite (H k). destruct (rget k r2) as [w |].
  - destruct (N.eqb w v); [exact H | exact I].
  - apply req_rins. exact H.
Qed.

(* ---- a premise = three positions ---------------------------------------------------------------- *)
Definition obind {A B} (o : option A) (f : A -> option B) : option B := match o with Some x => f x | None => None end.

Definition chain (a : atom) (r : row) (t : fact) : option row :=
  if prefilter a t then
    obind (pos_step (skey a) (f_s t) r) (fun r1 =>
    obind (pos_step (okey a) (f_o t) r1) (fun r2 =>
    bind_predicate r2 (pred_var a) (f_p t)))
  else None.

Definition akeys (a : atom) : list key :=
  [skey a; okey a] ++ match pred_var a with Some v => [KV v] | None => [] end.
Definition in_keys (k : key) (l : list key) : bool := existsb (key_eqb k) l.

Lemma skey_ok : forall a, tkey_ok (a_s a) (skey a).
Proof. intros a. unfold skey. destruct (a_s a); cbn; auto. Qed.
Lemma okey_ok : forall a, tkey_ok (a_o a) (okey a).
Proof. intros a. unfold okey. destruct (a_o a); cbn; auto. Qed.

Lemma opt_is_true : forall t v, opt_is (const_of t) v = true <-> (forall c, t = C c -> v = c).
Proof.
  intros [x | c] v; cbn.
  - split; [intros _ c H; discriminate | reflexivity].
  - rewrite N.eqb_eq. split; [intros -> c' H; inversion H; reflexivity | intros H; apply H; reflexivity].
Qed.

Lemma prefilter_spec : forall a t,
    prefilter a t = true <->
    (forall c, a_p a = C c -> f_p t = c) /\ (forall c, a_s a = C c -> f_s t = c) /\ (forall c, a_o a = C c -> f_o t = c) /\
    (same_so_var a = true -> f_s t = f_o t).
Proof.
  intros a t. unfold prefilter. rewrite !andb_true_iff, !opt_is_true, orb_true_iff, negb_true_iff, N.eqb_eq.
  destruct (same_so_var a); intuition congruence.
Qed.

Lemma bind_predicate_pos : forall r pv pid,
    bind_predicate r pv pid = match pv with None => Some r | Some v => pos_step (KV v) pid r end.
Proof. intros r [v |] pid; reflexivity. Qed.

Lemma chain_sound : forall a r t r',
    row_ok r -> chain a r t = Some r' ->
    row_ok r' /\ (forall sg, ragrees r' sg <-> ragrees r sg /\ inst sg a = t) /\
    (forall k, bound k r' = in_keys k (akeys a) || bound k r).
Proof.
  intros a r t r' OK H. unfold chain in H. destruct (prefilter a t) eqn:Hp; [| discriminate].
  apply prefilter_spec in Hp. destruct Hp as [Pp [Ps [Po _]]].
  destruct (pos_step (skey a) (f_s t) r) as [r1 |] eqn:E1; [| discriminate]. cbn [obind] in H.
  destruct (pos_step (okey a) (f_o t) r1) as [r2 |] eqn:E2; [| discriminate]. cbn [obind] in H.
  destruct (pos_step_sound (a_s a) _ _ _ _ OK (skey_ok a) Ps E1) as [OK1 [A1 B1]].
  destruct (pos_step_sound (a_o a) _ _ _ _ OK1 (okey_ok a) Po E2) as [OK2 [A2 B2]].
  rewrite bind_predicate_pos in H. unfold akeys, pred_var in *. destruct (a_p a) as [v | c] eqn:Ep.
  - destruct (pos_step_sound (V v) (KV v) (f_p t) r2 r' OK2 eq_refl) as [OK3 [A3 B3]]; [intros c Hc; discriminate | exact H |].
    split; [exact OK3 |]. split.
    + intros sg. rewrite A3, A2, A1, inst_eq, Ep. tauto.
    + intros k. rewrite B3, B2, B1. unfold in_keys. cbn. destruct (key_eqb k (skey a)), (key_eqb k (okey a)), (key_eqb k (KV v)); reflexivity.
  - inversion H; subst r'. split; [exact OK2 |]. split.
    + intros sg. rewrite A2, A1, inst_eq, Ep. cbn [tv]. rewrite (Pp c eq_refl). tauto.
    + intros k. rewrite B2, B1. unfold in_keys. cbn. destruct (key_eqb k (skey a)), (key_eqb k (okey a)); reflexivity.
Qed.

Lemma chain_complete : forall a r t sg,
    row_ok r -> ragrees r sg -> inst sg a = t -> exists r', chain a r t = Some r'.
Proof.
  intros a r t sg OK A H. apply inst_eq in H. destruct H as [Hs [Hp Ho]].
  assert (Pre : prefilter a t = true).
  { apply prefilter_spec. repeat split.
    - intros c Hc. rewrite Hc in Hp. cbn in Hp. auto.
    - intros c Hc. rewrite Hc in Hs. cbn in Hs. auto.
    - intros c Hc. rewrite Hc in Ho. cbn in Ho. auto.
    - unfold same_so_var. destruct (a_s a) as [x |]; [| discriminate]. destruct (a_o a) as [y |]; [| discriminate].
      intros E. apply N.eqb_eq in E. subst y. cbn in Hs, Ho. congruence. }
  apply prefilter_spec in Pre as Pre'. destruct Pre' as [Pp [Ps [Po _]]].
  unfold chain. rewrite Pre.
  destruct (pos_step_complete (a_s a) (skey a) (f_s t) r sg OK A (skey_ok a) Hs) as [r1 E1]. rewrite E1. cbn [obind].
  destruct (pos_step_sound (a_s a) _ _ _ _ OK (skey_ok a) Ps E1) as [OK1 [A1 _]].
  assert (Ag1 : ragrees r1 sg) by (apply A1; auto).
  destruct (pos_step_complete (a_o a) (okey a) (f_o t) r1 sg OK1 Ag1 (okey_ok a) Ho) as [r2 E2]. rewrite E2. cbn [obind].
  destruct (pos_step_sound (a_o a) _ _ _ _ OK1 (okey_ok a) Po E2) as [OK2 [A2 _]].
  assert (Ag2 : ragrees r2 sg) by (apply A2; auto).
  rewrite bind_predicate_pos. unfold pred_var. destruct (a_p a) as [v | c] eqn:Ep; [| eauto].
  apply (pos_step_complete (V v) (KV v) (f_p t) r2 sg OK2 Ag2 eq_refl). exact Hp.
Qed.

(* ---- [extend] (the code's per-row cases) is [chain] up to shadowed entries -------------------------- *)
Definition orel (o1 o2 : option row) : Prop :=
  match o1, o2 with Some a, Some b => req a b | None, None => True | _, _ => False end.

Lemma bind_predicate_req : forall r1 r2 pv pid, req r1 r2 -> orel (bind_predicate r1 pv pid) (bind_predicate r2 pv pid).
Proof.
  intros r1 r2 pv pid H. rewrite !bind_predicate_pos. destruct pv as [v |]; [| exact H].
  apply (pos_step_req (KV v) pid r1 r2 H).
Qed.

Lemma orel_refl : forall o, orel o o.
Proof. intros [r |]; cbn; [apply req_refl | exact I]. Qed.

Lemma skey_okey_eq : forall a, skey a = okey a -> same_so_var a = true.
Proof.
  intros a. unfold skey, okey, same_so_var. destruct (a_s a), (a_o a); intros H; try discriminate.
  inversion H. apply N.eqb_refl.
Qed.

Lemma pos_step_some : forall k v r w, rget k r = Some w -> pos_step k v r = if N.eqb w v then Some r else None.
Proof. intros k v r w H. unfold pos_step. rewrite H. reflexivity. Qed.
Lemma pos_step_none : forall k v r, rget k r = None -> pos_step k v r = Some (rins k v r).
Proof. intros k v r H. unfold pos_step. rewrite H. reflexivity. Qed.

Lemma extend_chain : forall a r t, orel (extend a r t) (chain a r t).
Proof.
  intros a r t. unfold extend, chain. destruct (prefilter a t) eqn:Hp; [| exact I].
  destruct (rget (skey a) r) as [s |] eqn:Es.
  - rewrite (pos_step_some _ _ _ _ Es). destruct (rget (okey a) r) as [o |] eqn:Eo.
    + destruct (N.eqb s (f_s t)); cbn [andb obind]; [| exact I].
      rewrite (pos_step_some _ _ _ _ Eo). destruct (N.eqb o (f_o t)); cbn [obind]; [apply orel_refl | exact I].
    + destruct (N.eqb s (f_s t)); cbn [obind]; [| exact I].
      rewrite (pos_step_none _ _ _ Eo). cbn [obind]. apply orel_refl.
  - rewrite (pos_step_none _ _ _ Es). cbn [obind]. destruct (key_eqb (okey a) (skey a)) eqn:Ek.
    + apply key_eqb_eq in Ek. rewrite Ek, Es.
      apply prefilter_spec in Hp. destruct Hp as [_ [_ [_ Hso]]].
      assert (G : rget (skey a) (rins (skey a) (f_s t) r) = Some (f_s t)) by (rewrite rget_rins, key_eqb_refl; reflexivity).
      rewrite (pos_step_some _ _ _ _ G).
      rewrite (Hso (skey_okey_eq a (eq_sym Ek))), N.eqb_refl. cbn [obind].
      apply bind_predicate_req. intros k. rewrite !rget_rins. destruct (key_eqb k (skey a)); reflexivity.
    + assert (G : rget (okey a) (rins (skey a) (f_s t) r) = rget (okey a) r) by (rewrite rget_rins, Ek; reflexivity).
      destruct (rget (okey a) r) as [o |] eqn:Eo.
      * rewrite (pos_step_some _ _ _ _ G). destruct (N.eqb o (f_o t)); cbn [obind]; [apply orel_refl | exact I].
      * rewrite (pos_step_none _ _ _ G). cbn [obind]. apply orel_refl.
Qed.

Lemma extend_sound : forall a r t r',
    row_ok r -> extend a r t = Some r' ->
    row_ok r' /\ (forall sg, ragrees r' sg <-> ragrees r sg /\ inst sg a = t) /\
    (forall k, bound k r' = in_keys k (akeys a) || bound k r).
Proof.
  intros a r t r' OK H. pose proof (extend_chain a r t) as R. rewrite H in R.
  destruct (chain a r t) as [r'' |] eqn:E; [| destruct R]. cbn in R.
  destruct (chain_sound a r t r'' OK E) as [OK' [A B]]. split; [| split].
  - apply (req_row_ok r' r'' R OK').
  - intros sg. rewrite (req_ragrees r' r'' sg R). apply A.
  - intros k. rewrite (req_bound r' r'' k R). apply B.
Qed.

Lemma extend_complete : forall a r t sg,
    row_ok r -> ragrees r sg -> inst sg a = t -> exists r', extend a r t = Some r'.
Proof.
  intros a r t sg OK A H. destruct (chain_complete a r t sg OK A H) as [r'' E].
  pose proof (extend_chain a r t) as R. rewrite E in R. destruct (extend a r t) as [r' |]; [eauto | destruct R].
Qed.

(* ---- lists of rows -------------------------------------------------------------------------------- *)
(* premises already joined, each with the fact list it was joined against *)
Definition psol (done : list (atom * list fact)) (sg : subst) : Prop :=
  forall a Fa, In (a, Fa) done -> In (inst sg a) Fa.

Record exactM (rows : list row) (done : list (atom * list fact)) : Prop := {
  em_hom : homogeneous rows;
  em_ok : forall r, In r rows -> row_ok r;
  em_dom : forall r x, In r rows -> (bound (KV x) r = true <-> In x (atoms_vars (map fst done)));
  em_sound : forall r sg, In r rows -> ragrees r sg -> psol done sg;
  em_complete : forall sg, psol done sg -> exists r, In r rows /\ ragrees r sg
}.

Lemma omap_rows_In : forall f l r', In r' (omap_rows f l) <-> exists r, In r l /\ f r = Some r'.
Proof.
  intros f l r'. unfold omap_rows. rewrite in_flat_map. split.
  - intros [r [Hr H]]. exists r. split; [exact Hr |]. destruct (f r) as [x |]; [destruct H as [-> | []]; reflexivity | destruct H].
  - intros [r [Hr H]]. exists r. split; [exact Hr |]. rewrite H. left. reflexivity.
Qed.

Lemma nested_join_In : forall a F rows r',
    In r' (nested_join a F rows) <-> exists t r, In t F /\ In r rows /\ extend a r t = Some r'.
Proof.
  intros. unfold nested_join. rewrite in_flat_map. split.
  - intros [t [Ht H]]. apply omap_rows_In in H. destruct H as [r [Hr H]]. eauto.
  - intros [t [r [Ht [Hr H]]]]. exists t. split; [exact Ht |]. apply omap_rows_In. eauto.
Qed.

Lemma in_keys_KV : forall a x, in_keys (KV x) (akeys a) = true <-> In x (atom_vars a).
Proof.
  intros [[ts tp] to] x. unfold in_keys, akeys, atom_vars, skey, okey, pred_var, a_s, a_p, a_o. cbn [fst snd].
  destruct ts as [xs | cs], tp as [xp | cp], to as [xo | co]; cbn -[N.eqb];
    rewrite ?orb_false_r, ?orb_true_iff, ?N.eqb_eq; intuition (try discriminate; auto).
Qed.

Lemma exactM_init : exactM [[]] [].
Proof.
  split.
  - intros r1 r2 k [<- | []] [<- | []]. reflexivity.
  - intros r [<- | []]. split; intros c v H; discriminate.
  - intros r x [<- | []]. cbn. split; [discriminate | tauto].
  - intros r sg _ _ a Fa [].
  - intros sg _. exists []. split; [left; reflexivity |]. intros x v H. discriminate.
Qed.

Lemma exactM_step : forall rows done a Fa,
    exactM rows done -> exactM (hash_join a Fa rows) (done ++ [(a, Fa)]).
Proof.
  intros rows done a Fa [Hh OK D S Cm]. rewrite (join_bucketed_eq_nested a Fa rows Hh). split.
  - intros r1 r2 k H1 H2. apply nested_join_In in H1, H2.
    destruct H1 as [t1 [q1 [_ [Hq1 E1]]]]. destruct H2 as [t2 [q2 [_ [Hq2 E2]]]].
    destruct (extend_sound _ _ _ _ (OK q1 Hq1) E1) as [_ [_ B1]].
    destruct (extend_sound _ _ _ _ (OK q2 Hq2) E2) as [_ [_ B2]].
    rewrite B1, B2, (Hh q1 q2 k Hq1 Hq2). reflexivity.
  - intros r' H. apply nested_join_In in H. destruct H as [t [r [_ [Hr E]]]].
    apply (extend_sound _ _ _ _ (OK r Hr) E).
  - intros r' x H. apply nested_join_In in H. destruct H as [t [r [_ [Hr E]]]].
    destruct (extend_sound _ _ _ _ (OK r Hr) E) as [_ [_ B]]. rewrite B, orb_true_iff, in_keys_KV, (D r x Hr).
    rewrite map_app. unfold atoms_vars. rewrite flat_map_app, in_app_iff. cbn. rewrite app_nil_r. tauto.
  - intros r' sg H A b Fb Hb. apply nested_join_In in H. destruct H as [t [r [Ht [Hr E]]]].
    destruct (extend_sound _ _ _ _ (OK r Hr) E) as [_ [Ag _]]. apply Ag in A. destruct A as [A1 A2].
    apply in_app_iff in Hb. destruct Hb as [Hb | [Hb | []]].
    + apply (S r sg Hr A1 b Fb Hb).
    + inversion Hb; subst b Fb. rewrite A2. exact Ht.
  - intros sg H.
    assert (H1 : psol done sg) by (intros b Fb Hb; apply H; apply in_app_iff; auto).
    destruct (Cm sg H1) as [r [Hr A]].
    assert (Ht : In (inst sg a) Fa) by (apply H; apply in_app_iff; right; left; reflexivity).
    destruct (extend_complete a r (inst sg a) sg (OK r Hr) A eq_refl) as [r' E].
    exists r'. split.
    + apply nested_join_In. eauto.
    + destruct (extend_sound _ _ _ _ (OK r Hr) E) as [_ [Ag _]]. apply Ag. auto.
Qed.
