(* The provenance strategy at the Boolean semiring (no seeds) on a program without negated atoms is
   the semi-naive strategy. *)
Require Import KV.Datalog.Syntax KV.Datalog.LeastModel KV.Datalog.HashJoin KV.Datalog.Strategies.

Lemma positive_filters : forall P, positive P = true ->
    filter no_neg P = P /\ filter (fun r => negb (no_neg r)) P = [].
Proof.
  induction P as [|r P IH]; intros H; cbn; [auto |].
  cbn in H. apply andb_true_iff in H. destruct H as [H1 H2]. destruct (IH H2) as [E1 E2].
  assert (N : no_neg r = true) by (unfold no_neg; destruct (negp r); [reflexivity | discriminate]).
  rewrite N. cbn. rewrite E1, E2. split; reflexivity.
Qed.

Lemma prov_bool_positive : forall nv fuel P F, positive P = true -> prov_bool_run nv fuel P F = semi_run nv fuel P F.
Proof.
  intros nv fuel P F H. destruct (positive_filters P H) as [E1 E2]. unfold prov_bool_run, semi_run.
  rewrite E1, E2. destruct (infer_with_strategy (semi_round nv P) fuel 0%nat F) as [[all new] |]; reflexivity.
Qed.
