(* SPEC for C05: the least model of a positive Datalog program over triples.
   [derives nv P F f] is the mathematical definition (f is a fact of F, or an instance of a
   conclusion of a rule whose premises are all derived and whose filters hold).
   [least_model] is the textbook executable counterpart (naive iteration of the immediate
   consequence operator, premises solved by nested-loop matching); LeastModelProofs.v proves that
   it computes exactly [derives].  It is the oracle of the correspondence check. *)
Require Export KV.Datalog.Syntax.

Definition subst := name -> N.
Definition tv (sg : subst) (t : term) : N := match t with V x => sg x | C c => c end.
Definition inst (sg : subst) (a : atom) : fact := (tv sg (a_s a), tv sg (a_p a), tv sg (a_o a)).

Definition filter_ok (nv : N -> Z) (sg : subst) (f : fcond) : bool :=
  match f with
  | FNum x op z => cmp_num op (nv (sg x)) z
  | FVar x Eq y => N.eqb (sg x) (sg y)                 (* same term *)
  | FVar x Ne y => negb (N.eqb (sg x) (sg y))
  | FVar x op y => cmp_num op (nv (sg x)) (nv (sg y))   (* order comparison of the numeric values *)
  end.
Definition filters_ok (nv : N -> Z) (sg : subst) (fs : list fcond) : bool := forallb (filter_ok nv sg) fs.

Inductive derives (nv : N -> Z) (P : list rule) (F : list fact) : fact -> Prop :=
| d_base : forall f, In f F -> derives nv P F f
| d_rule : forall r sg c,
    In r P ->
    (forall a, In a (prem r) -> derives nv P F (inst sg a)) ->
    filters_ok nv sg (filt r) = true ->
    In c (concl r) ->
    derives nv P F (inst sg c).

(* ---- executable ------------------------------------------------------------------------- *)
Definition sub := list (name * N).
Definition slookup (x : name) (s : sub) : option N := lookup N.eqb x s.

Definition bind_term (t : term) (v : N) (s : sub) : option sub :=
  match t with
  | C c => if N.eqb c v then Some s else None
  | V x => match slookup x s with
           | Some w => if N.eqb w v then Some s else None
           | None => Some (insert x v s)
           end
  end.

Definition match_atom (a : atom) (f : fact) (s : sub) : option sub :=
  match bind_term (a_s a) (f_s f) s with
  | None => None
  | Some s1 =>
      match bind_term (a_p a) (f_p f) s1 with
      | None => None
      | Some s2 => bind_term (a_o a) (f_o f) s2
      end
  end.

Definition olist {A} (o : option A) : list A := match o with Some x => [x] | None => [] end.

(* every partial solution extended by every matching fact *)
Definition extend_all (a : atom) (F : list fact) (subs : list sub) : list sub :=
  flat_map (fun s => flat_map (fun f => olist (match_atom a f s)) F) subs.

Definition solutions (prems : list atom) (F : list fact) : list sub :=
  fold_left (fun subs a => extend_all a F subs) prems [[]].

Definition sub_val (s : sub) : subst := fun x => match slookup x s with Some v => v | None => 0 end.

Definition consequences (nv : N -> Z) (r : rule) (F : list fact) : list fact :=
  flat_map (fun s => if filters_ok nv (sub_val s) (filt r) then map (inst (sub_val s)) (concl r) else [])
           (solutions (prem r) F).

(* immediate consequences of all rules *)
Definition tp (nv : N -> Z) (P : list rule) (F : list fact) : list fact :=
  flat_map (fun r => consequences nv r F) P.

Definition fresh (F : list fact) (l : list fact) : list fact :=
  fold_left (fun acc f => if mem f F then acc else set_add f acc) l [].

Fixpoint least_model (nv : N -> Z) (fuel : nat) (P : list rule) (F : list fact) : option (list fact) :=
  match fuel with
  | O => None
  | S k =>
      match fresh F (tp nv P F) with
      | [] => Some F
      | new => least_model nv k P (F ++ new)
      end
  end.
