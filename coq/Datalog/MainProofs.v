(* C05 for the naive and the semi-naive strategy of the model: the stored facts are exactly the
   derivable ones; a second run derives nothing; order independence; termination. *)
Require Import KV.Datalog.Syntax KV.Datalog.LeastModel KV.Datalog.BasicLemmas KV.Datalog.LeastModelProofs.
Require Import KV.Datalog.HashJoin KV.Datalog.Strategies KV.Datalog.Classes KV.Datalog.RoundProofs KV.Datalog.DriverProofs.

Lemma skipn_app_exact : forall (A : Type) (l l' : list A), skipn (length l) (l ++ l') = l'.
Proof. induction l as [|x l IH]; intros l'; cbn; [reflexivity | apply IH]. Qed.

Lemma firstn_app_exact : forall (A : Type) (l l' : list A), firstn (length l) (l ++ l') = l.
Proof. induction l as [|x l IH]; intros l'; cbn; [reflexivity | rewrite IH; reflexivity]. Qed.

Lemma forallb_false_ex : forall (A : Type) (p : A -> bool) l, forallb p l = false -> exists x, In x l /\ p x = false.
Proof.
  intros A p l. induction l as [|y l IH]; cbn; [discriminate |]. destruct (p y) eqn:E; cbn.
  - intros H. destruct (IH H) as [x [Hx Hp]]. eauto.
  - intros _. eauto.
Qed.

Lemma nil_no_elements : forall (A : Type) (l : list A), (forall x, ~ In x l) -> l = [].
Proof. intros A [|x l] H; [reflexivity | exfalso; apply (H x); left; reflexivity]. Qed.

Section Fixed.
  Variables (nv : N -> Z) (P : list rule) (F : list fact).
  Hypothesis HS : safe P = true.

  (* what both strategies maintain about the fact vector *)
  Definition sinv (all : list fact) : Prop :=
    (forall g, In g all -> derives nv P F g) /\
    exists l, all = F ++ l /\ NoDup l /\ (forall g, In g l -> ~ In g F).

  Lemma sinv_init : sinv F.
  Proof.
    split; [intros g Hg; apply d_base; exact Hg |]. exists []. rewrite app_nil_r.
    split; [reflexivity |]. split; [constructor | intros g []].
  Qed.

  Lemma sinv_absorb : forall all inf, sinv all -> (forall g, In g inf -> derives nv P F g) -> sinv (absorb all inf).
  Proof.
    intros all inf [HD [l [-> [Hnd Hdis]]]] Hinf. destruct (absorb_spec inf (F ++ l)) as [l' [H1 [H2 H3]]].
    split.
    - intros g Hg. apply absorb_In in Hg. destruct Hg; auto.
    - exists (l ++ l'). split; [rewrite H1, app_assoc; reflexivity |]. split.
      + apply NoDup_app_iff_local; [exact Hnd | exact H2 |]. intros x Hx Hx'. apply H3 in Hx'. destruct Hx' as [_ Hx'].
        apply Hx'. apply in_app_iff. auto.
      + intros g Hg. apply in_app_iff in Hg. destruct Hg as [Hg | Hg]; [auto |]. apply H3 in Hg. destruct Hg as [_ Hg].
        intros HF. apply Hg. apply in_app_iff. auto.
  Qed.

  Lemma sinv_result : forall all,
      sinv all -> (forall g, one_step nv P all g -> In g all) ->
      (forall f, In f all <-> derives nv P F f) /\
      (forall f, In f (skipn (length F) all) <-> derives nv P F f /\ ~ In f F) /\
      NoDup (skipn (length F) all).
  Proof.
    intros all [HD [l [-> [Hnd Hdis]]]] Hcl.
    assert (M : forall f, In f (F ++ l) <-> derives nv P F f).
    { apply least_model_char; [intros g Hg; apply in_app_iff; auto | exact HD | exact Hcl]. }
    split; [exact M |]. rewrite skipn_app_exact. split; [| exact Hnd].
    intros f. split.
    - intros Hf. split; [apply M; apply in_app_iff; auto | auto].
    - intros [Hf Hn]. apply M in Hf. apply in_app_iff in Hf. destruct Hf; [contradiction | assumption].
  Qed.

  (* ---- naive ---- *)
  Definition ninv (st : unit) (all : list fact) : Prop := sinv all.

  Lemma ninv_step : forall st all, ninv st all -> snd (naive_round nv P st all) <> [] ->
                                   ninv (fst (naive_round nv P st all)) (absorb all (snd (naive_round nv P st all))).
  Proof.
    intros [] all HI _. unfold ninv in *. apply sinv_absorb; [exact HI |].
    intros g Hg. apply (naive_round_spec nv P all g HS) in Hg. destruct Hg as [Hg _].
    destruct HI as [HD _]. apply (derives_step nv P F all g HD Hg).
  Qed.

  Theorem naive_correct : forall fuel all new,
      naive_run nv fuel P F = Some (all, new) ->
      (forall f, In f all <-> derives nv P F f) /\
      (forall f, In f new <-> derives nv P F f /\ ~ In f F) /\ NoDup new.
  Proof.
    intros fuel all new H. unfold naive_run, infer_with_strategy in H.
    destruct (infer_loop (naive_round nv P) fuel tt F) as [res |] eqn:E; [| discriminate].
    inversion H; subst all new.
    destruct (infer_loop_inv (naive_round nv P) ninv ninv_step fuel tt F res sinv_init E) as [[] [HI Hnil]].
    apply sinv_result; [exact HI |]. intros g Hg.
    destruct (In_fact_dec g res) as [Hin | Hnin]; [exact Hin |].
    assert (X : In g (snd (naive_round nv P tt res))) by (apply (naive_round_spec nv P res g HS); auto).
    rewrite Hnil in X. destruct X.
  Qed.

  (* ---- semi-naive ---- *)
  Definition sminv (start : nat) (all : list fact) : Prop :=
    sinv all /\ (forall g, one_step nv P (firstn start all) g -> In g all).

  Lemma semi_closure : forall start all all',
      (forall g, In g all -> In g all') ->
      (forall g, one_step nv P (firstn start all) g -> In g all) ->
      (forall g, delta_step nv P all (skipn start all) g -> In g all') ->
      forall g, one_step nv P all g -> In g all'.
  Proof.
    intros start all all' Hsub Hold Hdelta g [r [sg [c [Hr [Hp [Hf [Hc ->]]]]]]].
    destruct (forallb (fun a => mem (inst sg a) (firstn start all)) (prem r)) eqn:E.
    - apply Hsub. apply Hold. exists r, sg, c. split; [exact Hr |]. split; [| auto].
      intros a Ha. rewrite forallb_forall in E. apply mem_In. apply E. exact Ha.
    - apply forallb_false_ex in E. destruct E as [a [Ha Hm]]. apply mem_false in Hm.
      apply Hdelta. exists r, sg, c. split; [exact Hr |]. split; [exact Hp |]. split; [| auto].
      exists a. split; [exact Ha |]. pose proof (Hp a Ha) as Hin.
      rewrite <- (firstn_skipn start all) in Hin. apply in_app_iff in Hin. destruct Hin; [contradiction | assumption].
  Qed.

  Lemma sminv_init : sminv O F.
  Proof.
    split; [apply sinv_init |]. intros g [r [sg [c [Hr [Hp _]]]]]. cbn in Hp.
    destruct (safe_rule_spec r (safe_In P r HS Hr)) as [Hne _]. destruct (prem r) as [|a ps]; [congruence |].
    destruct (Hp a (or_introl eq_refl)).
  Qed.

  Lemma sminv_step : forall st all, sminv st all -> snd (semi_round nv P st all) <> [] ->
                                    sminv (fst (semi_round nv P st all)) (absorb all (snd (semi_round nv P st all))).
  Proof.
    intros start all [HI Hold] _. rewrite semi_round_state.
    assert (Hder : forall g, In g (snd (semi_round nv P start all)) -> derives nv P F g).
    { intros g Hg. apply (semi_round_spec nv P start all g HS) in Hg. destruct Hg as [[r [sg [c [Hr [Hp [_ [Hf [Hc ->]]]]]]]] _].
      destruct HI as [HD _]. apply (derives_step nv P F all _ HD). exists r, sg, c. auto. }
    split; [apply sinv_absorb; assumption |].
    destruct (absorb_spec (snd (semi_round nv P start all)) all) as [l' [H1 [H2 H3]]].
    assert (FE : firstn (length all) (absorb all (snd (semi_round nv P start all))) = all) by (rewrite H1; apply firstn_app_exact).
    rewrite FE.
    apply (semi_closure start all); [intros g Hg; apply absorb_In; auto | exact Hold |].
    intros g Hg. apply absorb_In. destruct (In_fact_dec g all) as [Hin | Hnin]; [auto | right].
    apply (semi_round_spec nv P start all g HS). auto.
  Qed.

  Theorem semi_correct : forall fuel all new,
      semi_run nv fuel P F = Some (all, new) ->
      (forall f, In f all <-> derives nv P F f) /\
      (forall f, In f new <-> derives nv P F f /\ ~ In f F) /\ NoDup new.
  Proof.
    intros fuel all new H. unfold semi_run, infer_with_strategy in H.
    destruct (infer_loop (semi_round nv P) fuel O F) as [res |] eqn:E; [| discriminate].
    inversion H; subst all new.
    destruct (infer_loop_inv (semi_round nv P) sminv sminv_step fuel O F res sminv_init E) as [start [[HI Hold] Hnil]].
    apply sinv_result; [exact HI |].
    apply (semi_closure start res res); [auto | exact Hold |].
    intros g Hg. destruct (In_fact_dec g res) as [Hin | Hnin]; [exact Hin |].
    assert (X : In g (snd (semi_round nv P start res))) by (apply (semi_round_spec nv P start res g HS); auto).
    rewrite Hnil in X. destruct X.
  Qed.
End Fixed.

(* ---- a second run derives nothing (from any listing of the stored facts) --------------------------- *)
Lemma model_closed : forall nv P F M g,
    (forall f, In f M <-> derives nv P F f) -> one_step nv P M g -> In g M.
Proof.
  intros nv P F M g HM Hg. apply HM. apply (derives_step nv P F M g); [| exact Hg]. intros f Hf. apply HM. exact Hf.
Qed.

Theorem naive_idempotent : forall nv P F M fuel,
    safe P = true -> (forall f, In f M <-> derives nv P F f) ->
    naive_run nv (S fuel) P M = Some (M, []).
Proof.
  intros nv P F M fuel HS HM. unfold naive_run, infer_with_strategy. cbn [infer_loop].
  assert (E : snd (naive_round nv P tt M) = []).
  { apply nil_no_elements. intros g Hg. apply (naive_round_spec nv P M g HS) in Hg. destruct Hg as [Hg Hn].
    apply Hn. apply (model_closed nv P F M g HM Hg). }
  destruct (naive_round nv P tt M) as [st inf]. cbn in E. subst inf.
  cbn. rewrite skipn_all. reflexivity.
Qed.

Theorem semi_idempotent : forall nv P F M fuel,
    safe P = true -> (forall f, In f M <-> derives nv P F f) ->
    semi_run nv (S fuel) P M = Some (M, []).
Proof.
  intros nv P F M fuel HS HM. unfold semi_run, infer_with_strategy. cbn [infer_loop].
  assert (E : snd (semi_round nv P O M) = []).
  { apply nil_no_elements. intros g Hg. apply (semi_round_spec nv P O M g HS) in Hg. destruct Hg as [Hg Hn].
    apply Hn. apply (model_closed nv P F M g HM). destruct Hg as [r [sg [c [Hr [Hp [_ [Hf [Hc ->]]]]]]]]. exists r, sg, c. auto. }
  destruct (semi_round nv P O M) as [st inf]. cbn in E. subst inf.
  cbn. rewrite skipn_all. reflexivity.
Qed.

(* ---- order independence --------------------------------------------------------------------------- *)
Lemma derives_set_eq : forall nv P P' F F' f,
    (forall r, In r P <-> In r P') -> (forall g, In g F <-> In g F') ->
    (derives nv P F f <-> derives nv P' F' f).
Proof.
  intros nv P P' F F' f HP HF. split; intros H.
  - apply (derives_mono_rules nv P P'); [intros r; apply HP |]. apply (derives_mono_facts nv P F F'); [intros g; apply HF | exact H].
  - apply (derives_mono_rules nv P' P); [intros r; apply HP |]. apply (derives_mono_facts nv P' F' F); [intros g; apply HF | exact H].
Qed.

Lemma safe_set_eq : forall P P', (forall r, In r P <-> In r P') -> safe P = true -> safe P' = true.
Proof.
  intros P P' H HS. unfold safe in *. rewrite forallb_forall in *. intros r Hr. apply HS. apply H. exact Hr.
Qed.

(* ---- termination ------------------------------------------------------------------------------------ *)
Definition term_consts (t : term) : list N := match t with C c => [c] | V _ => [] end.
Definition atom_consts (a : atom) : list N := term_consts (a_s a) ++ term_consts (a_p a) ++ term_consts (a_o a).
Definition rule_consts (r : rule) : list N := flat_map atom_consts (prem r) ++ flat_map atom_consts (concl r).
Definition fact_consts (f : fact) : list N := [f_s f; f_p f; f_o f].
Definition consts (P : list rule) (F : list fact) : list N := flat_map rule_consts P ++ flat_map fact_consts F.
Definition cube (cs : list N) : list fact :=
  flat_map (fun s => flat_map (fun p => map (fun o => (s, p, o)) cs) cs) cs.

Lemma cube_In : forall cs f, In f (cube cs) <-> In (f_s f) cs /\ In (f_p f) cs /\ In (f_o f) cs.
Proof.
  intros cs [[s p] o]. unfold cube, f_s, f_p, f_o. cbn [fst snd]. rewrite in_flat_map. split.
  - intros [s' [Hs H]]. apply in_flat_map in H. destruct H as [p' [Hp H]]. apply in_map_iff in H. destruct H as [o' [E Ho]].
    inversion E; subst. auto.
  - intros [Hs [Hp Ho]]. exists s. split; [exact Hs |]. apply in_flat_map. exists p. split; [exact Hp |].
    apply in_map_iff. exists o. auto.
Qed.

Lemma cube_length : forall cs, length (cube cs) = (length cs * (length cs * length cs))%nat.
Proof.
  intros cs. unfold cube.
  assert (L1 : forall (l : list N) (s p : N), length (map (fun o => (s, p, o)) l) = length l) by (intros; apply map_length).
  assert (L2 : forall (l2 : list N) (s : N), length (flat_map (fun p => map (fun o => (s, p, o)) cs) l2) = (length l2 * length cs)%nat).
  { induction l2 as [|p l2 IH]; intros s; cbn; [reflexivity |]. rewrite app_length, L1, IH. reflexivity. }
  assert (L3 : forall (l3 : list N), length (flat_map (fun s => flat_map (fun p => map (fun o => (s, p, o)) cs) cs) l3) = (length l3 * (length cs * length cs))%nat).
  { induction l3 as [|s l3 IH]; cbn; [reflexivity |]. rewrite app_length, L2, IH. reflexivity. }
  apply L3.
Qed.

(* a variable of a premise is sent to a component of the premise's instance *)
Lemma var_in_inst : forall sg a x, In x (atom_vars a) -> In (sg x) (fact_consts (inst sg a)).
Proof.
  intros sg [[ts tp] to] x. unfold atom_vars, fact_consts, inst, a_s, a_p, a_o, f_s, f_p, f_o. cbn [fst snd].
  rewrite !in_app_iff. intros [H | [H | H]].
  - destruct ts; cbn in H; [destruct H as [-> | []]; cbn; auto | destruct H].
  - destruct tp; cbn in H; [destruct H as [-> | []]; cbn; auto | destruct H].
  - destruct to; cbn in H; [destruct H as [-> | []]; cbn; auto | destruct H].
Qed.

Lemma derives_in_cube : forall nv P F f,
    safe P = true -> derives nv P F f -> In f (cube (consts P F)).
Proof.
  intros nv P F f HS D. induction D as [f Hf | r sg c Hr Hp IH Hfl Hc].
  - apply cube_In. unfold consts. rewrite !in_app_iff, !in_flat_map.
    repeat split; right; exists f; (split; [exact Hf | cbn; auto]).
  - destruct (safe_rule_spec r (safe_In P r HS Hr)) as [_ [RC _]].
    assert (T : forall t, In t [a_s c; a_p c; a_o c] -> In (tv sg t) (consts P F)).
    { intros [x | k] Ht.
      - assert (Hx : In x (atom_vars c)).
        { unfold atom_vars. rewrite !in_app_iff. destruct Ht as [E | [E | [E | []]]]; rewrite E; cbn; auto. }
        apply (RC c x Hc) in Hx. apply atoms_vars_In in Hx. destruct Hx as [a [Ha Hx]].
        pose proof (IH a Ha) as Hin. apply cube_In in Hin. destruct Hin as [H1 [H2 H3]].
        pose proof (var_in_inst sg a x Hx) as Hv. cbn [tv]. destruct Hv as [<- | [<- | [<- | []]]]; assumption.
      - cbn [tv]. unfold consts. apply in_app_iff. left. apply in_flat_map. exists r. split; [exact Hr |].
        unfold rule_consts. apply in_app_iff. right. apply in_flat_map. exists c. split; [exact Hc |].
        unfold atom_consts. rewrite !in_app_iff. destruct Ht as [E | [E | [E | []]]]; rewrite E; cbn; auto. }
    apply cube_In. unfold inst, f_s, f_p, f_o. cbn [fst snd].
    repeat split; apply T; cbn; auto.
Qed.

Section Term.
  Variables (nv : N -> Z) (P : list rule) (F : list fact).
  Hypothesis HS : safe P = true.

  Theorem naive_terminates : forall fuel,
      (length (cube (consts P F)) < fuel)%nat -> naive_run nv fuel P F <> None.
  Proof.
    intros fuel Hf. unfold naive_run, infer_with_strategy.
    assert (X : infer_loop (naive_round nv P) fuel tt (F ++ []) <> None).
    { apply (infer_loop_terminates (naive_round nv P) (ninv nv P F) (ninv_step nv P F HS) (cube (consts P F)) F).
      - intros [] all g HI Hg. apply (naive_round_spec nv P all g HS) in Hg. destruct Hg as [Hg Hn]. split; [| exact Hn].
        apply (derives_in_cube nv P F g HS). destruct HI as [HD _]. apply (derives_step nv P F all g HD Hg).
      - rewrite app_nil_r. apply sinv_init.
      - constructor.
      - intros g [].
      - cbn. lia. }
    rewrite app_nil_r in X. destruct (infer_loop (naive_round nv P) fuel tt F); [discriminate | congruence].
  Qed.

  Theorem semi_terminates : forall fuel,
      (length (cube (consts P F)) < fuel)%nat -> semi_run nv fuel P F <> None.
  Proof.
    intros fuel Hf. unfold semi_run, infer_with_strategy.
    assert (X : infer_loop (semi_round nv P) fuel O (F ++ []) <> None).
    { apply (infer_loop_terminates (semi_round nv P) (sminv nv P F) (sminv_step nv P F HS) (cube (consts P F)) F).
      - intros start all g [HI _] Hg. apply (semi_round_spec nv P start all g HS) in Hg. destruct Hg as [Hg Hn]. split; [| exact Hn].
        apply (derives_in_cube nv P F g HS). destruct HI as [HD _]. apply (derives_step nv P F all g HD).
        destruct Hg as [r [sg [c [Hr [Hp [_ [Hfl [Hc ->]]]]]]]]. exists r, sg, c. auto.
      - rewrite app_nil_r. apply (sminv_init nv P F HS).
      - constructor.
      - intros g [].
      - cbn. lia. }
    rewrite app_nil_r in X. destruct (infer_loop (semi_round nv P) fuel O F); [discriminate | congruence].
  Qed.
End Term.
