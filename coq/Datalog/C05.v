(* C05 - Rule materialisation computes exactly the least model of the program.
   This file contains only the property theorems; each is closed by `exact <lemma>` (or by a
   computed witness) and followed by Print Assumptions.

   Reading guide.  [derives nv P F f]  (LeastModel.v) is the inductive definition of "f is in the least
   model of the rules P over the facts F" (nv gives the numeric value of a constant, for filters).
   [naive_run], [semi_run], [par_run], [prov_bool_run] (Strategies.v, HashJoin.v) are the executable models
   of the four strategies of the real Reasoner; a run returns Some (facts in the store afterwards, returned
   new facts) or None when the explicit fuel is exhausted (excluded by C05_terminates).
   [safe P] : every rule has at least one premise and its conclusion / filter / negated-atom variables
   occur in a premise.  Numeric filters: a term that is not a number counts as 0 in the Spec and in the model alike.  The naive, semi-naive and parallel models never read the negated atoms, and
   [derives] does not either: for programs with negated atoms the theorems below therefore speak about
   the program with the negated atoms erased, which is NOT the stratified model - see
   C05_negation_ignored_refuted. *)
Require Import KV.Datalog.Syntax KV.Datalog.LeastModel KV.Datalog.Stratified KV.Datalog.HashJoin KV.Datalog.NestedJoin KV.Datalog.Strategies KV.Datalog.VarKeys KV.Datalog.Classes.
Require Import KV.Datalog.BasicLemmas KV.Datalog.LeastModelProofs KV.Datalog.StratifiedProofs KV.Datalog.HashJoinProofs KV.Datalog.JoinSemantics.
Require Import KV.Datalog.RoundProofs KV.Datalog.DriverProofs KV.Datalog.MainProofs KV.Datalog.ParallelProofs KV.Datalog.ProvProofs KV.Datalog.NegProofs KV.Datalog.TerminationProofs KV.Datalog.VarKeysProofs KV.Datalog.SpellingProofs.
Import String.StringSyntax.

(* (0) The executable Spec used as oracle by the correspondence check is the inductive definition. *)
Theorem C05_spec_executable :
  forall nv fuel P F M,
    safe P = true -> least_model nv fuel P F = Some M -> forall f, In f M <-> derives nv P F f.
Proof. intros nv fuel P F M HS. apply least_model_correct. apply (safe_rr P HS). Qed.
Print Assumptions C05_spec_executable.

(* (1) The bucketed hash join (four buckets, early return from the both-bound bucket, synthetic join
   variables for constants, predicate variable bound per row) returns exactly - same rows, same
   order - the nested-loop extension of each row by each matching triple, on every homogeneous row list. *)
Theorem C05_join_bucketed_eq_nested :
  forall (a : atom) (triples : list fact) (rows : list row),
    homogeneous rows -> hash_join a triples rows = nested_join a triples rows.
Proof. exact join_bucketed_eq_nested. Qed.
Print Assumptions C05_join_bucketed_eq_nested.

(* ... and rule evaluation only ever passes homogeneous row lists to the join: starting from the single
   empty row, after joining any premises against any fact lists the rows bind the same keys. *)
Theorem C05_join_rows_homogeneous :
  forall (steps : list (atom * list fact)),
    homogeneous (fold_left (fun rows s => hash_join (fst s) (snd s) rows) steps [[]]).
Proof.
  intros steps.
  assert (G : forall steps rows done, exactM rows done ->
              exactM (fold_left (fun rows s => hash_join (fst s) (snd s) rows) steps rows) (done ++ steps)).
  { induction steps0 as [|[a Fa] steps0 IH]; intros rows done H; cbn [fold_left fst snd].
    - rewrite app_nil_r. exact H.
    - replace (done ++ (a, Fa) :: steps0) with ((done ++ [(a, Fa)]) ++ steps0) by (rewrite <- app_assoc; reflexivity).
      apply IH. apply exactM_step. exact H. }
  apply (em_hom _ _ (G steps [[]] [] exactM_init)).
Qed.
Print Assumptions C05_join_rows_homogeneous.

(* (2) Naive strategy: soundness and completeness. *)
Theorem C05_naive :
  forall nv P F fuel all new,
    safe P = true -> naive_run nv fuel P F = Some (all, new) ->
    (forall f, In f all <-> derives nv P F f) /\
    (forall f, In f new <-> derives nv P F f /\ ~ In f F) /\ NoDup new.
Proof. intros nv P F fuel all new HS. apply (naive_correct nv P F HS). Qed.
Print Assumptions C05_naive.

(* (3) Semi-naive strategy (delta window over the fact vector): soundness and completeness. *)
Theorem C05_semi_naive :
  forall nv P F fuel all new,
    safe P = true -> semi_run nv fuel P F = Some (all, new) ->
    (forall f, In f all <-> derives nv P F f) /\
    (forall f, In f new <-> derives nv P F f /\ ~ In f F) /\ NoDup new.
Proof. intros nv P F fuel all new HS. apply (semi_correct nv P F HS). Qed.
Print Assumptions C05_semi_naive.

(* Provenance strategy with Boolean tags on a program without negated atoms. *)
Theorem C05_provenance_bool :
  forall nv P F fuel all new,
    safe P = true -> positive P = true -> prov_bool_run nv fuel P F = Some (all, new) ->
    (forall f, In f all <-> derives nv P F f) /\
    (forall f, In f new <-> derives nv P F f /\ ~ In f F) /\ NoDup new.
Proof. intros nv P F fuel all new HS HP. rewrite (prov_bool_positive nv fuel P F HP). apply (semi_correct nv P F HS). Qed.
Print Assumptions C05_provenance_bool.

(* (4) A second run - from any listing M of the stored facts, under either strategy - derives nothing. *)
Theorem C05_idempotent :
  forall nv P F M fuel,
    safe P = true -> (forall f, In f M <-> derives nv P F f) ->
    naive_run nv (S fuel) P M = Some (M, []) /\ semi_run nv (S fuel) P M = Some (M, []).
Proof. intros nv P F M fuel HS HM. split; [apply (naive_idempotent nv P F M fuel HS HM) | apply (semi_idempotent nv P F M fuel HS HM)]. Qed.
Print Assumptions C05_idempotent.

(* The stored set does not depend on the order (or multiplicity) of rules and facts, nor on the strategy. *)
Theorem C05_order :
  forall nv P P' F F' fuel fuel' all new all' new',
    safe P = true -> (forall r, In r P <-> In r P') -> (forall g, In g F <-> In g F') ->
    (naive_run nv fuel P F = Some (all, new) \/ semi_run nv fuel P F = Some (all, new)) ->
    (naive_run nv fuel' P' F' = Some (all', new') \/ semi_run nv fuel' P' F' = Some (all', new')) ->
    forall f, In f all <-> In f all'.
Proof.
  intros nv P P' F F' fuel fuel' all new all' new' HS HP HF H1 H2 f.
  pose proof (safe_set_eq P P' HP HS) as HS'.
  assert (A : forall f, In f all <-> derives nv P F f) by (destruct H1 as [H1 | H1]; [apply (naive_correct nv P F HS _ _ _ H1) | apply (semi_correct nv P F HS _ _ _ H1)]).
  assert (B : forall f, In f all' <-> derives nv P' F' f) by (destruct H2 as [H2 | H2]; [apply (naive_correct nv P' F' HS' _ _ _ H2) | apply (semi_correct nv P' F' HS' _ _ _ H2)]).
  rewrite A, B. apply derives_set_eq; assumption.
Qed.
Print Assumptions C05_order.

(* (5) Termination: with more fuel than |constants of P and F|^3 the driver returns. *)
Theorem C05_terminates :
  forall nv P F fuel,
    safe P = true -> (length (consts P F) * (length (consts P F) * length (consts P F)) < fuel)%nat ->
    naive_run nv fuel P F <> None /\ semi_run nv fuel P F <> None.
Proof.
  intros nv P F fuel HS Hf. rewrite <- cube_length in Hf.
  split; [apply (naive_terminates nv P F HS fuel Hf) | apply (semi_terminates nv P F HS fuel Hf)].
Qed.
Print Assumptions C05_terminates.

(* (6) Parallel strategy, as written: correct outside the class known_C05_par. *)
Theorem C05_parallel :
  forall nv P F fuel all new,
    safe P = true -> known_C05_par P = false -> par_run fuel P F = Some (all, new) ->
    (forall f, In f all <-> derives nv P F f) /\
    (forall f, In f new <-> derives nv P F f /\ ~ In f F) /\ NoDup new.
Proof. intros nv P F fuel all new HS HK. apply (par_correct nv P F (known_par_false P HS HK)). Qed.
Print Assumptions C05_parallel.

(* ... and inside the class it loses derivations.  Witness (corpus/C05/par-chain3-varpred.json, reproduced on the
   real code): facts a-p->b-p->c-p->d, rule R1 (X0 p X1)(X1 p X2)(X2 p X3) -> (X0 q X3) and
   rule R2 (X0 X5 X1) -> (X1 X5 X0).  The least model has 11 derived facts, the parallel strategy none. *)
Definition wit_P : list rule :=
  [Rule [(V 0, C 4, V 1); (V 1, C 4, V 2); (V 2, C 4, V 3)] [] [] [(V 0, C 5, V 3)];
   Rule [(V 0, V 5, V 1)] [] [] [(V 1, V 5, V 0)]].
Definition wit_F : list fact := [(0, 4, 1); (1, 4, 2); (2, 4, 3)].

Theorem C05_parallel_refuted :
  exists nv P F fuel all new,
    safe P = true /\ positive P = true /\ known_C05_par P = true /\
    par_run fuel P F = Some (all, new) /\ new = [] /\
    exists f, derives nv P F f /\ ~ In f all.
Proof.
  exists (fun _ => 0%Z), wit_P, wit_F, 10%nat, wit_F, [].
  split; [reflexivity |]. split; [reflexivity |]. split; [reflexivity |]. split; [vm_compute; reflexivity |]. split; [reflexivity |].
  exists (0, 5, 3). split.
  - assert (R : exists all new, naive_run (fun _ => 0%Z) 10 wit_P wit_F = Some (all, new) /\ In (0, 5, 3) all).
    { eexists. eexists. split; [vm_compute; reflexivity |]. vm_compute. tauto. }
    destruct R as [all [new [R Hin]]].
    destruct (naive_correct (fun _ => 0%Z) wit_P wit_F eq_refl 10%nat all new R) as [A _]. apply A. exact Hin.
  - vm_compute. intros H. repeat (destruct H as [H | H]; [discriminate |]). exact H.
Qed.
Print Assumptions C05_parallel_refuted.

(* ---- one stratum of negation ------------------------------------------------------------------------ *)
(* The executable stratified Spec (oracle of the negation stream) computes the inductive definition
   [stratified_model] (Stratified.v), and its check [strat_ok] implies that the two-level split is a
   stratification of the program. *)
Theorem C05_stratified_spec_executable :
  forall nv fuel P F M0 M1 ok,
    safe P = true -> stratified_exec nv fuel P F = Some (M0, M1, ok) ->
    (forall f, In f M0 <-> derives nv (pos_rules P) F f) /\
    (forall f, In f M1 <-> stratified_model nv P F f) /\
    (ok = true -> stratifiable nv P F).
Proof. exact stratified_exec_correct. Qed.
Print Assumptions C05_stratified_spec_executable.

(* The full statement "with safe negation the result is the stratified model" is FALSE for the naive,
   semi-naive and parallel strategies, which never read the negated atoms.  Witness
   (corpus/C05/neg-ignored.json, reproduced on the real code): facts (a p b) (a q b) (b p a), rule
   (X0 p X1), NOT (X0 q X1) -> (X0 r X1): all three store (a r b). *)
Definition neg_P : list rule := [Rule [(V 0, C 2, V 1)] [(V 0, C 3, V 1)] [] [(V 0, C 4, V 1)]].
Definition neg_F : list fact := [(0, 2, 1); (0, 3, 1); (1, 2, 0)].

Theorem C05_negation_ignored_refuted :
  exists nv P F fuel,
    safe P = true /\ known_C05_neg P = true /\ stratifiable nv P F /\
    exists f, ~ stratified_model nv P F f /\
      (exists all new, naive_run nv fuel P F = Some (all, new) /\ In f all) /\
      (exists all new, semi_run nv fuel P F = Some (all, new) /\ In f all) /\
      (exists all new, par_run fuel P F = Some (all, new) /\ In f all).
Proof.
  exists (fun _ => 0%Z), neg_P, neg_F, 10%nat.
  assert (E : exists M0 M1, stratified_exec (fun _ => 0%Z) 10 neg_P neg_F = Some (M0, M1, true) /\ ~ In (0, 4, 1) M1).
  { eexists. eexists. split; [vm_compute; reflexivity |]. vm_compute. intros H. repeat (destruct H as [H | H]; [discriminate |]). exact H. }
  destruct E as [M0 [M1 [E Hn]]].
  destruct (stratified_exec_correct (fun _ => 0%Z) 10%nat neg_P neg_F M0 M1 true eq_refl E) as [_ [A1 Ok]].
  split; [reflexivity |]. split; [reflexivity |]. split; [apply Ok; reflexivity |].
  exists (0, 4, 1). split; [intros H; apply Hn; apply A1; exact H |].
  repeat split; eexists; eexists; (split; [vm_compute; reflexivity | vm_compute; tauto]).
Qed.
Print Assumptions C05_negation_ignored_refuted.

(* ... and for the provenance strategy, whose single pass over the rules with negated atoms cannot feed any
   other rule.  Witness (corpus/C05/neg-single-pass.json, reproduced on the real code): the rule above plus
   (X0 r X1) -> (X1 r X0): the stratified model contains (a r b), the strategy does not store it. *)
Definition neg2_P : list rule :=
  [Rule [(V 0, C 2, V 1)] [(V 0, C 3, V 1)] [] [(V 0, C 4, V 1)];
   Rule [(V 0, C 4, V 1)] [] [] [(V 1, C 4, V 0)]].

Theorem C05_negation_single_pass_refuted :
  exists nv P F fuel all new,
    safe P = true /\ known_C05_neg_feed P = true /\ stratifiable nv P F /\
    prov_bool_run nv fuel P F = Some (all, new) /\
    exists f, stratified_model nv P F f /\ ~ In f all.
Proof.
  exists (fun _ => 0%Z), neg2_P, neg_F, 10%nat.
  assert (E : exists M0 M1, stratified_exec (fun _ => 0%Z) 10 neg2_P neg_F = Some (M0, M1, true) /\ In (0, 4, 1) M1).
  { eexists. eexists. split; [vm_compute; reflexivity |]. vm_compute. tauto. }
  destruct E as [M0 [M1 [E Hin]]].
  destruct (stratified_exec_correct (fun _ => 0%Z) 10%nat neg2_P neg_F M0 M1 true eq_refl E) as [_ [A1 Ok]].
  eexists. eexists. split; [reflexivity |]. split; [reflexivity |]. split; [apply Ok; reflexivity |].
  split; [vm_compute; reflexivity |].
  exists (0, 4, 1). split; [apply A1; exact Hin |].
  vm_compute. intros H. repeat (destruct H as [H | H]; [discriminate |]). exact H.
Qed.
Print Assumptions C05_negation_single_pass_refuted.

(* Outside that class the provenance strategy (Boolean tags) computes the stratified model. *)
Theorem C05_negation_prov :
  forall nv P F fuel all new,
    safe P = true -> known_C05_neg_feed P = false -> prov_bool_run nv fuel P F = Some (all, new) ->
    (forall f, In f all <-> stratified_model nv P F f) /\
    (forall f, In f new <-> stratified_model nv P F f /\ ~ In f F) /\ NoDup new.
Proof. intros nv P F fuel all new HS HK. apply (prov_neg_correct nv P F HS HK). Qed.
Print Assumptions C05_negation_prov.

Example C05_example_negation :
  safe neg_P = true /\ known_C05_neg_feed neg_P = false /\ known_C05_neg neg_P = true /\
  prov_bool_run (fun _ => 0%Z) 10 neg_P neg_F = Some (neg_F ++ [(1, 4, 0)], [(1, 4, 0)]).
Proof. repeat split; vm_compute; reflexivity. Qed.

(* ---- termination of the parallel and provenance models: their theorems are total ----------------------- *)
Theorem C05_parallel_terminates :
  forall P F fuel,
    safe P = true -> known_C05_par P = false ->
    (length (consts P F) * (length (consts P F) * length (consts P F)) < fuel)%nat ->
    par_run fuel P F <> None.
Proof.
  intros P F fuel HS HK Hf. rewrite <- cube_length in Hf.
  apply (par_terminates (fun _ => 0%Z) P F (known_par_false P HS HK) fuel Hf).
Qed.
Print Assumptions C05_parallel_terminates.

Theorem C05_provenance_terminates :
  forall nv P F fuel,
    safe P = true ->
    (length (consts P F) * (length (consts P F) * length (consts P F)) < fuel)%nat ->
    prov_bool_run nv fuel P F <> None.
Proof. intros nv P F fuel HS Hf. rewrite <- cube_length in Hf. apply (prov_terminates nv P F fuel HS Hf). Qed.
Print Assumptions C05_provenance_terminates.

(* Total form: with enough fuel every strategy RETURNS the specified model (outside its known class). *)
Theorem C05_total :
  forall nv P F fuel,
    safe P = true -> (length (consts P F) * (length (consts P F) * length (consts P F)) < fuel)%nat ->
    (exists all new, naive_run nv fuel P F = Some (all, new) /\ forall f, In f all <-> derives nv P F f) /\
    (exists all new, semi_run nv fuel P F = Some (all, new) /\ forall f, In f all <-> derives nv P F f) /\
    (known_C05_par P = false ->
     exists all new, par_run fuel P F = Some (all, new) /\ forall f, In f all <-> derives nv P F f) /\
    (known_C05_neg_feed P = false ->
     exists all new, prov_bool_run nv fuel P F = Some (all, new) /\ forall f, In f all <-> stratified_model nv P F f) /\
    (positive P = true ->
     exists all new, prov_bool_run nv fuel P F = Some (all, new) /\ forall f, In f all <-> derives nv P F f).
Proof.
  intros nv P F fuel HS Hf. pose proof Hf as Hf'. rewrite <- cube_length in Hf'.
  split; [| split; [| split; [| split]]].
  - pose proof (naive_terminates nv P F HS fuel Hf') as T. destruct (naive_run nv fuel P F) as [[all new] |] eqn:E; [| congruence].
    exists all, new. split; [reflexivity |]. apply (naive_correct nv P F HS fuel all new E).
  - pose proof (semi_terminates nv P F HS fuel Hf') as T. destruct (semi_run nv fuel P F) as [[all new] |] eqn:E; [| congruence].
    exists all, new. split; [reflexivity |]. apply (semi_correct nv P F HS fuel all new E).
  - intros HK. pose proof (par_terminates nv P F (known_par_false P HS HK) fuel Hf') as T.
    destruct (par_run fuel P F) as [[all new] |] eqn:E; [| congruence].
    exists all, new. split; [reflexivity |]. apply (par_correct nv P F (known_par_false P HS HK) fuel all new E).
  - intros HK. pose proof (prov_terminates nv P F fuel HS Hf') as T.
    destruct (prov_bool_run nv fuel P F) as [[all new] |] eqn:E; [| congruence].
    exists all, new. split; [reflexivity |]. apply (prov_neg_correct nv P F HS HK fuel all new E).
  - intros HP. pose proof (prov_terminates nv P F fuel HS Hf') as T.
    destruct (prov_bool_run nv fuel P F) as [[all new] |] eqn:E; [| congruence].
    exists all, new. split; [reflexivity |]. rewrite (prov_bool_positive nv fuel P F HP) in E. apply (semi_correct nv P F HS fuel all new E).
Qed.
Print Assumptions C05_total.

(* ---- the variable-name hypothesis, explicit ------------------------------------------------------------------ *)
(* VarKeys.v is the naive strategy with the join keys of the code: a variable's key is what its SPELLING denotes
   ("__const_subj_<c>" denotes the invented key of the constant subject c).  When no variable of the program is spelled
   like an invented name ([no_synthetic_names], the boolean the check uses as class of C05-synthetic-var-capture) the
   variant is the base model: its bucketed join is the nested-loop join and the naive run stores the least model. *)
Theorem C05_join_bucketed_eq_nested_spelled :
  forall (tbl : names) (P : list rule) (r : rule) (a : atom) (triples : list fact) (rows : list row),
    no_synthetic_names tbl P = true -> In r P -> In a (prem r) -> homogeneous rows ->
    vhash_join (vk_of tbl) a triples rows = nested_join a triples rows.
Proof.
  intros tbl P r a triples rows HN Hr Ha Hh.
  rewrite (vhash_join_eq (vk_of tbl) a triples rows).
  - apply join_bucketed_eq_nested. exact Hh.
  - intros x Hx. apply (no_synthetic_names_spec tbl P HN). unfold prog_vars. apply in_flat_map. exists r. split; [exact Hr |].
    unfold rule_vars. apply in_app_iff. left. apply in_flat_map. exists a. auto.
Qed.
Print Assumptions C05_join_bucketed_eq_nested_spelled.

Theorem C05_naive_spelled :
  forall (tbl : names) nv P F fuel all new,
    no_synthetic_names tbl P = true -> safe P = true ->
    vnaive_run (vk_of tbl) nv fuel P F = Some (all, new) ->
    (forall f, In f all <-> derives nv P F f) /\
    (forall f, In f new <-> derives nv P F f /\ ~ In f F) /\ NoDup new.
Proof.
  intros tbl nv P F fuel all new HN HS H.
  rewrite (vnaive_run_eq (vk_of tbl) P (no_synthetic_names_spec tbl P HN)) in H. apply (naive_correct nv P F HS fuel all new H).
Qed.
Print Assumptions C05_naive_spelled.

(* The keys of the variant are the strings of the code: the key of a variable renders back to its spelling
   ([kstr]: KV x -> spelling of x, KS c -> "__const_subj_<c>", KO c -> "__const_obj_<c>"), and on the keys a program
   without synthetic names uses, string equality is key equality provided distinct variables are spelled differently. *)
Theorem C05_keys_are_the_code_strings :
  forall (tbl : names),
    (forall x, kstr tbl (vk_of tbl x) = spelling tbl x) /\
    (forall k k',
        (forall x, k = KV x -> vk_of tbl x = KV x) -> (forall x, k' = KV x -> vk_of tbl x = KV x) ->
        (forall x y, k = KV x -> k' = KV y -> spelling tbl x = spelling tbl y -> x = y) ->
        kstr tbl k = kstr tbl k' -> k = k').
Proof. intros tbl. split; [apply kstr_vk_of | apply kstr_inj]. Qed.
Print Assumptions C05_keys_are_the_code_strings.

(* Without the hypothesis the statement is false.  Witness (corpus/C05/synthetic-var-capture.json, reproduced on the
   real code): facts (b p c) (a q d) with a = id 0, rule (?V p ?X1), (a q ?X2) -> (?V r ?X2) where ?V is spelled
   "__const_subj_0": the join looks the row of (b p c) up under the subject id of b instead of a and derives nothing;
   the least model contains (b r d). *)
Definition cap_P : list rule := [Rule [(V 0, C 4, V 1); (C 0, C 5, V 2)] [] [] [(V 0, C 6, V 2)]].
Definition cap_F : list fact := [(1, 4, 2); (0, 5, 3)].
Definition cap_names : names := [(0, "__const_subj_0"%string)].

Theorem C05_synthetic_capture_refuted :
  exists (tbl : names) nv P F fuel all new,
    no_synthetic_names tbl P = false /\ safe P = true /\ positive P = true /\
    vnaive_run (vk_of tbl) nv fuel P F = Some (all, new) /\ new = [] /\
    exists f, derives nv P F f /\ ~ In f all.
Proof.
  exists cap_names, (fun _ => 0%Z), cap_P, cap_F, 10%nat, cap_F, [].
  split; [vm_compute; reflexivity |]. split; [reflexivity |]. split; [reflexivity |]. split; [vm_compute; reflexivity |]. split; [reflexivity |].
  exists (1, 6, 3). split.
  - assert (R : exists all new, naive_run (fun _ => 0%Z) 10 cap_P cap_F = Some (all, new) /\ In (1, 6, 3) all).
    { eexists. eexists. split; [vm_compute; reflexivity |]. vm_compute. tauto. }
    destruct R as [all [new [R Hin]]].
    destruct (naive_correct (fun _ => 0%Z) cap_P cap_F eq_refl 10%nat all new R) as [A _]. apply A. exact Hin.
  - vm_compute. intros H. repeat (destruct H as [H | H]; [discriminate |]). exact H.
Qed.
Print Assumptions C05_synthetic_capture_refuted.

Example C05_example_spelled :
  no_synthetic_names [(0, "?who"%string); (1, "__const_subj_x"%string)] cap_P = true /\
  no_synthetic_names [(0, "__const_obj_7"%string)] cap_P = false /\
  vnaive_run (vk_of [(0, "?who"%string)]) (fun _ => 0%Z) 10 cap_P cap_F = Some (cap_F ++ [(1, 6, 3)], [(1, 6, 3)]).
Proof. repeat split; vm_compute; reflexivity. Qed.

(* ---- variable-variable order filters (regression) ----------------------------------------------------------- *)
(* Before the repair 7537bd2 evaluate_filters let every operator other than = / != pass when the filter value named a
   bound variable ([eval_filter_pre7537], kept only for this lemma).  The evaluation then disagreed with the Spec - and
   with the present model - already on one row: X = "5", Y = "1", filter X < Y. *)
Theorem C05_varcmp_regression :
  exists (nv : N -> Z) (r : row) (f : fcond),
    eval_filter_pre7537 nv r f = true /\ eval_filter nv r f = false /\ filter_ok nv (row_val r) f = false.
Proof.
  exists (fun c => if N.eqb c 0 then 1%Z else 5%Z), [(KV 0, 1); (KV 1, 0)], (FVar 0 Lt 1).
  repeat split; vm_compute; reflexivity.
Qed.
Print Assumptions C05_varcmp_regression.

(* non-vacuity: a concrete program on which every hypothesis above holds and the runs return *)
Definition ex_P : list rule :=
  [Rule [(V 0, C 10, V 1)] [] [] [(V 0, C 11, V 1)];
   Rule [(V 0, C 11, V 1); (V 1, C 11, V 2)] [] [FVar 0 Ne 2] [(V 0, C 11, V 2)]].
Definition ex_F : list fact := [(1, 10, 2); (2, 10, 3); (3, 10, 1)].
Example C05_example :
  safe ex_P = true /\ positive ex_P = true /\
  (exists all new, naive_run (fun _ => 0%Z) 20 ex_P ex_F = Some (all, new) /\ length new = 6%nat) /\
  (exists all new, semi_run (fun _ => 0%Z) 20 ex_P ex_F = Some (all, new) /\ length new = 6%nat) /\
  (exists all new, prov_bool_run (fun _ => 0%Z) 20 ex_P ex_F = Some (all, new) /\ length new = 6%nat) /\
  (exists M, least_model (fun _ => 0%Z) 20 ex_P ex_F = Some M /\ length M = 9%nat).
Proof.
  split; [reflexivity |]. split; [reflexivity |].
  repeat split; eexists; try eexists; split; vm_compute; reflexivity.
Qed.
Example C05_example_parallel :
  let P := [Rule [(V 0, C 10, V 1)] [] [] [(V 0, C 11, V 1)];
            Rule [(V 0, C 11, V 1); (V 1, C 11, V 2)] [] [] [(V 0, C 11, V 2)]] in
  safe P = true /\ known_C05_par P = false /\
  exists all new, par_run 20 P ex_F = Some (all, new) /\ length new = 9%nat.
Proof. split; [reflexivity |]. split; [reflexivity |]. eexists. eexists. split; vm_compute; reflexivity. Qed.
