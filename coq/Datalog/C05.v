(* C05 - Rule materialisation computes exactly the least model of the program.
   (thin slice: theorems are added below as they are proved) *)
Require Import KV.Datalog.LeastModel KV.Datalog.Strategies KV.Datalog.Classes.
