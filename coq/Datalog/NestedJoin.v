(* The nested-loop join that the bucketed hash join of join_algorithm.rs must equal: every row is
   extended by every triple that matches the premise under the row (no hash table, no buckets, no
   early return).  [extend] is the per-(row, triple) meaning of perform_hash_join_for_rules. *)
Require Export KV.Datalog.HashJoin.

Definition extend (a : atom) (r : row) (t : fact) : option row :=
  if prefilter a t then
    match rget (skey a) r, rget (okey a) r with
    | Some s, Some o =>
        if N.eqb s (f_s t) && N.eqb o (f_o t) then bind_predicate r (pred_var a) (f_p t) else None
    | Some s, None =>
        if N.eqb s (f_s t) then bind_predicate (rins (okey a) (f_o t) r) (pred_var a) (f_p t) else None
    | None, Some o =>
        if N.eqb o (f_o t) then bind_predicate (rins (skey a) (f_s t) r) (pred_var a) (f_p t) else None
    | None, None =>
        bind_predicate (rins (okey a) (f_o t) (rins (skey a) (f_s t) r)) (pred_var a) (f_p t)
    end
  else None.

(* triple-major order, as the parallel collect of the code produces it *)
Definition nested_join (a : atom) (triples : list fact) (rows : list row) : list row :=
  flat_map (fun t => omap_rows (fun r => extend a r t) rows) triples.

(* all rows bind the same keys (an invariant of rule evaluation, proved in JoinSemantics.v) *)
Definition bound (k : key) (r : row) : bool := match rget k r with Some _ => true | None => false end.
Definition homogeneous (rows : list row) : Prop :=
  forall r1 r2 k, In r1 rows -> In r2 rows -> bound k r1 = bound k r2.
