(* The keys of VarKeys.v are the strings of the code: rendering the key of a variable gives back its spelling, and
   the renderings of the invented keys are pairwise distinct (so string equality of the code's BTreeMap keys is key
   equality in the model, as long as distinct variables are spelled differently). *)
Require Import KV.Datalog.Syntax KV.Datalog.HashJoin KV.Datalog.VarKeys.
Require Import Coq.Strings.String Coq.Strings.Ascii DecimalString DecimalN.
Local Open Scope string_scope.

Definition kstr (tbl : names) (k : key) : string :=
  match k with
  | KV x => spelling tbl x
  | KS c => subj_prefix ++ dec c
  | KO c => obj_prefix ++ dec c
  end.

Lemma prefix_split : forall p s, prefix p s = true -> s = p ++ substring (String.length p) (String.length s - String.length p) s.
Proof.
  induction p as [|a p IH]; intros s H; cbn.
  - rewrite Nat.sub_0_r. clear H. induction s as [|b s IHs]; cbn; [reflexivity |]. f_equal. exact IHs.
  - destruct s as [|b s]; cbn in H; [discriminate |]. destruct (Ascii.ascii_dec a b) as [-> | Hne]; [| discriminate].
    cbn. f_equal. apply IH. exact H.
Qed.

Lemma undec_some : forall s c, undec s = Some c -> dec c = s.
Proof.
  intros s c H. unfold undec in H. destruct (NilEmpty.uint_of_string s) as [d |]; [| discriminate].
  destruct (String.eqb (dec (N.of_uint d)) s) eqn:E; [| discriminate]. inversion H; subst c. apply String.eqb_eq. exact E.
Qed.

Lemma dec_inj : forall c c', dec c = dec c' -> c = c'.
Proof.
  intros c c' H. unfold dec in H.
  assert (E : Some (N.to_uint c) = Some (N.to_uint c')) by (rewrite <- !NilEmpty.usu, H; reflexivity).
  inversion E as [E']. rewrite <- (DecimalN.Unsigned.of_to c), <- (DecimalN.Unsigned.of_to c'), E'. reflexivity.
Qed.

Lemma append_inj_l : forall p s s', p ++ s = p ++ s' -> s = s'.
Proof. induction p as [|a p IH]; intros s s' H; cbn in H; [exact H |]. inversion H. apply IH. assumption. Qed.

Theorem kstr_vk_of : forall tbl x, kstr tbl (vk_of tbl x) = spelling tbl x.
Proof.
  intros tbl x. unfold vk_of, key_of_spelling, strip.
  destruct (prefix subj_prefix (spelling tbl x)) eqn:E1.
  - destruct (undec _) as [c |] eqn:U; [| reflexivity]. cbn [kstr]. rewrite (undec_some _ _ U). symmetry. apply prefix_split. exact E1.
  - destruct (prefix obj_prefix (spelling tbl x)) eqn:E2; [| reflexivity].
    destruct (undec _) as [c |] eqn:U; [| reflexivity]. cbn [kstr]. rewrite (undec_some _ _ U). symmetry. apply prefix_split. exact E2.
Qed.

Theorem kstr_synthetic_inj : forall tbl k k',
    (forall x, k <> KV x) -> (forall x, k' <> KV x) -> kstr tbl k = kstr tbl k' -> k = k'.
Proof.
  intros tbl [x | c | c] [x' | c' | c'] H1 H2 E; try (exfalso; apply (H1 x); reflexivity); try (exfalso; apply (H2 x'); reflexivity); cbn in E.
  - f_equal. apply dec_inj. apply (append_inj_l subj_prefix). exact E.
  - discriminate.
  - discriminate.
  - f_equal. apply dec_inj. apply (append_inj_l obj_prefix). exact E.
Qed.

Lemma prefix_app : forall p s, prefix p (p ++ s) = true.
Proof.
  induction p as [|a p IH]; intros s; cbn; [destruct s; reflexivity |].
  destruct (Ascii.ascii_dec a a); [apply IH | congruence].
Qed.

Lemma substring_app : forall p s, substring (String.length p) (String.length (p ++ s) - String.length p) (p ++ s) = s.
Proof.
  induction p as [|a p IH]; intros s; cbn.
  - rewrite Nat.sub_0_r. induction s as [|b s IHs]; cbn; [reflexivity | f_equal; exact IHs].
  - apply IH.
Qed.

Lemma undec_dec : forall c, undec (dec c) = Some c.
Proof.
  intros c. unfold undec. unfold dec at 1. rewrite NilEmpty.usu. rewrite DecimalN.Unsigned.of_to. rewrite String.eqb_refl. reflexivity.
Qed.

(* a variable whose spelling is the rendering of an invented key HAS that key (so a variable with key KV x is never
   spelled like an invented key) *)
Theorem spelled_synthetic : forall tbl x c,
    (spelling tbl x = subj_prefix ++ dec c -> vk_of tbl x = KS c) /\
    (spelling tbl x = obj_prefix ++ dec c -> vk_of tbl x = KO c).
Proof.
  intros tbl x c. unfold vk_of, key_of_spelling, strip. split; intros E; rewrite E.
  - rewrite prefix_app, substring_app, undec_dec. reflexivity.
  - assert (N1 : prefix subj_prefix (obj_prefix ++ dec c) = false) by reflexivity.
    rewrite N1, prefix_app, substring_app, undec_dec. reflexivity.
Qed.

(* string equality of the code's keys = key equality of the model *)
Theorem kstr_inj : forall tbl k k',
    (forall x, k = KV x -> vk_of tbl x = KV x) -> (forall x, k' = KV x -> vk_of tbl x = KV x) ->
    (forall x y, k = KV x -> k' = KV y -> spelling tbl x = spelling tbl y -> x = y) ->
    kstr tbl k = kstr tbl k' -> k = k'.
Proof.
  intros tbl k k' G G' D E.
  destruct k as [x | c | c], k' as [x' | c' | c']; cbn in E.
  - f_equal. apply (D x x'); auto.
  - exfalso. pose proof (proj1 (spelled_synthetic tbl x c') E) as X. rewrite (G x eq_refl) in X. discriminate.
  - exfalso. pose proof (proj2 (spelled_synthetic tbl x c') E) as X. rewrite (G x eq_refl) in X. discriminate.
  - exfalso. pose proof (proj1 (spelled_synthetic tbl x' c) (eq_sym E)) as X. rewrite (G' x' eq_refl) in X. discriminate.
  - f_equal. apply dec_inj. apply (append_inj_l subj_prefix). exact E.
  - discriminate.
  - exfalso. pose proof (proj2 (spelled_synthetic tbl x' c) (eq_sym E)) as X. rewrite (G' x' eq_refl) in X. discriminate.
  - discriminate.
  - f_equal. apply dec_inj. apply (append_inj_l obj_prefix). exact E.
Qed.
