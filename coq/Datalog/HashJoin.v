(* MODEL of shared/src/join_algorithm.rs: perform_hash_join_for_rules, build_simple_hash_table,
   process_triple_fast, bind_predicate, extract_join_parameters -- the bucketed string-binding hash
   join that every join-based strategy (naive, semi-naive, provenance) uses for each premise.

   A binding row (BTreeMap<String,String>) is an association list from [key] to ids: the code only
   uses get / insert / clone on a row, and the final conversion (convert_string_binding_to_u32)
   is read through lookups of the rule's variables.  insert shadows, lookup finds the first entry.
   The four buckets of SimpleHashTable are multi-maps (association lists key -> rows in insertion
   order; the code stores the index of the row in a cloned vector, the model stores the row itself).
   rayon's par_chunks + flat_map + collect preserves the order of the triples, so the output is the
   concatenation, triple by triple, of what process_triple_fast pushes. *)
Require Export KV.Datalog.Syntax.

Inductive key :=
| KV (x : name)      (* a rule variable *)
| KS (c : N)         (* "__const_subj_<c>" *)
| KO (c : N).        (* "__const_obj_<c>" *)

Definition key_eqb (a b : key) : bool :=
  match a, b with
  | KV x, KV y => N.eqb x y
  | KS x, KS y => N.eqb x y
  | KO x, KO y => N.eqb x y
  | _, _ => false
  end.

Definition row := list (key * N).
Definition rget (k : key) (r : row) : option N := lookup key_eqb k r.
Definition rins (k : key) (v : N) (r : row) : row := insert k v r.

(* extract_join_parameters *)
Definition skey (a : atom) : key := match a_s a with V x => KV x | C c => KS c end.
Definition okey (a : atom) : key := match a_o a with V x => KV x | C c => KO c end.

Definition const_of (t : term) : option N := match t with C c => Some c | V _ => None end.
Definition pred_var (a : atom) : option name := match a_p a with V x => Some x | C _ => None end.
Definition same_so_var (a : atom) : bool :=
  match a_s a, a_o a with V x, V y => N.eqb x y | _, _ => false end.
Definition opt_is (o : option N) (v : N) : bool := match o with None => true | Some c => N.eqb v c end.

(* the pre-filter of the triples *)
Definition prefilter (a : atom) (t : fact) : bool :=
  opt_is (const_of (a_p a)) (f_p t) && opt_is (const_of (a_s a)) (f_s t) && opt_is (const_of (a_o a)) (f_o t)
  && (negb (same_so_var a) || N.eqb (f_s t) (f_o t)).

(* bind_predicate: match or bind the premise's predicate variable *)
Definition bind_predicate (r : row) (pv : option name) (pid : N) : option row :=
  match pv with
  | None => Some r
  | Some v => match rget (KV v) r with
              | Some e => if N.eqb e pid then Some r else None
              | None => Some (rins (KV v) pid r)
              end
  end.

(* HashMap<K, Vec<row>> with entry(k).or_insert_with(Vec::new).push(row) *)
Section MultiMap.
  Context {K : Type} (keqb : K -> K -> bool).
  Fixpoint mm_push (k : K) (v : row) (m : list (K * list row)) : list (K * list row) :=
    match m with
    | [] => [(k, [v])]
    | (k', vs) :: m' => if keqb k k' then (k', vs ++ [v]) :: m' else (k', vs) :: mm_push k v m'
    end.
  Fixpoint mm_get (k : K) (m : list (K * list row)) : option (list row) :=
    match m with
    | [] => None
    | (k', vs) :: m' => if keqb k k' then Some vs else mm_get k m'
    end.
End MultiMap.

Definition pair_eqb (a b : N * N) : bool := N.eqb (fst a) (fst b) && N.eqb (snd a) (snd b).

Record table := Table {
  both_bound : list ((N * N) * list row);
  subject_bound : list (N * list row);
  object_bound : list (N * list row);
  neither_bound : list row
}.
Definition empty_table : table := Table [] [] [] [].

(* build_simple_hash_table: one pass over the rows *)
Definition table_add (sk ok : key) (tb : table) (r : row) : table :=
  match rget sk r, rget ok r with
  | Some s, Some o => Table (mm_push pair_eqb (s, o) r (both_bound tb)) (subject_bound tb) (object_bound tb) (neither_bound tb)
  | Some s, None => Table (both_bound tb) (mm_push N.eqb s r (subject_bound tb)) (object_bound tb) (neither_bound tb)
  | None, Some o => Table (both_bound tb) (subject_bound tb) (mm_push N.eqb o r (object_bound tb)) (neither_bound tb)
  | None, None => Table (both_bound tb) (subject_bound tb) (object_bound tb) (neither_bound tb ++ [r])
  end.
Definition build_table (rows : list row) (sk ok : key) : table := fold_left (table_add sk ok) rows empty_table.

Definition omap_rows (f : row -> option row) (l : list row) : list row :=
  flat_map (fun r => match f r with Some r' => [r'] | None => [] end) l.
Definition bucket (o : option (list row)) : list row := match o with Some l => l | None => [] end.

(* process_triple_fast: both-bound bucket with early return, then subject-bound, object-bound, neither *)
Definition process_triple (t : fact) (sk ok : key) (pv : option name) (tb : table) : list row :=
  match mm_get pair_eqb (f_s t, f_o t) (both_bound tb) with
  | Some rs => omap_rows (fun r => bind_predicate r pv (f_p t)) rs
  | None =>
      omap_rows (fun r => bind_predicate (rins ok (f_o t) r) pv (f_p t)) (bucket (mm_get N.eqb (f_s t) (subject_bound tb)))
      ++ omap_rows (fun r => bind_predicate (rins sk (f_s t) r) pv (f_p t)) (bucket (mm_get N.eqb (f_o t) (object_bound tb)))
      ++ omap_rows (fun r => bind_predicate (rins ok (f_o t) (rins sk (f_s t) r)) pv (f_p t)) (neither_bound tb)
  end.

(* perform_hash_join_for_rules *)
Definition hash_join (a : atom) (triples : list fact) (rows : list row) : list row :=
  match rows with
  | [] => []
  | _ =>
      match filter (prefilter a) triples with
      | [] => []
      | ft =>
          let tb := build_table rows (skey a) (okey a) in
          flat_map (fun t => process_triple t (skey a) (okey a) (pred_var a) tb) ft
      end
  end.
