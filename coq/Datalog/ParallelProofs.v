(* The parallel strategy as written (semi_naive_parallel.rs): outside the class known_C05_par
   (rules with at most two premises, constant predicates in the premises, no filters) it computes
   the least model. *)
Require Import KV.Datalog.Syntax KV.Datalog.LeastModel KV.Datalog.BasicLemmas KV.Datalog.LeastModelProofs.
Require Import KV.Datalog.HashJoin KV.Datalog.Strategies KV.Datalog.Classes.
Require Import KV.Datalog.RoundProofs KV.Datalog.DriverProofs KV.Datalog.MainProofs.

(* matches_rule_pattern is the Spec's match_atom (same computation on name -> id association lists) *)
Lemma mrp_match_atom : forall a f b, matches_rule_pattern a f b = match_atom a f b.
Proof. reflexivity. Qed.
Lemma b_inst_inst : forall b c, b_inst b c = inst (sub_val b) c.
Proof. reflexivity. Qed.

(* ---- candidate lookup ---------------------------------------------------------------------------- *)
Lemma combine_seq_In : forall (A : Type) (l : list A) s i x,
    In (i, x) (combine (seq s (length l)) l) <-> (s <= i)%nat /\ nth_error l (i - s) = Some x.
Proof.
  intros A l. induction l as [|y l IH]; intros s i x; cbn.
  - split; [intros [] | intros [_ H]; destruct (i - s)%nat; discriminate].
  - rewrite IH. split.
    + intros [H | [H1 H2]].
      * inversion H; subst. rewrite Nat.sub_diag. auto.
      * split; [lia |]. replace (i - s)%nat with (S (i - S s)) by lia. exact H2.
    + intros [H1 H2]. destruct (Nat.eq_dec i s) as [-> | Hne].
      * rewrite Nat.sub_diag in H2. cbn in H2. inversion H2. auto.
      * right. split; [lia |]. replace (i - s)%nat with (S (i - S s)) in H2 by lia. exact H2.
Qed.

Lemma build_index_In : forall P k rid,
    In (k, rid) (build_index P) <->
    exists r a, nth_error P rid = Some r /\ In a (prem r) /\ k = (const_of (a_s a), const_of (a_p a), const_of (a_o a)).
Proof.
  intros P k rid. unfold build_index. rewrite in_flat_map. split.
  - intros [[i r] [Hir H]]. apply combine_seq_In in Hir. destruct Hir as [_ Hn]. rewrite Nat.sub_0_r in Hn.
    cbn [fst snd] in H. apply in_map_iff in H. destruct H as [a [E Ha]]. inversion E; subst. eauto.
  - intros [r [a [Hn [Ha ->]]]]. exists (rid, r). split.
    + apply combine_seq_In. split; [lia |]. rewrite Nat.sub_0_r. exact Hn.
    + cbn [fst snd]. apply in_map_iff. exists a. auto.
Qed.

Lemma nat_add_In : forall i j l, In j (nat_add i l) <-> j = i \/ In j l.
Proof.
  intros i j l. unfold nat_add. destruct (existsb (Nat.eqb i) l) eqn:E.
  - apply existsb_exists in E. destruct E as [x [Hx E]]. apply Nat.eqb_eq in E. subst x.
    split; [auto | intros [-> | H]; auto].
  - rewrite in_app_iff. cbn. split; [intros [H | [H | []]]; auto | intros [-> | H]; auto].
Qed.

Lemma candidates_In : forall idx p rid,
    In rid (candidates_by_pred idx p) <-> exists k, In (k, rid) idx /\ snd (fst k) = Some p.
Proof.
  intros idx p rid. unfold candidates_by_pred.
  assert (G : forall acc, In rid (fold_left (fun acc e => match snd (fst (fst e)) with
                                                   | Some q => if N.eqb q p then nat_add (snd e) acc else acc
                                                   | None => acc end) idx acc)
                          <-> In rid acc \/ exists k, In (k, rid) idx /\ snd (fst k) = Some p).
  { induction idx as [|[k i] idx IH]; intros acc; cbn [fold_left].
    - split; [auto | intros [H | [k [[] _]]]; exact H].
    - rewrite IH. cbn [fst snd]. destruct (snd (fst k)) as [q |] eqn:Eq.
      + destruct (N.eqb q p) eqn:Eqp.
        * apply N.eqb_eq in Eqp. subst q. rewrite nat_add_In. split.
          -- intros [[-> | H] | [k' [H1 H2]]]; [right; exists k; split; [left; reflexivity | exact Eq] | auto | right; exists k'; split; [right; exact H1 | exact H2]].
          -- intros [H | [k' [[H1 | H1] H2]]]; [auto | inversion H1; subst; auto | right; exists k'; auto].
        * apply N.eqb_neq in Eqp. split.
          -- intros [H | [k' [H1 H2]]]; [auto | right; exists k'; split; [right; exact H1 | exact H2]].
          -- intros [H | [k' [[H1 | H1] H2]]]; [auto | inversion H1; subst; congruence | right; exists k'; auto].
      + split.
        * intros [H | [k' [H1 H2]]]; [auto | right; exists k'; split; [right; exact H1 | exact H2]].
        * intros [H | [k' [[H1 | H1] H2]]]; [auto | inversion H1; subst; congruence | right; exists k'; auto]. }
  rewrite G. cbn. split; [intros [[] | H]; exact H | auto].
Qed.

Lemma candidates_spec : forall P p rid,
    In rid (candidates_by_pred (build_index P) p) <->
    exists r a, nth_error P rid = Some r /\ In a (prem r) /\ a_p a = C p.
Proof.
  intros P p rid. rewrite candidates_In. split.
  - intros [k [Hk Hp]]. apply build_index_In in Hk. destruct Hk as [r [a [Hn [Ha ->]]]]. cbn [fst snd] in Hp.
    exists r, a. split; [exact Hn |]. split; [exact Ha |]. destruct (a_p a); cbn in Hp; [discriminate | inversion Hp; reflexivity].
  - intros [r [a [Hn [Ha Hp]]]]. exists (const_of (a_s a), const_of (a_p a), const_of (a_o a)). split.
    + apply build_index_In. eauto.
    + cbn [fst snd]. rewrite Hp. reflexivity.
Qed.

(* ---- one candidate rule fired by one delta triple ------------------------------------------------ *)
Definition par_ok (r : rule) : Prop := safe_rule r = true /\ par_unsupported r = false.

Lemma par_ok_spec : forall r, par_ok r ->
    (length (prem r) <= 2)%nat /\ (forall a, In a (prem r) -> exists p, a_p a = C p) /\ filt r = [] /\
    prem r <> [] /\ (forall c x, In c (concl r) -> In x (atom_vars c) -> In x (atoms_vars (prem r))).
Proof.
  intros r [HS HU]. unfold par_unsupported in HU. apply orb_false_iff in HU. destruct HU as [HU H3].
  apply orb_false_iff in HU. destruct HU as [H1 H2].
  destruct (safe_rule_spec r HS) as [Hne [RC _]].
  split; [apply Nat.ltb_ge in H1; exact H1 |]. split; [| split; [| split; assumption]].
  - intros a Ha. destruct (a_p a) as [x | p] eqn:E; [| eauto].
    exfalso. assert (X : existsb (fun a => is_var (a_p a)) (prem r) = true).
    { apply existsb_exists. exists a. split; [exact Ha |]. rewrite E. reflexivity. }
    congruence.
  - destruct (filt r); [reflexivity | discriminate].
Qed.

(* instances of the conclusions under a matcher result *)
Lemma fire_one : forall (a : atom) (t : fact) (b0 : sub) (cs : list atom) f,
    In f (match match_atom a t b0 with Some b => map (b_inst b) cs | None => [] end) <->
    exists b c, match_atom a t b0 = Some b /\ In c cs /\ f = inst (sub_val b) c.
Proof.
  intros a t b0 cs f. destruct (match_atom a t b0) as [b |].
  - rewrite in_map_iff. split.
    + intros [c [E Hc]]. exists b, c. rewrite <- E. auto.
    + intros [b' [c [E [Hc ->]]]]. inversion E; subst b'. exists c. auto.
  - split; [intros [] | intros [b [c [E _]]]; discriminate].
Qed.

Lemma sub_val_eq : forall s sg x, sagrees s sg -> sdom s x -> sub_val s x = sg x.
Proof.
  intros s sg x A D. unfold sub_val, sdom in *. destruct (slookup x s) as [v |] eqn:E; [| congruence].
  symmetry. apply A. exact E.
Qed.

(* single premise *)
Lemma fire1_spec : forall a t cs f,
    (forall c x, In c cs -> In x (atom_vars c) -> In x (atom_vars a)) ->
    ((exists b c, match_atom a t [] = Some b /\ In c cs /\ f = inst (sub_val b) c) <->
     (exists sg c, inst sg a = t /\ In c cs /\ f = inst sg c)).
Proof.
  intros a t cs f RC. split.
  - intros [b [c [E [Hc ->]]]]. destruct (match_atom_sound _ _ _ _ E) as [A _].
    exists (sub_val b), c. split; [| auto]. apply (A (sub_val b)). apply sagrees_sub_val.
  - intros [sg [c [E [Hc ->]]]]. destruct (match_atom_complete a t [] sg (sagrees_nil sg) E) as [b Eb].
    destruct (match_atom_sound _ _ _ _ Eb) as [A D].
    assert (Ab : sagrees b sg) by (apply A; split; [apply sagrees_nil | exact E]).
    exists b, c. split; [exact Eb |]. split; [exact Hc |]. apply inst_ext. intros x Hx. symmetry.
    apply (sub_val_eq b sg x Ab). apply D. right. apply (RC c x Hc Hx).
Qed.

(* two premises: the first against the delta triple, the second against every fact *)
Lemma fire2_spec : forall a a' t all cs f,
    (forall c x, In c cs -> In x (atom_vars c) -> In x (atom_vars a) \/ In x (atom_vars a')) ->
    (In f (match match_atom a t [] with
           | Some b1 => flat_map (fun t2 => match match_atom a' t2 b1 with Some b2 => map (b_inst b2) cs | None => [] end) all
           | None => []
           end) <->
     (exists sg c, inst sg a = t /\ In (inst sg a') all /\ In c cs /\ f = inst sg c)).
Proof.
  intros a a' t all cs f RC. split.
  - destruct (match_atom a t []) as [b1 |] eqn:E1; [| intros []].
    rewrite in_flat_map. intros [t2 [Ht2 H]]. apply fire_one in H. destruct H as [b2 [c [E2 [Hc ->]]]].
    destruct (match_atom_sound _ _ _ _ E1) as [A1 _]. destruct (match_atom_sound _ _ _ _ E2) as [A2 _].
    pose proof (sagrees_sub_val b2) as Ag. apply A2 in Ag. destruct Ag as [Ag1 Eq2]. apply A1 in Ag1. destruct Ag1 as [_ Eq1].
    exists (sub_val b2), c. rewrite Eq2. auto.
  - intros [sg [c [E1 [H2 [Hc ->]]]]].
    destruct (match_atom_complete a t [] sg (sagrees_nil sg) E1) as [b1 Eb1]. rewrite Eb1.
    destruct (match_atom_sound _ _ _ _ Eb1) as [A1 D1].
    assert (Ab1 : sagrees b1 sg) by (apply A1; split; [apply sagrees_nil | exact E1]).
    destruct (match_atom_complete a' (inst sg a') b1 sg Ab1 eq_refl) as [b2 Eb2].
    destruct (match_atom_sound _ _ _ _ Eb2) as [A2 D2].
    assert (Ab2 : sagrees b2 sg) by (apply A2; auto).
    apply in_flat_map. exists (inst sg a'). split; [exact H2 |]. apply fire_one. exists b2, c.
    split; [exact Eb2 |]. split; [exact Hc |]. apply inst_ext. intros x Hx. symmetry.
    apply (sub_val_eq b2 sg x Ab2). apply D2. destruct (RC c x Hc Hx) as [Hx' | Hx']; [left; apply D1; right; exact Hx' | right; exact Hx'].
Qed.

Lemma par_fire_spec : forall r t1 all f,
    par_ok r -> In t1 all ->
    (In f (par_fire r t1 all) <->
     exists sg c, (forall a, In a (prem r) -> In (inst sg a) all) /\ (exists a, In a (prem r) /\ inst sg a = t1) /\
                  In c (concl r) /\ f = inst sg c).
Proof.
  intros r t1 all f OK Ht1. destruct (par_ok_spec r OK) as [Hlen [_ [_ [Hne RC]]]].
  unfold par_fire. destruct (prem r) as [|a0 [|a1 [|a2 ps]]] eqn:Ep; [congruence | | | cbn in Hlen; lia].
  - (* one premise *)
    rewrite mrp_match_atom, fire_one, fire1_spec.
    2:{ intros c x Hc Hx. pose proof (RC c x Hc Hx) as H. unfold atoms_vars in H. cbn in H. rewrite app_nil_r in H. exact H. }
    split.
    + intros [sg [c [E [Hc ->]]]]. exists sg, c. split; [intros a [<- | []]; rewrite E; exact Ht1 |].
      split; [exists a0; split; [left; reflexivity | exact E] | auto].
    + intros [sg [c [_ [[a [[<- | []] E]] [Hc ->]]]]]. exists sg, c. auto.
  - (* two premises *)
    assert (RC2 : forall c x, In c (concl r) -> In x (atom_vars c) -> In x (atom_vars a0) \/ In x (atom_vars a1)).
    { intros c x Hc Hx. pose proof (RC c x Hc Hx) as H. unfold atoms_vars in H. cbn in H. rewrite app_nil_r in H.
      apply in_app_iff in H. exact H. }
    rewrite in_app_iff. rewrite (fire2_spec a0 a1 t1 all (concl r) f RC2).
    rewrite (fire2_spec a1 a0 t1 all (concl r) f) by (intros c x Hc Hx; destruct (RC2 c x Hc Hx); auto).
    split.
    + intros [[sg [c [E [H2 [Hc ->]]]]] | [sg [c [E [H2 [Hc ->]]]]]]; exists sg, c.
      * split; [intros a [<- | [<- | []]]; [rewrite E; exact Ht1 | exact H2] |].
        split; [exists a0; split; [left; reflexivity | exact E] | auto].
      * split; [intros a [<- | [<- | []]]; [exact H2 | rewrite E; exact Ht1] |].
        split; [exists a1; split; [right; left; reflexivity | exact E] | auto].
    + intros [sg [c [Hall [[a [[<- | [<- | []]] E]] [Hc ->]]]]].
      * left. exists sg, c. split; [exact E |]. split; [apply Hall; right; left; reflexivity | auto].
      * right. exists sg, c. split; [exact E |]. split; [apply Hall; left; reflexivity | auto].
Qed.

(* ---- one round ------------------------------------------------------------------------------------ *)
Lemma par_round_In : forall P idx all delta f,
    In f (par_round P idx all delta) <->
    ~ In f all /\ exists t1 rid r, In t1 delta /\ In rid (candidates_by_pred idx (f_p t1)) /\
                                   nth_error P rid = Some r /\ In f (par_fire r t1 all).
Proof.
  intros P idx all delta f. unfold par_round.
  assert (G1 : forall t1 rids acc,
             In f (fold_left (fun acc rid => match nth_error P rid with
                                             | Some r => fold_left (fun acc f => if mem f all then acc else set_add f acc) (par_fire r t1 all) acc
                                             | None => acc end) rids acc)
             <-> In f acc \/ (~ In f all /\ exists rid r, In rid rids /\ nth_error P rid = Some r /\ In f (par_fire r t1 all))).
  { intros t1 rids. induction rids as [|rid rids IH]; intros acc; cbn [fold_left].
    - split; [auto | intros [H | [_ [rid [r [[] _]]]]]; exact H].
    - rewrite IH. destruct (nth_error P rid) as [r |] eqn:En.
      + change (fold_left (fun acc f => if mem f all then acc else set_add f acc) (par_fire r t1 all) acc) with (collect all (par_fire r t1 all) acc).
        rewrite collect_In. split.
        * intros [[H | [H1 H2]] | [Hk [rid' [r' [H1 H2]]]]]; [auto | right; split; [exact H2 |]; exists rid, r; cbn; auto | right; split; [exact Hk |]; exists rid', r'; cbn; tauto].
        * intros [H | [Hk [rid' [r' [[<- | H1] [H2 H3]]]]]]; [auto | left; right; split; [congruence | exact Hk] | right; split; [exact Hk |]; exists rid', r'; auto].
      + split.
        * intros [H | [Hk [rid' [r' [H1 H2]]]]]; [auto | right; split; [exact Hk |]; exists rid', r'; cbn; tauto].
        * intros [H | [Hk [rid' [r' [[<- | H1] [H2 H3]]]]]]; [auto | congruence | right; split; [exact Hk |]; exists rid', r'; auto]. }
  assert (G2 : forall delta acc,
             In f (fold_left (fun acc t1 => fold_left (fun acc rid => match nth_error P rid with
                                             | Some r => fold_left (fun acc f => if mem f all then acc else set_add f acc) (par_fire r t1 all) acc
                                             | None => acc end) (candidates_by_pred idx (f_p t1)) acc) delta acc)
             <-> In f acc \/ (~ In f all /\ exists t1 rid r, In t1 delta /\ In rid (candidates_by_pred idx (f_p t1)) /\ nth_error P rid = Some r /\ In f (par_fire r t1 all))).
  { induction delta0 as [|t1 delta0 IH]; intros acc; cbn [fold_left].
    - split; [auto | intros [H | [_ [t1 [rid [r [[] _]]]]]]; exact H].
    - rewrite IH, G1. split.
      + intros [[H | [Hk [rid [r H]]]] | [Hk [t1' [rid [r [H1 H2]]]]]]; [auto | right; split; [exact Hk |]; exists t1, rid, r; cbn; tauto | right; split; [exact Hk |]; exists t1', rid, r; cbn; tauto].
      + intros [H | [Hk [t1' [rid [r [[<- | H1] H2]]]]]]; [auto | left; right; split; [exact Hk |]; exists rid, r; exact H2 | right; split; [exact Hk |]; exists t1', rid, r; auto]. }
  rewrite G2. cbn [In]. tauto.
Qed.

Lemma par_round_NoDup : forall P idx all delta, NoDup (par_round P idx all delta).
Proof.
  intros P idx all delta. unfold par_round.
  assert (G : forall (l : list fact) acc, NoDup acc -> NoDup (fold_left (fun acc f => if mem f all then acc else set_add f acc) l acc)).
  { intros l acc H. apply (collect_NoDup all l acc H). }
  assert (G1 : forall t1 rids acc, NoDup acc ->
             NoDup (fold_left (fun acc rid => match nth_error P rid with
                                             | Some r => fold_left (fun acc f => if mem f all then acc else set_add f acc) (par_fire r t1 all) acc
                                             | None => acc end) rids acc)).
  { intros t1 rids. induction rids as [|rid rids IH]; intros acc H; cbn [fold_left]; [exact H |].
    apply IH. destruct (nth_error P rid); [apply G; exact H | exact H]. }
  assert (G2 : forall delta acc, NoDup acc ->
             NoDup (fold_left (fun acc t1 => fold_left (fun acc rid => match nth_error P rid with
                                             | Some r => fold_left (fun acc f => if mem f all then acc else set_add f acc) (par_fire r t1 all) acc
                                             | None => acc end) (candidates_by_pred idx (f_p t1)) acc) delta acc)).
  { induction delta0 as [|t1 delta0 IH]; intros acc H; cbn [fold_left]; [exact H |]. apply IH. apply G1. exact H. }
  apply G2. constructor.
Qed.

Theorem par_round_spec : forall nv P all delta f,
    (forall r, In r P -> par_ok r) -> (forall g, In g delta -> In g all) ->
    (In f (par_round P (build_index P) all delta) <-> delta_step nv P all delta f /\ ~ In f all).
Proof.
  intros nv P all delta f HP Hd. rewrite par_round_In. split.
  - intros [Hk [t1 [rid [r [Ht1 [_ [Hn Hf]]]]]]]. split; [| exact Hk].
    assert (Hr : In r P) by (apply (nth_error_In _ _ Hn)).
    apply (par_fire_spec r t1 all f (HP r Hr) (Hd t1 Ht1)) in Hf.
    destruct Hf as [sg [c [Hall [[a [Ha E]] [Hc ->]]]]].
    destruct (par_ok_spec r (HP r Hr)) as [_ [_ [Hfl _]]].
    exists r, sg, c. split; [exact Hr |]. split; [exact Hall |]. split; [exists a; split; [exact Ha | rewrite E; exact Ht1] |].
    rewrite Hfl. auto.
  - intros [[r [sg [c [Hr [Hall [[a [Ha Had]] [_ [Hc ->]]]]]]]] Hk]. split; [exact Hk |].
    destruct (In_nth_error _ _ Hr) as [rid Hn].
    destruct (par_ok_spec r (HP r Hr)) as [_ [Hcp _]]. destruct (Hcp a Ha) as [p Hp].
    exists (inst sg a), rid, r. split; [exact Had |]. split; [| split; [exact Hn |]].
    + apply candidates_spec. exists r, a. split; [exact Hn |]. split; [exact Ha |].
      rewrite Hp. unfold inst, f_p. cbn [fst snd]. rewrite Hp. reflexivity.
    + apply (par_fire_spec r (inst sg a) all _ (HP r Hr) (Hd _ Had)). exists sg, c.
      split; [exact Hall |]. split; [exists a; auto | auto].
Qed.

(* ---- the loop ---------------------------------------------------------------------------------------- *)
Section Par.
  Variables (nv : N -> Z) (P : list rule) (F : list fact).
  Hypothesis HP : forall r, In r P -> par_ok r.

  Lemma par_safe : safe P = true.
  Proof. unfold safe. apply forallb_forall. intros r Hr. apply (HP r Hr). Qed.

  Definition pinv (all delta inferred : list fact) : Prop :=
    (forall g, In g all -> derives nv P F g) /\
    all = F ++ inferred /\ NoDup inferred /\ (forall g, In g inferred -> ~ In g F) /\
    exists old, all = old ++ delta /\ (forall g, one_step nv P old g -> In g all).

  Lemma par_loop_correct : forall fuel all delta inferred res new,
      pinv all delta inferred ->
      par_loop fuel P (build_index P) all delta inferred = Some (res, new) ->
      (forall f, In f res <-> derives nv P F f) /\
      (forall f, In f new <-> derives nv P F f /\ ~ In f F) /\ NoDup new.
  Proof.
    induction fuel as [|k IH]; intros all delta inferred res new HI H; cbn in H; [discriminate |].
    destruct HI as [HD [Hall [Hnd [Hdis [old [Hold Hcl]]]]]].
    assert (Hda : forall g, In g delta -> In g all) by (intros g Hg; rewrite Hold; apply in_app_iff; auto).
    pose proof (fun f => par_round_spec nv P all delta f HP Hda) as RS.
    assert (CL : forall all', (forall g, In g all -> In g all') ->
                              (forall g, delta_step nv P all delta g -> In g all') ->
                              forall g, one_step nv P all g -> In g all').
    { intros all' Hsub Hdl. apply (semi_closure nv P (length old) all all' Hsub).
      - intros g Hg. apply Hcl. rewrite Hold in Hg. rewrite firstn_app_exact in Hg. exact Hg.
      - intros g Hg. apply Hdl. replace delta with (skipn (length old) all); [exact Hg | rewrite Hold; apply skipn_app_exact]. }
    destruct (par_round P (build_index P) all delta) as [|n ns] eqn:E.
    - inversion H; subst res new.
      assert (M : forall f, In f all <-> derives nv P F f).
      { apply least_model_char; [intros g Hg; rewrite Hall; apply in_app_iff; auto | exact HD |].
        apply (CL all); [auto |]. intros g Hg. destruct (In_fact_dec g all) as [Hin | Hnin]; [exact Hin |].
        assert (X : In g []) by (apply RS; auto). destruct X. }
      split; [exact M |]. split; [| exact Hnd]. intros f. split.
      + intros Hf. split; [apply M; rewrite Hall; apply in_app_iff; auto | auto].
      + intros [Hf Hn]. apply M in Hf. rewrite Hall in Hf. apply in_app_iff in Hf. destruct Hf; [contradiction | assumption].
    - apply (IH (all ++ n :: ns) (n :: ns) (inferred ++ n :: ns) res new); [| exact H].
      pose proof (par_round_NoDup P (build_index P) all delta) as ND. rewrite E in ND.
      assert (NEW : forall g, In g (n :: ns) -> delta_step nv P all delta g /\ ~ In g all) by (intros g Hg; apply RS; exact Hg).
      split; [| split; [| split; [| split]]].
      + intros g Hg. apply in_app_iff in Hg. destruct Hg as [Hg | Hg]; [auto |].
        destruct (NEW g Hg) as [[r [sg [c [Hr [Hp [_ [Hf [Hc ->]]]]]]]] _].
        apply (derives_step nv P F all _ HD). exists r, sg, c. auto.
      + rewrite Hall, app_assoc. reflexivity.
      + apply NoDup_app_iff_local; [exact Hnd | exact ND |]. intros x Hx Hx'. destruct (NEW x Hx') as [_ Hn]. apply Hn.
        rewrite Hall. apply in_app_iff. auto.
      + intros g Hg. apply in_app_iff in Hg. destruct Hg as [Hg | Hg]; [auto |]. destruct (NEW g Hg) as [_ Hn].
        intros HF. apply Hn. rewrite Hall. apply in_app_iff. auto.
      + exists all. split; [reflexivity |]. apply (CL (all ++ n :: ns)); [intros g Hg; apply in_app_iff; auto |].
        intros g Hg. apply in_app_iff. destruct (In_fact_dec g all) as [Hin | Hnin]; [auto | right]. apply RS. auto.
  Qed.

  Theorem par_correct : forall fuel all new,
      par_run fuel P F = Some (all, new) ->
      (forall f, In f all <-> derives nv P F f) /\
      (forall f, In f new <-> derives nv P F f /\ ~ In f F) /\ NoDup new.
  Proof.
    intros fuel all new H. unfold par_run in H. apply (par_loop_correct fuel F F [] all new); [| exact H].
    split; [intros g Hg; apply d_base; exact Hg |]. split; [rewrite app_nil_r; reflexivity |].
    split; [constructor |]. split; [intros g [] |]. exists []. split; [reflexivity |].
    intros g [r [sg [c [Hr [Hp _]]]]]. destruct (par_ok_spec r (HP r Hr)) as [_ [_ [_ [Hne _]]]].
    destruct (prem r) as [|a ps]; [congruence |]. destruct (Hp a (or_introl eq_refl)).
  Qed.
End Par.

Lemma known_par_false : forall P, safe P = true -> known_C05_par P = false -> forall r, In r P -> par_ok r.
Proof.
  intros P HS HK r Hr. split; [apply (safe_In P r HS Hr) |].
  unfold known_C05_par in HK. destruct (par_unsupported r) eqn:E; [| reflexivity].
  assert (X : existsb par_unsupported P = true) by (apply existsb_exists; exists r; auto). congruence.
Qed.
