(* Entry points of the correspondence check (checks/c05.py): all strategies of the model and the
   Spec oracle on one program, rendered as options of lists of triples. *)
Require Import KV.Datalog.LeastModel KV.Datalog.Stratified KV.Datalog.Strategies KV.Datalog.Classes.

Definition nv_tbl (tbl : list (N * Z)) (c : N) : Z :=
  match find (fun e => N.eqb (fst e) c) tbl with Some e => snd e | None => 0%Z end.

(* (facts in the store, returned new facts, new facts returned by a second run on that store) *)
Definition twice (run : list fact -> option (list fact * list fact)) (F : list fact)
  : option (list fact * list fact * list fact) :=
  match run F with
  | None => None
  | Some (all, new) => match run all with
                       | None => None
                       | Some (_, again) => Some (all, new, again)
                       end
  end.

Definition run_all (tbl : list (N * Z)) (fuel : nat) (P : list rule) (F : list fact) :=
  let nv := nv_tbl tbl in
  (twice (naive_run nv fuel P) F,
   twice (semi_run nv fuel P) F,
   twice (par_run fuel P) F,
   twice (prov_bool_run nv fuel P) F,
   least_model nv fuel P F,
   (known_C05_par P, known_C05_neg P, safe P),
   (if known_C05_neg P then stratified_exec nv fuel P F else None, known_C05_neg_feed P, forallb check_rule_safety P)).

(* function-level stream: the bucketed join on explicit rows *)
Definition rkey (k : key) : N * N := match k with KV x => (0, x) | KS c => (1, c) | KO c => (2, c) end.
Definition run_join (a : atom) (facts : list fact) (rows : list row) : list (list (N * N * N)) :=
  map (fun r => map (fun e => (rkey (fst e), snd e)) r) (hash_join a facts rows).

(* large-fact-set stream: only the (proved) executable Specs are evaluated; rendered as a sorted-insensitive
   list (the check compares sets) *)
Definition run_spec (tbl : list (N * Z)) (fuel : nat) (P : list rule) (F : list fact) :=
  let nv := nv_tbl tbl in
  (if known_C05_neg P then None else least_model nv fuel P F,
   if known_C05_neg P then stratified_exec nv fuel P F else None,
   (known_C05_par P, known_C05_neg P, safe P, known_C05_neg_feed P)).

(* programs whose variables carry an explicit spelling: the class boolean of C05-synthetic-var-capture and the
   string-spelling variant of the naive strategy (VarKeys.v) *)
Require Import KV.Datalog.VarKeys.
Definition run_spelled (names_tbl : names) (tbl : list (N * Z)) (fuel : nat) (P : list rule) (F : list fact) :=
  (negb (no_synthetic_names names_tbl P), twice (vnaive_run (vk_of names_tbl) (nv_tbl tbl) fuel P) F).
