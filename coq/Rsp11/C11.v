(* C11 - Multi-window results are joins of what each window itself reported.
   Only the property theorems; each is closed by `exact <lemma>` (or a conjunction of lemmas) and followed by
   Print Assumptions.  Model: Model.v (single-thread bookkeeping `run`, multi-thread bookkeeping `mrun`);
   specification: Spec.v (`Good`, the known class `known_C11`). *)
Require Import List NArith Bool Permutation.
Require Import KV.Rsp11.Model KV.Rsp11.Spec KV.Rsp11.Run.
Require Import KV.Rsp11.BindProofs KV.Rsp11.JoinProofs KV.Rsp11.RunProofs KV.Rsp11.OwnProofs KV.Rsp11.JoinPermProofs.
Import ListNotations.
Local Open Scope N_scope.

(* UNCONDITIONAL: in every history (single- and multi-thread bookkeeping) the static part of every emitted
   solution is an answer of the static patterns over the static store only; and nothing on the window side
   (shared store, per-window contents, per-window results, buffers) depends on the static patterns or on the
   static store: two configurations with the same blocks and policy compute the same window side. *)
Theorem C11_static_separate :
  (forall c acts, wf_acts c acts = true ->
     forall out, In out (emissions c acts) -> forall row, In row out ->
       exists s, static_answer c s /\ sub s row) /\
  (forall c acts, mwf_acts c acts = true ->
     forall out, In out (memissions c acts) -> forall row, In row out ->
       exists s, static_answer c s /\ sub s row) /\
  (forall c c' acts, blocks c = blocks c' -> pol c = pol c' ->
     window_side (fst (run c init acts)) = window_side (fst (run c' init acts))).
Proof. exact (conj static_part_st (conj static_part_mt static_never_seen)). Qed.
Print Assumptions C11_static_separate.

(* natural_join computes the natural join: its rows are exactly the merges of compatible pairs, a merge is the
   union of the two maps; every row of join_window_results extends one row of every buffer; and the result does
   not depend on the order in which the buffers are listed (HashMap::values()), up to permutation - for rows
   sorted by variable, which is what every single-thread run buffers. *)
Theorem C11_join :
  (forall L R row, In row (natural_join L R) <->
     exists l r, In l L /\ In r R /\ compatible l r = true /\ row = merge l r) /\
  (forall r l k, ukeys r ->
     lookup k (merge l r) = match lookup k r with Some y => Some y | None => lookup k l end) /\
  (forall bufs row, (forall w r, In w bufs -> In r w -> ukeys r) ->
     In row (join_window_results bufs) -> forall w, In w bufs -> exists a, In a w /\ sub a row) /\
  (forall bufs bufs', Permutation bufs bufs' -> bufs_sorted bufs ->
     Permutation (join_window_results bufs) (join_window_results bufs')) /\
  (forall c acts, wf_acts c acts = true -> bufs_sorted (map snd (buffers (fst (run c init acts))))).
Proof.
  exact (conj natural_join_In (conj lookup_merge (conj join_window_results_parts
        (conj join_window_results_perm run_buffers_sorted)))).
Qed.
Print Assumptions C11_join.

(* The property, outside the known class: for EVERY single-thread history (any interleaving of firings of any
   windows with any contents, and drains) in which no firing of a window i found in the shared store a triple
   that is foreign to the content i reports and matches one of block i's patterns, every emitted solution is Good:
   restricted to each block's variables it contains an answer of that block over a content that very window
   reported, and its static part is an answer over the static store. *)
Theorem C11_own_window :
  forall c acts, wf_acts c acts = true -> known_C11 c acts = false ->
    forall out, In out (emissions c acts) -> forall row, In row out -> Good c (reports_of acts) row.
Proof. exact own_window_st. Qed.
Print Assumptions C11_own_window.

(* The same for the multi-thread bookkeeping (workers fire in any order under the store's mutex, the coordinator
   takes any non-empty batches of pending results with replace semantics, deadlines expire at any time).
   A theorem about the transition-system model; the real threads, channels and timers are outside it. *)
Theorem C11_own_window_mt :
  forall c acts, mwf_acts c acts = true -> mknown_C11 c acts = false ->
    forall out, In out (memissions c acts) -> forall row, In row out -> Good c (mreports_of acts) row.
Proof. exact own_window_mt. Qed.
Print Assumptions C11_own_window_mt.

(* The executable oracle the check evaluates on the implementation's output decides the specification. *)
Theorem C11_oracle_decides : forall c rp row, goodb c rp row = true <-> Good c rp row.
Proof. exact goodb_spec. Qed.
Print Assumptions C11_oracle_decides.

(* The known finding C11-shared-store-leak, on the faithful model: two windows over two streams whose items use
   the same predicate 11; block 0 = ?0 11 ?1, block 1 = ?2 11 ?3.  Window 0 reports {(1,11,2)}, window 1 reports
   {(4,11,3)}; the emission contains a solution whose block-1 part (?2=1, ?3=2) is the item of stream 0. *)
Definition leak_cfg : cfg := mkCfg [[(V 0, C 11, V 1)]; [(V 2, C 11, V 3)]] None [] Wait RSTREAM.
Definition leak_acts : list action := [Drain; Fire 0 [(1, 11, 2)]; Drain; Fire 1 [(4, 11, 3)]; Drain].
Definition leak_row : binding := [(0, 1); (1, 2); (2, 1); (3, 2)].

Theorem C11_leak_refuted :
  wf_acts leak_cfg leak_acts = true /\ known_C11 leak_cfg leak_acts = true /\
  (exists out, In out (emissions leak_cfg leak_acts) /\ In leak_row out) /\
  ~ Good leak_cfg (reports_of leak_acts) leak_row.
Proof.
  split; [vm_compute; reflexivity|]. split; [vm_compute; reflexivity|]. split.
  - exists [[(0, 1); (1, 2); (2, 1); (3, 2)]; [(0, 1); (1, 2); (2, 4); (3, 3)]]. split; vm_compute; auto 10.
  - intros H. apply goodb_spec in H. vm_compute in H. discriminate.
Qed.
Print Assumptions C11_leak_refuted.

(* non-vacuity: a history outside the class (disjoint predicates) with a real join on ?1 and a static part *)
Example C11_example :
  let c := add_static [(2, 21, 3); (2, 21, 3); (9, 11, 9)]
                      (mkCfg [[(V 0, C 11, V 1)]; [(V 1, C 12, V 2)]] (Some [(V 1, C 21, V 3)]) [] Steal RSTREAM) in
  let acts := [Drain; Fire 0 [(1, 11, 2); (5, 11, 6)]; Drain; Fire 1 [(2, 12, 7)]; Drain; Fire 0 [(8, 11, 2)]; Drain] in
  wf_acts c acts = true /\ known_C11 c acts = false /\
  emissions c acts = [[]; []; []; []; [[(0, 1); (1, 2); (2, 7); (3, 3)]]; [];
                      [[(0, 1); (1, 2); (2, 7); (3, 3)]; [(0, 8); (1, 2); (2, 7); (3, 3)]]].
Proof. vm_compute. repeat split. Qed.
