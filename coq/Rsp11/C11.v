(* C11 - Multi-window results are joins of what each window itself reported.
   Only the property theorems; each is closed by `exact <lemma>` (or a conjunction of lemmas) and followed by
   Print Assumptions.  Model: Model.v (single-thread bookkeeping `run`, multi-thread bookkeeping `mrun`);
   specification: Spec.v (`Good`, the known class `known_C11`). *)
Require Import List NArith Bool Permutation.
Require Import KV.Rsp11.Model KV.Rsp11.Spec KV.Rsp11.Run.
Require Import KV.Rsp11.BindProofs KV.Rsp11.JoinProofs KV.Rsp11.RunProofs KV.Rsp11.OwnProofs KV.Rsp11.JoinPermProofs.
Require Import KV.Rsp11.Routing KV.Rsp11.RoutingProofs KV.Rsp11.PolicyProofs.
Import ListNotations.
Local Open Scope N_scope.

(* UNCONDITIONAL: in every history (single- and multi-thread bookkeeping) the static part of every emitted
   solution is an answer of the static patterns over the static store only; and nothing on the window side
   (shared store, per-window contents, per-window results, buffers) depends on the static patterns or on the
   static store: two configurations with the same blocks and policy compute the same window side. *)
Theorem C11_static_separate :
  (forall c acts, wf_acts c acts = true ->
     forall out, In out (emissions c acts) -> forall row, In row out ->
       exists s, static_answer c s /\ sub s row) /\
  (forall c acts, mwf_acts c acts = true ->
     forall out, In out (memissions c acts) -> forall row, In row out ->
       exists s, static_answer c s /\ sub s row) /\
  (forall c c' acts, blocks c = blocks c' -> pol c = pol c' ->
     window_side (fst (run c init acts)) = window_side (fst (run c' init acts))).
Proof. exact (conj static_part_st (conj static_part_mt static_never_seen)). Qed.
Print Assumptions C11_static_separate.

(* natural_join computes the natural join: its rows are exactly the merges of compatible pairs, a merge is the
   union of the two maps; every row of join_window_results extends one row of every buffer; and the result does
   not depend on the order in which the buffers are listed (HashMap::values()), up to permutation - for rows
   sorted by variable, which is what every single-thread run buffers. *)
Theorem C11_join :
  (forall L R row, In row (natural_join L R) <->
     exists l r, In l L /\ In r R /\ compatible l r = true /\ row = merge l r) /\
  (forall r l k, ukeys r ->
     lookup k (merge l r) = match lookup k r with Some y => Some y | None => lookup k l end) /\
  (forall bufs row, (forall w r, In w bufs -> In r w -> ukeys r) ->
     In row (join_window_results bufs) -> forall w, In w bufs -> exists a, In a w /\ sub a row) /\
  (forall bufs bufs', Permutation bufs bufs' -> bufs_sorted bufs ->
     Permutation (join_window_results bufs) (join_window_results bufs')) /\
  (forall c acts, wf_acts c acts = true -> bufs_sorted (map snd (buffers (fst (run c init acts))))).
Proof.
  exact (conj natural_join_In (conj lookup_merge (conj join_window_results_parts
        (conj join_window_results_perm run_buffers_sorted)))).
Qed.
Print Assumptions C11_join.

(* The property, outside the known class: for EVERY single-thread history (any interleaving of firings of any
   windows with any contents, and drains) in which no firing of a window i found in the shared store a triple
   that is foreign to the content i reports and matches one of block i's patterns, every emitted solution is Good:
   restricted to each block's variables it contains an answer of that block over a content that very window
   reported, and its static part is an answer over the static store. *)
Theorem C11_own_window :
  forall c acts, wf_acts c acts = true -> known_C11 c acts = false ->
    forall out, In out (emissions c acts) -> forall row, In row out -> Good c (reports_of acts) row.
Proof. exact own_window_st. Qed.
Print Assumptions C11_own_window.

(* The same for the multi-thread bookkeeping (workers fire in any order under the store's mutex, the coordinator
   takes any non-empty batches of pending results with replace semantics, deadlines expire at any time).
   A theorem about the transition-system model; the real threads, channels and timers are outside it. *)
Theorem C11_own_window_mt :
  forall c acts, mwf_acts c acts = true -> mknown_C11 c acts = false ->
    forall out, In out (memissions c acts) -> forall row, In row out -> Good c (mreports_of acts) row.
Proof. exact own_window_mt. Qed.
Print Assumptions C11_own_window_mt.

(* The executable oracle the check evaluates on the implementation's output decides the specification. *)
Theorem C11_oracle_decides : forall c rp row, goodb c rp row = true <-> Good c rp row.
Proof. exact goodb_spec. Qed.
Print Assumptions C11_oracle_decides.

(* The known finding C11-shared-store-leak, on the faithful model: two windows over two streams whose items use
   the same predicate 11; block 0 = ?0 11 ?1, block 1 = ?2 11 ?3.  Window 0 reports {(1,11,2)}, window 1 reports
   {(4,11,3)}; the emission contains a solution whose block-1 part (?2=1, ?3=2) is the item of stream 0. *)
Definition leak_cfg : cfg := mkCfg [[(V 0, C 11, V 1)]; [(V 2, C 11, V 3)]] None [] Wait RSTREAM.
Definition leak_acts : list action := [Drain; Fire 0 [(1, 11, 2)]; Drain; Fire 1 [(4, 11, 3)]; Drain].
Definition leak_row : binding := [(0, 1); (1, 2); (2, 1); (3, 2)].

Theorem C11_leak_refuted :
  wf_acts leak_cfg leak_acts = true /\ known_C11 leak_cfg leak_acts = true /\
  (exists out, In out (emissions leak_cfg leak_acts) /\ In leak_row out) /\
  ~ Good leak_cfg (reports_of leak_acts) leak_row.
Proof.
  split; [vm_compute; reflexivity|]. split; [vm_compute; reflexivity|]. split.
  - exists [[(0, 1); (1, 2); (2, 1); (3, 2)]; [(0, 1); (1, 2); (2, 4); (3, 3)]]. split; vm_compute; auto 10.
  - intros H. apply goodb_spec in H. vm_compute in H. discriminate.
Qed.
Print Assumptions C11_leak_refuted.

(* Stream routing (RSPEngine::add_to_stream, normalize_stream_iri on code points) is exact.
   (1) a window declared ON decl receives an item handed over with spelling sp iff decl is a variable stream or the
       normalised strings are equal;
   (2) with well-formed declarations (no variable stream, pairwise different normalised stream IRIs, pairwise
       different window names) an item handed over with any spelling of window w''s stream reaches window w iff
       w = w': no window ever receives - hence no window block ever matches - an item of another window's stream;
   (3) for ANY window operator (state, step, flush: no property of it is needed) the contents that window w "itself
       reported" in the history the engine produces from a stream of add_to_stream calls (and stop()) are exactly
       the reports of that operator run on its own over the events of w's stream - the contents C11_own_window
       speaks about are those of the C09 window over exactly that sub-stream;
   (4) the bare key, <key>, :key and white-space padded spellings of a clean key are spellings of the same stream. *)
Theorem C11_routing_exact :
  (forall decl sp, routes decl sp = true <-> starts_with QMARK decl = true \/ normalize decl = normalize sp) /\
  (forall (wstate : Type) (tbl : list (win wstate)) (w w' : win wstate) (sp : str),
     wf_table wstate tbl -> In w tbl -> In w' tbl -> normalize sp = normalize (w_decl wstate w') ->
     (routes (w_decl wstate w) sp = true <-> w = w')) /\
  (forall (wstate : Type) (wstep : wstate -> triple * N -> wstate * option (list triple))
          (wflush : wstate -> option (list triple)) (tbl : list (win wstate))
          (evs : list (str * (triple * N))) (stop : bool) (w : win wstate),
     wf_table wstate tbl -> In w tbl ->
     reported (reports_of (engine_acts wstate wstep wflush tbl evs stop)) (w_name wstate w) =
     alone_reports wstate wstep wflush (w_state wstate w) (canonical_events (w_decl wstate w) evs) stop) /\
  (forall a m z, clean_ends a z ->
     normalize (a :: m ++ [z]) = a :: m ++ [z] /\
     normalize (LT :: (a :: m ++ [z]) ++ [GT]) = a :: m ++ [z] /\
     normalize (COLON :: a :: m ++ [z]) = a :: m ++ [z]) /\
  (forall w1 w2 b t y, is_ws b = false -> is_ws y = false -> forallb is_ws w1 = true -> forallb is_ws w2 = true ->
     normalize (w1 ++ (b :: t ++ [y]) ++ w2) = normalize (b :: t ++ [y])).
Proof.
  exact (conj routes_spec (conj routing_exact (conj own_window_contents
        (conj (fun a m z H => conj (normalize_bare a m z H) (conj (normalize_brackets a m z H) (normalize_colon a m z H)))
              normalize_ws_padding)))).
Qed.
Print Assumptions C11_routing_exact.

(* Which buffered per-window results enter an emission, as the code's bookkeeping defines it.
   SingleThread (process_single_thread_window_results, EXTEND):
   (1) absorbing results appends, per window, the rows of its results; (2) a Drain emits iff something was pending and
   every window then has a buffer, and it joins exactly these buffers; (3) after every history, buffer ++ pending of
   window i are the rows of ALL results window i produced since the buffers were last cleared (Wait / Timeout: since
   the previous emission; Steal: since the start), in firing order - the latest result is among them, but under
   Wait it is NOT the only one when a window fired several times in a cycle.
   MultiThread (coordinator, REPLACE): (4) absorbing leaves per window its latest result; (5) what an event emits;
   (6) under every policy the buffer of window i is the latest result of i the coordinator has consumed;
   (7) Wait / Timeout: a batch emits only if every window delivered a result in the current cycle (fresh latest
   results); (8) Steal: a batch emits as soon as every window has some buffered result (latest, possibly stale);
   (9) a deadline emits only under Timeout{Steal}, with the buffers as they are. *)
Theorem C11_policy_bookkeeping :
  (forall rs bufs i, aget [] i (absorb_extend bufs rs) = aget [] i bufs ++ wbuf i rs) /\
  (forall c st, snd (drain c st) =
     if drain_emits c st then fst (emit c (absorb_extend (buffers st) (chan st)) (r2s_last st)) else []) /\
  (forall c acts i, let st := fst (run c init acts) in
     aget [] i (buffers st) ++ wbuf i (chan st) = wbuf i (results_since_clear c acts)) /\
  (forall rs bufs i, aget [] i (absorb_replace bufs rs) =
     match latest i rs with Some rows => rows | None => aget [] i bufs end) /\
  (forall c cs e, snd (cstep c cs e) =
     if cemits c cs e then fst (emit c (bufs_after cs e) (c_last cs)) else []) /\
  (forall c es i, aget [] i (c_bufs (fst (crun c cinit es))) =
     match latest i (consumed es) with Some rows => rows | None => [] end) /\
  (forall c (Q : N -> binding -> Prop) cs rs, InvC c Q cs -> Forall (rows_ok c Q) rs -> pol c <> Steal ->
     cemits c cs (Batch rs) = true -> forall i, i < nwin c -> In i (c_trig cs) \/ In i (map fst rs)) /\
  (forall c cs rs, pol c = Steal -> rs <> [] -> N.of_nat (length (absorb_replace (c_bufs cs) rs)) = nwin c ->
     cemits c cs (Batch rs) = true) /\
  (forall c cs, cemits c cs Deadline = true ->
     pol c = TimeoutSteal /\ c_trig cs <> [] /\ bufs_after cs Deadline = c_bufs cs).
Proof.
  exact (conj absorb_extend_get (conj drain_emission (conj buffers_since_clear (conj absorb_replace_get
        (conj cstep_emission (conj coordinator_buffers_latest (conj wait_emits_when_all_fired
        (conj steal_emits_when_all_buffered deadline_emission)))))))).
Qed.
Print Assumptions C11_policy_bookkeeping.

(* non-vacuity of the routing theorem: the spellings the check hands to the engine, and a stream that differs only in
   the namespace *)
Example C11_routing_example :
  let obsA := [104; 116; 116; 112; 58; 47; 47; 65; 47; 111; 98; 115] in    (* http://A/obs *)
  let obsB := [104; 116; 116; 112; 58; 47; 47; 66; 47; 111; 98; 115] in    (* http://B/obs *)
  routes (LT :: obsA ++ [GT]) obsA = true /\ routes (LT :: obsA ++ [GT]) (32 :: LT :: obsA ++ [GT; 10]) = true /\
  routes (LT :: obsA ++ [GT]) obsB = false /\ routes [COLON; 115; 48] [115; 48] = true /\
  routes [QMARK; 115] obsB = true.
Proof. vm_compute. repeat split. Qed.

(* non-vacuity: a history outside the class (disjoint predicates) with a real join on ?1 and a static part *)
Example C11_example :
  let c := add_static [(2, 21, 3); (2, 21, 3); (9, 11, 9)]
                      (mkCfg [[(V 0, C 11, V 1)]; [(V 1, C 12, V 2)]] (Some [(V 1, C 21, V 3)]) [] Steal RSTREAM) in
  let acts := [Drain; Fire 0 [(1, 11, 2); (5, 11, 6)]; Drain; Fire 1 [(2, 12, 7)]; Drain; Fire 0 [(8, 11, 2)]; Drain] in
  wf_acts c acts = true /\ known_C11 c acts = false /\
  emissions c acts = [[]; []; []; []; [[(0, 1); (1, 2); (2, 7); (3, 3)]]; [];
                      [[(0, 1); (1, 2); (2, 7); (3, 3)]; [(0, 8); (1, 2); (2, 7); (3, 3)]]].
Proof. vm_compute. repeat split. Qed.
