(* C11 - the synchronisation-policy bookkeeping: which buffered per-window results enter an emission. *)
Require Import List NArith Bool Lia.
Require Import KV.Rsp11.Model KV.Rsp11.Spec KV.Rsp11.RunProofs.
Import ListNotations.
Local Open Scope N_scope.

Lemma wbuf_app : forall i a b, wbuf i (a ++ b) = wbuf i a ++ wbuf i b.
Proof. intros; unfold wbuf; apply flat_map_app. Qed.

Lemma latest_app : forall i a b, latest i (a ++ b) = match latest i b with Some x => Some x | None => latest i a end.
Proof.
  induction a as [|r a IH]; intros b; simpl.
  - destruct (latest i b); reflexivity.
  - rewrite IH. destruct (latest i b); [reflexivity|]. reflexivity.
Qed.

(* EXTEND: absorbing results appends, per window, the rows of its results in order *)
Theorem absorb_extend_get : forall rs bufs i,
  aget [] i (absorb_extend bufs rs) = aget [] i bufs ++ wbuf i rs.
Proof.
  unfold absorb_extend. induction rs as [|[k rows] rs IH]; intros bufs i; simpl.
  - rewrite app_nil_r; reflexivity.
  - rewrite IH, aget_aset. destruct (k =? i) eqn:E.
    + apply N.eqb_eq in E; subst. rewrite <- app_assoc. reflexivity.
    + reflexivity.
Qed.

(* REPLACE: absorbing results leaves, per window, its latest result *)
Theorem absorb_replace_get : forall rs bufs i,
  aget [] i (absorb_replace bufs rs) = match latest i rs with Some rows => rows | None => aget [] i bufs end.
Proof.
  unfold absorb_replace. induction rs as [|[k rows] rs IH]; intros bufs i; simpl.
  - reflexivity.
  - rewrite IH. destruct (latest i rs); [reflexivity|]. rewrite aget_aset. simpl.
    destruct (k =? i); reflexivity.
Qed.

(* ---- SingleThread mode ---------------------------------------------------------------------------------------- *)
(* what a Drain emits *)
Theorem drain_emission : forall c st,
  snd (drain c st) =
  if drain_emits c st then fst (emit c (absorb_extend (buffers st) (chan st)) (r2s_last st)) else [].
Proof.
  intros c st. unfold drain, drain_emits. destruct (chan st) as [|r rs]; [reflexivity|].
  destruct (N.of_nat (length (absorb_extend (buffers st) (r :: rs))) =? nwin c); [|reflexivity].
  destruct (emit c (absorb_extend (buffers st) (r :: rs)) (r2s_last st)); reflexivity.
Qed.

Definition BufInv (st : state) (g : list (N * list binding)) : Prop :=
  forall i, aget [] i (buffers st) ++ wbuf i (chan st) = wbuf i g.

Lemma BufInv_fire : forall c st g i ct, BufInv st g -> BufInv (fire c i ct st) (g ++ [result_of c st i ct]).
Proof.
  intros c st g i ct H j. unfold fire; cbn [buffers chan]. rewrite !wbuf_app, app_assoc, H. reflexivity.
Qed.

Lemma BufInv_drain : forall c st g, BufInv st g ->
  BufInv (fst (drain c st)) (if drain_emits c st && clears (pol c) then [] else g).
Proof.
  intros c st g H. unfold drain, drain_emits. destruct (chan st) as [|r rs] eqn:Ech.
  - simpl. intros j. rewrite <- (H j), Ech. reflexivity.
  - rewrite <- Ech in *.
    assert (Hb : forall j, aget [] j (absorb_extend (buffers st) (chan st)) = wbuf j g).
    { intros j. rewrite absorb_extend_get. apply H. }
    destruct (chan st) as [|r0 rs0] eqn:E2; [discriminate|]. rewrite <- E2 in *.
    destruct (N.of_nat (length (absorb_extend (buffers st) (chan st))) =? nwin c).
    + destruct (emit c (absorb_extend (buffers st) (chan st)) (r2s_last st)) as [out last'].
      cbn [fst]. destruct (pol c); simpl; intros j; cbn [buffers chan]; simpl; try reflexivity.
      rewrite app_nil_r. apply Hb.
    + cbn [fst]. simpl. intros j; cbn [buffers chan]. simpl. rewrite app_nil_r. apply Hb.
Qed.

Lemma since_clear_inv : forall c acts st g, BufInv st g ->
  BufInv (fst (run c st acts)) (since_clear c st g acts).
Proof.
  intros c. induction acts as [|a acts IH]; intros st g H; [exact H|].
  rewrite run_cons; cbn [fst]. destruct a as [i ct|]; simpl.
  - apply IH, BufInv_fire; assumption.
  - apply IH, BufInv_drain; assumption.
Qed.

(* after every single-thread history: buffer ++ pending results of window i = the rows of ALL results window i produced
   since the buffers were last cleared, in firing order *)
Theorem buffers_since_clear : forall c acts i,
  let st := fst (run c init acts) in
  aget [] i (buffers st) ++ wbuf i (chan st) = wbuf i (results_since_clear c acts).
Proof.
  intros c acts i. apply (since_clear_inv c acts init []). intros j; reflexivity.
Qed.

(* ---- MultiThread mode: the coordinator --------------------------------------------------------------------------- *)
Theorem cstep_emission : forall c cs e,
  snd (cstep c cs e) = if cemits c cs e then fst (emit c (bufs_after cs e) (c_last cs)) else [].
Proof.
  intros c cs e. destruct e as [rs|]; unfold cstep, cemits, bufs_after, trig_after.
  - destruct rs as [|r rs]; [reflexivity|].
    set (B := absorb_replace (c_bufs cs) (r :: rs)).
    set (Tg := fold_left (fun t r0 => nadd (fst r0) t) (r :: rs) (c_trig cs)).
    cbv zeta. destruct (N.of_nat (length Tg) =? nwin c); cbn [orb].
    + destruct (emit c B (c_last cs)); reflexivity.
    + destruct (pol c); try reflexivity.
      destruct (N.of_nat (length B) =? nwin c); [|reflexivity].
      destruct (emit c B (c_last cs)); reflexivity.
  - destruct (c_trig cs) as [|t ts]; [reflexivity|]. destruct (pol c); try reflexivity.
    destruct (N.of_nat (length (c_bufs cs)) =? nwin c); [|reflexivity].
    destruct (emit c (c_bufs cs) (c_last cs)); reflexivity.
Qed.

Lemma cstep_bufs : forall c cs e, c_bufs (fst (cstep c cs e)) = bufs_after cs e.
Proof.
  intros c cs e. destruct e as [rs|]; unfold cstep, bufs_after.
  - destruct rs as [|r rs]; [reflexivity|].
    set (B := absorb_replace (c_bufs cs) (r :: rs)).
    set (Tg := fold_left (fun t r0 => nadd (fst r0) t) (r :: rs) (c_trig cs)).
    cbv zeta. destruct (N.of_nat (length Tg) =? nwin c).
    + destruct (emit c B (c_last cs)); reflexivity.
    + destruct (pol c); try reflexivity.
      destruct (N.of_nat (length B) =? nwin c); [|reflexivity].
      destruct (emit c B (c_last cs)); reflexivity.
  - destruct (c_trig cs) as [|t ts]; [reflexivity|]. destruct (pol c); try reflexivity.
    destruct (N.of_nat (length (c_bufs cs)) =? nwin c); [|reflexivity].
    destruct (emit c (c_bufs cs) (c_last cs)); reflexivity.
Qed.

Lemma crun_cons : forall c cs e es,
  crun c cs (e :: es) = (fst (crun c (fst (cstep c cs e)) es), snd (cstep c cs e) :: snd (crun c (fst (cstep c cs e)) es)).
Proof. intros; simpl. destruct (cstep c cs e) as [cs1 o]; simpl. destruct (crun c cs1 es); reflexivity. Qed.

(* under EVERY policy the coordinator's buffer of window i is the latest result of window i it has consumed *)
Theorem coordinator_buffers_latest : forall c es i,
  aget [] i (c_bufs (fst (crun c cinit es))) = match latest i (consumed es) with Some rows => rows | None => [] end.
Proof.
  intros c es i.
  assert (G : forall es cs pre,
            aget [] i (c_bufs cs) = match latest i pre with Some rows => rows | None => [] end ->
            aget [] i (c_bufs (fst (crun c cs es))) = match latest i (pre ++ consumed es) with Some rows => rows | None => [] end).
  { clear es. induction es as [|e es IH]; intros cs pre H.
    - simpl. rewrite app_nil_r. exact H.
    - rewrite crun_cons; cbn [fst]. unfold consumed; simpl flat_map. fold (consumed es). rewrite app_assoc.
      apply IH. rewrite cstep_bufs. destruct e as [rs|]; unfold bufs_after.
      + rewrite absorb_replace_get, latest_app. destruct (latest i rs); [reflexivity | exact H].
      + rewrite app_nil_r. exact H. }
  exact (G es cinit [] eq_refl).
Qed.

(* Wait and Timeout: a batch only leads to an emission when every window has delivered a result in the current cycle
   (since cycle_triggered was last reset), so the latest result of every window that is joined is a fresh one *)
Theorem wait_emits_when_all_fired : forall c (Q : N -> binding -> Prop) cs rs,
  InvC c Q cs -> Forall (rows_ok c Q) rs -> pol c <> Steal ->
  cemits c cs (Batch rs) = true ->
  forall i, i < nwin c -> In i (c_trig cs) \/ In i (map fst rs).
Proof.
  intros c Q cs rs [_ [_ [Hnd Htr]]] Hrs Hpol He i Hi.
  destruct rs as [|r rs]; [discriminate|]. unfold cemits, trig_after in He.
  destruct (trig_fold Q (r :: rs) (c_trig cs) Hnd) as [Hnd' Hin].
  assert (Hlen : N.of_nat (length (fold_left (fun t r0 => nadd (fst r0) t) (r :: rs) (c_trig cs))) = nwin c).
  { apply orb_true_iff in He. destruct He as [He|He]; [apply N.eqb_eq; assumption|].
    destruct (pol c); try discriminate. contradiction. }
  apply Hin. eapply (trig_all_present c); try eassumption.
  intros k Hk. apply Hin in Hk. destruct Hk as [Hk|Hk]; [apply (Htr k Hk)|].
  apply in_map_iff in Hk. destruct Hk as [e0 [He0 Hin0]]. subst. rewrite Forall_forall in Hrs. apply (Hrs _ Hin0).
Qed.

(* Steal: a batch leads to an emission as soon as every window has SOME buffered result (latest, possibly stale) *)
Theorem steal_emits_when_all_buffered : forall c cs rs,
  pol c = Steal -> rs <> [] -> N.of_nat (length (absorb_replace (c_bufs cs) rs)) = nwin c ->
  cemits c cs (Batch rs) = true.
Proof.
  intros c cs rs Hp Hne Hl. destruct rs as [|r rs]; [contradiction|]. unfold cemits, bufs_after. rewrite Hp.
  apply orb_true_iff. right. apply N.eqb_eq. assumption.
Qed.

(* a deadline emits only under Timeout{Steal}, with the buffers as they are (latest results, possibly stale); under
   Timeout{Drop} the cycle is discarded without an emission; Wait and Steal have no deadline *)
Theorem deadline_emission : forall c cs,
  cemits c cs Deadline = true -> pol c = TimeoutSteal /\ c_trig cs <> [] /\ bufs_after cs Deadline = c_bufs cs.
Proof.
  intros c cs H. unfold cemits in H. destruct (c_trig cs) as [|t ts]; [discriminate|].
  destruct (pol c); try discriminate. repeat split. discriminate.
Qed.
