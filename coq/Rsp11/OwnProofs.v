(* C11 - every emitted solution is a join of answers over contents the windows themselves reported, outside the
   known class; the static part is always an answer over the static store only; static data never reaches
   the window side; the executable oracle decides the specification. *)
Require Import List NArith Bool Lia.
Require Import KV.Rsp11.Model KV.Rsp11.Spec KV.Rsp11.BindProofs KV.Rsp11.JoinProofs KV.Rsp11.RunProofs.
Import ListNotations.
Local Open Scope N_scope.

(* ---- no foreign matching triple => the block's answers over the shared store are answers over the content --- *)
Lemma leak_free : forall c i content st a,
  leak_at c i content st = false ->
  In a (eval_bgp (block c i) (store_after i content st)) -> In a (eval_bgp (block c i) content).
Proof.
  intros c i content st a Hl. apply eval_bgp_relevant. intros t Ht Hr.
  unfold leak_at in Hl. apply tmem_In.
  destruct (tmem t content) eqn:E; [reflexivity|]. exfalso.
  assert (Hex : existsb (fun t0 => negb (tmem t0 content) && existsb (fun p => matches_alone p t0) (block c i))
                        (store_after i content st) = true).
  { apply existsb_exists. exists t; split; [assumption|]. rewrite E. simpl. exact Hr. }
  congruence.
Qed.

(* ---- reports of a history --------------------------------------------------------------------------------- *)
Lemma reported_add_report : forall i ct rp j x,
  In x (reported (add_report i ct rp) j) <-> In x (reported rp j) \/ (j = i /\ x = ct).
Proof.
  intros i ct rp j x. unfold reported, add_report. rewrite aget_aset.
  destruct (i =? j) eqn:E.
  - apply N.eqb_eq in E; subst. rewrite in_app_iff. simpl. split.
    + intros [H|[H|[]]]; auto.
    + intros [H|[_ H]]; auto.
  - apply N.eqb_neq in E. split; [auto | intros [H|[H _]]; [assumption | congruence]].
Qed.

Definition reports_from (rp : reports) (acts : list action) : reports :=
  fold_left (fun rp a => match a with Fire i content => add_report i content rp | Drain => rp end) acts rp.

Lemma reports_from_mono : forall acts rp j x, In x (reported rp j) -> In x (reported (reports_from rp acts) j).
Proof.
  induction acts as [|[i ct|] acts IH]; intros rp j x H; simpl; [assumption| |apply IH; assumption].
  apply IH. apply reported_add_report. left; assumption.
Qed.

Lemma reports_from_fire : forall acts rp i ct, In (Fire i ct) acts -> In ct (reported (reports_from rp acts) i).
Proof.
  induction acts as [|a acts IH]; intros rp i ct H; [contradiction|]. destruct H as [->|H]; simpl.
  - apply reports_from_mono, reported_add_report. right; auto.
  - apply IH; assumption.
Qed.

Definition mreports_from (rp : reports) (acts : list mact) : reports :=
  fold_left (fun rp a => match a with MFire i content => add_report i content rp | _ => rp end) acts rp.

Lemma mreports_from_mono : forall acts rp j x, In x (reported rp j) -> In x (reported (mreports_from rp acts) j).
Proof.
  induction acts as [|[i ct|n|] acts IH]; intros rp j x H; simpl; [assumption| |apply IH; assumption|apply IH; assumption].
  apply IH. apply reported_add_report. left; assumption.
Qed.

Lemma mreports_from_fire : forall acts rp i ct, In (MFire i ct) acts -> In ct (reported (mreports_from rp acts) i).
Proof.
  induction acts as [|a acts IH]; intros rp i ct H; [contradiction|]. destruct H as [->|H]; simpl.
  - apply mreports_from_mono, reported_add_report. right; auto.
  - apply IH; assumption.
Qed.

(* ---- single-thread mode -------------------------------------------------------------------------------------- *)
Lemma fires_ok_of_known : forall c rp acts st,
  (forall i ct, In (Fire i ct) acts -> i < nwin c /\ In ct (reported rp i)) ->
  known_from c st acts = false ->
  fires_ok c (own_answer c rp) st acts.
Proof.
  intros c rp. induction acts as [|a acts IH]; intros st Hin Hk; simpl; [exact I|].
  destruct a as [i ct|].
  - simpl in Hk. apply orb_false_iff in Hk. destruct Hk as [Hl Hk].
    destruct (Hin i ct (or_introl eq_refl)) as [Hi Hrep]. split.
    + split; [assumption|]. intros a0 Ha0. exists ct; split; [assumption|]. eapply leak_free; eassumption.
    + apply IH; [intros j cj Hj; apply Hin; right; assumption | exact Hk].
  - simpl in Hk. split; [exact I|]. apply IH; [intros j cj Hj; apply Hin; right; assumption | exact Hk].
Qed.

Lemma wf_acts_In : forall c acts i ct, wf_acts c acts = true -> In (Fire i ct) acts -> i < nwin c.
Proof.
  intros c acts i ct Hw Hin. unfold wf_acts in Hw. rewrite forallb_forall in Hw.
  specialize (Hw _ Hin). simpl in Hw. apply N.ltb_lt; assumption.
Qed.

Theorem own_window_st : forall c acts,
  wf_acts c acts = true -> known_C11 c acts = false ->
  forall out, In out (emissions c acts) -> forall row, In row out -> Good c (reports_of acts) row.
Proof.
  intros c acts Hw Hk out Hout row Hrow.
  apply (run_good c (own_answer c (reports_of acts)) acts init (InvS_init c _)) with (out := out); try assumption.
  apply fires_ok_of_known; [|exact Hk].
  intros i ct Hin. split; [eapply wf_acts_In; eassumption | apply (reports_from_fire acts [] i ct Hin)].
Qed.

(* ---- multi-thread mode ------------------------------------------------------------------------------------------ *)
Lemma mfires_ok_of_known : forall c rp acts m,
  (forall i ct, In (MFire i ct) acts -> i < nwin c /\ In ct (reported rp i)) ->
  mknown_from c m acts = false ->
  mfires_ok c (own_answer c rp) m acts.
Proof.
  intros c rp. induction acts as [|a acts IH]; intros m Hin Hk; simpl; [exact I|].
  destruct a as [i ct|n|].
  - simpl in Hk. apply orb_false_iff in Hk. destruct Hk as [Hl Hk].
    destruct (Hin i ct (or_introl eq_refl)) as [Hi Hrep]. split.
    + split; [assumption|]. intros a0 Ha0. exists ct; split; [assumption|]. eapply leak_free; eassumption.
    + apply IH; [intros j cj Hj; apply Hin; right; assumption | exact Hk].
  - simpl in Hk. split; [exact I|]. apply IH; [intros j cj Hj; apply Hin; right; assumption | exact Hk].
  - simpl in Hk. split; [exact I|]. apply IH; [intros j cj Hj; apply Hin; right; assumption | exact Hk].
Qed.

Lemma mwf_acts_In : forall c acts i ct, mwf_acts c acts = true -> In (MFire i ct) acts -> i < nwin c.
Proof.
  intros c acts i ct Hw Hin. unfold mwf_acts in Hw. rewrite forallb_forall in Hw.
  specialize (Hw _ Hin). simpl in Hw. apply N.ltb_lt; assumption.
Qed.

Theorem own_window_mt : forall c acts,
  mwf_acts c acts = true -> mknown_C11 c acts = false ->
  forall out, In out (memissions c acts) -> forall row, In row out -> Good c (mreports_of acts) row.
Proof.
  intros c acts Hw Hk out Hout row Hrow.
  apply (mrun_good c (own_answer c (mreports_of acts)) acts minit (InvM_init c _)) with (out := out); try assumption.
  apply mfires_ok_of_known; [|exact Hk].
  intros i ct Hin. split; [eapply mwf_acts_In; eassumption | apply (mreports_from_fire acts [] i ct Hin)].
Qed.

(* ---- the static part, unconditionally ------------------------------------------------------------------------------ *)
Lemma fires_ok_True : forall c acts st, wf_acts c acts = true -> fires_ok c (fun _ _ => True) st acts.
Proof.
  intros c. induction acts as [|a acts IH]; intros st Hw; simpl; [exact I|].
  simpl in Hw. apply andb_true_iff in Hw. destruct Hw as [Ha Hw]. split; [|apply IH; assumption].
  destruct a as [i ct|]; simpl; [|exact I]. split; [apply N.ltb_lt; assumption | auto].
Qed.

Theorem static_part_st : forall c acts, wf_acts c acts = true ->
  forall out, In out (emissions c acts) -> forall row, In row out -> exists s, static_answer c s /\ sub s row.
Proof.
  intros c acts Hw out Hout row Hrow.
  apply (run_good c (fun _ _ => True) acts init (InvS_init c _) (fires_ok_True c acts init Hw) out Hout row Hrow).
Qed.

Lemma mfires_ok_True : forall c acts m, mwf_acts c acts = true -> mfires_ok c (fun _ _ => True) m acts.
Proof.
  intros c. induction acts as [|a acts IH]; intros m Hw; simpl; [exact I|].
  simpl in Hw. apply andb_true_iff in Hw. destruct Hw as [Ha Hw]. split; [|apply IH; assumption].
  destruct a as [i ct|n|]; simpl; try exact I. split; [apply N.ltb_lt; assumption | auto].
Qed.

Theorem static_part_mt : forall c acts, mwf_acts c acts = true ->
  forall out, In out (memissions c acts) -> forall row, In row out -> exists s, static_answer c s /\ sub s row.
Proof.
  intros c acts Hw out Hout row Hrow.
  apply (mrun_good c (fun _ _ => True) acts minit (InvM_init c _) (mfires_ok_True c acts minit Hw) out Hout row Hrow).
Qed.

(* ---- static data never reaches the window side ------------------------------------------------------------------------
   Two configurations that differ only in the static patterns, the static store and the stream operator compute
   the same shared store, the same per-window contents, the same per-window results and the same buffers. *)
Definition window_side (st : state) := (store st, prevs st, chan st, buffers st).

Lemma step_window_side : forall c c' st st' a,
  blocks c = blocks c' -> pol c = pol c' -> window_side st = window_side st' ->
  window_side (fst (step c st a)) = window_side (fst (step c' st' a)).
Proof.
  intros c c' st st' a Hb Hp Hw. unfold window_side in *. inversion Hw as [[H1 H2 H3 H4]].
  destruct a as [i ct|]; simpl.
  - unfold fire, store_after, block. cbn [store prevs chan buffers]. rewrite H1, H2, H3, H4, Hb. reflexivity.
  - unfold drain, nwin. rewrite H3, H4, Hb, Hp. destruct (chan st') as [|r rs] eqn:E; cbn [fst store prevs chan buffers].
    + rewrite H1, H2, H3, H4, E. reflexivity.
    + destruct (N.of_nat (length (absorb_extend (buffers st') (r :: rs))) =? N.of_nat (length (blocks c'))).
      * destruct (emit c _ _), (emit c' _ _). cbn [fst store prevs chan buffers]. rewrite H1, H2. reflexivity.
      * cbn [fst store prevs chan buffers]. rewrite H1, H2. reflexivity.
Qed.

Theorem static_never_seen : forall c c' acts,
  blocks c = blocks c' -> pol c = pol c' ->
  window_side (fst (run c init acts)) = window_side (fst (run c' init acts)).
Proof.
  intros c c' acts Hb Hp.
  assert (G : forall acts st st', window_side st = window_side st' ->
              window_side (fst (run c st acts)) = window_side (fst (run c' st' acts))).
  { clear acts. induction acts as [|a acts IH]; intros st st' Hw; [assumption|].
    rewrite !run_cons. cbn [fst]. apply IH. apply step_window_side; assumption. }
  apply G; reflexivity.
Qed.

(* ---- the executable oracle decides the specification ------------------------------------------------------------------ *)
Lemma subb_sub : forall a row, subb a row = true -> sub a row.
Proof.
  intros a row H v x Hv. unfold subb in H. rewrite forallb_forall in H.
  specialize (H _ (lookup_In _ _ _ Hv)). simpl in H.
  destruct (lookup v row) as [y|]; [|discriminate]. apply N.eqb_eq in H; subst; reflexivity.
Qed.

Lemma sub_subb : forall a row, ukeys a -> sub a row -> subb a row = true.
Proof.
  intros a row Hu Hs. unfold subb. apply forallb_forall. intros [k x] Hin. simpl.
  rewrite (Hs k x (In_lookup_ukeys _ _ _ Hu Hin)). apply N.eqb_refl.
Qed.

Lemma own_okb_spec : forall c rp i row,
  own_okb c rp i row = true <-> exists a, own_answer c rp i a /\ sub a row.
Proof.
  intros c rp i row. unfold own_okb, own_answer. rewrite existsb_exists. split.
  - intros [ct [Hct H]]. apply existsb_exists in H. destruct H as [a [Ha Hs]].
    exists a; split; [exists ct; auto | apply subb_sub; assumption].
  - intros [a [[ct [Hct Ha]] Hs]]. exists ct; split; [assumption|]. apply existsb_exists.
    exists a; split; [assumption | apply sub_subb; [eapply eval_bgp_ukeys; eassumption | assumption]].
Qed.

Lemma static_okb_spec : forall c row, static_okb c row = true <-> exists s, static_answer c s /\ sub s row.
Proof.
  intros c row. unfold static_okb, static_answer. destruct (static_pats c) as [sp|].
  - rewrite existsb_exists. split.
    + intros [s [Hs H]]. exists s; split; [assumption | apply subb_sub; assumption].
    + intros [s [Hs H]]. exists s; split; [assumption | apply sub_subb; [eapply eval_bgp_ukeys; eassumption | assumption]].
  - split; [intros _; exists []; split; [reflexivity | apply sub_nil] | reflexivity].
Qed.

Theorem goodb_spec : forall c rp row, goodb c rp row = true <-> Good c rp row.
Proof.
  intros c rp row. unfold goodb, Good. rewrite andb_true_iff, forallb_forall, static_okb_spec.
  split; intros [H1 H2]; (split; [|assumption]).
  - intros i Hi. apply own_okb_spec, H1, upto_In. exact Hi.
  - intros i Hi. apply own_okb_spec, H1, upto_In. exact Hi.
Qed.
