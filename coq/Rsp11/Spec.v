(* C11 - the specification: what an emitted solution of a multi-window query must be.
   "Every emitted solution, restricted to the variables of one WINDOW block, is an answer of that block over
   content that this very window reported, and the static part is an answer over the static data only."
   Nothing here refers to the shared store.  No proofs in this file. *)
Require Import List NArith Bool.
Require Import KV.Rsp11.Model.
Import ListNotations.
Local Open Scope N_scope.

(* a is part of row: every variable a binds has the same value in row *)
Definition sub (a row : binding) : Prop := forall v x, lookup v a = Some x -> lookup v row = Some x.
Definition subb (a row : binding) : bool :=
  forallb (fun kv => match lookup (fst kv) row with Some y => y =? snd kv | None => false end) a.

(* the variables of a block, and "row restricted to these variables is exactly a" *)
Definition term_vars (t : term) : list N := match t with V v => [v] | C _ => [] end.
Definition pat_vars (p : pat) : list N := match p with (s, pr, o) => term_vars s ++ term_vars pr ++ term_vars o end.
Definition pats_vars (ps : list pat) : list N := flat_map pat_vars ps.
Definition nmem (v : N) (l : list N) : bool := existsb (N.eqb v) l.
Definition restricted (row : binding) (vars : list N) (a : binding) : Prop :=
  forall v, lookup v a = if nmem v vars then lookup v row else None.

(* the contents window i itself reported: per window, the list of its contents (from probe windows in the
   check; from the Fire actions of a history in the theorems) *)
Definition reports := list (N * list (list triple)).
Definition reported (rp : reports) (i : N) : list (list triple) := aget [] i rp.

(* a is an answer of block i over a content that window i itself reported *)
Definition own_answer (c : cfg) (rp : reports) (i : N) (a : binding) : Prop :=
  exists content, In content (reported rp i) /\ In a (eval_bgp (block c i) content).

Definition static_answer (c : cfg) (a : binding) : Prop :=
  match static_pats c with
  | Some sp => In a (eval_bgp sp (static_store c))
  | None => a = []
  end.

(* the property of one emitted solution *)
Definition Good (c : cfg) (rp : reports) (row : binding) : Prop :=
  (forall i, i < nwin c -> exists a, own_answer c rp i a /\ sub a row) /\
  (exists s, static_answer c s /\ sub s row).

(* executable version (the oracle the check evaluates on the implementation's output) *)
Definition own_okb (c : cfg) (rp : reports) (i : N) (row : binding) : bool :=
  existsb (fun content => existsb (fun a => subb a row) (eval_bgp (block c i) content)) (reported rp i).
Definition static_okb (c : cfg) (row : binding) : bool :=
  match static_pats c with
  | Some sp => existsb (fun a => subb a row) (eval_bgp sp (static_store c))
  | None => true
  end.
Fixpoint upto (n : nat) : list N := match n with O => [] | S k => upto k ++ [N.of_nat k] end.
Definition goodb (c : cfg) (rp : reports) (row : binding) : bool :=
  forallb (fun i => own_okb c rp i row) (upto (length (blocks c))) && static_okb c row.

(* the reports of a single-thread / multi-thread history *)
Definition add_report (i : N) (content : list triple) (rp : reports) : reports :=
  aset i (aget [] i rp ++ [content]) rp.
Definition reports_of (acts : list action) : reports :=
  fold_left (fun rp a => match a with Fire i content => add_report i content rp | Drain => rp end) acts [].
Definition mreports_of (acts : list mact) : reports :=
  fold_left (fun rp a => match a with MFire i content => add_report i content rp | _ => rp end) acts [].

(* histories only name windows that exist *)
Definition wf_acts (c : cfg) (acts : list action) : bool :=
  forallb (fun a => match a with Fire i _ => i <? nwin c | Drain => true end) acts.
Definition mwf_acts (c : cfg) (acts : list mact) : bool :=
  forallb (fun a => match a with MFire i _ => i <? nwin c | _ => true end) acts.

(* ---- the class of the known finding C11-shared-store-leak --------------------------------------------
   At some firing of window i the shared store holds a triple that is not in the content window i reports
   now (so it was contributed by another window's latest content) and that matches, on its own, one of
   block i's triple patterns. *)
Definition matches_alone (p : pat) (t : triple) : bool :=
  match match_pat p t [] with Some _ => true | None => false end.
Definition leak_at (c : cfg) (i : N) (content : list triple) (st : state) : bool :=
  existsb (fun t => negb (tmem t content) && existsb (fun p => matches_alone p t) (block c i))
          (store_after i content st).

Fixpoint known_from (c : cfg) (st : state) (acts : list action) : bool :=
  match acts with
  | [] => false
  | Fire i content :: acts' => leak_at c i content st || known_from c (fst (step c st (Fire i content))) acts'
  | Drain :: acts' => known_from c (fst (step c st Drain)) acts'
  end.
Definition known_C11 (c : cfg) (acts : list action) : bool := known_from c init acts.

Fixpoint mknown_from (c : cfg) (m : mstate) (acts : list mact) : bool :=
  match acts with
  | [] => false
  | MFire i content :: acts' => leak_at c i content (m_st m) || mknown_from c (fst (mstep c m (MFire i content))) acts'
  | a :: acts' => mknown_from c (fst (mstep c m a)) acts'
  end.
Definition mknown_C11 (c : cfg) (acts : list mact) : bool := mknown_from c minit acts.

(* ---- which buffered per-window results enter an emission (synchronisation policies) ---------------------------------
   SingleThread mode buffers with EXTEND semantics: the buffer of window i is the concatenation of the results of its
   firings since the buffers were last cleared; Wait and Timeout clear after every emission, Steal never clears.
   MultiThread mode (coordinator) buffers with REPLACE semantics: the buffer of window i is its LATEST result. *)
Definition wbuf (i : N) (l : list (N * list binding)) : list binding :=
  flat_map (fun r => if fst r =? i then snd r else []) l.

Fixpoint latest (i : N) (l : list (N * list binding)) : option (list binding) :=
  match l with
  | [] => None
  | r :: l' => match latest i l' with
               | Some x => Some x
               | None => if fst r =? i then Some (snd r) else None
               end
  end.

(* the result (window, rows) a firing sends to the channel *)
Definition result_of (c : cfg) (st : state) (i : N) (content : list triple) : N * list binding :=
  (i, eval_bgp (block c i) (store_after i content st)).

(* does a Drain emit?  (something was pending and now every window has a buffer) *)
Definition drain_emits (c : cfg) (st : state) : bool :=
  match chan st with
  | [] => false
  | _ => N.of_nat (length (absorb_extend (buffers st) (chan st))) =? nwin c
  end.
Definition clears (p : policy) : bool := match p with Steal => false | _ => true end.

(* the firing results of a single-thread history since the buffers were last cleared *)
Fixpoint since_clear (c : cfg) (st : state) (g : list (N * list binding)) (acts : list action) : list (N * list binding) :=
  match acts with
  | [] => g
  | Fire i content :: acts' => since_clear c (fire c i content st) (g ++ [result_of c st i content]) acts'
  | Drain :: acts' => since_clear c (fst (drain c st)) (if drain_emits c st && clears (pol c) then [] else g) acts'
  end.
Definition results_since_clear (c : cfg) (acts : list action) := since_clear c init [] acts.

(* the coordinator on its own: a sequence of batches and deadlines *)
Fixpoint crun (c : cfg) (cs : cstate) (es : list cevent) : cstate * list (list binding) :=
  match es with
  | [] => (cs, [])
  | e :: es' => let '(cs1, o) := cstep c cs e in let '(cs2, os) := crun c cs1 es' in (cs2, o :: os)
  end.
Definition consumed (es : list cevent) : list (N * list binding) :=
  flat_map (fun e => match e with Batch rs => rs | Deadline => [] end) es.

(* the buffers an event lets the coordinator see, the windows that have delivered in the current cycle, and whether it emits *)
Definition bufs_after (cs : cstate) (e : cevent) : list (N * list binding) :=
  match e with Batch rs => absorb_replace (c_bufs cs) rs | Deadline => c_bufs cs end.
Definition trig_after (cs : cstate) (e : cevent) : list N :=
  match e with Batch rs => fold_left (fun t r => nadd (fst r) t) rs (c_trig cs) | Deadline => c_trig cs end.
Definition cemits (c : cfg) (cs : cstate) (e : cevent) : bool :=
  match e with
  | Batch [] => false
  | Batch _ =>
      (N.of_nat (length (trig_after cs e)) =? nwin c) ||
      (match pol c with Steal => N.of_nat (length (bufs_after cs e)) =? nwin c | _ => false end)
  | Deadline =>
      match c_trig cs, pol c with
      | _ :: _, TimeoutSteal => N.of_nat (length (c_bufs cs)) =? nwin c
      | _, _ => false
      end
  end.
