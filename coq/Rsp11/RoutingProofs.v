(* C11 - stream routing is exact: a window receives an event iff the normalised spelling of the event's stream equals
   the normalised stream of its declaration; with pairwise different normalised declarations every event of a
   window's stream reaches that window and no other; the contents handed to the processor of a window are those of
   the window operator run on its own over exactly that sub-stream. *)
Require Import List NArith Bool Lia.
Require Import KV.Rsp11.Model KV.Rsp11.Spec KV.Rsp11.Routing KV.Rsp11.RunProofs KV.Rsp11.OwnProofs.
Import ListNotations.
Local Open Scope N_scope.

Lemma str_eqb_eq : forall a b, str_eqb a b = true <-> a = b.
Proof.
  induction a as [|x a IH]; intros [|y b]; simpl; try (split; [discriminate|discriminate]).
  - split; reflexivity.
  - rewrite andb_true_iff, N.eqb_eq, IH. split; [intros [-> ->]; reflexivity | intros H; inversion H; auto].
Qed.

Theorem routes_spec : forall decl sp,
  routes decl sp = true <-> starts_with QMARK decl = true \/ normalize decl = normalize sp.
Proof. intros decl sp; unfold routes. rewrite orb_true_iff, str_eqb_eq. reflexivity. Qed.

(* ---- spellings of one stream --------------------------------------------------------------------------------- *)
Lemma drop_while_all : forall f w s, forallb f w = true -> drop_while f (w ++ s) = drop_while f s.
Proof.
  induction w as [|c w IH]; intros s H; simpl in *; [reflexivity|].
  apply andb_true_iff in H. destruct H as [H1 H2]. rewrite H1. apply IH; assumption.
Qed.

Lemma drop_while_stop : forall f c s, f c = false -> drop_while f (c :: s) = c :: s.
Proof. intros f c s H; simpl; rewrite H; reflexivity. Qed.

Lemma forallb_rev : forall (f : N -> bool) w, forallb f w = true -> forallb f (rev w) = true.
Proof.
  intros f w H. apply forallb_forall. intros x Hx. apply in_rev in Hx.
  rewrite forallb_forall in H. apply H; assumption.
Qed.

Lemma drop_while_end_all : forall f s z w, f z = false -> forallb f w = true ->
  drop_while_end f (s ++ [z] ++ w) = s ++ [z].
Proof.
  intros f s z w Hz Hw. unfold drop_while_end.
  rewrite !rev_app_distr. simpl. rewrite <- app_assoc.
  rewrite drop_while_all by (apply forallb_rev; assumption).
  simpl. rewrite Hz. simpl. rewrite rev_involutive. reflexivity.
Qed.

Lemma drop_while_end_stop : forall f s z, f z = false -> drop_while_end f (s ++ [z]) = s ++ [z].
Proof. intros f s z Hz. rewrite <- (app_nil_r (s ++ [z])), <- app_assoc. apply drop_while_end_all; [assumption | reflexivity]. Qed.

(* white space around a spelling is irrelevant *)
Lemma trim_padded : forall w1 w2 b t y, is_ws b = false -> is_ws y = false ->
  forallb is_ws w1 = true -> forallb is_ws w2 = true ->
  trim (w1 ++ (b :: t ++ [y]) ++ w2) = b :: t ++ [y].
Proof.
  intros w1 w2 b t y Hb Hy H1 H2. unfold trim. rewrite drop_while_all by assumption.
  change ((b :: t ++ [y]) ++ w2) with (b :: (t ++ [y]) ++ w2). rewrite drop_while_stop by assumption.
  change (b :: (t ++ [y]) ++ w2) with ((b :: t ++ [y]) ++ w2).
  change (b :: t ++ [y]) with ((b :: t) ++ [y]). rewrite <- app_assoc.
  apply drop_while_end_all; assumption.
Qed.

Lemma trim_clean : forall b t y, is_ws b = false -> is_ws y = false -> trim (b :: t ++ [y]) = b :: t ++ [y].
Proof.
  intros b t y Hb Hy. pose proof (trim_padded [] [] b t y Hb Hy eq_refl eq_refl) as H.
  simpl in H. rewrite app_nil_r in H. exact H.
Qed.

Theorem normalize_ws_padding : forall w1 w2 b t y, is_ws b = false -> is_ws y = false ->
  forallb is_ws w1 = true -> forallb is_ws w2 = true ->
  normalize (w1 ++ (b :: t ++ [y]) ++ w2) = normalize (b :: t ++ [y]).
Proof.
  intros w1 w2 b t y Hb Hy H1 H2. unfold normalize.
  rewrite trim_padded, trim_clean by assumption. reflexivity.
Qed.

(* a stream key that begins with a character other than white space, '<', ':' and ends with a character other
   than white space, '>' : the bare key, <key> and :key are spellings of the same stream *)
Definition clean_ends (a z : N) : Prop :=
  is_ws a = false /\ (LT =? a) = false /\ (a =? COLON) = false /\ is_ws z = false /\ (GT =? z) = false.

Theorem normalize_bare : forall a m z, clean_ends a z -> normalize (a :: m ++ [z]) = a :: m ++ [z].
Proof.
  intros a m z [Ha [Hlt [Hcol [Hz Hgt]]]]. unfold normalize. unfold LT, GT, COLON in *. rewrite trim_clean by assumption.
  unfold trim_start_matches, trim_end_matches. rewrite drop_while_stop by assumption.
  change (a :: m ++ [z]) with ((a :: m) ++ [z]). rewrite drop_while_end_stop by assumption.
  simpl. rewrite Hcol. reflexivity.
Qed.

Theorem normalize_brackets : forall a m z, clean_ends a z ->
  normalize (LT :: (a :: m ++ [z]) ++ [GT]) = a :: m ++ [z].
Proof.
  intros a m z [Ha [Hlt [Hcol [Hz Hgt]]]]. unfold normalize. unfold LT, GT, COLON in *.
  change (60 :: (a :: m ++ [z]) ++ [62]) with (60 :: ((a :: m) ++ [z]) ++ [62]).
  rewrite (trim_clean 60 ((a :: m) ++ [z]) 62) by reflexivity.
  unfold trim_start_matches, trim_end_matches.
  change (60 :: ((a :: m) ++ [z]) ++ [62]) with ([60] ++ (a :: (m ++ [z]) ++ [62])).
  rewrite drop_while_all by reflexivity. rewrite drop_while_stop by assumption.
  replace (a :: (m ++ [z]) ++ [62]) with ((a :: m) ++ [z] ++ [62]) by (simpl; rewrite <- app_assoc; reflexivity).
  rewrite drop_while_end_all; [| assumption | reflexivity].
  simpl. rewrite Hcol. reflexivity.
Qed.

Theorem normalize_colon : forall a m z, clean_ends a z ->
  normalize (COLON :: a :: m ++ [z]) = a :: m ++ [z].
Proof.
  intros a m z [Ha [Hlt [Hcol [Hz Hgt]]]]. unfold normalize. unfold LT, GT, COLON in *.
  change (58 :: a :: m ++ [z]) with (58 :: (a :: m) ++ [z]).
  rewrite (trim_clean 58 (a :: m) z) by (try reflexivity; assumption).
  unfold trim_start_matches, trim_end_matches.
  rewrite drop_while_stop by reflexivity.
  change (58 :: (a :: m) ++ [z]) with ((58 :: a :: m) ++ [z]). rewrite drop_while_end_stop by assumption.
  reflexivity.
Qed.

(* ---- exactness of routing --------------------------------------------------------------------------------------- *)
Lemma NoDup_map_inj_in : forall (A B : Type) (f : A -> B) (l : list A) x y,
  NoDup (map f l) -> In x l -> In y l -> f x = f y -> x = y.
Proof.
  induction l as [|a l IH]; intros x y Hnd Hx Hy He; [contradiction|].
  simpl in Hnd. inversion Hnd; subst. destruct Hx as [->|Hx], Hy as [->|Hy].
  - reflexivity.
  - exfalso. apply H1. rewrite He. apply in_map; assumption.
  - exfalso. apply H1. rewrite <- He. apply in_map; assumption.
  - apply IH; assumption.
Qed.

(* "content that this very window reported" in C11_own_window is what the history hands to that window's processor *)
Lemma reported_add_other : forall i ct rp n, i <> n -> reported (add_report i ct rp) n = reported rp n.
Proof.
  intros i ct rp n H. unfold reported, add_report. rewrite aget_aset.
  destruct (i =? n) eqn:E; [apply N.eqb_eq in E; contradiction | reflexivity].
Qed.

Lemma reported_add_same : forall i ct rp, reported (add_report i ct rp) i = reported rp i ++ [ct].
Proof. intros i ct rp. unfold reported, add_report. rewrite aget_aset, N.eqb_refl. reflexivity. Qed.

Theorem reported_fires : forall acts n, reported (reports_of acts) n = fires_of n acts.
Proof.
  intros acts n.
  assert (G : forall acts rp, reported (reports_from rp acts) n = reported rp n ++ fires_of n acts).
  { clear acts. induction acts as [|a acts IH]; intros rp; simpl; [rewrite app_nil_r; reflexivity|].
    destruct a as [i ct|]; [|apply IH]. rewrite IH. destruct (i =? n) eqn:E.
    - apply N.eqb_eq in E; subst. rewrite reported_add_same, <- app_assoc. reflexivity.
    - apply N.eqb_neq in E. rewrite reported_add_other by assumption. reflexivity. }
  exact (G acts []).
Qed.

Section FeedProofs.
  Variable wstate : Type.
  Variable wstep : wstate -> triple * N -> wstate * option (list triple).
  Variable wflush : wstate -> option (list triple).

  Notation win := (win wstate).
  Notation step_win := (step_win wstate wstep).
  Notation feed_event := (feed_event wstate wstep).
  Notation feed := (feed wstate wstep).
  Notation flush_all := (flush_all wstate wflush).
  Notation engine_acts := (engine_acts wstate wstep wflush).
  Notation alone := (alone wstate wstep).
  Notation alone_reports := (alone_reports wstate wstep wflush).

  (* declarations: no variable stream, pairwise different canonical stream IRIs, pairwise different window names *)
  Definition wf_table (tbl : list win) : Prop :=
    (forall w, In w tbl -> starts_with QMARK (w_decl _ w) = false) /\
    NoDup (map (fun w => normalize (w_decl _ w)) tbl) /\
    NoDup (map (w_name _) tbl).

  (* an event handed over with a spelling of window w''s stream reaches window w iff w is w' *)
  Theorem routing_exact : forall tbl w w' sp,
    wf_table tbl -> In w tbl -> In w' tbl -> normalize sp = normalize (w_decl _ w') ->
    (routes (w_decl _ w) sp = true <-> w = w').
  Proof.
    intros tbl w w' sp [Hq [Hnd _]] Hw Hw' Hsp. rewrite routes_spec, (Hq w Hw). split.
    - intros [H|H]; [discriminate|]. rewrite Hsp in H.
      exact (NoDup_map_inj_in _ _ (fun w => normalize (w_decl _ w)) tbl w w' Hnd Hw Hw' H).
    - intros ->. right. symmetry; assumption.
  Qed.

  (* and an event whose spelling is no spelling of w's stream does not reach w *)
  Theorem routing_sound : forall tbl w sp,
    wf_table tbl -> In w tbl -> (routes (w_decl _ w) sp = true <-> normalize (w_decl _ w) = normalize sp).
  Proof.
    intros tbl w sp [Hq _] Hw. rewrite routes_spec, (Hq w Hw). split; [intros [H|H]; [discriminate | assumption] | auto].
  Qed.

  (* ---- what reaches the processor of a window ------------------------------------------------------------------ *)
  Fixpoint find_win (n : N) (tbl : list win) : option win :=
    match tbl with
    | [] => None
    | w :: t => if w_name _ w =? n then Some w else find_win n t
    end.

  Lemma fires_of_app : forall n a b, fires_of n (a ++ b) = fires_of n a ++ fires_of n b.
  Proof. intros; unfold fires_of; apply flat_map_app. Qed.

  Lemma step_win_name : forall sp x w, w_name _ (fst (step_win sp x w)) = w_name _ w /\ w_decl _ (fst (step_win sp x w)) = w_decl _ w.
  Proof.
    intros sp x w; unfold Routing.step_win. destruct (routes (w_decl _ w) sp); [|auto].
    destruct (wstep (w_state _ w) x); simpl; auto.
  Qed.

  Lemma step_win_other : forall sp x w n, w_name _ w <> n -> fires_of n (snd (step_win sp x w)) = [].
  Proof.
    intros sp x w n Hn; unfold Routing.step_win. destruct (routes (w_decl _ w) sp); [|reflexivity].
    destruct (wstep (w_state _ w) x) as [s' [c|]]; simpl; [|reflexivity].
    destruct (w_name _ w =? n) eqn:E; [apply N.eqb_eq in E; contradiction | reflexivity].
  Qed.

  Lemma feed_event_cons : forall w t sp x,
    feed_event (w :: t) sp x =
    (fst (step_win sp x w) :: fst (feed_event t sp x), snd (step_win sp x w) ++ snd (feed_event t sp x)).
  Proof. intros; simpl. destruct (step_win sp x w), (feed_event t sp x); reflexivity. Qed.

  Lemma feed_event_names : forall tbl sp x, map (w_name _) (fst (feed_event tbl sp x)) = map (w_name _) tbl.
  Proof.
    induction tbl as [|w t IH]; intros sp x; [reflexivity|]. rewrite feed_event_cons; cbn [fst map].
    rewrite IH, (proj1 (step_win_name sp x w)). reflexivity.
  Qed.

  Lemma feed_event_absent : forall tbl sp x n, ~ In n (map (w_name _) tbl) -> fires_of n (snd (feed_event tbl sp x)) = [].
  Proof.
    induction tbl as [|w t IH]; intros sp x n Hn; [reflexivity|]. rewrite feed_event_cons; cbn [snd].
    rewrite fires_of_app, step_win_other, IH; [reflexivity | | ]; intros H; apply Hn; simpl; auto.
  Qed.

  (* one call: the window named n makes its own step (if routed), nobody else fires under its name *)
  Lemma feed_event_proj : forall tbl sp x n w,
    NoDup (map (w_name _) tbl) -> find_win n tbl = Some w ->
    find_win n (fst (feed_event tbl sp x)) = Some (fst (step_win sp x w)) /\
    fires_of n (snd (feed_event tbl sp x)) = fires_of n (snd (step_win sp x w)).
  Proof.
    induction tbl as [|w0 t IH]; intros sp x n w Hnd Hf; [discriminate|].
    simpl in Hnd. inversion Hnd; subst. rewrite feed_event_cons; cbn [fst snd]. simpl in Hf. simpl find_win.
    rewrite (proj1 (step_win_name sp x w0)). destruct (w_name _ w0 =? n) eqn:E.
    - inversion Hf; subst w0. apply N.eqb_eq in E. split; [reflexivity|].
      rewrite fires_of_app, feed_event_absent, app_nil_r; [reflexivity | rewrite <- E; assumption].
    - apply N.eqb_neq in E. destruct (IH sp x n w H2 Hf) as [H3 H4]. split; [assumption|].
      rewrite fires_of_app, step_win_other by assumption. assumption.
  Qed.

  Lemma feed_cons : forall tbl sp x evs,
    feed tbl ((sp, x) :: evs) =
    (fst (feed (fst (feed_event tbl sp x)) evs), Drain :: snd (feed_event tbl sp x) ++ snd (feed (fst (feed_event tbl sp x)) evs)).
  Proof. intros; simpl. destruct (feed_event tbl sp x) as [t1 a]; simpl. destruct (feed t1 evs); reflexivity. Qed.

  Lemma alone_cons : forall s x xs,
    alone s (x :: xs) = (fst (alone (fst (wstep s x)) xs),
                         match snd (wstep s x) with Some c => c :: snd (alone (fst (wstep s x)) xs) | None => snd (alone (fst (wstep s x)) xs) end).
  Proof. intros; simpl. destruct (wstep s x) as [s1 f]; simpl. destruct (alone s1 xs); reflexivity. Qed.

  Lemma feed_names : forall evs tbl, map (w_name _) (fst (feed tbl evs)) = map (w_name _) tbl.
  Proof.
    induction evs as [|[sp x] evs IH]; intros tbl; [reflexivity|]. rewrite feed_cons; cbn [fst].
    rewrite IH, feed_event_names. reflexivity.
  Qed.

  (* a whole stream of calls: the processor of window n is handed exactly what the window operator, run on its own
     from the window's state over the events routed to it, reports - and the window ends in that operator's state *)
  Lemma feed_proj : forall evs tbl n w,
    NoDup (map (w_name _) tbl) -> find_win n tbl = Some w ->
    (exists w', find_win n (fst (feed tbl evs)) = Some w' /\
                w_state _ w' = fst (alone (w_state _ w) (own_events (w_decl _ w) evs)) /\ w_name _ w' = w_name _ w) /\
    fires_of n (snd (feed tbl evs)) = snd (alone (w_state _ w) (own_events (w_decl _ w) evs)).
  Proof.
    induction evs as [|[sp x] evs IH]; intros tbl n w Hnd Hf.
    - simpl. split; [exists w; auto | reflexivity].
    - rewrite feed_cons; cbn [fst snd].
      destruct (feed_event_proj tbl sp x n w Hnd Hf) as [H1 H2].
      assert (Hnd' : NoDup (map (w_name _) (fst (feed_event tbl sp x)))) by (rewrite feed_event_names; assumption).
      destruct (IH _ n _ Hnd' H1) as [[w' [Hw1 [Hw2 Hw3]]] Hfire].
      destruct (step_win_name sp x w) as [Hn Hd]. rewrite Hd in *.
      change (fires_of n (Drain :: snd (feed_event tbl sp x) ++ snd (feed (fst (feed_event tbl sp x)) evs)))
        with (fires_of n (snd (feed_event tbl sp x) ++ snd (feed (fst (feed_event tbl sp x)) evs))).
      rewrite fires_of_app, H2, Hfire.
      unfold own_events; cbn [filter fst]. unfold Routing.step_win in *.
      destruct (routes (w_decl _ w) sp) eqn:Er.
      + cbn [map snd]. rewrite alone_cons. destruct (wstep (w_state _ w) x) as [s1 f] eqn:Es. cbn [fst snd w_state] in *.
        split.
        * exists w'. split; [assumption|]. split; [exact Hw2 | exact Hw3].
        * destruct f as [c|]; simpl.
          -- assert (Hnm : w_name _ w = n).
             { clear - Hf. induction tbl as [|w0 t IHt]; [discriminate|]. simpl in Hf.
               destruct (w_name _ w0 =? n) eqn:E; [inversion Hf; subst; apply N.eqb_eq; assumption | apply IHt; assumption]. }
             rewrite Hnm, N.eqb_refl. reflexivity.
          -- reflexivity.
      + cbn [fst snd] in *. split; [exists w'; split; [assumption|]; split; [exact Hw2 | exact Hw3] | reflexivity].
  Qed.

  Lemma flush_all_proj : forall tbl n w, NoDup (map (w_name _) tbl) -> find_win n tbl = Some w ->
    fires_of n (flush_all tbl) = match wflush (w_state _ w) with Some c => [c] | None => [] end.
  Proof.
    induction tbl as [|w0 t IH]; intros n w Hnd Hf; [discriminate|].
    simpl in Hnd. inversion Hnd; subst. unfold Routing.flush_all; simpl flat_map. fold (flush_all t).
    rewrite fires_of_app. simpl in Hf. destruct (w_name _ w0 =? n) eqn:E.
    - inversion Hf; subst w0. apply N.eqb_eq in E.
      assert (Ht : fires_of n (flush_all t) = []).
      { clear - H1 E. rewrite <- E. induction t as [|w1 t IHt]; [reflexivity|].
        unfold Routing.flush_all; simpl flat_map. fold (flush_all t). rewrite fires_of_app, IHt by (intros H; apply H1; right; assumption).
        destruct (wflush (w_state _ w1)); simpl; [|reflexivity].
        destruct (w_name _ w1 =? w_name _ w) eqn:E1; [apply N.eqb_eq in E1; exfalso; apply H1; left; assumption | reflexivity]. }
      rewrite Ht, app_nil_r. destruct (wflush (w_state _ w)); simpl; [rewrite E, N.eqb_refl|]; reflexivity.
    - rewrite (IH n w H2 Hf). destruct (wflush (w_state _ w0)); simpl; [rewrite E|]; reflexivity.
  Qed.

  Theorem processor_inputs : forall tbl evs stop n w,
    NoDup (map (w_name _) tbl) -> find_win n tbl = Some w ->
    fires_of n (engine_acts tbl evs stop) = alone_reports (w_state _ w) (own_events (w_decl _ w) evs) stop.
  Proof.
    intros tbl evs stop n w Hnd Hf. unfold Routing.engine_acts, Routing.alone_reports.
    destruct (feed_proj evs tbl n w Hnd Hf) as [[w' [Hw1 [Hw2 Hw3]]] Hfire].
    destruct (feed tbl evs) as [tbl' a] eqn:Ef. cbn [fst snd] in *.
    destruct (alone (w_state _ w) (own_events (w_decl _ w) evs)) as [s' r] eqn:Ea. cbn [fst snd] in *.
    rewrite fires_of_app, Hfire. f_equal. destruct stop; [|reflexivity].
    rewrite fires_of_app. simpl (fires_of n [Drain]). rewrite app_nil_r.
    assert (Hnd' : NoDup (map (w_name _) tbl')).
    { pose proof (feed_names evs tbl) as Hn. rewrite Ef in Hn. cbn [fst] in Hn. rewrite Hn. assumption. }
    rewrite (flush_all_proj tbl' n w' Hnd' Hw1), Hw2. reflexivity.
  Qed.
  Lemma find_win_In : forall tbl w, NoDup (map (w_name _) tbl) -> In w tbl -> find_win (w_name _ w) tbl = Some w.
  Proof.
    induction tbl as [|w0 t IH]; intros w Hnd Hin; [contradiction|]. simpl in Hnd. inversion Hnd; subst. simpl.
    destruct Hin as [->|Hin]; [rewrite N.eqb_refl; reflexivity|].
    destruct (w_name _ w0 =? w_name _ w) eqn:E; [|apply IH; assumption].
    apply N.eqb_eq in E. exfalso. apply H1. rewrite E. apply in_map; assumption.
  Qed.

  (* the sub-stream of a window: the events whose spelling has the canonical form of the window's declaration *)
  Definition canonical_events (decl : str) (evs : list (str * (triple * N))) : list (triple * N) :=
    map snd (filter (fun e => str_eqb (normalize decl) (normalize (fst e))) evs).

  Lemma own_events_canonical : forall decl evs, starts_with QMARK decl = false -> own_events decl evs = canonical_events decl evs.
  Proof. intros decl evs H. unfold own_events, canonical_events, routes. rewrite H. reflexivity. Qed.

  (* every content that window w "itself reported" in the history the engine produces from a stream of add_to_stream
     calls (and stop) is a report of the window operator run on its own over exactly the events of w's stream *)
  Theorem own_window_contents : forall tbl evs stop w,
    wf_table tbl -> In w tbl ->
    reported (reports_of (engine_acts tbl evs stop)) (w_name _ w) =
    alone_reports (w_state _ w) (canonical_events (w_decl _ w) evs) stop.
  Proof.
    intros tbl evs stop w [Hq [_ Hnd]] Hin.
    rewrite reported_fires, (processor_inputs tbl evs stop (w_name _ w) w Hnd (find_win_In tbl w Hnd Hin)).
    rewrite own_events_canonical by (apply Hq; assumption). reflexivity.
  Qed.
End FeedProofs.

