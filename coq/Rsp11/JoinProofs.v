(* C11 - natural_join / join_window_results compute the natural join. *)
Require Import List NArith Bool Lia Permutation.
Require Import KV.Rsp11.Model KV.Rsp11.Spec KV.Rsp11.BindProofs.
Import ListNotations.
Local Open Scope N_scope.

(* ---- merge is the union of the two maps (right values win; equal on shared keys when compatible) -------- *)
Lemma merge_cons : forall l k y r, merge l ((k, y) :: r) = merge (set k y l) r.
Proof. reflexivity. Qed.

Lemma lookup_merge : forall r l k, ukeys r ->
  lookup k (merge l r) = match lookup k r with Some y => Some y | None => lookup k l end.
Proof.
  induction r as [|[k0 y0] r IH]; intros l k Hu.
  - reflexivity.
  - rewrite merge_cons. inversion Hu; subst. rewrite (IH _ _ H2). simpl.
    destruct (k0 =? k) eqn:E.
    + apply N.eqb_eq in E; subst.
      assert (Hn : lookup k r = None) by (apply lookup_None_keys; assumption).
      rewrite Hn, lookup_set, N.eqb_refl. reflexivity.
    + rewrite lookup_set, E. reflexivity.
Qed.

Lemma merge_ukeys : forall r l, ukeys l -> ukeys (merge l r).
Proof.
  induction r as [|[k0 y0] r IH]; intros l Hu; [assumption|].
  rewrite merge_cons. apply IH, set_ukeys; assumption.
Qed.

Lemma compatible_spec : forall l r,
  compatible l r = true <-> forall k x, In (k, x) l -> forall y, lookup k r = Some y -> x = y.
Proof.
  intros l r; unfold compatible; rewrite forallb_forall. split.
  - intros H k x Hi y Hy. specialize (H (k, x) Hi). simpl in H. rewrite Hy in H. apply N.eqb_eq; assumption.
  - intros H [k x] Hi. simpl. destruct (lookup k r) as [y|] eqn:E; [|reflexivity].
    apply N.eqb_eq. eapply H; eassumption.
Qed.

Lemma sub_merge_r : forall l r, ukeys r -> sub r (merge l r).
Proof. intros l r Hu k x H. rewrite lookup_merge, H by assumption. reflexivity. Qed.

Lemma sub_merge_l : forall l r, ukeys r -> compatible l r = true -> sub l (merge l r).
Proof.
  intros l r Hu Hc k x H. rewrite lookup_merge by assumption.
  destruct (lookup k r) as [y|] eqn:E; [|assumption].
  f_equal. symmetry. eapply (proj1 (compatible_spec l r) Hc); [apply lookup_In; eassumption | eassumption].
Qed.

(* ---- natural_join ------------------------------------------------------------------------------------ *)
Definition nj_flat (L R : list binding) : list binding :=
  flat_map (fun l => flat_map (fun r => if compatible l r then [merge l r] else []) R) L.

Lemma flat_map_nil_fun : forall (A B : Type) (l : list A), flat_map (fun _ : A => @nil B) l = [].
Proof. induction l; simpl; auto. Qed.

(* the early return for an empty side is redundant *)
Lemma natural_join_flat : forall L R, natural_join L R = nj_flat L R.
Proof.
  intros [|l L] [|r R]; unfold natural_join, nj_flat; try reflexivity.
  simpl. rewrite flat_map_nil_fun. reflexivity.
Qed.

Theorem natural_join_In : forall L R row,
  In row (natural_join L R) <-> exists l r, In l L /\ In r R /\ compatible l r = true /\ row = merge l r.
Proof.
  intros L R row. rewrite natural_join_flat. unfold nj_flat. rewrite in_flat_map. split.
  - intros [l [Hl H]]. apply in_flat_map in H. destruct H as [r [Hr H]].
    destruct (compatible l r) eqn:E; [|contradiction]. destruct H as [H|[]]. exists l, r; auto.
  - intros [l [r [Hl [Hr [Hc He]]]]]. exists l; split; [assumption|]. apply in_flat_map.
    exists r; split; [assumption|]. rewrite Hc. left; symmetry; assumption.
Qed.

(* every row of the join extends one row of each side *)
Lemma natural_join_parts : forall L R row,
  (forall r, In r R -> ukeys r) -> In row (natural_join L R) ->
  exists l r, In l L /\ In r R /\ sub l row /\ sub r row.
Proof.
  intros L R row HR H. apply natural_join_In in H. destruct H as [l [r [Hl [Hr [Hc He]]]]]. subst.
  exists l, r. repeat split; try assumption; [apply sub_merge_l | apply sub_merge_r]; auto.
Qed.

Lemma natural_join_ukeys : forall L R row,
  (forall l, In l L -> ukeys l) -> In row (natural_join L R) -> ukeys row.
Proof.
  intros L R row HL H. apply natural_join_In in H. destruct H as [l [r [Hl [Hr [Hc He]]]]]. subst.
  apply merge_ukeys, HL; assumption.
Qed.

(* ---- join_window_results ------------------------------------------------------------------------------- *)
Lemma join_window_results_fold : forall w ws, join_window_results (w :: ws) = fold_left natural_join ws w.
Proof. intros w [|w' ws]; reflexivity. Qed.

Lemma fold_join_parts : forall ws acc row,
  (forall w r, In w ws -> In r w -> ukeys r) ->
  In row (fold_left natural_join ws acc) ->
  (exists a, In a acc /\ sub a row) /\ (forall w, In w ws -> exists a, In a w /\ sub a row).
Proof.
  induction ws as [|w ws IH]; intros acc row Hu H; simpl in *.
  - split; [exists row; split; [assumption | apply sub_refl] | intros w []].
  - destruct (IH (natural_join acc w) row) as [[m [Hm Hsm]] Hrest]; [intros w' r Hw Hr; eapply Hu; eauto | assumption|].
    destruct (natural_join_parts acc w m) as [l [r [Hl [Hr [Sl Sr]]]]]; [intros r Hr; eapply Hu; eauto | assumption|].
    split.
    + exists l; split; [assumption | eapply sub_trans; eassumption].
    + intros w' [<-|Hw'].
      * exists r; split; [assumption | eapply sub_trans; eassumption].
      * apply Hrest; assumption.
Qed.

Theorem join_window_results_parts : forall bufs row,
  (forall w r, In w bufs -> In r w -> ukeys r) ->
  In row (join_window_results bufs) -> forall w, In w bufs -> exists a, In a w /\ sub a row.
Proof.
  intros [|w ws] row Hu H w' Hw'; [contradiction|].
  rewrite join_window_results_fold in H.
  destruct (fold_join_parts ws w row) as [Hacc Hrest]; [intros w0 r H0 Hr; eapply Hu; [right; eassumption | assumption] | assumption|].
  destruct Hw' as [<-|Hw']; [assumption | apply Hrest; assumption].
Qed.

Lemma fold_join_ukeys : forall ws acc row,
  (forall l, In l acc -> ukeys l) -> In row (fold_left natural_join ws acc) -> ukeys row.
Proof.
  induction ws as [|w ws IH]; intros acc row Hu H; simpl in *; [apply Hu; assumption|].
  eapply IH; [|exact H]. intros l Hl. eapply natural_join_ukeys; eassumption.
Qed.

Lemma join_window_results_ukeys : forall bufs row,
  (forall w r, In w bufs -> In r w -> ukeys r) -> In row (join_window_results bufs) -> ukeys row.
Proof.
  intros [|w ws] row Hu H; [contradiction|]. rewrite join_window_results_fold in H.
  eapply fold_join_ukeys; [|exact H]. intros l Hl; eapply Hu; [left; reflexivity | assumption].
Qed.
