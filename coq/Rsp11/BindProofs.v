(* C11 - lemmas about bindings (rows), basic graph pattern evaluation and the shared store. *)
Require Import List NArith Bool Lia.
Require Import KV.Rsp11.Model KV.Rsp11.Spec.
Import ListNotations.
Local Open Scope N_scope.

(* ---- triples ---------------------------------------------------------------------------------------- *)
Lemma teqb_eq : forall a b, teqb a b = true <-> a = b.
Proof.
  intros [[s1 p1] o1] [[s2 p2] o2]; unfold teqb.
  rewrite !andb_true_iff, !N.eqb_eq. split.
  - intros [[H1 H2] H3]; subst; reflexivity.
  - intros H; inversion H; subst; auto.
Qed.

Lemma tmem_In : forall t S, tmem t S = true <-> In t S.
Proof.
  intros t S; unfold tmem; rewrite existsb_exists; split.
  - intros [x [Hx He]]; apply teqb_eq in He; subst; assumption.
  - intros H; exists t; split; [assumption | apply teqb_eq; reflexivity].
Qed.

Lemma tmem_false : forall t S, tmem t S = false <-> ~ In t S.
Proof.
  intros t S; split.
  - intros H Hi; apply tmem_In in Hi; congruence.
  - intros H; destruct (tmem t S) eqn:E; auto. apply tmem_In in E; contradiction.
Qed.

(* ---- bindings as finite maps --------------------------------------------------------------------------- *)
Definition ukeys (b : binding) : Prop := NoDup (map fst b).

Lemma lookup_In : forall k x b, lookup k b = Some x -> In (k, x) b.
Proof.
  induction b as [|[k' y] b IH]; simpl; [discriminate|].
  destruct (k' =? k) eqn:E.
  - intros H; inversion H; subst. apply N.eqb_eq in E; subst. left; reflexivity.
  - intros H; right; apply IH; assumption.
Qed.

Lemma lookup_None_keys : forall k b, lookup k b = None <-> ~ In k (map fst b).
Proof.
  induction b as [|[k' y] b IH]; simpl; [tauto|].
  destruct (k' =? k) eqn:E.
  - apply N.eqb_eq in E; subst. split; [discriminate | intros H; exfalso; apply H; left; reflexivity].
  - apply N.eqb_neq in E. rewrite IH. split; [intros H [H1|H1]; [contradiction | auto] | intros H H1; apply H; right; assumption].
Qed.

Lemma In_lookup_ukeys : forall k x b, ukeys b -> In (k, x) b -> lookup k b = Some x.
Proof.
  induction b as [|[k' y] b IH]; simpl; intros Hu Hi; [contradiction|].
  inversion Hu; subst. destruct Hi as [Hi|Hi].
  - inversion Hi; subst. rewrite N.eqb_refl. reflexivity.
  - destruct (k' =? k) eqn:E.
    + apply N.eqb_eq in E; subst. exfalso. apply H1. apply (in_map fst) in Hi. exact Hi.
    + apply IH; assumption.
Qed.

Lemma lookup_replace : forall k v x b,
  lookup k (replace v x b) = if v =? k then (match lookup v b with Some _ => Some x | None => None end) else lookup k b.
Proof.
  induction b as [|[k' y] b IH]; simpl.
  - destruct (v =? k); reflexivity.
  - destruct (k' =? v) eqn:E1.
    + apply N.eqb_eq in E1; subst. simpl. destruct (v =? k); reflexivity.
    + simpl. rewrite IH. destruct (v =? k) eqn:E3; [|reflexivity].
      apply N.eqb_eq in E3; subst. rewrite E1. reflexivity.
Qed.

Lemma lookup_insert : forall k v x b,
  lookup v b = None -> lookup k (insert v x b) = if v =? k then Some x else lookup k b.
Proof.
  induction b as [|[k' y] b IH]; simpl; intros Hn.
  - reflexivity.
  - destruct (k' =? v) eqn:E1; [discriminate|].
    destruct (v <? k') eqn:E2; simpl.
    + destruct (v =? k); reflexivity.
    + rewrite (IH Hn). destruct (v =? k) eqn:E3; [|reflexivity].
      apply N.eqb_eq in E3; subst. rewrite E1. reflexivity.
Qed.

Lemma lookup_set : forall k v x b, lookup k (set v x b) = if v =? k then Some x else lookup k b.
Proof.
  intros k v x b; unfold set. destruct (lookup v b) eqn:E.
  - rewrite lookup_replace, E. reflexivity.
  - apply lookup_insert; assumption.
Qed.

Lemma replace_keys : forall v x b, map fst (replace v x b) = map fst b.
Proof.
  induction b as [|[k' y] b IH]; simpl; [reflexivity|].
  destruct (k' =? v) eqn:E1; simpl.
  - apply N.eqb_eq in E1; subst; reflexivity.
  - rewrite IH; reflexivity.
Qed.

Lemma insert_keys : forall v x b k, In k (map fst (insert v x b)) <-> k = v \/ In k (map fst b).
Proof.
  induction b as [|[k' y] b IH]; intros k; simpl.
  - split; [intros [H|[]]; auto | intros [H|[]]; auto].
  - destruct (v <? k'); simpl.
    + split; [intros [H|[H|H]]; auto | intros [H|[H|H]]; auto].
    + rewrite IH. split; [intros [H|[H|H]]; auto | intros [H|[H|H]]; auto].
Qed.

Lemma insert_ukeys : forall v x b, ukeys b -> ~ In v (map fst b) -> ukeys (insert v x b).
Proof.
  unfold ukeys. induction b as [|[k' y] b IH]; simpl; intros Hu Hn.
  - constructor; [intros []|constructor].
  - inversion Hu; subst. destruct (v <? k'); simpl.
    + constructor; assumption.
    + constructor.
      * rewrite insert_keys. intros [H|H]; [apply Hn; left; assumption | contradiction].
      * apply IH; [assumption | intros H; apply Hn; right; assumption].
Qed.

Lemma set_ukeys : forall v x b, ukeys b -> ukeys (set v x b).
Proof.
  intros v x b Hu; unfold set. destruct (lookup v b) eqn:E.
  - unfold ukeys. rewrite replace_keys. assumption.
  - apply insert_ukeys; [assumption | apply lookup_None_keys; assumption].
Qed.

(* ---- matching ---------------------------------------------------------------------------------------- *)
Lemma sub_refl : forall b, sub b b.
Proof. intros b v x H; assumption. Qed.

Lemma sub_trans : forall a b c, sub a b -> sub b c -> sub a c.
Proof. intros a b c H1 H2 v x H; apply H2, H1; assumption. Qed.

Lemma sub_nil : forall b, sub [] b.
Proof. intros b v x H; discriminate. Qed.

Lemma sub_set_fresh : forall v x b, lookup v b = None -> sub b (set v x b).
Proof.
  intros v x b Hn k y Hk. rewrite lookup_set. destruct (v =? k) eqn:E; [|assumption].
  apply N.eqb_eq in E; subst. congruence.
Qed.

Lemma bind_term_sub : forall t x b b', bind_term t x b = Some b' -> sub b b' /\ (ukeys b -> ukeys b').
Proof.
  intros [v|c] x b b'; simpl.
  - destruct (lookup v b) as [y|] eqn:E.
    + destruct (y =? x); [|discriminate]. intros H; inversion H; subst. split; [apply sub_refl | auto].
    + intros H; inversion H; subst. split; [apply sub_set_fresh; assumption | apply set_ukeys].
  - destruct (c =? x); [|discriminate]. intros H; inversion H; subst. split; [apply sub_refl | auto].
Qed.

Lemma match_pat_sub : forall p t b b', match_pat p t b = Some b' -> sub b b' /\ (ukeys b -> ukeys b').
Proof.
  intros [[ps pp] po] [[s pr] o] b b'; simpl.
  destruct (bind_term ps s b) as [b1|] eqn:E1; [|discriminate].
  destruct (bind_term pp pr b1) as [b2|] eqn:E2; [|discriminate].
  intros E3. apply bind_term_sub in E1. apply bind_term_sub in E2. apply bind_term_sub in E3.
  destruct E1 as [S1 U1], E2 as [S2 U2], E3 as [S3 U3]. split.
  - eapply sub_trans; [exact S1|]. eapply sub_trans; [exact S2 | exact S3].
  - auto.
Qed.

(* matching under a smaller binding succeeds as well, and stays smaller *)
Lemma bind_term_weaken : forall t x b b' b0,
  bind_term t x b = Some b' -> sub b0 b -> exists b0', bind_term t x b0 = Some b0' /\ sub b0' b'.
Proof.
  intros [v|c] x b b' b0; simpl.
  - destruct (lookup v b) as [y|] eqn:E.
    + destruct (y =? x) eqn:Ey; [|discriminate]. intros H Hs; inversion H; subst.
      destruct (lookup v b0) as [y0|] eqn:E0.
      * pose proof (Hs _ _ E0) as H1. rewrite E in H1; inversion H1; subst. rewrite Ey.
        exists b0; split; [reflexivity | assumption].
      * exists (set v x b0); split; [reflexivity|]. intros k z. rewrite lookup_set.
        destruct (v =? k) eqn:Ek.
        -- apply N.eqb_eq in Ek; subst. intros Hz; inversion Hz; subst. apply N.eqb_eq in Ey; subst. assumption.
        -- apply Hs.
    + intros H Hs; inversion H; subst.
      destruct (lookup v b0) as [y0|] eqn:E0; [apply Hs in E0; congruence|].
      exists (set v x b0); split; [reflexivity|]. intros k z. rewrite !lookup_set.
      destruct (v =? k); [auto | apply Hs].
  - destruct (c =? x); [|discriminate]. intros H Hs; inversion H; subst. exists b0; auto.
Qed.

Lemma match_pat_weaken : forall p t b b' b0,
  match_pat p t b = Some b' -> sub b0 b -> exists b0', match_pat p t b0 = Some b0' /\ sub b0' b'.
Proof.
  intros [[ps pp] po] [[s pr] o] b b' b0; simpl.
  destruct (bind_term ps s b) as [b1|] eqn:E1; [|discriminate].
  destruct (bind_term pp pr b1) as [b2|] eqn:E2; [|discriminate].
  intros E3 Hs.
  destruct (bind_term_weaken _ _ _ _ _ E1 Hs) as [c1 [F1 S1]]. rewrite F1.
  destruct (bind_term_weaken _ _ _ _ _ E2 S1) as [c2 [F2 S2]]. rewrite F2.
  exact (bind_term_weaken _ _ _ _ _ E3 S2).
Qed.

Lemma match_pat_alone : forall p t b b', match_pat p t b = Some b' -> matches_alone p t = true.
Proof.
  intros p t b b' H. unfold matches_alone.
  destruct (match_pat_weaken _ _ _ _ [] H (sub_nil b)) as [b0 [H0 _]]. rewrite H0. reflexivity.
Qed.

(* ---- basic graph patterns ------------------------------------------------------------------------------ *)
Lemma opt_list_In : forall (A : Type) (o : option A) x, In x (opt_list o) <-> o = Some x.
Proof. intros A [y|] x; simpl; split; try tauto; try discriminate; [intros [->|[]]; reflexivity | intros H; inversion H; auto]. Qed.

Lemma extend_In : forall p S sols b',
  In b' (extend p S sols) <-> exists b t, In b sols /\ In t S /\ match_pat p t b = Some b'.
Proof.
  intros p S sols b'; unfold extend. rewrite in_flat_map. split.
  - intros [b [Hb H]]. apply in_flat_map in H. destruct H as [t [Ht H]]. apply opt_list_In in H.
    exists b, t; auto.
  - intros [b [t [Hb [Ht H]]]]. exists b; split; [assumption|]. apply in_flat_map. exists t; split; [assumption|].
    apply opt_list_In; assumption.
Qed.

Definition relevant (pats : list pat) (t : triple) : bool := existsb (fun p => matches_alone p t) pats.

(* the answers only depend on the stored triples that match one of the patterns on their own *)
Lemma eval_from_relevant : forall pats S S' sols a,
  (forall t, In t S -> relevant pats t = true -> In t S') ->
  In a (eval_from pats S sols) -> In a (eval_from pats S' sols).
Proof.
  induction pats as [|p ps IH]; intros S S' sols a Hrel Ha; simpl in *; [assumption|].
  assert (Hrel' : forall t, In t S -> relevant ps t = true -> In t S').
  { intros t Ht Hr. apply Hrel; [assumption|]. unfold relevant in *; simpl. rewrite Hr. apply orb_true_r. }
  apply (IH S S' _ a Hrel') in Ha. clear IH.
  revert Ha. generalize a. clear a.
  assert (Hinc : forall b, In b (extend p S sols) -> In b (extend p S' sols)).
  { intros b Hb. apply extend_In in Hb. destruct Hb as [b0 [t [H1 [H2 H3]]]].
    apply extend_In. exists b0, t. repeat split; try assumption.
    apply Hrel; [assumption|]. unfold relevant; simpl. rewrite (match_pat_alone _ _ _ _ H3). reflexivity. }
  revert Hinc. generalize (extend p S sols) (extend p S' sols). clear.
  induction ps as [|q qs IH]; intros l l' Hinc a Ha; simpl in *; [apply Hinc; assumption|].
  eapply IH; [|exact Ha]. intros b Hb. apply extend_In in Hb. destruct Hb as [b0 [t [H1 [H2 H3]]]].
  apply extend_In. exists b0, t. repeat split; try assumption. apply Hinc; assumption.
Qed.

Lemma eval_bgp_relevant : forall pats S S' a,
  (forall t, In t S -> relevant pats t = true -> In t S') ->
  In a (eval_bgp pats S) -> In a (eval_bgp pats S').
Proof. intros pats S S' a; unfold eval_bgp; apply eval_from_relevant. Qed.

Lemma eval_from_ukeys : forall pats S sols,
  (forall b, In b sols -> ukeys b) -> forall a, In a (eval_from pats S sols) -> ukeys a.
Proof.
  induction pats as [|p ps IH]; intros S sols Hs a Ha; simpl in *; [apply Hs; assumption|].
  eapply IH; [|exact Ha]. intros b Hb. apply extend_In in Hb. destruct Hb as [b0 [t [H1 [H2 H3]]]].
  apply (match_pat_sub _ _ _ _ H3). apply Hs; assumption.
Qed.

Lemma eval_bgp_ukeys : forall pats S a, In a (eval_bgp pats S) -> ukeys a.
Proof.
  intros pats S a; unfold eval_bgp; apply eval_from_ukeys.
  intros b [<-|[]]. constructor.
Qed.

(* ---- the store ------------------------------------------------------------------------------------------- *)
Lemma add_triple_In : forall t S u, In u (add_triple t S) <-> u = t \/ In u S.
Proof.
  intros t S u; unfold add_triple; destruct (tmem t S) eqn:E.
  - apply tmem_In in E; split; [auto | intros [->|H]; auto].
  - rewrite in_app_iff; simpl; split; intros H.
    + destruct H as [H|[H|[]]]; auto.
    + destruct H as [H|H]; auto.
Qed.

Lemma add_all_In : forall L S u, In u (add_all L S) <-> In u S \/ In u L.
Proof.
  unfold add_all. induction L as [|t L IH]; intros S u; simpl.
  - tauto.
  - rewrite IH, add_triple_In. split.
    + intros [[H|H]|H]; auto.
    + intros [H|[H|H]]; auto.
Qed.
