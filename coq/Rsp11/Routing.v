(* C11 - executable model of stream routing (RSPEngine::add_to_stream and its inner helper normalize_stream_iri)
   and of how the events reach the windows and the window contents reach the processors.

     fn normalize_stream_iri(s: &str) -> String {
         let s = s.trim();                                                  // Unicode White_Space, both ends
         let s = s.trim_start_matches('<').trim_end_matches('>');           // ALL leading '<', ALL trailing '>'
         let s = s.strip_prefix(':').unwrap_or(s);                          // at most one leading ':'
         s.to_string() }
     for (window_idx, window_config) in self.window_configs.iter().enumerate() {
         if window_config.stream_iri.starts_with('?') { window.add_to_window(..); continue; }   // variable stream
         if normalize(&window_config.stream_iri) == normalize(stream_iri) { window.add_to_window(..) } }

   Strings are lists of code points.  The window operator (CSPARQLWindow, property C09) is a parameter:
   a state, a step that may report one content per event, and a flush.  No proofs in this file. *)
Require Import List NArith Bool.
Require Import KV.Rsp11.Model.
Import ListNotations.
Local Open Scope N_scope.

Definition str := list N.

(* char::is_whitespace: the code points with the Unicode property White_Space *)
Definition is_ws (c : N) : bool :=
  ((9 <=? c) && (c <=? 13)) || (c =? 32) || (c =? 133) || (c =? 160) || (c =? 5760) ||
  ((8192 <=? c) && (c <=? 8202)) || (c =? 8232) || (c =? 8233) || (c =? 8239) || (c =? 8287) || (c =? 12288).

Fixpoint drop_while (f : N -> bool) (s : str) : str :=
  match s with
  | [] => []
  | c :: s' => if f c then drop_while f s' else s
  end.
Definition drop_while_end (f : N -> bool) (s : str) : str := rev (drop_while f (rev s)).

Definition trim (s : str) : str := drop_while_end is_ws (drop_while is_ws s).
Definition trim_start_matches (c : N) (s : str) : str := drop_while (N.eqb c) s.
Definition trim_end_matches (c : N) (s : str) : str := drop_while_end (N.eqb c) s.
Definition strip_prefix (c : N) (s : str) : str :=
  match s with
  | x :: s' => if x =? c then s' else s
  | [] => []
  end.
Definition starts_with (c : N) (s : str) : bool := match s with x :: _ => x =? c | [] => false end.

Definition LT : N := 60.   (* '<' *)
Definition GT : N := 62.   (* '>' *)
Definition COLON : N := 58.
Definition QMARK : N := 63.

Definition normalize (s : str) : str :=
  strip_prefix COLON (trim_end_matches GT (trim_start_matches LT (trim s))).

Fixpoint str_eqb (a b : str) : bool :=
  match a, b with
  | [], [] => true
  | x :: a', y :: b' => (x =? y) && str_eqb a' b'
  | _, _ => false
  end.

(* does the window declared ON `decl` receive an item handed to add_to_stream with the spelling `sp`? *)
Definition routes (decl sp : str) : bool :=
  starts_with QMARK decl || str_eqb (normalize decl) (normalize sp).

Section Feed.
  (* the window operator *)
  Variable wstate : Type.
  Variable wstep : wstate -> triple * N -> wstate * option (list triple).   (* add_to_window: at most one report *)
  Variable wflush : wstate -> option (list triple).                          (* flush: the merged content, if any *)

  (* a registered window: its name (the model's window index), the stream of its declaration, its state *)
  Record win := mkWin { w_name : N; w_decl : str; w_state : wstate }.

  Definition fire_of (n : N) (f : option (list triple)) : list action :=
    match f with Some c => [Fire n c] | None => [] end.

  Definition step_win (sp : str) (x : triple * N) (w : win) : win * list action :=
    if routes (w_decl w) sp then
      let '(s', f) := wstep (w_state w) x in (mkWin (w_name w) (w_decl w) s', fire_of (w_name w) f)
    else (w, []).

  (* the loop over window_configs of one add_to_stream call (SingleThread: the callbacks run synchronously) *)
  Fixpoint feed_event (tbl : list win) (sp : str) (x : triple * N) : list win * list action :=
    match tbl with
    | [] => ([], [])
    | w :: t =>
        let '(w', a) := step_win sp x w in
        let '(t', rest) := feed_event t sp x in
        (w' :: t', a ++ rest)
    end.

  (* a stream of add_to_stream calls (spelling, (item, timestamp)): each call drains first (multi-window mode) *)
  Fixpoint feed (tbl : list win) (evs : list (str * (triple * N))) : list win * list action :=
    match evs with
    | [] => (tbl, [])
    | (sp, x) :: evs' =>
        let '(tbl1, a) := feed_event tbl sp x in
        let '(tbl2, rest) := feed tbl1 evs' in
        (tbl2, Drain :: a ++ rest)
    end.

  (* stop(): flush every window in registration order, then drain *)
  Definition flush_all (tbl : list win) : list action :=
    flat_map (fun w => fire_of (w_name w) (wflush (w_state w))) tbl.

  Definition engine_acts (tbl : list win) (evs : list (str * (triple * N))) (stop : bool) : list action :=
    let '(tbl', a) := feed tbl evs in
    a ++ (if stop then flush_all tbl' ++ [Drain] else []).

  (* the window operator on its own, over a stream of (item, timestamp) *)
  Fixpoint alone (s : wstate) (xs : list (triple * N)) : wstate * list (list triple) :=
    match xs with
    | [] => (s, [])
    | x :: xs' =>
        let '(s1, f) := wstep s x in
        let '(s2, rest) := alone s1 xs' in
        (s2, match f with Some c => c :: rest | None => rest end)
    end.

  Definition alone_reports (s : wstate) (xs : list (triple * N)) (stop : bool) : list (list triple) :=
    let '(s', r) := alone s xs in
    r ++ (if stop then match wflush s' with Some c => [c] | None => [] end else []).
End Feed.

(* the sub-stream a declaration selects, and the contents a history hands to the processor of window n *)
Definition own_events (decl : str) (evs : list (str * (triple * N))) : list (triple * N) :=
  map snd (filter (fun e => routes decl (fst e)) evs).
Definition fires_of (n : N) (acts : list action) : list (list triple) :=
  flat_map (fun a => match a with Fire i c => if i =? n then [c] else [] | Drain => [] end) acts.
