(* C11 - executable model of Kolibrie's multi-window continuous queries (several WINDOW blocks, optional
   static background patterns).

   Rust anchors (kolibrie/src/rsp_engine.rs unless stated):
     RSPEngine::new                  one `r2r` store shared by all windows; a separate `static_db`
     create_window_processor!        per window: evict prev_window_triples, add content, materialize (no rules here),
                                     execute THIS window's plan against the shared store, send a WindowResult
     add_to_stream / stop            SingleThread: drain the result channel (process_single_thread_window_results)
                                     before feeding / after flushing
     process_single_thread_window_results, start_cross_window_coordinator   per-window buffers and sync policies
     emit_results, join_window_results, natural_join, execute_plan_as_bindings, add_static_ntriples
     rsp/simple_r2r.rs               add / remove / execute_query;  rsp/r2s.rs  Relation2StreamOperator::eval

   The store is a duplicate-free list of triples; a window plan is a basic graph pattern (what RSPBuilder
   builds from a WINDOW block); HashMap<String,String> rows are association lists sorted by variable.
   No proofs in this file. *)
Require Import List NArith Bool.
Import ListNotations.
Local Open Scope N_scope.

(* ---- store ----------------------------------------------------------------------------------------- *)
Definition triple := (N * N * N)%type.

Definition teqb (a b : triple) : bool :=
  match a, b with
  | (s1, p1, o1), (s2, p2, o2) => (s1 =? s2) && (p1 =? p2) && (o1 =? o2)
  end.
Definition tmem (t : triple) (S : list triple) : bool := existsb (teqb t) S.
Definition add_triple (t : triple) (S : list triple) : list triple := if tmem t S then S else S ++ [t].
Definition del_triple (t : triple) (S : list triple) : list triple := filter (fun u => negb (teqb t u)) S.
Definition add_all (c S : list triple) : list triple := fold_left (fun s t => add_triple t s) c S.
Definition del_all (c S : list triple) : list triple := fold_left (fun s t => del_triple t s) c S.

(* ---- basic graph patterns ---------------------------------------------------------------------------- *)
Inductive term := V (n : N) | C (n : N).
Definition pat := (term * term * term)%type.
Definition binding := list (N * N).

Fixpoint lookup (v : N) (b : binding) : option N :=
  match b with
  | [] => None
  | (k, x) :: b' => if k =? v then Some x else lookup v b'
  end.

(* HashMap::insert: overwrite the value of an existing key, otherwise add the key (rows are kept sorted by key,
   as the code sorts every row by variable name before handing it on) *)
Fixpoint replace (v x : N) (b : binding) : binding :=
  match b with
  | [] => []
  | (k, y) :: b' => if k =? v then (v, x) :: b' else (k, y) :: replace v x b'
  end.
Fixpoint insert (v x : N) (b : binding) : binding :=
  match b with
  | [] => [(v, x)]
  | (k, y) :: b' => if v <? k then (v, x) :: b else (k, y) :: insert v x b'
  end.
Definition set (v x : N) (b : binding) : binding :=
  match lookup v b with
  | Some _ => replace v x b
  | None => insert v x b
  end.

Definition bind_term (t : term) (x : N) (b : binding) : option binding :=
  match t with
  | C c => if c =? x then Some b else None
  | V v => match lookup v b with
           | Some y => if y =? x then Some b else None
           | None => Some (set v x b)
           end
  end.

Definition match_pat (p : pat) (t : triple) (b : binding) : option binding :=
  match p, t with
  | (ps, pp, po), (s, pr, o) =>
      match bind_term ps s b with
      | None => None
      | Some b1 =>
          match bind_term pp pr b1 with
          | None => None
          | Some b2 => bind_term po o b2
          end
      end
  end.

Definition opt_list {A} (o : option A) : list A := match o with Some x => [x] | None => [] end.

Definition extend (p : pat) (S : list triple) (sols : list binding) : list binding :=
  flat_map (fun b => flat_map (fun t => opt_list (match_pat p t b)) S) sols.

Fixpoint eval_from (pats : list pat) (S : list triple) (sols : list binding) : list binding :=
  match pats with
  | [] => sols
  | p :: ps => eval_from ps S (extend p S sols)
  end.

Definition eval_bgp (pats : list pat) (S : list triple) : list binding := eval_from pats S [[]].

Definition pair_eqb (a b : N * N) : bool := (fst a =? fst b) && (snd a =? snd b).
Fixpoint binding_eqb (a b : binding) : bool :=
  match a, b with
  | [], [] => true
  | x :: a', y :: b' => pair_eqb x y && binding_eqb a' b'
  | _, _ => false
  end.

(* ---- natural_join / join_window_results ---------------------------------------------------------------- *)
(* shared variables must agree on value *)
Definition compatible (l r : binding) : bool :=
  forallb (fun kv => match lookup (fst kv) r with Some y => snd kv =? y | None => true end) l.

(* let mut merged = left.clone(); for (k, v) in right { merged.insert(k, v) } *)
Definition merge (l r : binding) : binding := fold_left (fun m kv => set (fst kv) (snd kv) m) r l.

Definition natural_join (L R : list binding) : list binding :=
  match L, R with
  | [], _ => []
  | _, [] => []
  | _, _ => flat_map (fun l => flat_map (fun r => if compatible l r then [merge l r] else []) R) L
  end.

(* window_buffers.values(): the buffers in the map's iteration order *)
Definition join_window_results (buffers : list (list binding)) : list binding :=
  match buffers with
  | [] => []
  | [w] => w
  | w :: ws => fold_left natural_join ws w
  end.

(* ---- association lists keyed by window index (HashMap<String, _> keyed by window IRI) ---------------- *)
Fixpoint aget {A} (d : A) (k : N) (m : list (N * A)) : A :=
  match m with
  | [] => d
  | (k', v) :: m' => if k' =? k then v else aget d k m'
  end.
Fixpoint aset {A} (k : N) (v : A) (m : list (N * A)) : list (N * A) :=
  match m with
  | [] => [(k, v)]
  | (k', v') :: m' => if k' =? k then (k, v) :: m' else (k', v') :: aset k v m'
  end.
Fixpoint ahas {A} (k : N) (m : list (N * A)) : bool :=
  match m with
  | [] => false
  | (k', _) :: m' => (k' =? k) || ahas k m'
  end.

(* ---- relation-to-stream ----------------------------------------------------------------------------- *)
Inductive sop := RSTREAM | ISTREAM | DSTREAM.
Definition rmem (r : binding) (l : list binding) : bool := existsb (binding_eqb r) l.
Fixpoint dedup (l : list binding) : list binding :=
  match l with
  | [] => []
  | x :: l' => if rmem x l' then dedup l' else x :: dedup l'
  end.
Definition r2s_eval (op : sop) (rows last : list binding) : list binding * list binding :=
  match op with
  | RSTREAM => (rows, last)
  | ISTREAM => (filter (fun r => negb (rmem r last)) rows, dedup rows)
  | DSTREAM => (filter (fun r => negb (rmem r rows)) last, dedup rows)
  end.

(* ---- the engine ------------------------------------------------------------------------------------- *)
Inductive policy := Wait | Steal | TimeoutSteal | TimeoutDrop.

Record cfg := mkCfg {
  blocks : list (list pat);            (* window i's plan = the patterns of its WINDOW block *)
  static_pats : option (list pat);     (* static_data_plan *)
  static_store : list triple;          (* static_db, filled by add_static_ntriples; a separate object *)
  pol : policy;
  sop_of : sop
}.

(* add_static_ntriples: the triples of the document are added to the static store (a set) - and to nothing else *)
Definition add_static (doc : list triple) (c : cfg) : cfg :=
  mkCfg (blocks c) (static_pats c) (add_all doc (static_store c)) (pol c) (sop_of c).

(* RSPBuilder::create_rsp_window: the plan of a declared window is the WINDOW block with the SAME NAME
   (`window_blocks.iter().find(|block| block.window_name == window_clause.window_iri)`), wherever that block
   stands in the WHERE clause; a declared window without a block gets the plan `?s ?p ?o`.
   decls = the window names in declaration order, named = the WINDOW blocks in textual order. *)
Fixpoint find_block (name : N) (named : list (N * list pat)) : option (list pat) :=
  match named with
  | [] => None
  | (n, b) :: named' => if n =? name then Some b else find_block name named'
  end.
Definition pair_blocks (spo : list pat) (decls : list N) (named : list (N * list pat)) : list (list pat) :=
  map (fun d => match find_block d named with Some b => b | None => spo end) decls.

Definition nwin (c : cfg) : N := N.of_nat (length (blocks c)).
Definition block (c : cfg) (i : N) : list pat := nth (N.to_nat i) (blocks c) [].

Record state := mkState {
  store : list triple;                          (* the ONE r2r store all windows share *)
  prevs : list (N * list triple);               (* each processor's prev_window_triples *)
  chan : list (N * list binding);               (* window_result channel (window, rows), oldest first *)
  buffers : list (N * list binding);            (* last_materialized *)
  r2s_last : list binding                       (* the R2S operator's last_result *)
}.

Definition init : state := mkState [] [] [] [] [].

(* the processor of window i on a content: evict its previous content, add the current one, run ITS plan on
   the WHOLE shared store, send the rows to the coordinator channel *)
Definition store_after (i : N) (content : list triple) (st : state) : list triple :=
  add_all content (del_all (aget [] i (prevs st)) (store st)).

Definition fire (c : cfg) (i : N) (content : list triple) (st : state) : state :=
  let s' := store_after i content st in
  mkState s' (aset i content (prevs st)) (chan st ++ [(i, eval_bgp (block c i) s')]) (buffers st) (r2s_last st).

(* emit_results: join all buffers, join with the static bindings (evaluated on the static store only), R2S *)
Definition final_rows (c : cfg) (bufs : list (N * list binding)) : list binding :=
  let joined := join_window_results (map snd bufs) in
  match static_pats c with
  | Some sp => natural_join joined (eval_bgp sp (static_store c))
  | None => joined
  end.

Definition emit (c : cfg) (bufs : list (N * list binding)) (last : list binding) : list binding * list binding :=
  r2s_eval (sop_of c) (final_rows c bufs) last.

(* process_single_thread_window_results: drain the channel with EXTEND semantics, emit when every window
   has a buffer; Wait (and Timeout, which has no timer here) then clears the buffers, Steal keeps them *)
Definition absorb_extend (bufs : list (N * list binding)) (results : list (N * list binding)) : list (N * list binding) :=
  fold_left (fun b r => aset (fst r) (aget [] (fst r) b ++ snd r) b) results bufs.

Definition drain (c : cfg) (st : state) : state * list binding :=
  match chan st with
  | [] => (st, [])
  | results =>
      let bufs := absorb_extend (buffers st) results in
      if N.of_nat (length bufs) =? nwin c then
        let '(out, last') := emit c bufs (r2s_last st) in
        let bufs' := match pol c with Steal => bufs | _ => [] end in
        (mkState (store st) (prevs st) [] bufs' last', out)
      else (mkState (store st) (prevs st) [] bufs (r2s_last st), [])
  end.

(* what the caller's thread does in SingleThread mode:
     add_to_stream = Drain, then the firings this event triggers (windows in registration order);
     stop          = the firings of the flush, then Drain *)
Inductive action := Fire (i : N) (content : list triple) | Drain.

Definition step (c : cfg) (st : state) (a : action) : state * list binding :=
  match a with
  | Fire i content => (fire c i content st, [])
  | Drain => drain c st
  end.

Fixpoint run (c : cfg) (st : state) (acts : list action) : state * list (list binding) :=
  match acts with
  | [] => (st, [])
  | a :: acts' =>
      let '(st1, o) := step c st a in
      let '(st2, os) := run c st1 acts' in
      (st2, o :: os)
  end.

Definition emissions (c : cfg) (acts : list action) : list (list binding) := snd (run c init acts).

(* ---- MultiThread mode: the coordinator's bookkeeping (start_cross_window_coordinator) ------------------
   Worker threads run `fire` under the store's mutex in any order; the coordinator receives a non-empty
   batch of pending results (the blocking recv plus everything try_recv drains), with REPLACE semantics,
   and a deadline may expire between batches (Timeout policies). *)
Record cstate := mkC {
  c_bufs : list (N * list binding);     (* last_materialized *)
  c_trig : list N;                      (* cycle_triggered *)
  c_last : list binding                 (* R2S last_result *)
}.
Definition cinit : cstate := mkC [] [] [].

Definition absorb_replace (bufs : list (N * list binding)) (results : list (N * list binding)) : list (N * list binding) :=
  fold_left (fun b r => aset (fst r) (snd r) b) results bufs.
Fixpoint nadd (k : N) (l : list N) : list N :=
  match l with
  | [] => [k]
  | x :: l' => if x =? k then l else x :: nadd k l'
  end.

Inductive cevent := Batch (results : list (N * list binding)) | Deadline.

Definition cstep (c : cfg) (cs : cstate) (e : cevent) : cstate * list binding :=
  match e with
  | Batch [] => (cs, [])
  | Batch results =>
      let bufs := absorb_replace (c_bufs cs) results in
      let trig := fold_left (fun t r => nadd (fst r) t) results (c_trig cs) in
      if N.of_nat (length trig) =? nwin c then
        let '(out, last') := emit c bufs (c_last cs) in (mkC bufs [] last', out)
      else
        match pol c with
        | Steal =>
            if N.of_nat (length bufs) =? nwin c then
              let '(out, last') := emit c bufs (c_last cs) in (mkC bufs [] last', out)
            else (mkC bufs [] (c_last cs), [])
        | _ => (mkC bufs trig (c_last cs), [])
        end
  | Deadline =>
      match c_trig cs with
      | [] => (cs, [])
      | _ =>
          match pol c with
          | TimeoutSteal =>
              if N.of_nat (length (c_bufs cs)) =? nwin c then
                let '(out, last') := emit c (c_bufs cs) (c_last cs) in (mkC (c_bufs cs) [] last', out)
              else (mkC (c_bufs cs) [] (c_last cs), [])
          | TimeoutDrop => (mkC (c_bufs cs) [] (c_last cs), [])
          | _ => (cs, [])
          end
      end
  end.

(* a multi-thread run: firings (in the order the mutex let them in) interleaved with coordinator events;
   a Batch n takes the n oldest pending results (at least one if any) *)
Inductive mact := MFire (i : N) (content : list triple) | MBatch (n : nat) | MDeadline.

Record mstate := mkM { m_st : state; m_cs : cstate }.
Definition minit : mstate := mkM init cinit.

Definition mstep (c : cfg) (m : mstate) (a : mact) : mstate * list binding :=
  match a with
  | MFire i content => (mkM (fire c i content (m_st m)) (m_cs m), [])
  | MBatch n =>
      let st := m_st m in
      let taken := firstn (Datatypes.S n) (chan st) in
      let '(cs', out) := cstep c (m_cs m) (Batch taken) in
      (mkM (mkState (store st) (prevs st) (skipn (Datatypes.S n) (chan st)) (buffers st) (r2s_last st)) cs', out)
  | MDeadline =>
      let '(cs', out) := cstep c (m_cs m) Deadline in (mkM (m_st m) cs', out)
  end.

Fixpoint mrun (c : cfg) (m : mstate) (acts : list mact) : mstate * list (list binding) :=
  match acts with
  | [] => (m, [])
  | a :: acts' =>
      let '(m1, o) := mstep c m a in
      let '(m2, os) := mrun c m1 acts' in
      (m2, o :: os)
  end.

Definition memissions (c : cfg) (acts : list mact) : list (list binding) := snd (mrun c minit acts).
