(* Entry points of the correspondence check for C11. *)
Require Import List NArith Bool.
Require Import KV.Rsp11.Model KV.Rsp11.Spec KV.Rsp11.Routing.
Import ListNotations.
Local Open Scope N_scope.

(* the Spec oracle on the implementation's single-thread output: one list of solutions per action (empty for
   firings), each judged against the contents reported up to and including that action *)
Fixpoint oracle (c : cfg) (rp : reports) (acts : list action) (impl : list (list binding)) : list (list bool) :=
  match acts, impl with
  | a :: acts', rows :: impl' =>
      let rp' := match a with Fire i ct => add_report i ct rp | Drain => rp end in
      map (goodb c rp') rows :: oracle c rp' acts' impl'
  | _, _ => []
  end.

(* single-thread case: (model emissions per action, known-class flag, oracle verdicts on the implementation's rows) *)
Definition check_st (c : cfg) (acts : list action) (impl : list (list binding)) :=
  (emissions c acts, known_C11 c acts, oracle c [] acts impl).

(* multi-thread case: the schedule is not observable, so every solution is judged against everything the windows
   reported during the run; the known class is over-approximated independently of the schedule: some content of a
   window j holds a triple that matches, on its own, a pattern of another block i and that is missing from at
   least one content window i reported (only then can a firing of i see it as a foreign triple) *)
Definition mt_known (c : cfg) (rp : reports) : bool :=
  existsb (fun i =>
    existsb (fun j =>
      negb (i =? j) &&
      existsb (fun cj =>
        existsb (fun t => existsb (fun p => matches_alone p t) (block c i) &&
                          negb (forallb (fun ci => tmem t ci) (reported rp i))) cj)
        (reported rp j))
      (upto (length (blocks c))))
    (upto (length (blocks c))).

Definition check_mt (c : cfg) (rp : reports) (impl : list binding) :=
  (mt_known c rp, map (goodb c rp) impl).

(* the multi-thread model under a given schedule (used to validate the coordinator model on schedules the
   check constructs: every firing immediately followed by a batch of one = the unperturbed order) *)
Definition model_mt (c : cfg) (acts : list mact) := (memissions c acts, mknown_C11 c acts).

(* configurations as the check states them: window names in declaration order, WINDOW blocks in textual order;
   the variables s, p, o of the default plan carry the numbers 8, 7, 6 in the check's variable numbering *)
Definition spo_default : list pat := [(V 8, V 7, V 6)].
Definition mk_cfg (decls : list N) (named : list (N * list pat)) (sp : option (list pat)) (doc : list triple)
                  (p : policy) (o : sop) : cfg :=
  add_static doc (mkCfg (pair_blocks spo_default decls named) sp [] p o).

(* stream routing as the model computes it (Routing.routes: normalize_stream_iri on code points): for every declared
   stream the spellings (of the events of a case) that reach its window *)
Definition route_table (decls : list str) (spellings : list str) : list (list bool) :=
  map (fun d => map (routes d) spellings) decls.
