(* C11 - the result of join_window_results does not depend on the order in which HashMap::values() lists the
   window buffers: for rows kept sorted by variable (the code sorts them; the model's `set` keeps them sorted)
   natural_join is commutative and right-commutative up to permutation. *)
Require Import List NArith Bool Lia Permutation.
Require Import KV.Rsp11.Model KV.Rsp11.Spec KV.Rsp11.BindProofs KV.Rsp11.JoinProofs KV.Rsp11.RunProofs.
Import ListNotations.
Local Open Scope N_scope.

(* ---- rows sorted by key: extensionality ------------------------------------------------------------------ *)
Fixpoint sortedk (b : binding) : Prop :=
  match b with
  | [] => True
  | kv :: b' => (forall k', In k' (map fst b') -> fst kv < k') /\ sortedk b'
  end.

Lemma sortedk_ukeys : forall b, sortedk b -> ukeys b.
Proof.
  unfold ukeys. induction b as [|[k x] b IH]; simpl; intros H; [constructor|].
  destruct H as [H1 H2]. constructor; [|apply IH; assumption].
  intros Hin. specialize (H1 _ Hin). simpl in H1. lia.
Qed.

Lemma sortedk_ext : forall a b, sortedk a -> sortedk b -> (forall k, lookup k a = lookup k b) -> a = b.
Proof.
  induction a as [|[k x] a IH]; intros [|[k' y] b] Ha Hb He.
  - reflexivity.
  - specialize (He k'). simpl in He. rewrite N.eqb_refl in He. discriminate.
  - specialize (He k). simpl in He. rewrite N.eqb_refl in He. discriminate.
  - simpl in Ha, Hb. destruct Ha as [Ha1 Ha2], Hb as [Hb1 Hb2].
    assert (Hk : k = k').
    { destruct (N.lt_trichotomy k k') as [Hlt|[Heq|Hgt]]; [exfalso | assumption | exfalso].
      - pose proof (He k) as H. simpl in H. rewrite N.eqb_refl in H.
        destruct (k' =? k) eqn:E; [apply N.eqb_eq in E; lia|].
        symmetry in H. apply lookup_In in H. apply (in_map fst) in H. simpl in H. specialize (Hb1 _ H). simpl in Hb1. lia.
      - pose proof (He k') as H. simpl in H. rewrite N.eqb_refl in H.
        destruct (k =? k') eqn:E; [apply N.eqb_eq in E; lia|].
        apply lookup_In in H. apply (in_map fst) in H. simpl in H. specialize (Ha1 _ H). simpl in Ha1. lia. }
    subst k'. pose proof (He k) as Hx. simpl in Hx. rewrite N.eqb_refl in Hx. inversion Hx; subst y.
    f_equal. apply IH; try assumption. intros j. specialize (He j). simpl in He.
    destruct (k =? j) eqn:E; [|assumption]. apply N.eqb_eq in E; subst j.
    assert (H1 : lookup k a = None).
    { apply lookup_None_keys. intros Hin. specialize (Ha1 _ Hin). simpl in Ha1. lia. }
    assert (H2 : lookup k b = None).
    { apply lookup_None_keys. intros Hin. specialize (Hb1 _ Hin). simpl in Hb1. lia. }
    congruence.
Qed.

Lemma replace_sortedk : forall v x b, sortedk b -> sortedk (replace v x b).
Proof.
  induction b as [|[k y] b IH]; simpl; intros H; [exact I|]. destruct H as [H1 H2].
  destruct (k =? v) eqn:E.
  - apply N.eqb_eq in E; subst. simpl. split; assumption.
  - simpl. split; [|apply IH; assumption]. rewrite replace_keys. assumption.
Qed.

Lemma insert_sortedk : forall v x b, sortedk b -> ~ In v (map fst b) -> sortedk (insert v x b).
Proof.
  induction b as [|[k y] b IH]; simpl; intros H Hn; [split; [intros k' [] | exact I]|]. destruct H as [H1 H2].
  destruct (v <? k) eqn:E.
  - apply N.ltb_lt in E. simpl. split; [|split; assumption].
    intros k' [Hk|Hk]; [subst; assumption | specialize (H1 _ Hk); simpl in H1; lia].
  - apply N.ltb_ge in E. simpl. split.
    + intros k' Hk. apply insert_keys in Hk. destruct Hk as [->|Hk]; [|apply H1; assumption].
      simpl. assert (v <> k) by (intros ->; apply Hn; left; reflexivity). lia.
    + apply IH; [assumption | intros Hin; apply Hn; right; assumption].
Qed.

Lemma set_sortedk : forall v x b, sortedk b -> sortedk (set v x b).
Proof.
  intros v x b H; unfold set. destruct (lookup v b) eqn:E.
  - apply replace_sortedk; assumption.
  - apply insert_sortedk; [assumption | apply lookup_None_keys; assumption].
Qed.

Lemma merge_sortedk : forall r l, sortedk l -> sortedk (merge l r).
Proof.
  induction r as [|[k y] r IH]; intros l H; [assumption|]. rewrite merge_cons. apply IH, set_sortedk; assumption.
Qed.

(* the rows the evaluator produces are sorted *)
Lemma bind_term_sortedk : forall t x b b', bind_term t x b = Some b' -> sortedk b -> sortedk b'.
Proof.
  intros [v|c0] x b b'; simpl.
  - destruct (lookup v b) as [y|]; [destruct (y =? x); [|discriminate]; intros H; inversion H; subst; auto|].
    intros H; inversion H; subst. apply set_sortedk.
  - destruct (c0 =? x); [|discriminate]. intros H; inversion H; subst; auto.
Qed.

Lemma match_pat_sortedk : forall p t b b', match_pat p t b = Some b' -> sortedk b -> sortedk b'.
Proof.
  intros [[ps pp] po] [[s pr] o] b b'; simpl.
  destruct (bind_term ps s b) as [b1|] eqn:E1; [|discriminate].
  destruct (bind_term pp pr b1) as [b2|] eqn:E2; [|discriminate].
  intros E3 H. eapply bind_term_sortedk; [exact E3|]. eapply bind_term_sortedk; [exact E2|].
  eapply bind_term_sortedk; [exact E1 | exact H].
Qed.

Lemma eval_from_sortedk : forall pats S sols,
  (forall b, In b sols -> sortedk b) -> forall a, In a (eval_from pats S sols) -> sortedk a.
Proof.
  induction pats as [|p ps IH]; intros S sols Hs a Ha; simpl in *; [apply Hs; assumption|].
  eapply IH; [|exact Ha]. intros b Hb. apply extend_In in Hb. destruct Hb as [b0 [t [H1 [H2 H3]]]].
  eapply match_pat_sortedk; [exact H3 | apply Hs; assumption].
Qed.

Theorem eval_bgp_sortedk : forall pats S a, In a (eval_bgp pats S) -> sortedk a.
Proof. intros pats S a; unfold eval_bgp; apply eval_from_sortedk. intros b [<-|[]]. exact I. Qed.

(* ---- compatibility as a statement about the two maps ----------------------------------------------------------- *)
Lemma compatible_maps : forall l r, ukeys l ->
  (compatible l r = true <-> forall k x y, lookup k l = Some x -> lookup k r = Some y -> x = y).
Proof.
  intros l r Hu. rewrite compatible_spec. split.
  - intros H k x y Hl Hr. eapply H; [apply lookup_In; eassumption | eassumption].
  - intros H k x Hin y Hr. eapply H; [apply In_lookup_ukeys; eassumption | eassumption].
Qed.

Lemma compatible_sym : forall l r, ukeys l -> ukeys r -> compatible l r = compatible r l.
Proof.
  intros l r Hl Hr.
  destruct (compatible l r) eqn:E1, (compatible r l) eqn:E2; try reflexivity; exfalso.
  - assert (H : compatible r l = true); [|congruence].
    apply compatible_maps; [assumption|]. intros k x y H1 H2. symmetry.
    eapply (proj1 (compatible_maps l r Hl) E1); eassumption.
  - assert (H : compatible l r = true); [|congruence].
    apply compatible_maps; [assumption|]. intros k x y H1 H2. symmetry.
    eapply (proj1 (compatible_maps r l Hr) E2); eassumption.
Qed.

Lemma merge_comm : forall l r, sortedk l -> sortedk r -> compatible l r = true -> merge l r = merge r l.
Proof.
  intros l r Hl Hr Hc. apply sortedk_ext; try (apply merge_sortedk; assumption).
  intros k. rewrite !lookup_merge by (apply sortedk_ukeys; assumption).
  destruct (lookup k r) as [y|] eqn:Er, (lookup k l) as [x|] eqn:El; try reflexivity.
  f_equal. symmetry. eapply (proj1 (compatible_maps l r (sortedk_ukeys _ Hl)) Hc); eassumption.
Qed.

Lemma compatible_merge : forall a x y, ukeys a -> ukeys x -> ukeys y -> compatible a x = true ->
  compatible (merge a x) y = compatible a y && compatible x y.
Proof.
  intros a x y Ha Hx Hy Hax.
  pose proof (proj1 (compatible_maps a x Ha) Hax) as Max.
  assert (Hm : ukeys (merge a x)) by (apply merge_ukeys; assumption).
  destruct (compatible (merge a x) y) eqn:E.
  - pose proof (proj1 (compatible_maps _ y Hm) E) as M. symmetry. apply andb_true_iff. split.
    + apply compatible_maps; [assumption|]. intros k v w H1 H2.
      destruct (lookup k x) as [v'|] eqn:Ex.
      * assert (v = v') by (eapply Max; eassumption). subst. eapply M; [|eassumption]. rewrite lookup_merge, Ex by assumption. reflexivity.
      * eapply M; [|eassumption]. rewrite lookup_merge, Ex by assumption. assumption.
    + apply compatible_maps; [assumption|]. intros k v w H1 H2.
      eapply M; [|eassumption]. rewrite lookup_merge, H1 by assumption. reflexivity.
  - symmetry. apply not_true_iff_false. intros H. apply andb_true_iff in H. destruct H as [H1 H2].
    pose proof (proj1 (compatible_maps a y Ha) H1) as May. pose proof (proj1 (compatible_maps x y Hx) H2) as Mxy.
    assert (Hc : compatible (merge a x) y = true); [|congruence].
    apply compatible_maps; [assumption|]. intros k v w Hv Hw. rewrite lookup_merge in Hv by assumption.
    destruct (lookup k x) as [v'|] eqn:Ex; [inversion Hv; subst; eapply Mxy; eassumption | eapply May; eassumption].
Qed.

(* ---- permutations of nested flat_maps ----------------------------------------------------------------------------- *)
Lemma flat_map_app_perm : forall (A B : Type) (g h : A -> list B) l,
  Permutation (flat_map (fun b => g b ++ h b) l) (flat_map g l ++ flat_map h l).
Proof.
  induction l as [|b l IH]; simpl; [constructor|].
  eapply Permutation_trans; [apply Permutation_app_head; exact IH|].
  rewrite <- !app_assoc. apply Permutation_app_head.
  rewrite !app_assoc. apply Permutation_app_tail. apply Permutation_app_comm.
Qed.

Lemma flat_map_swap : forall (A B C : Type) (f : A -> B -> list C) la lb,
  Permutation (flat_map (fun a => flat_map (f a) lb) la) (flat_map (fun b => flat_map (fun a => f a b) la) lb).
Proof.
  induction la as [|a la IH]; intros lb; simpl.
  - rewrite flat_map_nil_fun. constructor.
  - eapply Permutation_trans; [apply Permutation_app_head; apply IH|].
    apply Permutation_sym. apply (flat_map_app_perm _ _ (f a) (fun b => flat_map (fun a0 => f a0 b) la)).
Qed.

Lemma flat_map_perm_ext : forall (A B : Type) (f g : A -> list B) l,
  (forall x, In x l -> Permutation (f x) (g x)) -> Permutation (flat_map f l) (flat_map g l).
Proof.
  induction l as [|x l IH]; intros H; simpl; [constructor|].
  apply Permutation_app; [apply H; left; reflexivity | apply IH; intros y Hy; apply H; right; assumption].
Qed.

Lemma flat_map_eq_ext : forall (A B : Type) (f g : A -> list B) l,
  (forall x, In x l -> f x = g x) -> flat_map f l = flat_map g l.
Proof.
  induction l as [|x l IH]; intros H; simpl; [reflexivity|].
  rewrite (H x (or_introl eq_refl)), IH; [reflexivity | intros y Hy; apply H; right; assumption].
Qed.

Lemma flat_map_flat_map_c : forall (A B C : Type) (f : B -> list C) (g : A -> list B) l,
  flat_map f (flat_map g l) = flat_map (fun x => flat_map f (g x)) l.
Proof. induction l as [|x l IH]; simpl; [reflexivity|]. rewrite flat_map_app, IH. reflexivity. Qed.

(* ---- natural_join: commutative and right-commutative up to permutation ------------------------------------------------ *)
Definition all_sorted (L : list binding) : Prop := forall b, In b L -> sortedk b.

Definition F (l r : binding) : list binding := if compatible l r then [merge l r] else [].

Lemma F_comm : forall l r, sortedk l -> sortedk r -> F l r = F r l.
Proof.
  intros l r Hl Hr. unfold F. rewrite (compatible_sym l r) by (apply sortedk_ukeys; assumption).
  destruct (compatible r l) eqn:E; [|reflexivity]. f_equal. symmetry. apply merge_comm; assumption.
Qed.

Theorem natural_join_comm : forall L R, all_sorted L -> all_sorted R ->
  Permutation (natural_join L R) (natural_join R L).
Proof.
  intros L R HL HR. rewrite !natural_join_flat. unfold nj_flat. fold F.
  eapply Permutation_trans; [apply (flat_map_swap _ _ _ F L R)|].
  apply Permutation_refl'. apply flat_map_eq_ext. intros r Hr. apply flat_map_eq_ext. intros l Hl.
  apply F_comm; [apply HL | apply HR]; assumption.
Qed.

Lemma natural_join_sorted : forall L R, all_sorted L -> all_sorted (natural_join L R).
Proof.
  intros L R HL row H. apply natural_join_In in H. destruct H as [l [r [Hl [Hr [Hc He]]]]]. subst.
  apply merge_sortedk, HL; assumption.
Qed.

(* joining with X then with Y: one row per (a, x, y) that are pairwise compatible *)
Definition T (a x y : binding) : list binding :=
  if compatible a x then (if compatible (merge a x) y then [merge (merge a x) y] else []) else [].

Lemma nj_nj_flat : forall A X Y,
  nj_flat (nj_flat A X) Y = flat_map (fun a => flat_map (fun x => flat_map (fun y => T a x y) Y) X) A.
Proof.
  intros A X Y. unfold nj_flat at 1. unfold nj_flat at 1. rewrite flat_map_flat_map_c.
  apply flat_map_eq_ext. intros a _. rewrite flat_map_flat_map_c.
  apply flat_map_eq_ext. intros x _. unfold T. destruct (compatible a x); simpl.
  - rewrite app_nil_r. reflexivity.
  - rewrite flat_map_nil_fun. reflexivity.
Qed.

Lemma T_swap : forall a x y, sortedk a -> sortedk x -> sortedk y -> T a x y = T a y x.
Proof.
  intros a x y Ha Hx Hy. unfold T.
  pose proof (sortedk_ukeys _ Ha) as Ua. pose proof (sortedk_ukeys _ Hx) as Ux. pose proof (sortedk_ukeys _ Hy) as Uy.
  destruct (compatible a x) eqn:Eax, (compatible a y) eqn:Eay.
  - rewrite (compatible_merge a x y), (compatible_merge a y x) by assumption.
    rewrite Eax, Eay. simpl. rewrite (compatible_sym x y) by assumption.
    destruct (compatible y x) eqn:Eyx; [|reflexivity]. f_equal.
    apply sortedk_ext; try (apply merge_sortedk, merge_sortedk; assumption).
    intros k. rewrite !lookup_merge by (try assumption; apply merge_ukeys; assumption).
    destruct (lookup k y) as [w|] eqn:Ey, (lookup k x) as [v|] eqn:Ex; try reflexivity.
    f_equal. eapply (proj1 (compatible_maps y x Uy) Eyx); eassumption.
  - rewrite (compatible_merge a x y) by assumption. rewrite Eay. reflexivity.
  - rewrite (compatible_merge a y x) by assumption. rewrite Eax. reflexivity.
  - reflexivity.
Qed.

Theorem natural_join_right_comm : forall A X Y, all_sorted A -> all_sorted X -> all_sorted Y ->
  Permutation (natural_join (natural_join A X) Y) (natural_join (natural_join A Y) X).
Proof.
  intros A X Y HA HX HY. rewrite !natural_join_flat, !nj_nj_flat.
  apply flat_map_perm_ext. intros a Ha.
  eapply Permutation_trans; [apply (flat_map_swap _ _ _ (T a) X Y)|].
  apply Permutation_refl'. apply flat_map_eq_ext. intros y Hy. apply flat_map_eq_ext. intros x Hx.
  apply T_swap; [apply HA | apply HX | apply HY]; assumption.
Qed.

Lemma natural_join_perm_l : forall L L' R, Permutation L L' -> Permutation (natural_join L R) (natural_join L' R).
Proof. intros L L' R H. rewrite !natural_join_flat. unfold nj_flat. apply Permutation_flat_map; assumption. Qed.

Lemma all_sorted_perm : forall L L', Permutation L L' -> all_sorted L -> all_sorted L'.
Proof. intros L L' H HL b Hb. apply HL. eapply Permutation_in; [apply Permutation_sym; eassumption | assumption]. Qed.

(* ---- join_window_results ------------------------------------------------------------------------------------------- *)
Definition bufs_sorted (ws : list (list binding)) : Prop := forall w, In w ws -> all_sorted w.

Lemma fold_join_perm_acc : forall ws acc acc', Permutation acc acc' ->
  Permutation (fold_left natural_join ws acc) (fold_left natural_join ws acc').
Proof.
  induction ws as [|w ws IH]; intros acc acc' H; simpl; [assumption|]. apply IH, natural_join_perm_l; assumption.
Qed.

Lemma fold_join_perm : forall ws ws', Permutation ws ws' -> bufs_sorted ws ->
  forall acc, all_sorted acc -> Permutation (fold_left natural_join ws acc) (fold_left natural_join ws' acc).
Proof.
  intros ws ws' H. induction H as [|w ws ws' H IH|x y ws|ws1 ws2 ws3 H1 IH1 H2 IH2]; intros Hs acc Ha; simpl.
  - apply Permutation_refl.
  - apply IH; [intros w' Hw'; apply Hs; right; assumption | apply natural_join_sorted; assumption].
  - apply fold_join_perm_acc. apply natural_join_right_comm; [assumption | apply Hs; left; reflexivity | apply Hs; right; left; reflexivity].
  - eapply Permutation_trans; [apply IH1; assumption|]. apply IH2; [|assumption].
    intros w Hw. apply Hs. eapply Permutation_in; [apply Permutation_sym; eassumption | assumption].
Qed.

Theorem join_window_results_perm : forall bufs bufs',
  Permutation bufs bufs' -> bufs_sorted bufs ->
  Permutation (join_window_results bufs) (join_window_results bufs').
Proof.
  intros bufs bufs' H. induction H as [|w ws ws' H IH|x y ws|ws1 ws2 ws3 H1 IH1 H2 IH2]; intros Hs.
  - apply Permutation_refl.
  - rewrite !join_window_results_fold. apply fold_join_perm; [assumption | intros w' Hw'; apply Hs; right; assumption | apply Hs; left; reflexivity].
  - rewrite !join_window_results_fold. simpl. apply fold_join_perm_acc.
    apply natural_join_comm; [apply Hs; left; reflexivity | apply Hs; right; left; reflexivity].
  - eapply Permutation_trans; [apply IH1; assumption|]. apply IH2.
    intros w Hw. apply Hs. eapply Permutation_in; [apply Permutation_sym; eassumption | assumption].
Qed.

(* in every single-thread run the buffered rows are sorted, so the theorem applies to what emit_results joins *)
Theorem run_buffers_sorted : forall c acts, wf_acts c acts = true ->
  bufs_sorted (map snd (buffers (fst (run c init acts)))).
Proof.
  intros c acts Hw.
  assert (Hf : forall acts st, wf_acts c acts = true -> fires_ok c (fun _ a => sortedk a) st acts).
  { clear. induction acts as [|a acts IH]; intros st Hw; simpl; [exact I|].
    simpl in Hw. apply andb_true_iff in Hw. destruct Hw as [Ha Hw]. split; [|apply IH; assumption].
    destruct a as [i ct|]; simpl; [|exact I]. split; [apply N.ltb_lt; assumption|].
    intros a0 Ha0. eapply eval_bgp_sortedk; eassumption. }
  pose proof (run_InvS c (fun _ a => sortedk a) acts init (InvS_init c _) (Hf acts init Hw)) as [_ [[HF _] _]].
  intros w Hwin b Hb. apply in_map_iff in Hwin. destruct Hwin as [[k rows] [He Hin]]. simpl in He; subst.
  rewrite Forall_forall in HF. apply (HF _ Hin). assumption.
Qed.
