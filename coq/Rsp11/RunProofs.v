(* C11 - invariants of the single-thread and of the multi-thread bookkeeping: whatever is known about the rows
   each window computes (predicate Q) is inherited by every emitted solution. *)
Require Import List NArith Bool Lia Permutation.
Require Import KV.Rsp11.Model KV.Rsp11.Spec KV.Rsp11.BindProofs KV.Rsp11.JoinProofs.
Import ListNotations.
Local Open Scope N_scope.

(* ---- association lists ------------------------------------------------------------------------------- *)
Lemma aget_cases : forall (A : Type) (d : A) k (m : list (N * A)),
  In (k, aget d k m) m \/ (aget d k m = d /\ ~ In k (map fst m)).
Proof.
  induction m as [|[k' v] m IH]; simpl.
  - right; split; [reflexivity | intros []].
  - destruct (k' =? k) eqn:E.
    + apply N.eqb_eq in E; subst. left; left; reflexivity.
    + apply N.eqb_neq in E. destruct IH as [H|[H1 H2]]; [left; right; assumption|].
      right; split; [assumption | intros [H|H]; [contradiction | contradiction]].
Qed.

Lemma aset_keys : forall (A : Type) k (v : A) m x, In x (map fst (aset k v m)) <-> x = k \/ In x (map fst m).
Proof.
  induction m as [|[k' v'] m IH]; intros x; simpl.
  - split; [intros [H|[]]; auto | intros [H|[]]; auto].
  - destruct (k' =? k) eqn:E; simpl.
    + apply N.eqb_eq in E; subst. split; [intros [H|H]; auto | intros [H|[H|H]]; auto].
    + rewrite IH. split; [intros [H|[H|H]]; auto | intros [H|[H|H]]; auto].
Qed.

Lemma aset_NoDup : forall (A : Type) k (v : A) m, NoDup (map fst m) -> NoDup (map fst (aset k v m)).
Proof.
  induction m as [|[k' v'] m IH]; simpl; intros H.
  - constructor; [intros []|constructor].
  - inversion H; subst. destruct (k' =? k) eqn:E; simpl.
    + apply N.eqb_eq in E; subst. constructor; assumption.
    + apply N.eqb_neq in E. constructor; [|apply IH; assumption].
      rewrite aset_keys. intros [H1|H1]; [congruence | contradiction].
Qed.

Lemma aset_Forall : forall (A : Type) (P : N * A -> Prop) k v m, Forall P m -> P (k, v) -> Forall P (aset k v m).
Proof.
  induction m as [|[k' v'] m IH]; simpl; intros H Hp.
  - constructor; [assumption|constructor].
  - inversion H; subst. destruct (k' =? k); constructor; auto.
Qed.

Lemma aget_aset : forall (A : Type) (d : A) k v m j, aget d j (aset k v m) = if k =? j then v else aget d j m.
Proof.
  induction m as [|[k' v'] m IH]; intros j; simpl.
  - reflexivity.
  - destruct (k' =? k) eqn:E; simpl.
    + apply N.eqb_eq in E; subst. destruct (k =? j); reflexivity.
    + rewrite IH. destruct (k' =? j) eqn:E2; [|reflexivity].
      apply N.eqb_eq in E2; subst. rewrite N.eqb_sym, E. reflexivity.
Qed.

(* ---- 0 .. n-1 and the pigeonhole argument --------------------------------------------------------------- *)
Lemma upto_In : forall n i, In i (upto n) <-> i < N.of_nat n.
Proof.
  induction n as [|n IH]; intros i; simpl.
  - split; [intros [] | lia].
  - rewrite in_app_iff, IH. simpl. split.
    + intros [H|[H|[]]]; lia.
    + intros H. destruct (N.eq_dec i (N.of_nat n)) as [->|Hne]; [right; left; reflexivity | left; lia].
Qed.

Lemma upto_length : forall n, length (upto n) = n.
Proof. induction n as [|n IH]; simpl; [reflexivity|]. rewrite app_length, IH; simpl; lia. Qed.

Lemma all_present : forall (keys : list N) (n : nat),
  NoDup keys -> (forall k, In k keys -> k < N.of_nat n) -> N.of_nat (length keys) = N.of_nat n ->
  forall i, i < N.of_nat n -> In i keys.
Proof.
  intros keys n Hnd Hlt Hlen i Hi.
  assert (Hl : length keys = n) by lia.
  apply (NoDup_length_incl Hnd (l' := upto n)).
  - rewrite upto_length; lia.
  - intros k Hk. apply upto_In, Hlt; assumption.
  - apply upto_In; assumption.
Qed.

Section Run.
  Variable c : cfg.
  (* what is known about an answer a computed by the processor of window i *)
  Variable Q : N -> binding -> Prop.

  Definition rows_ok (e : N * list binding) : Prop :=
    fst e < nwin c /\ forall a, In a (snd e) -> Q (fst e) a /\ ukeys a.

  Definition GoodQ (row : binding) : Prop :=
    (forall i, i < nwin c -> exists a, Q i a /\ sub a row) /\ (exists s, static_answer c s /\ sub s row).

  Definition bufs_ok (bufs : list (N * list binding)) : Prop := Forall rows_ok bufs /\ NoDup (map fst bufs).

  (* ---- emit_results ---------------------------------------------------------------------------------- *)
  Lemma bufs_rows_ukeys : forall bufs, Forall rows_ok bufs -> forall w r, In w (map snd bufs) -> In r w -> ukeys r.
  Proof.
    intros bufs HF w r Hw Hr. apply in_map_iff in Hw. destruct Hw as [[k rows] [He Hin]]. simpl in He; subst.
    rewrite Forall_forall in HF. apply (HF _ Hin). assumption.
  Qed.

  Lemma final_rows_good : forall bufs row,
    Forall rows_ok bufs -> (forall i, i < nwin c -> In i (map fst bufs)) ->
    In row (final_rows c bufs) -> GoodQ row.
  Proof.
    intros bufs row HF Hall Hrow. unfold final_rows in Hrow.
    assert (Hj : forall j, In j (join_window_results (map snd bufs)) ->
                 forall i, i < nwin c -> exists a, Q i a /\ sub a j).
    { intros j Hjn i Hi. apply Hall in Hi. apply in_map_iff in Hi. destruct Hi as [[k rows] [Hk Hin]]. simpl in Hk; subst.
      destruct (join_window_results_parts (map snd bufs) j (bufs_rows_ukeys bufs HF) Hjn rows) as [a [Ha Hs]].
      { apply in_map_iff. exists (i, rows); auto. }
      exists a; split; [|assumption]. rewrite Forall_forall in HF. apply (HF _ Hin). assumption. }
    unfold GoodQ, static_answer. destruct (static_pats c) as [sp|] eqn:Esp.
    - destruct (natural_join_parts _ _ row (fun r Hr => eval_bgp_ukeys _ _ r Hr) Hrow) as [j [s [Hjn [Hs [Sj Ss]]]]].
      split.
      + intros i Hi. destruct (Hj j Hjn i Hi) as [a [Ha Hsa]]. exists a; split; [assumption | eapply sub_trans; eassumption].
      + exists s; split; assumption.
    - split; [apply Hj; assumption | exists []; split; [reflexivity | apply sub_nil]].
  Qed.

  Lemma dedup_In : forall l x, In x (dedup l) -> In x l.
  Proof.
    induction l as [|y l IH]; intros x; simpl; [tauto|].
    destruct (rmem y l); [intros H; right; apply IH; assumption|].
    intros [H|H]; [left; assumption | right; apply IH; assumption].
  Qed.

  Lemma emit_good : forall bufs last,
    (forall row, In row (final_rows c bufs) -> GoodQ row) -> (forall row, In row last -> GoodQ row) ->
    (forall row, In row (fst (emit c bufs last)) -> GoodQ row) /\
    (forall row, In row (snd (emit c bufs last)) -> GoodQ row).
  Proof.
    intros bufs last Hf Hl. unfold emit, r2s_eval. destruct (sop_of c); cbn [fst snd].
    - split; assumption.
    - split; [intros row H; apply filter_In in H; apply Hf, H | intros row H; apply Hf, dedup_In, H].
    - split; [intros row H; apply filter_In in H; apply Hl, H | intros row H; apply Hf, dedup_In, H].
  Qed.

  (* ---- buffers ---------------------------------------------------------------------------------------- *)
  Lemma aget_rows_ok : forall bufs k a, Forall rows_ok bufs -> In a (aget [] k bufs) -> Q k a /\ ukeys a.
  Proof.
    intros bufs k a HF Ha. destruct (aget_cases _ [] k bufs) as [H|[H _]].
    - rewrite Forall_forall in HF. apply (HF _ H). assumption.
    - rewrite H in Ha. contradiction.
  Qed.

  Lemma absorb_extend_ok : forall results bufs, Forall rows_ok results -> bufs_ok bufs -> bufs_ok (absorb_extend bufs results).
  Proof.
    unfold absorb_extend. induction results as [|[k rows] rs IH]; intros bufs Hr [HF Hnd]; simpl; [split; assumption|].
    inversion Hr; subst. apply IH; [assumption|]. split.
    - apply aset_Forall; [assumption|]. destruct H1 as [Hk Hrows]. split; [assumption|]. simpl in *.
      intros a Ha. apply in_app_iff in Ha. destruct Ha as [Ha|Ha]; [exact (aget_rows_ok bufs k a HF Ha) | apply Hrows; assumption].
    - apply aset_NoDup; assumption.
  Qed.

  Lemma absorb_replace_ok : forall results bufs, Forall rows_ok results -> bufs_ok bufs -> bufs_ok (absorb_replace bufs results).
  Proof.
    unfold absorb_replace. induction results as [|[k rows] rs IH]; intros bufs Hr [HF Hnd]; simpl; [split; assumption|].
    inversion Hr; subst. apply IH; [assumption|]. split; [apply aset_Forall; assumption | apply aset_NoDup; assumption].
  Qed.

  Lemma absorb_replace_keys : forall results bufs x,
    In x (map fst (absorb_replace bufs results)) <-> In x (map fst bufs) \/ In x (map fst results).
  Proof.
    unfold absorb_replace. induction results as [|[k rows] rs IH]; intros bufs x; simpl; [tauto|].
    rewrite IH, aset_keys. split; [intros [[H|H]|H]; auto | intros [H|[H|H]]; auto].
  Qed.

  Lemma bufs_all_present : forall bufs,
    bufs_ok bufs -> N.of_nat (length bufs) = nwin c -> forall i, i < nwin c -> In i (map fst bufs).
  Proof.
    intros bufs [HF Hnd] Hlen. unfold nwin in *.
    apply (all_present (map fst bufs) (length (blocks c)) Hnd).
    - intros k Hk. apply in_map_iff in Hk. destruct Hk as [e [He Hin]]. subst.
      rewrite Forall_forall in HF. apply (HF _ Hin).
    - rewrite map_length. assumption.
  Qed.

  (* ---- single-thread mode --------------------------------------------------------------------------------- *)
  Definition InvS (st : state) : Prop :=
    Forall rows_ok (chan st) /\ bufs_ok (buffers st) /\ forall row, In row (r2s_last st) -> GoodQ row.

  Lemma InvS_init : InvS init.
  Proof. unfold InvS; simpl. split; [constructor|]. split; [split; constructor|]. intros row []. Qed.

  (* the only place where something must be known about the store: the rows a firing computes *)
  Definition fire_ok (st : state) (a : action) : Prop :=
    match a with
    | Fire i content => i < nwin c /\ forall a0, In a0 (eval_bgp (block c i) (store_after i content st)) -> Q i a0
    | Drain => True
    end.

  Fixpoint fires_ok (st : state) (acts : list action) : Prop :=
    match acts with
    | [] => True
    | a :: acts' => fire_ok st a /\ fires_ok (fst (step c st a)) acts'
    end.

  Lemma mkInvS : forall ch bufs last st0 pr,
    Forall rows_ok ch -> bufs_ok bufs -> (forall row, In row last -> GoodQ row) ->
    InvS (mkState st0 pr ch bufs last).
  Proof. intros; unfold InvS; cbn [chan buffers r2s_last]; auto. Qed.

  Lemma bufs_ok_nil : bufs_ok [].
  Proof. split; constructor. Qed.

  Lemma drain_good : forall st, InvS st ->
    InvS (fst (drain c st)) /\ forall row, In row (snd (drain c st)) -> GoodQ row.
  Proof.
    intros st HI. pose proof HI as [Hc [Hb Hl]]. unfold drain. destruct (chan st) as [|r rs] eqn:Ech.
    - split; [exact HI | intros row []].
    - rewrite <- Ech in *. clear Ech.
      pose proof (absorb_extend_ok _ _ Hc Hb) as Hb'.
      destruct (N.of_nat (length (absorb_extend (buffers st) (chan st))) =? nwin c) eqn:Elen.
      + apply N.eqb_eq in Elen.
        assert (Hf : forall row, In row (final_rows c (absorb_extend (buffers st) (chan st))) -> GoodQ row).
        { intros row Hr. eapply final_rows_good; [apply Hb' | apply bufs_all_present; assumption | exact Hr]. }
        destruct (emit_good _ _ Hf Hl) as [Ho Hl'].
        destruct (emit c (absorb_extend (buffers st) (chan st)) (r2s_last st)) as [out last'] eqn:Eem.
        cbn [fst snd] in *. split; [|assumption].
        apply mkInvS; [constructor | destruct (pol c); try apply bufs_ok_nil; exact Hb' | assumption].
      + cbn [fst snd]. split; [|intros row []].
        apply mkInvS; [constructor | exact Hb' | assumption].
  Qed.

  Lemma fire_chan_ok : forall st i content, Forall rows_ok (chan st) -> fire_ok st (Fire i content) ->
    Forall rows_ok (chan st ++ [(i, eval_bgp (block c i) (store_after i content st))]).
  Proof.
    intros st i content Hc [Hi Hq]. apply Forall_app; split; [assumption|]. constructor; [|constructor].
    split; [assumption|]. simpl. intros a Ha. split; [apply Hq; assumption | eapply eval_bgp_ukeys; eassumption].
  Qed.

  Lemma fire_good : forall st i content, InvS st -> fire_ok st (Fire i content) -> InvS (fire c i content st).
  Proof.
    intros st i content [Hc [Hb Hl]] Hf. unfold fire. apply mkInvS; [apply fire_chan_ok; assumption | assumption | assumption].
  Qed.

  Lemma step_good : forall st a, InvS st -> fire_ok st a ->
    InvS (fst (step c st a)) /\ forall row, In row (snd (step c st a)) -> GoodQ row.
  Proof.
    intros st [i content|] HI Hf; simpl.
    - split; [apply fire_good; assumption | intros row []].
    - apply drain_good; assumption.
  Qed.

  Lemma run_cons : forall st a acts,
    run c st (a :: acts) = (fst (run c (fst (step c st a)) acts), snd (step c st a) :: snd (run c (fst (step c st a)) acts)).
  Proof. intros st a acts; simpl. destruct (step c st a) as [st1 o]; simpl. destruct (run c st1 acts); reflexivity. Qed.

  Theorem run_good : forall acts st, InvS st -> fires_ok st acts ->
    forall out, In out (snd (run c st acts)) -> forall row, In row out -> GoodQ row.
  Proof.
    induction acts as [|a acts IH]; intros st HI Hf out Hout row Hrow; [contradiction|].
    rewrite run_cons in Hout; cbn [snd] in Hout. destruct Hf as [Hf1 Hf2].
    destruct (step_good st a HI Hf1) as [HI' Hg]. destruct Hout as [<-|Hout].
    - apply Hg; assumption.
    - eapply IH; eassumption.
  Qed.

  Lemma run_InvS : forall acts st, InvS st -> fires_ok st acts -> InvS (fst (run c st acts)).
  Proof.
    induction acts as [|a acts IH]; intros st HI Hf; [assumption|].
    rewrite run_cons; cbn [fst]. destruct Hf as [Hf1 Hf2]. apply IH; [apply step_good; assumption | assumption].
  Qed.

  (* ---- multi-thread mode ----------------------------------------------------------------------------------- *)
  Definition InvC (cs : cstate) : Prop :=
    bufs_ok (c_bufs cs) /\ (forall row, In row (c_last cs) -> GoodQ row) /\
    NoDup (c_trig cs) /\ forall k, In k (c_trig cs) -> k < nwin c /\ In k (map fst (c_bufs cs)).

  Lemma nadd_In : forall k l x, In x (nadd k l) <-> x = k \/ In x l.
  Proof.
    induction l as [|y l IH]; intros x; simpl.
    - split; [intros [H|[]]; auto | intros [H|[]]; auto].
    - destruct (y =? k) eqn:E.
      + apply N.eqb_eq in E; subst. simpl. split; [auto | intros [H|H]; auto].
      + simpl. rewrite IH. split; [intros [H|[H|H]]; auto | intros [H|[H|H]]; auto].
  Qed.

  Lemma nadd_NoDup : forall k l, NoDup l -> NoDup (nadd k l).
  Proof.
    induction l as [|y l IH]; simpl; intros H.
    - constructor; [intros []|constructor].
    - inversion H; subst. destruct (y =? k) eqn:E; [assumption|].
      apply N.eqb_neq in E. constructor; [|apply IH; assumption].
      rewrite nadd_In. intros [H1|H1]; [congruence | contradiction].
  Qed.

  Lemma trig_fold : forall (results : list (N * list binding)) trig,
    NoDup trig ->
    NoDup (fold_left (fun t r => nadd (fst r) t) results trig) /\
    forall x, In x (fold_left (fun t r => nadd (fst r) t) results trig) <-> In x trig \/ In x (map fst results).
  Proof.
    induction results as [|[k rows] rs IH]; intros trig Hnd; simpl.
    - split; [assumption | intros x; tauto].
    - destruct (IH (nadd k trig) (nadd_NoDup k trig Hnd)) as [H1 H2]. split; [assumption|].
      intros x. rewrite H2, nadd_In. split; [intros [[H|H]|H]; auto | intros [H|[H|H]]; auto].
  Qed.

  Lemma trig_all_present : forall trig,
    NoDup trig -> (forall k, In k trig -> k < nwin c) -> N.of_nat (length trig) = nwin c ->
    forall i, i < nwin c -> In i trig.
  Proof. intros trig Hnd Hlt Hlen. unfold nwin in *. apply all_present; assumption. Qed.

  Lemma mkInvC : forall bufs trig last,
    bufs_ok bufs -> (forall row, In row last -> GoodQ row) -> NoDup trig ->
    (forall k, In k trig -> k < nwin c /\ In k (map fst bufs)) -> InvC (mkC bufs trig last).
  Proof. intros; unfold InvC; cbn [c_bufs c_trig c_last]; auto. Qed.

  Lemma mkInvC_nil : forall bufs last,
    bufs_ok bufs -> (forall row, In row last -> GoodQ row) -> InvC (mkC bufs [] last).
  Proof. intros; apply mkInvC; try assumption; [constructor | intros k []]. Qed.

  Lemma emit_step_good : forall bufs last,
    bufs_ok bufs -> (forall row, In row last -> GoodQ row) -> (forall i, i < nwin c -> In i (map fst bufs)) ->
    let r := (let '(out, last') := emit c bufs last in (mkC bufs [] last', out)) in
    InvC (fst r) /\ forall row, In row (snd r) -> GoodQ row.
  Proof.
    intros bufs last Hb Hl Hall.
    assert (Hf : forall row, In row (final_rows c bufs) -> GoodQ row).
    { intros row Hr. eapply final_rows_good; [apply Hb | exact Hall | exact Hr]. }
    destruct (emit_good _ _ Hf Hl) as [Ho Hl'].
    destruct (emit c bufs last) as [out last']. cbn [fst snd] in *.
    split; [apply mkInvC_nil; assumption | assumption].
  Qed.

  Lemma cstep_good : forall cs e,
    InvC cs -> (match e with Batch results => Forall rows_ok results | Deadline => True end) ->
    InvC (fst (cstep c cs e)) /\ forall row, In row (snd (cstep c cs e)) -> GoodQ row.
  Proof.
    intros cs e HI He. pose proof HI as [Hb [Hl [Hnd Htr]]]. destruct e as [results|].
    - destruct results as [|r rs]; [split; [exact HI | intros row []]|].
      unfold cstep. set (res := r :: rs) in *.
      pose proof (absorb_replace_ok res _ He Hb) as Hb'.
      destruct (trig_fold res (c_trig cs) Hnd) as [Hnd' Htr'].
      assert (Hlt : forall k, In k (fold_left (fun t r0 => nadd (fst r0) t) res (c_trig cs)) ->
                    k < nwin c /\ In k (map fst (absorb_replace (c_bufs cs) res))).
      { intros k Hk. apply Htr' in Hk. rewrite absorb_replace_keys. destruct Hk as [Hk|Hk].
        - destruct (Htr k Hk) as [H1 H2]. auto.
        - split; [|auto]. apply in_map_iff in Hk. destruct Hk as [e0 [He0 Hin]]. subst.
          rewrite Forall_forall in He. apply (He _ Hin). }
      destruct (N.of_nat (length (fold_left (fun t r0 => nadd (fst r0) t) res (c_trig cs))) =? nwin c) eqn:Etr.
      + apply N.eqb_eq in Etr. apply emit_step_good; try assumption. intros i Hi.
        apply (Hlt i). eapply trig_all_present; try eassumption. intros k Hk; apply (Hlt k Hk).
      + destruct (pol c) eqn:Epol.
        * cbn [fst snd]. split; [apply mkInvC; assumption | intros row []].
        * destruct (N.of_nat (length (absorb_replace (c_bufs cs) res)) =? nwin c) eqn:Elen.
          -- apply N.eqb_eq in Elen. apply emit_step_good; try assumption. apply bufs_all_present; assumption.
          -- cbn [fst snd]. split; [apply mkInvC_nil; assumption | intros row []].
        * cbn [fst snd]. split; [apply mkInvC; assumption | intros row []].
        * cbn [fst snd]. split; [apply mkInvC; assumption | intros row []].
    - unfold cstep. destruct (c_trig cs) as [|t ts] eqn:Et.
      + split; [exact HI | intros row []].
      + destruct (pol c) eqn:Epol.
        * split; [exact HI | intros row []].
        * split; [exact HI | intros row []].
        * destruct (N.of_nat (length (c_bufs cs)) =? nwin c) eqn:Elen.
          -- apply N.eqb_eq in Elen. apply emit_step_good; try assumption. apply bufs_all_present; assumption.
          -- cbn [fst snd]. split; [apply mkInvC_nil; assumption | intros row []].
        * cbn [fst snd]. split; [apply mkInvC_nil; assumption | intros row []].
  Qed.

  Definition InvM (m : mstate) : Prop := Forall rows_ok (chan (m_st m)) /\ InvC (m_cs m).

  Lemma InvM_init : InvM minit.
  Proof. split; simpl; [constructor|]. apply mkInvC_nil; [apply bufs_ok_nil | intros row []]. Qed.

  Definition mfire_ok (m : mstate) (a : mact) : Prop :=
    match a with
    | MFire i content => fire_ok (m_st m) (Fire i content)
    | _ => True
    end.

  Fixpoint mfires_ok (m : mstate) (acts : list mact) : Prop :=
    match acts with
    | [] => True
    | a :: acts' => mfire_ok m a /\ mfires_ok (fst (mstep c m a)) acts'
    end.

  Lemma Forall_firstn : forall (A : Type) (P : A -> Prop) n l, Forall P l -> Forall P (firstn n l).
  Proof. intros A P n l H. rewrite <- (firstn_skipn n l) in H. apply Forall_app in H. apply H. Qed.
  Lemma Forall_skipn : forall (A : Type) (P : A -> Prop) n l, Forall P l -> Forall P (skipn n l).
  Proof. intros A P n l H. rewrite <- (firstn_skipn n l) in H. apply Forall_app in H. apply H. Qed.

  Lemma mstep_good : forall m a, InvM m -> mfire_ok m a ->
    InvM (fst (mstep c m a)) /\ forall row, In row (snd (mstep c m a)) -> GoodQ row.
  Proof.
    intros m a [Hc HC] Hf. destruct a as [i content|n|]; unfold mstep.
    - cbn [fst snd]. split; [|intros row []]. split; cbn [m_st m_cs]; [|assumption].
      unfold fire; cbn [chan]. apply fire_chan_ok; assumption.
    - destruct (cstep_good (m_cs m) (Batch (firstn (Datatypes.S n) (chan (m_st m)))) HC
                           (Forall_firstn _ _ _ _ Hc)) as [HC' Hg].
      destruct (cstep c (m_cs m) (Batch (firstn (Datatypes.S n) (chan (m_st m))))) as [cs' out]. cbn [fst snd] in *.
      split; [|assumption]. split; cbn [m_st m_cs chan]; [apply Forall_skipn; assumption | assumption].
    - destruct (cstep_good (m_cs m) Deadline HC I) as [HC' Hg].
      destruct (cstep c (m_cs m) Deadline) as [cs' out]. cbn [fst snd] in *.
      split; [|assumption]. split; assumption.
  Qed.

  Lemma mrun_cons : forall m a acts,
    mrun c m (a :: acts) = (fst (mrun c (fst (mstep c m a)) acts), snd (mstep c m a) :: snd (mrun c (fst (mstep c m a)) acts)).
  Proof. intros m a acts; simpl. destruct (mstep c m a) as [m1 o]; simpl. destruct (mrun c m1 acts); reflexivity. Qed.

  Theorem mrun_good : forall acts m, InvM m -> mfires_ok m acts ->
    forall out, In out (snd (mrun c m acts)) -> forall row, In row out -> GoodQ row.
  Proof.
    induction acts as [|a acts IH]; intros m HI Hf out Hout row Hrow; [contradiction|].
    rewrite mrun_cons in Hout; cbn [snd] in Hout. destruct Hf as [Hf1 Hf2].
    destruct (mstep_good m a HI Hf1) as [HI' Hg]. destruct Hout as [<-|Hout].
    - apply Hg; assumption.
    - eapply IH; eassumption.
  Qed.
End Run.
