(* UTF-8 byte strings as the Rust `str` API sees them: `len`, `is_char_boundary`, range slicing that
   panics off a boundary, `str::get`, and `char::len_utf8` of the character starting at a boundary.
   Bytes are `N` (0..255); byte offsets and lengths are `nat` (they are lengths of the request text).
   No proofs here. *)
Require Export List NArith Arith Bool.
Export ListNotations.
Open Scope N_scope.

Definition byte := N.
Definition bytes := list N.

(* continuation byte 10xxxxxx *)
Definition is_cont (b : N) : bool := (128 <=? b) && (b <? 192).

(* length in bytes of the character whose first byte is b (char::len_utf8 of the decoded char) *)
Definition lead_len (b : N) : nat :=
  if b <? 128 then 1%nat else if b <? 224 then 2%nat else if b <? 240 then 3%nat else 4%nat.

(* Structural well-formedness of UTF-8: every character is a non-continuation lead byte below 0xF8
   followed by exactly lead_len - 1 continuation bytes.  (Overlong forms and surrogates are not
   excluded: the offset arithmetic only depends on this structure, so the theorems hold for a
   superset of Rust's valid strings.)  `pending` = continuation bytes still owed. *)
Fixpoint wf (pending : nat) (s : bytes) : bool :=
  match s with
  | [] => Nat.eqb pending 0
  | b :: t =>
      match pending with
      | O => if is_cont b then false else if 248 <=? b then false else wf (pred (lead_len b)) t
      | S p => if is_cont b then wf p t else false
      end
  end.
Definition valid_utf8 (s : bytes) : bool := wf 0 s.

(* str::is_char_boundary *)
Definition boundary (s : bytes) (i : nat) : bool :=
  match i with
  | O => true
  | _ => match nth_error s i with
         | Some b => negb (is_cont b)
         | None => Nat.eqb i (length s)
         end
  end.

(* &s[..i] : None models the panic (i beyond the end or inside a character) *)
Definition slice_to (s : bytes) (i : nat) : option bytes :=
  if boundary s i then Some (firstn i s) else None.

(* s.get(i..) : None is an ordinary `None`, not a panic *)
Definition get_from (s : bytes) (i : nat) : option bytes :=
  if boundary s i then Some (skipn i s) else None.

(* &s[i..j] *)
Definition slice (s : bytes) (i j : nat) : option bytes :=
  if boundary s i && boundary s j && Nat.leb i j then Some (firstn (j - i) (skipn i s)) else None.

(* ASCII lowering (see Render.v for why this is exact for the three keywords searched) *)
Definition ascii_lower (b : N) : N := if (65 <=? b) && (b <=? 90) then b + 32 else b.

Fixpoint prefixb (p s : bytes) : bool :=
  match p, s with
  | [], _ => true
  | a :: p', b :: s' => (a =? b) && prefixb p' s'
  | _ :: _, [] => false
  end.
Fixpoint containsb (p s : bytes) : bool :=
  prefixb p s || match s with [] => false | _ :: t => containsb p t end.
Fixpoint countb (c : N) (s : bytes) : nat :=
  match s with [] => O | b :: t => Nat.add (if N.eqb b c then 1%nat else 0%nat) (countb c t) end.
