(* Executable model of kolibrie/src/error_handler.rs (`format_parse_error` and the helpers it calls)
   as far as byte offsets are concerned: every place where the Rust code slices the request text is
   a place where this model can answer `Panic`.  Same order of steps as the code.  No proofs here. *)
Require Export KV.Entry.Utf8.

(* What the caller can see of a rendering: which message family was chosen, the reported line and
   column, and the annotated byte span. *)
Inductive rout :=
| Panic
| Rendered (kind : N) (line col : N) (lo hi : nat).

(* kinds: 0 = generic nom-kind title (carries line/column) or one of the two later heuristics
          (undefined prefix, missing separator), 1 = SELECT without WHERE, 2 = brace counts differ,
          3 = odd number of double quotes before the error. *)

(* for (i, c) in input.char_indices() { if i >= offset { break } if c == '\n' {..} else {..} }
   on bytes: a character starts at every non-continuation byte. *)
Fixpoint linecol (s : bytes) (i off : nat) (line col : N) : N * N :=
  match s with
  | [] => (line, col)
  | b :: t =>
      if is_cont b then linecol t (S i) off line col
      else if Nat.leb off i then (line, col)
      else if b =? 10 then linecol t (S i) off (line + 1) 1
      else linecol t (S i) off line (col + 1)
  end.

Definition kw_select : bytes := [115; 101; 108; 101; 99; 116].
Definition kw_where : bytes := [119; 104; 101; 114; 101].
Definition kw_insert : bytes := [105; 110; 115; 101; 114; 116].

(* detect_specific_sparql_error: the first two tests return before any slicing; the third takes
   `&input[..offset]`; check_missing_prefix(text, offset) and check_missing_triple_separator(text, offset)
   take `&text[..offset]` again and otherwise only use iterators (lines, split_whitespace, chars) and a
   slice at an index returned by `find(':')`, so their only way to fail is that slice.
   Invariant of the code that this model makes explicit: `offset` is a byte offset into `input`, and
   EVERY slice that uses it is a slice of `input` itself - never of a derived copy (the lower-cased
   `lower` is only searched with `contains`).  `detect_gen` takes the text handed to
   check_missing_prefix as a parameter so that this can be stated (`detect` passes `input`) and so that
   the variant that passes the lower-cased copy can be refuted (C17_lowercased_copy_refuted):
   `to_lowercase` changes byte lengths (U+212A K -> k: 3 bytes -> 1, U+0130 -> 3 bytes, ...).
   `to_lowercase().contains(kw)` is modelled with ASCII lowering: no non-ASCII character lowercases
   to a string containing one of the ASCII letters of "select", "where", "insert" except U+0130,
   whose lowering "i\u{307}" cannot be followed directly by 'n' (U+212A lowers to 'k', not among them). *)
Definition detect_gen (prefix_text : bytes) (input : bytes) (off : nat) : option N :=
  let lower := map ascii_lower input in
  if containsb kw_select lower && negb (containsb kw_where lower) && negb (containsb kw_insert lower)
  then Some 1
  else if negb (Nat.eqb (countb 123 input) (countb 125 input)) then Some 2
  else match slice_to input off with
       | None => None                                   (* &input[..offset] panics *)
       | Some before =>
           if Nat.odd (countb 34 before) then Some 3
           else match slice_to prefix_text off with     (* check_missing_prefix(prefix_text, offset) *)
                | None => None
                | Some _ =>
                    match slice_to input off with       (* check_missing_triple_separator(input, offset) *)
                    | None => None
                    | Some _ => Some 0
                    end
                end
       end.
Definition detect (input : bytes) (off : nat) : option N := detect_gen input input off.

(* error_span_end (the repaired code, commit 22495a6):
   input.get(offset..).and_then(|r| r.chars().next()).map_or(offset.min(len), |c| offset + c.len_utf8()) *)
Definition span_end (input : bytes) (off : nat) : nat :=
  match get_from input off with
  | Some (b :: _) => (off + lead_len b)%nat
  | _ => Nat.min off (length input)
  end.

(* the span before the repair: offset .. min(offset + 1, len) *)
Definition span_end_old (input : bytes) (off : nat) : nat := Nat.min (S off) (length input).

(* annotate-snippets' renderer slices the source at both ends of the annotation: it panics when an
   end is not a character boundary (observed; validated by the function-level correspondence). *)
Definition snippet_ok (input : bytes) (lo hi : nat) : bool :=
  boundary input lo && boundary input hi && Nat.leb lo hi.

Definition render_gen (prefix_text : bytes) (se : bytes -> nat -> nat) (input : bytes) (off : nat) : rout :=
  let lc := linecol input 0 off 1 1 in
  match detect_gen prefix_text input off with
  | None => Panic
  | Some k =>
      let hi := se input off in
      if snippet_ok input off hi then Rendered k (fst lc) (snd lc) off hi else Panic
  end.

Definition render_with (se : bytes -> nat -> nat) (input : bytes) (off : nat) : rout := render_gen input se input off.
Definition render := render_with span_end.          (* the code at HEAD *)
Definition render_old := render_with span_end_old.  (* the code before commit 22495a6 *)

(* The parser's error slice as `error_offset` sees it: a sub-slice of the request (given by its
   position and length) or a slice that lies elsewhere in memory (a static "", say). *)
Inductive err_slice :=
| Inside (start len : nat)
| Outside (len : nat).

(* while !input.is_char_boundary(offset) { offset -= 1 } *)
Fixpoint clamp_down (input : bytes) (off : nat) : nat :=
  if boundary input off then off else match off with O => O | S k => clamp_down input k end.

(* error_offset (the repaired code, commit b4ac3b3): the slice's own position when it lies inside the
   input, else input.len().saturating_sub(len) moved down to a character boundary *)
Definition error_offset (input : bytes) (e : err_slice) : nat :=
  match e with
  | Inside start _ => start
  | Outside len => clamp_down input (length input - len)%nat
  end.
Definition slice_len (e : err_slice) : nat := match e with Inside _ l => l | Outside l => l end.

(* the offset before that repair: input.len() - error_pos.len() whatever the slice is
   (usize subtraction; a longer slice would overflow, which panics in a checked build) *)
Definition error_offset_old (input : bytes) (e : err_slice) : option nat :=
  if Nat.leb (slice_len e) (length input) then Some (length input - slice_len e)%nat else None.

(* format_parse_error(input, Error{input: error_pos, ..}) at HEAD *)
Definition format_parse_error (input : bytes) (e : err_slice) : rout :=
  render input (error_offset input e).

(* ... before commit b4ac3b3 (span already repaired) *)
Definition format_parse_error_old (input : bytes) (e : err_slice) : rout :=
  match error_offset_old input e with Some off => render input off | None => Panic end.

(* What Rust guarantees about a `&str` that lies inside another: it is in range and starts on a
   character boundary of the enclosing string. *)
Definition slice_ok (input : bytes) (e : err_slice) : bool :=
  match e with
  | Inside start len => Nat.leb (start + len)%nat (length input) && boundary input start
  | Outside _ => true
  end.

(* A (rejected) variant of the code that hands the lower-cased copy of the request to
   check_missing_prefix while `offset` still refers to the original text.  `lower_kelvin` is
   str::to_lowercase restricted to what the witness needs: ASCII letters and U+212A KELVIN SIGN
   (bytes E2 84 AA) -> 'k'. *)
Fixpoint lower_kelvin (s : bytes) : bytes :=
  match s with
  | 226 :: 132 :: 170 :: t => 107 :: lower_kelvin t
  | b :: t => ascii_lower b :: lower_kelvin t
  | [] => []
  end.
Definition format_parse_error_lowercased_copy (input : bytes) (e : err_slice) : rout :=
  render_gen (lower_kelvin input) span_end input (error_offset input e).
