(* Entry points for the correspondence check: run the model on a case and render the result as
   numbers and lists (printed by `Eval vm_compute`). *)
Require Import KV.Entry.Model KV.Entry.Render KV.Entry.Spec.

(* ---- error rendering ---- *)
Definition r_rout (r : rout) : N * N * N * N * N * N :=
  match r with
  | Panic => (0, 0, 0, 0, 0, 0)
  | Rendered k l c lo hi => (1, k, l, c, N.of_nat lo, N.of_nat hi)
  end.
(* format_parse_error on `input` with an error slice: start = Some p -> input[p..p+len], None -> outside *)
Definition mk_slice (start : option N) (len : N) : err_slice :=
  match start with Some p => Inside (N.to_nat p) (N.to_nat len) | None => Outside (N.to_nat len) end.
Definition run_render (input : list N) (start : option N) (len : N) :=
  r_rout (format_parse_error input (mk_slice start len)).
(* the two earlier versions of the code, for the regression witnesses *)
Definition run_render_pre_b4ac3b3 (input : list N) (start : option N) (len : N) :=
  r_rout (format_parse_error_old input (mk_slice start len)).
Definition run_render_pre_22495a6 (input : list N) (start : option N) (len : N) :=
  r_rout (match error_offset_old input (mk_slice start len) with Some off => render_old input off | None => Panic end).
Definition run_valid (input : list N) := valid_utf8 input.
Definition run_slice_ok (input : list N) (start : option N) (len : N) := slice_ok input (mk_slice start len).

(* ---- dispatch ----
   The SELECT evaluator and the update executor are instantiated by oracles carried in the syntax
   tree itself: what the real evaluation was observed to do (did lowering succeed, how many rows,
   which dataset did the update leave).  The model then decides the result value and every side
   effect on the database object. *)
Definition Qo := (bool * N)%type.                                  (* lowering ok?, rows *)
Definition Uo := (bool * N * list quad * list N * bool)%type.      (* ok?, touched, quads after, catalog after, stats after *)
Definition o_preds (q : Qo) (pf : list (N * N)) : list N := [].
Definition o_consts (q : Qo) (pf : list (N * N)) : list N := [].
Definition o_lowers (q : Qo) (pf : list (N * N)) (d : list N) : bool := fst q.
Definition o_eval (q : Qo) (pf : list (N * N)) (qs : list quad) (c : list N) : N * list N := (snd q, []).
Definition o_mat (p : N) (s : state) : option state := None.
Definition o_train (p : N) (s : state) : option state := None.
Definition o_upd (u : Uo) (pf : list (N * N)) (s : state) : result * state :=
  match u with
  | (ok, n, qs, c, st) => ((if ok then ROk n else RErr), set_stats (set_quads s qs c) st)
  end.

Definition m_query := query_entry Qo Uo o_preds o_consts o_lowers o_eval o_mat o_train.
Definition m_update := update_entry Qo Uo o_train o_upd.
Definition m_general := general_entry Qo Uo o_preds o_consts o_lowers o_eval o_mat o_train o_upd.
Definition m_handle_update := handle_update Qo Uo o_train o_upd.
Definition m_handle_query := handle_query.
Definition m_http := handle_http Qo Uo o_preds o_consts o_lowers o_eval o_mat o_train o_upd.

Definition st0 (qs : list quad) (c : list N) (pf : list (N * N)) (st : bool) : state :=
  mkState qs c pf st [] [] [] [] [].
Definition ex0 (pf : list (N * N)) : ext := mkExt pf [] [] [].

Definition r_res (r : result) : N * N := match r with RErr => (0, 0) | ROk n => (1, n) end.
Definition r_out (x : result * state) :=
  (r_res (fst x), quads (snd x), catalog (snd x), prefixes (snd x), stats (snd x)).

(* the Spec, evaluated on an observed result *)
Definition run_spec_query (o : outcome Qo Uo) (ok : bool) (rows : N) : bool :=
  spec_query_allows o (if ok then ROk rows else RErr).
Definition run_spec_update (o : outcome Qo Uo) (ok : bool) (rows : N) : bool :=
  spec_update_allows o (if ok then ROk rows else RErr).
