(* Lemmas about UTF-8 structure and the error-rendering model (Render.v). *)
Require Import KV.Entry.Utf8 KV.Entry.Render.
Require Import Lia.

(* "a character starts at i, or i is the end" *)
Definition cs (s : bytes) (i : nat) : Prop :=
  i = length s \/ exists b, nth_error s i = Some b /\ is_cont b = false.

Lemma cs_cons : forall b t i, cs t i -> cs (b :: t) (S i).
Proof.
  intros b t i [He | [c [Hn Hc]]].
  - left. simpl. congruence.
  - right. exists c. simpl. auto.
Qed.

Lemma lead_len_pos : forall b, (1 <= lead_len b)%nat.
Proof. intro b. unfold lead_len. repeat destruct (_ <? _); lia. Qed.

(* after `pending` owed continuation bytes comes a character start (or the end) *)
Lemma wf_pending : forall t p, wf p t = true -> (p <= length t)%nat /\ cs t p.
Proof.
  induction t as [| c t IH]; intros p H.
  - simpl in H. apply Nat.eqb_eq in H. subst. split; [simpl; lia | left; reflexivity].
  - simpl in H. destruct p as [| p'].
    + split; [lia |]. right. exists c. split; [reflexivity |].
      destruct (is_cont c); [discriminate | reflexivity].
    + destruct (is_cont c) eqn:Hc; [| discriminate].
      destruct (IH _ H) as [Hl Hcs]. split; [simpl; lia | apply cs_cons; exact Hcs].
Qed.

(* a well-formed string splits at every character start into two well-formed strings *)
Lemma wf_split : forall s p off,
  wf p s = true -> (off <= length s)%nat -> cs s off ->
  wf p (firstn off s) = true /\ wf 0 (skipn off s) = true.
Proof.
  induction s as [| b t IH]; intros p off H Hle Hcs.
  - simpl in Hle. assert (off = 0)%nat by lia. subst. simpl. split; [exact H | reflexivity].
  - destruct off as [| k].
    + simpl firstn. simpl skipn.
      destruct Hcs as [He | [c [Hn Hc]]]; [simpl in He; discriminate |].
      simpl in Hn. inversion Hn; subst c.
      destruct p as [| p'].
      * split; [reflexivity | exact H].
      * simpl in H. rewrite Hc in H. discriminate.
    + assert (Hcs' : cs t k).
      { destruct Hcs as [He | [c [Hn Hc]]].
        - left. simpl in He. lia.
        - right. exists c. simpl in Hn. auto. }
      simpl in Hle. assert (Hle' : (k <= length t)%nat) by lia.
      simpl firstn. simpl skipn. simpl in H. simpl.
      destruct p as [| p'].
      * destruct (is_cont b); [discriminate |].
        destruct (248 <=? b); [discriminate |].
        apply IH; assumption.
      * destruct (is_cont b); [| discriminate].
        apply IH; assumption.
Qed.

Lemma boundary_cs : forall s off,
  valid_utf8 s = true -> boundary s off = true -> (off <= length s)%nat /\ cs s off.
Proof.
  intros s off Hv Hb. destruct off as [| k].
  - split; [lia |]. destruct s as [| b t].
    + left. reflexivity.
    + right. exists b. split; [reflexivity |].
      unfold valid_utf8 in Hv. simpl in Hv. destruct (is_cont b); [discriminate | reflexivity].
  - unfold boundary in Hb. destruct (nth_error s (S k)) as [b |] eqn:Hn.
    + split.
      * assert (S k < length s)%nat by (apply nth_error_Some; congruence). lia.
      * right. exists b. split; [exact Hn |]. destruct (is_cont b); [discriminate | reflexivity].
    + apply Nat.eqb_eq in Hb. split; [lia | left; exact Hb].
Qed.

Lemma cs_boundary : forall s off, cs s off -> boundary s off = true.
Proof.
  intros s off Hcs. destruct off as [| k]; [reflexivity |].
  unfold boundary. destruct Hcs as [He | [b [Hn Hc]]].
  - assert (Hnone : nth_error s (S k) = None) by (apply nth_error_None; lia).
    rewrite Hnone. apply Nat.eqb_eq. exact He.
  - rewrite Hn, Hc. reflexivity.
Qed.

Lemma nth_error_skipn' : forall (s : bytes) off k, nth_error (skipn off s) k = nth_error s (off + k).
Proof.
  induction s as [| b t IH]; intros off k.
  - rewrite skipn_nil. destruct k; destruct (off + _)%nat; reflexivity.
  - destruct off as [| o]; [reflexivity |]. simpl. apply IH.
Qed.

Lemma cs_skipn : forall s off k, (off <= length s)%nat -> cs (skipn off s) k -> cs s (off + k).
Proof.
  intros s off k Hle [He | [b [Hn Hc]]].
  - left. rewrite skipn_length in He. lia.
  - right. exists b. rewrite nth_error_skipn' in Hn. auto.
Qed.

(* the end of the repaired span is a character boundary, not before its start, inside the text *)
Lemma span_end_ok : forall s off,
  valid_utf8 s = true -> boundary s off = true ->
  boundary s (span_end s off) = true /\ (off <= span_end s off)%nat /\ (span_end s off <= length s)%nat.
Proof.
  intros s off Hv Hb.
  destruct (boundary_cs s off Hv Hb) as [Hle Hcs].
  destruct (wf_split s 0 off Hv Hle Hcs) as [_ Hrest].
  unfold span_end, get_from. rewrite Hb.
  destruct (skipn off s) as [| b rest] eqn:Hsk.
  - rewrite Nat.min_l by exact Hle. repeat split; [exact Hb | lia | exact Hle].
  - simpl in Hrest. destruct (is_cont b) eqn:Hc; [discriminate |].
    destruct (248 <=? b); [discriminate |].
    destruct (wf_pending _ _ Hrest) as [Hl Hcs'].
    pose proof (lead_len_pos b) as Hpos.
    assert (Hcs2 : cs (b :: rest) (lead_len b)).
    { replace (lead_len b) with (S (pred (lead_len b))) by lia. apply cs_cons. exact Hcs'. }
    rewrite <- Hsk in Hcs2.
    assert (Hlen : length (skipn off s) = S (length rest)) by (rewrite Hsk; reflexivity).
    rewrite skipn_length in Hlen.
    repeat split.
    + apply cs_boundary. apply cs_skipn; assumption.
    + lia.
    + lia.
Qed.

Lemma render_at_boundary : forall input off,
  valid_utf8 input = true -> boundary input off = true -> (off <= length input)%nat ->
  render input off <> Panic.
Proof.
  intros input off Hv Hb _.
  destruct (span_end_ok input off Hv Hb) as [Hb2 [Hle1 Hle2]].
  unfold render, render_with, render_gen, detect_gen, slice_to, snippet_ok. rewrite Hb, Hb2.
  assert (Hleb : Nat.leb off (span_end input off) = true) by (apply Nat.leb_le; exact Hle1).
  rewrite Hleb. simpl.
  destruct (containsb kw_select (map ascii_lower input) && negb (containsb kw_where (map ascii_lower input)) &&
            negb (containsb kw_insert (map ascii_lower input))); [discriminate |].
  destruct (negb (Nat.eqb (countb 123 input) (countb 125 input))); [discriminate |].
  destruct (Nat.odd (countb 34 (firstn off input))); discriminate.
Qed.

Lemma clamp_down_ok : forall input off,
  boundary input (clamp_down input off) = true /\ (clamp_down input off <= off)%nat.
Proof.
  intros input off. induction off as [| k IH].
  - simpl. split; [reflexivity | lia].
  - change (clamp_down input (S k)) with (if boundary input (S k) then S k else clamp_down input k).
    destruct (boundary input (S k)) eqn:Hb.
    + split; [exact Hb | lia].
    + destruct IH as [H1 H2]. split; [exact H1 | lia].
Qed.

Lemma error_offset_ok : forall input e,
  slice_ok input e = true ->
  boundary input (error_offset input e) = true /\ (error_offset input e <= length input)%nat.
Proof.
  intros input [start len | len] Hok; simpl in *.
  - apply andb_true_iff in Hok. destruct Hok as [Hle Hb]. apply Nat.leb_le in Hle. split; [exact Hb | lia].
  - destruct (clamp_down_ok input (length input - len)) as [H1 H2]. split; [exact H1 | lia].
Qed.

Lemma format_parse_error_total : forall input e,
  valid_utf8 input = true -> slice_ok input e = true -> format_parse_error input e <> Panic.
Proof.
  intros input e Hv Hok. destruct (error_offset_ok input e Hok) as [Hb Hle].
  unfold format_parse_error. apply render_at_boundary; assumption.
Qed.

(* A non-empty `&str` inside a valid string starts on a character boundary of that string;
   so does the unparsed remainder of a valid string (a suffix), empty or not. *)
Lemma nth_error_app_len : forall (pre : bytes) b rest, nth_error (pre ++ b :: rest) (length pre) = Some b.
Proof. induction pre as [| a pre IH]; intros; simpl; auto. Qed.

Lemma inside_slice_boundary : forall pre tok post,
  valid_utf8 tok = true -> tok <> [] -> boundary (pre ++ tok ++ post) (length pre) = true.
Proof.
  intros pre tok post Hv Hne. destruct tok as [| b t]; [congruence |].
  unfold valid_utf8 in Hv. simpl in Hv. destruct (is_cont b) eqn:Hc; [discriminate |].
  apply cs_boundary. right. exists b. split; [| exact Hc].
  simpl. apply nth_error_app_len.
Qed.

Lemma suffix_boundary : forall pre rest,
  valid_utf8 rest = true -> boundary (pre ++ rest) (length pre) = true.
Proof.
  intros pre rest Hv. destruct rest as [| b t].
  - rewrite app_nil_r. apply cs_boundary. left. reflexivity.
  - replace (pre ++ b :: t) with (pre ++ (b :: t) ++ []) by (rewrite app_nil_r; reflexivity).
    apply inside_slice_boundary; [exact Hv | discriminate].
Qed.

(* line/column: the loop counts the characters before the offset *)
Fixpoint chars_before (s : bytes) (i off : nat) : list N :=
  match s with
  | [] => []
  | b :: t => if is_cont b then chars_before t (S i) off
              else if Nat.leb off i then [] else b :: chars_before t (S i) off
  end.
Fixpoint lc_of (cs : list N) (line col : N) : N * N :=
  match cs with
  | [] => (line, col)
  | b :: t => if b =? 10 then lc_of t (line + 1) 1 else lc_of t line (col + 1)
  end.
Lemma linecol_spec : forall s i off line col,
  linecol s i off line col = lc_of (chars_before s i off) line col.
Proof.
  induction s as [| b t IH]; intros i off line col; simpl; [reflexivity |].
  destruct (is_cont b); [apply IH |].
  destruct (Nat.leb off i); [reflexivity |].
  simpl. destruct (b =? 10); apply IH.
Qed.

Lemma linecol_spec0 : forall (input : bytes) (offset : nat),
  linecol input 0 offset 1 1 = lc_of (chars_before input 0 offset) 1 1.
Proof. intros. apply linecol_spec. Qed.

(* Every other slice in error_handler.rs and in the token scanners is taken at the position of an
   ASCII byte found by `find` (`:` in extract_prefix_name and sparql_prefixed_name, ...): in a
   well-formed string an ASCII byte is a whole character, so both its ends are boundaries. *)
Lemma ascii_position_boundary : forall s i b,
  valid_utf8 s = true -> nth_error s i = Some b -> b < 128 ->
  boundary s i = true /\ boundary s (S i) = true.
Proof.
  intros s i b Hv Hn Hb.
  assert (Hc : is_cont b = false).
  { unfold is_cont. destruct (128 <=? b) eqn:E; [| reflexivity]. apply N.leb_le in E. lia. }
  assert (Hlt : (i < length s)%nat) by (apply nth_error_Some; congruence).
  assert (Hcs : cs s i) by (right; exists b; auto).
  split; [apply cs_boundary; exact Hcs |].
  destruct (wf_split s 0 i Hv (Nat.lt_le_incl _ _ Hlt) Hcs) as [_ Hrest].
  assert (Hsk : exists rest, skipn i s = b :: rest).
  { clear - Hn. revert i Hn. induction s as [| a t IH]; intros i Hn; [destruct i; discriminate |].
    destruct i as [| k]; simpl in *.
    - inversion Hn. eauto.
    - apply IH. exact Hn. }
  destruct Hsk as [rest Hsk]. rewrite Hsk in Hrest. simpl in Hrest. rewrite Hc in Hrest.
  destruct (248 <=? b); [discriminate |].
  assert (Hl : lead_len b = 1%nat).
  { unfold lead_len. destruct (b <? 128) eqn:E; [reflexivity |]. apply N.ltb_ge in E. lia. }
  rewrite Hl in Hrest. simpl in Hrest.
  destruct (wf_pending _ _ Hrest) as [_ Hcs0].
  apply cs_boundary. replace (S i) with (i + 1)%nat by lia.
  apply cs_skipn; [lia |]. rewrite Hsk. apply cs_cons. exact Hcs0.
Qed.

(* Every slice that uses the offset is a slice of the request itself: apart from the two early
   returns, detection fails exactly when the offset is not a boundary OF THE INPUT. *)
Lemma detect_panics_iff : forall input off,
  detect input off = None <->
  (containsb kw_select (map ascii_lower input) && negb (containsb kw_where (map ascii_lower input)) &&
     negb (containsb kw_insert (map ascii_lower input)) = false /\
   negb (Nat.eqb (countb 123 input) (countb 125 input)) = false /\
   boundary input off = false).
Proof.
  intros input off. unfold detect, detect_gen, slice_to.
  destruct (containsb kw_select (map ascii_lower input) && negb (containsb kw_where (map ascii_lower input)) &&
            negb (containsb kw_insert (map ascii_lower input))).
  - split; [discriminate | intros [H _]; discriminate].
  - destruct (negb (Nat.eqb (countb 123 input) (countb 125 input))).
    + split; [discriminate | intros [_ [H _]]; discriminate].
    + destruct (boundary input off).
      * destruct (Nat.odd (countb 34 (firstn off input))); split; try discriminate; intros [_ [_ H]]; discriminate.
      * split; auto.
Qed.
