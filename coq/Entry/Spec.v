(* What the property says, as simply as possible. *)
Require Import KV.Entry.Model KV.Entry.Render.

(* (1) a request through a query entry point leaves the dataset alone: the specification of the
   effect of ANY request on (stored quads, graph catalog) is the identity. *)
Definition spec_query_effect (d : list quad * list N) : list quad * list N := d.

(* (2) which results a query entry point may return, by kind of request *)
Definition spec_query_allows {Q U} (o : outcome Q U) (r : result) : bool :=
  match o, r with
  | PErr, RErr => true
  | PUpdate _ _, RErr => true            (* update syntax is refused *)
  | PNoOp _, ROk 0 => true
  | PNoOp _, RErr => true                (* a TRAIN declaration may fail *)
  | PSelect _ _, _ => true               (* rows, or an evaluation error value *)
  | _, _ => false
  end.

(* (3) which results an update entry point may return *)
Definition spec_update_allows {Q U} (o : outcome Q U) (r : result) : bool :=
  match o, r with
  | PUpdate _ _, _ => true
  | _, RErr => true                      (* malformed text, SELECT and extension-only requests: an error value *)
  | _, _ => false
  end.

(* (4) error rendering returns a value *)
Definition spec_render_ok (r : rout) : bool := match r with Panic => false | _ => true end.
