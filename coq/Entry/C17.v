(* C17 - Query entry points cannot modify data and string entry points fail cleanly.
   This file contains only the property theorems; each is closed by `exact <lemma>` and followed by
   Print Assumptions.  Models: Model.v (dispatch of execute_query.rs / sparql_database.rs as a function
   of the parse outcome), Render.v (offset arithmetic of error_handler.rs on UTF-8 bytes).
   Lemmas: Proofs.v, Utf8Proofs.v. *)
Require Import KV.Entry.Model KV.Entry.Render KV.Entry.Spec KV.Entry.Utf8Proofs KV.Entry.Proofs.

Section C17.
  (* The SELECT and update syntax trees and everything evaluation does with them are arbitrary:
     the theorems hold whatever the parser makes of a request text and whatever the evaluator
     computes, as long as evaluation only READS the stored quads (it is a function of them). *)
  Variables Q U : Type.
  Variable sel_preds : Q -> list (N * N) -> list N.
  Variable sel_consts : Q -> list (N * N) -> list N.
  Variable sel_lowers : Q -> list (N * N) -> list N -> bool.
  Variable sel_eval : Q -> list (N * N) -> list quad -> list N -> N * list N.
  Variable materialize : N -> state -> option state.
  Variable train : N -> state -> option state.
  Variable upd_exec : U -> list (N * N) -> state -> result * state.

  Notation query_entry := (query_entry Q U sel_preds sel_consts sel_lowers sel_eval materialize train).
  Notation update_entry := (update_entry Q U train upd_exec).
  Notation handle_update := (handle_update Q U train upd_exec).
  Notation handle_http := (handle_http Q U sel_preds sel_consts sel_lowers sel_eval materialize train upd_exec).

  (* (1) Whatever the parse outcome and whatever the database state, a request through the query-only
     entry point (execute_sparql_query) leaves the stored quads and the graph catalog unchanged -
     provided neither the request nor the database declares a neural relation / TRAIN / MODEL
     (their materialisation adds triples by design; see C17_frame_needs_neural_free).
     Prefix registration, the statistics cache and dictionary growth are side effects the model
     does have; they are not part of the dataset. *)
  Theorem C17_query_frame :
    forall (o : outcome Q U) (s : state),
      outcome_neural_free o = true -> state_neural_free s = true ->
      quads (snd (query_entry o s)) = quads s /\ catalog (snd (query_entry o s)) = catalog s.
  Proof. exact (query_frame_split Q U sel_preds sel_consts sel_lowers sel_eval materialize train). Qed.

  (* (1b) Without the neural-free hypothesis: if materialisation and training themselves keep the
     dataset, every request through the query entry point does. *)
  Theorem C17_query_frame_gen :
    (forall p s s', materialize p s = Some s' -> dataset s' = dataset s) ->
    (forall p s s', train p s = Some s' -> dataset s' = dataset s) ->
    forall (o : outcome Q U) (s : state), dataset (snd (query_entry o s)) = dataset s.
  Proof. exact (query_frame_gen Q U sel_preds sel_consts sel_lowers sel_eval materialize train). Qed.

  (* (2) Update syntax submitted to the query entry point is refused and nothing at all is touched
     (not even the prefix table). *)
  Theorem C17_update_refused :
    forall (e : ext) (u : U) (s : state), query_entry (PUpdate e u) s = (RErr, s).
  Proof. exact (update_refused Q U sel_preds sel_consts sel_lowers sel_eval materialize train). Qed.

  (* (2b) The query entry point returns only what the specification allows: an error value for
     malformed text and for update syntax, no rows for an extension-only request. *)
  Theorem C17_query_results :
    forall (o : outcome Q U) (s : state), spec_query_allows o (fst (query_entry o s)) = true.
  Proof. exact (query_allowed Q U sel_preds sel_consts sel_lowers sel_eval materialize train). Qed.

  (* (2c) The update entry points (execute_sparql_update, SparqlDatabase::execute_update, and
     handle_update with its second, compatibility parse) return an error value for everything that
     is not an update operation, and leave the dataset unchanged in that case. *)
  Theorem C17_update_entry_refuses :
    forall (o : outcome Q U) (s : state),
      (forall e u, o <> PUpdate e u) ->
      fst (update_entry o s) = RErr /\
      (outcome_neural_free o = true -> state_neural_free s = true ->
         dataset (snd (update_entry o s)) = dataset s /\ state_neural_free (snd (update_entry o s)) = true).
  Proof. exact (update_entry_refuses Q U train upd_exec). Qed.

  Theorem C17_handle_update_refuses :
    forall (o1 o2 : outcome Q U) (s : state),
      (forall e u, o1 <> PUpdate e u) -> (forall e u, o2 <> PUpdate e u) ->
      outcome_neural_free o1 = true -> outcome_neural_free o2 = true -> state_neural_free s = true ->
      fst (handle_update o1 o2 s) = RErr /\ dataset (snd (handle_update o1 o2 s)) = dataset s.
  Proof. exact (handle_update_refuses Q U train upd_exec). Qed.

  (* (2d) HTTP adapter: every request that does not route to the update path (GET ?query=,
     POST application/sparql-query, a form with a `query` field - even if it also has `update`)
     keeps the dataset; update syntax there is refused. *)
  Theorem C17_http_query_frame :
    forall (r : http_request Q U) (s : state),
      routes_to_update Q U r = false -> http_query_free Q U r = true -> state_neural_free s = true ->
      dataset (snd (handle_http r s)) = dataset s.
  Proof. exact (http_query_frame Q U sel_preds sel_consts sel_lowers sel_eval materialize train upd_exec). Qed.

  Theorem C17_http_update_syntax_refused :
    forall (e : ext) (u : U) (s : state),
      handle_http (HGet Q U (Some (PUpdate e u))) s = (RErr, s) /\
      handle_http (HPostQuery Q U (PUpdate e u)) s = (RErr, s) /\
      (forall upd, handle_http (HPostForm Q U (Some (PUpdate e u)) upd) s = (RErr, s)).
  Proof. exact (http_update_syntax_refused Q U sel_preds sel_consts sel_lowers sel_eval materialize train upd_exec). Qed.
End C17.
Print Assumptions C17_query_frame.
Print Assumptions C17_query_frame_gen.
Print Assumptions C17_update_refused.
Print Assumptions C17_query_results.
Print Assumptions C17_update_entry_refuses.
Print Assumptions C17_handle_update_refuses.
Print Assumptions C17_http_query_frame.
Print Assumptions C17_http_update_syntax_refused.

(* The neural-free hypothesis of (1) cannot be dropped: with a declared neural relation a SELECT
   changes the dataset (by design of the extension). *)
Theorem C17_frame_needs_neural_free :
  exists (materialize : N -> state -> option state) (s : state),
    state_neural_free s = false /\
    dataset (snd (query_entry unit unit (fun _ _ => [7]) (fun _ _ => []) (fun _ _ _ => true)
                              (fun _ _ _ _ => (0, [])) materialize (fun _ _ => None)
                              (PSelect (mkExt [] [] [] []) tt) s)) <> dataset s.
Proof. exact frame_needs_neural_free. Qed.
Print Assumptions C17_frame_needs_neural_free.

(* (3) Error rendering (format_parse_error at HEAD, i.e. after commits 22495a6 and b4ac3b3) returns a
   value for every well-formed UTF-8 request text and EVERY error slice the parser can hand over:
   a sub-slice of the request (any position, any length - not only the unparsed suffix) or a slice
   that lies elsewhere.  `slice_ok` is what Rust guarantees about a `&str` inside another. *)
Theorem C17_error_rendering :
  forall (input : bytes) (e : err_slice),
    valid_utf8 input = true -> slice_ok input e = true -> format_parse_error input e <> Panic.
Proof. exact format_parse_error_total. Qed.
Print Assumptions C17_error_rendering.

(* (3b) the arithmetic core: at any character boundary the rendering succeeds: the `&input[..offset]`
   slices are on a boundary and the span offset..error_span_end(input, offset) ends on one. *)
Theorem C17_render_at_boundary :
  forall (input : bytes) (offset : nat),
    valid_utf8 input = true -> boundary input offset = true -> (offset <= length input)%nat ->
    render input offset <> Panic.
Proof. exact render_at_boundary. Qed.
Print Assumptions C17_render_at_boundary.

Theorem C17_span_end_boundary :
  forall (input : bytes) (offset : nat),
    valid_utf8 input = true -> boundary input offset = true ->
    boundary input (span_end input offset) = true /\ (offset <= span_end input offset)%nat /\
    (span_end input offset <= length input)%nat.
Proof. exact span_end_ok. Qed.
Print Assumptions C17_span_end_boundary.

(* (3c) where the slice_ok hypothesis comes from: a non-empty valid slice inside a string, and the
   unparsed remainder of a string, start on a character boundary of that string. *)
Theorem C17_slice_starts_on_boundary :
  forall (pre tok post : bytes),
    valid_utf8 tok = true -> tok <> [] -> boundary (pre ++ tok ++ post) (length pre) = true.
Proof. exact inside_slice_boundary. Qed.
Print Assumptions C17_slice_starts_on_boundary.

Theorem C17_suffix_offset_boundary :
  forall (pre rest : bytes), valid_utf8 rest = true -> boundary (pre ++ rest) (length pre) = true.
Proof. exact suffix_boundary. Qed.
Print Assumptions C17_suffix_offset_boundary.

(* (3d) the reported line and column are those of the characters before the offset *)
Theorem C17_linecol :
  forall (input : bytes) (offset : nat),
    linecol input 0 offset 1 1 = lc_of (chars_before input 0 offset) 1 1.
Proof. exact linecol_spec0. Qed.
Print Assumptions C17_linecol.

(* (3e) the remaining slices of error_handler.rs (extract_prefix_name) and of the prefixed-name scanners are
   taken at the position of an ASCII byte returned by `find`: both ends of an ASCII byte are boundaries. *)
Theorem C17_ascii_position_boundary :
  forall (s : bytes) (i : nat) (b : N),
    valid_utf8 s = true -> nth_error s i = Some b -> b < 128 ->
    boundary s i = true /\ boundary s (S i) = true.
Proof. exact ascii_position_boundary. Qed.
Print Assumptions C17_ascii_position_boundary.

(* (4) Regression witnesses: the two defects the unchanged tree had, both repaired in /repo. *)
Definition w_e_acute : bytes := [195; 169].                                   (* "é" *)
Definition w_trailing : bytes := [83; 69; 76; 69; 67; 84; 32; 63; 120; 32; 87; 72; 69; 82; 69; 32; 123; 32; 63; 120; 32; 60; 112; 62; 32; 63; 121; 32; 125; 32; 195; 169].    (* "SELECT ?x WHERE { ?x <p> ?y } é" *)
Definition w_prefix : bytes := [83; 69; 76; 69; 67; 84; 32; 42; 32; 87; 72; 69; 82; 69; 32; 123; 32; 63; 115; 32; 49; 58; 112; 32; 63; 111; 32; 125; 32; 35; 195; 169].      (* "SELECT * WHERE { ?s 1:p ?o } #é" *)
Definition w_data_var : bytes := [73; 78; 83; 69; 82; 84; 32; 68; 65; 84; 65; 32; 123; 32; 63; 120; 32; 60; 112; 62; 32; 60; 111; 62; 32; 125; 32; 35; 226; 130; 172].    (* "INSERT DATA { ?x <p> <o> } #€" *)

(* before commit 22495a6 the span offset..offset+1 ended inside a multi-byte character *)
Theorem C17_span_refuted :
  valid_utf8 w_e_acute = true /\ boundary w_e_acute 0 = true /\
  render_old w_e_acute 0 = Panic /\ render w_e_acute 0 <> Panic /\
  valid_utf8 w_trailing = true /\ render_old w_trailing 30 = Panic /\ render w_trailing 30 <> Panic.
Proof. vm_compute. repeat split; discriminate. Qed.
Print Assumptions C17_span_refuted.

(* before commit b4ac3b3 the offset was len(input) - len(slice) although the slice was an offending
   token in the middle of the request: it landed inside the last character *)
Theorem C17_offset_refuted :
  valid_utf8 w_prefix = true /\ slice_ok w_prefix (Inside 20 1) = true /\
  format_parse_error_old w_prefix (Inside 20 1) = Panic /\ format_parse_error w_prefix (Inside 20 1) <> Panic /\
  valid_utf8 w_data_var = true /\ slice_ok w_data_var (Inside 14 2) = true /\
  format_parse_error_old w_data_var (Inside 14 2) = Panic /\ format_parse_error w_data_var (Inside 14 2) <> Panic.
Proof. vm_compute. repeat split; discriminate. Qed.
Print Assumptions C17_offset_refuted.

(* (3f) The offset is an offset into the request and every slice that uses it is a slice of the request
   itself: apart from the two early returns, detection fails exactly when the offset is not a
   character boundary of the INPUT (no derived copy of the text is ever sliced with it). *)
Theorem C17_offset_same_string :
  forall (input : bytes) (off : nat),
    detect input off = None <->
    (containsb kw_select (map ascii_lower input) && negb (containsb kw_where (map ascii_lower input)) &&
       negb (containsb kw_insert (map ascii_lower input)) = false /\
     negb (Nat.eqb (countb 123 input) (countb 125 input)) = false /\
     boundary input off = false).
Proof. exact detect_panics_iff. Qed.
Print Assumptions C17_offset_same_string.

(* ... and it matters: a variant that hands the lower-cased copy of the request to check_missing_prefix
   (to_lowercase changes byte lengths: U+212A KELVIN SIGN, 3 bytes, lowers to 'k') panics on
   `INSERT DATA { <urn:a> <urn:b> "K" } .` (error slice: the final '.'), where the code at HEAD renders. *)
Definition w_kelvin : bytes := [73; 78; 83; 69; 82; 84; 32; 68; 65; 84; 65; 32; 123; 32; 60; 117; 114; 110; 58; 97; 62; 32; 60; 117; 114; 110; 58; 98; 62; 32; 34; 226; 132; 170; 34; 32; 125; 32; 46].
Theorem C17_lowercased_copy_refuted :
  valid_utf8 w_kelvin = true /\ slice_ok w_kelvin (Inside 38 1) = true /\
  format_parse_error_lowercased_copy w_kelvin (Inside 38 1) = Panic /\
  format_parse_error w_kelvin (Inside 38 1) <> Panic.
Proof. vm_compute. repeat split; discriminate. Qed.
Print Assumptions C17_lowercased_copy_refuted.

(* ---- non-vacuity ---- *)
Example C17_example_select :
  let s := mkState [(1, 2, 3, 0); (1, 2, 4, 9)] [9; 8] [(1, 5)] false [1; 2; 3; 4] [] [] [] [] in
  let r := query_entry (bool * N) unit (fun _ _ => [2]) (fun _ _ => [7]) (fun q _ _ => fst q)
             (fun q _ qs _ => (N.of_nat (length qs), [11])) (fun _ _ => None) (fun _ _ => None)
             (PSelect (mkExt [(1, 6); (2, 7)] [] [] []) (true, 0)) s in
  fst r = ROk 2 /\ quads (snd r) = quads s /\ catalog (snd r) = catalog s /\
  prefixes (snd r) = [(1, 6); (2, 7)] /\ stats (snd r) = true /\ dict (snd r) = [1; 2; 3; 4; 7; 11].
Proof. vm_compute. repeat split. Qed.

Example C17_example_hypotheses :
  outcome_neural_free (PSelect (mkExt [(1, 6)] [] [] []) tt : outcome unit unit) = true /\
  state_neural_free (mkState [(1, 2, 3, 0)] [9] [] false [] [] [] [] []) = true /\
  valid_utf8 w_prefix = true /\ slice_ok w_prefix (Inside 20 1) = true /\ slice_ok w_prefix (Outside 3) = true /\
  boundary w_e_acute 1 = false /\ boundary w_e_acute 2 = true /\
  format_parse_error w_prefix (Inside 20 1) = Rendered 0 1 21 20 21.
Proof. vm_compute. repeat split. Qed.
