(* Lemmas about the dispatch model (Model.v): the frame property of the query entry points. *)
Require Import KV.Entry.Model KV.Entry.Spec.

Definition dataset (s : state) : list quad * list N := (quads s, catalog s).

Lemma unionN_nil : forall l, unionN l [] = l.
Proof. reflexivity. Qed.

Section Frame.
  Variables Q U : Type.
  Variable sel_preds : Q -> list (N * N) -> list N.
  Variable sel_consts : Q -> list (N * N) -> list N.
  Variable sel_lowers : Q -> list (N * N) -> list N -> bool.
  Variable sel_eval : Q -> list (N * N) -> list quad -> list N -> N * list N.
  Variable materialize : N -> state -> option state.
  Variable train : N -> state -> option state.
  Variable upd_exec : U -> list (N * N) -> state -> result * state.

  Notation query_entry := (query_entry Q U sel_preds sel_consts sel_lowers sel_eval materialize train).
  Notation execute_select := (execute_select Q sel_preds sel_consts sel_lowers sel_eval materialize).
  Notation update_entry := (update_entry Q U train upd_exec).
  Notation handle_update := (handle_update Q U train upd_exec).
  Notation handle_http := (handle_http Q U sel_preds sel_consts sel_lowers sel_eval materialize train upd_exec).
  Notation prepare_extensions := (prepare_extensions train).
  Notation run_trains := (run_trains train).
  Notation materialize_all := (materialize_all materialize).

  (* ---- the general frame lemma: if materialisation and training themselves keep the dataset,
          so does every request through the query entry point ---- *)
  Definition keeps (f : N -> state -> option state) : Prop :=
    forall p s s', f p s = Some s' -> dataset s' = dataset s.

  Lemma run_trains_keeps : keeps train -> forall ps s, dataset (snd (run_trains ps s)) = dataset s.
  Proof.
    intros Hk ps. induction ps as [| p t IH]; intro s; simpl; [reflexivity |].
    destruct (memN p (trains s)); [| apply IH].
    destruct (train p s) as [s' |] eqn:Ht; [| reflexivity].
    rewrite IH. apply (Hk _ _ _ Ht).
  Qed.

  Lemma materialize_all_keeps : keeps materialize -> forall ps s, dataset (snd (materialize_all ps s)) = dataset s.
  Proof.
    intros Hk ps. induction ps as [| p t IH]; intro s; simpl; [reflexivity |].
    destruct (memN p (neural s)); [| apply IH].
    destruct (materialize p s) as [s' |] eqn:Hm; [| reflexivity].
    rewrite IH. apply (Hk _ _ _ Hm).
  Qed.

  Lemma prepare_keeps : keeps train -> forall e s, dataset (snd (prepare_extensions e s)) = dataset s.
  Proof.
    intros Hk e s. unfold Model.prepare_extensions.
    pose proof (run_trains_keeps Hk (x_trains e) (register_decls (set_prefixes s (pextend (prefixes s) (x_prefixes e))) e)) as H.
    destruct (run_trains _ _) as [[x |] s3]; simpl in *; exact H.
  Qed.

  Lemma select_keeps : keeps materialize -> forall q pf s, dataset (snd (execute_select q pf s)) = dataset s.
  Proof.
    intros Hk q pf s. unfold Model.execute_select.
    pose proof (materialize_all_keeps Hk (sel_preds q pf) s) as H.
    destruct (materialize_all _ _) as [[x |] s1]; simpl in *; [| exact H].
    destruct (sel_lowers q pf _); simpl; exact H.
  Qed.

  Lemma query_frame_gen : keeps materialize -> keeps train ->
    forall o s, dataset (snd (query_entry o s)) = dataset s.
  Proof.
    intros Hm Ht o s. destruct o as [| e q | e u | e]; simpl; try reflexivity.
    - pose proof (prepare_keeps Ht e s) as H.
      destruct (prepare_extensions e s) as [[pf |] s1]; simpl in *; [| exact H].
      rewrite select_keeps by exact Hm. exact H.
    - pose proof (prepare_keeps Ht e s) as H.
      destruct (prepare_extensions e s) as [[pf |] s1]; simpl in *; exact H.
  Qed.

  (* ---- the neural-free case: nothing is declared, so materialize/train are never called ---- *)
  Lemma materialize_all_free : forall ps s, neural s = [] -> materialize_all ps s = (Some s, s).
  Proof.
    induction ps as [| p t IH]; intros s Hn; simpl; [reflexivity |].
    rewrite Hn. simpl. apply IH. exact Hn.
  Qed.

  Lemma ext_free_inv : forall e, ext_neural_free e = true -> x_models e = [] /\ x_neural e = [] /\ x_trains e = [].
  Proof.
    intros e H. unfold ext_neural_free in H.
    destruct (x_models e); [| discriminate]. destruct (x_neural e); [| discriminate].
    destruct (x_trains e); [| discriminate]. auto.
  Qed.
  Lemma state_free_inv : forall s, state_neural_free s = true -> neural s = [] /\ trains s = [].
  Proof.
    intros s H. unfold state_neural_free in H.
    destruct (neural s); [| discriminate]. destruct (trains s); [| discriminate]. auto.
  Qed.

  Lemma prepare_free : forall e s, ext_neural_free e = true ->
    prepare_extensions e s =
      (Some (pextend (prefixes s) (x_prefixes e)),
       register_decls (set_prefixes s (pextend (prefixes s) (x_prefixes e))) e).
  Proof.
    intros e s He. destruct (ext_free_inv e He) as [_ [_ Ht]].
    unfold Model.prepare_extensions. rewrite Ht. reflexivity.
  Qed.

  Lemma prepare_free_state : forall e s, ext_neural_free e = true -> state_neural_free s = true ->
    let s1 := snd (prepare_extensions e s) in
    dataset s1 = dataset s /\ state_neural_free s1 = true /\ stats s1 = stats s.
  Proof.
    intros e s He Hs. rewrite prepare_free by exact He.
    destruct (ext_free_inv e He) as [_ [Hn Ht]]. destruct (state_free_inv s Hs) as [Hsn Hst].
    simpl. unfold state_neural_free, register_decls. simpl. rewrite Hn, Ht, Hsn, Hst. auto.
  Qed.

  Lemma select_free : forall q pf s, neural s = [] -> dataset (snd (execute_select q pf s)) = dataset s.
  Proof.
    intros q pf s Hn. unfold Model.execute_select. rewrite materialize_all_free by exact Hn.
    destruct (sel_lowers q pf _); reflexivity.
  Qed.

  Lemma query_frame_free : forall o s,
    outcome_neural_free o = true -> state_neural_free s = true ->
    dataset (snd (query_entry o s)) = dataset s.
  Proof.
    intros o s Ho Hs. destruct o as [| e q | e u | e]; simpl in *; try reflexivity.
    - destruct (prepare_free_state e s Ho Hs) as [Hd [Hf _]].
      rewrite prepare_free in * by exact Ho. simpl in *.
      rewrite select_free; [exact Hd |]. apply state_free_inv in Hf. apply Hf.
    - destruct (prepare_free_state e s Ho Hs) as [Hd _].
      rewrite prepare_free in * by exact Ho. exact Hd.
  Qed.


  Lemma query_frame_split : forall o s,
    outcome_neural_free o = true -> state_neural_free s = true ->
    quads (snd (query_entry o s)) = quads s /\ catalog (snd (query_entry o s)) = catalog s.
  Proof.
    intros o s Ho Hs. pose proof (query_frame_free o s Ho Hs) as H.
    unfold dataset in H. inversion H. split; reflexivity.
  Qed.

  (* update syntax at the query entry point: refused, and nothing at all is touched *)
  Lemma update_refused : forall e u s, query_entry (PUpdate e u) s = (RErr, s).
  Proof. reflexivity. Qed.

  (* malformed text: an error value, nothing touched, on every entry point *)
  Lemma perr_all : forall s,
    query_entry PErr s = (RErr, s) /\ update_entry PErr s = (RErr, s) /\ handle_update PErr PErr s = (RErr, s).
  Proof. intro s. repeat split. Qed.

  (* the query entry point returns only results the specification allows *)
  Lemma query_allowed : forall o s, spec_query_allows o (fst (query_entry o s)) = true.
  Proof.
    intros o s. destruct o as [| e q | e u | e]; simpl; try reflexivity;
      destruct (prepare_extensions e s) as [[pf |] s1]; try reflexivity;
      destruct (execute_select q pf s1) as [r s2]; destruct r; reflexivity.
  Qed.

  (* the update entry points refuse everything that is not an update, whatever upd_exec is *)
  Lemma update_entry_refuses : forall o s,
    (forall e u, o <> PUpdate e u) ->
    fst (update_entry o s) = RErr /\
    (outcome_neural_free o = true -> state_neural_free s = true ->
       dataset (snd (update_entry o s)) = dataset s /\ state_neural_free (snd (update_entry o s)) = true).
  Proof.
    intros o s Hnu. destruct o as [| e q | e u | e]; simpl.
    - split; [reflexivity | intros _ Hs; split; [reflexivity | exact Hs]].
    - split; [destruct (prepare_extensions e s); reflexivity |].
      intros He Hs. destruct (prepare_free_state e s He Hs) as [Hd [Hf _]].
      destruct (prepare_extensions e s) as [x s1]; simpl in *. auto.
    - exfalso. apply (Hnu e u). reflexivity.
    - split; [destruct (prepare_extensions e s); reflexivity |].
      intros He Hs. destruct (prepare_free_state e s He Hs) as [Hd [Hf _]].
      destruct (prepare_extensions e s) as [x s1]; simpl in *. auto.
  Qed.

  Lemma update_allowed : forall o s, spec_update_allows o (fst (update_entry o s)) = true.
  Proof.
    intros o s. destruct o as [| e q | e u | e]; simpl; try reflexivity;
      destruct (prepare_extensions e s); reflexivity.
  Qed.

  Lemma handle_update_refuses : forall o1 o2 s,
    (forall e u, o1 <> PUpdate e u) -> (forall e u, o2 <> PUpdate e u) ->
    outcome_neural_free o1 = true -> outcome_neural_free o2 = true -> state_neural_free s = true ->
    fst (handle_update o1 o2 s) = RErr /\ dataset (snd (handle_update o1 o2 s)) = dataset s.
  Proof.
    intros o1 o2 s H1 H2 F1 F2 Hs. unfold Model.handle_update.
    destruct (update_entry_refuses o1 s H1) as [Hr1 Hk1]. destruct (Hk1 F1 Hs) as [Hd1 Hf1].
    destruct (update_entry o1 s) as [r1 s1]; simpl in *. subst r1.
    destruct (update_entry_refuses o2 s1 H2) as [Hr2 Hk2]. destruct (Hk2 F2 Hf1) as [Hd2 _].
    split; [exact Hr2 | congruence].
  Qed.

  (* HTTP: everything that does not route to the update path keeps the dataset *)
  Definition opt_free (o : option (outcome Q U)) : bool :=
    match o with Some x => outcome_neural_free x | None => true end.
  Definition http_query_free (r : http_request Q U) : bool :=
    match r with
    | HGet _ _ o => opt_free o
    | HPostQuery _ _ o => outcome_neural_free o
    | HPostForm _ _ o _ => opt_free o
    | _ => true
    end.

  Lemma http_query_frame : forall r s,
    routes_to_update Q U r = false -> http_query_free r = true -> state_neural_free s = true ->
    dataset (snd (handle_http r s)) = dataset s.
  Proof.
    intros r s Hr Hf Hs. destruct r as [[o |] | o | [o |] [[o1 o2] |] | o1 o2 |]; simpl in *;
      try reflexivity; try discriminate; apply query_frame_free; assumption.
  Qed.

  Lemma http_update_syntax_refused : forall e u s,
    handle_http (HGet Q U (Some (PUpdate e u))) s = (RErr, s) /\
    handle_http (HPostQuery Q U (PUpdate e u)) s = (RErr, s) /\
    (forall upd, handle_http (HPostForm Q U (Some (PUpdate e u)) upd) s = (RErr, s)).
  Proof. intros. repeat split. Qed.

  Lemma handle_query_frame : forall toks s, dataset (snd (handle_query toks s)) = dataset s.
  Proof.
    intros toks s. unfold handle_query.
    destruct toks as [| a [| b [| c [| d t]]]]; reflexivity.
  Qed.

  (* side effects the query entry point does have (they are not part of the property, but the model
     states them and the correspondence check compares them): *)
  Lemma query_select_side_effects : forall e q s,
    ext_neural_free e = true -> state_neural_free s = true ->
    let s' := snd (query_entry (PSelect e q) s) in
    prefixes s' = pextend (prefixes s) (x_prefixes e) /\
    (fst (query_entry (PSelect e q) s) <> RErr -> stats s' = true) /\
    (fst (query_entry (PSelect e q) s) = RErr -> stats s' = stats s).
  Proof.
    intros e q s He Hs. simpl. rewrite prepare_free by exact He.
    destruct (prepare_free_state e s He Hs) as [_ [Hf _]]. rewrite prepare_free in Hf by exact He. simpl in Hf.
    unfold Model.execute_select. rewrite materialize_all_free by (apply state_free_inv in Hf; apply Hf).
    destruct (sel_lowers q _ _); simpl; repeat split; try reflexivity; intro H; try congruence; discriminate.
  Qed.
End Frame.

(* ---- the hypothesis is needed: with a declared neural relation a SELECT may change the dataset
        (materialisation adds triples by design) ---- *)
Lemma frame_needs_neural_free :
  exists (materialize : N -> state -> option state) (s : state),
    state_neural_free s = false /\
    dataset (snd (query_entry unit unit (fun _ _ => [7]) (fun _ _ => []) (fun _ _ _ => true)
                              (fun _ _ _ _ => (0, [])) materialize (fun _ _ => None)
                              (PSelect (mkExt [] [] [] []) tt) s)) <> dataset s.
Proof.
  exists (fun p s => Some (set_quads s ((1, p, 1, 0) :: quads s) (catalog s))).
  exists (mkState [] [] [] false [] [] [7] [] []).
  split; [reflexivity |]. vm_compute. discriminate.
Qed.

(* ---- and the frame property is a property of the query-only entry, not of every entry: the general
        entry point (execute_query_rayon_parallel2_volcano) executes update syntax ---- *)
Lemma general_entry_mutates :
  exists (upd : unit -> list (N * N) -> state -> result * state) (s : state),
    dataset (snd (general_entry unit unit (fun _ _ => []) (fun _ _ => []) (fun _ _ _ => true)
                                (fun _ _ _ _ => (0, [])) (fun _ _ => None) (fun _ _ => None) upd
                                (PUpdate (mkExt [] [] [] []) tt) s)) <> dataset s.
Proof.
  exists (fun _ _ s => (ROk 1, set_quads s ((1, 2, 3, 0) :: quads s) (catalog s))).
  exists (mkState [] [] [] false [] [] [] [] []).
  vm_compute. discriminate.
Qed.
