(* Executable model of the request dispatch in kolibrie/src/execute_query.rs
   (execute_sparql_query, execute_request, execute_update_request, prepare_extensions, execute_select)
   and of the adapters in kolibrie/src/sparql_database.rs (handle_query, handle_update,
   handle_http_request), as a function of the PARSE OUTCOME: whatever the parser makes of the text is
   a universally quantified input.  Everything the real code does to the database object during a
   request is a state component here.  No proofs here. *)
Require Export List NArith Bool.
Export ListNotations.
Open Scope N_scope.

Definition quad := (N * N * N * N)%type.            (* subject, predicate, object, graph (0 = default) *)

Record state := mkState {
  quads : list quad;          (* DatasetIndex: all stored quads, every graph *)
  catalog : list N;           (* DatasetIndex.named_graphs: graph identities, incl. empty graphs *)
  prefixes : list (N * N);    (* SparqlDatabase.prefixes *)
  stats : bool;               (* cached_stats.is_some() *)
  dict : list N;              (* terms known to the dictionary / quoted-triple store (only grows) *)
  models : list N;            (* model_decls *)
  neural : list N;            (* predicates with a NEURAL RELATION declaration *)
  trains : list N;            (* predicates with a TRAIN declaration *)
  artifacts : list N          (* neural_model_artifacts *)
}.

(* the declarations a request carries besides its SPARQL operation (CombinedQuery minus `sparql`;
   retrieve/register clauses, RULE and ML.PREDICT are parsed but never looked at by these entry points) *)
Record ext := mkExt {
  x_prefixes : list (N * N);
  x_models : list N;
  x_neural : list N;
  x_trains : list N
}.

Inductive outcome (Q U : Type) :=
| PErr                                   (* parse error or trailing input: Err(String) *)
| PSelect (e : ext) (q : Q)
| PUpdate (e : ext) (u : U)
| PNoOp (e : ext).                       (* extension-only request *)
Arguments PErr {Q U}.
Arguments PSelect {Q U}.
Arguments PUpdate {Q U}.
Arguments PNoOp {Q U}.

Inductive result :=
| RErr
| ROk (rows : N).                        (* number of rows / of touched quads *)

(* HashMap::extend / insert on an association list: later bindings replace earlier ones *)
Fixpoint pset (k v : N) (m : list (N * N)) : list (N * N) :=
  match m with
  | [] => [(k, v)]
  | (k', v') :: t => if k' =? k then (k, v) :: t else (k', v') :: pset k v t
  end.
Definition pextend (m add : list (N * N)) : list (N * N) :=
  fold_left (fun acc kv => pset (fst kv) (snd kv) acc) add m.
Fixpoint memN (x : N) (l : list N) : bool :=
  match l with [] => false | y :: t => (x =? y) || memN x t end.
Definition addN (x : N) (l : list N) : list N := if memN x l then l else l ++ [x].
Definition unionN (l add : list N) : list N := fold_left (fun acc x => addN x acc) add l.

Definition set_quads (s : state) (q : list quad) (c : list N) : state :=
  mkState q c (prefixes s) (stats s) (dict s) (models s) (neural s) (trains s) (artifacts s).
Definition set_prefixes (s : state) (p : list (N * N)) : state :=
  mkState (quads s) (catalog s) p (stats s) (dict s) (models s) (neural s) (trains s) (artifacts s).
Definition set_stats (s : state) (b : bool) : state :=
  mkState (quads s) (catalog s) (prefixes s) b (dict s) (models s) (neural s) (trains s) (artifacts s).
Definition grow_dict (s : state) (ts : list N) : state :=
  mkState (quads s) (catalog s) (prefixes s) (stats s) (unionN (dict s) ts) (models s) (neural s) (trains s) (artifacts s).
Definition register_decls (s : state) (e : ext) : state :=
  mkState (quads s) (catalog s) (prefixes s) (stats s) (dict s)
          (unionN (models s) (x_models e)) (unionN (neural s) (x_neural e)) (unionN (trains s) (x_trains e))
          (artifacts s).

Section Dispatch.
  (* The abstract SELECT and update syntax trees and everything evaluation does with them.
     All of these are universally quantified in the theorems. *)
  Variables Q U : Type.
  (* predicates of the triple patterns of a query, resolved with the request's prefixes *)
  Variable sel_preds : Q -> list (N * N) -> list N.
  (* constants encoded into the dictionary while the dataset view and the logical plan are built *)
  Variable sel_consts : Q -> list (N * N) -> list N.
  (* lowering may fail (dataset graph name is a variable, unsupported pattern, ...) *)
  Variable sel_lowers : Q -> list (N * N) -> list N -> bool.
  (* evaluation READS the dataset: a function of the stored quads and the catalog; it yields the
     number of rows and the terms it encodes on the way (BIND/CONCAT results, VALUES terms, ...) *)
  Variable sel_eval : Q -> list (N * N) -> list quad -> list N -> N * list N.
  (* neural-relation materialisation and training may do anything to the database, by design *)
  Variable materialize : N -> state -> option state.
  Variable train : N -> state -> option state.
  (* execution of an update operation (the subject of C03, abstract here) *)
  Variable upd_exec : U -> list (N * N) -> state -> result * state.

  (* prepare_extensions: local prefix map = database prefixes overridden by the request's;
     the request's prefixes are also registered in the database; declarations are registered;
     TRAIN declarations of the request are executed (an error aborts the request, the
     registrations stay). *)
  Fixpoint run_trains (ps : list N) (s : state) : option state * state :=
    match ps with
    | [] => (Some s, s)
    | p :: t => if memN p (trains s)
                then match train p s with
                     | Some s' => run_trains t s'
                     | None => (None, s)
                     end
                else run_trains t s
    end.
  Definition prepare_extensions (e : ext) (s : state) : option (list (N * N)) * state :=
    let local := pextend (prefixes s) (x_prefixes e) in
    let s1 := set_prefixes s (pextend (prefixes s) (x_prefixes e)) in
    let s2 := register_decls s1 e in
    match run_trains (x_trains e) s2 with
    | (Some _, s3) => (Some local, s3)
    | (None, s3) => (None, s3)
    end.

  (* materialize_neural_relations_for_patterns *)
  Fixpoint materialize_all (ps : list N) (s : state) : option state * state :=
    match ps with
    | [] => (Some s, s)
    | p :: t => if memN p (neural s)
                then match materialize p s with
                     | Some s' => materialize_all t s'
                     | None => (None, s)
                     end
                else materialize_all t s
    end.

  (* execute_select *)
  Definition execute_select (q : Q) (pf : list (N * N)) (s : state) : result * state :=
    match materialize_all (sel_preds q pf) s with
    | (None, s1) => (RErr, s1)
    | (Some _, s1) =>
        (* build_dataset_view + build_logical_plan_from_group: constants are encoded first *)
        let s2 := grow_dict s1 (sel_consts q pf) in
        if sel_lowers q pf (dict s2) then
          (* optimize_and_execute: get_or_build_stats caches, execution reads the dataset *)
          let s3 := set_stats s2 true in
          let r := sel_eval q pf (quads s3) (catalog s3) in
          (ROk (fst r), grow_dict s3 (snd r))
        else (RErr, s2)
    end.

  (* execute_sparql_query: the query-only entry point *)
  Definition query_entry (o : outcome Q U) (s : state) : result * state :=
    match o with
    | PErr => (RErr, s)
    | PUpdate _ _ => (RErr, s)                         (* refused before anything is touched *)
    | PSelect e q =>
        match prepare_extensions e s with
        | (Some pf, s1) => execute_select q pf s1
        | (None, s1) => (RErr, s1)
        end
    | PNoOp e =>
        match prepare_extensions e s with
        | (Some _, s1) => (ROk 0, s1)
        | (None, s1) => (RErr, s1)
        end
    end.

  (* execute_update_request (execute_sparql_update: aliases off; _compat: aliases on — the flag only
     changes which outcome the parser produces).  Extensions are prepared BEFORE the kind test. *)
  Definition update_entry (o : outcome Q U) (s : state) : result * state :=
    match o with
    | PErr => (RErr, s)
    | PUpdate e u =>
        match prepare_extensions e s with
        | (Some pf, s1) => upd_exec u pf s1
        | (None, s1) => (RErr, s1)
        end
    | PSelect e _ | PNoOp e =>
        match prepare_extensions e s with
        | (_, s1) => (RErr, s1)
        end
    end.

  (* execute_request (execute_query_rayon_parallel2_volcano): the general entry point, NOT query-only *)
  Definition general_entry (o : outcome Q U) (s : state) : result * state :=
    match o with
    | PErr => (RErr, s)
    | PSelect e q =>
        match prepare_extensions e s with
        | (Some pf, s1) => execute_select q pf s1
        | (None, s1) => (RErr, s1)
        end
    | PUpdate e u =>
        match prepare_extensions e s with
        | (Some pf, s1) => match upd_exec u pf s1 with
                           | (ROk _, s2) => (ROk 0, s2)
                           | (RErr, s2) => (RErr, s2)
                           end
        | (None, s1) => (RErr, s1)
        end
    | PNoOp e =>
        match prepare_extensions e s with
        | (Some _, s1) => (ROk 0, s1)
        | (None, s1) => (RErr, s1)
        end
    end.

  (* SparqlDatabase::handle_update: the standard parse first, then the compatibility parse of the
     same text (o_std, o_compat: the two parse outcomes) *)
  Definition handle_update (o_std o_compat : outcome Q U) (s : state) : result * state :=
    match update_entry o_std s with
    | (ROk n, s1) => (ROk n, s1)
    | (RErr, s1) => update_entry o_compat s1
    end.

  (* SparqlDatabase::handle_query: the legacy "s p o" lookup; encodes its three tokens, reads *)
  Definition handle_query (tokens : list N) (s : state) : result * state :=
    match tokens with
    | [a; b; c] => (ROk 0, grow_dict s [a; b; c])
    | _ => (RErr, s)
    end.

  (* SparqlDatabase::handle_http_request after HTTP framing and form decoding: what the request
     routes to.  A form carrying both `query` and `update` is a query. *)
  Inductive http_request :=
  | HGet (query : option (outcome Q U))
  | HPostQuery (body : outcome Q U)
  | HPostForm (query : option (outcome Q U)) (update : option (outcome Q U * outcome Q U))
  | HPostUpdate (std compat : outcome Q U)
  | HOther.

  Definition handle_http (r : http_request) (s : state) : result * state :=
    match r with
    | HGet (Some o) => query_entry o s
    | HGet None => (RErr, s)
    | HPostQuery o => query_entry o s
    | HPostForm (Some o) _ => query_entry o s
    | HPostForm None (Some (o1, o2)) => handle_update o1 o2 s
    | HPostForm None None => (RErr, s)
    | HPostUpdate o1 o2 => handle_update o1 o2 s
    | HOther => (RErr, s)
    end.

  Definition routes_to_update (r : http_request) : bool :=
    match r with
    | HPostForm None (Some _) => true
    | HPostUpdate _ _ => true
    | _ => false
    end.
End Dispatch.

(* No neural relation / TRAIN / MODEL declaration in the request or in the database state. *)
Definition ext_neural_free (e : ext) : bool :=
  match x_models e, x_neural e, x_trains e with [], [], [] => true | _, _, _ => false end.
Definition state_neural_free (s : state) : bool :=
  match neural s, trains s with [], [] => true | _, _ => false end.
Definition outcome_neural_free {Q U} (o : outcome Q U) : bool :=
  match o with
  | PErr => true
  | PSelect e _ | PUpdate e _ | PNoOp e => ext_neural_free e
  end.
