(* Executable model of shared/src/dataset_index.rs (DatasetIndex) and of
   SparqlDatabase::build_all_indexes.  Graph ids: 0 = GraphId::Default, g+1 = GraphId::Named(g). *)
Require Export KV.Store.Trie.

Definition quad := (N * N * N * N)%type.   (* subject, predicate, object, graph *)
Definition qs (q : quad) := fst (fst (fst q)).
Definition qp (q : quad) := snd (fst (fst q)).
Definition qo (q : quad) := snd (fst q).
Definition qg (q : quad) := snd q.
Definition mkq (s p o g : N) : quad := (s, p, o, g).

Record state := St {
  gspo : trie;            (* graph -> subject -> predicate -> {object} *)
  gpos : trie;            (* graph -> predicate -> object -> {subject} *)
  gosp : trie;            (* graph -> object -> subject -> {predicate} *)
  spog : trie;            (* subject -> predicate -> object -> {graph} *)
  cat  : list N           (* named_graphs: HashSet<u32> (graph names, not shifted) *)
}.

Definition init : state := St t_empty t_empty t_empty t_empty [].

Fixpoint set_add (x : N) (l : list N) : list N :=
  match l with [] => [x] | y :: l' => if N.eqb x y then l else y :: set_add x l' end.
Fixpoint set_del (x : N) (l : list N) : list N :=
  match l with [] => [] | y :: l' => if N.eqb x y then l' else y :: set_del x l' end.
Definition set_mem (x : N) (l : list N) : bool := existsb (N.eqb x) l.

Definition register_graph (g : N) (c : list N) : list N :=
  if N.eqb g 0 then c else set_add (N.pred g) c.

Definition contains_quad (st : state) (q : quad) : bool :=
  t_mem [qs q; qp q; qo q; qg q] (spog st).

Definition insert_quad (st : state) (q : quad) : state * bool :=
  let st1 := St (gspo st) (gpos st) (gosp st) (spog st) (register_graph (qg q) (cat st)) in
  if contains_quad st1 q then (st1, false)
  else (St (t_insert [qg q; qs q; qp q; qo q] (gspo st1))
           (t_insert [qg q; qp q; qo q; qs q] (gpos st1))
           (t_insert [qg q; qo q; qs q; qp q] (gosp st1))
           (t_insert [qs q; qp q; qo q; qg q] (spog st1))
           (cat st1), true).

Definition delete_quad (st : state) (q : quad) : state * bool :=
  if negb (contains_quad st q) then (st, false)
  else (St (t_remove [qg q; qs q; qp q; qo q] (gspo st))
           (t_remove [qg q; qp q; qo q; qs q] (gpos st))
           (t_remove [qg q; qo q; qs q; qp q] (gosp st))
           (t_remove [qs q; qp q; qo q; qg q] (spog st))
           (register_graph (qg q) (cat st)), true).

Definition sub_paths (d : nat) (pre : list N) (t : trie) : list (list N) :=
  match t_sub pre t with Some c => paths d c | None => [] end.

(* query_graph: the eight bound/unbound shapes, each served by the index the code uses *)
Definition query_graph (st : state) (g : N) (s p o : option N) : list quad :=
  match s, p, o with
  | Some ss, Some pp, Some oo =>
      if contains_quad st (mkq ss pp oo g) then [mkq ss pp oo g] else []
  | Some ss, Some pp, None =>
      map (fun r => mkq ss pp (nth 0 r 0) g) (sub_paths 1 [g; ss; pp] (gspo st))
  | Some ss, None, Some oo =>
      map (fun r => mkq ss (nth 0 r 0) oo g) (sub_paths 1 [g; oo; ss] (gosp st))
  | None, Some pp, Some oo =>
      map (fun r => mkq (nth 0 r 0) pp oo g) (sub_paths 1 [g; pp; oo] (gpos st))
  | Some ss, None, None =>
      map (fun r => mkq ss (nth 0 r 0) (nth 1 r 0) g) (sub_paths 2 [g; ss] (gspo st))
  | None, Some pp, None =>
      map (fun r => mkq (nth 1 r 0) pp (nth 0 r 0) g) (sub_paths 2 [g; pp] (gpos st))
  | None, None, Some oo =>
      map (fun r => mkq (nth 0 r 0) (nth 1 r 0) oo g) (sub_paths 2 [g; oo] (gosp st))
  | None, None, None =>
      map (fun r => mkq (nth 0 r 0) (nth 1 r 0) (nth 2 r 0) g) (sub_paths 3 [g] (gspo st))
  end.

(* named_graphs(): catalog plus the named keys of gspo, as a set (shifted ids) *)
Fixpoint union_add (xs : list N) (l : list N) : list N :=
  match xs with [] => l | x :: xs' => union_add xs' (set_add x l) end.

Definition named_graphs (st : state) : list N :=
  union_add (filter (fun g => negb (N.eqb g 0)) (keys (gspo st))) (map N.succ (cat st)).

Definition graphs (st : state) : list N := 0 :: named_graphs st.

Definition graph_exists (st : state) (g : N) : bool :=
  if N.eqb g 0 then true
  else set_mem (N.pred g) (cat st) || (match aget g (ents (gspo st)) with Some _ => true | None => false end).

Definition vis_ok (vis : option (list N)) (g : N) : bool :=
  match vis with None => true | Some v => set_mem g v end.

Definition query_named_graphs (st : state) (s p o : option N) (vis : option (list N)) : list quad :=
  let slow := flat_map (fun g => if vis_ok vis g then query_graph st g s p o else []) (named_graphs st) in
  match s, p, o with
  | Some ss, Some pp, Some oo =>
      match t_sub [ss; pp; oo] (spog st) with
      | Some c => map (fun g => mkq ss pp oo g)
                      (filter (fun g => negb (N.eqb g 0) && vis_ok vis g) (keys c))
      | None => slow
      end
  | _, _, _ => slow
  end.

Definition quad_eqb (a b : quad) : bool :=
  N.eqb (qs a) (qs b) && N.eqb (qp a) (qp b) && N.eqb (qo a) (qo b) && N.eqb (qg a) (qg b).

Fixpoint qdedup (l : list quad) : list quad :=
  match l with
  | [] => []
  | q :: l' => if existsb (quad_eqb q) l' then qdedup l' else q :: qdedup l'
  end.

(* query_merged_graphs: triples (rendered with graph 0) of the listed graphs, through a BTreeSet *)
Definition query_merged_graphs (st : state) (gs : list N) (s p o : option N) : list quad :=
  qdedup (map (fun q => mkq (qs q) (qp q) (qo q) 0) (flat_map (fun g => query_graph st g s p o) gs)).

(* QueryBuilder (kolibrie/src/query_builder.rs: apply_filters, get_triples, count) with the
   string filters on subject / predicate / object.  Terms are dictionary strings; under the
   dictionary abstraction (every id of the universe decodes to its own distinct string, property
   C15) the test `decode(id) == s` is `id = encode(s)`.  The builder scans
   query_default_triples(None, None, None) (= query_graph(Default) with the graph dropped), tests
   the subject, then the predicate, then the object filter, and collects the survivors in a
   BTreeSet<Triple>; count() is the size of that set. *)
Definition qb_filter (f : option N) (v : N) : bool :=
  match f with None => true | Some x => N.eqb v x end.
Definition qb_matches (s p o : option N) (q : quad) : bool :=
  if qb_filter s (qs q) then (if qb_filter p (qp q) then qb_filter o (qo q) else false) else false.
Definition query_builder (st : state) (s p o : option N) : list quad :=
  qdedup (filter (qb_matches s p o)
            (map (fun q => mkq (qs q) (qp q) (qo q) 0) (query_graph st 0 None None None))).

Definition query_quads (st : state) (s p o : option N) (g : option N) : list quad :=
  match g with
  | Some gg => query_graph st gg s p o
  | None => query_graph st 0 s p o ++ query_named_graphs st s p o None
  end.

Definition all_quads (st : state) : list quad :=
  flat_map (fun g => query_graph st g None None None) (graphs st).

Definition graphs_for_triple (st : state) (s p o : N) : list N :=
  match t_sub [s; p; o] (spog st) with Some c => keys c | None => [] end.

Definition delete_all (st : state) (l : list quad) : state :=
  fold_left (fun s q => fst (delete_quad s q)) l st.

Definition clear_graph (st : state) (g : N) : state :=
  let st1 := if negb (N.eqb g 0) && graph_exists st g
             then St (gspo st) (gpos st) (gosp st) (spog st) (set_add (N.pred g) (cat st)) else st in
  delete_all st1 (query_graph st1 g None None None).

Definition create_graph (st : state) (g : N) : state * bool :=
  if N.eqb g 0 then (st, false)
  else let existed := graph_exists st g in
       (St (gspo st) (gpos st) (gosp st) (spog st) (set_add (N.pred g) (cat st)), negb existed).

Definition drop_graph (st : state) (g : N) : state * bool :=
  if N.eqb g 0 then (clear_graph st 0, true)
  else if negb (graph_exists st g) then (st, false)
  else let st1 := clear_graph st g in
       (St (gspo st1) (gpos st1) (gosp st1) (spog st1) (set_del (N.pred g) (cat st1)), true).

Definition clear_all (st : state) : state := init.

(* SparqlDatabase::build_all_indexes *)
Definition rebuild (st : state) : state :=
  let quads := all_quads st in
  let ng := named_graphs st in
  let st1 := fold_left (fun s g => fst (create_graph s g)) ng init in
  fold_left (fun s q => fst (insert_quad s q)) quads st1.

Inductive op :=
| Insert (q : quad) | Delete (q : quad) | Create (g : N) | Drop (g : N) | ClearG (g : N)
| ClearAll | Rebuild
| Contains (q : quad)
| QGraph (g : N) (s p o : option N)
| QNamed (s p o : option N) (vis : option (list N))
| QMerged (gs : list N) (s p o : option N)
| QQuads (s p o : option N) (g : option N)
| GExists (g : N) | NamedGraphs | Graphs | AllQuads
| GraphsFor (s p o : N) | LenG (g : N)
| QB (s p o : option N) | QBCount (s p o : option N).

Inductive out :=
| OUnit | OBool (b : bool) | OQuads (l : list quad) | OGraphs (l : list N) | ONum (n : N).

Definition step (st : state) (o : op) : state * out :=
  match o with
  | Insert q => let r := insert_quad st q in (fst r, OBool (snd r))
  | Delete q => let r := delete_quad st q in (fst r, OBool (snd r))
  | Create g => let r := create_graph st g in (fst r, OBool (snd r))
  | Drop g => let r := drop_graph st g in (fst r, OBool (snd r))
  | ClearG g => (clear_graph st g, OUnit)
  | ClearAll => (clear_all st, OUnit)
  | Rebuild => (rebuild st, OUnit)
  | Contains q => (st, OBool (contains_quad st q))
  | QGraph g s p o => (st, OQuads (query_graph st g s p o))
  | QNamed s p o vis => (st, OQuads (query_named_graphs st s p o vis))
  | QMerged gs s p o => (st, OQuads (query_merged_graphs st gs s p o))
  | QQuads s p o g => (st, OQuads (query_quads st s p o g))
  | GExists g => (st, OBool (graph_exists st g))
  | NamedGraphs => (st, OGraphs (named_graphs st))
  | Graphs => (st, OGraphs (graphs st))
  | AllQuads => (st, OQuads (all_quads st))
  | GraphsFor s p o => (st, OGraphs (graphs_for_triple st s p o))
  | LenG g => (st, ONum (N.of_nat (length (query_graph st g None None None))))
  | QB s p o => (st, OQuads (query_builder st s p o))
  | QBCount s p o => (st, ONum (N.of_nat (length (query_builder st s p o))))
  end.

Fixpoint run (st : state) (ops : list op) : state * list out :=
  match ops with
  | [] => (st, [])
  | o :: ops' => let r := step st o in let r' := run (fst r) ops' in (fst r', snd r :: snd r')
  end.
