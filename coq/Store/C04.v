(* C04 - Every read path of the store agrees with the set of quads written.
   This file contains only the property theorems; each is closed by `exact <lemma>` and followed
   by Print Assumptions.  The lemmas live in Proofs.v. *)
Require Import KV.Store.Model KV.Store.Spec KV.Store.Proofs.

(* For every finite history of store operations (mutators and observers in any order, starting
   from the empty store), every output of the four-index implementation model agrees with the
   output of the abstract quad-set specification: booleans and counts are equal, every returned
   list has exactly the specified elements, each once; and the final states are related. *)
Theorem C04_refines :
  forall ops : list op,
    Forall2 out_agree (snd (run init ops)) (snd (srun sinit ops)) /\
    Abs (fst (run init ops)) (fst (srun sinit ops)).
Proof. exact refines. Qed.
Print Assumptions C04_refines.

(* Every lookup shape, after any history: exactly the matching quads of the abstract set, each once. *)
Theorem C04_lookup_exact :
  forall (ops : list op) (g : N) (s p o : option N),
    let st := fst (run init ops) in
    let sp := fst (srun sinit ops) in
    NoDup (query_graph st g s p o) /\
    forall q, In q (query_graph st g s p o) <-> (matches g s p o q = true /\ In q (sq sp)).
Proof. exact lookup_exact. Qed.
Print Assumptions C04_lookup_exact.

(* The QueryBuilder read path (kolibrie/src/query_builder.rs) over the default graph: with any
   combination of subject / predicate / object filters it returns exactly the matching
   default-graph quads of the abstract set, each once, and count() is their number. *)
Theorem C04_query_builder_exact :
  forall (ops : list op) (s p o : option N),
    let st := fst (run init ops) in
    let sp := fst (srun sinit ops) in
    NoDup (query_builder st s p o) /\
    (forall q, In q (query_builder st s p o) <-> (matches 0 s p o q = true /\ In q (sq sp))) /\
    length (query_builder st s p o) = length (s_query_graph sp 0 s p o).
Proof. exact query_builder_exact. Qed.
Print Assumptions C04_query_builder_exact.

(* Named-graph identities: a graph is listed after a history iff some operation created it or
   inserted into it and no later operation dropped it or cleared the whole store. *)
Definition introduces (g : N) (o : op) : bool :=
  match o with
  | Create g' => N.eqb g' (N.succ g)
  | Insert q => N.eqb (qg q) (N.succ g)
  | _ => false
  end.
Definition removes (g : N) (o : op) : bool :=
  match o with
  | Drop g' => N.eqb g' (N.succ g)
  | ClearAll => true
  | _ => false
  end.
Theorem C04_catalog :
  forall (ops : list op) (g : N),
    graph_exists (fst (run init ops)) (N.succ g) = true <->
    exists pre o post, ops = pre ++ o :: post /\ introduces g o = true /\ forallb (fun x => negb (removes g x)) post = true.
Proof. exact catalog_history. Qed.
Print Assumptions C04_catalog.

(* Rebuilding the indexes changes nothing observable. *)
Theorem C04_rebuild :
  forall ops, Abs (rebuild (fst (run init ops))) (fst (srun sinit ops)).
Proof. exact rebuild_abs. Qed.
Print Assumptions C04_rebuild.

(* non-vacuity: a concrete non-trivial history *)
Example C04_example :
  let ops := [Insert (1,2,3,1); Insert (1,2,3,2); Delete (1,2,3,1); Drop 1; QNamed (Some 1) None None None; Graphs] in
  snd (run init ops) = [OBool true; OBool true; OBool true; OBool true; OQuads [(1,2,3,2)]; OGraphs [0; 2]].
Proof. vm_compute. reflexivity. Qed.

Example C04_example_qb :
  let ops := [Insert (1,2,3,0); Insert (1,2,4,0); Insert (1,2,3,2); Insert (2,2,3,0); Delete (1,2,4,0);
              QB (Some 1) None None; QB None (Some 2) (Some 3); QBCount None None None] in
  snd (run init ops) = [OBool true; OBool true; OBool true; OBool true; OBool true;
                        OQuads [(1,2,3,0)]; OQuads [(1,2,3,0); (2,2,3,0)]; ONum 2].
Proof. vm_compute. reflexivity. Qed.
