(* Entry points used by the correspondence check: run the model and the spec on a history and
   render every output as numbers (printed by `Eval vm_compute`). *)
Require Import KV.Store.Model KV.Store.Spec.

Definition rq (q : quad) : list N := [qs q; qp q; qo q; qg q].
Definition ro (o : out) : N * list (list N) :=
  match o with
  | OUnit => (0, [])
  | OBool b => (1, [[if b then 1 else 0]])
  | OQuads l => (2, map rq l)
  | OGraphs l => (3, [l])
  | ONum n => (4, [[n]])
  end.

(* after every operation of the history, run every observer of the battery *)
Fixpoint runb {S} (stp : S -> op -> S * out) (battery : list op) (st : S) (ops : list op) : list (list (N * list (list N))) :=
  match ops with
  | [] => []
  | o :: ops' =>
      let r := stp st o in
      (ro (snd r) :: map (fun b => ro (snd (stp (fst r) b))) battery) :: runb stp battery (fst r) ops'
  end.

Definition model_run (battery ops : list op) := runb step battery init ops.
Definition spec_run (battery ops : list op) := runb sstep battery sinit ops.
