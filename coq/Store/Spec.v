(* The abstract store the property talks about: a set of quads and a catalog of named graphs.
   Every operation has its one-line set-theoretic meaning. *)
Require Export KV.Store.Model.

Record sstate := SSt { sq : list quad; scat : list N }.   (* both used as sets *)
Definition sinit : sstate := SSt [] [].

Definition qmem (q : quad) (l : list quad) : bool := existsb (quad_eqb q) l.
Definition qadd (q : quad) (l : list quad) : list quad := if qmem q l then l else q :: l.
Definition qdel (q : quad) (l : list quad) : list quad := filter (fun x => negb (quad_eqb q x)) l.

Definition opt_ok (x : option N) (v : N) : bool := match x with None => true | Some y => N.eqb y v end.
Definition matches (g : N) (s p o : option N) (q : quad) : bool :=
  N.eqb (qg q) g && opt_ok s (qs q) && opt_ok p (qp q) && opt_ok o (qo q).

Definition s_register (g : N) (c : list N) : list N := if N.eqb g 0 then c else set_add (N.pred g) c.
Definition s_exists (sp : sstate) (g : N) : bool := N.eqb g 0 || set_mem (N.pred g) (scat sp).
Definition s_query_graph (sp : sstate) (g : N) (s p o : option N) : list quad := filter (matches g s p o) (sq sp).
Definition s_clear_graph (sp : sstate) (g : N) : sstate :=
  SSt (filter (fun q => negb (N.eqb (qg q) g)) (sq sp)) (scat sp).

Definition sstep (sp : sstate) (o : op) : sstate * out :=
  match o with
  | Insert q => (SSt (qadd q (sq sp)) (s_register (qg q) (scat sp)), OBool (negb (qmem q (sq sp))))
  | Delete q => (SSt (qdel q (sq sp)) (scat sp), OBool (qmem q (sq sp)))
  | Create g => if N.eqb g 0 then (sp, OBool false)
                else (SSt (sq sp) (set_add (N.pred g) (scat sp)), OBool (negb (set_mem (N.pred g) (scat sp))))
  | Drop g => if N.eqb g 0 then (s_clear_graph sp 0, OBool true)
              else if set_mem (N.pred g) (scat sp)
                   then (SSt (sq (s_clear_graph sp g)) (set_del (N.pred g) (scat sp)), OBool true)
                   else (sp, OBool false)
  | ClearG g => (s_clear_graph sp g, OUnit)
  | ClearAll => (sinit, OUnit)
  | Rebuild => (sp, OUnit)
  | Contains q => (sp, OBool (qmem q (sq sp)))
  | QGraph g s p o => (sp, OQuads (s_query_graph sp g s p o))
  | QNamed s p o vis =>
      (sp, OQuads (filter (fun q => negb (N.eqb (qg q) 0) && vis_ok vis (qg q) && opt_ok s (qs q) && opt_ok p (qp q) && opt_ok o (qo q)) (sq sp)))
  | QMerged gs s p o =>
      (sp, OQuads (qdedup (map (fun q => mkq (qs q) (qp q) (qo q) 0)
                     (filter (fun q => set_mem (qg q) gs && opt_ok s (qs q) && opt_ok p (qp q) && opt_ok o (qo q)) (sq sp)))))
  | QQuads s p o g =>
      (sp, OQuads (filter (fun q => opt_ok g (qg q) && opt_ok s (qs q) && opt_ok p (qp q) && opt_ok o (qo q)) (sq sp)))
  | GExists g => (sp, OBool (s_exists sp g))
  | NamedGraphs => (sp, OGraphs (map N.succ (scat sp)))
  | Graphs => (sp, OGraphs (0 :: map N.succ (scat sp)))
  | AllQuads => (sp, OQuads (sq sp))
  | GraphsFor s p o => (sp, OGraphs (map qg (filter (fun q => N.eqb (qs q) s && N.eqb (qp q) p && N.eqb (qo q) o) (sq sp))))
  | LenG g => (sp, ONum (N.of_nat (length (s_query_graph sp g None None None))))
  | QB s p o => (sp, OQuads (s_query_graph sp 0 s p o))
  | QBCount s p o => (sp, ONum (N.of_nat (length (s_query_graph sp 0 s p o))))
  end.

Fixpoint srun (sp : sstate) (ops : list op) : sstate * list out :=
  match ops with
  | [] => (sp, [])
  | o :: ops' => let r := sstep sp o in let r' := srun (fst r) ops' in (fst r', snd r :: snd r')
  end.

(* "returns exactly ..., each once": same elements, no repetition on either side *)
Definition same_set {A} (a b : list A) : Prop := NoDup a /\ NoDup b /\ forall x, In x a <-> In x b.

Definition out_agree (a b : out) : Prop :=
  match a, b with
  | OUnit, OUnit => True
  | OBool x, OBool y => x = y
  | ONum x, ONum y => x = y
  | OQuads x, OQuads y => same_set x y
  | OGraphs x, OGraphs y => same_set x y
  | _, _ => False
  end.
