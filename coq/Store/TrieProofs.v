(* Lemmas about association lists and the pruned tries of Trie.v. *)
Require Import KV.Store.Trie.
Require Import Lia ZifyBool ZifyN.
Local Arguments N.eqb : simpl never.

(* ---------- generic list lemmas ---------- *)

Lemma NoDup_app_intro {A} (l1 l2 : list A) :
  NoDup l1 -> NoDup l2 -> (forall x, In x l1 -> In x l2 -> False) -> NoDup (l1 ++ l2).
Proof.
  induction l1 as [|a l1 IH]; cbn [app]; intros H1 H2 Hd; [exact H2|].
  inversion H1 as [|? ? Hna H1']; subst.
  constructor.
  - rewrite in_app_iff. intros [H|H]; [tauto|]. apply (Hd a); [now left|exact H].
  - apply IH; auto. intros x Hx1 Hx2. apply (Hd x); [now right|exact Hx2].
Qed.

Lemma NoDup_flat_map {A B} (f : A -> list B) (l : list A) :
  NoDup l ->
  (forall x, In x l -> NoDup (f x)) ->
  (forall x y b, In x l -> In y l -> In b (f x) -> In b (f y) -> x = y) ->
  NoDup (flat_map f l).
Proof.
  induction l as [|a l IH]; cbn [flat_map]; intros Hnd Hf Hdis; [constructor|].
  inversion Hnd as [|? ? Hna Hnd']; subst.
  apply NoDup_app_intro.
  - apply Hf. now left.
  - apply IH; auto.
    + intros x Hx. apply Hf. now right.
    + intros x y b Hx Hy. apply Hdis; now right.
  - intros b Hb1 Hb2. apply in_flat_map in Hb2. destruct Hb2 as [y [Hy Hby]].
    assert (a = y) as -> by (apply (Hdis a y b); auto; [now left|now right]).
    tauto.
Qed.

Lemma NoDup_map_inj_on {A B} (f : A -> B) (l : list A) :
  NoDup l -> (forall x y, In x l -> In y l -> f x = f y -> x = y) -> NoDup (map f l).
Proof.
  induction l as [|a l IH]; cbn [map]; intros Hnd Hinj; [constructor|].
  inversion Hnd as [|? ? Hna Hnd']; subst.
  constructor.
  - intros Hin. apply in_map_iff in Hin. destruct Hin as [y [Hfy Hy]].
    assert (y = a) as -> by (apply Hinj; auto; [now right|now left]).
    tauto.
  - apply IH; auto. intros x y Hx Hy. apply Hinj; now right.
Qed.

(* ---------- association lists ---------- *)

Section AssocLemmas.
  Context {V : Type}.
  Implicit Types (m : list (N * V)).

  Lemma aget_in k v m : aget k m = Some v -> In (k, v) m.
  Proof.
    induction m as [|[k' v'] m IH]; cbn [aget]; [discriminate|].
    destruct (N.eqb_spec k k') as [->|Hne]; intros H.
    - injection H as ->. now left.
    - right; auto.
  Qed.

  Lemma aget_none k m : aget k m = None <-> ~ In k (map fst m).
  Proof.
    induction m as [|[k' v'] m IH]; cbn [aget map fst In].
    - tauto.
    - destruct (N.eqb_spec k k') as [->|Hne].
      + split; [discriminate|]. intros H; exfalso; apply H; now left.
      + rewrite IH. split; intros H; [intros [E|E]; [congruence|tauto]| tauto].
  Qed.

  Lemma aget_some_key k m : aget k m <> None <-> In k (map fst m).
  Proof.
    destruct (in_dec N.eq_dec k (map fst m)) as [Hin|Hnin].
    - split; [auto|]. intros _ H. apply aget_none in H. tauto.
    - split; [|tauto]. intros H. exfalso. apply H. apply aget_none. exact Hnin.
  Qed.

  Lemma in_aget k v m : NoDup (map fst m) -> In (k, v) m -> aget k m = Some v.
  Proof.
    induction m as [|[k' v'] m IH]; cbn [aget map fst In]; [tauto|].
    intros Hnd [E|Hin].
    - injection E as -> ->. now rewrite N.eqb_refl.
    - inversion Hnd as [|? ? Hnotin Hnd']; subst.
      destruct (N.eqb_spec k k') as [->|Hne].
      + exfalso. apply Hnotin. apply (in_map fst) in Hin. exact Hin.
      + auto.
  Qed.

  Lemma aget_aset k' k v m : aget k' (aset k v m) = if N.eqb k' k then Some v else aget k' m.
  Proof.
    induction m as [|[k0 v0] m IH]; cbn [aset aget].
    - reflexivity.
    - destruct (N.eqb_spec k k0) as [->|Hne]; cbn [aget].
      + destruct (N.eqb_spec k' k0); reflexivity.
      + rewrite IH. destruct (N.eqb_spec k' k0) as [->|Hne']; [|reflexivity].
        destruct (N.eqb_spec k0 k); [congruence|reflexivity].
  Qed.

  Lemma aget_adel k' k m :
    NoDup (map fst m) -> aget k' (adel k m) = if N.eqb k' k then None else aget k' m.
  Proof.
    induction m as [|[k0 v0] m IH]; cbn [adel aget map fst]; intros Hnd.
    - destruct (N.eqb k' k); reflexivity.
    - inversion Hnd as [|? ? Hnotin Hnd']; subst.
      destruct (N.eqb_spec k k0) as [->|Hne]; cbn [aget].
      + destruct (N.eqb_spec k' k0) as [->|Hne']; [|reflexivity].
        apply aget_none. exact Hnotin.
      + rewrite IH by assumption. destruct (N.eqb_spec k' k0) as [->|Hne']; [|reflexivity].
        destruct (N.eqb_spec k0 k); [congruence|reflexivity].
  Qed.

  Lemma in_keys_aset x k v m : In x (map fst (aset k v m)) <-> x = k \/ In x (map fst m).
  Proof.
    induction m as [|[k0 v0] m IH]; cbn [aset map fst In].
    - intuition congruence.
    - destruct (N.eqb_spec k k0) as [->|Hne]; cbn [map fst In].
      + intuition congruence.
      + rewrite IH. intuition congruence.
  Qed.

  Lemma NoDup_keys_aset k v m : NoDup (map fst m) -> NoDup (map fst (aset k v m)).
  Proof.
    induction m as [|[k0 v0] m IH]; cbn [aset map fst]; intros Hnd.
    - constructor; [intros []|constructor].
    - inversion Hnd as [|? ? Hnotin Hnd']; subst.
      destruct (N.eqb_spec k k0) as [->|Hne]; cbn [map fst].
      + constructor; assumption.
      + constructor; [|auto]. rewrite in_keys_aset. intros [E|E]; [congruence|tauto].
  Qed.

  Lemma in_aset k' v' k v m : In (k', v') (aset k v m) -> (k' = k /\ v' = v) \/ In (k', v') m.
  Proof.
    induction m as [|[k0 v0] m IH]; cbn [aset In].
    - intros [E|[]]. injection E as <- <-. now left.
    - destruct (N.eqb_spec k k0) as [->|Hne]; cbn [In].
      + intros [E|H]; [injection E as <- <-; now left|now right; right].
      + intros [E|H]; [now right; left|]. destruct (IH H) as [?|?]; [now left|now right; right].
  Qed.

  Lemma aset_nonempty k v m : aset k v m <> [].
  Proof.
    destruct m as [|[k0 v0] m]; cbn [aset]; [discriminate|].
    destruct (N.eqb k k0); discriminate.
  Qed.

  Lemma in_adel x k m : In x (adel k m) -> In x m.
  Proof.
    induction m as [|[k0 v0] m IH]; cbn [adel In]; [tauto|].
    destruct (N.eqb k k0); cbn [In]; intuition.
  Qed.

  Lemma in_keys_adel x k m : In x (map fst (adel k m)) -> In x (map fst m).
  Proof.
    induction m as [|[k0 v0] m IH]; cbn [adel map fst In]; [tauto|].
    destruct (N.eqb k k0); cbn [map fst In]; intuition.
  Qed.

  Lemma NoDup_keys_adel k m : NoDup (map fst m) -> NoDup (map fst (adel k m)).
  Proof.
    induction m as [|[k0 v0] m IH]; cbn [adel map fst]; intros Hnd; [constructor|].
    inversion Hnd as [|? ? Hnotin Hnd']; subst.
    destruct (N.eqb k k0); cbn [map fst]; [assumption|].
    constructor; [|auto]. intros H. apply in_keys_adel in H. tauto.
  Qed.
End AssocLemmas.

(* ---------- tries ---------- *)

Fixpoint wf (d : nat) (t : trie) : Prop :=
  match d with
  | O => True
  | S d' => NoDup (keys t) /\
            forall k c, In (k, c) (ents t) -> wf d' c /\ (d' <> O -> t_isempty c = false)
  end.

Lemma wf_empty d : wf d t_empty.
Proof.
  destruct d; cbn; [exact I|]. split; [constructor|intros k c []].
Qed.

Lemma t_mem_nil t : t_mem [] t = true.
Proof. reflexivity. Qed.

Lemma t_mem_cons k ks t :
  t_mem (k :: ks) t = match aget k (ents t) with Some c => t_mem ks c | None => false end.
Proof.
  unfold t_mem. cbn [t_sub]. destruct (aget k (ents t)); reflexivity.
Qed.

Lemma t_mem_empty k ks : t_mem (k :: ks) t_empty = false.
Proof. reflexivity. Qed.

Lemma t_isempty_mem k ks t : t_isempty t = true -> t_mem (k :: ks) t = false.
Proof.
  destruct t as [m]. unfold t_isempty. cbn [ents]. destruct m; [reflexivity|discriminate].
Qed.

Lemma t_isempty_aset k v m : t_isempty (Node (aset k v m)) = false.
Proof.
  unfold t_isempty. cbn [ents]. pose proof (aset_nonempty k v m) as H.
  destruct (aset k v m); [congruence|reflexivity].
Qed.

Lemma t_mem_insert ks :
  forall ks' t, length ks = length ks' ->
    (t_mem ks' (t_insert ks t) = true <-> ks = ks' \/ t_mem ks' t = true).
Proof.
  induction ks as [|k ks IH]; intros [|k' ks'] t Hlen; cbn [length] in Hlen; try discriminate.
  - cbn [t_insert]. rewrite t_mem_nil. tauto.
  - injection Hlen as Hlen. cbn [t_insert]. rewrite !t_mem_cons. cbn [ents].
    rewrite aget_aset. destruct (N.eqb_spec k' k) as [->|Hne].
    + rewrite (IH ks' _ Hlen). destruct (aget k (ents t)) as [c|] eqn:E.
      * split; (intros [H|H]; [left; congruence|now right]).
      * split.
        -- intros [H|H]; [left; congruence|]. destruct ks'; [|discriminate].
           destruct ks; [now left|discriminate].
        -- intros [H|H]; [left; congruence|discriminate].
    + split; [tauto|]. intros [H|H]; [congruence|exact H].
Qed.

Lemma t_mem_remove ks :
  forall ks' t, ks <> [] -> length ks = length ks' -> wf (length ks) t ->
    (t_mem ks' (t_remove ks t) = true <-> ks <> ks' /\ t_mem ks' t = true).
Proof.
  induction ks as [|k ks IH]; intros [|k' ks'] t Hne Hlen Hwf; cbn [length] in Hlen;
    try discriminate; try congruence.
  injection Hlen as Hlen. cbn [length] in Hwf. destruct Hwf as [Hnd Hch].
  cbn [t_remove]. destruct (aget k (ents t)) as [c|] eqn:E.
  - assert (Hin : In (k, c) (ents t)) by (apply aget_in; exact E).
    destruct (Hch _ _ Hin) as [Hwfc Hnec].
    destruct ks as [|k2 ks].
    + destruct ks'; [|discriminate]. rewrite !t_mem_cons. cbn [ents].
      rewrite aget_adel by exact Hnd.
      destruct (N.eqb_spec k' k) as [->|Hne'].
      * split; [discriminate|]. intros [H _]. congruence.
      * destruct (aget k' (ents t)); [|intuition discriminate].
        rewrite t_mem_nil. split; [|tauto]. intros _. split; [congruence|reflexivity].
    + assert (IH' := IH ks' c ltac:(discriminate) Hlen Hwfc).
      destruct (t_isempty (t_remove (k2 :: ks) c)) eqn:Eem.
      * rewrite !t_mem_cons. cbn [ents]. rewrite aget_adel by exact Hnd.
        destruct (N.eqb_spec k' k) as [->|Hne'].
        -- rewrite E. split; [discriminate|]. intros [Hneq Hm]. exfalso.
           assert (Hx : t_mem ks' (t_remove (k2 :: ks) c) = true)
             by (apply IH'; split; [congruence|exact Hm]).
           destruct ks' as [|k3 ks']; [discriminate|].
           rewrite (t_isempty_mem _ _ _ Eem) in Hx. discriminate.
        -- destruct (aget k' (ents t)); [|intuition discriminate].
           split; [|tauto]. intros H. split; [congruence|exact H].
      * rewrite !t_mem_cons. cbn [ents]. rewrite aget_aset.
        destruct (N.eqb_spec k' k) as [->|Hne'].
        -- rewrite E, IH'. split; intros [H1 H2]; (split; [congruence|exact H2]).
        -- destruct (aget k' (ents t)); [|intuition discriminate].
           split; [|tauto]. intros H. split; [congruence|exact H].
  - rewrite !t_mem_cons. split; [|tauto]. intros H. split; [|exact H].
    intros Heq. injection Heq as <- <-. rewrite E in H. discriminate.
Qed.

Lemma wf_insert ks : forall t, wf (length ks) t -> wf (length ks) (t_insert ks t).
Proof.
  induction ks as [|k ks IH]; intros t Hwf; [exact Hwf|].
  cbn [length] in *. destruct Hwf as [Hnd Hch]. cbn [t_insert wf]. split.
  - unfold keys in *. cbn [ents]. apply NoDup_keys_aset. exact Hnd.
  - cbn [ents]. intros k0 c0 Hin. apply in_aset in Hin. destruct Hin as [[-> ->]|Hin]; [|exact (Hch _ _ Hin)].
    split.
    + apply IH. destruct (aget k (ents t)) as [c|] eqn:E; [|apply wf_empty].
      apply aget_in in E. apply (Hch _ _ E).
    + intros Hd. destruct ks as [|k2 ks]; [cbn [length] in Hd; congruence|].
      cbn [t_insert]. apply t_isempty_aset.
Qed.

Lemma wf_remove ks : forall t, wf (length ks) t -> wf (length ks) (t_remove ks t).
Proof.
  induction ks as [|k ks IH]; intros t Hwf; [exact Hwf|].
  cbn [t_remove]. destruct (aget k (ents t)) as [c|] eqn:E; [|exact Hwf].
  cbn [length] in *. destruct Hwf as [Hnd Hch].
  assert (Hdel : wf (S (length ks)) (Node (adel k (ents t)))).
  { cbn [wf]. split.
    - unfold keys in *. cbn [ents]. apply NoDup_keys_adel. exact Hnd.
    - cbn [ents]. intros k0 c0 Hin. apply in_adel in Hin. exact (Hch _ _ Hin). }
  destruct ks as [|k2 ks]; [exact Hdel|].
  destruct (t_isempty (t_remove (k2 :: ks) c)) eqn:Eem; [exact Hdel|].
  cbn [wf]. split.
  - unfold keys in *. cbn [ents]. apply NoDup_keys_aset. exact Hnd.
  - cbn [ents]. intros k0 c0 Hin. apply in_aset in Hin. destruct Hin as [[-> ->]|Hin]; [|exact (Hch _ _ Hin)].
    split; [|intros _; exact Eem]. apply IH. apply aget_in in E. apply (Hch _ _ E).
Qed.

Lemma in_paths d :
  forall t ks, wf d t -> (In ks (paths d t) <-> length ks = d /\ t_mem ks t = true).
Proof.
  induction d as [|d IH]; intros t ks Hwf.
  - cbn [paths In]. split.
    + intros [<-|[]]. split; reflexivity.
    + intros [Hl _]. destruct ks; [now left|discriminate].
  - cbn [paths]. destruct Hwf as [Hnd Hch]. rewrite in_flat_map. split.
    + intros [[k c] [Hin Hm]]. cbn [fst snd] in Hm. apply in_map_iff in Hm.
      destruct Hm as [r [<- Hr]]. apply (IH c r (proj1 (Hch _ _ Hin))) in Hr.
      destruct Hr as [Hl Hm]. split; [cbn [length]; congruence|].
      rewrite t_mem_cons. rewrite (in_aget _ _ _ Hnd Hin). exact Hm.
    + intros [Hl Hm]. destruct ks as [|k r]; [discriminate|]. injection Hl as Hl.
      rewrite t_mem_cons in Hm. destruct (aget k (ents t)) as [c|] eqn:E; [|discriminate].
      apply aget_in in E. exists (k, c). split; [exact E|]. cbn [fst snd].
      apply in_map. apply (IH c r (proj1 (Hch _ _ E))). split; assumption.
Qed.

Lemma NoDup_of_keys {V} (m : list (N * V)) : NoDup (map fst m) -> NoDup m.
Proof. apply NoDup_map_inv. Qed.

Lemma NoDup_paths d : forall t, wf d t -> NoDup (paths d t).
Proof.
  induction d as [|d IH]; intros t Hwf; cbn [paths].
  - constructor; [intros []|constructor].
  - destruct Hwf as [Hnd Hch]. apply NoDup_flat_map.
    + apply NoDup_of_keys. exact Hnd.
    + intros [k c] Hin. cbn [fst snd]. apply NoDup_map_inj_on.
      * apply IH. apply (Hch _ _ Hin).
      * intros x y _ _ H. congruence.
    + intros [k1 c1] [k2 c2] b H1 H2 Hb1 Hb2. cbn [fst snd] in *.
      apply in_map_iff in Hb1. destruct Hb1 as [r1 [<- _]].
      apply in_map_iff in Hb2. destruct Hb2 as [r2 [Heq _]]. injection Heq as -> _.
      pose proof (in_aget _ _ _ Hnd H1) as E1. pose proof (in_aget _ _ _ Hnd H2) as E2.
      congruence.
Qed.

Lemma t_sub_app pre : forall rest t,
  t_sub (pre ++ rest) t = match t_sub pre t with Some c => t_sub rest c | None => None end.
Proof.
  induction pre as [|k pre IH]; intros rest t; cbn [app t_sub]; [reflexivity|].
  destruct (aget k (ents t)); [apply IH|reflexivity].
Qed.

Lemma t_mem_app pre rest t :
  t_mem (pre ++ rest) t = match t_sub pre t with Some c => t_mem rest c | None => false end.
Proof.
  unfold t_mem. rewrite t_sub_app. destruct (t_sub pre t); reflexivity.
Qed.

Lemma wf_sub pre : forall d t c, wf (length pre + d) t -> t_sub pre t = Some c -> wf d c.
Proof.
  induction pre as [|k pre IH]; intros d t c Hwf Hs; cbn [t_sub length Nat.add] in *.
  - injection Hs as <-. exact Hwf.
  - destruct (aget k (ents t)) as [c0|] eqn:E; [|discriminate].
    destruct Hwf as [_ Hch]. apply aget_in in E. apply (IH d c0 c); [apply (Hch _ _ E)|exact Hs].
Qed.

Lemma wf_witness d : forall t, wf d t -> (d <> O -> t_isempty t = false) ->
  exists ks, length ks = d /\ t_mem ks t = true.
Proof.
  induction d as [|d IH]; intros t Hwf Hne.
  - exists []. split; reflexivity.
  - destruct Hwf as [_ Hch]. specialize (Hne ltac:(discriminate)).
    destruct t as [m]. unfold t_isempty in Hne. cbn [ents] in *.
    destruct m as [|[k c] m]; [discriminate|].
    destruct (Hch k c ltac:(now left)) as [Hwfc Hnec].
    destruct (IH c Hwfc Hnec) as [ks [Hl Hm]].
    exists (k :: ks). split; [cbn [length]; congruence|].
    rewrite t_mem_cons. cbn [ents aget]. rewrite N.eqb_refl. exact Hm.
Qed.

Lemma root_key d t k : wf (S d) t ->
  (In k (keys t) <-> exists ks, length ks = d /\ t_mem (k :: ks) t = true).
Proof.
  intros Hwf. unfold keys. rewrite <- aget_some_key. destruct Hwf as [_ Hch]. split.
  - intros H. destruct (aget k (ents t)) as [c|] eqn:E; [|congruence].
    pose proof (aget_in _ _ _ E) as Hin. destruct (Hch _ _ Hin) as [Hwfc Hnec].
    destruct (wf_witness d c Hwfc Hnec) as [ks [Hl Hm]].
    exists ks. split; [exact Hl|]. rewrite t_mem_cons, E. exact Hm.
  - intros [ks [_ Hm]]. rewrite t_mem_cons in Hm.
    destruct (aget k (ents t)); [discriminate|discriminate].
Qed.

Lemma in_keys_mem t k : In k (keys t) <-> t_mem [k] t = true.
Proof.
  unfold keys. rewrite <- aget_some_key, t_mem_cons.
  destruct (aget k (ents t)); [rewrite t_mem_nil|]; split; congruence.
Qed.
