(* C04: the four-index store model refines the abstract quad set.  Lemmas only; the property
   theorems are stated in C04.v. *)
Require Import KV.Store.Model KV.Store.Spec KV.Store.TrieProofs.
Require Import Lia ZifyBool ZifyN.
Local Arguments N.eqb : simpl never.

(* ---------- sets as lists ---------- *)

Lemma in_set_add y x l : In y (set_add x l) <-> y = x \/ In y l.
Proof.
  induction l as [|z l IH]; cbn [set_add In].
  - intuition.
  - destruct (N.eqb_spec x z) as [->|Hne]; cbn [In].
    + intuition.
    + rewrite IH. intuition.
Qed.

Lemma NoDup_set_add x l : NoDup l -> NoDup (set_add x l).
Proof.
  induction l as [|z l IH]; cbn [set_add]; intros Hnd.
  - constructor; [intros []|constructor].
  - destruct (N.eqb_spec x z) as [->|Hne]; [exact Hnd|].
    inversion Hnd as [|? ? Hnotin Hnd']; subst. constructor; [|auto].
    rewrite in_set_add. intros [E|E]; [congruence|tauto].
Qed.

Lemma set_add_in_id x l : In x l -> set_add x l = l.
Proof.
  induction l as [|z l IH]; cbn [set_add In]; [tauto|].
  destruct (N.eqb_spec x z) as [->|Hne]; [reflexivity|].
  intros [E|H]; [congruence|]. now rewrite IH.
Qed.

Lemma in_set_del_weak y x l : In y (set_del x l) -> In y l.
Proof.
  induction l as [|z l IH]; cbn [set_del In]; [tauto|].
  destruct (N.eqb x z); cbn [In]; intuition.
Qed.

Lemma in_set_del y x l : NoDup l -> (In y (set_del x l) <-> y <> x /\ In y l).
Proof.
  induction l as [|z l IH]; cbn [set_del In]; intros Hnd; [tauto|].
  inversion Hnd as [|? ? Hnotin Hnd']; subst.
  destruct (N.eqb_spec x z) as [->|Hne]; cbn [In].
  - split; [intros H; split; [congruence|now right]|].
    intros [H1 [H2|H2]]; [congruence|exact H2].
  - rewrite (IH Hnd'). split.
    + intros [E|[H1 H2]]; [split; [congruence|now left]|split; [exact H1|now right]].
    + intros [H1 [H2|H2]]; [now left|right; split; assumption].
Qed.

Lemma NoDup_set_del x l : NoDup l -> NoDup (set_del x l).
Proof.
  induction l as [|z l IH]; cbn [set_del]; intros Hnd; [constructor|].
  inversion Hnd as [|? ? Hnotin Hnd']; subst.
  destruct (N.eqb x z); [exact Hnd'|]. constructor; [|auto].
  intros H. apply in_set_del_weak in H. tauto.
Qed.

Lemma set_mem_in x l : set_mem x l = true <-> In x l.
Proof.
  unfold set_mem. rewrite existsb_exists. split.
  - intros [y [Hy E]]. apply N.eqb_eq in E. congruence.
  - intros H. exists x. split; [exact H|apply N.eqb_refl].
Qed.

Lemma set_mem_iff_eq x l l' : (In x l <-> In x l') -> set_mem x l = set_mem x l'.
Proof.
  intros H. apply eq_true_iff_eq. rewrite !set_mem_in. exact H.
Qed.

Lemma in_union_add y xs : forall l, In y (union_add xs l) <-> In y xs \/ In y l.
Proof.
  induction xs as [|x xs IH]; intros l; cbn [union_add In]; [tauto|].
  rewrite IH, in_set_add. intuition.
Qed.

Lemma NoDup_union_add xs : forall l, NoDup l -> NoDup (union_add xs l).
Proof.
  induction xs as [|x xs IH]; intros l Hnd; cbn [union_add]; [exact Hnd|].
  apply IH. apply NoDup_set_add. exact Hnd.
Qed.

Lemma same_set_length {A} (a b : list A) : same_set a b -> length a = length b.
Proof.
  intros [Ha [Hb Hab]].
  assert (H1 : (length a <= length b)%nat)
    by (apply NoDup_incl_length; [exact Ha|intros x Hx; apply Hab; exact Hx]).
  assert (H2 : (length b <= length a)%nat)
    by (apply NoDup_incl_length; [exact Hb|intros x Hx; apply Hab; exact Hx]).
  lia.
Qed.

(* ---------- quads ---------- *)

Lemma quad_eqb_eq a b : quad_eqb a b = true <-> a = b.
Proof.
  destruct a as [[[s p] o] g], b as [[[s' p'] o'] g']. unfold quad_eqb, qs, qp, qo, qg.
  cbn [fst snd]. split.
  - intros H. assert (s = s' /\ p = p' /\ o = o' /\ g = g') as [-> [-> [-> ->]]] by lia.
    reflexivity.
  - intros H. injection H as -> -> -> ->. rewrite !N.eqb_refl. reflexivity.
Qed.

Lemma qmem_in q l : qmem q l = true <-> In q l.
Proof.
  unfold qmem. rewrite existsb_exists. split.
  - intros [y [Hy E]]. apply quad_eqb_eq in E. congruence.
  - intros H. exists q. split; [exact H|]. apply quad_eqb_eq. reflexivity.
Qed.

Lemma in_qadd x q l : In x (qadd q l) <-> x = q \/ In x l.
Proof.
  unfold qadd. destruct (qmem q l) eqn:E; cbn [In].
  - apply qmem_in in E. intuition congruence.
  - intuition.
Qed.

Lemma NoDup_qadd q l : NoDup l -> NoDup (qadd q l).
Proof.
  unfold qadd. destruct (qmem q l) eqn:E; [auto|]. intros H. constructor; [|exact H].
  intros Hin. apply qmem_in in Hin. congruence.
Qed.

Lemma in_qdel x q l : In x (qdel q l) <-> x <> q /\ In x l.
Proof.
  unfold qdel. rewrite filter_In. split.
  - intros [H1 H2]. split; [|exact H1]. intros ->.
    assert (quad_eqb q q = true) by (apply quad_eqb_eq; reflexivity).
    destruct (quad_eqb q q); discriminate.
  - intros [H1 H2]. split; [exact H2|].
    destruct (quad_eqb q x) eqn:E; [|reflexivity]. apply quad_eqb_eq in E. congruence.
Qed.

Lemma in_qdedup x l : In x (qdedup l) <-> In x l.
Proof.
  induction l as [|q l IH]; cbn [qdedup In]; [tauto|].
  destruct (existsb (quad_eqb q) l) eqn:E; cbn [In]; rewrite IH.
  - change (qmem q l = true) in E. apply qmem_in in E. intuition congruence.
  - tauto.
Qed.

Lemma NoDup_qdedup l : NoDup (qdedup l).
Proof.
  induction l as [|q l IH]; cbn [qdedup]; [constructor|].
  destruct (existsb (quad_eqb q) l) eqn:E; [exact IH|].
  constructor; [|exact IH]. rewrite in_qdedup. intros H.
  change (qmem q l = false) in E. apply qmem_in in H. congruence.
Qed.

(* ---------- the invariant of the four indexes ---------- *)

Definition has (st : state) (q : quad) : Prop := contains_quad st q = true.

Record Inv (st : state) : Prop := {
  inv_wf1 : wf 4 (gspo st);
  inv_wf2 : wf 4 (gpos st);
  inv_wf3 : wf 4 (gosp st);
  inv_wf4 : wf 4 (spog st);
  inv_gspo : forall s p o g,
      t_mem [g; s; p; o] (gspo st) = true <-> t_mem [s; p; o; g] (spog st) = true;
  inv_gpos : forall s p o g,
      t_mem [g; p; o; s] (gpos st) = true <-> t_mem [s; p; o; g] (spog st) = true;
  inv_gosp : forall s p o g,
      t_mem [g; o; s; p] (gosp st) = true <-> t_mem [s; p; o; g] (spog st) = true;
  inv_nd : NoDup (cat st);
  inv_cat : forall s p o g,
      t_mem [s; p; o; g] (spog st) = true -> g <> 0 -> In (N.pred g) (cat st)
}.

Lemma has_eq st s p o g : has st (s, p, o, g) <-> t_mem [s; p; o; g] (spog st) = true.
Proof. reflexivity. Qed.

Lemma Inv_init : Inv init.
Proof.
  constructor; cbn [init gspo gpos gosp spog cat]; try apply wf_empty;
    try (intros; rewrite !t_mem_empty; tauto).
  - constructor.
  - intros s p o g H. rewrite t_mem_empty in H. discriminate.
Qed.

Lemma NoDup_register g c : NoDup c -> NoDup (register_graph g c).
Proof.
  unfold register_graph. destruct (N.eqb g 0); [auto|apply NoDup_set_add].
Qed.

Lemma in_register x g c : In x (register_graph g c) <-> (g <> 0 /\ x = N.pred g) \/ In x c.
Proof.
  unfold register_graph. destruct (N.eqb_spec g 0) as [->|Hne].
  - intuition.
  - rewrite in_set_add. intuition.
Qed.

Lemma register_id g c : (g <> 0 -> In (N.pred g) c) -> register_graph g c = c.
Proof.
  unfold register_graph. destruct (N.eqb_spec g 0) as [->|Hne]; [reflexivity|].
  intros H. apply set_add_in_id. auto.
Qed.

Lemma insert_spec st q : Inv st ->
  Inv (fst (insert_quad st q)) /\
  (forall q', has (fst (insert_quad st q)) q' <-> q' = q \/ has st q') /\
  cat (fst (insert_quad st q)) = register_graph (qg q) (cat st) /\
  snd (insert_quad st q) = negb (contains_quad st q).
Proof.
  intros HI. destruct q as [[[s p] o] g]. unfold insert_quad, has, contains_quad.
  cbn [qs qp qo qg fst snd gspo gpos gosp spog cat].
  destruct (t_mem [s; p; o; g] (spog st)) eqn:E; cbn [fst snd gspo gpos gosp spog cat].
  - split; [|split; [|split; reflexivity]].
    + destruct HI. constructor; cbn [gspo gpos gosp spog cat]; auto.
      * apply NoDup_register; assumption.
      * intros s' p' o' g' H Hg. apply in_register. right. eauto.
    + intros [[[s' p'] o'] g']. cbn [qs qp qo qg fst snd]. split; [tauto|].
      intros [H|H]; [injection H as -> -> -> ->; exact E|exact H].
  - split; [|split; [|split; reflexivity]].
    + destruct HI. constructor; cbn [gspo gpos gosp spog cat].
      * apply (wf_insert [g; s; p; o]); assumption.
      * apply (wf_insert [g; p; o; s]); assumption.
      * apply (wf_insert [g; o; s; p]); assumption.
      * apply (wf_insert [s; p; o; g]); assumption.
      * intros s' p' o' g'. rewrite !t_mem_insert by reflexivity. rewrite inv_gspo0.
        split; (intros [H|H]; [left; congruence|now right]).
      * intros s' p' o' g'. rewrite !t_mem_insert by reflexivity. rewrite inv_gpos0.
        split; (intros [H|H]; [left; congruence|now right]).
      * intros s' p' o' g'. rewrite !t_mem_insert by reflexivity. rewrite inv_gosp0.
        split; (intros [H|H]; [left; congruence|now right]).
      * apply NoDup_register; assumption.
      * intros s' p' o' g'. rewrite t_mem_insert by reflexivity. intros [H|H] Hg.
        -- injection H as <- <- <- <-. apply in_register. left. split; [exact Hg|reflexivity].
        -- apply in_register. right. eauto.
    + intros [[[s' p'] o'] g']. cbn [qs qp qo qg fst snd]. rewrite t_mem_insert by reflexivity.
      split; (intros [H|H]; [left; injection H; intros; subst; reflexivity|now right]).
Qed.

Lemma delete_spec st q : Inv st ->
  Inv (fst (delete_quad st q)) /\
  (forall q', has (fst (delete_quad st q)) q' <-> q' <> q /\ has st q') /\
  cat (fst (delete_quad st q)) = cat st /\
  snd (delete_quad st q) = contains_quad st q.
Proof.
  intros HI. destruct q as [[[s p] o] g]. unfold delete_quad, has, contains_quad.
  cbn [qs qp qo qg fst snd].
  destruct (t_mem [s; p; o; g] (spog st)) eqn:E; cbn [negb fst snd gspo gpos gosp spog cat].
  - assert (Hreg : register_graph g (cat st) = cat st).
    { apply register_id. intros Hg. destruct HI. eauto. }
    split; [|split; [|split; [exact Hreg|reflexivity]]].
    + destruct HI. constructor; cbn [gspo gpos gosp spog cat].
      * apply (wf_remove [g; s; p; o]); assumption.
      * apply (wf_remove [g; p; o; s]); assumption.
      * apply (wf_remove [g; o; s; p]); assumption.
      * apply (wf_remove [s; p; o; g]); assumption.
      * intros s' p' o' g'.
        rewrite !t_mem_remove by (try discriminate; try reflexivity; assumption).
        rewrite inv_gspo0. split; (intros [H1 H2]; split; [congruence|exact H2]).
      * intros s' p' o' g'.
        rewrite !t_mem_remove by (try discriminate; try reflexivity; assumption).
        rewrite inv_gpos0. split; (intros [H1 H2]; split; [congruence|exact H2]).
      * intros s' p' o' g'.
        rewrite !t_mem_remove by (try discriminate; try reflexivity; assumption).
        rewrite inv_gosp0. split; (intros [H1 H2]; split; [congruence|exact H2]).
      * rewrite Hreg. assumption.
      * intros s' p' o' g'.
        rewrite t_mem_remove by (try discriminate; try reflexivity; assumption).
        intros [_ H] Hg. rewrite Hreg. eauto.
    + intros [[[s' p'] o'] g']. cbn [qs qp qo qg fst snd].
      rewrite t_mem_remove by (try discriminate; try reflexivity; apply HI).
      split; (intros [H1 H2]; split;
              [intros Heq; apply H1; injection Heq; intros; subst; reflexivity|exact H2]).
  - split; [exact HI|split; [|split; reflexivity]].
    intros [[[s' p'] o'] g']. cbn [qs qp qo qg fst snd]. split; [|tauto].
    intros H. split; [|exact H]. intros Heq. injection Heq as -> -> -> ->.
    rewrite E in H. discriminate.
Qed.

Lemma create_spec st g : Inv st ->
  Inv (fst (create_graph st g)) /\
  (forall q, has (fst (create_graph st g)) q <-> has st q) /\
  cat (fst (create_graph st g)) = (if N.eqb g 0 then cat st else set_add (N.pred g) (cat st)).
Proof.
  intros HI. unfold create_graph. destruct (N.eqb g 0); cbn [fst].
  - split; [exact HI|split; [tauto|reflexivity]].
  - split; [|split; [tauto|reflexivity]].
    destruct HI. constructor; cbn [gspo gpos gosp spog cat]; auto.
    + apply NoDup_set_add; assumption.
    + intros s p o g' H Hg. apply in_set_add. right. eauto.
Qed.

(* ---------- observers ---------- *)

Ltac belim := repeat match goal with
  | H : _ && _ = true |- _ => apply andb_true_iff in H; destruct H
  | H : N.eqb _ _ = true |- _ => apply N.eqb_eq in H
  | H : negb _ = true |- _ => apply negb_true_iff in H
  | H : N.eqb _ _ = false |- _ => apply N.eqb_neq in H
  end.

Ltac fixlen r H := destruct r as [|? [|? [|? [|? ?]]]]; try discriminate H.

Lemma in_sub_paths d pre t r : wf (length pre + d) t ->
  (In r (sub_paths d pre t) <-> length r = d /\ t_mem (pre ++ r) t = true).
Proof.
  intros Hwf. unfold sub_paths. rewrite t_mem_app. destruct (t_sub pre t) as [c|] eqn:E.
  - apply in_paths. apply (wf_sub pre d t c Hwf E).
  - split; [intros []|intros [_ H]; discriminate].
Qed.

Lemma NoDup_sub_paths d pre t : wf (length pre + d) t -> NoDup (sub_paths d pre t).
Proof.
  intros Hwf. unfold sub_paths. destruct (t_sub pre t) as [c|] eqn:E; [|constructor].
  apply NoDup_paths. apply (wf_sub pre d t c Hwf E).
Qed.

Lemma map_sub_paths_spec (f : list N -> quad) (P : quad -> Prop) d pre t :
  wf (length pre + d) t ->
  (forall r1 r2, length r1 = d -> length r2 = d -> f r1 = f r2 -> r1 = r2) ->
  (forall q, (exists r, length r = d /\ t_mem (pre ++ r) t = true /\ f r = q) <-> P q) ->
  NoDup (map f (sub_paths d pre t)) /\ forall q, In q (map f (sub_paths d pre t)) <-> P q.
Proof.
  intros Hwf Hinj HP. split.
  - apply NoDup_map_inj_on; [apply NoDup_sub_paths; exact Hwf|].
    intros x y Hx Hy. apply (in_sub_paths d pre t _ Hwf) in Hx, Hy. apply Hinj; tauto.
  - intros q. rewrite <- HP, in_map_iff. split.
    + intros [r [Hf Hr]]. apply (in_sub_paths d pre t _ Hwf) in Hr. exists r. tauto.
    + intros [r [Hl [Hm Hf]]]. exists r. split; [exact Hf|].
      apply (in_sub_paths d pre t _ Hwf). tauto.
Qed.

Ltac qg_inj :=
  let r1 := fresh "r1" in let r2 := fresh "r2" in
  let H1 := fresh "H1" in let H2 := fresh "H2" in let Hf := fresh "Hf" in
  intros r1 r2 H1 H2 Hf; fixlen r1 H1; fixlen r2 H2;
  cbn [nth] in Hf; unfold mkq in Hf; injection Hf; intros; subst; reflexivity.

(* first half of the characterisation: every produced row is a stored, matching quad *)
Ltac qg_sound HI lem :=
  let r := fresh "r" in let Hl := fresh "Hl" in let Hm := fresh "Hm" in let Hf := fresh "Hf" in
  intros [r [Hl [Hm Hf]]]; fixlen r Hl; cbn [nth app] in *; unfold mkq in Hf;
  injection Hf as <- <- <- <-;
  split; [rewrite ?N.eqb_refl; reflexivity|apply (lem _ HI); exact Hm].

Ltac qg_complete HI lem w :=
  exists w; split; [reflexivity|split; [cbn [app]; apply (lem _ HI); assumption|reflexivity]].

Lemma query_graph_spec st g s p o : Inv st ->
  NoDup (query_graph st g s p o) /\
  forall q, In q (query_graph st g s p o) <-> matches g s p o q = true /\ has st q.
Proof.
  intros HI. destruct s as [ss|], p as [pp|], o as [oo|]; cbn [query_graph].
  - destruct (contains_quad st (mkq ss pp oo g)) eqn:E.
    + split; [constructor; [intros []|constructor]|].
      intros [[[s' p'] o'] g']. unfold matches, has. cbn [In qs qp qo qg fst snd opt_ok]. split.
      * intros [H|[]]. unfold mkq in H. injection H as <- <- <- <-.
        split; [rewrite !N.eqb_refl; reflexivity|exact E].
      * intros [Hb Hm]. left. belim. subst. reflexivity.
    + split; [constructor|]. intros [[[s' p'] o'] g']. unfold matches, has.
      cbn [In qs qp qo qg fst snd opt_ok]. split; [intros []|]. intros [Hb Hm]. belim. subst.
      unfold mkq in E. rewrite E in Hm. discriminate.
  - apply map_sub_paths_spec; [exact (inv_wf1 _ HI)|qg_inj|].
    intros [[[s' p'] o'] g']. unfold matches, has, contains_quad.
    cbn [qs qp qo qg fst snd opt_ok]. split; [qg_sound HI inv_gspo|].
    intros [Hb Hm]. belim. subst. qg_complete HI inv_gspo [o'].
  - apply map_sub_paths_spec; [exact (inv_wf3 _ HI)|qg_inj|].
    intros [[[s' p'] o'] g']. unfold matches, has, contains_quad.
    cbn [qs qp qo qg fst snd opt_ok]. split; [qg_sound HI inv_gosp|].
    intros [Hb Hm]. belim. subst. qg_complete HI inv_gosp [p'].
  - apply map_sub_paths_spec; [exact (inv_wf1 _ HI)|qg_inj|].
    intros [[[s' p'] o'] g']. unfold matches, has, contains_quad.
    cbn [qs qp qo qg fst snd opt_ok]. split; [qg_sound HI inv_gspo|].
    intros [Hb Hm]. belim. subst. qg_complete HI inv_gspo [p'; o'].
  - apply map_sub_paths_spec; [exact (inv_wf2 _ HI)|qg_inj|].
    intros [[[s' p'] o'] g']. unfold matches, has, contains_quad.
    cbn [qs qp qo qg fst snd opt_ok]. split; [qg_sound HI inv_gpos|].
    intros [Hb Hm]. belim. subst. qg_complete HI inv_gpos [s'].
  - apply map_sub_paths_spec; [exact (inv_wf2 _ HI)|qg_inj|].
    intros [[[s' p'] o'] g']. unfold matches, has, contains_quad.
    cbn [qs qp qo qg fst snd opt_ok]. split; [qg_sound HI inv_gpos|].
    intros [Hb Hm]. belim. subst. qg_complete HI inv_gpos [o'; s'].
  - apply map_sub_paths_spec; [exact (inv_wf3 _ HI)|qg_inj|].
    intros [[[s' p'] o'] g']. unfold matches, has, contains_quad.
    cbn [qs qp qo qg fst snd opt_ok]. split; [qg_sound HI inv_gosp|].
    intros [Hb Hm]. belim. subst. qg_complete HI inv_gosp [s'; p'].
  - apply map_sub_paths_spec; [exact (inv_wf1 _ HI)|qg_inj|].
    intros [[[s' p'] o'] g']. unfold matches, has, contains_quad.
    cbn [qs qp qo qg fst snd opt_ok]. split; [qg_sound HI inv_gspo|].
    intros [Hb Hm]. belim. subst. qg_complete HI inv_gspo [s'; p'; o'].
Qed.

Lemma gspo_root st g : Inv st -> In g (keys (gspo st)) -> exists s p o, has st (s, p, o, g).
Proof.
  intros HI Hin. apply (root_key 3 _ _ (inv_wf1 _ HI)) in Hin. destruct Hin as [ks [Hl Hm]].
  destruct ks as [|s [|p [|o [|? ?]]]]; try discriminate Hl.
  exists s, p, o. apply has_eq. apply (inv_gspo _ HI). exact Hm.
Qed.

Lemma has_cat st q : Inv st -> has st q -> qg q <> 0 -> In (N.pred (qg q)) (cat st).
Proof.
  destruct q as [[[s p] o] g]. intros HI H. apply (inv_cat _ HI s p o g). exact H.
Qed.

Lemma named_graphs_spec st : Inv st ->
  NoDup (named_graphs st) /\
  forall x, In x (named_graphs st) <-> x <> 0 /\ In (N.pred x) (cat st).
Proof.
  intros HI. unfold named_graphs. split.
  - apply NoDup_union_add. apply NoDup_map_inj_on; [apply (inv_nd _ HI)|].
    intros x y _ _ H. lia.
  - intros x. rewrite in_union_add, filter_In, in_map_iff. split.
    + intros [[Hk Hz]|[y [Hy Hin]]].
      * belim. destruct (gspo_root st x HI Hk) as [s [p [o H]]]. split; [assumption|].
        apply (has_cat st (s, p, o, x) HI H). assumption.
      * subst x. split; [lia|]. rewrite N.pred_succ. exact Hin.
    + intros [Hz Hin]. right. exists (N.pred x). split; [lia|exact Hin].
Qed.

Lemma graph_exists_spec st g : Inv st ->
  graph_exists st g = (N.eqb g 0 || set_mem (N.pred g) (cat st)).
Proof.
  intros HI. unfold graph_exists. destruct (N.eqb_spec g 0) as [->|Hne]; [reflexivity|].
  cbn [orb]. destruct (set_mem (N.pred g) (cat st)) eqn:E; [reflexivity|]. cbn [orb].
  destruct (aget g (ents (gspo st))) eqn:Ea; [|reflexivity]. exfalso.
  assert (Hk : In g (keys (gspo st))) by (unfold keys; apply aget_some_key; congruence).
  destruct (gspo_root st g HI Hk) as [s [p [o H]]].
  pose proof (has_cat st (s, p, o, g) HI H Hne) as Hin. apply set_mem_in in Hin.
  cbn [qg snd] in Hin. congruence.
Qed.

Lemma matches_qg g s p o q : matches g s p o q = true -> qg q = g.
Proof. unfold matches. intros H. belim. assumption. Qed.

Lemma all_quads_spec st : Inv st ->
  NoDup (all_quads st) /\ forall q, In q (all_quads st) <-> has st q.
Proof.
  intros HI. destruct (named_graphs_spec st HI) as [Hnd Hng]. unfold all_quads, graphs. split.
  - apply NoDup_flat_map.
    + constructor; [|exact Hnd]. intros H. apply Hng in H. tauto.
    + intros x _. apply (query_graph_spec st x None None None HI).
    + intros x y b _ _ Hx Hy.
      apply (query_graph_spec st x None None None HI) in Hx.
      apply (query_graph_spec st y None None None HI) in Hy.
      destruct Hx as [Hx _], Hy as [Hy _]. apply matches_qg in Hx, Hy. congruence.
  - intros q. rewrite in_flat_map. split.
    + intros [g [_ H]]. apply (query_graph_spec st g None None None HI) in H. tauto.
    + intros H. exists (qg q). split.
      * destruct (N.eq_dec (qg q) 0) as [E|E]; [left; congruence|right].
        apply Hng. split; [exact E|]. apply has_cat; assumption.
      * apply (query_graph_spec st (qg q) None None None HI). split; [|exact H].
        unfold matches. cbn [opt_ok]. rewrite N.eqb_refl. reflexivity.
Qed.

Definition named_pred (s p o : option N) (vis : option (list N)) (q : quad) : bool :=
  negb (N.eqb (qg q) 0) && vis_ok vis (qg q) && opt_ok s (qs q) && opt_ok p (qp q) && opt_ok o (qo q).

Lemma slow_spec st s p o vis : Inv st ->
  let slow := flat_map (fun g => if vis_ok vis g then query_graph st g s p o else [])
                       (named_graphs st) in
  NoDup slow /\ forall q, In q slow <-> named_pred s p o vis q = true /\ has st q.
Proof.
  intros HI slow. subst slow. destruct (named_graphs_spec st HI) as [Hnd Hng].
  assert (Hel : forall g b, In b (if vis_ok vis g then query_graph st g s p o else []) ->
                            vis_ok vis g = true /\ matches g s p o b = true /\ has st b).
  { intros g b H. destruct (vis_ok vis g); [|destruct H].
    apply (query_graph_spec st g s p o HI) in H. tauto. }
  split.
  - apply NoDup_flat_map; [exact Hnd| |].
    + intros x _. destruct (vis_ok vis x); [|constructor].
      apply (query_graph_spec st x s p o HI).
    + intros x y b _ _ Hx Hy. apply Hel in Hx, Hy.
      destruct Hx as [_ [Hx _]], Hy as [_ [Hy _]]. apply matches_qg in Hx, Hy. congruence.
  - intros q. rewrite in_flat_map. unfold named_pred. split.
    + intros [g [Hg H]]. apply Hel in H. destruct H as [Hv [Hm Hh]]. split; [|exact Hh].
      apply Hng in Hg. destruct Hg as [Hz _]. unfold matches in Hm. belim. subst g.
      rewrite !andb_true_iff, negb_true_iff, N.eqb_neq. tauto.
    + intros [Hb Hh]. belim. exists (qg q). split.
      * apply Hng. split; [assumption|]. apply has_cat; assumption.
      * replace (vis_ok vis (qg q)) with true by (symmetry; assumption).
        apply (query_graph_spec st (qg q) s p o HI). split; [|exact Hh].
        unfold matches. rewrite N.eqb_refl, !andb_true_iff. tauto.
Qed.

Lemma sub3_spec st s p o c : Inv st -> t_sub [s; p; o] (spog st) = Some c ->
  NoDup (keys c) /\ forall g, In g (keys c) <-> has st (s, p, o, g).
Proof.
  intros HI E. pose proof (wf_sub [s; p; o] 1 _ c (inv_wf4 _ HI) E) as Hwf. split.
  - apply Hwf.
  - intros g. rewrite in_keys_mem, has_eq.
    change [s; p; o; g] with ([s; p; o] ++ [g]). rewrite t_mem_app, E. tauto.
Qed.

Lemma sub3_none st s p o g : t_sub [s; p; o] (spog st) = None -> ~ has st (s, p, o, g).
Proof.
  intros E H. change (t_mem ([s; p; o] ++ [g]) (spog st) = true) in H.
  rewrite t_mem_app, E in H. discriminate.
Qed.

Lemma query_named_spec st s p o vis : Inv st ->
  NoDup (query_named_graphs st s p o vis) /\
  forall q, In q (query_named_graphs st s p o vis) <-> named_pred s p o vis q = true /\ has st q.
Proof.
  intros HI. pose proof (slow_spec st s p o vis HI) as Hslow. cbv zeta in Hslow.
  unfold query_named_graphs.
  destruct s as [ss|]; [|exact Hslow]. destruct p as [pp|]; [|exact Hslow].
  destruct o as [oo|]; [|exact Hslow].
  destruct (t_sub [ss; pp; oo] (spog st)) as [c|] eqn:E; [|exact Hslow].
  destruct (sub3_spec st ss pp oo c HI E) as [Hnd Hk]. split.
  - apply NoDup_map_inj_on; [apply NoDup_filter; exact Hnd|].
    intros x y _ _ H. unfold mkq in H. injection H as ->. reflexivity.
  - intros [[[s' p'] o'] g']. rewrite in_map_iff. unfold named_pred.
    cbn [qs qp qo qg fst snd opt_ok]. split.
    + intros [g [Hq Hg]]. unfold mkq in Hq. injection Hq as <- <- <- <-.
      apply filter_In in Hg. destruct Hg as [Hg Hb]. split; [|apply Hk; exact Hg].
      rewrite !N.eqb_refl, !andb_true_r. exact Hb.
    + intros [Hb Hh]. belim. subst. exists g'. split; [reflexivity|].
      apply filter_In. split; [apply Hk; exact Hh|].
      rewrite andb_true_iff, negb_true_iff, N.eqb_neq. tauto.
Qed.

Lemma graphs_for_spec st s p o : Inv st ->
  NoDup (graphs_for_triple st s p o) /\
  forall g, In g (graphs_for_triple st s p o) <-> has st (s, p, o, g).
Proof.
  intros HI. unfold graphs_for_triple. destruct (t_sub [s; p; o] (spog st)) as [c|] eqn:E.
  - apply sub3_spec; assumption.
  - split; [constructor|]. intros g. split; [intros []|]. intros H.
    apply (sub3_none st s p o g E H).
Qed.

Lemma qb_filter_opt_ok f v : qb_filter f v = opt_ok f v.
Proof. destruct f as [x|]; cbn [qb_filter opt_ok]; [apply N.eqb_sym|reflexivity]. Qed.

Lemma qb_matches_spec s p o q :
  qb_matches s p o q = true <-> matches (qg q) s p o q = true.
Proof.
  unfold qb_matches, matches. rewrite !qb_filter_opt_ok, N.eqb_refl.
  destruct (opt_ok s (qs q)), (opt_ok p (qp q)), (opt_ok o (qo q)); cbn [andb]; tauto.
Qed.

Lemma query_builder_spec st s p o : Inv st ->
  NoDup (query_builder st s p o) /\
  forall q, In q (query_builder st s p o) <-> matches 0 s p o q = true /\ has st q.
Proof.
  intros HI. unfold query_builder. split; [apply NoDup_qdedup|].
  destruct (query_graph_spec st 0 None None None HI) as [_ Hq].
  assert (Hid : map (fun q => mkq (qs q) (qp q) (qo q) 0) (query_graph st 0 None None None)
                = query_graph st 0 None None None).
  { rewrite <- (map_id (query_graph st 0 None None None)) at 2. apply map_ext_in.
    intros [[[s' p'] o'] g'] H. apply Hq in H. destruct H as [H _]. apply matches_qg in H.
    cbn [qs qp qo qg fst snd] in *. subst g'. reflexivity. }
  rewrite Hid. intros q. rewrite in_qdedup, filter_In, Hq, qb_matches_spec. split.
  - intros [[Hm Hh] Hb]. apply matches_qg in Hm. rewrite Hm in Hb. tauto.
  - intros [Hm Hh]. pose proof (matches_qg _ _ _ _ _ Hm) as Hg. rewrite Hg.
    split; [split; [|exact Hh]|exact Hm].
    unfold matches. cbn [opt_ok]. rewrite Hg. reflexivity.
Qed.

(* ---------- bulk mutators ---------- *)

Lemma delete_all_spec l : forall st, Inv st ->
  Inv (delete_all st l) /\
  (forall q, has (delete_all st l) q <-> has st q /\ ~ In q l) /\
  cat (delete_all st l) = cat st.
Proof.
  induction l as [|q l IH]; intros st HI.
  - cbn [delete_all fold_left In]. split; [exact HI|split; [tauto|reflexivity]].
  - change (delete_all st (q :: l)) with (delete_all (fst (delete_quad st q)) l).
    destruct (delete_spec st q HI) as [HI' [Hh [Hc _]]].
    destruct (IH _ HI') as [HI'' [Hh' Hc']]. split; [exact HI''|split; [|congruence]].
    intros q'. rewrite Hh', Hh. cbn [In]. intuition congruence.
Qed.

Lemma clear_graph_spec st g : Inv st ->
  Inv (clear_graph st g) /\
  (forall q, has (clear_graph st g) q <-> has st q /\ qg q <> g) /\
  cat (clear_graph st g) = cat st.
Proof.
  intros HI. unfold clear_graph.
  set (st1 := if negb (N.eqb g 0) && graph_exists st g then _ else st).
  assert (Hst1 : st1 = st).
  { subst st1. destruct (negb (N.eqb g 0) && graph_exists st g) eqn:E; [|reflexivity].
    rewrite (graph_exists_spec st g HI) in E. apply andb_true_iff in E. destruct E as [E1 E2].
    apply negb_true_iff in E1. rewrite E1 in E2. cbn [orb] in E2. apply set_mem_in in E2.
    rewrite (set_add_in_id _ _ E2). destruct st; reflexivity. }
  rewrite Hst1. clear st1 Hst1.
  destruct (delete_all_spec (query_graph st g None None None) st HI) as [HI' [Hh Hc]].
  split; [exact HI'|split; [|exact Hc]].
  intros q. rewrite Hh. destruct (query_graph_spec st g None None None HI) as [_ Hq].
  rewrite Hq. unfold matches. cbn [opt_ok]. rewrite !andb_true_r, N.eqb_eq. tauto.
Qed.

Lemma drop_graph_spec st g : Inv st ->
  Inv (fst (drop_graph st g)) /\
  (forall q, has (fst (drop_graph st g)) q <->
             has st q /\ (N.eqb g 0 || set_mem (N.pred g) (cat st) = true -> qg q <> g)) /\
  (forall x, In x (cat (fst (drop_graph st g))) <-> In x (cat st) /\ (g <> 0 -> x <> N.pred g)) /\
  snd (drop_graph st g) = (N.eqb g 0 || set_mem (N.pred g) (cat st)).
Proof.
  intros HI. unfold drop_graph. rewrite (graph_exists_spec st g HI).
  destruct (clear_graph_spec st g HI) as [HI' [Hh Hc]].
  destruct (N.eqb_spec g 0) as [->|Hne]; cbn [orb fst snd].
  - pose proof (clear_graph_spec st 0 HI) as [HI0 [Hh0 Hc0]].
    split; [exact HI0|split; [|split; [|reflexivity]]].
    + intros q. rewrite Hh0. intuition.
    + intros x. rewrite Hc0. intuition.
  - destruct (set_mem (N.pred g) (cat st)) eqn:E; cbn [negb fst snd].
    + split; [|split; [|split; [|reflexivity]]].
      * destruct HI'. constructor; cbn [gspo gpos gosp spog cat]; auto.
        -- apply NoDup_set_del; assumption.
        -- intros s p o g' H Hg. apply in_set_del; [assumption|].
           assert (Hh' : has (clear_graph st g) (s, p, o, g')) by exact H.
           apply Hh in Hh'. cbn [qg snd] in Hh'. split; [lia|]. eauto.
      * intros q. change (has (St _ _ _ (spog (clear_graph st g)) _) q)
          with (has (clear_graph st g) q). rewrite Hh. intuition.
      * intros x. cbn [cat]. rewrite in_set_del by (rewrite Hc; apply HI). rewrite Hc.
        intuition.
    + split; [exact HI|split; [|split; [|reflexivity]]].
      * intros q. intuition discriminate.
      * intros x. split; [|tauto]. intros H. split; [exact H|]. intros _ ->.
        apply set_mem_in in H. congruence.
Qed.

Lemma fold_create_spec l : forall st, Inv st ->
  let st' := fold_left (fun s g => fst (create_graph s g)) l st in
  Inv st' /\ (forall q, has st' q <-> has st q) /\
  (forall x, In x (cat st') <-> In x (cat st) \/ exists g, In g l /\ g <> 0 /\ x = N.pred g).
Proof.
  induction l as [|g l IH]; intros st HI; cbn [fold_left].
  - split; [exact HI|split; [tauto|]]. intros x. split; [tauto|].
    intros [H|[g [[] _]]]. exact H.
  - destruct (create_spec st g HI) as [HI' [Hh Hc]].
    destruct (IH _ HI') as [HI'' [Hh' Hc']]. cbv zeta in *.
    split; [exact HI''|split].
    + intros q. rewrite Hh', Hh. tauto.
    + intros x. rewrite Hc', Hc. cbn [In]. destruct (N.eqb_spec g 0) as [->|Hne].
      * split; [intros [H|[g' [H1 H2]]]; [now left|right; exists g'; tauto]|].
        intros [H|[g' [[H0|H1] H2]]]; [now left| |right; exists g'; tauto].
        subst g'. lia.
      * rewrite in_set_add. split.
        -- intros [[H|H]|[g' [H1 H2]]]; [right; exists g; tauto|now left|right; exists g'; tauto].
        -- intros [H|[g' [[H0|H1] H2]]]; [tauto| |right; exists g'; tauto].
           subst g'. left. left. tauto.
Qed.

Lemma fold_insert_spec l : forall st, Inv st ->
  let st' := fold_left (fun s q => fst (insert_quad s q)) l st in
  Inv st' /\ (forall q, has st' q <-> In q l \/ has st q) /\
  (forall x, In x (cat st') <->
             In x (cat st) \/ exists q, In q l /\ qg q <> 0 /\ x = N.pred (qg q)).
Proof.
  induction l as [|q0 l IH]; intros st HI; cbn [fold_left].
  - split; [exact HI|split; [cbn [In]; tauto|]]. intros x. split; [tauto|].
    intros [H|[g [[] _]]]. exact H.
  - destruct (insert_spec st q0 HI) as [HI' [Hh [Hc _]]].
    destruct (IH _ HI') as [HI'' [Hh' Hc']]. cbv zeta in *.
    split; [exact HI''|split].
    + intros q. rewrite Hh', Hh. cbn [In]. intuition congruence.
    + intros x. rewrite Hc', Hc, in_register. cbn [In]. split.
      * intros [[[H1 H2]|H]|[q [H1 H2]]];
          [right; exists q0; tauto|now left|right; exists q; tauto].
      * intros [H|[q [[H0|H1] H2]]]; [tauto| |right; exists q; tauto].
        subst q. left. left. tauto.
Qed.

Lemma rebuild_spec st : Inv st ->
  Inv (rebuild st) /\ (forall q, has (rebuild st) q <-> has st q) /\
  (forall x, In x (cat (rebuild st)) <-> In x (cat st)).
Proof.
  intros HI. unfold rebuild.
  destruct (fold_create_spec (named_graphs st) init Inv_init) as [HI1 [Hh1 Hc1]].
  cbv zeta in *.
  set (st1 := fold_left (fun s g => fst (create_graph s g)) (named_graphs st) init) in *.
  destruct (fold_insert_spec (all_quads st) st1 HI1) as [HI2 [Hh2 Hc2]]. cbv zeta in *.
  destruct (named_graphs_spec st HI) as [_ Hng]. destruct (all_quads_spec st HI) as [_ Haq].
  split; [exact HI2|split].
  - intros q. rewrite Hh2, Hh1, Haq. split; [|tauto]. intros [H|H]; [exact H|].
    exfalso. revert H. unfold has, contains_quad. cbn [init spog].
    rewrite t_mem_empty. discriminate.
  - intros x. rewrite Hc2, Hc1. cbn [init cat In]. split.
    + intros [[[]|[g [Hg [Hz ->]]]]|[q [Hq [Hz ->]]]].
      * apply Hng in Hg. tauto.
      * apply Haq in Hq. apply has_cat; assumption.
    + intros H. left. right. exists (N.succ x). split; [|split; lia].
      apply Hng. split; [lia|]. rewrite N.pred_succ. exact H.
Qed.

(* ---------- the abstraction relation and the simulation step ---------- *)

Record Abs (st : state) (sp : sstate) : Prop := {
  abs_inv : Inv st;
  abs_ndq : NoDup (sq sp);
  abs_ndc : NoDup (scat sp);
  abs_q : forall q, In q (sq sp) <-> contains_quad st q = true;
  abs_c : forall g, In g (scat sp) <-> In g (cat st)
}.

Lemma Abs_init : Abs init sinit.
Proof.
  constructor; cbn [sinit sq scat].
  - apply Inv_init.
  - constructor.
  - constructor.
  - intros q. split; [intros []|]. unfold contains_quad. cbn [init spog].
    rewrite t_mem_empty. discriminate.
  - intros g. cbn [init cat]. tauto.
Qed.

Lemma abs_contains st sp q : Abs st sp -> contains_quad st q = qmem q (sq sp).
Proof.
  intros HA. apply eq_true_iff_eq. rewrite qmem_in. symmetry. apply (abs_q _ _ HA).
Qed.

Lemma abs_set_mem st sp x : Abs st sp -> set_mem x (cat st) = set_mem x (scat sp).
Proof.
  intros HA. apply set_mem_iff_eq. symmetry. apply (abs_c _ _ HA).
Qed.

Lemma abs_filter st sp (l : list quad) (f : quad -> bool) (P : quad -> Prop) :
  Abs st sp -> NoDup l -> (forall q, In q l <-> P q /\ has st q) ->
  (forall q, f q = true <-> P q) -> same_set l (filter f (sq sp)).
Proof.
  intros HA Hnd Hl Hf. split; [exact Hnd|split].
  - apply NoDup_filter. apply (abs_ndq _ _ HA).
  - intros q. rewrite filter_In, Hl, Hf, (abs_q _ _ HA). unfold has. tauto.
Qed.

Lemma abs_query_graph st sp g s p o : Abs st sp ->
  same_set (query_graph st g s p o) (s_query_graph sp g s p o).
Proof.
  intros HA. destruct (query_graph_spec st g s p o (abs_inv _ _ HA)) as [Hnd Hq].
  unfold s_query_graph.
  apply (abs_filter st sp _ _ (fun q => matches g s p o q = true) HA Hnd Hq). tauto.
Qed.

Lemma abs_query_builder st sp s p o : Abs st sp ->
  same_set (query_builder st s p o) (s_query_graph sp 0 s p o).
Proof.
  intros HA. destruct (query_builder_spec st s p o (abs_inv _ _ HA)) as [Hnd Hq].
  unfold s_query_graph.
  apply (abs_filter st sp _ _ (fun q => matches 0 s p o q = true) HA Hnd Hq). tauto.
Qed.

Lemma NoDup_map_succ l : NoDup l -> NoDup (map N.succ l).
Proof. intros H. apply NoDup_map_inj_on; [exact H|]. intros x y _ _ E. lia. Qed.

Lemma abs_named_graphs st sp : Abs st sp -> same_set (named_graphs st) (map N.succ (scat sp)).
Proof.
  intros HA. destruct (named_graphs_spec st (abs_inv _ _ HA)) as [Hnd Hng].
  split; [exact Hnd|split; [apply NoDup_map_succ; apply (abs_ndc _ _ HA)|]].
  intros x. rewrite Hng, in_map_iff. split.
  - intros [Hz Hin]. exists (N.pred x). split; [lia|]. apply (abs_c _ _ HA). exact Hin.
  - intros [y [<- Hy]]. split; [lia|]. rewrite N.pred_succ. apply (abs_c _ _ HA). exact Hy.
Qed.

Lemma same_set_cons0 (a b : list N) :
  same_set a (map N.succ b) -> same_set (0 :: a) (0 :: map N.succ b).
Proof.
  intros [Ha [Hb Hab]]. assert (Hz : ~ In 0 (map N.succ b)).
  { intros H. apply in_map_iff in H. destruct H as [y [Hy _]]. lia. }
  split; [|split].
  - constructor; [|exact Ha]. intros H. apply Hab in H. tauto.
  - constructor; assumption.
  - intros x. cbn [In]. rewrite Hab. tauto.
Qed.

Lemma step_sim st sp o : Abs st sp ->
  out_agree (snd (step st o)) (snd (sstep sp o)) /\ Abs (fst (step st o)) (fst (sstep sp o)).
Proof.
  intros HA. pose proof (abs_inv _ _ HA) as HI.
  destruct o as [q|q|g|g|g| | |q|g s p o|s p o vis|gs s p o|s p o g|g| | | |s p o|g|s p o|s p o];
    cbn [step sstep fst snd out_agree].
  - (* Insert *)
    destruct (insert_spec st q HI) as [HI' [Hh [Hc Hs]]]. split.
    + rewrite Hs. f_equal. apply abs_contains. exact HA.
    + constructor; cbn [sq scat].
      * exact HI'.
      * apply NoDup_qadd. apply (abs_ndq _ _ HA).
      * apply NoDup_register. apply (abs_ndc _ _ HA).
      * intros q'. rewrite in_qadd. rewrite (abs_q _ _ HA). symmetry. apply Hh.
      * intros x. rewrite Hc. change (s_register (qg q) (scat sp)) with
          (register_graph (qg q) (scat sp)). rewrite !in_register, (abs_c _ _ HA). tauto.
  - (* Delete *)
    destruct (delete_spec st q HI) as [HI' [Hh [Hc Hs]]]. split.
    + rewrite Hs. f_equal. apply abs_contains. exact HA.
    + constructor; cbn [sq scat].
      * exact HI'.
      * apply NoDup_filter. apply (abs_ndq _ _ HA).
      * apply (abs_ndc _ _ HA).
      * intros q'. rewrite in_qdel. rewrite (abs_q _ _ HA). symmetry. apply Hh.
      * intros x. rewrite Hc. apply (abs_c _ _ HA).
  - (* Create *)
    destruct (create_spec st g HI) as [HI' [Hh Hc]]. unfold create_graph in *.
    destruct (N.eqb_spec g 0) as [->|Hne]; cbn [fst snd out_agree] in *.
    + split; [reflexivity|exact HA].
    + split.
      * rewrite (graph_exists_spec st g HI). destruct (N.eqb_spec g 0); [contradiction|].
        cbn [orb]. f_equal. apply abs_set_mem. exact HA.
      * constructor; cbn [sq scat].
        -- exact HI'.
        -- apply (abs_ndq _ _ HA).
        -- apply NoDup_set_add. apply (abs_ndc _ _ HA).
        -- intros q. rewrite (abs_q _ _ HA). reflexivity.
        -- intros x. cbn [cat]. rewrite !in_set_add, (abs_c _ _ HA). tauto.
  - (* Drop *)
    destruct (drop_graph_spec st g HI) as [HI' [Hh [Hc Hs]]].
    rewrite (abs_set_mem st sp _ HA) in Hh, Hs.
    destruct (N.eqb_spec g 0) as [->|Hne]; cbn [orb fst snd out_agree] in *.
    + split; [exact Hs|]. constructor; cbn [s_clear_graph sq scat].
      * exact HI'.
      * apply NoDup_filter. apply (abs_ndq _ _ HA).
      * apply (abs_ndc _ _ HA).
      * intros q. rewrite filter_In, negb_true_iff, N.eqb_neq, (abs_q _ _ HA).
        unfold has in Hh. rewrite Hh. intuition.
      * intros x. rewrite Hc, (abs_c _ _ HA). tauto.
    + destruct (set_mem (N.pred g) (scat sp)) eqn:E; cbn [fst snd out_agree].
      * split; [exact Hs|]. constructor; cbn [s_clear_graph sq scat].
        -- exact HI'.
        -- apply NoDup_filter. apply (abs_ndq _ _ HA).
        -- apply NoDup_set_del. apply (abs_ndc _ _ HA).
        -- intros q. rewrite filter_In, negb_true_iff, N.eqb_neq, (abs_q _ _ HA).
           unfold has in Hh. rewrite Hh. tauto.
        -- intros x. rewrite Hc, in_set_del by apply (abs_ndc _ _ HA).
           rewrite (abs_c _ _ HA). tauto.
      * split; [exact Hs|]. constructor.
        -- exact HI'.
        -- apply (abs_ndq _ _ HA).
        -- apply (abs_ndc _ _ HA).
        -- intros q. rewrite (abs_q _ _ HA). unfold has in Hh. rewrite Hh.
           intuition discriminate.
        -- intros x. rewrite Hc, (abs_c _ _ HA). split; [|tauto]. intros H.
           split; [exact H|]. intros _ ->. apply (abs_c _ _ HA) in H.
           apply set_mem_in in H. congruence.
  - (* ClearG *)
    destruct (clear_graph_spec st g HI) as [HI' [Hh Hc]]. split; [exact I|].
    constructor; cbn [s_clear_graph sq scat].
    + exact HI'.
    + apply NoDup_filter. apply (abs_ndq _ _ HA).
    + apply (abs_ndc _ _ HA).
    + intros q. rewrite filter_In, negb_true_iff, N.eqb_neq, (abs_q _ _ HA).
      unfold has in Hh. rewrite Hh. tauto.
    + intros x. rewrite Hc. apply (abs_c _ _ HA).
  - (* ClearAll *)
    split; [exact I|apply Abs_init].
  - (* Rebuild *)
    destruct (rebuild_spec st HI) as [HI' [Hh Hc]]. split; [exact I|]. constructor.
    + exact HI'.
    + apply (abs_ndq _ _ HA).
    + apply (abs_ndc _ _ HA).
    + intros q. rewrite (abs_q _ _ HA). symmetry. apply Hh.
    + intros x. rewrite Hc. apply (abs_c _ _ HA).
  - (* Contains *)
    split; [|exact HA]. f_equal. apply abs_contains. exact HA.
  - (* QGraph *)
    split; [|exact HA]. apply abs_query_graph. exact HA.
  - (* QNamed *)
    split; [|exact HA]. destruct (query_named_spec st s p o vis HI) as [Hnd Hq].
    apply (abs_filter st sp _ _ (fun q => named_pred s p o vis q = true) HA Hnd Hq).
    intros q. unfold named_pred. tauto.
  - (* QMerged *)
    split; [|exact HA]. unfold query_merged_graphs.
    split; [apply NoDup_qdedup|split; [apply NoDup_qdedup|]].
    intros x. rewrite !in_qdedup, !in_map_iff.
    assert (Hin : forall q, In q (flat_map (fun g => query_graph st g s p o) gs) <->
                            In q (filter (fun q => set_mem (qg q) gs && opt_ok s (qs q) &&
                                                   opt_ok p (qp q) && opt_ok o (qo q)) (sq sp))).
    { intros q. rewrite in_flat_map, filter_In, (abs_q _ _ HA). split.
      - intros [g [Hg H]]. apply (query_graph_spec st g s p o HI) in H. destruct H as [Hm Hh].
        split; [exact Hh|]. unfold matches in Hm. belim. subst g.
        rewrite !andb_true_iff, set_mem_in. tauto.
      - intros [Hh Hb]. belim. exists (qg q).
        match goal with H : set_mem _ _ = true |- _ => apply set_mem_in in H end.
        split; [assumption|]. apply (query_graph_spec st (qg q) s p o HI). split; [|exact Hh].
        unfold matches. rewrite N.eqb_refl, !andb_true_iff. tauto. }
    split; intros [q [Hq H]]; exists q; (split; [exact Hq|]); apply Hin; exact H.
  - (* QQuads *)
    split; [|exact HA]. unfold query_quads. destruct g as [gg|].
    + destruct (query_graph_spec st gg s p o HI) as [Hnd Hq].
      apply (abs_filter st sp _ _ (fun q => matches gg s p o q = true) HA Hnd Hq).
      intros q. unfold matches. cbn [opt_ok]. rewrite (N.eqb_sym gg (qg q)). tauto.
    + destruct (query_graph_spec st 0 s p o HI) as [Hnd0 Hq0].
      destruct (query_named_spec st s p o None HI) as [Hnd1 Hq1].
      apply (abs_filter st sp _ _
               (fun q => matches 0 s p o q = true \/ named_pred s p o None q = true) HA).
      * apply NoDup_app_intro; [exact Hnd0|exact Hnd1|].
        intros x H0 H1. apply Hq0 in H0. apply Hq1 in H1. destruct H0 as [H0 _], H1 as [H1 _].
        apply matches_qg in H0. unfold named_pred in H1. belim. congruence.
      * intros q. rewrite in_app_iff, Hq0, Hq1. tauto.
      * intros q. unfold matches, named_pred. cbn [opt_ok vis_ok].
        destruct (N.eqb (qg q) 0), (opt_ok s (qs q)), (opt_ok p (qp q)), (opt_ok o (qo q));
          cbn [andb negb]; intuition discriminate.
  - (* GExists *)
    split; [|exact HA]. rewrite (graph_exists_spec st g HI). unfold s_exists. f_equal.
    apply abs_set_mem. exact HA.
  - (* NamedGraphs *)
    split; [|exact HA]. apply abs_named_graphs. exact HA.
  - (* Graphs *)
    split; [|exact HA]. unfold graphs. apply same_set_cons0. apply abs_named_graphs. exact HA.
  - (* AllQuads *)
    split; [|exact HA]. destruct (all_quads_spec st HI) as [Hnd Hq].
    split; [exact Hnd|split; [apply (abs_ndq _ _ HA)|]].
    intros q. rewrite Hq, (abs_q _ _ HA). reflexivity.
  - (* GraphsFor *)
    split; [|exact HA]. destruct (graphs_for_spec st s p o HI) as [Hnd Hq].
    split; [exact Hnd|split].
    + apply NoDup_map_inj_on; [apply NoDup_filter; apply (abs_ndq _ _ HA)|].
      intros [[[s1 p1] o1] g1] [[[s2 p2] o2] g2] H1 H2 Hg.
      apply filter_In in H1. apply filter_In in H2. destruct H1 as [_ H1], H2 as [_ H2].
      cbn [qs qp qo qg fst snd] in *. belim. subst. reflexivity.
    + intros x. rewrite Hq, in_map_iff. split.
      * intros H. exists (s, p, o, x). split; [reflexivity|]. apply filter_In.
        split; [apply (abs_q _ _ HA); exact H|]. cbn [qs qp qo fst snd].
        rewrite !N.eqb_refl. reflexivity.
      * intros [[[[s1 p1] o1] g1] [Hx H]]. apply filter_In in H. destruct H as [Hin Hb].
        cbn [qs qp qo qg fst snd] in *. belim. subst. apply (abs_q _ _ HA). exact Hin.
  - (* LenG *)
    split; [|exact HA]. apply (f_equal N.of_nat). apply same_set_length. apply abs_query_graph. exact HA.
  - (* QB *)
    split; [|exact HA]. apply abs_query_builder. exact HA.
  - (* QBCount *)
    split; [|exact HA]. apply (f_equal N.of_nat). apply same_set_length.
    apply abs_query_builder. exact HA.
Qed.

Lemma refines_gen ops : forall st sp, Abs st sp ->
  Forall2 out_agree (snd (run st ops)) (snd (srun sp ops)) /\
  Abs (fst (run st ops)) (fst (srun sp ops)).
Proof.
  induction ops as [|o ops IH]; intros st sp HA; cbn [run srun fst snd].
  - split; [constructor|exact HA].
  - destruct (step_sim st sp o HA) as [Hout HA']. destruct (IH _ _ HA') as [Hrest HA''].
    split; [constructor; assumption|exact HA''].
Qed.

Theorem refines : forall ops : list op,
  Forall2 out_agree (snd (run init ops)) (snd (srun sinit ops)) /\
  Abs (fst (run init ops)) (fst (srun sinit ops)).
Proof. intros ops. apply refines_gen. apply Abs_init. Qed.

Theorem lookup_exact : forall (ops : list op) (g : N) (s p o : option N),
  let st := fst (run init ops) in
  let sp := fst (srun sinit ops) in
  NoDup (query_graph st g s p o) /\
  forall q, In q (query_graph st g s p o) <-> (matches g s p o q = true /\ In q (sq sp)).
Proof.
  intros ops g s p o st sp. destruct (refines ops) as [_ HA]. fold st sp in HA.
  destruct (query_graph_spec st g s p o (abs_inv _ _ HA)) as [Hnd Hq].
  split; [exact Hnd|]. intros q. rewrite Hq, (abs_q _ _ HA). reflexivity.
Qed.

Theorem query_builder_exact : forall (ops : list op) (s p o : option N),
  let st := fst (run init ops) in
  let sp := fst (srun sinit ops) in
  NoDup (query_builder st s p o) /\
  (forall q, In q (query_builder st s p o) <-> (matches 0 s p o q = true /\ In q (sq sp))) /\
  length (query_builder st s p o) = length (s_query_graph sp 0 s p o).
Proof.
  intros ops s p o st sp. destruct (refines ops) as [_ HA]. fold st sp in HA.
  destruct (query_builder_spec st s p o (abs_inv _ _ HA)) as [Hnd Hq].
  split; [exact Hnd|split].
  - intros q. rewrite Hq, (abs_q _ _ HA). reflexivity.
  - apply same_set_length. apply abs_query_builder. exact HA.
Qed.

Theorem rebuild_abs : forall ops, Abs (rebuild (fst (run init ops))) (fst (srun sinit ops)).
Proof.
  intros ops. destruct (refines ops) as [_ HA].
  apply (step_sim _ _ Rebuild HA).
Qed.

(* ---------- catalog history ---------- *)

(* same bodies as `introduces` / `removes` of C04.v *)
Definition intro_op (g : N) (o : op) : bool :=
  match o with
  | Create g' => N.eqb g' (N.succ g)
  | Insert q => N.eqb (qg q) (N.succ g)
  | _ => false
  end.
Definition remove_op (g : N) (o : op) : bool :=
  match o with
  | Drop g' => N.eqb g' (N.succ g)
  | ClearAll => true
  | _ => false
  end.

Lemma scat_step sp o g : NoDup (scat sp) ->
  (In g (scat (fst (sstep sp o))) <->
   intro_op g o = true \/ (In g (scat sp) /\ remove_op g o = false)).
Proof.
  intros Hnd.
  assert (Hsame : In g (scat sp) <-> false = true \/ (In g (scat sp) /\ false = false)).
  { split; [intros H; right; split; [exact H|reflexivity]|].
    intros [H|[H _]]; [discriminate H|exact H]. }
  destruct o as [q|q|g'|g'|g'| | |q|g' s p o|s p o vis|gs s p o|s p o g'|g'| | | |s p o|g'|s p o|s p o];
    cbn [sstep fst scat intro_op remove_op s_clear_graph]; try exact Hsame.
  - (* Insert *)
    change (s_register (qg q) (scat sp)) with (register_graph (qg q) (scat sp)).
    rewrite in_register, N.eqb_eq. split.
    + intros [[H1 H2]|H]; [left; lia|right; tauto].
    + intros [H|[H _]]; [left; lia|right; exact H].
  - (* Create *)
    destruct (N.eqb_spec g' 0) as [->|Hne]; cbn [fst scat].
    + rewrite N.eqb_eq. split; [intros H; right; tauto|]. intros [H|[H _]]; [lia|exact H].
    + rewrite in_set_add, N.eqb_eq. split.
      * intros [H|H]; [left; lia|right; tauto].
      * intros [H|[H _]]; [left; lia|right; exact H].
  - (* Drop *)
    rewrite N.eqb_neq. destruct (N.eqb_spec g' 0) as [->|Hne]; cbn [fst scat s_clear_graph].
    + split; [intros H; right; split; [exact H|lia]|]. intros [H|[H _]]; [discriminate|exact H].
    + destruct (set_mem (N.pred g') (scat sp)) eqn:E; cbn [fst scat].
      * rewrite (in_set_del _ _ _ Hnd). split.
        -- intros [H1 H2]. right. split; [exact H2|lia].
        -- intros [H|[H1 H2]]; [discriminate|]. split; [lia|exact H1].
      * split.
        -- intros H. right. split; [exact H|]. intros ->. rewrite N.pred_succ in E.
           apply set_mem_in in H. congruence.
        -- intros [H|[H _]]; [discriminate|exact H].
  - (* ClearAll *)
    cbn [sinit scat In]. split; [intros []|]. intros [H|[_ H]]; discriminate.
Qed.

Lemma graph_exists_abs st sp g : Abs st sp ->
  (graph_exists st (N.succ g) = true <-> In g (scat sp)).
Proof.
  intros HA. rewrite (graph_exists_spec st _ (abs_inv _ _ HA)).
  destruct (N.eqb_spec (N.succ g) 0) as [E|_]; [lia|]. cbn [orb].
  rewrite N.pred_succ, set_mem_in. symmetry. apply (abs_c _ _ HA).
Qed.

Lemma catalog_gen ops : forall st sp g, Abs st sp ->
  (graph_exists (fst (run st ops)) (N.succ g) = true <->
   (exists pre o post, ops = pre ++ o :: post /\ intro_op g o = true /\
                       forallb (fun x => negb (remove_op g x)) post = true) \/
   (In g (scat sp) /\ forallb (fun x => negb (remove_op g x)) ops = true)).
Proof.
  induction ops as [|o ops IH]; intros st sp g HA; cbn [run fst].
  - rewrite (graph_exists_abs st sp g HA). cbn [forallb]. split; [tauto|].
    intros [[pre [o [post [H _]]]]|[H _]]; [|exact H]. destruct pre; discriminate.
  - destruct (step_sim st sp o HA) as [_ HA']. rewrite (IH _ _ g HA').
    rewrite (scat_step sp o g (abs_ndc _ _ HA)). cbn [forallb]. split.
    + intros [[pre [o' [post [Hops [Hi Hp]]]]]|[[Hi|[Hin Hr]] Hp]].
      * left. exists (o :: pre), o', post. subst ops. split; [reflexivity|tauto].
      * left. exists [], o, ops. split; [reflexivity|tauto].
      * right. split; [exact Hin|]. rewrite Hr, Hp. reflexivity.
    + intros [[pre [o' [post [Hops [Hi Hp]]]]]|[Hin Hb]].
      * destruct pre as [|a pre]; cbn [app] in Hops; injection Hops as -> ->.
        -- right. split; [left; exact Hi|exact Hp].
        -- left. exists pre, o', post. split; [reflexivity|tauto].
      * apply andb_true_iff in Hb. destruct Hb as [Hr Hp]. apply negb_true_iff in Hr.
        right. split; [right; tauto|exact Hp].
Qed.

Theorem catalog_history : forall (ops : list op) (g : N),
  graph_exists (fst (run init ops)) (N.succ g) = true <->
  exists pre o post, ops = pre ++ o :: post /\ intro_op g o = true /\
                     forallb (fun x => negb (remove_op g x)) post = true.
Proof.
  intros ops g. rewrite (catalog_gen ops init sinit g Abs_init). cbn [sinit scat In]. tauto.
Qed.
