Require Import KV.Store.Model KV.Store.Spec KV.Store.TrieProofs.
(* to be filled: Abs, refines, lookup_exact, catalog_history, rebuild_abs *)
