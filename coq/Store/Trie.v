(* Nested hash maps with pruning, as used by the four indexes of shared/src/dataset_index.rs.
   A `HashMap<K1, HashMap<K2, HashMap<K3, HashSet<K4>>>>` is a trie of depth 4 over N keys; a hash
   set is a map to the empty trie.  Keys are association lists (iteration order of the real hash
   maps is unobservable after canonicalisation, see DESIGN.md 2.2). *)
From Coq Require Export List NArith Bool.
Export ListNotations.
Open Scope N_scope.

Inductive trie := Node : list (N * trie) -> trie.
Definition ents (t : trie) : list (N * trie) := match t with Node m => m end.
Definition t_empty : trie := Node [].
Definition t_isempty (t : trie) : bool := match ents t with [] => true | _ => false end.

Section Assoc.
  Context {V : Type}.
  Fixpoint aget (k : N) (m : list (N * V)) : option V :=
    match m with
    | [] => None
    | (k', v) :: m' => if N.eqb k k' then Some v else aget k m'
    end.
  (* `entry(k).or_default()` followed by an update: replace in place, or append *)
  Fixpoint aset (k : N) (v : V) (m : list (N * V)) : list (N * V) :=
    match m with
    | [] => [(k, v)]
    | (k', v') :: m' => if N.eqb k k' then (k, v) :: m' else (k', v') :: aset k v m'
    end.
  Fixpoint adel (k : N) (m : list (N * V)) : list (N * V) :=
    match m with
    | [] => []
    | (k', v') :: m' => if N.eqb k k' then m' else (k', v') :: adel k m'
    end.
End Assoc.

(* entry(k1).or_default().entry(k2).or_default()....insert(kn) *)
Fixpoint t_insert (ks : list N) (t : trie) : trie :=
  match ks with
  | [] => t
  | k :: ks' =>
      let child := match aget k (ents t) with Some c => c | None => t_empty end in
      Node (aset k (t_insert ks' child) (ents t))
  end.

(* remove_from_nested_index / remove_from_graph_index / remove_from_spog:
   descend while the key exists; remove the last key from the set; on the way back remove every
   map or set that became empty. *)
Fixpoint t_remove (ks : list N) (t : trie) : trie :=
  match ks with
  | [] => t
  | k :: ks' =>
      match aget k (ents t) with
      | None => t
      | Some c =>
          match ks' with
          | [] => Node (adel k (ents t))
          | _ :: _ =>
              let c' := t_remove ks' c in
              if t_isempty c' then Node (adel k (ents t)) else Node (aset k c' (ents t))
          end
      end
  end.

(* m.get(k1).and_then(|m| m.get(k2))... *)
Fixpoint t_sub (ks : list N) (t : trie) : option trie :=
  match ks with
  | [] => Some t
  | k :: ks' => match aget k (ents t) with Some c => t_sub ks' c | None => None end
  end.

Definition t_mem (ks : list N) (t : trie) : bool :=
  match t_sub ks t with Some _ => true | None => false end.

(* every key path of length d below t (nested iteration over the maps) *)
Fixpoint paths (d : nat) (t : trie) : list (list N) :=
  match d with
  | O => [[]]
  | S d' => flat_map (fun kc => map (cons (fst kc)) (paths d' (snd kc))) (ents t)
  end.

Definition keys (t : trie) : list N := map fst (ents t).
