(* The line-oriented subset the C13 theorems quantify over, as decidable (boolean) predicates on the
   abstract syntax of Spec.v.  No proofs in this file. *)
Require Export KV.Codec13.Spec.

(* characters of an IRI reference / a blank-node label / a prefixed name as the loaders can take them *)
Definition iri_char (c : N) : bool :=
  negb (is_ws c) && negb (c =? cLT) && negb (c =? cGT) && negb (c =? cDQ) && negb (c =? cBS).
Definition wf_iri (s : str) : bool := forallb iri_char s.

Definition plain_char (c : N) : bool := negb (c =? cDQ) && negb (c =? cBS).
Definition esc_char (c : N) : bool :=
  (c =? 116) || (c =? 98) || (c =? 110) || (c =? 114) || (c =? 102) || (c =? cDQ) || (c =? cSQ) || (c =? cBS).
Definition wf_hex (n : nat) (d : list N) : bool :=
  Nat.eqb (length d) n && forallb is_hex d && valid_scalar (hex_value d).
Definition wf_lchar (x : lchar) : bool :=
  match x with
  | LPlain c => plain_char c
  | LEsc c => esc_char c
  | LHex4 d => wf_hex 4 d
  | LHex8 d => wf_hex 8 d
  end.
Definition tag_char (c : N) : bool := is_ascii_alnum c || (c =? cMINUS).
Definition wf_suffix (x : suffix) : bool :=
  match x with
  | SNone => true
  | SLang tag => forallb tag_char tag
  | SDt iri => forallb (fun c => negb (c =? cGT)) iri
  end.

(* a component of a quoted triple: IRI, blank node, plain or typed literal.  Not covered (correspondence
   check only): nested quoted triples, and language-tagged literals - encode_term_star drops the tag of a
   component, so `<< s p "x"@en >>` and `<< s p "x" >>` are stored as the same term (noted in notes/C13.md) *)
Definition comp_ok (t : term) : bool :=
  match t with
  | TIri s => wf_iri s
  | TBnode l => wf_iri l
  | TLit b SNone => forallb wf_lchar b
  | TLit b (SDt iri) => forallb wf_lchar b && wf_iri iri
  | _ => false
  end.

(* terms of an N-Triples / N-Quads statement, including one-level quoted triples `<< s p o >>` *)
Definition wf_term_nt (t : term) : bool :=
  match t with
  | TIri s => wf_iri s
  | TBnode l => wf_iri l
  | TLit b x => forallb wf_lchar b && wf_suffix x
  | TQuoted s p o => comp_ok s && comp_ok p && comp_ok o
  | _ => false
  end.

Definition is_quoted_term (t : term) : bool := match t with TQuoted _ _ _ => true | _ => false end.
Definition sp_tab (c : N) : bool := (c =? cSP) || (c =? cTAB).
Definition sep_ok (w : str) : bool := negb (is_empty w) && forallb sp_tab w.    (* between two terms *)
Definition ws_ok (w : str) : bool := forallb is_ws w.                            (* at the ends, before the dot *)

Definition wf_pad_nt (pd : pad) (with_graph : bool) : bool :=
  ws_ok (w0 pd) && sep_ok (w1 pd) && sep_ok (w2 pd) && (if with_graph then sep_ok (wg pd) else true)
  && ws_ok (w3 pd) && ws_ok (w4 pd).

Definition wf_item_nq (i : item) : bool :=
  match i with
  | IBlank ws => ws_ok ws
  | IComment ws _ => ws_ok ws
  | IStmt pd s p o None => wf_pad_nt pd false && wf_term_nt s && wf_term_nt p && wf_term_nt o
  | IStmt pd s p o (Some g) => wf_pad_nt pd true && wf_term_nt s && wf_term_nt p && wf_term_nt o && wf_term_nt g
                               && negb (is_quoted_term g)   (* the graph name is not a quoted triple *)
  | _ => false
  end.
Definition no_graph (i : item) : bool := match i with IStmt _ _ _ _ (Some _) => false | _ => true end.
Definition wf_item_nt (i : item) : bool := wf_item_nq i && no_graph i.

Definition wf_doc_nt (d : list item) : bool := forallb wf_item_nt d.
Definition wf_doc_nq (d : list item) : bool := forallb wf_item_nq d.

(* ---------------------------------------------------------------------------------------------- *)
(* N3 as parse_n3 can take it: one statement per line `s p o .` with white space before the dot;
   terms are IRIs and prefixed names without '#'; @prefix lines; blank lines; comment lines. *)
Definition n3_char (c : N) : bool := iri_char c && negb (c =? cHASH).
Definition name_char (c : N) : bool := is_ascii_alnum c.
Definition sHTTP_ : str := [104;116;116;112;58;47;47].
Definition sHTTPS_ : str := [104;116;116;112;115;58;47;47].
Definition wf_term_n3 (t : term) : bool :=
  match t with
  | TIri s => forallb n3_char s
  | TPname p l => forallb name_char p && forallb name_char l
                  && negb (starts_with sHTTP_ (p ++ cCOLON :: l)) && negb (starts_with sHTTPS_ (p ++ cCOLON :: l))
  | _ => false
  end.
Definition ws1_ok (w : str) : bool := negb (is_empty w) && forallb is_ws w.
Definition wf_pad_n3 (pd : pad) : bool :=
  ws_ok (w0 pd) && ws1_ok (w1 pd) && ws1_ok (w2 pd) && ws1_ok (w3 pd) && ws_ok (w4 pd).
Definition wf_item_n3 (i : item) : bool :=
  match i with
  | IBlank ws => ws_ok ws
  | IComment ws _ => ws_ok ws
  | IStmt pd s p o None => wf_pad_n3 pd && wf_term_n3 s && wf_term_n3 p && wf_term_n3 o
  | IPrefix name iri => forallb name_char name && forallb n3_char iri
  | _ => false
  end.
Definition wf_doc_n3 (d : list item) : bool := forallb wf_item_n3 d.
