(* The hypotheses on a prior database and the shape of the observable used by the C13 theorems.
   No proofs in this file. *)
Require Export KV.Codec13.Model.

(* ---- the invariant of a dictionary (a small local copy of what C15 proves about the real one) ---- *)
Definition dict_ok (d : dict) : Prop :=
  (forall s i, assoc_s s (s2i d) = Some i -> assoc_n i (i2s d) = Some s) /\
  (forall i s, assoc_n i (i2s d) = Some s -> i < next_id d).

(* every identifier mentioned by a stored quad denotes a term *)
Definition quad_ok (x : db) (q : quad) : Prop :=
  let '(s, p, o, g) := q in
  (exists a, decode_any x s = Some a) /\ (exists b, decode_any x p = Some b) /\ (exists c, decode_any x o = Some c) /\
  match g with None => True | Some gi => exists d, dict_decode (d_dict x) gi = Some d end.

Definition db_ok (x : db) : Prop :=
  dict_ok (d_dict x) /\ Forall (quad_ok x) (d_quads x).

(* the invariant of the quoted-triple store: both maps agree, identifiers lie in [2^31, next), and every
   stored quoted triple decodes *)
Definition qts_ok (x : db) : Prop :=
  (forall k i, assoc_c k (c2i (d_qts x)) = Some i -> assoc_n i (i2c (d_qts x)) = Some k) /\
  (forall i k, assoc_n i (i2c (d_qts x)) = Some k -> QBIT <= i /\ i < next_qt (d_qts x)) /\
  QBIT <= next_qt (d_qts x) /\
  (forall i k, assoc_n i (i2c (d_qts x)) = Some k -> exists s, decode_any x i = Some s).

(* the hypothesis on a prior database when the document may mention quoted triples *)
Definition db_okq (x : db) : Prop := db_ok x /\ qts_ok x.

(* the lexical quad as the observable reports it *)
Definition lq_of (s p o : str) (g : option str) : lquad := (Some s, Some p, Some o, option_map Some g).

(* a list of lexical quads inserted one after the other *)
Definition add_lex4 (x : db) (q : str * str * str * option str) : db :=
  let '(s, p, o, g) := q in add_lex x s p o g.
Definition lq_of4 (q : str * str * str * option str) : lquad := let '(s, p, o, g) := q in lq_of s p o g.

