(* QuotedTripleStore::encode: an existing quoted triple keeps its identifier, a new one gets a fresh identifier
   in the quoted range; every identifier keeps its reading. *)
Require Import KV.Codec13.Model KV.Codec13.Inv KV.Codec13.StrProofs KV.Codec13.DictProofs.
Require Import Lia PeanoNat.

Lemma comp_eqb_eq : forall a b, comp_eqb a b = true <-> a = b.
Proof.
  intros [[a1 a2] a3] [[b1 b2] b3]. unfold comp_eqb. rewrite !andb_true_iff, !N.eqb_eq. split.
  - intros [[E1 E2] E3]. subst. reflexivity.
  - intro E. inversion E. auto.
Qed.

Lemma comp_eqb_refl : forall a, comp_eqb a a = true.
Proof. intro a. apply comp_eqb_eq. reflexivity. Qed.

(* the invariant of the store is kept by anything that leaves the store alone and extends the readings *)
Lemma qts_ok_same : forall x x', d_qts x' = d_qts x -> ext x x' -> qts_ok x -> qts_ok x'.
Proof.
  intros x x' Q E (A & B & C & D). unfold qts_ok. rewrite Q. repeat split; auto.
  - apply (B i k H).
  - apply (B i k H).
  - intros i k H. destruct (D i k H) as [s Hs]. exists s. apply (decode_any_ext x); assumption.
Qed.

Definition qt_text (sa sb sc : str) : str := sQOPEN ++ sa ++ cSP :: sb ++ cSP :: sc ++ sQCLOSE.

Lemma decode_term_mono : forall x f f' i s, (f <= f')%nat -> decode_term f x i = Some s -> decode_term f' x i = Some s.
Proof.
  intros x f f' i s Hf H. apply (decode_term_grows x x) with (f := f); [|exact Hf | exact H].
  unfold grows. auto.
Qed.

Lemma decode_term_quoted : forall x f i a b c, is_quoted i = true -> assoc_n i (i2c (d_qts x)) = Some (a, b, c) ->
  decode_term (S f) x i =
  match decode_term f x a, decode_term f x b, decode_term f x c with
  | Some sa, Some sb, Some sc => Some (qt_text sa sb sc)
  | _, _, _ => None
  end.
Proof. intros x f i a b c Q E. cbn [decode_term]. rewrite Q, E. reflexivity. Qed.

Lemma qts_encode_spec : forall x a b c sa sb sc q' i,
  qts_ok x -> decode_any x a = Some sa -> decode_any x b = Some sb -> decode_any x c = Some sc ->
  qts_encode (d_qts x) (a, b, c) = (q', i) ->
  grows x (set_qts x q') /\ qts_ok (set_qts x q') /\ decode_any (set_qts x q') i = Some (qt_text sa sb sc).
Proof.
  intros x a b c sa sb sc q' i (A & B & C & D) Ha Hb Hc H. unfold qts_encode in H.
  destruct (assoc_c (a, b, c) (c2i (d_qts x))) as [j|] eqn:E.
  - inversion H; subst q' i; clear H.
    assert (G : grows x (set_qts x (d_qts x))) by (apply grows_same_qts; auto).
    split; [exact G|]. split.
    + apply (qts_ok_same x); [reflexivity | apply ext_of_grows; exact G | exact (conj A (conj B (conj C D)))].
    + rewrite (decode_any_frame x (set_qts x (d_qts x))) by reflexivity.
      pose proof (A _ _ E) as Ej. destruct (B _ _ Ej) as [Bl Bu]. destruct (D _ _ Ej) as [s Hs].
      assert (Q : is_quoted j = true) by (unfold is_quoted; apply N.leb_le; exact Bl).
      unfold decode_any in *. rewrite (decode_term_quoted x _ j a b c Q Ej) in Hs |- *.
      destruct (decode_term (length (i2c (d_qts x))) x a) as [da|] eqn:Da; [|discriminate].
      destruct (decode_term (length (i2c (d_qts x))) x b) as [db_|] eqn:Db; [|discriminate].
      destruct (decode_term (length (i2c (d_qts x))) x c) as [dc|] eqn:Dc; [|discriminate].
      pose proof (decode_term_mono x _ (S (length (i2c (d_qts x)))) _ _ (Nat.le_succ_diag_r _) Da) as Da'.
      pose proof (decode_term_mono x _ (S (length (i2c (d_qts x)))) _ _ (Nat.le_succ_diag_r _) Db) as Db'.
      pose proof (decode_term_mono x _ (S (length (i2c (d_qts x)))) _ _ (Nat.le_succ_diag_r _) Dc) as Dc'.
      rewrite Ha in Da'. rewrite Hb in Db'. rewrite Hc in Dc'. inversion Da'. inversion Db'. inversion Dc'. reflexivity.
  - inversion H; subst q' i; clear H.
    set (k := next_qt (d_qts x)). set (q' := mkQts (((a, b, c), k) :: c2i (d_qts x)) ((k, (a, b, c)) :: i2c (d_qts x)) (k + 1)).
    assert (G : grows x (set_qts x q')).
    { unfold grows. cbn [set_qts d_qts d_dict q' i2c length]. split; [|split; [lia | auto]].
      intros i cc Hi. destruct (B _ _ Hi) as [_ Bu]. rewrite assoc_n_cons_neq by (unfold k; lia). exact Hi. }
    assert (Dk : decode_any (set_qts x q') k = Some (qt_text sa sb sc)).
    { assert (Q : is_quoted k = true) by (unfold is_quoted; apply N.leb_le; exact C).
      unfold decode_any. cbn [set_qts d_qts q' i2c length].
      rewrite (decode_term_quoted (set_qts x q') _ k a b c Q) by (cbn [set_qts d_qts q' i2c]; apply assoc_n_cons_eq).
      unfold decode_any in Ha, Hb, Hc.
      rewrite (decode_term_grows x _ G _ (S (length (i2c (d_qts x)))) _ _ (le_n _) Ha).
      rewrite (decode_term_grows x _ G _ (S (length (i2c (d_qts x)))) _ _ (le_n _) Hb).
      rewrite (decode_term_grows x _ G _ (S (length (i2c (d_qts x)))) _ _ (le_n _) Hc). reflexivity. }
    split; [exact G|]. split; [|exact Dk].
    unfold qts_ok. cbn [set_qts d_qts q' c2i i2c next_qt]. split; [|split; [|split]].
    + intros kk ii Hk. cbn [assoc_c] in Hk. destruct (comp_eqb kk (a, b, c)) eqn:Ek.
      * inversion Hk; subst ii. apply comp_eqb_eq in Ek. subst kk. apply assoc_n_cons_eq.
      * pose proof (A _ _ Hk) as Hi. destruct (B _ _ Hi) as [_ Bu]. rewrite assoc_n_cons_neq by (unfold k; lia). exact Hi.
    + intros ii kk Hi. destruct (N.eq_dec ii k) as [Ei|Ei].
      * subst ii. unfold k. lia.
      * rewrite assoc_n_cons_neq in Hi by exact Ei. destruct (B _ _ Hi). lia.
    + unfold k. lia.
    + intros ii kk Hi. destruct (N.eq_dec ii k) as [Ei|Ei].
      * subst ii. eauto.
      * rewrite assoc_n_cons_neq in Hi by exact Ei. destruct (D _ _ Hi) as [s Hs]. exists s.
        apply (decode_any_ext x); [apply ext_of_grows; exact G | exact Hs].
Qed.

(* the empty store *)
Lemma qts_ok_new : forall x, d_qts x = qts_new -> qts_ok x.
Proof.
  intros x H. unfold qts_ok. rewrite H. cbn [qts_new c2i i2c next_qt assoc_c assoc_n]. repeat split; try discriminate; try apply N.le_refl.
Qed.

(* ---- statements that do not touch the quoted-triple store ---- *)
Lemma add_lex_qts : forall x s p o g, d_qts (add_lex x s p o g) = d_qts x.
Proof.
  intros x s p o g. unfold add_lex, db_encode.
  destruct (dict_encode (d_dict x) s) as [d1 i1]. cbn [set_dict d_dict d_qts].
  destruct (dict_encode d1 p) as [d2 i2]. cbn [set_dict d_dict d_qts].
  destruct (dict_encode d2 o) as [d3 i3]. cbn [set_dict d_dict d_qts].
  destruct g as [gs|].
  - destruct (dict_encode d3 gs) as [d4 i4]. cbn [set_dict]. rewrite (proj1 (proj2 (add_quad_frame _ _))). reflexivity.
  - rewrite (proj1 (proj2 (add_quad_frame _ _))). reflexivity.
Qed.

Lemma add_quad_ext : forall x q, ext x (add_quad x q).
Proof.
  intros x q. destruct (add_quad_frame x q) as (D & Q & _). apply ext_of_grows. apply grows_same_qts; [exact Q | rewrite D; auto].
Qed.

Lemma add_lex_ext : forall x s p o g, db_ok x -> next_id (d_dict x) + 4 <= QBIT -> ext x (add_lex x s p o g).
Proof.
  intros x s p o g [Hd _] Hn. rewrite add_lex_enc3. destruct (enc3 x s p o) as [x3 [[si pi] oi]] eqn:E3.
  assert (N3 : next_id (d_dict x) + 3 <= QBIT) by lia.
  destruct (enc3_spec _ _ _ _ _ _ _ _ E3 Hd N3) as (D3 & X3 & _ & _ & _ & _ & _ & _ & U3).
  destruct g as [gs|].
  - destruct (db_encode x3 gs) as [x4 gi] eqn:E4.
    assert (N4 : next_id (d_dict x3) < QBIT) by lia.
    destruct (db_encode_spec _ _ _ _ E4 D3 N4) as (_ & X4 & _).
    apply (ext_trans _ _ _ X3). apply (ext_trans _ _ _ X4). apply add_quad_ext.
  - apply (ext_trans _ _ _ X3). apply add_quad_ext.
Qed.

Lemma add_lex_okq : forall x s p o g, db_okq x -> next_id (d_dict x) + 4 <= QBIT -> qts_ok (add_lex x s p o g).
Proof.
  intros x s p o g [Hx Hq] Hn. apply (qts_ok_same x); [apply add_lex_qts | apply add_lex_ext; assumption | exact Hq].
Qed.

Lemma fold_add_lex_okq : forall qs x, db_okq x -> next_id (d_dict x) + 4 * N.of_nat (length qs) <= QBIT ->
  qts_ok (fold_left add_lex4 qs x).
Proof.
  induction qs as [|[[[s p] o] g] qs IH]; intros x Hx Hn; [apply Hx|].
  cbn [fold_left add_lex4]. cbn [length] in Hn. rewrite Nat2N.inj_succ in Hn.
  assert (N1 : next_id (d_dict x) + 4 <= QBIT) by lia.
  destruct (add_lex_spec x s p o g (proj1 Hx) N1) as (K1 & _ & K3 & _).
  apply IH; [split; [exact K1 | apply add_lex_okq; assumption] | lia].
Qed.

Lemma set_pref_okq : forall x pr, qts_ok x -> qts_ok (set_pref x pr).
Proof.
  intros x pr H. apply (qts_ok_same x); [reflexivity | | exact H]. apply ext_of_grows. apply grows_same_qts; [reflexivity | auto].
Qed.
