(* Executable model of the document loaders of kolibrie/src/sparql_database.rs
     decode_ntriples_literal, parse_ntriples_parts, clean_ntriples_term, parse_ntriples_line,
     parse_nquads_line, encode_term_star, split_quoted_triple_content, decode_any,
     parse_ntriples (chunks of 1000 lines), encode_cleaned_term, encode_triples, parse_ntriples_and_add,
     parse_nquads_and_add,
     parse_n3 (private database per chunk + Dictionary::merge), parse_statement, resolve_term,
     parse_turtle, tokenize_turtle_star_line, clean_turtle_term, resolve_query_term
   and of shared/src/dictionary.rs  Dictionary::{encode, decode, decode_term, merge},
   shared/src/quoted_triple_store.rs QuotedTripleStore::{encode, decode}.

   Conventions
   - a Rust `String`/`&str` is the list of its code points (Str.v); a document is the list of its
     lines as `str::lines` returns them (no LF inside a line).
   - HashMap = association list, first match wins, `insert` = cons (shadows an older binding);
     `entry(k).or_insert(v)` = add only when absent.
   - u32 ids are unbounded N; the quoted-triple bit 2^31 is explicit (QBIT).
   - rayon `par_iter().map().collect()` is the ordered map over the chunk list.
   - loops with `peek()` are written as one step per character with a one-character lookahead and an
     explicit scanning mode for the inner loops of the code (datatype / language-tag suffix).
   No proofs in this file. *)
Require Export KV.Codec13.Str.

(* ========================================================================================== *)
(* decode_ntriples_literal                                                                     *)
Inductive dmode := DNorm | DEsc | DHex (remaining : nat) (acc : N).

(* body = the text after the opening quote.  Returns (value, text after the closing quote). *)
Fixpoint dec_body (m : dmode) (val : str) (l : str) : option (str * str) :=
  match l with
  | [] => None
  | c :: r =>
      match m with
      | DNorm => if c =? cDQ then Some (rev val, r)
                 else if c =? cBS then dec_body DEsc val r
                 else dec_body DNorm (c :: val) r
      | DEsc =>
          if c =? 116 then dec_body DNorm (9 :: val) r          (* t *)
          else if c =? 98 then dec_body DNorm (8 :: val) r      (* b *)
          else if c =? 110 then dec_body DNorm (10 :: val) r    (* n *)
          else if c =? 114 then dec_body DNorm (13 :: val) r    (* r *)
          else if c =? 102 then dec_body DNorm (12 :: val) r    (* f *)
          else if c =? cDQ then dec_body DNorm (cDQ :: val) r
          else if c =? cSQ then dec_body DNorm (cSQ :: val) r
          else if c =? cBS then dec_body DNorm (cBS :: val) r
          else if c =? 117 then dec_body (DHex 4 0) val r       (* u *)
          else if c =? 85 then dec_body (DHex 8 0) val r        (* U *)
          else None
      | DHex n v =>
          if is_hex c then
            let v' := v * 16 + hexval c in
            match n with
            | S O | O => if valid_scalar v' then dec_body DNorm (v' :: val) r else None
            | S n' => dec_body (DHex n' v') val r
            end
          else None
      end
  end.

Definition decode_literal (term : str) : option (str * str) :=
  match term with
  | c :: body => if c =? cDQ then dec_body DNorm [] body else None
  | [] => None
  end.

(* ========================================================================================== *)
(* parse_ntriples_parts                                                                        *)
Inductive pmode := MNorm | MAfterQ | MCaret | MDt | MDtUri | MLang.

Record pst := mkP {
  p_parts : list str;      (* reversed *)
  p_cur : str;             (* reversed *)
  p_uri : bool; p_lit : bool; p_esc : bool; p_depth : N;
  p_mode : pmode;
  p_skip : bool            (* the next character was already consumed through peek()/next() *)
}.

Definition p_init : pst := mkP [] [] false false false 0 MNorm false.

Definition p_push (c : N) (s : pst) : pst :=
  mkP (p_parts s) (c :: p_cur s) (p_uri s) (p_lit s) (p_esc s) (p_depth s) (p_mode s) (p_skip s).
(* parts.push(current_part.trim().to_string()); current_part.clear() *)
Definition p_emit (s : pst) : pst :=
  mkP (trim (rev (p_cur s)) :: p_parts s) [] (p_uri s) (p_lit s) (p_esc s) (p_depth s) (p_mode s) (p_skip s).
Definition p_set_mode (m : pmode) (s : pst) : pst :=
  mkP (p_parts s) (p_cur s) (p_uri s) (p_lit s) (p_esc s) (p_depth s) m (p_skip s).
Definition p_set_skip (b : bool) (s : pst) : pst :=
  mkP (p_parts s) (p_cur s) (p_uri s) (p_lit s) (p_esc s) (p_depth s) (p_mode s) b.
Definition p_set_uri (b : bool) (s : pst) : pst :=
  mkP (p_parts s) (p_cur s) b (p_lit s) (p_esc s) (p_depth s) (p_mode s) (p_skip s).
Definition p_set_lit (b : bool) (s : pst) : pst :=
  mkP (p_parts s) (p_cur s) (p_uri s) b (p_esc s) (p_depth s) (p_mode s) (p_skip s).
Definition p_set_esc (b : bool) (s : pst) : pst :=
  mkP (p_parts s) (p_cur s) (p_uri s) (p_lit s) b (p_depth s) (p_mode s) (p_skip s).
Definition p_set_depth (d : N) (s : pst) : pst :=
  mkP (p_parts s) (p_cur s) (p_uri s) (p_lit s) (p_esc s) d (p_mode s) (p_skip s).

(* the end of the suffix scan after a closing quote: `if qt_depth == 0 { parts.push(..) }` *)
Definition p_finish (s : pst) : pst :=
  let s := p_set_mode MNorm s in
  if p_depth s =? 0 then p_emit s else s.

Definition opt_is (c : N) (o : option N) : bool := match o with Some x => x =? c | None => false end.

(* one iteration of the main `while let Some(ch) = chars.next()` loop; nx = chars.peek() *)
Definition p_norm (s : pst) (c : N) (nx : option N) : pst :=
  if (c =? cLT) && negb (p_lit s) && negb (p_esc s) then
    if opt_is cLT nx && negb (p_uri s) then
      p_set_skip true (p_set_depth (p_depth s + 1) (p_push cLT (p_push cLT s)))
    else if 0 <? p_depth s then
      let s := p_push cLT s in
      if opt_is cLT nx then p_set_skip true (p_set_depth (p_depth s + 1) (p_push cLT s)) else s
    else p_push cLT (p_set_uri true s)
  else if (c =? cGT) && negb (p_lit s) && negb (p_esc s) then
    if (0 <? p_depth s) && negb (p_uri s) then
      let s := p_push cGT s in
      if opt_is cGT nx then
        let s := p_set_skip true (p_set_depth (p_depth s - 1) (p_push cGT s)) in
        if p_depth s =? 0 then p_emit s else s
      else s
    else if p_uri s then
      let s := p_push cGT (p_set_uri false s) in
      if p_depth s =? 0 then p_emit s else s
    else p_push cGT s
  else if (c =? cDQ) && negb (p_uri s) && negb (p_esc s) then
    let s := p_push cDQ (p_set_lit (negb (p_lit s)) s) in
    if p_lit s then s else p_set_mode MAfterQ s
  else if (c =? cBS) && (p_uri s || p_lit s) && negb (p_esc s) then
    p_push cBS (p_set_esc true s)
  else if ((c =? cSP) || (c =? cTAB)) && negb (p_uri s) && negb (p_lit s) && negb (p_esc s) && (p_depth s =? 0) then
    if is_empty (p_cur s) then s else p_emit s
  else p_push c (p_set_esc false s).

Definition p_step (s : pst) (c : N) (nx : option N) : pst :=
  if p_skip s then p_set_skip false s else
  match p_mode s with
  | MNorm => p_norm s c nx
  | MAfterQ =>
      if c =? cCARET then p_set_mode MCaret (p_push c s)
      else if c =? cAT then p_set_mode MLang (p_push c s)
      else p_norm (p_finish s) c nx
  | MCaret =>
      if c =? cCARET then p_set_mode MDt (p_push c s)
      else p_norm (p_finish s) c nx
  | MDt =>
      if c =? cLT then p_set_mode MDtUri (p_push c s)
      else if is_ws c then p_norm (p_finish s) c nx
      else p_push c s
  | MDtUri =>
      if c =? cGT then p_finish (p_push c s) else p_push c s
  | MLang =>
      if is_ascii_alnum c || (c =? cMINUS) then p_push c s
      else p_norm (p_finish s) c nx
  end.

Fixpoint p_scan (s : pst) (l : str) : pst :=
  match l with
  | [] => s
  | c :: r => p_scan (p_step s c (hd_error r)) r
  end.

Definition p_end (s : pst) : list str :=
  let s := match p_mode s with MNorm => s | _ => p_finish s end in
  rev (if is_empty (p_cur s) then p_parts s else trim (rev (p_cur s)) :: p_parts s).

Definition parse_parts (line : str) : list str := p_end (p_scan p_init line).

(* ========================================================================================== *)
(* clean_ntriples_term, parse_ntriples_line, parse_nquads_line                                 *)
Definition sLTLT : str := [cLT; cLT].
Definition sGTGT : str := [cGT; cGT].
Definition sCC : str := [cCARET; cCARET].

Definition clean_nt_term (term0 : str) : str :=
  let term := trim term0 in
  if starts_with sLTLT term && ends_with sGTGT term then term
  else if starts_with_c cLT term && ends_with_c cGT term then strip1 term
  else if starts_with_c cDQ term then
    match decode_literal term with
    | Some (v, rest) =>
        if is_empty rest then v
        else if starts_with sCC rest then v
        else if starts_with_c cAT rest then v ++ rest
        else term
    | None => term
    end
  else term.

(* "http://www.w3.org/1999/02/22-rdf-syntax-ns#type" *)
Definition rdf_type : str :=
  [104;116;116;112;58;47;47;119;119;119;46;119;51;46;111;114;103;47;49;57;57;57;47;48;50;47;50;50;45;
   114;100;102;45;115;121;110;116;97;120;45;110;115;35;116;121;112;101].

Definition parse_nt_line (line : str) : option (str * str * str) :=
  match parse_parts line with
  | [s; p; o] =>
      Some (clean_nt_term s, (if str_eqb p [97] then rdf_type else clean_nt_term p), clean_nt_term o)
  | _ => None
  end.

Definition parse_nq_line (line : str) : option (str * str * str * option str) :=
  match parse_parts line with
  | [s; p; o] => Some (clean_nt_term s, clean_nt_term p, clean_nt_term o, None)
  | [s; p; o; g] => Some (clean_nt_term s, clean_nt_term p, clean_nt_term o, Some (clean_nt_term g))
  | _ => None
  end.

(* the body of the per-line loop of parse_ntriples (and of parse_nquads_and_add): trim, skip blank
   lines and comments, require and remove the final dot *)
Definition statement_of_line (raw : str) : option str :=
  let line := trim raw in
  if is_empty line || starts_with_c cHASH line then None
  else if negb (ends_with_c cDOT line) then None
  else Some (trim (removelast line)).

Definition nt_line (raw : str) : list (str * str * str) :=
  match statement_of_line raw with
  | Some st => match parse_nt_line st with Some t => [t] | None => [] end
  | None => []
  end.
Definition nq_line (raw : str) : list (str * str * str * option str) :=
  match statement_of_line raw with
  | Some st => match parse_nq_line st with Some t => [t] | None => [] end
  | None => []
  end.

(* one rayon task of parse_ntriples *)
Definition parse_chunk_nt (chunk : list str) : list (str * str * str) := flat_map nt_line chunk.
(* parse_ntriples: lines.chunks(1000).par_iter().map(..).collect() *)
Definition CHUNK : nat := 1000.
Definition parse_ntriples_n (n : nat) (lines : list str) : list (list (str * str * str)) :=
  map parse_chunk_nt (chunks n lines).
Definition parse_ntriples (lines : list str) := parse_ntriples_n CHUNK lines.

(* ========================================================================================== *)
(* Dictionary, QuotedTripleStore, database                                                     *)
Record dict := mkDict { s2i : list (str * N); i2s : list (N * str); next_id : N }.
Definition dict_new : dict := mkDict [] [] 0.

Definition dict_encode (d : dict) (s : str) : dict * N :=
  match assoc_s s (s2i d) with
  | Some i => (d, i)
  | None => (mkDict ((s, next_id d) :: s2i d) ((next_id d, s) :: i2s d) (next_id d + 1), next_id d)
  end.
Definition dict_decode (d : dict) (i : N) : option str := assoc_n i (i2s d).

(* Dictionary::merge: entry().or_insert() on both maps, next_id = max *)
Definition merge_s (a b : list (str * N)) : list (str * N) :=
  fold_left (fun acc kv => match assoc_s (fst kv) acc with Some _ => acc | None => acc ++ [kv] end) b a.
Definition merge_i (a b : list (N * str)) : list (N * str) :=
  fold_left (fun acc kv => match assoc_n (fst kv) acc with Some _ => acc | None => acc ++ [kv] end) b a.
Definition dict_merge (self other : dict) : dict :=
  mkDict (merge_s (s2i self) (s2i other)) (merge_i (i2s self) (i2s other)) (N.max (next_id self) (next_id other)).

Definition QBIT : N := 2147483648.
Definition is_quoted (i : N) : bool := QBIT <=? i.
Definition comp := (N * N * N)%type.
Definition comp_eqb (a b : comp) : bool :=
  let '(a1, a2, a3) := a in let '(b1, b2, b3) := b in (a1 =? b1) && (a2 =? b2) && (a3 =? b3).
Record qts := mkQts { c2i : list (comp * N); i2c : list (N * comp); next_qt : N }.
Definition qts_new : qts := mkQts [] [] QBIT.
Fixpoint assoc_c (k : comp) (l : list (comp * N)) : option N :=
  match l with
  | [] => None
  | (k', v) :: r => if comp_eqb k k' then Some v else assoc_c k r
  end.
Definition qts_encode (q : qts) (k : comp) : qts * N :=
  match assoc_c k (c2i q) with
  | Some i => (q, i)
  | None => (mkQts ((k, next_qt q) :: c2i q) ((next_qt q, k) :: i2c q) (next_qt q + 1), next_qt q)
  end.

Definition quad := (N * N * N * option N)%type.     (* graph: None = default, Some id = Named(id) *)
Definition quad_eqb (a b : quad) : bool :=
  let '(a1, a2, a3, ag) := a in let '(b1, b2, b3, bg) := b in
  (a1 =? b1) && (a2 =? b2) && (a3 =? b3) &&
  match ag, bg with None, None => true | Some x, Some y => x =? y | _, _ => false end.

Record db := mkDb { d_dict : dict; d_qts : qts; d_quads : list quad; d_pref : list (str * str) }.
Definition db_new : db := mkDb dict_new qts_new [] [].

Definition set_dict (x : db) (d : dict) : db := mkDb d (d_qts x) (d_quads x) (d_pref x).
Definition set_qts (x : db) (q : qts) : db := mkDb (d_dict x) q (d_quads x) (d_pref x).
Definition set_pref (x : db) (p : list (str * str)) : db := mkDb (d_dict x) (d_qts x) (d_quads x) p.

(* DatasetIndex::insert_quad: a set *)
Definition add_quad (x : db) (q : quad) : db :=
  if existsb (quad_eqb q) (d_quads x) then x
  else mkDb (d_dict x) (d_qts x) (q :: d_quads x) (d_pref x).
Definition add_triple (x : db) (t : N * N * N) : db := let '(s, p, o) := t in add_quad x (s, p, o, None).

Definition db_encode (x : db) (s : str) : db * N :=
  let (d, i) := dict_encode (d_dict x) s in (set_dict x d, i).

(* ------------------------------------------------------------------------------------------ *)
(* split_quoted_triple_content                                                                 *)
Record sst := mkS { s_parts : list str; s_cur : str; s_depth : N; s_uri : bool; s_lit : bool; s_esc : bool }.

Definition is_ws4 (c : N) : bool := (c =? cSP) || (c =? cTAB) || (c =? cLF) || (c =? cCR).

Definition s_step (s : sst) (c : N) : sst :=
  if s_esc s then mkS (s_parts s) (c :: s_cur s) (s_depth s) (s_uri s) (s_lit s) false
  else if (c =? cBS) && s_lit s then mkS (s_parts s) (c :: s_cur s) (s_depth s) (s_uri s) (s_lit s) true
  else if (c =? cDQ) && negb (s_uri s) then mkS (s_parts s) (c :: s_cur s) (s_depth s) (s_uri s) (negb (s_lit s)) false
  else if (c =? cLT) && negb (s_lit s) then
    let cur := c :: s_cur s in
    if starts_with sLTLT cur then mkS (s_parts s) cur (s_depth s + 1) (s_uri s) (s_lit s) false
    else if s_depth s =? 0 then mkS (s_parts s) cur (s_depth s) true (s_lit s) false
    else mkS (s_parts s) cur (s_depth s) (s_uri s) (s_lit s) false
  else if (c =? cGT) && negb (s_lit s) then
    let cur := c :: s_cur s in
    if s_uri s then mkS (s_parts s) cur (s_depth s) false (s_lit s) false
    else if starts_with sGTGT cur && (0 <? s_depth s) then mkS (s_parts s) cur (s_depth s - 1) (s_uri s) (s_lit s) false
    else mkS (s_parts s) cur (s_depth s) (s_uri s) (s_lit s) false
  else if is_ws4 c && (s_depth s =? 0) && negb (s_uri s) && negb (s_lit s) then
    let t := trim (rev (s_cur s)) in
    if is_empty t then s else mkS (t :: s_parts s) [] (s_depth s) (s_uri s) (s_lit s) false
  else mkS (s_parts s) (c :: s_cur s) (s_depth s) (s_uri s) (s_lit s) false.

Definition split_quoted (content : str) : str * str * str :=
  let s := fold_left s_step content (mkS [] [] 0 false false false) in
  let t := trim (rev (s_cur s)) in
  let parts := rev (if is_empty t then s_parts s else t :: s_parts s) in
  match parts with
  | a :: b :: c :: r => (a, b, join_sp (c :: r))
  | [a; b] => (a, b, [])
  | [a] => (a, [], [])
  | [] => ([], [], [])
  end.

(* ------------------------------------------------------------------------------------------ *)
(* encode_term_star                                                                            *)
(* the non-quoted branch: what string is handed to Dictionary::encode *)
Definition star_clean (trimmed : str) : str :=
  if starts_with_c cLT trimmed && ends_with_c cGT trimmed then strip1 trimmed
  else if starts_with_c cDQ trimmed then
    match decode_literal trimmed with
    | Some (v, _) => v
    | None => tm_char cDQ trimmed
    end
  else trimmed.

Fixpoint encode_term_star (fuel : nat) (x : db) (term : str) : db * N :=
  let trimmed := trim term in
  match fuel with
  | O => db_encode x (star_clean trimmed)          (* unreachable: fuel = length of the term + 1 *)
  | S f =>
      if starts_with sLTLT trimmed && ends_with sGTGT trimmed then
        let inner := trim (strip2 trimmed) in
        let '(ss, ps, os) := split_quoted inner in
        let (x1, si) := encode_term_star f x ss in
        let (x2, pi) := encode_term_star f x1 ps in
        let (x3, oi) := encode_term_star f x2 os in
        let (q, i) := qts_encode (d_qts x3) (si, pi, oi) in
        (set_qts x3 q, i)
      else db_encode x (star_clean trimmed)
  end.
Definition encode_star (x : db) (term : str) : db * N := encode_term_star (S (length term)) x term.

(* Dictionary::decode_term / SparqlDatabase::decode_any *)
Definition sQOPEN : str := [cLT; cLT; cSP].
Definition sQCLOSE : str := [cSP; cGT; cGT].
Fixpoint decode_term (fuel : nat) (x : db) (i : N) : option str :=
  if is_quoted i then
    match fuel with
    | O => None
    | S f =>
        match assoc_n i (i2c (d_qts x)) with
        | Some (s, p, o) =>
            match decode_term f x s, decode_term f x p, decode_term f x o with
            | Some a, Some b, Some c => Some (sQOPEN ++ a ++ cSP :: b ++ cSP :: c ++ sQCLOSE)
            | _, _, _ => None
            end
        | None => None
        end
    end
  else dict_decode (d_dict x) i.
Definition decode_any (x : db) (i : N) : option str := decode_term (S (length (i2c (d_qts x)))) x i.

(* the observable: lexical quads *)
Definition lquad := (option str * option str * option str * option (option str))%type.
Definition den_quad (x : db) (q : quad) : lquad :=
  let '(s, p, o, g) := q in
  (decode_any x s, decode_any x p, decode_any x o,
   match g with None => None | Some gi => Some (dict_decode (d_dict x) gi) end).
Definition den (x : db) : list lquad := map (den_quad x) (d_quads x).

(* ========================================================================================== *)
(* parse_ntriples_and_add = parse_ntriples ; encode_triples ; add_triple                       *)
(* encode_cleaned_term: a term the line loaders have already cleaned is interned as it is; only what looks like
   a quoted triple is parsed again *)
Definition encode_cleaned (x : db) (term : str) : db * N :=
  if starts_with sLTLT term && ends_with sGTGT term then encode_star x term else db_encode x term.

Definition encode_triple (x : db) (t : str * str * str) : db * (N * N * N) :=
  let '(s, p, o) := t in
  let (x1, si) := encode_cleaned x s in
  let (x2, pi) := encode_cleaned x1 p in
  let (x3, oi) := encode_cleaned x2 o in
  (x3, (si, pi, oi)).

Fixpoint encode_list (x : db) (l : list (str * str * str)) : db * list (N * N * N) :=
  match l with
  | [] => (x, [])
  | t :: r => let (x1, e) := encode_triple x t in
              let (x2, es) := encode_list x1 r in (x2, e :: es)
  end.
(* encode_triples: the nested loop over the per-chunk vectors, in order *)
Definition encode_triples (x : db) (parts : list (list (str * str * str))) : db * list (N * N * N) :=
  encode_list x (concat parts).

Definition load_nt_n (n : nat) (lines : list str) (x : db) : db :=
  let (x1, es) := encode_triples x (parse_ntriples_n n lines) in
  fold_left add_triple es x1.
Definition load_nt (lines : list str) (x : db) : db := load_nt_n CHUNK lines x.

(* parse_nquads_and_add: sequential; the graph label is interned first, verbatim *)
Definition load_nq_stmt (x : db) (t : str * str * str * option str) : db :=
  let '(s, p, o, g) := t in
  match g with
  | Some gs =>
      let (x0, gi) := db_encode x gs in
      let (x1, si) := encode_cleaned x0 s in
      let (x2, pi) := encode_cleaned x1 p in
      let (x3, oi) := encode_cleaned x2 o in
      add_quad x3 (si, pi, oi, Some gi)
  | None =>
      let (x1, si) := encode_cleaned x s in
      let (x2, pi) := encode_cleaned x1 p in
      let (x3, oi) := encode_cleaned x2 o in
      add_quad x3 (si, pi, oi, None)
  end.
Definition load_nq (lines : list str) (x : db) : db :=
  fold_left load_nq_stmt (flat_map nq_line lines) x.

(* ========================================================================================== *)
(* parse_n3                                                                                    *)
Definition sPREFIX : str := [64;112;114;101;102;105;120].      (* "@prefix" *)
Definition sHTTP : str := [104;116;116;112;58;47;47].           (* "http://" *)
Definition sHTTPS : str := [104;116;116;112;115;58;47;47].      (* "https://" *)

(* the prefix-name branch shared by resolve_term / resolve_query_term *)
Definition expand_prefixed (pref : list (str * str)) (term : str) : str :=
  match find_c cCOLON term with
  | Some (p, local) => match assoc_s p pref with Some uri => uri ++ local | None => term end
  | None => term
  end.

Fixpoint resolve_term (fuel : nat) (pref : list (str * str)) (term : str) : str :=
  if starts_with_c cLT term && ends_with_c cGT term then tem_char cGT (tsm_char cLT term)
  else if starts_with_c cDQ term then
    match rfind_c cDQ term with
    | Some (literal, rest) =>
        if starts_with sCC rest then
          match fuel with
          | O => literal
          | S f => literal ++ sCC ++ resolve_term f pref (trim (skipn 2 rest))
          end
        else if starts_with_c cAT rest then literal ++ rest
        else literal
    | None => term
    end
  else if contains_c cCOLON term && negb (starts_with sHTTP term) && negb (starts_with sHTTPS term) then
    expand_prefixed pref term
  else term.

Definition sSEMI : str := [cSEMI].  Definition sDOT : str := [cDOT].  Definition sCOMMA : str := [cCOMMA].
Definition is_delim (t : str) : bool := str_eqb t sSEMI || str_eqb t sDOT || str_eqb t sCOMMA.

Inductive n3state := NSubj | NPred | NObj.

(* the object branch: collect tokens until ';' '.' ',' *)
Fixpoint collect_obj (obj : str) (toks : list str) : str * list str :=
  match toks with
  | [] => (obj, [])
  | t :: r => if is_delim t then (obj, toks) else collect_obj (obj ++ cSP :: t) r
  end.

Definition n3_add (x : db) (s p o : str) : db :=
  let fuel := S (length s + length p + length o) in
  let rs := resolve_term fuel (d_pref x) s in
  let rp := resolve_term fuel (d_pref x) p in
  let ro := resolve_term fuel (d_pref x) o in
  let (x1, si) := db_encode x rs in
  let (x2, pi) := db_encode x1 rp in
  let (x3, oi) := db_encode x2 ro in
  add_triple x3 (si, pi, oi).

Fixpoint parse_statement_aux (fuel : nat) (x : db) (st : n3state) (subj pred : str) (toks : list str) : db :=
  match fuel with
  | O => x
  | S f =>
      match toks with
      | [] => x
      | t :: r =>
          if str_eqb t sSEMI then parse_statement_aux f x NPred subj [] r
          else if str_eqb t sDOT then x
          else match st with
               | NSubj => parse_statement_aux f x NPred t pred r
               | NPred => parse_statement_aux f x NObj subj t r
               | NObj => let (obj, r') := collect_obj t r in
                         parse_statement_aux f (n3_add x subj pred obj) NPred subj pred r'
               end
      end
  end.
Definition parse_statement (x : db) (statement : str) : db :=
  let toks := split_ws statement in
  parse_statement_aux (S (length toks)) x NSubj [] [] toks.

(* the `@prefix` branch (same text in parse_n3 and, with PREFIX added, in parse_turtle) *)
Definition prefix_decl (x : db) (decl : str) : db :=
  match split_ws decl with
  | a :: b :: _ => set_pref x ((tem_char cCOLON a, tem_char cGT (tsm_char cLT b)) :: d_pref x)
  | _ => x
  end.

(* one line of a chunk; the accumulator is (local database, pending statement text) *)
Definition n3_line (acc : db * str) (raw : str) : db * str :=
  let (x, stmt) := acc in
  let line := match find_c cHASH raw with Some (a, _) => trim a | None => raw end in
  if is_empty line then acc
  else if starts_with sPREFIX line then
    (prefix_decl x (tem_char cDOT (tsm_str (S (length line)) sPREFIX line)), stmt)
  else
    let stmt' := stmt ++ line ++ [cSP] in
    if ends_with_c cDOT line then (parse_statement x (trim stmt'), []) else (x, stmt').

(* one rayon task of parse_n3: a private database *)
Definition n3_chunk (chunk : list str) : db := fst (fold_left n3_line chunk (db_new, [])).

(* the sequential tail of parse_n3: add the chunk's triples WITH THE CHUNK'S LOCAL IDS, then merge
   the chunk's dictionary into self (keep-first), then copy the prefixes *)
Definition n3_absorb (self : db) (loc : db) : db :=
  let triples := filter (fun q => match snd q with None => true | Some _ => false end) (d_quads loc) in
  let self1 := fold_left add_quad triples self in
  let self2 := set_dict self1 (dict_merge (d_dict self1) (d_dict loc)) in
  set_pref self2 (d_pref loc ++ d_pref self2).

Definition load_n3_n (n : nat) (lines : list str) (x : db) : db :=
  fold_left n3_absorb (map n3_chunk (chunks n (map trim lines))) x.
Definition load_n3 (lines : list str) (x : db) : db := load_n3_n CHUNK lines x.

(* ========================================================================================== *)
(* parse_turtle (line by line)                      *)
Record tst := mkT { t_toks : list str; t_cur : str; t_depth : N; t_uri : bool; t_lit : bool; t_esc : bool; t_skip : bool }.

Definition t_tok (s : tst) : tst :=      (* let trimmed = current.trim(); if !trimmed.is_empty() { push; clear } *)
  let t := trim (rev (t_cur s)) in
  if is_empty t then s else mkT (t :: t_toks s) [] (t_depth s) (t_uri s) (t_lit s) (t_esc s) (t_skip s).
Definition t_tok_always (s : tst) : tst :=   (* tokens.push(current.trim()); current.clear() *)
  mkT (trim (rev (t_cur s)) :: t_toks s) [] (t_depth s) (t_uri s) (t_lit s) (t_esc s) (t_skip s).
Definition t_push (c : N) (s : tst) : tst :=
  mkT (t_toks s) (c :: t_cur s) (t_depth s) (t_uri s) (t_lit s) (t_esc s) (t_skip s).

Definition t_step (s : tst) (c : N) (nx : option N) : tst :=
  if t_skip s then mkT (t_toks s) (t_cur s) (t_depth s) (t_uri s) (t_lit s) (t_esc s) false
  else if t_esc s then mkT (t_toks s) (c :: t_cur s) (t_depth s) (t_uri s) (t_lit s) false false
  else if (c =? cBS) && t_lit s then mkT (t_toks s) (c :: t_cur s) (t_depth s) (t_uri s) (t_lit s) true false
  else if (c =? cDQ) && ((negb (t_uri s) && (t_depth s =? 0)) || (0 <? t_depth s)) then
    mkT (t_toks s) (c :: t_cur s) (t_depth s) (t_uri s) (negb (t_lit s)) false false
  else if (c =? cLT) && negb (t_lit s) then
    if opt_is cLT nx && negb (t_uri s) then
      mkT (t_toks s) (cLT :: cLT :: t_cur s) (t_depth s + 1) (t_uri s) (t_lit s) false true
    else if 0 <? t_depth s then
      if opt_is cLT nx then mkT (t_toks s) (cLT :: cLT :: t_cur s) (t_depth s + 1) (t_uri s) (t_lit s) false true
      else t_push cLT s
    else mkT (t_toks s) (cLT :: t_cur s) (t_depth s) true (t_lit s) false false
  else if (c =? cGT) && negb (t_lit s) then
    if (0 <? t_depth s) && negb (t_uri s) then
      if opt_is cGT nx then
        let s' := mkT (t_toks s) (cGT :: cGT :: t_cur s) (t_depth s - 1) (t_uri s) (t_lit s) false true in
        if t_depth s' =? 0 then t_tok_always s' else s'
      else t_push cGT s
    else if t_uri s then
      let s' := mkT (t_toks s) (cGT :: t_cur s) (t_depth s) false (t_lit s) false false in
      if t_depth s' =? 0 then t_tok_always s' else s'
    else t_push cGT s
  else if ((c =? cSEMI) || (c =? cCOMMA) || (c =? cDOT)) && (t_depth s =? 0) && negb (t_uri s) && negb (t_lit s) then
    let s' := t_tok s in
    mkT ([c] :: t_toks s') (t_cur s') (t_depth s') (t_uri s') (t_lit s') (t_esc s') false
  else if is_ws4 c && (t_depth s =? 0) && negb (t_uri s) && negb (t_lit s) then t_tok s
  else t_push c s.

Fixpoint t_scan (s : tst) (l : str) : tst :=
  match l with
  | [] => s
  | c :: r => t_scan (t_step s c (hd_error r)) r
  end.
Definition turtle_tokens (line : str) : list str :=
  rev (t_toks (t_tok (t_scan (mkT [] [] 0 false false false false) line))).

Definition clean_turtle_term (term0 : str) : str :=
  let term := trim term0 in
  if starts_with sLTLT term then term
  else if starts_with_c cLT term && ends_with_c cGT term then strip1 term
  else if starts_with_c cDQ term then
    match decode_literal term with
    | Some (v, []) => v
    | Some (v, rest) =>
        if starts_with sCC rest then v
        else if starts_with_c cAT rest then v ++ rest
        else if Nat.leb 2 (length term) && ends_with_c cDQ term then strip1 term
        else tm_char cDQ term
    | None =>
        if Nat.leb 2 (length term) && ends_with_c cDQ term then strip1 term
        else tm_char cDQ term
    end
  else tm_char cDQ term.

Definition resolve_query_term (pref : list (str * str)) (term : str) : str :=
  if starts_with sLTLT term && ends_with sGTGT term then term
  else if starts_with_c cLT term && ends_with_c cGT term then tem_char cGT (tsm_char cLT term)
  else if starts_with_c cDQ term && ends_with_c cDQ term then tm_char cDQ term
  else if contains_c cCOLON term && negb (starts_with sHTTP term) && negb (starts_with sHTTPS term) then
    expand_prefixed pref term
  else term.

(* flush_object: the `{| p o |}` annotation of the object, looked for after a leading quoted literal *)
Definition sANN_OPEN : str := [cLBRACE; cBAR].
Definition sANN_CLOSE : str := [cBAR; 125].
Definition split_annotation (object_raw : str) : str * list (str * str) :=
  let after_literal :=
    if starts_with_c cDQ object_raw then
      match decode_literal object_raw with
      | Some (_, rest) => (length object_raw - length rest)%nat
      | None => O
      end
    else O in
  match find_sub sANN_OPEN (skipn after_literal object_raw) with
  | Some (before, after) =>
      let obj := trim (firstn after_literal object_raw ++ before) in
      match find_sub sANN_CLOSE after with
      | Some (content, _) =>
          match split_first_ws (trim content) with
          | Some (a, b) => (obj, [(a, b)])
          | None => (obj, [])
          end
      | None => (object_raw, [])
      end
  | None => (object_raw, [])
  end.

Definition ttl_annotate (pref : list (str * str)) (s p o : str) (x : db) (ann : str * str) : db :=
  let qt_str := sQOPEN ++ s ++ cSP :: p ++ cSP :: o ++ sQCLOSE in
  let (x1, qi) := encode_star x qt_str in
  let (x2, pi) := encode_star x1 (resolve_query_term pref (clean_turtle_term (fst ann))) in
  let (x3, oi) := encode_star x2 (resolve_query_term pref (clean_turtle_term (snd ann))) in
  add_triple x3 (qi, pi, oi).

Definition ttl_flush (x : db) (subj pred : option str) (objs : list str) : db * list str :=
  match subj, pred with
  | Some s_raw, Some p_raw =>
      match objs with
      | [] => (x, objs)
      | _ =>
          let object_raw := join_sp (rev objs) in
          let (object_part, anns) := split_annotation object_raw in
          let pref := d_pref x in
          let s := resolve_query_term pref (clean_turtle_term s_raw) in
          let p := resolve_query_term pref (clean_turtle_term p_raw) in
          let o := resolve_query_term pref (clean_turtle_term object_part) in
          let xm :=
            if starts_with sLTLT s || starts_with sLTLT o then
              let (x1, si) := encode_star x s in
              let (x2, pi) := encode_star x1 p in
              let (x3, oi) := encode_star x2 o in
              add_triple x3 (si, pi, oi)
            else
              let (x1, si) := db_encode x s in
              let (x2, pi) := db_encode x1 p in
              let (x3, oi) := db_encode x2 o in
              add_triple x3 (si, pi, oi) in
          (fold_left (ttl_annotate pref s p o) anns xm, [])
      end
  | _, _ => (x, objs)
  end.

Record tloop := mkL { l_db : db; l_subj : option str; l_pred : option str; l_objs : list str (* reversed *);
                      l_es : bool; l_ep : bool; l_eo : bool }.

Definition ttl_token (a : tloop) (tok : str) : tloop :=
  if str_eqb tok sDOT then
    let (x, objs) := ttl_flush (l_db a) (l_subj a) (l_pred a) (l_objs a) in
    mkL x None None objs true false false
  else if str_eqb tok sSEMI then
    let (x, objs) := ttl_flush (l_db a) (l_subj a) (l_pred a) (l_objs a) in
    mkL x (l_subj a) None objs (l_es a) true false
  else if str_eqb tok sCOMMA then
    let (x, objs) := ttl_flush (l_db a) (l_subj a) (l_pred a) (l_objs a) in
    mkL x (l_subj a) (l_pred a) objs (l_es a) (l_ep a) true
  else if l_es a then mkL (l_db a) (Some tok) (l_pred a) (l_objs a) false true (l_eo a)
  else if l_ep a then mkL (l_db a) (l_subj a) (Some tok) (l_objs a) (l_es a) false true
  else mkL (l_db a) (l_subj a) (l_pred a) (tok :: l_objs a) (l_es a) (l_ep a) (l_eo a).

Definition sPREFIX_UP : str := [80;82;69;70;73;88].      (* "PREFIX" *)

Definition ttl_line (x : db) (raw : str) : db :=
  let line := trim raw in
  if is_empty line || starts_with_c cHASH line then x
  else if starts_with sPREFIX line || starts_with sPREFIX_UP line then
    let fuel := S (length line) in
    prefix_decl x (trim (tem_char cDOT (tsm_str fuel sPREFIX_UP (tsm_str fuel sPREFIX line))))
  else
    let a := fold_left ttl_token (turtle_tokens line) (mkL x None None [] true false false) in
    fst (ttl_flush (l_db a) (l_subj a) (l_pred a) (l_objs a)).

Definition load_ttl (lines : list str) (x : db) : db := fold_left ttl_line lines x.

(* ========================================================================================== *)
(* building a prior database directly (Dictionary::encode of four bare strings + add_quad)     *)
Definition add_lex (x : db) (s p o : str) (g : option str) : db :=
  let (x1, si) := db_encode x s in
  let (x2, pi) := db_encode x1 p in
  let (x3, oi) := db_encode x2 o in
  match g with
  | None => add_quad x3 (si, pi, oi, None)
  | Some gs => let (x4, gi) := db_encode x3 gs in add_quad x4 (si, pi, oi, Some gi)
  end.
