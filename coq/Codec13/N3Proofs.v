(* parse_n3 on a document of at most one chunk, loaded into a database with an empty dictionary, adds
   exactly the document's triples (the side of known_C13_n3 on which the loader is right). *)
Require Import KV.Codec13.Model KV.Codec13.Spec KV.Codec13.Wf KV.Codec13.Classes KV.Codec13.Inv.
Require Import KV.Codec13.StrProofs KV.Codec13.TokProofs KV.Codec13.DictProofs.
Require Import Lia PeanoNat.

(* ---------------------------------------------------------------------------------------------- *)
(* split_whitespace *)
Definition nws (c : N) : bool := negb (is_ws c).

Lemma split_token : forall t cur r, forallb nws t = true ->
  split_ws_aux cur (t ++ r) = split_ws_aux (rev t ++ cur) r.
Proof.
  induction t as [|c t IH]; intros cur r H; [reflexivity|].
  cbn [forallb] in H. apply andb_true_iff in H. destruct H as [Hc H]. unfold nws in Hc. apply negb_true_iff in Hc.
  cbn [app split_ws_aux]. rewrite Hc. rewrite IH by exact H. cbn [rev]. rewrite <- app_assoc. reflexivity.
Qed.

Lemma split_skip : forall w r, forallb is_ws w = true -> split_ws_aux [] (w ++ r) = split_ws_aux [] r.
Proof.
  induction w as [|c w IH]; intros r H; [reflexivity|].
  cbn [forallb] in H. apply andb_true_iff in H. destruct H as [Hc H].
  cbn [app split_ws_aux]. rewrite Hc. apply IH. exact H.
Qed.

Lemma split_sep : forall w cur r, ws1_ok w = true -> cur <> [] ->
  split_ws_aux cur (w ++ r) = rev cur :: split_ws_aux [] r.
Proof.
  intros w cur r H Hc. unfold ws1_ok in H. apply andb_true_iff in H. destruct H as [Hne H].
  destruct w as [|c w]; [discriminate|]. cbn [forallb] in H. apply andb_true_iff in H. destruct H as [Hcw H].
  cbn [app split_ws_aux]. rewrite Hcw. destruct cur as [|x cur]; [contradiction|].
  f_equal. apply split_skip. exact H.
Qed.

Lemma split_end : forall cur, cur <> [] -> split_ws_aux cur [] = [rev cur].
Proof. intros [|x cur] H; [contradiction | reflexivity]. Qed.

(* tokens separated by white space *)
Lemma split_tokens : forall (ts : list (str * str)) (last : str),
  Forall (fun tw => forallb nws (fst tw) = true /\ fst tw <> [] /\ ws1_ok (snd tw) = true) ts ->
  forallb nws last = true -> last <> [] ->
  split_ws (flat_map (fun tw => fst tw ++ snd tw) ts ++ last) = map fst ts ++ [last].
Proof.
  unfold split_ws. induction 1 as [|[t w] ts (Ht & Hne & Hw) Hts IH]; intros Hl Hnl.
  - cbn [flat_map app map]. rewrite <- (app_nil_r last) at 1. rewrite split_token by exact Hl.
    rewrite app_nil_r. rewrite split_end; [rewrite rev_involutive; reflexivity|].
    intro E. apply (f_equal (@rev N)) in E. rewrite rev_involutive in E. contradiction.
  - cbn [flat_map map fst snd app]. rewrite <- !app_assoc. rewrite split_token by exact Ht. rewrite app_nil_r.
    rewrite split_sep; [| exact Hw |].
    + rewrite rev_involutive. f_equal. apply IH; assumption.
    + intro E. apply (f_equal (@rev N)) in E. rewrite rev_involutive in E. contradiction.
Qed.

(* ---------------------------------------------------------------------------------------------- *)
(* find, trim_matches on strings without the character *)
Lemma find_c_none : forall c s, forallb (fun x => negb (x =? c)) s = true -> find_c c s = None.
Proof.
  induction s as [|x s IH]; intro H; [reflexivity|].
  cbn [forallb] in H. apply andb_true_iff in H. destruct H as [Hx H]. apply negb_true_iff in Hx.
  cbn [find_c]. rewrite Hx. rewrite IH by exact H. reflexivity.
Qed.

Lemma find_c_first : forall c p l, forallb (fun x => negb (x =? c)) p = true -> find_c c (p ++ c :: l) = Some (p, l).
Proof.
  induction p as [|x p IH]; intros l H.
  - cbn [app find_c]. rewrite N.eqb_refl. reflexivity.
  - cbn [forallb] in H. apply andb_true_iff in H. destruct H as [Hx H]. apply negb_true_iff in Hx.
    cbn [app find_c]. rewrite Hx. rewrite IH by exact H. reflexivity.
Qed.

Lemma tsm_char_id : forall c s, match s with [] => True | x :: _ => (c =? x) = false end -> tsm_char c s = s.
Proof. intros c [|x s] H; [reflexivity|]. unfold tsm_char. cbn [drop_while]. rewrite H. reflexivity. Qed.

Lemma tem_char_id : forall c s, match rev s with [] => True | x :: _ => (c =? x) = false end -> tem_char c s = s.
Proof.
  intros c s H. unfold tem_char. destruct (rev s) as [|x r] eqn:E.
  - apply (f_equal (@rev N)) in E. rewrite rev_involutive in E. subst s. reflexivity.
  - cbn [drop_while]. rewrite H. rewrite <- E. apply rev_involutive.
Qed.

Lemma tem_char_snoc : forall c s, match rev s with [] => True | x :: _ => (c =? x) = false end ->
  tem_char c (s ++ [c]) = s.
Proof.
  intros c s H. unfold tem_char. rewrite rev_unit. cbn [drop_while]. rewrite N.eqb_refl.
  fold (tem_char c s). apply tem_char_id. exact H.
Qed.

Lemma last_char_ok : forall (P : N -> bool) c s, forallb P s = true -> (forall x, P x = true -> (c =? x) = false) ->
  match rev s with [] => True | x :: _ => (c =? x) = false end.
Proof.
  intros P c s H HP. rewrite <- forallb_rev in H. destruct (rev s) as [|x r]; [exact I|].
  cbn [forallb] in H. apply andb_true_iff in H. destruct H as [H _]. apply HP. exact H.
Qed.

Lemma first_char_ok : forall (P : N -> bool) c s, forallb P s = true -> (forall x, P x = true -> (c =? x) = false) ->
  match s with [] => True | x :: _ => (c =? x) = false end.
Proof.
  intros P c [|x s] H HP; [exact I|]. cbn [forallb] in H. apply andb_true_iff in H. destruct H as [H _]. apply HP. exact H.
Qed.

(* ---------------------------------------------------------------------------------------------- *)
(* character classes of the N3 subset *)
Lemma n3_char_facts : forall c, n3_char c = true ->
  is_ws c = false /\ (c =? cLT) = false /\ (c =? cGT) = false /\ (c =? cDQ) = false /\ (c =? cHASH) = false.
Proof.
  intros c H. unfold n3_char in H. apply andb_true_iff in H. destruct H as [H1 H2]. apply negb_true_iff in H2.
  apply iri_char_facts in H1. destruct H1 as (A & B & C & D & _). auto.
Qed.

Lemma name_char_facts : forall c, name_char c = true ->
  is_ws c = false /\ (c =? cLT) = false /\ (c =? cDQ) = false /\ (c =? cHASH) = false /\ (c =? cCOLON) = false /\
  (c =? cAT) = false /\ (c =? cSEMI) = false /\ (c =? cDOT) = false /\ (c =? cCOMMA) = false.
Proof.
  intros c H. assert (T : tag_char c = true) by (unfold tag_char; unfold name_char in H; rewrite H; reflexivity).
  split; [apply tag_char_nws; exact T|].
  unfold name_char, is_ascii_alnum in H. rewrite !orb_true_iff, !andb_true_iff, !N.leb_le in H.
  repeat split; apply N.eqb_neq; intro E; subst c; vm_compute in H; intuition discriminate.
Qed.

(* ---------------------------------------------------------------------------------------------- *)
(* the text of an N3 term *)
Definition nohash (c : N) : bool := negb (c =? cHASH).

Lemma n3_chars_nws : forall s, forallb n3_char s = true -> forallb nws s = true /\ forallb nohash s = true.
Proof.
  induction s as [|c s IH]; intro H; [split; reflexivity|].
  cbn [forallb] in *. apply andb_true_iff in H. destruct H as [Hc H]. destruct (IH H) as [I1 I2].
  apply n3_char_facts in Hc. destruct Hc as (A & _ & _ & _ & E). rewrite I1, I2. unfold nws, nohash. rewrite A, E. split; reflexivity.
Qed.

Lemma name_chars_nws : forall s, forallb name_char s = true -> forallb nws s = true /\ forallb nohash s = true.
Proof.
  induction s as [|c s IH]; intro H; [split; reflexivity|].
  cbn [forallb] in *. apply andb_true_iff in H. destruct H as [Hc H]. destruct (IH H) as [I1 I2].
  apply name_char_facts in Hc. destruct Hc as (A & _ & _ & E & _). rewrite I1, I2. unfold nws, nohash. rewrite A, E. split; reflexivity.
Qed.

Lemma n3_term_text : forall t, wf_term_n3 t = true ->
  forallb nws (render_term t) = true /\ forallb nohash (render_term t) = true /\
  exists c r, render_term t = c :: r /\ (c = cLT \/ name_char c = true \/ c = cCOLON).
Proof.
  intros t H. destruct t as [s|l|p l|b x|s p o]; cbn [wf_term_n3] in H; try discriminate.
  - destruct (n3_chars_nws s H) as [A B]. cbn [render_term].
    split; [|split].
    + cbn [forallb]. rewrite forallb_app, A. reflexivity.
    + cbn [forallb]. rewrite forallb_app, B. reflexivity.
    + exists cLT, (s ++ [cGT]). auto.
  - repeat (apply andb_true_iff in H; destruct H as [H ?]).
    destruct (name_chars_nws p H) as [A B]. destruct (name_chars_nws l H2) as [A' B']. cbn [render_term].
    split; [|split].
    + rewrite forallb_app. cbn [forallb]. rewrite A, A'. reflexivity.
    + rewrite forallb_app. cbn [forallb]. rewrite B, B'. reflexivity.
    + destruct p as [|c p']; cbn [app]; [eauto 6|]. cbn [forallb] in H. apply andb_true_iff in H. destruct H as [Hc _]. eauto 6.
Qed.

Lemma first_kind_facts : forall c, (c = cLT \/ name_char c = true \/ c = cCOLON) ->
  is_ws c = false /\ (c =? cHASH) = false /\ (c =? cAT) = false /\ (c =? cSEMI) = false /\ (c =? cDOT) = false /\ (c =? cCOMMA) = false.
Proof.
  intros c [H|[H|H]]; [subst c; repeat split; reflexivity | | subst c; repeat split; reflexivity].
  apply name_char_facts in H. destruct H as (A & _ & _ & B & _ & C & D & E & F). auto 10.
Qed.

Lemma n3_term_not_delim : forall t, wf_term_n3 t = true ->
  str_eqb (render_term t) sSEMI = false /\ str_eqb (render_term t) sDOT = false /\ is_delim (render_term t) = false.
Proof.
  intros t H. destruct (n3_term_text t H) as (_ & _ & c & r & E & Hc). rewrite E.
  destruct (first_kind_facts c Hc) as (_ & _ & _ & S & D & C).
  unfold is_delim, sSEMI, sDOT, sCOMMA. cbn [str_eqb]. rewrite S, D, C. auto.
Qed.

(* ---------------------------------------------------------------------------------------------- *)
(* resolve_term on the text of a term = its lexical form under the same prefix table *)
Lemma resolve_iri : forall f pref s, forallb n3_char s = true -> resolve_term f pref (cLT :: s ++ [cGT]) = s.
Proof.
  intros f pref s H. destruct f; cbn [resolve_term]; rewrite starts_with_c_cons;
    change (cLT :: s ++ [cGT]) with ((cLT :: s) ++ [cGT]); rewrite ends_with_c_snoc;
    change (cLT =? cLT) with true; change (cGT =? cGT) with true; cbn [andb];
    change ((cLT :: s) ++ [cGT]) with (cLT :: s ++ [cGT]).
  all: unfold tsm_char; cbn [drop_while]; change (cLT =? cLT) with true; cbv iota.
  all: fold (tsm_char cLT (s ++ [cGT])).
  all: rewrite tsm_char_id.
  all: try (apply tem_char_snoc; apply (last_char_ok n3_char); [exact H|]; intros x Hx; apply n3_char_facts in Hx; destruct Hx as (_ & _ & G & _); rewrite N.eqb_sym; exact G).
  all: destruct s as [|x s']; [reflexivity|]; cbn [app forallb] in *; apply andb_true_iff in H; destruct H as [Hx _];
       apply n3_char_facts in Hx; destruct Hx as (_ & L & _); rewrite N.eqb_sym; exact L.
Qed.

Lemma contains_colon : forall p l, contains_c cCOLON (p ++ cCOLON :: l) = true.
Proof. intros p l. unfold contains_c. rewrite existsb_app. cbn [existsb]. rewrite N.eqb_refl. rewrite orb_true_r. reflexivity. Qed.

Lemma resolve_pname : forall f pref p l,
  wf_term_n3 (TPname p l) = true -> resolve_term f pref (p ++ cCOLON :: l) = lex pref (TPname p l).
Proof.
  intros f pref p l H. cbn [wf_term_n3] in H. repeat (apply andb_true_iff in H; destruct H as [H ?]).
  apply negb_true_iff in H0, H1.
  assert (F : exists c r, p ++ cCOLON :: l = c :: r /\ (name_char c = true \/ c = cCOLON)).
  { destruct p as [|c p']; cbn [app]; [eauto|]. cbn [forallb] in H. apply andb_true_iff in H. destruct H as [Hc _]. eauto. }
  destruct F as (c & r & E & Hc).
  assert (K : (c =? cLT) = false /\ (c =? cDQ) = false).
  { destruct Hc as [Hc|Hc]; [apply name_char_facts in Hc; destruct Hc as (_ & A & B & _); auto | subst c; auto]. }
  destruct K as [K1 K2].
  assert (R : resolve_term f pref (p ++ cCOLON :: l) = expand_prefixed pref (p ++ cCOLON :: l)).
  { assert (S1 : starts_with_c cLT (p ++ cCOLON :: l) = false) by (rewrite E; exact K1).
    assert (S2 : starts_with_c cDQ (p ++ cCOLON :: l) = false) by (rewrite E; exact K2).
    destruct f; cbn [resolve_term]; rewrite S1, S2; cbn [andb];
      rewrite contains_colon; unfold sHTTP_, sHTTPS_ in *; unfold sHTTP, sHTTPS; rewrite H1, H0; reflexivity. }
  rewrite R. unfold expand_prefixed. rewrite find_c_first.
  - cbn [lex]. destruct (assoc_s p pref); reflexivity.
  - clear -H. induction p as [|x p IH]; [reflexivity|]. cbn [forallb] in *. apply andb_true_iff in H. destruct H as [Hx H].
    apply name_char_facts in Hx. destruct Hx as (_ & _ & _ & _ & C & _). rewrite C. cbn [negb andb]. apply IH. exact H.
Qed.

Lemma resolve_rendered : forall f pref t, wf_term_n3 t = true -> resolve_term f pref (render_term t) = lex pref t.
Proof.
  intros f pref t H. destruct t as [s|l|p l|b x|s p o]; try discriminate.
  - cbn [render_term lex]. apply resolve_iri. exact H.
  - cbn [render_term]. apply resolve_pname. exact H.
Qed.

(* ---------------------------------------------------------------------------------------------- *)
(* one statement line *)
Lemma ws_nohash : forall w, forallb is_ws w = true -> forallb nohash w = true.
Proof.
  induction w as [|c w IH]; intro H; [reflexivity|].
  cbn [forallb] in *. apply andb_true_iff in H. destruct H as [Hc H]. rewrite (IH H).
  unfold nohash. destruct (c =? cHASH) eqn:E; [apply N.eqb_eq in E; subst c; discriminate | reflexivity].
Qed.

Lemma ws1_parts : forall w, ws1_ok w = true -> forallb is_ws w = true.
Proof. intros w H. unfold ws1_ok in H. apply andb_true_iff in H. tauto. Qed.

Lemma n3_add_lex : forall x s p o, wf_term_n3 s = true -> wf_term_n3 p = true -> wf_term_n3 o = true ->
  n3_add x (render_term s) (render_term p) (render_term o)
  = add_lex x (lex (d_pref x) s) (lex (d_pref x) p) (lex (d_pref x) o) None.
Proof.
  intros x s p o Hs Hp Ho. unfold n3_add. rewrite !resolve_rendered by assumption. reflexivity.
Qed.

Lemma parse_statement_spo : forall x s p o w1 w2 w3,
  wf_term_n3 s = true -> wf_term_n3 p = true -> wf_term_n3 o = true ->
  ws1_ok w1 = true -> ws1_ok w2 = true -> ws1_ok w3 = true ->
  parse_statement x (render_term s ++ w1 ++ render_term p ++ w2 ++ render_term o ++ w3 ++ [cDOT])
  = add_lex x (lex (d_pref x) s) (lex (d_pref x) p) (lex (d_pref x) o) None.
Proof.
  intros x s p o w1 w2 w3 Hs Hp Ho H1 H2 H3. unfold parse_statement.
  destruct (n3_term_text s Hs) as (As & _ & cs & rs & Es & _).
  destruct (n3_term_text p Hp) as (Ap & _ & cp & rp & Ep & _).
  destruct (n3_term_text o Ho) as (Ao & _ & co & ro & Eo & _).
  assert (T : split_ws (render_term s ++ w1 ++ render_term p ++ w2 ++ render_term o ++ w3 ++ [cDOT])
              = [render_term s; render_term p; render_term o; [cDOT]]).
  { generalize (split_tokens [(render_term s, w1); (render_term p, w2); (render_term o, w3)] [cDOT]).
    cbn [flat_map map fst snd app]. rewrite <- !app_assoc. cbn [app]. intro G. apply G; [|reflexivity|discriminate].
    repeat constructor; cbn [fst snd]; try assumption; congruence. }
  rewrite T. cbn [length].
  destruct (n3_term_not_delim s Hs) as (S1 & S2 & _).
  destruct (n3_term_not_delim p Hp) as (P1 & P2 & _).
  destruct (n3_term_not_delim o Ho) as (O1 & O2 & _).
  cbn [parse_statement_aux]. rewrite S1, S2. cbn [parse_statement_aux]. rewrite P1, P2.
  cbn [parse_statement_aux]. rewrite O1, O2. cbn [collect_obj].
  change (is_delim [cDOT]) with true. cbv iota. cbn [parse_statement_aux].
  change (str_eqb [cDOT] sSEMI) with false. change (str_eqb [cDOT] sDOT) with true. cbv iota.
  apply n3_add_lex; assumption.
Qed.

Lemma n3_line_stmt : forall x pd s p o,
  wf_pad_n3 pd = true -> wf_term_n3 s = true -> wf_term_n3 p = true -> wf_term_n3 o = true ->
  n3_line (x, []) (trim (render_stmt pd s p o None))
  = (add_lex x (lex (d_pref x) s) (lex (d_pref x) p) (lex (d_pref x) o) None, []).
Proof.
  intros x pd s p o Hpd Hs Hp Ho. unfold wf_pad_n3 in Hpd. repeat (apply andb_true_iff in Hpd; destruct Hpd as [Hpd ?]).
  set (L := render_term s ++ w1 pd ++ render_term p ++ w2 pd ++ render_term o ++ w3 pd ++ [cDOT]).
  destruct (n3_term_text s Hs) as (As & Bs & cs & rs & Es & Ks).
  destruct (n3_term_text p Hp) as (Ap & Bp & _).
  destruct (n3_term_text o Ho) as (Ao & Bo & _).
  destruct (first_kind_facts cs Ks) as (F1 & F2 & F3 & _).
  assert (TL : tight L).
  { unfold L. rewrite Es. cbn [app]. apply tight_intro; [exact F1|].
    replace (cs :: rs ++ w1 pd ++ render_term p ++ w2 pd ++ render_term o ++ w3 pd ++ [cDOT])
      with ((cs :: rs ++ w1 pd ++ render_term p ++ w2 pd ++ render_term o ++ w3 pd) ++ [cDOT])
      by (cbn [app]; rewrite <- !app_assoc; reflexivity).
    apply last_nws_snoc. reflexivity. }
  assert (E1 : trim (render_stmt pd s p o None) = L).
  { unfold render_stmt. cbn [app].
    replace (w0 pd ++ render_term s ++ w1 pd ++ render_term p ++ w2 pd ++ render_term o ++ w3 pd ++ cDOT :: w4 pd)
      with (w0 pd ++ L ++ w4 pd) by (unfold L; rewrite <- !app_assoc; reflexivity).
    apply trim_pad; assumption. }
  rewrite E1. unfold n3_line.
  assert (E2 : find_c cHASH L = None).
  { apply find_c_none. unfold L. rewrite !forallb_app. fold nohash.
    rewrite Bs, Bp, Bo, (ws_nohash _ (ws1_parts _ H2)), (ws_nohash _ (ws1_parts _ H1)), (ws_nohash _ (ws1_parts _ H0)). reflexivity. }
  rewrite E2.
  assert (E3 : is_empty L = false) by (unfold L; rewrite Es; reflexivity).
  assert (E4 : starts_with sPREFIX L = false).
  { unfold L. rewrite Es. unfold sPREFIX. cbn [app starts_with]. rewrite N.eqb_sym. change 64 with cAT. rewrite F3. reflexivity. }
  rewrite E3, E4. cbn [app].
  assert (E5 : ends_with_c cDOT L = true).
  { unfold L. rewrite !app_assoc. rewrite ends_with_c_snoc. reflexivity. }
  rewrite E5.
  assert (E6 : trim (L ++ [cSP]) = L).
  { generalize (trim_pad [] L [cSP] eq_refl eq_refl TL). cbn [app]. auto. }
  rewrite E6. unfold L. rewrite parse_statement_spo by assumption. reflexivity.
Qed.

(* ---------------------------------------------------------------------------------------------- *)
(* blank lines, comments, @prefix *)
Lemma n3_line_blank : forall x ws, ws_ok ws = true -> n3_line (x, []) (trim ws) = (x, []).
Proof. intros x ws H. rewrite trim_all_ws by exact H. reflexivity. Qed.

Lemma n3_line_comment : forall x ws text, ws_ok ws = true -> n3_line (x, []) (trim (ws ++ cHASH :: text)) = (x, []).
Proof.
  intros x ws text H. unfold trim, trim_start. rewrite drop_while_all by exact H.
  rewrite drop_while_stop by reflexivity. rewrite trim_end_cons by reflexivity.
  unfold n3_line. cbn [find_c]. change (cHASH =? cHASH) with true. cbv iota. reflexivity.
Qed.

Definition prefix_line (name iri : str) : str :=
  [64;112;114;101;102;105;120;cSP] ++ name ++ [cCOLON; cSP; cLT] ++ iri ++ [cGT; cSP; cDOT].

Lemma n3_line_prefix : forall x name iri, forallb name_char name = true -> forallb n3_char iri = true ->
  n3_line (x, []) (trim (prefix_line name iri)) = (set_pref x ((name, iri) :: d_pref x), []).
Proof.
  intros x name iri Hn Hi. destruct (name_chars_nws name Hn) as [An Bn]. destruct (n3_chars_nws iri Hi) as [Ai Bi].
  assert (T : trim (prefix_line name iri) = prefix_line name iri).
  { apply trim_tight. unfold prefix_line. cbn [app]. apply tight_intro; [reflexivity|].
    replace (64 :: 112 :: 114 :: 101 :: 102 :: 105 :: 120 :: cSP :: name ++ cCOLON :: cSP :: cLT :: iri ++ [cGT; cSP; cDOT])
      with ((64 :: 112 :: 114 :: 101 :: 102 :: 105 :: 120 :: cSP :: name ++ cCOLON :: cSP :: cLT :: iri ++ [cGT; cSP]) ++ [cDOT])
      by (cbn [app]; rewrite <- !app_assoc; cbn [app]; rewrite <- !app_assoc; reflexivity).
    apply last_nws_snoc. reflexivity. }
  rewrite T. unfold n3_line.
  assert (E2 : find_c cHASH (prefix_line name iri) = None).
  { apply find_c_none. unfold prefix_line. rewrite !forallb_app. fold nohash. rewrite Bn, Bi. reflexivity. }
  rewrite E2.
  assert (E3 : is_empty (prefix_line name iri) = false) by reflexivity. rewrite E3.
  assert (E4 : starts_with sPREFIX (prefix_line name iri) = true) by reflexivity. rewrite E4.
  (* strip "@prefix" once; what follows starts with a blank *)
  assert (E5 : tsm_str (S (length (prefix_line name iri))) sPREFIX (prefix_line name iri)
               = cSP :: name ++ [cCOLON; cSP; cLT] ++ iri ++ [cGT; cSP; cDOT]).
  { cbn [tsm_str]. change (is_empty sPREFIX) with false. rewrite E4. cbv iota.
    assert (K : skipn (length sPREFIX) (prefix_line name iri) = cSP :: name ++ [cCOLON; cSP; cLT] ++ iri ++ [cGT; cSP; cDOT]) by reflexivity.
    rewrite K. destruct (length (prefix_line name iri)); cbn [tsm_str]; reflexivity. }
  rewrite E5.
  (* strip the final dot *)
  assert (E6 : tem_char cDOT (cSP :: name ++ [cCOLON; cSP; cLT] ++ iri ++ [cGT; cSP; cDOT])
               = cSP :: name ++ [cCOLON; cSP; cLT] ++ iri ++ [cGT; cSP]).
  { replace (cSP :: name ++ [cCOLON; cSP; cLT] ++ iri ++ [cGT; cSP; cDOT])
      with ((cSP :: name ++ [cCOLON; cSP; cLT] ++ iri ++ [cGT; cSP]) ++ [cDOT])
      by (cbn [app]; rewrite <- !app_assoc; cbn [app]; rewrite <- !app_assoc; reflexivity).
    apply tem_char_snoc.
    replace (cSP :: name ++ [cCOLON; cSP; cLT] ++ iri ++ [cGT; cSP])
      with ((cSP :: name ++ [cCOLON; cSP; cLT] ++ iri ++ [cGT]) ++ [cSP])
      by (cbn [app]; rewrite <- !app_assoc; cbn [app]; rewrite <- !app_assoc; reflexivity).
    rewrite rev_unit. reflexivity. }
  rewrite E6.
  (* the two tokens *)
  assert (E7 : split_ws (cSP :: name ++ [cCOLON; cSP; cLT] ++ iri ++ [cGT; cSP]) = [name ++ [cCOLON]; cLT :: iri ++ [cGT]]).
  { unfold split_ws. change (cSP :: name ++ [cCOLON; cSP; cLT] ++ iri ++ [cGT; cSP]) with ([cSP] ++ name ++ [cCOLON; cSP; cLT] ++ iri ++ [cGT; cSP]).
    rewrite split_skip by reflexivity.
    replace (name ++ [cCOLON; cSP; cLT] ++ iri ++ [cGT; cSP]) with ((name ++ [cCOLON]) ++ [cSP] ++ (cLT :: iri ++ [cGT]) ++ [cSP] ++ [])
      by (rewrite <- !app_assoc; cbn [app]; rewrite <- !app_assoc; reflexivity).
    rewrite split_token by (rewrite forallb_app, An; reflexivity). rewrite app_nil_r.
    rewrite split_sep; [|reflexivity|].
    - rewrite rev_involutive. f_equal.
      rewrite split_token by (cbn [forallb]; rewrite forallb_app, Ai; reflexivity). rewrite app_nil_r.
      rewrite split_sep; [|reflexivity|].
      + rewrite rev_involutive. reflexivity.
      + intro E. apply (f_equal (@rev N)) in E. rewrite rev_involutive in E. discriminate.
    - intro E. apply (f_equal (@rev N)) in E. rewrite rev_involutive in E. destruct name; discriminate. }
  unfold prefix_decl. rewrite E7.
  assert (E8 : tem_char cCOLON (name ++ [cCOLON]) = name).
  { apply tem_char_snoc. apply (last_char_ok name_char); [exact Hn|]. intros c Hc.
    apply name_char_facts in Hc. destruct Hc as (_ & _ & _ & _ & C & _). rewrite N.eqb_sym. exact C. }
  assert (E9 : tem_char cGT (tsm_char cLT (cLT :: iri ++ [cGT])) = iri).
  { unfold tsm_char. cbn [drop_while]. change (cLT =? cLT) with true. cbv iota. fold (tsm_char cLT (iri ++ [cGT])).
    rewrite tsm_char_id.
    - apply tem_char_snoc. apply (last_char_ok n3_char); [exact Hi|]. intros c Hc.
      apply n3_char_facts in Hc. destruct Hc as (_ & _ & G & _). rewrite N.eqb_sym. exact G.
    - destruct iri as [|c iri']; [reflexivity|]. cbn [app forallb] in *. apply andb_true_iff in Hi. destruct Hi as [Hc _].
      apply n3_char_facts in Hc. destruct Hc as (_ & L & _). rewrite N.eqb_sym. exact L. }
  rewrite E8, E9. reflexivity.
Qed.

Lemma render_prefix : forall name iri, render_item (IPrefix name iri) = prefix_line name iri.
Proof. reflexivity. Qed.

(* ---------------------------------------------------------------------------------------------- *)
(* Dictionary::merge into an EMPTY dictionary *)
Lemma assoc_n_snoc : forall {A} i (a : list (N * A)) k v,
  assoc_n i (a ++ [(k, v)]) = match assoc_n i a with Some w => Some w | None => if i =? k then Some v else None end.
Proof.
  intros A i a k v. induction a as [|[k' v'] a IH]; cbn [app assoc_n]; [reflexivity|].
  destruct (i =? k'); [reflexivity | exact IH].
Qed.

Lemma assoc_s_snoc : forall {A} i (a : list (str * A)) k v,
  assoc_s i (a ++ [(k, v)]) = match assoc_s i a with Some w => Some w | None => if str_eqb i k then Some v else None end.
Proof.
  intros A i a k v. induction a as [|[k' v'] a IH]; cbn [app assoc_s]; [reflexivity|].
  destruct (str_eqb i k'); [reflexivity | exact IH].
Qed.

Lemma merge_i_assoc : forall b a i,
  assoc_n i (merge_i a b) = match assoc_n i a with Some v => Some v | None => assoc_n i b end.
Proof.
  unfold merge_i. induction b as [|[k v] b IH]; intros a i.
  - cbn [fold_left assoc_n]. destruct (assoc_n i a); reflexivity.
  - cbn [fold_left fst]. rewrite IH. destruct (assoc_n k a) as [w|] eqn:Ek.
    + destruct (assoc_n i a) eqn:Ei; [reflexivity|]. cbn [assoc_n].
      destruct (i =? k) eqn:E; [apply N.eqb_eq in E; subst i; congruence | reflexivity].
    + rewrite assoc_n_snoc. destruct (assoc_n i a); [reflexivity|]. cbn [assoc_n]. destruct (i =? k); reflexivity.
Qed.

Lemma merge_s_assoc : forall b a i,
  assoc_s i (merge_s a b) = match assoc_s i a with Some v => Some v | None => assoc_s i b end.
Proof.
  unfold merge_s. induction b as [|[k v] b IH]; intros a i.
  - cbn [fold_left assoc_s]. destruct (assoc_s i a); reflexivity.
  - cbn [fold_left fst]. rewrite IH. destruct (assoc_s k a) as [w|] eqn:Ek.
    + destruct (assoc_s i a) eqn:Ei; [reflexivity|]. cbn [assoc_s].
      destruct (str_eqb i k) eqn:E; [apply str_eqb_eq in E; subst i; congruence | reflexivity].
    + rewrite assoc_s_snoc. destruct (assoc_s i a); [reflexivity|]. cbn [assoc_s]. destruct (str_eqb i k); reflexivity.
Qed.

Lemma dict_empty : forall d, dict_nonempty d = false -> s2i d = [] /\ i2s d = [] /\ next_id d = 0.
Proof.
  intros d H. unfold dict_nonempty in H. apply orb_false_iff in H. destruct H as [H H3].
  apply orb_false_iff in H. destruct H as [H1 H2]. apply negb_false_iff in H1, H2, H3. apply N.eqb_eq in H3.
  destruct (s2i d); [|discriminate]. destruct (i2s d); [|discriminate]. auto.
Qed.

Lemma decode_none : forall x, i2s (d_dict x) = [] -> forall f i, decode_term f x i = None.
Proof.
  intros x H f. induction f as [|f IH]; intro i; cbn [decode_term]; unfold dict_decode; rewrite H;
    destruct (is_quoted i); try reflexivity.
  destruct (assoc_n i (i2c (d_qts x))) as [[[a b] c]|]; [|reflexivity]. rewrite IH. reflexivity.
Qed.

Lemma empty_dict_no_quads : forall x, db_ok x -> i2s (d_dict x) = [] -> d_quads x = [] /\ den x = [].
Proof.
  intros x [_ Hq] H. assert (E : d_quads x = []).
  { destruct (d_quads x) as [|[[[s p] o] g] l]; [reflexivity|]. inversion Hq as [|? ? Hk _]; subst.
    destruct Hk as ([a Ha] & _). unfold decode_any in Ha. rewrite decode_none in Ha by exact H. discriminate. }
  split; [exact E | unfold den; rewrite E; reflexivity].
Qed.

(* ---------------------------------------------------------------------------------------------- *)
(* the private database of a chunk *)
Definition plain_ok (x : db) (q : quad) : Prop :=
  let '(s, p, o, g) := q in
  g = None /\ (exists a, dict_decode (d_dict x) s = Some a) /\ (exists b, dict_decode (d_dict x) p = Some b) /\
  (exists c, dict_decode (d_dict x) o = Some c).

Lemma enc3_dict : forall x s p o x3 si pi oi,
  enc3 x s p o = (x3, (si, pi, oi)) -> dict_ok (d_dict x) -> next_id (d_dict x) + 3 <= QBIT ->
  dict_decode (d_dict x3) si = Some s /\ dict_decode (d_dict x3) pi = Some p /\ dict_decode (d_dict x3) oi = Some o.
Proof.
  intros x s p o x3 si pi oi H Hd Hn. unfold enc3 in H.
  destruct (db_encode x s) as [x1 i1] eqn:E1.
  destruct (db_encode x1 p) as [x2 i2] eqn:E2.
  destruct (db_encode x2 o) as [x3' i3] eqn:E3.
  inversion H; subst x3' i1 i2 i3; clear H.
  assert (N1 : next_id (d_dict x) < QBIT) by lia.
  destruct (db_encode_spec _ _ _ _ E1 Hd N1) as (D1 & X1 & Q1 & P1 & [_ C1] & L1 & U1).
  assert (N2 : next_id (d_dict x1) < QBIT) by lia.
  destruct (db_encode_spec _ _ _ _ E2 D1 N2) as (D2 & X2 & Q2 & P2 & [_ C2] & L2 & U2).
  assert (N3 : next_id (d_dict x2) < QBIT) by lia.
  destruct (db_encode_spec _ _ _ _ E3 D2 N3) as (D3 & X3 & Q3 & P3 & [_ C3] & L3 & U3).
  split; [apply (proj2 X3); apply (proj2 X2); exact C1|]. split; [apply (proj2 X3); exact C2 | exact C3].
Qed.

Lemma plain_ext : forall x x' q, ext x x' -> plain_ok x q -> plain_ok x' q.
Proof.
  intros x x' [[[s p] o] g] [_ D] (G & [a Ha] & [b Hb] & [c Hc]). unfold plain_ok.
  split; [exact G|]. split; [exists a; apply D; exact Ha|]. split; [exists b; apply D; exact Hb | exists c; apply D; exact Hc].
Qed.

Lemma add_lex_plain : forall x a b c,
  dict_ok (d_dict x) -> next_id (d_dict x) + 3 <= QBIT -> Forall (plain_ok x) (d_quads x) ->
  Forall (plain_ok (add_lex x a b c None)) (d_quads (add_lex x a b c None)).
Proof.
  intros x a b c Hd Hn Hp. rewrite add_lex_enc3. destruct (enc3 x a b c) as [x3 [[si pi] oi]] eqn:E.
  destruct (enc3_spec _ _ _ _ _ _ _ _ E Hd Hn) as (D3 & X3 & Q3 & _).
  destruct (enc3_dict _ _ _ _ _ _ _ _ E Hd Hn) as (Ca & Cb & Cc).
  destruct (add_quad_frame x3 (si, pi, oi, None)) as (Fd & _ & _).
  apply Forall_forall. intros q Hq. apply add_quad_in in Hq.
  assert (K : plain_ok x3 q).
  { destruct Hq as [Hq|Hq].
    - rewrite Q3 in Hq. rewrite Forall_forall in Hp. apply (plain_ext x x3 q X3). apply Hp. exact Hq.
    - subst q. unfold plain_ok. split; [reflexivity|]. split; [exists a; exact Ca|]. split; [exists b; exact Cb | exists c; exact Cc]. }
  destruct q as [[[s p] o] g]. unfold plain_ok in *. rewrite Fd. exact K.
Qed.

Record LocInv (x : db) (e : env) (qs : list squad) : Prop := mkLocInv {
  li_ok : db_ok x;
  li_pref : d_pref x = e;
  li_next : next_id (d_dict x) <= 4 * N.of_nat (length qs);
  li_plain : Forall (plain_ok x) (d_quads x);
  li_den : forall lq, In lq (den x) <-> In lq (map lq_of4 qs)
}.

Lemma locinv_new : LocInv db_new [] [].
Proof.
  constructor.
  - split; [split; intros; discriminate | constructor].
  - reflexivity.
  - change (0 <= 0). apply N.le_refl.
  - constructor.
  - intro lq. split; intros [].
Qed.

Lemma locinv_stmt : forall x e qs s p o,
  LocInv x e qs -> (length qs < 2000)%nat ->
  LocInv (add_lex x (lex e s) (lex e p) (lex e o) None) e (qs ++ [(lex e s, lex e p, lex e o, None)]).
Proof.
  intros x e qs s p o [Hok Hpref Hnext Hplain Hden] Hl.
  assert (B : 4 * N.of_nat (length qs) + 4 <= QBIT) by (unfold QBIT; lia).
  assert (N4 : next_id (d_dict x) + 4 <= QBIT) by lia.
  destruct (add_lex_spec x (lex e s) (lex e p) (lex e o) None Hok N4) as (K1 & K2 & K3 & K4).
  constructor.
  - exact K1.
  - congruence.
  - rewrite app_length. cbn [length]. lia.
  - apply add_lex_plain; [apply Hok | lia | exact Hplain].
  - intro lq. rewrite K2, Hden, map_app, in_app_iff. cbn [map In lq_of4]. split.
    + intros [H|H]; [left; exact H | right; left; symmetry; exact H].
    + intros [H|[H|[]]]; [left; exact H | right; symmetry; exact H].
Qed.

Lemma locinv_prefix : forall x e qs name iri,
  LocInv x e qs -> LocInv (set_pref x ((name, iri) :: d_pref x)) ((name, iri) :: e) qs.
Proof.
  intros x e qs name iri [Hok Hpref Hnext Hplain Hden].
  assert (F : forall q, den_quad (set_pref x ((name, iri) :: d_pref x)) q = den_quad x q)
    by (intro q; apply den_quad_frame; reflexivity).
  constructor.
  - destruct Hok as [A B]. split; [exact A|]. cbn [set_pref d_quads]. apply Forall_forall. intros q Hq.
    rewrite Forall_forall in B. apply (quad_ok_frame x); [reflexivity | reflexivity | apply B; exact Hq].
  - cbn [set_pref d_pref]. rewrite Hpref. reflexivity.
  - exact Hnext.
  - exact Hplain.
  - intro lq. rewrite <- Hden. unfold den. cbn [set_pref d_quads]. rewrite !in_map_iff.
    split; intros (q & E & Hq); exists q; [rewrite <- F | rewrite F]; auto.
Qed.

(* ---------------------------------------------------------------------------------------------- *)
(* a whole chunk *)
Lemma n3_items : forall doc x e qs,
  wf_doc_n3 doc = true -> LocInv x e qs -> (length qs + length doc <= 1000)%nat ->
  exists x' e', fold_left n3_line (map trim (render_doc doc)) (x, []) = (x', []) /\
                LocInv x' e' (qs ++ quads_from e doc).
Proof.
  induction doc as [|i doc IH]; intros x e qs Hw Hinv Hl.
  - exists x, e. cbn [render_doc map fold_left quads_from]. rewrite app_nil_r. auto.
  - unfold wf_doc_n3 in Hw. cbn [forallb] in Hw. apply andb_true_iff in Hw. destruct Hw as [Hi Hw].
    cbn [length] in Hl. cbn [render_doc map fold_left quads_from].
    destruct i as [ws|ws text|pd s p o g|name iri|s pos]; cbn [wf_item_n3] in Hi; try discriminate.
    + cbn [render_item]. rewrite n3_line_blank by exact Hi.
      destruct (IH x e qs Hw Hinv ltac:(lia)) as (x' & e' & E & K). exists x', e'. auto.
    + cbn [render_item]. rewrite n3_line_comment by exact Hi.
      destruct (IH x e qs Hw Hinv ltac:(lia)) as (x' & e' & E & K). exists x', e'. auto.
    + destruct g as [g|]; [discriminate|].
      apply andb_true_iff in Hi. destruct Hi as [Hi Ho]. apply andb_true_iff in Hi. destruct Hi as [Hi Hp].
      apply andb_true_iff in Hi. destruct Hi as [Hpd Hs].
      cbn [render_item]. rewrite n3_line_stmt by assumption. rewrite (li_pref _ _ _ Hinv).
      assert (L2 : (length qs < 2000)%nat) by lia.
      pose proof (locinv_stmt x e qs s p o Hinv L2) as K1.
      assert (L3 : (length (qs ++ [(lex e s, lex e p, lex e o, None)]) + length doc <= 1000)%nat)
        by (rewrite app_length; cbn [length]; lia).
      destruct (IH _ e _ Hw K1 L3) as (x' & e' & E & K). exists x', e'. split; [exact E|].
      cbn [item_quads item_env]. rewrite <- app_assoc in K. exact K.
    + apply andb_true_iff in Hi. destruct Hi as [Hn Hiri].
      rewrite render_prefix. rewrite n3_line_prefix by assumption.
      pose proof (locinv_prefix x e qs name iri Hinv) as K1.
      destruct (IH _ ((name, iri) :: e) qs Hw K1 ltac:(lia)) as (x' & e' & E & K). exists x', e'. split; [exact E|].
      cbn [item_quads item_env app]. exact K.
Qed.

(* ---------------------------------------------------------------------------------------------- *)
(* absorbing the chunk into a database whose dictionary is empty *)
Lemma fold_add_quad_in : forall qs x r, In r (d_quads (fold_left add_quad qs x)) <-> In r (d_quads x) \/ In r qs.
Proof.
  induction qs as [|q qs IH]; intros x r; cbn [fold_left In]; [tauto|].
  rewrite IH, add_quad_in. split; [intros [[H|H]|H] | intros [H|[H|H]]]; auto.
Qed.

Lemma fold_add_quad_frame : forall qs x,
  d_dict (fold_left add_quad qs x) = d_dict x /\ d_qts (fold_left add_quad qs x) = d_qts x.
Proof.
  induction qs as [|q qs IH]; intro x; cbn [fold_left]; [auto|].
  destruct (IH (add_quad x q)) as [A B]. destruct (add_quad_frame x q) as (C & D & _). split; congruence.
Qed.

Lemma filter_plain : forall x l, Forall (plain_ok x) l ->
  filter (fun q : N * N * N * option N => match snd q with None => true | Some _ => false end) l = l.
Proof.
  induction 1 as [|[[[s p] o] g] l (G & _) Hl IH]; [reflexivity|]. cbn [filter snd]. subst g. rewrite IH. reflexivity.
Qed.

Lemma absorb_den : forall self loc,
  db_ok self -> dict_nonempty (d_dict self) = false ->
  dict_ok (d_dict loc) -> next_id (d_dict loc) <= QBIT -> Forall (plain_ok loc) (d_quads loc) ->
  forall lq, In lq (den (n3_absorb self loc)) <-> In lq (den loc).
Proof.
  intros self loc Hs He Hd Hn Hp lq.
  destruct (dict_empty _ He) as (E1 & E2 & E3). destruct (empty_dict_no_quads self Hs E2) as [Q0 _].
  unfold n3_absorb. cbv zeta. rewrite (filter_plain loc _ Hp).
  set (self1 := fold_left add_quad (d_quads loc) self).
  destruct (fold_add_quad_frame (d_quads loc) self) as [Fd Fq]. fold self1 in Fd, Fq.
  set (self2 := set_dict self1 (dict_merge (d_dict self1) (d_dict loc))).
  assert (Dq : forall q, plain_ok loc q -> den_quad (set_pref self2 (d_pref loc ++ d_pref self2)) q = den_quad loc q).
  { intros [[[s p] o] g] (G & [a Ha] & [b Hb] & [c Hc]). subst g.
    assert (P : forall i v, dict_decode (d_dict loc) i = Some v ->
                decode_any (set_pref self2 (d_pref loc ++ d_pref self2)) i = Some v /\ decode_any loc i = Some v).
    { intros i v Hi. destruct Hd as [_ B]. pose proof (B _ _ Hi) as Hlt.
      assert (Nq : is_quoted i = false) by (unfold is_quoted; apply N.leb_gt; lia).
      unfold decode_any. cbn [decode_term]. rewrite Nq. split; [|exact Hi].
      unfold self2, dict_decode. cbn [set_pref set_dict d_dict dict_merge i2s]. rewrite merge_i_assoc. rewrite Fd, E2. cbn [assoc_n]. exact Hi. }
    cbn [den_quad]. destruct (P _ _ Ha) as [A1 A2]. destruct (P _ _ Hb) as [B1 B2]. destruct (P _ _ Hc) as [C1 C2].
    rewrite A1, A2, B1, B2, C1, C2. reflexivity. }
  unfold den. rewrite !in_map_iff. cbn [set_pref set_dict d_quads].
  rewrite Forall_forall in Hp.
  split; intros (q & Eq & Hq).
  - apply fold_add_quad_in in Hq. rewrite Q0 in Hq. destruct Hq as [[]|Hq].
    exists q. split; [rewrite <- Eq; symmetry; apply Dq; apply Hp; exact Hq | exact Hq].
  - exists q. split; [rewrite <- Eq; apply Dq; apply Hp; exact Hq | apply fold_add_quad_in; right; exact Hq].
Qed.

(* ---------------------------------------------------------------------------------------------- *)
Lemma chunks_single : forall {A} (n : nat) (l : list A), l <> [] -> (length l <= n)%nat -> chunks n l = [l].
Proof.
  intros A n l Hne Hl. unfold chunks. destruct l as [|a l']; [contradiction|].
  cbn [length chunks_aux]. rewrite firstn_all2 by exact Hl. rewrite skipn_all2 by exact Hl.
  destruct (length l'); reflexivity.
Qed.

Lemma n3_main : forall (doc : list item) (x : db),
  wf_doc_n3 doc = true -> known_C13_n3 doc x = false -> db_ok x ->
  forall lq, In lq (den (load_n3 (render_doc doc) x)) <-> In lq (den x) \/ In lq (map lq_of4 (triples_of doc)).
Proof.
  intros doc x Hw Hk Hx lq. unfold known_C13_n3 in Hk. apply orb_false_iff in Hk. destruct Hk as [He Hm].
  unfold multichunk in Hm. apply Nat.ltb_ge in Hm.
  destruct (dict_empty _ He) as (_ & E2 & _). destruct (empty_dict_no_quads x Hx E2) as [_ D0].
  unfold load_n3, load_n3_n. destruct doc as [|i doc'].
  - cbn. rewrite D0. tauto.
  - set (doc := i :: doc') in *.
    rewrite chunks_single; [| unfold doc; cbn; discriminate | unfold render_doc; rewrite !map_length; exact Hm].
    cbn [map fold_left]. unfold n3_chunk.
    destruct (n3_items doc db_new [] [] Hw locinv_new) as (x' & e' & E & K); [cbn [length]; unfold CHUNK in Hm; lia|].
    rewrite E. cbn [fst app] in *. unfold triples_of.
    rewrite absorb_den; [| exact Hx | exact He | apply (li_ok _ _ _ K) | | apply (li_plain _ _ _ K)].
    + rewrite (li_den _ _ _ K). rewrite D0. cbn [In]. tauto.
    + pose proof (li_next _ _ _ K) as B. 
      assert (L : (length (quads_from [] doc) <= 1000)%nat).
      { clear -Hw Hm. unfold CHUNK in Hm. revert Hm. generalize ([] : env). generalize 1000%nat.
        induction doc as [|j d IH]; intros n e Hl; cbn [quads_from length] in *; [lia|].
        unfold wf_doc_n3 in Hw. cbn [forallb] in Hw. apply andb_true_iff in Hw. destruct Hw as [Hj Hw].
        rewrite app_length. destruct n as [|n]; [lia|]. specialize (IH Hw n (item_env e j) ltac:(lia)).
        assert (length (item_quads e j) <= 1)%nat.
        { destruct j; cbn [item_quads length]; try lia. discriminate. }
        lia. }
      unfold QBIT. lia.
Qed.
