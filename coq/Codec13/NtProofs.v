(* N-Triples and N-Quads: loading the text of a well-formed document adds exactly the document's
   quads to the denotation of ANY prior database that satisfies the dictionary invariant. *)
Require Import KV.Codec13.Model KV.Codec13.Spec KV.Codec13.Wf KV.Codec13.Classes KV.Codec13.Inv.
Require Import KV.Codec13.StrProofs KV.Codec13.ChunkProofs KV.Codec13.TokProofs KV.Codec13.DictProofs KV.Codec13.QtDictProofs KV.Codec13.QtEncProofs.
Require Import Lia.

(* ---- encode_term_star on a lexical form that its cleaning leaves alone ---- *)
Lemma starts_ltlt_c : forall s, starts_with sLTLT s = true -> starts_with_c cLT s = true.
Proof.
  intros [|c s] H; [discriminate|]. unfold sLTLT in H. cbn [starts_with] in H.
  apply andb_true_iff in H. destruct H as [H _]. cbn [starts_with_c]. rewrite N.eqb_sym. exact H.
Qed.

Lemma ends_gtgt_c : forall s, ends_with sGTGT s = true -> ends_with_c cGT s = true.
Proof.
  intros s H. unfold ends_with, ends_with_c in *. cbn [sGTGT rev app] in H.
  destruct (rev s) as [|c r]; [discriminate|]. cbn [starts_with] in H.
  apply andb_true_iff in H. destruct H as [H _]. cbn [starts_with_c]. rewrite N.eqb_sym. exact H.
Qed.

Lemma encode_star_stable : forall x s, unstable_lex s = false -> encode_star x s = db_encode x s.
Proof.
  intros x s H. unfold unstable_lex in H. apply orb_false_iff in H. destruct H as [H H3].
  apply orb_false_iff in H. destruct H as [H1 H2]. apply negb_false_iff in H1. apply str_eqb_eq in H1.
  unfold encode_star. cbn [encode_term_star]. rewrite H1.
  assert (E : starts_with sLTLT s && ends_with sGTGT s = false).
  { destruct (starts_with sLTLT s) eqn:Ea; [|reflexivity]. destruct (ends_with sGTGT s) eqn:Eb; [|reflexivity].
    apply starts_ltlt_c in Ea. apply ends_gtgt_c in Eb. rewrite Ea, Eb in H3. discriminate. }
  rewrite E. unfold star_clean. rewrite H3, H2. reflexivity.
Qed.

(* ---- the lexical forms of well-formed terms are stable ---- *)
Lemma trim_all_nws : forall s, forallb (fun c => negb (is_ws c)) s = true -> trim s = s.
Proof.
  intros s H. apply trim_tight. destruct s as [|c s']; [split; exact I|].
  apply tight_intro; [|apply last_nws_all; exact H].
  cbn [forallb] in H. apply andb_true_iff in H. destruct H as [H _]. apply negb_true_iff in H. exact H.
Qed.

Lemma iri_stable : forall s, wf_iri s = true -> unstable_lex s = false.
Proof.
  intros s H. unfold unstable_lex. rewrite (trim_all_nws s (iri_chars_nws s H)), str_eqb_refl. cbn [negb orb].
  destruct s as [|c s']; [reflexivity|]. unfold wf_iri in H. cbn [forallb] in H.
  apply andb_true_iff in H. destruct H as [Hc _]. apply iri_char_facts in Hc. destruct Hc as (_ & H1 & _ & H3 & _).
  cbn [starts_with_c]. rewrite H1, H3. reflexivity.
Qed.

Lemma bnode_stable : forall l, wf_iri l = true -> unstable_lex (95 :: cCOLON :: l) = false.
Proof.
  intros l H. unfold unstable_lex.
  assert (A : forallb (fun c => negb (is_ws c)) (95 :: cCOLON :: l) = true).
  { cbn [forallb]. rewrite (iri_chars_nws l H). reflexivity. }
  rewrite (trim_all_nws _ A), str_eqb_refl. reflexivity.
Qed.

(* encode_cleaned_term on what the line parsers hand on *)
Lemma no_lt_not_quoted : forall s, starts_with_c cLT s = false -> looks_quoted s = false.
Proof.
  intros [|c s] H; [reflexivity|]. unfold looks_quoted, sLTLT. cbn [starts_with starts_with_c] in *. rewrite N.eqb_sym, H. reflexivity.
Qed.

Lemma encode_cleaned_ok : forall t, wf_term_nt t = true -> term_looks_quoted t = false ->
  forall x, encode_cleaned x (cleaned t) = enc_term x t.
Proof.
  intros t H R x. unfold encode_cleaned. fold (looks_quoted (cleaned t)).
  destruct t as [s|l|p l|b x0|s p o]; cbn [wf_term_nt] in H; try discriminate; cbn [cleaned enc_term].
  - rewrite no_lt_not_quoted; [reflexivity|]. destruct s as [|c s']; [reflexivity|].
    unfold wf_iri in H. cbn [forallb] in H. apply andb_true_iff in H. destruct H as [Hc _].
    apply iri_char_facts in Hc. destruct Hc as (_ & L & _). exact L.
  - reflexivity.
  - cbn [term_looks_quoted] in R. rewrite R. reflexivity.
  - apply andb_true_iff in H. destruct H as [H Ho]. apply andb_true_iff in H. destruct H as [Hs Hp].
    destruct (quoted_brackets s p o) as [A B]. unfold looks_quoted. rewrite A, B. cbn [andb].
    unfold encode_star. apply (star_quoted s p o Hs Hp Ho).
Qed.

(* ---- Dictionary / QuotedTripleStore::encode do not look at the quads, DatasetIndex::insert does not look at them ---- *)
Lemma db_encode_add_quad : forall x q s,
  db_encode (add_quad x q) s = let (x', i) := db_encode x s in (add_quad x' q, i).
Proof.
  intros x q s. unfold db_encode. destruct (add_quad_frame x q) as (D & _ & _). rewrite D.
  destruct (dict_encode (d_dict x) s) as [d i]. f_equal.
  unfold add_quad, set_dict. cbn [d_quads]. destruct (existsb (quad_eqb q) (d_quads x)); reflexivity.
Qed.

Lemma enc3_add_quad : forall x q s p o,
  enc3 (add_quad x q) s p o = let '(x3, e) := enc3 x s p o in (add_quad x3 q, e).
Proof.
  intros x q s p o. unfold enc3. rewrite db_encode_add_quad. destruct (db_encode x s) as [x1 si].
  rewrite db_encode_add_quad. destruct (db_encode x1 p) as [x2 pi].
  rewrite db_encode_add_quad. destruct (db_encode x2 o) as [x3 oi]. reflexivity.
Qed.

Lemma enc_term_add_quad : forall x q t,
  enc_term (add_quad x q) t = let (x', i) := enc_term x t in (add_quad x' q, i).
Proof.
  intros x q t. destruct t as [s|l|p l|b x0|s p o]; cbn [enc_term]; try apply db_encode_add_quad.
  rewrite enc3_add_quad. destruct (enc3 x (lex [] s) (lex [] p) (lex [] o)) as [x3 [[si pi] oi]].
  destruct (add_quad_frame x3 q) as (_ & Q & _). rewrite Q.
  destruct (qts_encode (d_qts x3) (si, pi, oi)) as [qq i]. f_equal.
  unfold add_quad, set_qts. cbn [d_quads]. destruct (existsb (quad_eqb q) (d_quads x3)); reflexivity.
Qed.

Definition enc_stmt3 (x : db) (t : term * term * term) : db * (N * N * N) :=
  let '(s, p, o) := t in
  let (x1, si) := enc_term x s in
  let (x2, pi) := enc_term x1 p in
  let (x3, oi) := enc_term x2 o in
  (x3, (si, pi, oi)).

Lemma enc_stmt3_add_quad : forall x q t,
  enc_stmt3 (add_quad x q) t = let '(x3, e) := enc_stmt3 x t in (add_quad x3 q, e).
Proof.
  intros x q [[s p] o]. unfold enc_stmt3. rewrite enc_term_add_quad. destruct (enc_term x s) as [x1 si].
  rewrite enc_term_add_quad. destruct (enc_term x1 p) as [x2 pi].
  rewrite enc_term_add_quad. destruct (enc_term x2 o) as [x3 oi]. reflexivity.
Qed.

(* a statement whose terms are in the subset and outside the re-cleaning class *)
Definition term_fine (t : term) : Prop := wf_term_nt t = true /\ term_looks_quoted t = false.
Definition stmt_ok (q : stmt4) : Prop :=
  let '(s, p, o, g) := q in
  term_fine s /\ term_fine p /\ term_fine o /\
  match g with Some gt => wf_term_nt gt = true /\ is_quoted_term gt = false | None => True end.

Definition c3 (q : stmt4) : str * str * str := drop_graph (cleaned4 q).
Definition t3 (q : stmt4) : term * term * term := let '(s, p, o, _) := q in (s, p, o).

Lemma encode_triple_cleaned : forall x q, stmt_ok q -> encode_triple x (c3 q) = enc_stmt3 x (t3 q).
Proof.
  intros x [[[s p] o] g] ([Ws Rs] & [Wp Rp] & [Wo Ro] & _). unfold c3, t3, cleaned4, drop_graph, encode_triple, enc_stmt3.
  rewrite (encode_cleaned_ok s Ws Rs). destruct (enc_term x s) as [x1 si].
  rewrite (encode_cleaned_ok p Wp Rp). destruct (enc_term x1 p) as [x2 pi].
  rewrite (encode_cleaned_ok o Wo Ro). reflexivity.
Qed.

Lemma encode_list_add_quad : forall qs, Forall stmt_ok qs -> forall x q,
  encode_list (add_quad x q) (map c3 qs) = let (x1, es) := encode_list x (map c3 qs) in (add_quad x1 q, es).
Proof.
  induction 1 as [|t qs Ht Hqs IH]; intros x q; [reflexivity|].
  cbn [map encode_list]. rewrite !encode_triple_cleaned by exact Ht. rewrite enc_stmt3_add_quad.
  destruct (enc_stmt3 x (t3 t)) as [xa e]. rewrite IH. destruct (encode_list xa (map c3 qs)) as [xb es]. reflexivity.
Qed.

Definition step3 (x : db) (q : stmt4) : db := let '(x3, e) := enc_stmt3 x (t3 q) in add_triple x3 e.

(* parse_ntriples_and_add (encode everything, then insert everything) = insert statement by statement *)
Lemma encode_then_add : forall qs, Forall stmt_ok qs -> forall x,
  (let (x1, es) := encode_list x (map c3 qs) in fold_left add_triple es x1) = fold_left step3 qs x.
Proof.
  induction 1 as [|t qs Ht Hqs IH]; intros x; [reflexivity|].
  cbn [map encode_list fold_left]. rewrite encode_triple_cleaned by exact Ht. unfold step3 at 2.
  destruct (enc_stmt3 x (t3 t)) as [xa [[si pi] oi]]. rewrite <- IH.
  unfold add_triple at 2. rewrite encode_list_add_quad by exact Hqs.
  destruct (encode_list xa (map c3 qs)) as [xb es]. cbn [fold_left]. reflexivity.
Qed.

(* one statement, N-Quads style (graph name through Dictionary::encode) *)
Definition step4 (x : db) (q : stmt4) : db :=
  match snd q with
  | None => let '(x3, (si, pi, oi)) := enc_stmt3 x (t3 q) in add_quad x3 (si, pi, oi, None)
  | Some gt =>
      let (x0, gi) := db_encode x (lex [] gt) in
      let '(x3, (si, pi, oi)) := enc_stmt3 x0 (t3 q) in add_quad x3 (si, pi, oi, Some gi)
  end.

Lemma step3_step4 : forall x s p o, step3 x (s, p, o, None) = step4 x (s, p, o, None).
Proof. intros. unfold step3, step4. cbn [t3 snd]. destruct (enc_stmt3 x (s, p, o)) as [x3 [[si pi] oi]]. reflexivity. Qed.

Lemma load_nq_stmt_step4 : forall x q, stmt_ok q -> load_nq_stmt x (cleaned4 q) = step4 x q.
Proof.
  intros x [[[s p] o] g] ([Ws Rs] & [Wp Rp] & [Wo Ro] & Hg). unfold load_nq_stmt, step4, cleaned4, enc_stmt3. cbn [t3 snd].
  destruct g as [gt|]; cbn [option_map].
  - destruct Hg as [_ Hq]. assert (E : cleaned gt = lex [] gt) by (destruct gt; try discriminate; reflexivity). rewrite E.
    destruct (db_encode x (lex [] gt)) as [x0 gi].
    rewrite (encode_cleaned_ok s Ws Rs). destruct (enc_term x0 s) as [x1 si].
    rewrite (encode_cleaned_ok p Wp Rp). destruct (enc_term x1 p) as [x2 pi].
    rewrite (encode_cleaned_ok o Wo Ro). destruct (enc_term x2 o) as [x3 oi]. reflexivity.
  - rewrite (encode_cleaned_ok s Ws Rs). destruct (enc_term x s) as [x1 si].
    rewrite (encode_cleaned_ok p Wp Rp). destruct (enc_term x1 p) as [x2 pi].
    rewrite (encode_cleaned_ok o Wo Ro). destruct (enc_term x2 o) as [x3 oi]. reflexivity.
Qed.

Definition lex4 (q : stmt4) : squad := let '(s, p, o, g) := q in (lex [] s, lex [] p, lex [] o, option_map (lex []) g).

Lemma add_quad_qts_ok : forall x q, qts_ok x -> qts_ok (add_quad x q).
Proof.
  intros x q H. destruct (add_quad_frame x q) as (D & Q & _).
  apply (qts_ok_same x); [exact Q | | exact H]. apply ext_of_grows. apply grows_same_qts; [exact Q | rewrite D; auto].
Qed.

Lemma enc_stmt3_spec : forall y s p o x3 si pi oi,
  wf_term_nt s = true -> wf_term_nt p = true -> wf_term_nt o = true ->
  enc_stmt3 y (s, p, o) = (x3, (si, pi, oi)) -> dict_ok (d_dict y) -> qts_ok y -> next_id (d_dict y) + 9 <= QBIT ->
  dict_ok (d_dict x3) /\ qts_ok x3 /\ ext y x3 /\ d_quads x3 = d_quads y /\ d_pref x3 = d_pref y /\
  decode_any x3 si = Some (lex [] s) /\ decode_any x3 pi = Some (lex [] p) /\ decode_any x3 oi = Some (lex [] o) /\
  next_id (d_dict y) <= next_id (d_dict x3) /\ next_id (d_dict x3) <= next_id (d_dict y) + 9.
Proof.
  intros y s p o x3 si pi oi Ws Wp Wo H Hd Hq Hn. unfold enc_stmt3 in H.
  destruct (enc_term y s) as [x1 i1] eqn:E1.
  assert (N1 : next_id (d_dict y) + 3 <= QBIT) by lia.
  destruct (enc_term_spec s y x1 i1 Ws E1 Hd Hq N1) as (D1 & K1 & X1 & Q1 & P1 & C1 & L1 & U1).
  destruct (enc_term x1 p) as [x2 i2] eqn:E2.
  assert (N2 : next_id (d_dict x1) + 3 <= QBIT) by lia.
  destruct (enc_term_spec p x1 x2 i2 Wp E2 D1 K1 N2) as (D2 & K2 & X2 & Q2 & P2 & C2 & L2 & U2).
  destruct (enc_term x2 o) as [x3' i3] eqn:E3.
  assert (N3 : next_id (d_dict x2) + 3 <= QBIT) by lia.
  destruct (enc_term_spec o x2 x3' i3 Wo E3 D2 K2 N3) as (D3 & K3 & X3 & Q3 & P3 & C3 & L3 & U3).
  inversion H; subst x3' i1 i2 i3; clear H.
  split; [exact D3|]. split; [exact K3|]. split; [apply (ext_trans _ _ _ X1 (ext_trans _ _ _ X2 X3))|].
  split; [congruence|]. split; [congruence|].
  split; [apply (decode_any_ext _ _ _ _ (ext_trans _ _ _ X2 X3) C1)|]. split; [apply (decode_any_ext _ _ _ _ X3 C2)|].
  split; [exact C3|]. split; lia.
Qed.

Lemma step4_spec : forall x q, stmt_ok q -> db_okq x -> next_id (d_dict x) + 10 <= QBIT ->
  db_okq (step4 x q) /\
  (forall lq, In lq (den (step4 x q)) <-> In lq (den x) \/ lq = lq_of4 (lex4 q)) /\
  next_id (d_dict (step4 x q)) <= next_id (d_dict x) + 10 /\ ext x (step4 x q) /\ d_pref (step4 x q) = d_pref x.
Proof.
  intros x [[[s p] o] g] ([Ws _] & [Wp _] & [Wo _] & Hg) [[Hd Hqd] Hq] Hn. unfold step4. cbn [t3 snd].
  destruct g as [gt|].
  - destruct Hg as [Wg Hgq].
    destruct (db_encode x (lex [] gt)) as [x0 gi] eqn:E0.
    assert (N0 : next_id (d_dict x) < QBIT) by lia.
    destruct (db_encode_spec _ _ _ _ E0 Hd N0) as (D0 & X0 & Q0 & P0 & [_ Cg] & L0 & U0 & T0).
    pose proof (qts_ok_same x x0 T0 X0 Hq) as K0.
    destruct (enc_stmt3 x0 (s, p, o)) as [x3 [[si pi] oi]] eqn:E3.
    assert (N9 : next_id (d_dict x0) + 9 <= QBIT) by lia.
    destruct (enc_stmt3_spec x0 s p o x3 si pi oi Ws Wp Wo E3 D0 K0 N9) as (D3 & K3 & X3 & Q3 & P3 & C1 & C2 & C3 & L3 & U3).
    assert (X : ext x x3) by (apply (ext_trans _ _ _ X0 X3)).
    assert (Qx : d_quads x3 = d_quads x) by congruence.
    destruct (den_ext x x3 X Qx Hqd) as [Dn Fq].
    pose proof (proj2 X3 _ _ Cg) as Cg'.
    assert (Kq : quad_ok x3 (si, pi, oi, Some gi)).
    { unfold quad_ok. split; [exists (lex [] s); exact C1|]. split; [exists (lex [] p); exact C2|].
      split; [exists (lex [] o); exact C3 | exists (lex [] gt); exact Cg']. }
    assert (Kd : den_quad x3 (si, pi, oi, Some gi) = lq_of4 (lex4 (s, p, o, Some gt)))
      by (cbn [den_quad lex4 lq_of4 lq_of option_map]; rewrite C1, C2, C3, Cg'; reflexivity).
    destruct (add_quad_frame x3 (si, pi, oi, Some gi)) as (Fd & _ & Fp).
    split; [split; [apply add_quad_ok; [split; assumption | exact Kq] | apply add_quad_qts_ok; exact K3]|].
    split; [intro lq; rewrite den_add_quad, Dn, Kd; reflexivity|].
    split; [rewrite Fd; lia|]. split; [apply (ext_trans _ _ _ X); apply ext_of_grows; apply grows_same_qts; [apply add_quad_frame | rewrite Fd; auto] | rewrite Fp; congruence].
  - destruct (enc_stmt3 x (s, p, o)) as [x3 [[si pi] oi]] eqn:E3.
    assert (N9 : next_id (d_dict x) + 9 <= QBIT) by lia.
    destruct (enc_stmt3_spec x s p o x3 si pi oi Ws Wp Wo E3 Hd Hq N9) as (D3 & K3 & X & Qx & P3 & C1 & C2 & C3 & L3 & U3).
    destruct (den_ext x x3 X Qx Hqd) as [Dn Fq].
    assert (Kq : quad_ok x3 (si, pi, oi, None)).
    { unfold quad_ok. split; [exists (lex [] s); exact C1|]. split; [exists (lex [] p); exact C2|]. split; [exists (lex [] o); exact C3 | exact I]. }
    assert (Kd : den_quad x3 (si, pi, oi, None) = lq_of4 (lex4 (s, p, o, None)))
      by (cbn [den_quad lex4 lq_of4 lq_of option_map]; rewrite C1, C2, C3; reflexivity).
    destruct (add_quad_frame x3 (si, pi, oi, None)) as (Fd & _ & Fp).
    split; [split; [apply add_quad_ok; [split; assumption | exact Kq] | apply add_quad_qts_ok; exact K3]|].
    split; [intro lq; rewrite den_add_quad, Dn, Kd; reflexivity|].
    split; [rewrite Fd; lia|]. split; [apply (ext_trans _ _ _ X); apply ext_of_grows; apply grows_same_qts; [apply add_quad_frame | rewrite Fd; auto] | rewrite Fp; congruence].
Qed.

Lemma fold_step4_spec : forall qs x, Forall stmt_ok qs -> db_okq x -> next_id (d_dict x) + 10 * N.of_nat (length qs) <= QBIT ->
  db_okq (fold_left step4 qs x) /\
  (forall lq, In lq (den (fold_left step4 qs x)) <-> In lq (den x) \/ In lq (map lq_of4 (map lex4 qs))) /\
  ext x (fold_left step4 qs x) /\ d_pref (fold_left step4 qs x) = d_pref x.
Proof.
  induction qs as [|q qs IH]; intros x Hok Hx Hn.
  - cbn [fold_left map In]. split; [exact Hx|]. split; [intro lq; tauto|]. split; [apply ext_refl | reflexivity].
  - inversion Hok as [|? ? Hq Hqs]; subst. cbn [fold_left]. cbn [length] in Hn. rewrite Nat2N.inj_succ in Hn.
    assert (N1 : next_id (d_dict x) + 10 <= QBIT) by lia.
    destruct (step4_spec x q Hq Hx N1) as (K1 & K2 & K3 & K4 & K5).
    assert (N2 : next_id (d_dict (step4 x q)) + 10 * N.of_nat (length qs) <= QBIT) by lia.
    destruct (IH (step4 x q) Hqs K1 N2) as (J1 & J2 & J3 & J4).
    split; [exact J1|]. split; [|split; [apply (ext_trans _ _ _ K4 J3) | congruence]].
    intro lq. rewrite J2, K2. cbn [map In]. split; intro H.
    + destruct H as [[H|H]|H]; [left; exact H | right; left; symmetry; exact H | right; right; exact H].
    + destruct H as [H|[H|H]]; [left; left; exact H | left; right; symmetry; exact H | right; exact H].
Qed.

(* ---- documents ---- *)
Definition doc_stmts (doc : list item) : list stmt4 := flat_map item_stmts doc.

Lemma quads_no_prefix : forall doc e, wf_doc_nq doc = true -> quads_from e doc = flat_map (item_quads e) doc.
Proof.
  induction doc as [|i doc IH]; intros e H; [reflexivity|].
  unfold wf_doc_nq in H. cbn [forallb] in H. apply andb_true_iff in H. destruct H as [Hi H].
  cbn [quads_from flat_map]. f_equal.
  assert (E : item_env e i = e) by (destruct i; try reflexivity; discriminate).
  rewrite E. apply IH. exact H.
Qed.

Lemma triples_stmts : forall doc, wf_doc_nq doc = true -> triples_of doc = map lex4 (doc_stmts doc).
Proof.
  intros doc H. unfold triples_of, doc_stmts. rewrite quads_no_prefix by exact H.
  induction doc as [|i doc IH]; [reflexivity|].
  unfold wf_doc_nq in H. cbn [forallb] in H. apply andb_true_iff in H. destruct H as [Hi H].
  cbn [flat_map]. rewrite map_app, IH by exact H. f_equal.
  destruct i as [ws|ws text|pd s p o g|name iri|s pos]; cbn [wf_item_nq] in Hi; try discriminate; try reflexivity.
Qed.

Lemma nq_lines : forall doc, wf_doc_nq doc = true -> flat_map nq_line (render_doc doc) = map cleaned4 (doc_stmts doc).
Proof.
  intros doc H. unfold render_doc, doc_stmts. induction doc as [|i doc IH]; [reflexivity|].
  unfold wf_doc_nq in H. cbn [forallb] in H. apply andb_true_iff in H. destruct H as [Hi H].
  cbn [map flat_map]. rewrite nq_line_item by exact Hi. rewrite map_app. f_equal. apply IH. exact H.
Qed.

Lemma wf_nt_nq : forall doc, wf_doc_nt doc = true -> wf_doc_nq doc = true.
Proof.
  induction doc as [|i doc IH]; intro H; [reflexivity|].
  unfold wf_doc_nt, wf_doc_nq in *. cbn [forallb] in *. apply andb_true_iff in H. destruct H as [Hi H].
  unfold wf_item_nt in Hi. apply andb_true_iff in Hi. destruct Hi as [Hi _]. rewrite Hi. apply IH. exact H.
Qed.

Lemma nt_lines : forall doc, wf_doc_nt doc = true ->
  flat_map nt_line (render_doc doc) = map c3 (doc_stmts doc) /\
  Forall (fun q => snd q = None) (doc_stmts doc).
Proof.
  intros doc H. unfold render_doc, doc_stmts. induction doc as [|i doc IH]; [split; [reflexivity | constructor]|].
  unfold wf_doc_nt in H. cbn [forallb] in H. apply andb_true_iff in H. destruct H as [Hi H].
  destruct (IH H) as [IH1 IH2]. cbn [map flat_map]. rewrite nt_line_item by exact Hi.
  rewrite map_app, IH1. split; [f_equal; rewrite map_map; reflexivity|]. apply Forall_app. split; [|exact IH2].
  unfold wf_item_nt in Hi. apply andb_true_iff in Hi. destruct Hi as [Hq Hg].
  destruct i as [ws|ws text|pd s p o g|name iri|s pos]; cbn [item_stmts]; try constructor; [|constructor].
  destruct g; [discriminate | reflexivity].
Qed.

Lemma item_stmts_ok : forall i, wf_item_nq i = true -> existsb term_looks_quoted (item_terms i) = false ->
  Forall stmt_ok (item_stmts i).
Proof.
  intros i H R. destruct i as [ws|ws text|pd s p o g|name iri|s pos]; cbn [wf_item_nq] in H; try discriminate;
    cbn [item_stmts]; try constructor; [|constructor].
  cbn [item_terms existsb] in R. apply orb_false_iff in R. destruct R as [Rs R].
  apply orb_false_iff in R. destruct R as [Rp R]. apply orb_false_iff in R. destruct R as [Ro _].
  destruct g as [gt|].
  - repeat (apply andb_true_iff in H; destruct H as [H ?]). apply negb_true_iff in H0.
    cbn. unfold term_fine. auto 10.
  - repeat (apply andb_true_iff in H; destruct H as [H ?]). cbn. unfold term_fine. auto 10.
Qed.

Lemma doc_stmts_ok : forall doc, wf_doc_nq doc = true -> known_C13_reclean doc = false ->
  Forall stmt_ok (doc_stmts doc).
Proof.
  intros doc H R. unfold doc_stmts. induction doc as [|i doc IH]; [constructor|].
  unfold wf_doc_nq in H. cbn [forallb] in H. apply andb_true_iff in H. destruct H as [Hi H].
  unfold known_C13_reclean in R. cbn [existsb] in R. apply orb_false_iff in R. destruct R as [Ri R].
  cbn [flat_map]. apply Forall_app. split; [apply item_stmts_ok; assumption | apply IH; assumption].
Qed.

(* ---- the two main results ---- *)
Lemma nquads_main : forall (doc : list item) (x : db),
  wf_doc_nq doc = true -> known_C13_reclean doc = false -> db_okq x ->
  next_id (d_dict x) + 10 * N.of_nat (length (triples_of doc)) <= QBIT ->
  db_okq (load_nq (render_doc doc) x) /\
  forall lq, In lq (den (load_nq (render_doc doc) x)) <-> In lq (den x) \/ In lq (map lq_of4 (triples_of doc)).
Proof.
  intros doc x Hw Hk Hx Hn. unfold load_nq. rewrite nq_lines by exact Hw.
  pose proof (doc_stmts_ok doc Hw Hk) as Ok. rewrite (triples_stmts doc Hw) in *. rewrite map_length in Hn.
  assert (E : fold_left load_nq_stmt (map cleaned4 (doc_stmts doc)) x = fold_left step4 (doc_stmts doc) x).
  { clear Hn Hx. revert x. induction Ok as [|q qs Hq Hqs IH]; intro x; [reflexivity|].
    cbn [map fold_left]. rewrite load_nq_stmt_step4 by exact Hq. apply IH. }
  rewrite E. destruct (fold_step4_spec (doc_stmts doc) x Ok Hx Hn) as (K1 & K2 & _). split; assumption.
Qed.

Lemma load_nt_fold : forall (n : nat) (doc : list item) (x : db),
  (1 <= n)%nat -> wf_doc_nt doc = true -> known_C13_reclean doc = false ->
  load_nt_n n (render_doc doc) x = fold_left step4 (doc_stmts doc) x.
Proof.
  intros n doc x Hn1 Hw Hk. unfold load_nt_n, encode_triples. rewrite parsed_concat by exact Hn1.
  destruct (nt_lines doc Hw) as [E1 E2]. rewrite E1.
  pose proof (doc_stmts_ok doc (wf_nt_nq doc Hw) Hk) as Ok. rewrite (encode_then_add _ Ok).
  clear -E2. revert x. induction E2 as [|[[[s p] o] g] qs Hq Hqs IH]; intro x; [reflexivity|].
  cbn [snd] in Hq. subst g. cbn [fold_left]. rewrite step3_step4. apply IH.
Qed.

Lemma ntriples_main : forall (n : nat) (doc : list item) (x : db),
  (1 <= n)%nat -> wf_doc_nt doc = true -> known_C13_reclean doc = false -> db_okq x ->
  next_id (d_dict x) + 10 * N.of_nat (length (triples_of doc)) <= QBIT ->
  db_okq (load_nt_n n (render_doc doc) x) /\
  forall lq, In lq (den (load_nt_n n (render_doc doc) x)) <-> In lq (den x) \/ In lq (map lq_of4 (triples_of doc)).
Proof.
  intros n doc x Hn1 Hw Hk Hx Hn. rewrite (load_nt_fold n doc x Hn1 Hw Hk).
  pose proof (doc_stmts_ok doc (wf_nt_nq doc Hw) Hk) as Ok.
  rewrite (triples_stmts doc (wf_nt_nq doc Hw)) in *. rewrite map_length in Hn.
  destruct (fold_step4_spec (doc_stmts doc) x Ok Hx Hn) as (K1 & K2 & _). split; assumption.
Qed.

Lemma chunk_pos : (1 <= CHUNK)%nat.
Proof. apply PeanoNat.Nat.leb_le. vm_compute. reflexivity. Qed.

Lemma ntriples_1000 : forall (doc : list item) (x : db),
  wf_doc_nt doc = true -> known_C13_reclean doc = false -> db_okq x ->
  next_id (d_dict x) + 10 * N.of_nat (length (triples_of doc)) <= QBIT ->
  db_okq (load_nt (render_doc doc) x) /\
  forall lq, In lq (den (load_nt (render_doc doc) x)) <-> In lq (den x) \/ In lq (map lq_of4 (triples_of doc)).
Proof. intros. apply ntriples_main; try assumption. apply chunk_pos. Qed.

(* the empty database satisfies the invariants *)
Lemma db_new_ok : db_ok db_new.
Proof. split; [split; intros; discriminate | constructor]. Qed.

Lemma db_new_okq : db_okq db_new.
Proof. split; [exact db_new_ok | apply qts_ok_new; reflexivity]. Qed.
