(* N-Triples and N-Quads: loading the text of a well-formed document adds exactly the document's
   quads to the denotation of ANY prior database that satisfies the dictionary invariant. *)
Require Import KV.Codec13.Model KV.Codec13.Spec KV.Codec13.Wf KV.Codec13.Classes KV.Codec13.Inv.
Require Import KV.Codec13.StrProofs KV.Codec13.ChunkProofs KV.Codec13.TokProofs KV.Codec13.DictProofs.
Require Import Lia.

(* ---- encode_term_star on a lexical form that its cleaning leaves alone ---- *)
Lemma starts_ltlt_c : forall s, starts_with sLTLT s = true -> starts_with_c cLT s = true.
Proof.
  intros [|c s] H; [discriminate|]. unfold sLTLT in H. cbn [starts_with] in H.
  apply andb_true_iff in H. destruct H as [H _]. cbn [starts_with_c]. rewrite N.eqb_sym. exact H.
Qed.

Lemma ends_gtgt_c : forall s, ends_with sGTGT s = true -> ends_with_c cGT s = true.
Proof.
  intros s H. unfold ends_with, ends_with_c in *. cbn [sGTGT rev app] in H.
  destruct (rev s) as [|c r]; [discriminate|]. cbn [starts_with] in H.
  apply andb_true_iff in H. destruct H as [H _]. cbn [starts_with_c]. rewrite N.eqb_sym. exact H.
Qed.

Lemma encode_star_stable : forall x s, unstable_lex s = false -> encode_star x s = db_encode x s.
Proof.
  intros x s H. unfold unstable_lex in H. apply orb_false_iff in H. destruct H as [H H3].
  apply orb_false_iff in H. destruct H as [H1 H2]. apply negb_false_iff in H1. apply str_eqb_eq in H1.
  unfold encode_star. cbn [encode_term_star]. rewrite H1.
  assert (E : starts_with sLTLT s && ends_with sGTGT s = false).
  { destruct (starts_with sLTLT s) eqn:Ea; [|reflexivity]. destruct (ends_with sGTGT s) eqn:Eb; [|reflexivity].
    apply starts_ltlt_c in Ea. apply ends_gtgt_c in Eb. rewrite Ea, Eb in H3. discriminate. }
  rewrite E. unfold star_clean. rewrite H3, H2. reflexivity.
Qed.

(* ---- the lexical forms of well-formed terms are stable ---- *)
Lemma trim_all_nws : forall s, forallb (fun c => negb (is_ws c)) s = true -> trim s = s.
Proof.
  intros s H. apply trim_tight. destruct s as [|c s']; [split; exact I|].
  apply tight_intro; [|apply last_nws_all; exact H].
  cbn [forallb] in H. apply andb_true_iff in H. destruct H as [H _]. apply negb_true_iff in H. exact H.
Qed.

Lemma iri_stable : forall s, wf_iri s = true -> unstable_lex s = false.
Proof.
  intros s H. unfold unstable_lex. rewrite (trim_all_nws s (iri_chars_nws s H)), str_eqb_refl. cbn [negb orb].
  destruct s as [|c s']; [reflexivity|]. unfold wf_iri in H. cbn [forallb] in H.
  apply andb_true_iff in H. destruct H as [Hc _]. apply iri_char_facts in Hc. destruct Hc as (_ & H1 & _ & H3 & _).
  cbn [starts_with_c]. rewrite H1, H3. reflexivity.
Qed.

Lemma bnode_stable : forall l, wf_iri l = true -> unstable_lex (95 :: cCOLON :: l) = false.
Proof.
  intros l H. unfold unstable_lex.
  assert (A : forallb (fun c => negb (is_ws c)) (95 :: cCOLON :: l) = true).
  { cbn [forallb]. rewrite (iri_chars_nws l H). reflexivity. }
  rewrite (trim_all_nws _ A), str_eqb_refl. reflexivity.
Qed.

Lemma wf_term_stable : forall t, wf_term_nt t = true -> term_recleaned t = false -> unstable_lex (lex [] t) = false.
Proof.
  intros t H R. destruct t as [s|l|p l|b x|s p o]; cbn [wf_term_nt] in H; try discriminate.
  - apply iri_stable. exact H.
  - apply bnode_stable. exact H.
  - exact R.
Qed.

(* ---- Dictionary::encode does not look at the quads, DatasetIndex::insert does not look at the dictionary ---- *)
Lemma db_encode_add_quad : forall x q s,
  db_encode (add_quad x q) s = let (x', i) := db_encode x s in (add_quad x' q, i).
Proof.
  intros x q s. unfold db_encode. destruct (add_quad_frame x q) as (D & _ & _). rewrite D.
  destruct (dict_encode (d_dict x) s) as [d i]. f_equal.
  unfold add_quad, set_dict. cbn [d_quads]. destruct (existsb (quad_eqb q) (d_quads x)); reflexivity.
Qed.

Lemma enc3_add_quad : forall x q s p o,
  enc3 (add_quad x q) s p o = let '(x3, e) := enc3 x s p o in (add_quad x3 q, e).
Proof.
  intros x q s p o. unfold enc3. rewrite db_encode_add_quad. destruct (db_encode x s) as [x1 si].
  rewrite db_encode_add_quad. destruct (db_encode x1 p) as [x2 pi].
  rewrite db_encode_add_quad. destruct (db_encode x2 o) as [x3 oi]. reflexivity.
Qed.

Definition stable3 (t : str * str * str) : Prop :=
  let '(s, p, o) := t in unstable_lex s = false /\ unstable_lex p = false /\ unstable_lex o = false.

Lemma encode_triple_stable : forall x s p o, stable3 (s, p, o) -> encode_triple x (s, p, o) = enc3 x s p o.
Proof.
  intros x s p o (Hs & Hp & Ho). unfold encode_triple, enc3.
  rewrite encode_star_stable by exact Hs. destruct (db_encode x s) as [x1 si].
  rewrite encode_star_stable by exact Hp. destruct (db_encode x1 p) as [x2 pi].
  rewrite encode_star_stable by exact Ho. reflexivity.
Qed.

Lemma encode_list_add_quad : forall ts, Forall stable3 ts -> forall x q,
  encode_list (add_quad x q) ts = let (x1, es) := encode_list x ts in (add_quad x1 q, es).
Proof.
  induction 1 as [|[[s p] o] ts Ht Hts IH]; intros x q; [reflexivity|].
  cbn [encode_list]. rewrite !encode_triple_stable by exact Ht. rewrite enc3_add_quad.
  destruct (enc3 x s p o) as [xa e]. rewrite IH. destruct (encode_list xa ts) as [xb es]. reflexivity.
Qed.

(* parse_ntriples_and_add (encode everything, then insert everything) = insert statement by statement *)
Lemma encode_then_add : forall ts, Forall stable3 ts -> forall x,
  (let (x1, es) := encode_list x ts in fold_left add_triple es x1)
  = fold_left add_lex4 (map (fun t => (t, None)) ts) x.
Proof.
  induction 1 as [|[[s p] o] ts Ht Hts IH]; intros x; [reflexivity|].
  cbn [encode_list map fold_left add_lex4]. rewrite encode_triple_stable by exact Ht.
  rewrite add_lex_enc3. destruct (enc3 x s p o) as [xa [[si pi] oi]].
  rewrite <- IH. change (add_quad xa (si, pi, oi, None)) with (add_triple xa (si, pi, oi)).
  unfold add_triple at 2. rewrite encode_list_add_quad by exact Hts.
  destruct (encode_list xa ts) as [xb es]. cbn [fold_left]. reflexivity.
Qed.

(* ---- documents ---- *)
Lemma quads_no_prefix : forall doc e, wf_doc_nq doc = true -> quads_from e doc = flat_map (item_quads e) doc.
Proof.
  induction doc as [|i doc IH]; intros e H; [reflexivity|].
  unfold wf_doc_nq in H. cbn [forallb] in H. apply andb_true_iff in H. destruct H as [Hi H].
  cbn [quads_from flat_map]. f_equal.
  assert (E : item_env e i = e) by (destruct i; try reflexivity; discriminate).
  rewrite E. apply IH. exact H.
Qed.

Lemma nq_lines : forall doc, wf_doc_nq doc = true -> flat_map nq_line (render_doc doc) = triples_of doc.
Proof.
  intros doc H. unfold triples_of. rewrite quads_no_prefix by exact H.
  unfold render_doc. induction doc as [|i doc IH]; [reflexivity|].
  unfold wf_doc_nq in H. cbn [forallb] in H. apply andb_true_iff in H. destruct H as [Hi H].
  cbn [map flat_map]. rewrite nq_line_item by exact Hi. f_equal. apply IH. exact H.
Qed.

Lemma wf_nt_nq : forall doc, wf_doc_nt doc = true -> wf_doc_nq doc = true.
Proof.
  induction doc as [|i doc IH]; intro H; [reflexivity|].
  unfold wf_doc_nt, wf_doc_nq in *. cbn [forallb] in *. apply andb_true_iff in H. destruct H as [Hi H].
  unfold wf_item_nt in Hi. apply andb_true_iff in Hi. destruct Hi as [Hi _]. rewrite Hi. apply IH. exact H.
Qed.

Lemma nt_lines : forall doc, wf_doc_nt doc = true ->
  flat_map nt_line (render_doc doc) = map drop_graph (triples_of doc) /\
  map (fun t => (t, None)) (map drop_graph (triples_of doc)) = triples_of doc.
Proof.
  intros doc H. unfold triples_of. rewrite quads_no_prefix by (apply wf_nt_nq; exact H).
  unfold render_doc. induction doc as [|i doc IH]; [split; reflexivity|].
  unfold wf_doc_nt in H. cbn [forallb] in H. apply andb_true_iff in H. destruct H as [Hi H].
  destruct (IH H) as [IH1 IH2]. cbn [map flat_map]. rewrite nt_line_item by exact Hi.
  rewrite map_app, map_app, IH1, IH2. split; [reflexivity|]. f_equal.
  unfold wf_item_nt in Hi. apply andb_true_iff in Hi. destruct Hi as [Hq Hg].
  destruct i as [ws|ws text|pd s p o g|name iri|s pos]; cbn [wf_item_nq] in Hq; try discriminate; try reflexivity.
  destruct g; [discriminate | reflexivity].
Qed.

Definition stable4 (q : squad) : Prop := let '(s, p, o, _) := q in stable3 (s, p, o).

Lemma item_stable : forall i, wf_item_nq i = true -> existsb term_recleaned (item_terms i) = false ->
  Forall stable4 (item_quads [] i).
Proof.
  intros i H R. destruct i as [ws|ws text|pd s p o g|name iri|s pos]; cbn [wf_item_nq] in H; try discriminate;
    cbn [item_quads]; try constructor; [|constructor].
  cbn [item_terms existsb] in R. apply orb_false_iff in R. destruct R as [Rs R].
  apply orb_false_iff in R. destruct R as [Rp R]. apply orb_false_iff in R. destruct R as [Ro _].
  assert (W : wf_term_nt s = true /\ wf_term_nt p = true /\ wf_term_nt o = true).
  { destruct g; repeat (apply andb_true_iff in H; destruct H as [H ?]); auto. }
  destruct W as (Ws & Wp & Wo). cbn. repeat split; apply wf_term_stable; assumption.
Qed.

Lemma doc_stable : forall doc, wf_doc_nq doc = true -> known_C13_reclean doc = false ->
  Forall stable4 (triples_of doc).
Proof.
  intros doc H R. unfold triples_of. rewrite quads_no_prefix by exact H.
  induction doc as [|i doc IH]; [constructor|].
  unfold wf_doc_nq in H. cbn [forallb] in H. apply andb_true_iff in H. destruct H as [Hi H].
  unfold known_C13_reclean in R. cbn [existsb] in R. apply orb_false_iff in R. destruct R as [Ri R].
  cbn [flat_map]. apply Forall_app. split; [apply item_stable; assumption | apply IH; assumption].
Qed.

Lemma load_nq_stmt_stable : forall qs, Forall stable4 qs -> forall x,
  fold_left load_nq_stmt qs x = fold_left add_lex4 qs x.
Proof.
  induction 1 as [|[[[s p] o] g] qs Hq Hqs IH]; intro x; [reflexivity|].
  cbn [fold_left]. rewrite IH. f_equal.
  destruct Hq as (Hs & Hp & Ho). unfold load_nq_stmt, add_lex4, add_lex.
  rewrite encode_star_stable by exact Hs. destruct (db_encode x s) as [x1 si].
  rewrite encode_star_stable by exact Hp. destruct (db_encode x1 p) as [x2 pi].
  rewrite encode_star_stable by exact Ho. reflexivity.
Qed.

Lemma stable4_drop : forall qs, Forall stable4 qs -> Forall stable3 (map drop_graph qs).
Proof.
  induction 1 as [|[[[s p] o] g] qs Hq Hqs IH]; [constructor|]. cbn [map drop_graph]. constructor; assumption.
Qed.

(* ---- the two main results ---- *)
Lemma nquads_main : forall (doc : list item) (x : db),
  wf_doc_nq doc = true -> known_C13_reclean doc = false -> db_ok x ->
  next_id (d_dict x) + 4 * N.of_nat (length (triples_of doc)) <= QBIT ->
  db_ok (load_nq (render_doc doc) x) /\
  forall lq, In lq (den (load_nq (render_doc doc) x)) <-> In lq (den x) \/ In lq (map lq_of4 (triples_of doc)).
Proof.
  intros doc x Hw Hk Hx Hn. unfold load_nq. rewrite nq_lines by exact Hw.
  rewrite load_nq_stmt_stable by (apply doc_stable; assumption).
  destruct (fold_add_lex_spec (triples_of doc) x Hx Hn) as (K1 & K2 & _). split; assumption.
Qed.

Lemma ntriples_main : forall (n : nat) (doc : list item) (x : db),
  (1 <= n)%nat -> wf_doc_nt doc = true -> known_C13_reclean doc = false -> db_ok x ->
  next_id (d_dict x) + 4 * N.of_nat (length (triples_of doc)) <= QBIT ->
  db_ok (load_nt_n n (render_doc doc) x) /\
  forall lq, In lq (den (load_nt_n n (render_doc doc) x)) <-> In lq (den x) \/ In lq (map lq_of4 (triples_of doc)).
Proof.
  intros n doc x Hn1 Hw Hk Hx Hn. unfold load_nt_n, encode_triples. rewrite parsed_concat by exact Hn1.
  destruct (nt_lines doc Hw) as [E1 E2]. rewrite E1.
  pose proof (doc_stable doc (wf_nt_nq doc Hw) Hk) as St.
  rewrite (encode_then_add _ (stable4_drop _ St)). rewrite E2.
  destruct (fold_add_lex_spec (triples_of doc) x Hx Hn) as (K1 & K2 & _). split; assumption.
Qed.

Lemma chunk_pos : (1 <= CHUNK)%nat.
Proof. apply PeanoNat.Nat.leb_le. vm_compute. reflexivity. Qed.

Lemma ntriples_1000 : forall (doc : list item) (x : db),
  wf_doc_nt doc = true -> known_C13_reclean doc = false -> db_ok x ->
  next_id (d_dict x) + 4 * N.of_nat (length (triples_of doc)) <= QBIT ->
  db_ok (load_nt (render_doc doc) x) /\
  forall lq, In lq (den (load_nt (render_doc doc) x)) <-> In lq (den x) \/ In lq (map lq_of4 (triples_of doc)).
Proof. intros. apply ntriples_main; try assumption. apply chunk_pos. Qed.

(* the empty database satisfies the invariant *)
Lemma db_new_ok : db_ok db_new.
Proof. split; [split; intros; discriminate | constructor]. Qed.
