(* parse_turtle on the one-statement-per-line subset. *)
Require Import KV.Codec13.Model KV.Codec13.Spec KV.Codec13.Wf KV.Codec13.WfTtl KV.Codec13.Classes KV.Codec13.Inv.
Require Import KV.Codec13.StrProofs KV.Codec13.TokProofs KV.Codec13.DictProofs KV.Codec13.QtDictProofs KV.Codec13.QtEncProofs KV.Codec13.NtProofs KV.Codec13.N3Proofs.
Require Import Lia PeanoNat.

(* ---------------------------------------------------------------------------------------------- *)
(* tokenize_turtle_star_line, one step *)
Fixpoint tscan_la (s : tst) (l : str) (la : option N) : tst :=
  match l with
  | [] => s
  | c :: r => tscan_la (t_step s c (match r with [] => la | c2 :: _ => Some c2 end)) r la
  end.

Lemma t_scan_app : forall l s r, t_scan s (l ++ r) = t_scan (tscan_la s l (hd_error r)) r.
Proof.
  induction l as [|c l IH]; intros s r; [reflexivity|].
  cbn [app t_scan tscan_la]. rewrite IH. f_equal. f_equal. f_equal. destruct l; reflexivity.
Qed.

Lemma tscan_la_app : forall a s b la,
  tscan_la s (a ++ b) la = tscan_la (tscan_la s a (match b with [] => la | c :: _ => Some c end)) b la.
Proof.
  induction a as [|c a IH]; intros s b la; [reflexivity|].
  cbn [app tscan_la]. rewrite IH. f_equal. f_equal. f_equal. destruct a; destruct b; reflexivity.
Qed.

Definition tB (toks : list str) (cur : str) : tst := mkT toks cur 0 false false false false.
Definition tU (toks : list str) (cur : str) : tst := mkT toks cur 0 true false false false.
Definition tL (toks : list str) (cur : str) : tst := mkT toks cur 0 false true false false.
Definition tLE (toks : list str) (cur : str) : tst := mkT toks cur 0 false true true false.

Ltac tstep_unfold :=
  cbv [t_step tB tU tL tLE t_tok t_tok_always t_push opt_is is_ws4 t_toks t_cur t_depth t_uri t_lit t_esc t_skip negb andb orb];
  eval_closed; cbv iota.

Lemma tstep_open_uri_gen : forall toks cur nx, opt_is cLT nx = false -> t_step (tB toks cur) cLT nx = tU toks (cLT :: cur).
Proof. intros toks cur nx H. unfold opt_is in H. tstep_unfold. destruct nx as [x|]; [rewrite H|]; kill_ifs. Qed.

Lemma tstep_open_uri : forall toks nx, opt_is cLT nx = false -> t_step (tB toks []) cLT nx = tU toks [cLT].
Proof. intros. apply tstep_open_uri_gen. assumption. Qed.

Lemma tstep_uri_char : forall toks cur c nx, iri_char c = true -> t_step (tU toks cur) c nx = tU toks (c :: cur).
Proof.
  intros toks cur c nx H. apply iri_char_facts in H. destruct H as (_ & H1 & H2 & H3 & H4).
  tstep_unfold. rewrite H1, H2, H3, H4. kill_ifs.
Qed.

Lemma tstep_close_uri : forall toks cur nx, t_step (tU toks cur) cGT nx = tB (trim (rev (cGT :: cur)) :: toks) [].
Proof. intros. tstep_unfold. kill_ifs. Qed.

(* characters of prefixed names and blank node labels: letters, digits, ':' and '_' *)
Definition bare_char (c : N) : bool := name_char c || (c =? cCOLON) || (c =? 95).

Lemma bare_char_facts : forall c, bare_char c = true ->
  is_ws c = false /\ (c =? cLT) = false /\ (c =? cGT) = false /\ (c =? cDQ) = false /\ (c =? cBS) = false /\
  (c =? cSEMI) = false /\ (c =? cCOMMA) = false /\ (c =? cDOT) = false /\
  (c =? cSP) = false /\ (c =? cTAB) = false /\ (c =? cLF) = false /\ (c =? cCR) = false /\ (c =? cHASH) = false.
Proof.
  intros c H. unfold bare_char in H. rewrite !orb_true_iff in H. destruct H as [[H|H]|H].
  - assert (T : tag_char c = true) by (unfold tag_char; unfold name_char in H; rewrite H; reflexivity).
    split; [apply tag_char_nws; exact T|].
    unfold name_char, is_ascii_alnum in H. rewrite !orb_true_iff, !andb_true_iff, !N.leb_le in H.
    repeat split; apply N.eqb_neq; intro E; subst c; vm_compute in H; intuition discriminate.
  - apply N.eqb_eq in H. subst c. repeat split; reflexivity.
  - apply N.eqb_eq in H. subst c. repeat split; reflexivity.
Qed.

Lemma tstep_bare_char : forall toks cur c nx, bare_char c = true -> t_step (tB toks cur) c nx = tB toks (c :: cur).
Proof.
  intros toks cur c nx H. apply bare_char_facts in H.
  destruct H as (_ & H1 & H2 & H3 & H4 & H5 & H6 & H7 & H8 & H9 & H10 & H11 & _).
  tstep_unfold. rewrite H1, H2, H3, H4, H5, H6, H7, H8, H9, H10, H11. kill_ifs.
Qed.

(* the characters of a literal's suffix: '@', '^', '-' besides letters and digits *)
Lemma tstep_suffix_char : forall toks cur c nx, (c = cAT \/ c = cCARET \/ c = cMINUS) -> t_step (tB toks cur) c nx = tB toks (c :: cur).
Proof. intros toks cur c nx [H|[H|H]]; subst c; tstep_unfold; kill_ifs. Qed.

Lemma tstep_tag_char : forall toks cur c nx, tag_char c = true -> t_step (tB toks cur) c nx = tB toks (c :: cur).
Proof.
  intros toks cur c nx H. unfold tag_char in H. apply orb_true_iff in H. destruct H as [H|H].
  - apply tstep_bare_char. unfold bare_char, name_char. rewrite H. reflexivity.
  - apply N.eqb_eq in H. subst c. apply tstep_suffix_char. auto.
Qed.

Lemma tstep_open_lit : forall toks nx, t_step (tB toks []) cDQ nx = tL toks [cDQ].
Proof. intros. tstep_unfold. kill_ifs. Qed.

Lemma tstep_lit_plain : forall toks cur c nx, plain_char c = true -> t_step (tL toks cur) c nx = tL toks (c :: cur).
Proof.
  intros toks cur c nx H. unfold plain_char in H. apply andb_true_iff in H. destruct H as [H1 H2].
  apply negb_true_iff in H1, H2. tstep_unfold. rewrite H1, H2. kill_ifs.
Qed.

Lemma tstep_lit_bs : forall toks cur nx, t_step (tL toks cur) cBS nx = tLE toks (cBS :: cur).
Proof. intros. tstep_unfold. kill_ifs. Qed.

Lemma tstep_lit_escaped : forall toks cur c nx, t_step (tLE toks cur) c nx = tL toks (c :: cur).
Proof. intros. tstep_unfold. kill_ifs. Qed.

Lemma tstep_close_lit : forall toks cur nx, t_step (tL toks cur) cDQ nx = tB toks (cDQ :: cur).
Proof. intros. tstep_unfold. kill_ifs. Qed.

(* separators and the final dot *)
Lemma ws4_cases : forall c, ws4_char c = true -> c = cSP \/ c = cTAB \/ c = cLF \/ c = cCR.
Proof. intros c H. unfold ws4_char in H. rewrite !orb_true_iff, !N.eqb_eq in H. tauto. Qed.

Lemma tstep_sep : forall toks cur c nx, ws4_char c = true -> t_step (tB toks cur) c nx = t_tok (tB toks cur).
Proof. intros toks cur c nx H. destruct (ws4_cases c H) as [E|[E|[E|E]]]; subst c; tstep_unfold; kill_ifs. Qed.

Lemma tstep_dot : forall toks cur nx, t_step (tB toks cur) cDOT nx =
  let s' := t_tok (tB toks cur) in mkT ([cDOT] :: t_toks s') (t_cur s') 0 false false false false.
Proof.
  intros. tstep_unfold. kill_ifs. destruct (is_empty (trim (rev cur))); reflexivity.
Qed.

(* ---------------------------------------------------------------------------------------------- *)
(* scanning the text of one term *)
Lemma tscan_uri_content : forall content toks pre la, wf_iri content = true ->
  tscan_la (tU toks (rev pre)) (content ++ [cGT]) la = tB (trim (pre ++ content ++ [cGT]) :: toks) [].
Proof.
  induction content as [|c content IH]; intros toks pre la H.
  - cbn [app tscan_la]. rewrite tstep_close_uri. rewrite rev_snoc_cons, rev_involutive. reflexivity.
  - unfold wf_iri in H. cbn [forallb] in H. apply andb_true_iff in H. destruct H as [Hc H].
    cbn [app tscan_la]. rewrite tstep_uri_char by exact Hc. rewrite rev_snoc_cons.
    rewrite IH by exact H. rewrite <- app_assoc. reflexivity.
Qed.

Lemma tscan_bare : forall l toks pre la, forallb bare_char l = true ->
  tscan_la (tB toks (rev pre)) l la = tB toks (rev (pre ++ l)).
Proof.
  induction l as [|c l IH]; intros toks pre la H.
  - rewrite app_nil_r. reflexivity.
  - cbn [forallb] in H. apply andb_true_iff in H. destruct H as [Hc H].
    cbn [tscan_la]. rewrite tstep_bare_char by exact Hc. rewrite rev_snoc_cons.
    rewrite IH by exact H. rewrite <- app_assoc. reflexivity.
Qed.

Lemma tscan_lit_plain : forall l toks pre la, forallb plain_char l = true ->
  tscan_la (tL toks (rev pre)) l la = tL toks (rev (pre ++ l)).
Proof.
  induction l as [|c l IH]; intros toks pre la H.
  - rewrite app_nil_r. reflexivity.
  - cbn [forallb] in H. apply andb_true_iff in H. destruct H as [Hc H].
    cbn [tscan_la]. rewrite tstep_lit_plain by exact Hc. rewrite rev_snoc_cons.
    rewrite IH by exact H. rewrite <- app_assoc. reflexivity.
Qed.

Lemma tscan_lchar : forall x toks pre la, wf_lchar x = true ->
  tscan_la (tL toks (rev pre)) (lchar_text x) la = tL toks (rev (pre ++ lchar_text x)).
Proof.
  intros x toks pre la H. destruct x as [c|c|d|d]; cbn [lchar_text wf_lchar] in *.
  - apply tscan_lit_plain. cbn [forallb]. rewrite H. reflexivity.
  - cbn [tscan_la]. rewrite tstep_lit_bs, tstep_lit_escaped. rewrite !rev_snoc_cons, <- app_assoc. reflexivity.
  - unfold wf_hex in H. apply andb_true_iff in H. destruct H as [H _]. apply andb_true_iff in H. destruct H as [_ H].
    cbn [tscan_la]. rewrite tstep_lit_bs.
    destruct d as [|d0 d'].
    + rewrite tstep_lit_escaped. rewrite !rev_snoc_cons, <- app_assoc. reflexivity.
    + rewrite tstep_lit_escaped. rewrite !rev_snoc_cons.
      rewrite tscan_lit_plain by (apply hexes_plain; exact H). rewrite <- !app_assoc. reflexivity.
  - unfold wf_hex in H. apply andb_true_iff in H. destruct H as [H _]. apply andb_true_iff in H. destruct H as [_ H].
    cbn [tscan_la]. rewrite tstep_lit_bs.
    destruct d as [|d0 d'].
    + rewrite tstep_lit_escaped. rewrite !rev_snoc_cons, <- app_assoc. reflexivity.
    + rewrite tstep_lit_escaped. rewrite !rev_snoc_cons.
      rewrite tscan_lit_plain by (apply hexes_plain; exact H). rewrite <- !app_assoc. reflexivity.
Qed.

Lemma tscan_lit_body : forall b toks pre la, forallb wf_lchar b = true ->
  tscan_la (tL toks (rev pre)) (lit_text b) la = tL toks (rev (pre ++ lit_text b)).
Proof.
  induction b as [|x b IH]; intros toks pre la H.
  - cbn [lit_text flat_map]. rewrite app_nil_r. reflexivity.
  - cbn [forallb] in H. apply andb_true_iff in H. destruct H as [Hx H].
    unfold lit_text in *. cbn [flat_map]. rewrite tscan_la_app.
    rewrite tscan_lchar by exact Hx. rewrite IH by exact H. rewrite <- app_assoc. reflexivity.
Qed.

Lemma tscan_tag : forall tag toks pre la, forallb tag_char tag = true ->
  tscan_la (tB toks (rev pre)) tag la = tB toks (rev (pre ++ tag)).
Proof.
  induction tag as [|c tag IH]; intros toks pre la H.
  - rewrite app_nil_r. reflexivity.
  - cbn [forallb] in H. apply andb_true_iff in H. destruct H as [Hc H].
    cbn [tscan_la]. rewrite tstep_tag_char by exact Hc. rewrite rev_snoc_cons.
    rewrite IH by exact H. rewrite <- app_assoc. reflexivity.
Qed.

Lemma ttl_lit_nt : forall b x, wf_term_ttl (TLit b x) = true -> wf_term_nt (TLit b x) = true.
Proof.
  intros b x H. cbn [wf_term_ttl wf_term_nt] in *. apply andb_true_iff in H. destruct H as [H Hx].
  apply andb_true_iff in H. destruct H as [Hb _]. rewrite Hb. cbn [andb].
  destruct x as [|tag|iri]; cbn [wf_suffix]; [reflexivity | exact Hx|].
  apply andb_true_iff in Hx. destruct Hx as [Hi _]. unfold wf_iri in Hi.
  induction iri as [|c iri IH]; [reflexivity|]. cbn [forallb] in *. apply andb_true_iff in Hi. destruct Hi as [Hc Hi].
  apply iri_char_facts in Hc. destruct Hc as (_ & _ & G & _). rewrite G. cbn [negb andb]. apply IH. exact Hi.
Qed.

(* ---------------------------------------------------------------------------------------------- *)
(* inside a quoted triple: the Turtle tokenizer at depth 1 *)
Definition tD (toks : list str) (cur : str) : tst := mkT toks cur 1 false false false false.
Definition tDL (toks : list str) (cur : str) : tst := mkT toks cur 1 false true false false.
Definition tDLE (toks : list str) (cur : str) : tst := mkT toks cur 1 false true true false.

Ltac tstep_unfold1 :=
  cbv [t_step tB tU tL tLE tD tDL tDLE t_tok t_tok_always t_push opt_is is_ws4 t_toks t_cur t_depth t_uri t_lit t_esc t_skip negb andb orb];
  eval_closed; cbv iota.

Lemma td_open : forall toks, t_step (tB toks []) cLT (Some cLT) = mkT toks [cLT; cLT] 1 false false false true.
Proof. intros. tstep_unfold1. reflexivity. Qed.
Lemma td_skip : forall toks cur c nx, t_step (mkT toks cur 1 false false false true) c nx = tD toks cur.
Proof. intros. tstep_unfold1. reflexivity. Qed.
Lemma td_skip0 : forall toks c nx, t_step (mkT toks [] 0 false false false true) c nx = tB toks [].
Proof. intros. tstep_unfold1. reflexivity. Qed.
Lemma td_push : forall toks cur c nx, (c =? cLT) = false -> (c =? cGT) = false -> (c =? cDQ) = false ->
  t_step (tD toks cur) c nx = tD toks (c :: cur).
Proof. intros toks cur c nx H1 H2 H3. tstep_unfold1. rewrite H1, H2, H3. kill_ifs. Qed.
Lemma td_lt : forall toks cur nx, opt_is cLT nx = false -> t_step (tD toks cur) cLT nx = tD toks (cLT :: cur).
Proof. intros toks cur nx H. unfold opt_is in H. tstep_unfold1. destruct nx as [x|]; [rewrite H|]; kill_ifs. Qed.
Lemma td_gt : forall toks cur nx, opt_is cGT nx = false -> t_step (tD toks cur) cGT nx = tD toks (cGT :: cur).
Proof. intros toks cur nx H. unfold opt_is in H. tstep_unfold1. destruct nx as [x|]; [rewrite H|]; kill_ifs. Qed.
Lemma td_close : forall toks cur, t_step (tD toks cur) cGT (Some cGT) =
  mkT (trim (rev (cGT :: cGT :: cur)) :: toks) [] 0 false false false true.
Proof. intros. tstep_unfold1. reflexivity. Qed.
Lemma td_open_lit : forall toks cur nx, t_step (tD toks cur) cDQ nx = tDL toks (cDQ :: cur).
Proof. intros. tstep_unfold1. reflexivity. Qed.
Lemma td_close_lit : forall toks cur nx, t_step (tDL toks cur) cDQ nx = tD toks (cDQ :: cur).
Proof. intros. tstep_unfold1. reflexivity. Qed.

Lemma tstep_lit_plain1 : forall toks cur c nx, plain_char c = true -> t_step (tDL toks cur) c nx = tDL toks (c :: cur).
Proof.
  intros toks cur c nx H. unfold plain_char in H. apply andb_true_iff in H. destruct H as [H1 H2].
  apply negb_true_iff in H1, H2. tstep_unfold1. rewrite H1, H2. kill_ifs.
Qed.

Lemma tstep_lit_bs1 : forall toks cur nx, t_step (tDL toks cur) cBS nx = tDLE toks (cBS :: cur).
Proof. intros. tstep_unfold1. kill_ifs. Qed.

Lemma tstep_lit_escaped1 : forall toks cur c nx, t_step (tDLE toks cur) c nx = tDL toks (c :: cur).
Proof. intros. tstep_unfold1. kill_ifs. Qed.

Lemma tscan_lit_plain1 : forall l toks pre la, forallb plain_char l = true ->
  tscan_la (tDL toks (rev pre)) l la = tDL toks (rev (pre ++ l)).
Proof.
  induction l as [|c l IH]; intros toks pre la H.
  - rewrite app_nil_r. reflexivity.
  - cbn [forallb] in H. apply andb_true_iff in H. destruct H as [Hc H].
    cbn [tscan_la]. rewrite tstep_lit_plain1 by exact Hc. rewrite rev_snoc_cons.
    rewrite IH by exact H. rewrite <- app_assoc. reflexivity.
Qed.

Lemma tscan_lchar1 : forall x toks pre la, wf_lchar x = true ->
  tscan_la (tDL toks (rev pre)) (lchar_text x) la = tDL toks (rev (pre ++ lchar_text x)).
Proof.
  intros x toks pre la H. destruct x as [c|c|d|d]; cbn [lchar_text wf_lchar] in *.
  - apply tscan_lit_plain1. cbn [forallb]. rewrite H. reflexivity.
  - cbn [tscan_la]. rewrite tstep_lit_bs1, tstep_lit_escaped1. rewrite !rev_snoc_cons, <- app_assoc. reflexivity.
  - unfold wf_hex in H. apply andb_true_iff in H. destruct H as [H _]. apply andb_true_iff in H. destruct H as [_ H].
    cbn [tscan_la]. rewrite tstep_lit_bs1.
    destruct d as [|d0 d'].
    + rewrite tstep_lit_escaped1. rewrite !rev_snoc_cons, <- app_assoc. reflexivity.
    + rewrite tstep_lit_escaped1. rewrite !rev_snoc_cons.
      rewrite tscan_lit_plain1 by (apply hexes_plain; exact H). rewrite <- !app_assoc. reflexivity.
  - unfold wf_hex in H. apply andb_true_iff in H. destruct H as [H _]. apply andb_true_iff in H. destruct H as [_ H].
    cbn [tscan_la]. rewrite tstep_lit_bs1.
    destruct d as [|d0 d'].
    + rewrite tstep_lit_escaped1. rewrite !rev_snoc_cons, <- app_assoc. reflexivity.
    + rewrite tstep_lit_escaped1. rewrite !rev_snoc_cons.
      rewrite tscan_lit_plain1 by (apply hexes_plain; exact H). rewrite <- !app_assoc. reflexivity.
Qed.

Lemma tscan_lit_body1 : forall b toks pre la, forallb wf_lchar b = true ->
  tscan_la (tDL toks (rev pre)) (lit_text b) la = tDL toks (rev (pre ++ lit_text b)).
Proof.
  induction b as [|x b IH]; intros toks pre la H.
  - cbn [lit_text flat_map]. rewrite app_nil_r. reflexivity.
  - cbn [forallb] in H. apply andb_true_iff in H. destruct H as [Hx H].
    unfold lit_text in *. cbn [flat_map]. rewrite tscan_la_app.
    rewrite tscan_lchar1 by exact Hx. rewrite IH by exact H. rewrite <- app_assoc. reflexivity.
Qed.

Lemma tscan_d_push : forall l toks pre la, forallb iri_char l = true ->
  tscan_la (tD toks (rev pre)) l la = tD toks (rev (pre ++ l)).
Proof.
  induction l as [|c l IH]; intros toks pre la H.
  - rewrite app_nil_r. reflexivity.
  - cbn [forallb] in H. apply andb_true_iff in H. destruct H as [Hc H].
    apply iri_char_facts in Hc. destruct Hc as (_ & H1 & H2 & H3 & _).
    cbn [tscan_la]. rewrite td_push by assumption. rewrite rev_snoc_cons.
    rewrite IH by exact H. rewrite <- app_assoc. reflexivity.
Qed.

Lemma first_not_lt : forall l la (rest : str), forallb iri_char l = true ->
  opt_is cLT (match (l ++ [cGT]) ++ rest with [] => la | c2 :: _ => Some c2 end) = false.
Proof.
  intros l la rest H. destruct l as [|c l']; [reflexivity|]. cbn [app]. cbn [forallb] in H.
  apply andb_true_iff in H. destruct H as [Hc _]. apply iri_char_facts in Hc. destruct Hc as (_ & Hc & _). exact Hc.
Qed.

Lemma tscan_component : forall t toks pre la, comp_ok t = true ->
  tscan_la (tD toks (rev pre)) (render_term t ++ [cSP]) la = tD toks (rev (pre ++ render_term t ++ [cSP])).
Proof.
  intros t toks pre la H. destruct t as [s|l|p l|b x|s p o]; cbn [comp_ok] in H; try discriminate.
  - cbn [render_term]. cbn [app tscan_la].
    rewrite td_lt by (apply first_not_lt; exact H). rewrite rev_snoc_cons. rewrite <- app_assoc.
    rewrite tscan_la_app. rewrite tscan_d_push by exact H.
    cbn [app tscan_la]. rewrite td_gt by reflexivity. rewrite td_push by reflexivity.
    rewrite !rev_snoc_cons. repeat (rewrite <- app_assoc). reflexivity.
  - cbn [render_term]. rewrite tscan_la_app.
    rewrite tscan_d_push by (cbn [forallb]; unfold wf_iri in H; rewrite H; reflexivity).
    cbn [tscan_la]. rewrite td_push by reflexivity. rewrite rev_snoc_cons, <- app_assoc. reflexivity.
  - destruct x as [|tag|iri]; try discriminate.
    + cbn [render_term].
      change ((cDQ :: lit_text b ++ [cDQ]) ++ [cSP]) with (cDQ :: (lit_text b ++ [cDQ]) ++ [cSP]).
      cbn [tscan_la]. rewrite td_open_lit. rewrite rev_snoc_cons. rewrite <- app_assoc.
      rewrite tscan_la_app. rewrite tscan_lit_body1 by exact H.
      cbn [app tscan_la]. rewrite td_close_lit. rewrite td_push by reflexivity.
      rewrite !rev_snoc_cons. repeat (rewrite <- app_assoc). reflexivity.
    + apply andb_true_iff in H. destruct H as [Hb Hi]. cbn [render_term].
      replace ((cDQ :: lit_text b ++ cDQ :: cCARET :: cCARET :: cLT :: iri ++ [cGT]) ++ [cSP])
        with (cDQ :: lit_text b ++ (cDQ :: cCARET :: cCARET :: cLT :: (iri ++ [cGT]) ++ [cSP]))
        by (cbn [app]; rewrite <- !app_assoc; cbn [app]; rewrite <- ?app_assoc; reflexivity).
      cbn [tscan_la]. rewrite td_open_lit. rewrite rev_snoc_cons.
      rewrite tscan_la_app. rewrite tscan_lit_body1 by exact Hb.
      cbn [tscan_la]. rewrite td_close_lit. rewrite !td_push by reflexivity.
      rewrite td_lt by (destruct iri as [|c0 iri']; [reflexivity | cbn [app]; unfold wf_iri in Hi; cbn [forallb] in Hi; apply andb_true_iff in Hi; destruct Hi as [Hc _]; apply iri_char_facts in Hc; destruct Hc as (_ & Hc & _); exact Hc]). rewrite !rev_snoc_cons.
      rewrite <- (app_assoc iri). rewrite (tscan_la_app iri). rewrite tscan_d_push by exact Hi.
      cbn [app tscan_la]. rewrite td_gt by reflexivity. rewrite td_push by reflexivity.
      rewrite !rev_snoc_cons. repeat (rewrite <- app_assoc). cbn [app]. repeat (rewrite <- app_assoc). reflexivity.
Qed.

Lemma tscan_quoted : forall s p o toks la, comp_ok s = true -> comp_ok p = true -> comp_ok o = true ->
  tscan_la (tB toks []) (render_term (TQuoted s p o)) la = tB (render_term (TQuoted s p o) :: toks) [].
Proof.
  intros s p o toks la Hs Hp Ho. pose proof (trim_tight _ (tight_quoted s p o)) as T. rewrite render_quoted in *.
  cbn [tscan_la]. rewrite td_open, td_skip.
  rewrite (td_push toks [cLT; cLT] cSP) by reflexivity.
  change (tD toks [cSP; cLT; cLT]) with (tD toks (rev [cLT; cLT; cSP])).
  rewrite tscan_la_app, tscan_component by exact Hs.
  rewrite tscan_la_app, tscan_component by exact Hp.
  rewrite tscan_la_app, tscan_component by exact Ho.
  cbn [tscan_la]. rewrite td_close, td_skip0.
  assert (E : rev (cGT :: cGT :: rev ((([cLT; cLT; cSP] ++ render_term s ++ [cSP]) ++ render_term p ++ [cSP]) ++ render_term o ++ [cSP]))
              = cLT :: cLT :: cSP :: (render_term s ++ [cSP]) ++ (render_term p ++ [cSP]) ++ (render_term o ++ [cSP]) ++ [cGT; cGT]).
  { cbn [rev]. rewrite rev_involutive. repeat (rewrite <- app_assoc). cbn [app]. repeat (rewrite <- app_assoc). reflexivity. }
  rewrite E, T. reflexivity.
Qed.

Lemma comp_ttl_ok : forall t, comp_ttl t = true -> comp_ok t = true.
Proof. intros t H. unfold comp_ttl in H. apply andb_true_iff in H. tauto. Qed.

(* ---------------------------------------------------------------------------------------------- *)
(* a state in which the term `part` has been read after the tokens `toks` (pushed or still pending) *)
Definition TRes (s : tst) (toks : list str) (part : str) : Prop :=
  (exists toks' cur, s = tB toks' cur) /\ t_tok s = tB (part :: toks) [].

Lemma tres_clean : forall toks part, TRes (tB (part :: toks) []) toks part.
Proof. intros. split; [eauto | reflexivity]. Qed.

Lemma tres_pending : forall toks pre, tight pre -> pre <> [] -> TRes (tB toks (rev pre)) toks pre.
Proof.
  intros toks pre Ht Hne. split; [eauto|]. unfold t_tok, tB. cbn [t_cur t_toks t_depth t_uri t_lit t_esc t_skip].
  rewrite rev_involutive, (trim_tight pre Ht). destruct pre; [contradiction | reflexivity].
Qed.

Lemma ttl_iri_wf : forall s, ttl_iri_ok s = true -> wf_iri s = true.
Proof. intros s H. unfold ttl_iri_ok in H. apply andb_true_iff in H. destruct H as [H _]. apply andb_true_iff in H. tauto. Qed.

Lemma name_bare : forall l, forallb name_char l = true -> forallb bare_char l = true.
Proof.
  induction l as [|c l IH]; intro H; [reflexivity|]. cbn [forallb] in *. apply andb_true_iff in H. destruct H as [Hc H].
  unfold bare_char. rewrite Hc. cbn [orb andb]. apply IH. exact H.
Qed.

Lemma bare_nws : forall l, forallb bare_char l = true -> forallb (fun c => negb (is_ws c)) l = true.
Proof.
  induction l as [|c l IH]; intro H; [reflexivity|]. cbn [forallb] in *. apply andb_true_iff in H. destruct H as [Hc H].
  apply bare_char_facts in Hc. destruct Hc as (Hc & _). rewrite Hc. cbn [negb andb]. apply IH. exact H.
Qed.

Lemma tight_all_nws : forall l, forallb (fun c => negb (is_ws c)) l = true -> tight l.
Proof.
  intros l H. destruct l as [|c l']; [split; exact I|]. apply tight_intro; [|apply last_nws_all; exact H].
  cbn [forallb] in H. apply andb_true_iff in H. destruct H as [H _]. apply negb_true_iff in H. exact H.
Qed.

Lemma term_tres : forall t, wf_term_ttl t = true ->
  forall toks la, TRes (tscan_la (tB toks []) (render_term t) la) toks (render_term t).
Proof.
  intros t H toks la. destruct t as [s|l|p l|b x|s p o]; cbn [wf_term_ttl] in H; try discriminate.
  - (* IRI *)
    apply ttl_iri_wf in H. cbn [render_term tscan_la].
    assert (E : opt_is cLT (match s ++ [cGT] with [] => la | c2 :: _ => Some c2 end) = false).
    { destruct s as [|c s']; [reflexivity|]. cbn [app]. unfold wf_iri in H. cbn [forallb] in H.
      apply andb_true_iff in H. destruct H as [Hc _]. apply iri_char_facts in Hc. destruct Hc as (_ & Hc & _).
      unfold opt_is. exact Hc. }
    rewrite tstep_open_uri by exact E. change (tU toks [cLT]) with (tU toks (rev [cLT])).
    rewrite tscan_uri_content by exact H. cbn [app].
    rewrite (trim_tight (cLT :: s ++ [cGT])) by (apply tight_ends; reflexivity). apply tres_clean.
  - (* blank node *)
    cbn [render_term]. change (tB toks []) with (tB toks (rev [])).
    assert (B : forallb bare_char (95 :: cCOLON :: l) = true) by (cbn [forallb]; rewrite (name_bare l H); reflexivity).
    rewrite tscan_bare by exact B. cbn [app]. apply tres_pending; [|discriminate].
    apply tight_all_nws. apply bare_nws. exact B.
  - (* prefixed name *)
    repeat (apply andb_true_iff in H; destruct H as [H ?]).
    cbn [render_term]. change (tB toks []) with (tB toks (rev [])).
    assert (B : forallb bare_char (p ++ cCOLON :: l) = true).
    { rewrite forallb_app. cbn [forallb]. rewrite (name_bare p H), (name_bare l H3). reflexivity. }
    rewrite tscan_bare by exact B. cbn [app]. apply tres_pending; [|destruct p; discriminate].
    apply tight_all_nws. apply bare_nws. exact B.
  - (* literal, with or without a suffix *)
    pose proof (tight_term _ (ttl_lit_nt b x H)) as Ht.
    cbn [wf_term_ttl] in H. apply andb_true_iff in H. destruct H as [H Hx]. apply andb_true_iff in H. destruct H as [Hb _].
    rewrite render_lit in *. rewrite tscan_la_app.
    set (la1 := match suffix_text x with [] => la | c :: _ => Some c end).
    assert (E : tscan_la (tB toks []) (cDQ :: lit_text b ++ [cDQ]) la1 = tB toks (rev (cDQ :: lit_text b ++ [cDQ]))).
    { cbn [tscan_la]. rewrite tstep_open_lit. change (tL toks [cDQ]) with (tL toks (rev [cDQ])).
      rewrite tscan_la_app. rewrite tscan_lit_body by exact Hb. cbn [tscan_la]. rewrite tstep_close_lit.
      rewrite rev_snoc_cons, <- app_assoc. reflexivity. }
    rewrite E. clear E.
    destruct x as [|tag|iri]; cbn [suffix_text] in *.
    + rewrite app_nil_r in *. cbn [tscan_la]. apply tres_pending; [exact Ht | discriminate].
    + cbn [tscan_la]. rewrite tstep_suffix_char by auto. rewrite rev_snoc_cons.
      rewrite tscan_tag by exact Hx. rewrite <- app_assoc. cbn [app] in *.
      apply tres_pending; [exact Ht | discriminate].
    + apply andb_true_iff in Hx. destruct Hx as [Hi _].
      cbn [tscan_la]. rewrite !tstep_suffix_char by auto.
      assert (Eo : opt_is cLT (match iri ++ [cGT] with [] => la | c2 :: _ => Some c2 end) = false).
      { destruct iri as [|c iri']; [reflexivity|]. cbn [app]. unfold wf_iri in Hi. cbn [forallb] in Hi.
        apply andb_true_iff in Hi. destruct Hi as [Hc _]. apply iri_char_facts in Hc. destruct Hc as (_ & Hc & _).
        unfold opt_is. exact Hc. }
      rewrite tstep_open_uri_gen by exact Eo. rewrite !rev_snoc_cons.
      rewrite tscan_uri_content by exact Hi. rewrite <- !app_assoc. cbn [app] in *.
      rewrite (trim_tight _ Ht). apply tres_clean.
  - (* quoted triple *)
    apply andb_true_iff in H. destruct H as [H Ho]. apply andb_true_iff in H. destruct H as [Hs Hp].
    rewrite tscan_quoted by (apply comp_ttl_ok; assumption). apply tres_clean.
Qed.

Lemma t_tok_clean : forall toks, t_tok (tB toks []) = tB toks [].
Proof. reflexivity. Qed.

Lemma tres_sep : forall s toks part w rest, TRes s toks part -> sep4_ok w = true ->
  t_scan s (w ++ rest) = t_scan (tB (part :: toks) []) rest.
Proof.
  intros s toks part w rest [(toks' & cur & Es) Ht] Hw. unfold sep4_ok in Hw. apply andb_true_iff in Hw. destruct Hw as [Hne Hall].
  destruct w as [|c w]; [discriminate|]. cbn [forallb] in Hall. apply andb_true_iff in Hall. destruct Hall as [Hc Hw].
  cbn [app t_scan]. subst s. rewrite tstep_sep by exact Hc. rewrite Ht.
  clear -Hw. induction w as [|c w IH]; [reflexivity|].
  cbn [forallb] in Hw. apply andb_true_iff in Hw. destruct Hw as [Hc Hw].
  cbn [app t_scan]. rewrite tstep_sep by exact Hc. rewrite t_tok_clean. apply IH. exact Hw.
Qed.

Lemma tres_dot : forall s toks part w, TRes s toks part -> forallb ws4_char w = true ->
  t_scan s (w ++ [cDOT]) = tB ([cDOT] :: part :: toks) [].
Proof.
  intros s toks part w [(toks' & cur & Es) Ht] Hw. destruct w as [|c w].
  - cbn [app t_scan]. subst s. rewrite tstep_dot. cbv zeta. rewrite Ht. reflexivity.
  - assert (S : sep4_ok (c :: w) = true) by (unfold sep4_ok; rewrite Hw; reflexivity).
    rewrite (tres_sep s toks part (c :: w) [cDOT] (conj (ex_intro _ toks' (ex_intro _ cur Es)) Ht) S).
    cbn [t_scan]. rewrite tstep_dot. cbv zeta. rewrite t_tok_clean. reflexivity.
Qed.

Lemma term_then : forall t toks rest, wf_term_ttl t = true ->
  exists s, t_scan (tB toks []) (render_term t ++ rest) = t_scan s rest /\ TRes s toks (render_term t).
Proof.
  intros t toks rest H. exists (tscan_la (tB toks []) (render_term t) (hd_error rest)).
  split; [apply t_scan_app | apply term_tres; exact H].
Qed.

Lemma turtle_tokens_stmt : forall s p o w1 w2 w3,
  wf_term_ttl s = true -> wf_term_ttl p = true -> wf_term_ttl o = true ->
  sep4_ok w1 = true -> sep4_ok w2 = true -> forallb ws4_char w3 = true ->
  turtle_tokens (render_term s ++ w1 ++ render_term p ++ w2 ++ render_term o ++ w3 ++ [cDOT])
  = [render_term s; render_term p; render_term o; [cDOT]].
Proof.
  intros s p o w1 w2 w3 Hs Hp Ho H1 H2 H3. unfold turtle_tokens.
  change (mkT [] [] 0 false false false false) with (tB [] []).
  destruct (term_then s [] (w1 ++ render_term p ++ w2 ++ render_term o ++ w3 ++ [cDOT]) Hs) as (s1 & E1 & R1).
  rewrite E1. rewrite (tres_sep _ _ _ _ _ R1 H1).
  destruct (term_then p [render_term s] (w2 ++ render_term o ++ w3 ++ [cDOT]) Hp) as (s2 & E2 & R2).
  rewrite E2. rewrite (tres_sep _ _ _ _ _ R2 H2).
  destruct (term_then o [render_term p; render_term s] (w3 ++ [cDOT]) Ho) as (s3 & E3 & R3).
  rewrite E3. rewrite (tres_dot _ _ _ _ R3 H3). reflexivity.
Qed.

(* ---------------------------------------------------------------------------------------------- *)
(* clean_turtle_term ; resolve_query_term on the text of a term = its lexical form *)
(* the prefix table in scope: names are alphanumeric, IRIs do not begin with '<' *)
Definition pref_ok (pref : list (str * str)) : Prop :=
  Forall (fun kv => forallb name_char (fst kv) = true /\ forallb iri_char (snd kv) = true) pref.

Lemma assoc_under : forall pref, pref_ok pref -> assoc_s [95] pref = None.
Proof.
  induction 1 as [|[k v] pref [Hk _] _ IH]; [reflexivity|]. cbn [assoc_s fst] in *.
  destruct k as [|c k']; [exact IH|]. cbn [str_eqb]. cbn [forallb] in Hk. apply andb_true_iff in Hk. destruct Hk as [Hc _].
  destruct (95 =? c) eqn:E; [apply N.eqb_eq in E; subst c; discriminate | exact IH].
Qed.

Lemma assoc_value_iri : forall pref k v, pref_ok pref -> assoc_s k pref = Some v -> forallb iri_char v = true.
Proof.
  induction 1 as [|[k' v'] pref [_ Hv] _ IH]; intro H; [discriminate|]. cbn [assoc_s] in H.
  destruct (str_eqb k k'); [inversion H; subst; exact Hv | apply IH; exact H].
Qed.

Lemma assoc_value_ok : forall pref k v, pref_ok pref -> assoc_s k pref = Some v -> starts_with_c cLT v = false.
Proof.
  intros pref k v Hp H. pose proof (assoc_value_iri pref k v Hp H) as Hv. destruct v as [|c r]; [reflexivity|].
  cbn [forallb] in Hv. apply andb_true_iff in Hv. destruct Hv as [Hc _]. apply iri_char_facts in Hc. destruct Hc as (_ & L & _). exact L.
Qed.

Lemma tm_char_id : forall c s,
  match s with [] => True | x :: _ => (c =? x) = false end ->
  match rev s with [] => True | x :: _ => (c =? x) = false end -> tm_char c s = s.
Proof. intros c s H1 H2. unfold tm_char. rewrite tsm_char_id by exact H1. apply tem_char_id. exact H2. Qed.

Lemma bare_first_last : forall c l, forallb bare_char l = true ->
  (c =? cDQ) = true \/ (c =? cLT) = true ->
  match l with [] => True | x :: _ => (c =? x) = false end /\ match rev l with [] => True | x :: _ => (c =? x) = false end.
Proof.
  intros c l H Hc.
  assert (K : forall x, bare_char x = true -> (c =? x) = false).
  { intros x Hx. apply bare_char_facts in Hx. destruct Hx as (_ & A & _ & B & _).
    destruct Hc as [Hc|Hc]; apply N.eqb_eq in Hc; subst c; rewrite N.eqb_sym; assumption. }
  split; [apply (first_char_ok bare_char); assumption | apply (last_char_ok bare_char); assumption].
Qed.

Lemma rqt_plain : forall pref s,
  starts_with_c cLT s = false -> starts_with_c cDQ s = false ->
  (starts_with sHTTP s || starts_with sHTTPS s || negb (contains_c cCOLON s)) = true ->
  resolve_query_term pref s = s.
Proof.
  intros pref s H1 H2 H3. unfold resolve_query_term.
  assert (E : starts_with sLTLT s = false).
  { destruct s as [|c s']; [reflexivity|]. unfold sLTLT. cbn [starts_with starts_with_c] in *. rewrite N.eqb_sym, H1. reflexivity. }
  rewrite E, H1, H2. cbn [andb].
  destruct (contains_c cCOLON s); [|reflexivity]. cbn [negb orb andb] in *. rewrite orb_false_r in H3.
  destruct (starts_with sHTTP s); [reflexivity|]. cbn [orb] in H3. rewrite H3. reflexivity.
Qed.

Lemma rqt_bare : forall pref l, forallb bare_char l = true -> l <> [] ->
  starts_with sHTTP l = false -> starts_with sHTTPS l = false -> contains_c cCOLON l = true ->
  resolve_query_term pref l = expand_prefixed pref l.
Proof.
  intros pref l H Hne Hh Hs Hc. unfold resolve_query_term. destruct l as [|c l']; [contradiction|].
  cbn [forallb] in H. apply andb_true_iff in H. destruct H as [Hb _]. apply bare_char_facts in Hb.
  destruct Hb as (_ & A & _ & B & _).
  unfold sLTLT. cbn [starts_with starts_with_c]. rewrite (N.eqb_sym cLT c), A, B. cbn [andb].
  rewrite Hc, Hh, Hs. reflexivity.
Qed.

Definition first_lt_free (s : str) : Prop := starts_with_c cLT s = false.

Lemma clean_resolve_plain : forall pref t, pref_ok pref -> wf_term_ttl t = true -> is_quoted_term t = false ->
  resolve_query_term pref (clean_turtle_term (render_term t)) = lex pref t /\ first_lt_free (lex pref t).
Proof.
  intros pref t Hp H Hnq. destruct t as [s|l|p l|b x|s p o]; cbn [wf_term_ttl] in H; try discriminate.
  - (* IRI *)
    unfold ttl_iri_ok in H. apply andb_true_iff in H. destruct H as [H _]. apply andb_true_iff in H. destruct H as [Hw Hc].
    cbn [render_term lex]. unfold clean_turtle_term.
    rewrite (trim_tight (cLT :: s ++ [cGT])) by (apply tight_ends; reflexivity).
    rewrite starts_ltlt_iri by exact Hw. rewrite starts_with_c_cons.
    change (cLT :: s ++ [cGT]) with ((cLT :: s) ++ [cGT]). rewrite ends_with_c_snoc.
    change (cLT =? cLT) with true. change (cGT =? cGT) with true. cbn [andb].
    change ((cLT :: s) ++ [cGT]) with (cLT :: s ++ [cGT]). rewrite strip1_wrap.
    assert (F : starts_with_c cLT s = false /\ starts_with_c cDQ s = false).
    { destruct s as [|c s']; [split; reflexivity|]. unfold wf_iri in Hw. cbn [forallb] in Hw.
      apply andb_true_iff in Hw. destruct Hw as [Hc' _]. apply iri_char_facts in Hc'. destruct Hc' as (_ & A & _ & B & _).
      cbn [starts_with_c]. auto. }
    destruct F as [F1 F2]. split; [apply rqt_plain; assumption | exact F1].
  - (* blank node *)
    cbn [render_term lex]. set (txt := 95 :: cCOLON :: l).
    assert (B : forallb bare_char txt = true) by (unfold txt; cbn [forallb]; rewrite (name_bare l H); reflexivity).
    unfold clean_turtle_term. rewrite (trim_tight txt) by (apply tight_all_nws; apply bare_nws; exact B).
    assert (E1 : starts_with sLTLT txt = false) by reflexivity.
    assert (E2 : starts_with_c cLT txt = false) by reflexivity.
    assert (E3 : starts_with_c cDQ txt = false) by reflexivity.
    rewrite E1, E2, E3. cbn [andb].
    destruct (bare_first_last cDQ txt B (or_introl eq_refl)) as [K1 K2].
    rewrite tm_char_id by assumption.
    rewrite rqt_bare; [| exact B | discriminate | reflexivity | reflexivity | reflexivity].
    split; [|reflexivity]. unfold expand_prefixed, txt. cbn [find_c]. change (95 =? cCOLON) with false. cbv iota.
    change (cCOLON =? cCOLON) with true. cbv iota. rewrite (assoc_under pref Hp). reflexivity.
  - (* prefixed name *)
    repeat (apply andb_true_iff in H; destruct H as [H ?]). apply negb_true_iff in H0, H1, H2.
    cbn [render_term]. set (txt := p ++ cCOLON :: l).
    assert (B : forallb bare_char txt = true).
    { unfold txt. rewrite forallb_app. cbn [forallb]. rewrite (name_bare p H), (name_bare l H3). reflexivity. }
    assert (Ne : txt <> []) by (unfold txt; destruct p; discriminate).
    unfold clean_turtle_term. rewrite (trim_tight txt) by (apply tight_all_nws; apply bare_nws; exact B).
    destruct (bare_first_last cLT txt B (or_intror eq_refl)) as [L1 _].
    destruct (bare_first_last cDQ txt B (or_introl eq_refl)) as [K1 K2].
    assert (E2 : starts_with_c cLT txt = false).
    { destruct txt as [|c r]; [contradiction|]. cbn [starts_with_c]. rewrite N.eqb_sym. exact L1. }
    assert (E3 : starts_with_c cDQ txt = false).
    { destruct txt as [|c r]; [contradiction|]. cbn [starts_with_c]. rewrite N.eqb_sym. exact K1. }
    assert (E1 : starts_with sLTLT txt = false).
    { destruct txt as [|c r]; [contradiction|]. unfold sLTLT. cbn [starts_with starts_with_c] in *. rewrite N.eqb_sym, E2. reflexivity. }
    rewrite E1, E2, E3. cbn [andb]. rewrite tm_char_id by assumption.
    rewrite rqt_bare; [| exact B | exact Ne | exact H2 | exact H1 | apply contains_colon].
    unfold expand_prefixed, txt. rewrite find_c_first.
    + cbn [lex]. destruct (assoc_s p pref) as [iri|] eqn:Ea.
      * split; [reflexivity|]. unfold first_lt_free. pose proof (assoc_value_ok pref p iri Hp Ea) as V.
        destruct iri as [|c r]; [|exact V]. cbn [app]. fold txt.
        destruct l as [|c l']; [reflexivity|]. cbn [forallb] in H3. apply andb_true_iff in H3. destruct H3 as [Hc _].
        apply name_char_facts in Hc. destruct Hc as (_ & A & _). cbn [starts_with_c]. exact A.
      * split; [reflexivity | exact E2].
    + clear -H. induction p as [|x p IH]; [reflexivity|]. cbn [forallb] in *. apply andb_true_iff in H. destruct H as [Hx H].
      apply name_char_facts in Hx. destruct Hx as (_ & _ & _ & _ & C & _). rewrite C. cbn [negb andb]. apply IH. exact H.
  - (* literal *)
    pose proof (ttl_lit_nt b x H) as Hnt. pose proof (trim_tight _ (tight_term _ Hnt)) as T.
    cbn [wf_term_ttl] in H. apply andb_true_iff in H. destruct H as [H Hx]. apply andb_true_iff in H. destruct H as [Hb Hv].
    unfold ttl_value_ok in Hv. apply andb_true_iff in Hv. destruct Hv as [Hv Hv3]. apply andb_true_iff in Hv. destruct Hv as [Hv1 Hv2].
    apply negb_true_iff in Hv1, Hv2, Hv3.
    pose proof (decode_rendered_lit b x Hb) as D.
    unfold clean_turtle_term. rewrite T, D. rewrite render_lit. cbn [app].
    assert (E1 : starts_with sLTLT (cDQ :: (lit_text b ++ [cDQ]) ++ suffix_text x) = false) by reflexivity.
    rewrite E1. rewrite !starts_with_c_cons. change (cDQ =? cLT) with false. change (cDQ =? cDQ) with true. cbn [andb].
    destruct x as [|tag|iri]; cbn [suffix_text lex].
    + split; [apply rqt_plain; [exact Hv1 | exact Hv2 | rewrite Hv3; apply orb_true_r] | exact Hv1].
    + change (starts_with sCC (cAT :: tag)) with false. cbv iota. rewrite starts_with_c_cons. change (cAT =? cAT) with true. cbv iota.
      assert (F1 : starts_with_c cLT (lit_value b ++ cAT :: tag) = false) by (destruct (lit_value b); [reflexivity | exact Hv1]).
      assert (F2 : starts_with_c cDQ (lit_value b ++ cAT :: tag) = false) by (destruct (lit_value b); [reflexivity | exact Hv2]).
      assert (F3 : contains_c cCOLON (lit_value b ++ cAT :: tag) = false).
      { unfold contains_c in *. rewrite existsb_app, Hv3. cbn [existsb orb]. change (cCOLON =? cAT) with false. cbn [orb].
        clear -Hx. induction tag as [|c tag IH]; [reflexivity|]. cbn [forallb existsb] in *. apply andb_true_iff in Hx. destruct Hx as [Hc Hx].
        rewrite (IH Hx), orb_false_r. apply N.eqb_neq. intro E. subst c. discriminate. }
      split; [apply rqt_plain; [exact F1 | exact F2 | rewrite F3; apply orb_true_r] | exact F1].
    + change (starts_with sCC (cCARET :: cCARET :: cLT :: iri ++ [cGT])) with true. cbv iota.
      split; [apply rqt_plain; [exact Hv1 | exact Hv2 | rewrite Hv3; apply orb_true_r] | exact Hv1].
Qed.

Lemma ttl_first : forall t, wf_term_ttl t = true ->
  exists c r, render_term t = c :: r /\ (c = cLT \/ bare_char c = true \/ c = cDQ).
Proof.
  intros t H. destruct t as [s|l|p l|b x|s p o]; cbn [wf_term_ttl] in H; try discriminate; cbn [render_term].
  - eauto 6.
  - exists 95, (cCOLON :: l). split; [reflexivity|]. right. left. reflexivity.
  - repeat (apply andb_true_iff in H; destruct H as [H ?]).
    destruct p as [|c p']; cbn [app]; [exists cCOLON, l; split; [reflexivity|]; right; left; reflexivity|].
    exists c, (p' ++ cCOLON :: l). split; [reflexivity|]. right. left. cbn [forallb] in H. apply andb_true_iff in H.
    destruct H as [Hc _]. unfold bare_char. rewrite Hc. reflexivity.
  - eauto 6.
  - cbn [app]. eauto 6.
Qed.

Lemma first_facts : forall c, (c = cLT \/ bare_char c = true \/ c = cDQ) ->
  is_ws c = false /\ (c =? cHASH) = false /\ (c =? cAT) = false /\ (c =? cSEMI) = false /\ (c =? cDOT) = false /\ (c =? cCOMMA) = false.
Proof.
  intros c [H|[H|H]]; [subst c; repeat split; reflexivity | | subst c; repeat split; reflexivity].
  pose proof (bare_char_facts c H) as (A & _ & _ & _ & _ & S & C & D & _ & _ & _ & _ & Hh).
  repeat split; try assumption. apply N.eqb_neq. intro E. subst c. discriminate.
Qed.

Lemma ttl_not_delim : forall t, wf_term_ttl t = true ->
  str_eqb (render_term t) sDOT = false /\ str_eqb (render_term t) sSEMI = false /\ str_eqb (render_term t) sCOMMA = false.
Proof.
  intros t H. destruct (ttl_first t H) as (c & r & E & Hc). rewrite E.
  destruct (first_facts c Hc) as (_ & _ & _ & S & D & C). unfold sSEMI, sDOT, sCOMMA. cbn [str_eqb]. rewrite S, D, C. auto.
Qed.

Lemma ttl_tight : forall t, wf_term_ttl t = true -> tight (render_term t) /\ render_term t <> [].
Proof.
  intros t H. destruct (term_tres t H [] None) as [_ Ht]. pose proof H as H0.
  destruct (ttl_first t H) as (c & r & E & Hc). split; [|rewrite E; discriminate].
  destruct t as [s|l|p l|b x|s p o]; cbn [wf_term_ttl] in H; try discriminate; cbn [render_term].
  - apply tight_ends; reflexivity.
  - apply tight_all_nws. apply bare_nws. cbn [forallb]. rewrite (name_bare l H). reflexivity.
  - repeat (apply andb_true_iff in H; destruct H as [H ?]). apply tight_all_nws. apply bare_nws.
    rewrite forallb_app. cbn [forallb]. rewrite (name_bare p H), (name_bare l H4). reflexivity.
  - apply (tight_term _ (ttl_lit_nt b x H0)).
  - apply tight_quoted.
Qed.

(* if pat is a prefix of a ++ b then it is a prefix of a, or every character of a occurs in pat *)
Lemma starts_with_app_split : forall pat a b, starts_with pat (a ++ b) = true ->
  starts_with pat a = true \/ forallb (fun c => existsb (N.eqb c) pat) a = true.
Proof.
  induction pat as [|x pat IH]; intros a b H; [left; reflexivity|].
  destruct a as [|c a]; [right; reflexivity|]. cbn [app starts_with] in H. apply andb_true_iff in H. destruct H as [Hx H].
  apply N.eqb_eq in Hx. subst c. destruct (IH a b H) as [K|K].
  - left. cbn [starts_with]. rewrite N.eqb_refl, K. reflexivity.
  - right. cbn [forallb existsb]. rewrite N.eqb_refl. cbn [orb andb].
    clear -K. induction a as [|c a IHa]; [reflexivity|]. cbn [forallb] in *. apply andb_true_iff in K. destruct K as [Kc K].
    cbn [existsb]. rewrite Kc, orb_true_r. cbn [andb]. apply IHa. exact K.
Qed.

Lemma not_prefix_line : forall t rest, wf_term_ttl t = true -> is_lit t = false ->
  starts_with sPREFIX (render_term t ++ rest) = false /\ starts_with sPREFIX_UP (render_term t ++ rest) = false.
Proof.
  intros t rest H Hl. destruct (ttl_first t H) as (c & r & E & Hc). destruct (first_facts c Hc) as (_ & _ & A & _).
  split.
  - rewrite E. unfold sPREFIX. cbn [app starts_with]. change 64 with cAT. rewrite N.eqb_sym, A. reflexivity.
  - destruct t as [s|l|p l|b x|s p o]; cbn [wf_term_ttl is_lit] in *; try discriminate; cbn [render_term app]; try reflexivity.
    repeat (apply andb_true_iff in H; destruct H as [H ?]). apply negb_true_iff in H0.
    destruct (starts_with sPREFIX_UP ((p ++ cCOLON :: l) ++ rest)) eqn:Es; [|reflexivity].
    apply starts_with_app_split in Es. destruct Es as [Es|Es].
    + unfold sPREFIX_UP_ in H0. unfold sPREFIX_UP in Es. congruence.
    + rewrite forallb_app in Es. apply andb_true_iff in Es. destruct Es as [_ Es]. cbn [forallb] in Es.
      apply andb_true_iff in Es. destruct Es as [Es _]. vm_compute in Es. discriminate.
Qed.

(* the object of a well-formed statement carries no `{| |}` annotation *)
Lemma find_sub_none : forall p0 p s, forallb (fun c => negb (c =? p0)) s = true -> find_sub (p0 :: p) s = None.
Proof.
  induction s as [|c r IH]; intro H; [reflexivity|].
  cbn [forallb] in H. apply andb_true_iff in H. destruct H as [Hc H]. apply negb_true_iff in Hc.
  cbn [find_sub starts_with]. rewrite N.eqb_sym, Hc. cbn [andb]. rewrite IH by exact H. reflexivity.
Qed.

Lemma contains_none : forall c s, contains_c c s = false -> forallb (fun x => negb (x =? c)) s = true.
Proof.
  unfold contains_c. induction s as [|x s IH]; intro H; [reflexivity|].
  cbn [existsb forallb] in *. apply orb_false_iff in H. destruct H as [Hx H]. rewrite N.eqb_sym, Hx. cbn [negb andb]. apply IH. exact H.
Qed.

Definition nobrace (c : N) : bool := negb (c =? cLBRACE).

Lemma bare_nobrace : forall l, forallb bare_char l = true -> forallb nobrace l = true.
Proof.
  induction l as [|c l IH]; intro H; [reflexivity|]. cbn [forallb] in *. apply andb_true_iff in H. destruct H as [Hc H].
  rewrite (IH H), andb_true_r. unfold nobrace. apply negb_true_iff. apply N.eqb_neq. intro E. subst c. discriminate.
Qed.

Lemma tag_nobrace : forall l, forallb tag_char l = true -> forallb nobrace l = true.
Proof.
  induction l as [|c l IH]; intro H; [reflexivity|]. cbn [forallb] in *. apply andb_true_iff in H. destruct H as [Hc H].
  rewrite (IH H), andb_true_r. unfold nobrace. apply negb_true_iff. apply N.eqb_neq. intro E. subst c. discriminate.
Qed.

Lemma split_annotation_term : forall t, wf_term_ttl t = true -> split_annotation (render_term t) = (render_term t, []).
Proof.
  intros t H. pose proof H as H0. unfold split_annotation.
  destruct t as [s|l|p l|b x|s p o]; cbn [wf_term_ttl] in H; try discriminate.
  - unfold ttl_iri_ok in H. apply andb_true_iff in H. destruct H as [_ Hb]. apply negb_true_iff in Hb.
    cbn [render_term starts_with_c]. change (cLT =? cDQ) with false. cbv iota. cbn [skipn].
    unfold sANN_OPEN. rewrite find_sub_none; [reflexivity|].
    cbn [forallb]. rewrite forallb_app. rewrite (contains_none _ _ Hb). reflexivity.
  - cbn [render_term starts_with_c]. change (95 =? cDQ) with false. cbv iota. cbn [skipn].
    unfold sANN_OPEN. rewrite find_sub_none; [reflexivity|].
    apply (bare_nobrace (95 :: cCOLON :: l)). cbn [forallb]. rewrite (name_bare l H). reflexivity.
  - repeat (apply andb_true_iff in H; destruct H as [H ?]).
    assert (B : forallb bare_char (p ++ cCOLON :: l) = true).
    { rewrite forallb_app. cbn [forallb]. rewrite (name_bare p H), (name_bare l H4). reflexivity. }
    cbn [render_term].
    assert (S : starts_with_c cDQ (p ++ cCOLON :: l) = false).
    { destruct (p ++ cCOLON :: l) as [|c r] eqn:E; [reflexivity|]. cbn [forallb] in B. apply andb_true_iff in B. destruct B as [Bc _].
      apply bare_char_facts in Bc. destruct Bc as (_ & _ & _ & D & _). exact D. }
    rewrite S. cbn [skipn]. unfold sANN_OPEN. rewrite find_sub_none; [reflexivity | apply bare_nobrace; exact B].
  - apply andb_true_iff in H. destruct H as [H Hx]. apply andb_true_iff in H. destruct H as [Hb _].
    rewrite (decode_rendered_lit b x Hb). rewrite render_lit. cbn [app starts_with_c]. change (cDQ =? cDQ) with true. cbv iota.
    assert (L : (length (cDQ :: (lit_text b ++ [cDQ]) ++ suffix_text x) - length (suffix_text x))%nat = length (cDQ :: lit_text b ++ [cDQ])).
    { cbn [length]. rewrite app_length. lia. }
    rewrite L. change (cDQ :: (lit_text b ++ [cDQ]) ++ suffix_text x) with ((cDQ :: lit_text b ++ [cDQ]) ++ suffix_text x).
    rewrite skipn_app, skipn_all, Nat.sub_diag. cbn [app skipn].
    unfold sANN_OPEN. rewrite find_sub_none; [reflexivity|].
    destruct x as [|tag|iri]; cbn [suffix_text forallb]; [reflexivity | fold nobrace; rewrite (tag_nobrace tag Hx); reflexivity|].
    apply andb_true_iff in Hx. destruct Hx as [_ Hbr]. apply negb_true_iff in Hbr.
    rewrite forallb_app. rewrite (contains_none _ _ Hbr). reflexivity.
  - apply andb_true_iff in H. destruct H as [H Ho]. apply andb_true_iff in H. destruct H as [Hs Hp].
    unfold comp_ttl in Hs, Hp, Ho. apply andb_true_iff in Hs. apply andb_true_iff in Hp. apply andb_true_iff in Ho.
    destruct Hs as [_ Bs]. destruct Hp as [_ Bp]. destruct Ho as [_ Bo]. unfold nobrace_c in Bs, Bp, Bo.
    rewrite render_quoted. cbn [starts_with_c]. change (cLT =? cDQ) with false. cbv iota. cbn [skipn].
    unfold sANN_OPEN. rewrite find_sub_none; [reflexivity|].
    cbn [forallb]. rewrite !forallb_app. cbn [forallb]. rewrite Bs, Bp, Bo. reflexivity.
Qed.

(* what the cleaning and resolving of a term hands on: the lexical form, or the text of a quoted triple *)
Definition rc (e : env) (t : term) : str := match t with TQuoted _ _ _ => render_term t | _ => lex e t end.

Lemma clean_resolve : forall pref t, pref_ok pref -> wf_term_ttl t = true ->
  resolve_query_term pref (clean_turtle_term (render_term t)) = rc pref t /\
  starts_with sLTLT (rc pref t) = is_quoted_term t.
Proof.
  intros pref t Hp H. destruct (is_quoted_term t) eqn:Eq.
  - destruct t as [s|l|p l|b x|s p o]; try discriminate. cbn [rc].
    destruct (quoted_brackets s p o) as [A B].
    unfold clean_turtle_term. rewrite (trim_tight _ (tight_quoted s p o)), A.
    unfold resolve_query_term. rewrite A, B. auto.
  - destruct (clean_resolve_plain pref t Hp H Eq) as [E F].
    assert (R : rc pref t = lex pref t) by (destruct t; try discriminate; reflexivity).
    rewrite R. split; [exact E|].
    destruct (lex pref t) as [|c v]; [reflexivity|]. unfold first_lt_free in F. unfold sLTLT. cbn [starts_with starts_with_c] in *.
    rewrite N.eqb_sym, F. reflexivity.
Qed.

Definition enc_term_e (e : env) (x : db) (t : term) : db * N :=
  match t with TQuoted _ _ _ => enc_term x t | _ => db_encode x (lex e t) end.

Lemma name_iri : forall l, forallb name_char l = true -> forallb iri_char l = true.
Proof.
  induction l as [|c l IH]; intro H; [reflexivity|]. cbn [forallb] in *. apply andb_true_iff in H. destruct H as [Hc H].
  rewrite (IH H), andb_true_r. pose proof (name_char_facts c Hc) as (W & L & D & _).
  assert (G : (c =? cGT) = false) by (apply N.eqb_neq; intro E; subst c; discriminate).
  assert (B : (c =? cBS) = false) by (apply N.eqb_neq; intro E; subst c; discriminate).
  unfold iri_char. rewrite W, L, G, D, B. reflexivity.
Qed.

Lemma comp_ttl_nt : forall s p o, comp_ttl s = true -> comp_ttl p = true -> comp_ttl o = true ->
  wf_term_nt (TQuoted s p o) = true.
Proof. intros s p o Hs Hp Ho. cbn [wf_term_nt]. rewrite (comp_ttl_ok s Hs), (comp_ttl_ok p Hp), (comp_ttl_ok o Ho). reflexivity. Qed.

(* encode_term_star on what the statement hands it *)
Lemma encode_star_rc : forall e t x, pref_ok e -> wf_term_ttl t = true -> term_recleaned t = false ->
  encode_star x (rc e t) = enc_term_e e x t.
Proof.
  intros e t x Hp H R. destruct t as [s|l|p l|b x0|s p o]; cbn [wf_term_ttl] in H; cbn [rc enc_term_e lex].
  - apply encode_star_stable. apply iri_stable. apply ttl_iri_wf. exact H.
  - apply encode_star_stable. apply bnode_stable. apply name_iri. exact H.
  - repeat (apply andb_true_iff in H; destruct H as [H ?]).
    apply encode_star_stable. apply iri_stable. unfold wf_iri.
    destruct (assoc_s p e) as [iri|] eqn:Ea.
    + rewrite forallb_app, (assoc_value_iri e p iri Hp Ea), (name_iri l H3). reflexivity.
    + rewrite forallb_app. cbn [forallb]. rewrite (name_iri p H), (name_iri l H3). reflexivity.
  - apply encode_star_stable. exact R.
  - apply andb_true_iff in H. destruct H as [H Ho]. apply andb_true_iff in H. destruct H as [Hs Hp'].
    unfold encode_star. apply star_quoted; apply comp_ttl_ok; assumption.
Qed.

Lemma enc_term_e_spec : forall e t x x' i,
  wf_term_ttl t = true -> enc_term_e e x t = (x', i) ->
  dict_ok (d_dict x) -> qts_ok x -> next_id (d_dict x) + 3 <= QBIT ->
  dict_ok (d_dict x') /\ qts_ok x' /\ ext x x' /\ d_quads x' = d_quads x /\ d_pref x' = d_pref x /\
  decode_any x' i = Some (lex e t) /\
  next_id (d_dict x) <= next_id (d_dict x') /\ next_id (d_dict x') <= next_id (d_dict x) + 3.
Proof.
  intros e t x x' i W H Hd Hq Hn.
  assert (Simple : forall s, db_encode x s = (x', i) ->
    dict_ok (d_dict x') /\ qts_ok x' /\ ext x x' /\ d_quads x' = d_quads x /\ d_pref x' = d_pref x /\
    decode_any x' i = Some s /\ next_id (d_dict x) <= next_id (d_dict x') /\ next_id (d_dict x') <= next_id (d_dict x) + 3).
  { intros s E. assert (N1 : next_id (d_dict x) < QBIT) by lia.
    destruct (db_encode_spec _ _ _ _ E Hd N1) as (D1 & X1 & Q1 & P1 & [C1 _] & L1 & U1 & T1).
    split; [exact D1|]. split; [apply (qts_ok_same x); assumption|]. split; [exact X1|].
    split; [exact Q1|]. split; [exact P1|]. split; [exact C1|]. split; lia. }
  destruct t as [s|l|p l|b x0|s p o]; cbn [enc_term_e] in H; try (apply Simple; exact H).
  cbn [wf_term_ttl] in W. apply andb_true_iff in W. destruct W as [W Ho]. apply andb_true_iff in W. destruct W as [Hs Hp].
  pose proof (enc_term_spec (TQuoted s p o) x x' i (comp_ttl_nt s p o Hs Hp Ho) H Hd Hq Hn) as K.
  cbn [lex] in K |- *. rewrite !(comp_lex_env _ e) by (apply comp_ttl_ok; assumption). exact K.
Qed.

(* one Turtle statement: through encode_term_star when the subject or the object is a quoted triple *)
Definition ttl_step (x : db) (s p o : term) : db :=
  let e := d_pref x in
  if is_quoted_term s || is_quoted_term o then
    let (x1, si) := enc_term_e e x s in
    let (x2, pi) := enc_term_e e x1 p in
    let (x3, oi) := enc_term_e e x2 o in
    add_triple x3 (si, pi, oi)
  else add_lex x (lex e s) (lex e p) (lex e o) None.

Definition star_fine (s p o : term) : Prop :=
  is_quoted_term s || is_quoted_term o = true ->
  term_recleaned s = false /\ term_recleaned p = false /\ term_recleaned o = false.

Lemma ttl_flush_stmt : forall x s p o, pref_ok (d_pref x) ->
  wf_term_ttl s = true -> wf_term_ttl p = true -> is_quoted_term p = false -> wf_term_ttl o = true -> star_fine s p o ->
  ttl_flush x (Some (render_term s)) (Some (render_term p)) [render_term o] = (ttl_step x s p o, []).
Proof.
  intros x s p o Hp Hs Hpp Hpq Ho Hf. unfold ttl_flush. cbn [rev app join_sp].
  rewrite split_annotation_term by exact Ho. cbv zeta.
  destruct (clean_resolve (d_pref x) s Hp Hs) as [Es Fs].
  destruct (clean_resolve (d_pref x) p Hp Hpp) as [Ep Fp].
  destruct (clean_resolve (d_pref x) o Hp Ho) as [Eo Fo].
  rewrite Es, Ep, Eo, Fs, Fo. unfold ttl_step. cbv zeta.
  destruct (is_quoted_term s || is_quoted_term o) eqn:Eq.
  - destruct (Hf Eq) as (Rs & Rp & Ro).
    rewrite (encode_star_rc _ s x Hp Hs Rs). destruct (enc_term_e (d_pref x) x s) as [x1 si].
    rewrite (encode_star_rc _ p x1 Hp Hpp Rp). destruct (enc_term_e (d_pref x) x1 p) as [x2 pi].
    rewrite (encode_star_rc _ o x2 Hp Ho Ro). destruct (enc_term_e (d_pref x) x2 o) as [x3 oi].
    cbn [fold_left]. reflexivity.
  - apply orb_false_iff in Eq. destruct Eq as [Qs Qo].
    assert (R : forall t, is_quoted_term t = false -> rc (d_pref x) t = lex (d_pref x) t) by (intros t Ht; destruct t; try discriminate; reflexivity).
    rewrite !R by assumption. cbn [fold_left]. unfold add_lex.
    destruct (db_encode x (lex (d_pref x) s)) as [x1 si]. destruct (db_encode x1 (lex (d_pref x) p)) as [x2 pi].
    destruct (db_encode x2 (lex (d_pref x) o)) as [x3 oi]. reflexivity.
Qed.

Lemma ttl_flush_stmt_plain : forall x s p o, pref_ok (d_pref x) ->
  wf_term_ttl s = true -> is_quoted_term s = false -> wf_term_ttl p = true -> is_quoted_term p = false ->
  wf_term_ttl o = true -> is_quoted_term o = false ->
  ttl_flush x (Some (render_term s)) (Some (render_term p)) [render_term o]
  = (add_lex x (lex (d_pref x) s) (lex (d_pref x) p) (lex (d_pref x) o) None, []).
Proof.
  intros x s p o Hp Hs Qs Hpp Qp Ho Qo. rewrite ttl_flush_stmt; try assumption.
  - unfold ttl_step. rewrite Qs, Qo. reflexivity.
  - unfold star_fine. rewrite Qs, Qo. discriminate.
Qed.

Lemma ttl_step_spec : forall x s p o, db_okq x -> pref_ok (d_pref x) ->
  wf_term_ttl s = true -> wf_term_ttl p = true -> wf_term_ttl o = true ->
  next_id (d_dict x) + 9 <= QBIT ->
  db_okq (ttl_step x s p o) /\
  (forall lq, In lq (den (ttl_step x s p o)) <-> In lq (den x) \/ lq = lq_of (lex (d_pref x) s) (lex (d_pref x) p) (lex (d_pref x) o) None) /\
  next_id (d_dict (ttl_step x s p o)) <= next_id (d_dict x) + 9 /\ d_pref (ttl_step x s p o) = d_pref x.
Proof.
  intros x s p o [[Hd Hqd] Hq] Hp Ws Wp Wo Hn. unfold ttl_step. cbv zeta.
  destruct (is_quoted_term s || is_quoted_term o).
  - set (e := d_pref x).
    destruct (enc_term_e e x s) as [x1 si] eqn:E1.
    assert (N1 : next_id (d_dict x) + 3 <= QBIT) by lia.
    destruct (enc_term_e_spec e s x x1 si Ws E1 Hd Hq N1) as (D1 & K1 & X1 & Q1 & P1 & C1 & L1 & U1).
    destruct (enc_term_e e x1 p) as [x2 pi] eqn:E2.
    assert (N2 : next_id (d_dict x1) + 3 <= QBIT) by lia.
    destruct (enc_term_e_spec e p x1 x2 pi Wp E2 D1 K1 N2) as (D2 & K2 & X2 & Q2 & P2 & C2 & L2 & U2).
    destruct (enc_term_e e x2 o) as [x3 oi] eqn:E3.
    assert (N3 : next_id (d_dict x2) + 3 <= QBIT) by lia.
    destruct (enc_term_e_spec e o x2 x3 oi Wo E3 D2 K2 N3) as (D3 & K3 & X3 & Q3 & P3 & C3 & L3 & U3).
    assert (X : ext x x3) by (apply (ext_trans _ _ _ X1 (ext_trans _ _ _ X2 X3))).
    pose proof (decode_any_ext _ _ _ _ (ext_trans _ _ _ X2 X3) C1) as C1'.
    pose proof (decode_any_ext _ _ _ _ X3 C2) as C2'.
    assert (Qx : d_quads x3 = d_quads x) by congruence.
    destruct (den_ext x x3 X Qx Hqd) as [Dn Fq].
    assert (Kq : quad_ok x3 (si, pi, oi, None)).
    { unfold quad_ok. split; [exists (lex e s); exact C1'|]. split; [exists (lex e p); exact C2'|]. split; [exists (lex e o); exact C3 | exact I]. }
    assert (Kd : den_quad x3 (si, pi, oi, None) = lq_of (lex e s) (lex e p) (lex e o) None)
      by (cbn [den_quad lq_of option_map]; rewrite C1', C2', C3; reflexivity).
    unfold add_triple. destruct (add_quad_frame x3 (si, pi, oi, None)) as (Fd & _ & Fp).
    split; [split; [apply add_quad_ok; [split; assumption | exact Kq] | apply add_quad_qts_ok; exact K3]|].
    split; [intro lq; rewrite den_add_quad, Dn, Kd; reflexivity|].
    split; [rewrite Fd; lia | rewrite Fp, P3, P2, P1; reflexivity].
  - assert (N4 : next_id (d_dict x) + 4 <= QBIT) by lia.
    destruct (add_lex_spec x (lex (d_pref x) s) (lex (d_pref x) p) (lex (d_pref x) o) None (conj Hd Hqd) N4) as (K1 & K2 & K3 & K4).
    split; [split; [exact K1 | apply add_lex_okq; [split; [split; assumption | exact Hq] | exact N4]]|].
    split; [exact K2|]. split; [lia | exact K4].
Qed.

Lemma tok_subj : forall x t, str_eqb t sDOT = false -> str_eqb t sSEMI = false -> str_eqb t sCOMMA = false ->
  ttl_token (mkL x None None [] true false false) t = mkL x (Some t) None [] false true false.
Proof. intros x t H1 H2 H3. unfold ttl_token. cbn [l_es l_ep l_eo l_db l_subj l_pred l_objs]. rewrite H1, H2, H3. reflexivity. Qed.

Lemma tok_pred : forall x s t, str_eqb t sDOT = false -> str_eqb t sSEMI = false -> str_eqb t sCOMMA = false ->
  ttl_token (mkL x (Some s) None [] false true false) t = mkL x (Some s) (Some t) [] false false true.
Proof. intros x s t H1 H2 H3. unfold ttl_token. cbn [l_es l_ep l_eo l_db l_subj l_pred l_objs]. rewrite H1, H2, H3. reflexivity. Qed.

Lemma tok_obj : forall x s p t, str_eqb t sDOT = false -> str_eqb t sSEMI = false -> str_eqb t sCOMMA = false ->
  ttl_token (mkL x (Some s) (Some p) [] false false true) t = mkL x (Some s) (Some p) [t] false false true.
Proof. intros x s p t H1 H2 H3. unfold ttl_token. cbn [l_es l_ep l_eo l_db l_subj l_pred l_objs]. rewrite H1, H2, H3. reflexivity. Qed.

Lemma tok_dot : forall a, ttl_token a [cDOT] =
  let (x, objs) := ttl_flush (l_db a) (l_subj a) (l_pred a) (l_objs a) in mkL x None None objs true false false.
Proof. intro a. unfold ttl_token. change (str_eqb [cDOT] sDOT) with true. reflexivity. Qed.

Lemma ttl_line_stmt : forall x pd s p o, pref_ok (d_pref x) -> wf_pad_ttl pd = true ->
  wf_term_ttl s = true -> is_lit s = false -> wf_term_ttl p = true -> is_quoted_term p = false ->
  wf_term_ttl o = true -> star_fine s p o ->
  ttl_line x (render_stmt pd s p o None) = ttl_step x s p o.
Proof.
  intros x pd s p o Hpr Hpd Hs Hls Hp Hpq Ho Hf. unfold wf_pad_ttl in Hpd. repeat (apply andb_true_iff in Hpd; destruct Hpd as [Hpd ?]).
  set (L := render_term s ++ w1 pd ++ render_term p ++ w2 pd ++ render_term o ++ w3 pd ++ [cDOT]).
  destruct (ttl_first s Hs) as (cs & rs & Es & Ks). destruct (first_facts cs Ks) as (F1 & F2 & _).
  assert (TL : tight L).
  { unfold L. rewrite Es. cbn [app]. apply tight_intro; [exact F1|].
    replace (cs :: rs ++ w1 pd ++ render_term p ++ w2 pd ++ render_term o ++ w3 pd ++ [cDOT])
      with ((cs :: rs ++ w1 pd ++ render_term p ++ w2 pd ++ render_term o ++ w3 pd) ++ [cDOT])
      by (cbn [app]; rewrite <- !app_assoc; reflexivity).
    apply last_nws_snoc. reflexivity. }
  assert (E1 : trim (render_stmt pd s p o None) = L).
  { unfold render_stmt. cbn [app].
    replace (w0 pd ++ render_term s ++ w1 pd ++ render_term p ++ w2 pd ++ render_term o ++ w3 pd ++ cDOT :: w4 pd)
      with (w0 pd ++ L ++ w4 pd) by (unfold L; rewrite <- !app_assoc; reflexivity).
    apply trim_pad; assumption. }
  unfold ttl_line. rewrite E1.
  assert (E3 : is_empty L = false) by (unfold L; rewrite Es; reflexivity).
  assert (E4 : starts_with_c cHASH L = false) by (unfold L; rewrite Es; cbn [app starts_with_c]; exact F2).
  destruct (not_prefix_line s (w1 pd ++ render_term p ++ w2 pd ++ render_term o ++ w3 pd ++ [cDOT]) Hs Hls) as [E5 E6].
  fold L in E5, E6. rewrite E3, E4, E5, E6. cbn [orb].
  unfold L. rewrite turtle_tokens_stmt by assumption.
  destruct (ttl_not_delim s Hs) as (S1 & S2 & S3). destruct (ttl_not_delim p Hp) as (P1 & P2 & P3).
  destruct (ttl_not_delim o Ho) as (O1 & O2 & O3).
  cbn [fold_left]. rewrite tok_subj by assumption. rewrite tok_pred by assumption. rewrite tok_obj by assumption.
  rewrite tok_dot. cbn [l_db l_subj l_pred l_objs]. rewrite ttl_flush_stmt by assumption.
  cbn [l_db l_subj l_pred l_objs ttl_flush fst]. reflexivity.
Qed.

(* ---------------------------------------------------------------------------------------------- *)
(* blank lines, comments, @prefix *)
Lemma ttl_line_blank : forall x ws, ws_ok ws = true -> ttl_line x ws = x.
Proof. intros x ws H. unfold ttl_line. rewrite trim_all_ws by exact H. reflexivity. Qed.

Lemma ttl_line_comment : forall x ws text, ws_ok ws = true -> ttl_line x (ws ++ cHASH :: text) = x.
Proof.
  intros x ws text H. unfold ttl_line, trim, trim_start. rewrite drop_while_all by exact H.
  rewrite drop_while_stop by reflexivity. rewrite trim_end_cons by reflexivity.
  cbn [is_empty starts_with_c]. change (cHASH =? cHASH) with true. reflexivity.
Qed.

Lemma ttl_line_prefix : forall x name iri, forallb name_char name = true -> forallb n3_char iri = true ->
  ttl_line x (prefix_line name iri) = set_pref x ((name, iri) :: d_pref x).
Proof.
  intros x name iri Hn Hi.
  (* parse_n3 and parse_turtle treat this line through the same steps; reuse the N3 computation *)
  pose proof (n3_line_prefix x name iri Hn Hi) as G.
  destruct (name_chars_nws name Hn) as [An Bn]. destruct (n3_chars_nws iri Hi) as [Ai Bi].
  assert (T : trim (prefix_line name iri) = prefix_line name iri).
  { apply trim_tight. unfold prefix_line. cbn [app]. apply tight_intro; [reflexivity|].
    replace (64 :: 112 :: 114 :: 101 :: 102 :: 105 :: 120 :: cSP :: name ++ cCOLON :: cSP :: cLT :: iri ++ [cGT; cSP; cDOT])
      with ((64 :: 112 :: 114 :: 101 :: 102 :: 105 :: 120 :: cSP :: name ++ cCOLON :: cSP :: cLT :: iri ++ [cGT; cSP]) ++ [cDOT])
      by (cbn [app]; rewrite <- !app_assoc; cbn [app]; rewrite <- !app_assoc; reflexivity).
    apply last_nws_snoc. reflexivity. }
  rewrite T in G. unfold n3_line in G.
  assert (E2 : find_c cHASH (prefix_line name iri) = None).
  { apply find_c_none. unfold prefix_line. rewrite !forallb_app. fold nohash. rewrite Bn, Bi. reflexivity. }
  rewrite E2 in G.
  assert (E3 : is_empty (prefix_line name iri) = false) by reflexivity.
  assert (E4 : starts_with sPREFIX (prefix_line name iri) = true) by reflexivity.
  rewrite E3, E4 in G. injection G as G1.
  unfold ttl_line. rewrite T, E3, E4. cbn [orb]. change (starts_with_c cHASH (prefix_line name iri)) with false. cbv iota.
  (* after "@prefix" is stripped the text starts with a blank, so stripping "PREFIX" does nothing; the
     extra trim only removes blanks that split_whitespace ignores anyway *)
  set (rest := tsm_str (S (length (prefix_line name iri))) sPREFIX (prefix_line name iri)) in *.
  assert (R : rest = cSP :: name ++ [cCOLON; cSP; cLT] ++ iri ++ [cGT; cSP; cDOT]).
  { unfold rest. cbn [tsm_str]. change (is_empty sPREFIX) with false. rewrite E4. cbv iota.
    assert (K : skipn (length sPREFIX) (prefix_line name iri) = cSP :: name ++ [cCOLON; cSP; cLT] ++ iri ++ [cGT; cSP; cDOT]) by reflexivity.
    rewrite K. destruct (length (prefix_line name iri)); cbn [tsm_str]; reflexivity. }
  assert (U : tsm_str (S (length (prefix_line name iri))) sPREFIX_UP rest = rest).
  { rewrite R. cbn [tsm_str]. reflexivity. }
  rewrite U.
  assert (W : forall d, prefix_decl x (trim d) = prefix_decl x d).
  { intro d. unfold prefix_decl. f_equal. unfold trim, trim_start, trim_end, split_ws.
    assert (A : forall cur l, split_ws_aux cur (rev (drop_while is_ws (rev l))) = split_ws_aux cur l).
    { intros cur l. rewrite <- (rev_involutive l) at 2. generalize (rev l) as m. clear l. intro m. revert cur.
      induction m as [|c m IH]; intro cur; [reflexivity|]. cbn [drop_while]. destruct (is_ws c) eqn:Ec.
      - rewrite IH. cbn [rev].
        assert (B : forall l cur', split_ws_aux cur' (l ++ [c]) = split_ws_aux cur' l).
        { induction l as [|y l IHl]; intro cur'; cbn [app split_ws_aux]; [rewrite Ec; destruct cur'; reflexivity|].
          destruct (is_ws y); [destruct cur'; rewrite IHl; reflexivity | apply IHl]. }
        rewrite B. reflexivity.
      - reflexivity. }
    rewrite A. clear A. induction d as [|c d IH]; [reflexivity|]. cbn [drop_while]. destruct (is_ws c) eqn:Ec; [|reflexivity].
    cbn [split_ws_aux]. rewrite Ec. exact IH. }
  rewrite W. exact G1.
Qed.

(* ---------------------------------------------------------------------------------------------- *)
(* documents *)
Lemma set_pref_ok : forall x pr, db_ok x -> db_ok (set_pref x pr) /\ den (set_pref x pr) = den x.
Proof.
  intros x pr [A B]. split.
  - split; [exact A|]. cbn [set_pref d_quads]. apply Forall_forall. intros q Hq. rewrite Forall_forall in B.
    apply (quad_ok_frame x); [reflexivity | reflexivity | apply B; exact Hq].
  - unfold den. cbn [set_pref d_quads]. apply map_ext. intro q. apply den_quad_frame; reflexivity.
Qed.

