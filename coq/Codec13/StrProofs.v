(* Lemmas about the string functions of Str.v. *)
Require Import KV.Codec13.Str.
Require Import Lia.

Lemma str_eqb_refl : forall a, str_eqb a a = true.
Proof. induction a as [|x a IH]; [reflexivity|]. cbn [str_eqb]. rewrite N.eqb_refl, IH. reflexivity. Qed.

Lemma str_eqb_eq : forall a b, str_eqb a b = true <-> a = b.
Proof.
  induction a as [|x a IH]; intros [|y b]; cbn [str_eqb]; split; intro H; try reflexivity; try discriminate.
  - apply andb_true_iff in H. destruct H as [H1 H2]. apply N.eqb_eq in H1. apply IH in H2. subst. reflexivity.
  - inversion H; subst. rewrite N.eqb_refl. cbn. apply str_eqb_refl.
Qed.

Lemma str_eqb_neq : forall a b, str_eqb a b = false <-> a <> b.
Proof.
  intros a b. split; intro H.
  - intro E. apply str_eqb_eq in E. congruence.
  - destruct (str_eqb a b) eqn:E; [|reflexivity]. apply str_eqb_eq in E. contradiction.
Qed.

(* ---- forallb helpers ---- *)
Lemma forallb_rev : forall {A} (f : A -> bool) l, forallb f (rev l) = forallb f l.
Proof.
  intros A f l. induction l as [|x l IH]; [reflexivity|].
  cbn [rev forallb]. rewrite forallb_app, IH. cbn [forallb]. rewrite andb_true_r. apply andb_comm.
Qed.

(* ---- drop_while ---- *)
Lemma drop_while_all : forall f a b, forallb f a = true -> drop_while f (a ++ b) = drop_while f b.
Proof.
  intros f a b. induction a as [|x a IH]; intro H; [reflexivity|].
  cbn [forallb] in H. apply andb_true_iff in H. destruct H as [Hx Ha].
  cbn [app drop_while]. rewrite Hx. apply IH. exact Ha.
Qed.

Lemma drop_while_all_nil : forall f a, forallb f a = true -> drop_while f a = [].
Proof. intros f a H. rewrite <- (app_nil_r a). rewrite drop_while_all by exact H. reflexivity. Qed.

Lemma drop_while_stop : forall f c r, f c = false -> drop_while f (c :: r) = c :: r.
Proof. intros f c r H. cbn [drop_while]. rewrite H. reflexivity. Qed.

(* ---- trim ---- *)
(* a string whose first and last characters (if any) are not white space *)
Definition tight (m : str) : Prop :=
  match m with [] => True | c :: _ => is_ws c = false end /\
  match rev m with [] => True | c :: _ => is_ws c = false end.

Lemma trim_pad : forall a m b,
  forallb is_ws a = true -> forallb is_ws b = true -> tight m -> trim (a ++ m ++ b) = m.
Proof.
  intros a m b Ha Hb [Hf Hl]. unfold trim, trim_start, trim_end.
  rewrite drop_while_all by exact Ha.
  destruct m as [|c m'].
  - cbn [app]. rewrite (drop_while_all_nil is_ws b Hb). reflexivity.
  - cbn [app]. rewrite drop_while_stop by exact Hf.
    change (c :: m' ++ b) with ((c :: m') ++ b). rewrite rev_app_distr.
    rewrite drop_while_all by (rewrite forallb_rev; exact Hb).
    destruct (rev (c :: m')) as [|d r] eqn:E.
    + apply (f_equal (@rev N)) in E. rewrite rev_involutive in E. discriminate.
    + rewrite drop_while_stop by exact Hl. rewrite <- E. apply rev_involutive.
Qed.

Lemma trim_tight : forall m, tight m -> trim m = m.
Proof.
  intros m H. generalize (trim_pad [] m [] eq_refl eq_refl H). cbn [app]. rewrite app_nil_r. auto.
Qed.

Lemma trim_all_ws : forall a, forallb is_ws a = true -> trim a = [].
Proof.
  intros a H. unfold trim, trim_start, trim_end. rewrite (drop_while_all_nil is_ws a H). reflexivity.
Qed.

(* tight strings built from a first and a last character *)
Lemma tight_ends : forall c m d, is_ws c = false -> is_ws d = false -> tight (c :: m ++ [d]).
Proof.
  intros c m d Hc Hd. split; [exact Hc|].
  change (c :: m ++ [d]) with ((c :: m) ++ [d]). rewrite rev_app_distr. cbn [rev app]. exact Hd.
Qed.

Lemma tight_app_r : forall a c m d, tight (a :: c) -> is_ws d = false -> tight (a :: c ++ m ++ [d]).
Proof.
  intros a c m d [Hf _] Hd. split; [exact Hf|].
  replace (a :: c ++ m ++ [d]) with ((a :: c ++ m) ++ [d]) by (cbn [app]; rewrite <- app_assoc; reflexivity).
  rewrite rev_app_distr. cbn [rev app]. exact Hd.
Qed.

Lemma tight_last : forall m d, match m with [] => is_ws d = false | c :: _ => is_ws c = false end ->
  is_ws d = false -> tight (m ++ [d]).
Proof.
  intros m d Hf Hd. split.
  - destruct m; cbn [app]; exact Hf.
  - rewrite rev_app_distr. cbn [rev app]. exact Hd.
Qed.

(* ---- starts_with / ends_with ---- *)
Lemma starts_with_c_cons : forall c x r, starts_with_c c (x :: r) = (x =? c).
Proof. reflexivity. Qed.

Lemma ends_with_c_snoc : forall c m x, ends_with_c c (m ++ [x]) = (x =? c).
Proof. intros c m x. unfold ends_with_c. rewrite rev_app_distr. reflexivity. Qed.

Lemma removelast_snoc : forall {A} (m : list A) x, removelast (m ++ [x]) = m.
Proof. intros A m x. rewrite removelast_app by discriminate. cbn [removelast]. apply app_nil_r. Qed.

Lemma strip1_wrap : forall c m d, strip1 (c :: m ++ [d]) = m.
Proof. intros c m d. unfold strip1. cbn [tl]. apply removelast_snoc. Qed.

(* ---- association lists ---- *)
Lemma assoc_s_cons_eq : forall {A} k (v : A) l, assoc_s k ((k, v) :: l) = Some v.
Proof. intros A k v l. cbn [assoc_s]. rewrite str_eqb_refl. reflexivity. Qed.

Lemma assoc_s_cons_neq : forall {A} k k' (v : A) l, k <> k' -> assoc_s k ((k', v) :: l) = assoc_s k l.
Proof. intros A k k' v l H. cbn [assoc_s]. apply str_eqb_neq in H. rewrite H. reflexivity. Qed.

Lemma assoc_n_cons_eq : forall {A} k (v : A) l, assoc_n k ((k, v) :: l) = Some v.
Proof. intros A k v l. cbn [assoc_n]. rewrite N.eqb_refl. reflexivity. Qed.

Lemma assoc_n_cons_neq : forall {A} k k' (v : A) l, k <> k' -> assoc_n k ((k', v) :: l) = assoc_n k l.
Proof. intros A k k' v l H. cbn [assoc_n]. apply N.eqb_neq in H. rewrite H. reflexivity. Qed.
