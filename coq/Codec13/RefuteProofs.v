Require Import KV.Codec13.Witness KV.Codec13.StrProofs KV.Codec13.DictProofs KV.Codec13.QtDictProofs KV.Codec13.NtProofs.

Lemma ostr_eqb_refl : forall a, ostr_eqb a a = true.
Proof. intros [a|]; [apply str_eqb_refl | reflexivity]. Qed.

Lemma lquad_eqb_refl : forall q, lquad_eqb q q = true.
Proof.
  intros [[[a b] c] g]. unfold lquad_eqb. rewrite !ostr_eqb_refl. destruct g as [x|]; [apply ostr_eqb_refl | reflexivity].
Qed.

Lemma lq_mem_false : forall q l, lq_mem q l = false -> ~ In q l.
Proof.
  intros q l H Hin. unfold lq_mem in H.
  assert (E : existsb (lquad_eqb q) l = true) by (apply existsb_exists; exists q; split; [exact Hin | apply lquad_eqb_refl]).
  congruence.
Qed.

(* the generic shape of a refutation: the document says `missing`, the loaded database does not have it *)
Lemma refute : forall (after before : list lquad) (spec : list lquad) (missing : lquad),
  lq_mem missing after = false -> In missing spec ->
  ~ (forall lq, In lq after <-> In lq before \/ In lq spec).
Proof.
  intros after before spec missing Hm Hs H. apply (lq_mem_false _ _ Hm). apply H. right. exact Hs.
Qed.

Lemma wa_db_ok : db_ok wa_db.
Proof.
  unfold wa_db. destruct (add_lex_spec db_new [120] [121] [122] None db_new_ok) as [K _]; [vm_compute; discriminate | exact K].
Qed.

Lemma wa_db_okq : db_okq wa_db.
Proof. split; [exact wa_db_ok | apply QtDictProofs.qts_ok_new; reflexivity]. Qed.

Lemma n3_nonempty_refuted :
  wf_item_n3 (hd (IBlank []) wa_doc) = true /\ db_ok wa_db /\
  known_C13_n3 wa_doc wa_db = true /\ multichunk (length wa_doc) = false /\
  ~ (forall lq, In lq (den (load_n3 (render_doc wa_doc) wa_db)) <-> In lq (den wa_db) \/ In lq (map lq_of4 (triples_of wa_doc))).
Proof.
  split; [vm_compute; reflexivity|]. split; [exact wa_db_ok|]. split; [vm_compute; reflexivity|]. split; [vm_compute; reflexivity|].
  apply (refute _ _ _ wa_missing); [vm_compute; reflexivity | vm_compute; left; reflexivity].
Qed.

Lemma n3_multichunk_refuted :
  forallb wf_item_n3 wb_doc = true /\ length wb_doc = 1500%nat /\ db_ok db_new /\ dict_nonempty (d_dict db_new) = false /\
  known_C13_n3 wb_doc db_new = true /\
  length (den (load_n3 (render_doc wb_doc) db_new)) = 999%nat /\
  ~ (forall lq, In lq (den (load_n3 (render_doc wb_doc) db_new)) <-> In lq (den db_new) \/ In lq (map lq_of4 (triples_of wb_doc))).
Proof.
  split; [vm_compute; reflexivity|]. split; [vm_compute; reflexivity|]. split; [exact db_new_ok|].
  split; [vm_compute; reflexivity|]. split; [vm_compute; reflexivity|]. split; [vm_compute; reflexivity|].
  apply (refute _ _ _ wb_missing); [vm_compute; reflexivity|].
  apply in_map_iff. exists ([21200], iE ++ [112], [31200], None). split; [reflexivity|].
  assert (E : existsb (fun q => lquad_eqb (lq_of4 q) wb_missing) (triples_of wb_doc) = true) by (vm_compute; reflexivity).
  apply existsb_exists in E. destruct E as (q & Hq & Eq).
  assert (q = ([21200], iE ++ [112], [31200], None)).
  { destruct q as [[[a b] c] g]. unfold wb_missing in Eq.
    destruct g; cbn [lquad_eqb lq_of4 lq_of option_map ostr_eqb] in Eq; [rewrite andb_false_r in Eq; discriminate|].
    rewrite andb_true_r in Eq. apply andb_true_iff in Eq. destruct Eq as [Eq E3]. apply andb_true_iff in Eq. destruct Eq as [E1 E2].
    apply str_eqb_eq in E1, E2, E3. subst. reflexivity. }
  subst q. exact Hq.
Qed.

(* regression for the repaired part of C13-literal-recleaned (fix 16f77b9): the pre-fix encoding stored the literal
   " x" as "x"; with encode_cleaned_term the witness document loads as the Spec says *)
Lemma reclean_regression :
  lq_mem wc_missing (den_after_old (iA, iB, [32; 120])) = false /\
  lq_mem (lq_of iA iB [120] None) (den_after_old (iA, iB, [32; 120])) = true /\
  wf_doc_nt wc_doc = true /\ known_C13_reclean wc_doc = false /\
  lq_mem wc_missing (den (load_nt (render_doc wc_doc) db_new)) = true.
Proof. repeat split; vm_compute; reflexivity. Qed.

(* the residue: a literal whose value looks like a quoted triple is still parsed as one *)
Lemma reclean_refuted :
  wf_doc_nt wr_doc = true /\ known_C13_reclean wr_doc = true /\
  ~ (forall lq, In lq (den (load_nt (render_doc wr_doc) db_new)) <-> In lq (den db_new) \/ In lq (map lq_of4 (triples_of wr_doc))).
Proof.
  split; [vm_compute; reflexivity|]. split; [vm_compute; reflexivity|].
  apply (refute _ _ _ wr_missing); [vm_compute; reflexivity | vm_compute; left; reflexivity].
Qed.

(* ... and a Turtle statement with a quoted triple still re-cleans its literal *)
Lemma ttl_reclean_refuted :
  known_C13_ttl_reclean wt_doc = true /\
  ~ (forall lq, In lq (den (load_ttl (render_doc wt_doc) db_new)) <-> In lq (den db_new) \/ In lq (map lq_of4 (triples_of wt_doc))).
Proof.
  split; [vm_compute; reflexivity|].
  apply (refute _ _ _ wt_missing); [vm_compute; reflexivity | vm_compute; left; reflexivity].
Qed.

Lemma n3_literal_refuted :
  known_C13_n3 wd_doc db_new = false /\ known_C13_n3_literal wd_doc = true /\
  ~ (forall lq, In lq (den (load_n3 (render_doc wd_doc) db_new)) <-> In lq (den db_new) \/ In lq (map lq_of4 (triples_of wd_doc))).
Proof.
  split; [vm_compute; reflexivity|]. split; [vm_compute; reflexivity|].
  apply (refute _ _ _ wd_missing); [vm_compute; reflexivity | vm_compute; left; reflexivity].
Qed.

(* regression: the Turtle term cleaning before fix dbe5296 kept a stray quote on a tagged literal; the repaired
   one returns the lexical form, and the witness document now loads as the Spec says *)
Lemma ttl_tagged_regression :
  clean_turtle_term_old (render_term (TLit [LPlain 120] (SLang [101;110]))) = [120; 34; 64; 101; 110] /\
  clean_turtle_term (render_term (TLit [LPlain 120] (SLang [101;110]))) = lex [] (TLit [LPlain 120] (SLang [101;110])) /\
  lq_mem we_missing (den (load_ttl (render_doc we_doc) db_new)) = true.
Proof. repeat split; vm_compute; reflexivity. Qed.

Lemma n3_hash_refuted :
  known_C13_n3 wf_doc db_new = false /\ known_C13_n3_literal wf_doc = false /\ known_C13_n3_hash wf_doc = true /\
  ~ (forall lq, In lq (den (load_n3 (render_doc wf_doc) db_new)) <-> In lq (den db_new) \/ In lq (map lq_of4 (triples_of wf_doc))).
Proof.
  split; [vm_compute; reflexivity|]. split; [vm_compute; reflexivity|]. split; [vm_compute; reflexivity|].
  apply (refute _ _ _ wf_missing); [vm_compute; reflexivity | vm_compute; left; reflexivity].
Qed.
