(* Strings as lists of Unicode scalar values (Rust `char`), and the `str` methods the loaders use.
   No proofs in this file. *)
Require Export List NArith Bool.
Export ListNotations.
Open Scope N_scope.

Definition str := list N.

(* character constants *)
Definition cTAB := 9.     Definition cLF := 10.     Definition cCR := 13.   Definition cSP := 32.
Definition cDQ := 34.     Definition cHASH := 35.   Definition cSQ := 39.   Definition cCOMMA := 44.
Definition cMINUS := 45.  Definition cDOT := 46.    Definition cCOLON := 58. Definition cSEMI := 59.
Definition cLT := 60.     Definition cGT := 62.     Definition cAT := 64.   Definition cBS := 92.
Definition cCARET := 94.  Definition cBAR := 124.   Definition cLBRACE := 123.

(* char::is_whitespace / the set str::trim and split_whitespace use: Unicode White_Space *)
Definition is_ws (c : N) : bool :=
  ((9 <=? c) && (c <=? 13)) || (c =? 32) || (c =? 133) || (c =? 160) || (c =? 5760)
  || ((8192 <=? c) && (c <=? 8202)) || (c =? 8232) || (c =? 8233) || (c =? 8239) || (c =? 8287)
  || (c =? 12288).

(* char::is_alphanumeric.  Exact on ASCII; the model answers `false` for every non-ASCII character
   (the Unicode Alphabetic/Numeric tables are not modelled; documented boundary: the character that
   follows a language tag is ASCII or the end of the term). *)
Definition is_ascii_alnum (c : N) : bool :=
  ((48 <=? c) && (c <=? 57)) || ((65 <=? c) && (c <=? 90)) || ((97 <=? c) && (c <=? 122)).

Definition is_hex (c : N) : bool :=
  ((48 <=? c) && (c <=? 57)) || ((65 <=? c) && (c <=? 70)) || ((97 <=? c) && (c <=? 102)).
Definition hexval (c : N) : N :=
  if c <=? 57 then c - 48 else if c <=? 70 then c - 55 else c - 87.
(* char::from_u32 succeeds *)
Definition valid_scalar (v : N) : bool :=
  (v <=? 1114111) && negb ((55296 <=? v) && (v <=? 57343)).

Fixpoint str_eqb (a b : str) : bool :=
  match a, b with
  | [], [] => true
  | x :: a', y :: b' => (x =? y) && str_eqb a' b'
  | _, _ => false
  end.

Definition is_empty {A} (s : list A) : bool := match s with [] => true | _ => false end.

Fixpoint drop_while (f : N -> bool) (s : str) : str :=
  match s with
  | c :: r => if f c then drop_while f r else s
  | [] => []
  end.
Fixpoint take_while (f : N -> bool) (s : str) : str :=
  match s with
  | c :: r => if f c then c :: take_while f r else []
  | [] => []
  end.

Definition trim_start (s : str) : str := drop_while is_ws s.
Definition trim_end (s : str) : str := rev (drop_while is_ws (rev s)).
Definition trim (s : str) : str := trim_end (trim_start s).
(* str::trim_matches(c), trim_start_matches(c), trim_end_matches(c) for a char pattern *)
Definition tsm_char (c : N) (s : str) : str := drop_while (N.eqb c) s.
Definition tem_char (c : N) (s : str) : str := rev (drop_while (N.eqb c) (rev s)).
Definition tm_char (c : N) (s : str) : str := tem_char c (tsm_char c s).

Fixpoint starts_with (p s : str) : bool :=
  match p, s with
  | [], _ => true
  | x :: p', y :: s' => (x =? y) && starts_with p' s'
  | _ :: _, [] => false
  end.
Definition ends_with (p s : str) : bool := starts_with (rev p) (rev s).
Definition starts_with_c (c : N) (s : str) : bool := match s with x :: _ => x =? c | [] => false end.
Definition ends_with_c (c : N) (s : str) : bool := starts_with_c c (rev s).

(* s[1 .. len-1] *)
Definition strip1 (s : str) : str := removelast (tl s).
(* s[2 .. len-2] *)
Definition strip2 (s : str) : str := removelast (removelast (tl (tl s))).

(* str::trim_start_matches(pattern: &str): remove the prefix repeatedly *)
Fixpoint tsm_str (fuel : nat) (p s : str) : str :=
  match fuel with
  | O => s
  | S f => if is_empty p then s else if starts_with p s then tsm_str f p (skipn (length p) s) else s
  end.

Definition contains_c (c : N) (s : str) : bool := existsb (N.eqb c) s.

(* up to (excluding) the first occurrence of c; None when c does not occur:  s.find(c) *)
Fixpoint find_c (c : N) (s : str) : option (str * str) :=
  match s with
  | [] => None
  | x :: r => if x =? c then Some ([], r)
              else match find_c c r with Some (a, b) => Some (x :: a, b) | None => None end
  end.
(* s.rfind(c): split at the last occurrence: (s[..=pos], s[pos+1..]) *)
Definition rfind_c (c : N) (s : str) : option (str * str) :=
  match find_c c (rev s) with
  | Some (a, b) => Some (rev b ++ [c], rev a)
  | None => None
  end.

(* s.find(pattern: &str): (text before the first occurrence, text after it) *)
Fixpoint find_sub (p s : str) : option (str * str) :=
  match s with
  | [] => if is_empty p then Some ([], []) else None
  | c :: r => if starts_with p s then Some ([], skipn (length p) s)
              else match find_sub p r with Some (a, b) => Some (c :: a, b) | None => None end
  end.
(* s.splitn(2, char::is_whitespace) when it has two parts: (before the first white space, after it) *)
Fixpoint split_first_ws (s : str) : option (str * str) :=
  match s with
  | [] => None
  | c :: r => if is_ws c then Some ([], r)
              else match split_first_ws r with Some (a, b) => Some (c :: a, b) | None => None end
  end.

(* str::split_whitespace *)
Fixpoint split_ws_aux (cur : str) (s : str) : list str :=
  match s with
  | [] => match cur with [] => [] | _ => [rev cur] end
  | c :: r => if is_ws c then match cur with [] => split_ws_aux [] r | _ => rev cur :: split_ws_aux [] r end
              else split_ws_aux (c :: cur) r
  end.
Definition split_ws (s : str) : list str := split_ws_aux [] s.

(* [a; b; c].join(" ") *)
Fixpoint join_sp (l : list str) : str :=
  match l with
  | [] => []
  | [a] => a
  | a :: r => a ++ cSP :: join_sp r
  end.

(* association lists keyed by strings *)
Fixpoint assoc_s {A} (k : str) (l : list (str * A)) : option A :=
  match l with
  | [] => None
  | (k', v) :: r => if str_eqb k k' then Some v else assoc_s k r
  end.
Fixpoint assoc_n {A} (k : N) (l : list (N * A)) : option A :=
  match l with
  | [] => None
  | (k', v) :: r => if k =? k' then Some v else assoc_n k r
  end.

(* slice::chunks(n) (n >= 1) *)
Fixpoint chunks_aux {A} (fuel : nat) (n : nat) (l : list A) : list (list A) :=
  match fuel with
  | O => []
  | S f => match l with
           | [] => []
           | _ => firstn n l :: chunks_aux f n (skipn n l)
           end
  end.
Definition chunks {A} (n : nat) (l : list A) : list (list A) := chunks_aux (length l) n l.
