(* What a document of the line-oriented subset SAYS: documents as abstract syntax (one item per line),
   their concrete text (`render_doc`), and the set of lexical quads they denote (`triples_of`).
   This reading does not use any function of the model (no tokenizer, no state machine).

   Lexical convention of the store (the dictionary holds bare strings):
     IRI  <i>            ->  i
     blank node  _:b     ->  _:b
     prefixed name p:l   ->  (IRI bound to p) ++ l
     literal "v"         ->  v      (v = the value after resolving the escapes)
     literal "v"@tag     ->  v@tag
     literal "v"^^<d>    ->  v      (datatype IRIs are not represented in the store)
     quoted triple       ->  << s p o >>   (of the components' lexical forms)
   No proofs in this file. *)
Require Export KV.Codec13.Str.

(* one character of a literal as written *)
Inductive lchar :=
| LPlain (c : N)             (* the character itself *)
| LEsc (c : N)               (* backslash followed by c, c one of  t b n r f dquote quote backslash *)
| LHex4 (d : list N)         (* \u followed by the 4 hex digits d *)
| LHex8 (d : list N).        (* \U followed by the 8 hex digits d *)

Inductive suffix := SNone | SLang (tag : str) | SDt (iri : str).

Inductive term :=
| TIri (s : str)
| TBnode (label : str)
| TPname (p l : str)
| TLit (body : list lchar) (x : suffix)
| TQuoted (s p o : term).

Definition unescape (c : N) : N :=
  if c =? 116 then 9 else if c =? 98 then 8 else if c =? 110 then 10 else if c =? 114 then 13
  else if c =? 102 then 12 else c.

Definition hex_value (d : list N) : N := fold_left (fun v c => v * 16 + hexval c) d 0.

Definition lchar_value (x : lchar) : N :=
  match x with
  | LPlain c => c
  | LEsc c => unescape c
  | LHex4 d => hex_value d
  | LHex8 d => hex_value d
  end.
Definition lchar_text (x : lchar) : str :=
  match x with
  | LPlain c => [c]
  | LEsc c => [cBS; c]
  | LHex4 d => cBS :: 117 :: d
  | LHex8 d => cBS :: 85 :: d
  end.
Definition lit_value (b : list lchar) : str := map lchar_value b.
Definition lit_text (b : list lchar) : str := flat_map lchar_text b.

Definition env := list (str * str).

Fixpoint lex (e : env) (t : term) : str :=
  match t with
  | TIri s => s
  | TBnode l => 95 :: cCOLON :: l
  | TPname p l => match assoc_s p e with Some iri => iri ++ l | None => p ++ cCOLON :: l end
  | TLit b SNone => lit_value b
  | TLit b (SLang tag) => lit_value b ++ cAT :: tag
  | TLit b (SDt _) => lit_value b
  | TQuoted s p o => [cLT; cLT; cSP] ++ lex e s ++ cSP :: lex e p ++ cSP :: lex e o ++ [cSP; cGT; cGT]
  end.

Fixpoint render_term (t : term) : str :=
  match t with
  | TIri s => cLT :: s ++ [cGT]
  | TBnode l => 95 :: cCOLON :: l
  | TPname p l => p ++ cCOLON :: l
  | TLit b x =>
      cDQ :: lit_text b ++ cDQ ::
      match x with
      | SNone => []
      | SLang tag => cAT :: tag
      | SDt iri => cCARET :: cCARET :: cLT :: iri ++ [cGT]
      end
  | TQuoted s p o => [cLT; cLT; cSP] ++ render_term s ++ cSP :: render_term p ++ cSP :: render_term o ++ [cSP; cGT; cGT]
  end.

(* white space around the terms of a statement line:
     w0 s w1 p w2 o [wg g] w3 . w4 *)
Record pad := mkPad { w0 : str; w1 : str; w2 : str; wg : str; w3 : str; w4 : str }.

Inductive item :=
| IBlank (ws : str)                                        (* a line of white space *)
| IComment (ws : str) (text : str)                         (* ws # text *)
| IStmt (pd : pad) (s p o : term) (g : option term)        (* one statement *)
| IPrefix (name iri : str)                                 (* @prefix name: <iri> . *)
| IList (s : term) (pos : list (term * list term)).        (* Turtle: s p o , o ; p o . *)

Definition render_stmt (pd : pad) (s p o : term) (g : option term) : str :=
  w0 pd ++ render_term s ++ w1 pd ++ render_term p ++ w2 pd ++ render_term o ++
  match g with Some gt => wg pd ++ render_term gt | None => [] end ++ w3 pd ++ cDOT :: w4 pd.

Fixpoint render_objs (l : list term) : str :=
  match l with
  | [] => []
  | [o] => render_term o
  | o :: r => render_term o ++ [cSP; cCOMMA; cSP] ++ render_objs r
  end.
Fixpoint render_pos (l : list (term * list term)) : str :=
  match l with
  | [] => []
  | [(p, os)] => render_term p ++ cSP :: render_objs os
  | (p, os) :: r => render_term p ++ cSP :: render_objs os ++ [cSP; cSEMI; cSP] ++ render_pos r
  end.

Definition render_item (i : item) : str :=
  match i with
  | IBlank ws => ws
  | IComment ws text => ws ++ cHASH :: text
  | IStmt pd s p o g => render_stmt pd s p o g
  | IPrefix name iri => [64;112;114;101;102;105;120;cSP] ++ name ++ [cCOLON; cSP; cLT] ++ iri ++ [cGT; cSP; cDOT]
  | IList s pos => render_term s ++ cSP :: render_pos pos ++ [cSP; cDOT]
  end.
Definition render_doc (d : list item) : list str := map render_item d.

(* lexical quads: (subject, predicate, object, graph) ; graph None = default graph *)
Definition squad := (str * str * str * option str)%type.

Definition item_quads (e : env) (i : item) : list squad :=
  match i with
  | IStmt _ s p o g => [(lex e s, lex e p, lex e o, match g with Some gt => Some (lex e gt) | None => None end)]
  | IList s pos => flat_map (fun po => map (fun o => (lex e s, lex e (fst po), lex e o, None)) (snd po)) pos
  | _ => []
  end.
Definition item_env (e : env) (i : item) : env :=
  match i with IPrefix name iri => (name, iri) :: e | _ => e end.

Fixpoint quads_from (e : env) (d : list item) : list squad :=
  match d with
  | [] => []
  | i :: r => item_quads e i ++ quads_from (item_env e i) r
  end.
Definition triples_of (d : list item) : list squad := quads_from [] d.
