(* The same statements loaded through parse_ntriples_and_add, parse_nquads_and_add and parse_n3 give the
   same denotation (corollary of the three loader theorems; Turtle and RDF/XML are not covered). *)
Require Import KV.Codec13.Model KV.Codec13.Spec KV.Codec13.Wf KV.Codec13.Classes KV.Codec13.Inv.
Require Import KV.Codec13.WfTtl KV.Codec13.QtEncProofs KV.Codec13.NtProofs KV.Codec13.N3Proofs KV.Codec13.TtlProofs KV.Codec13.TtlListProofs.
Require Import Lia.

(* a document without prefixed names and @prefix lines says the same whatever prefixes are in scope *)
Lemma quads_env_irrelevant : forall doc e, wf_doc_nt doc = true -> quads_from e doc = triples_of doc.
Proof.
  unfold triples_of. induction doc as [|i doc IH]; intros e H; [reflexivity|].
  unfold wf_doc_nt in H. cbn [forallb] in H. apply andb_true_iff in H. destruct H as [Hi H].
  cbn [quads_from]. unfold wf_item_nt in Hi. apply andb_true_iff in Hi. destruct Hi as [Hq Hg].
  assert (L : forall t, wf_term_nt t = true -> lex e t = lex [] t).
  { intros t Ht. destruct t as [s0|l0|p0 l0|b0 x0|s0 p0 o0]; try discriminate; try reflexivity.
    cbn [wf_term_nt] in Ht. apply andb_true_iff in Ht. destruct Ht as [Ht Ho]. apply andb_true_iff in Ht. destruct Ht as [Hs Hp].
    cbn [lex]. rewrite !(QtEncProofs.comp_lex_env _ e) by assumption. reflexivity. }
  destruct i as [ws|ws text|pd s p o g|name iri|s pos]; cbn [wf_item_nq] in Hq; try discriminate;
    cbn [item_quads item_env app]; try (apply IH; exact H).
  destruct g as [g|]; [discriminate|]. repeat (apply andb_true_iff in Hq; destruct Hq as [Hq ?]).
  rewrite !L by assumption. f_equal. rewrite (IH e H). symmetry. apply (IH [] H).
Qed.

Lemma triples_le_doc : forall doc, wf_doc_nt doc = true -> (length (triples_of doc) <= length doc)%nat.
Proof.
  intro doc. unfold triples_of. generalize ([] : env). induction doc as [|i doc IH]; intros e0 H; [cbn; lia|].
  unfold wf_doc_nt in H. cbn [forallb] in H. apply andb_true_iff in H. destruct H as [Hi H].
  cbn [quads_from length]. rewrite app_length. specialize (IH (item_env e0 i) H).
  assert (length (item_quads e0 i) <= 1)%nat.
  { unfold wf_item_nt in Hi. apply andb_true_iff in Hi. destruct Hi as [Hq _].
    destruct i; cbn [wf_item_nq] in Hq; try discriminate; cbn [item_quads length]; lia. }
  lia.
Qed.

(* the same statements through four loaders; literals (plain, language-tagged, typed) are covered for
   N-Triples / N-Quads / Turtle; N3 joins for documents of its subset (no literals: finding C13-n3-literal-quoted) *)
Lemma formats_agree4 : forall (doc : list item) (x : db),
  wf_doc_nt doc = true -> wf_doc_ttl doc = true ->
  known_C13_reclean doc = false -> known_C13_ttl_reclean doc = false -> db_okq x -> pref_ok (d_pref x) ->
  next_id (d_dict x) + 10 * N.of_nat (length doc) <= QBIT ->
  forall lq,
    (In lq (den (load_nt (render_doc doc) x)) <-> In lq (den (load_nq (render_doc doc) x))) /\
    (In lq (den (load_nt (render_doc doc) x)) <-> In lq (den (load_ttl (render_doc doc) x))) /\
    (wf_doc_n3 doc = true -> known_C13_n3 doc x = false ->
     (In lq (den (load_nt (render_doc doc) x)) <-> In lq (den (load_n3 (render_doc doc) x)))).
Proof.
  intros doc x Hnt Httl Hr Hrt Hxq Hp Hb lq. pose proof (proj1 Hxq) as Hx.
  pose proof (triples_le_doc doc Hnt) as Hl.
  assert (Hb' : next_id (d_dict x) + 10 * N.of_nat (length (triples_of doc)) <= QBIT) by lia.
  destruct (ntriples_1000 doc x Hnt Hr Hxq Hb') as [_ A].
  destruct (nquads_main doc x (wf_nt_nq doc Hnt) Hr Hxq Hb') as [_ B].
  assert (Hb2 : next_id (d_dict x) + 9 * N.of_nat (length (quads_from (d_pref x) doc)) <= QBIT)
    by (rewrite (quads_env_irrelevant doc (d_pref x) Hnt); lia).
  destruct (ttl_main doc x Httl Hrt Hxq Hp Hb2) as [_ D].
  rewrite A, B, D. rewrite (quads_env_irrelevant doc (d_pref x) Hnt).
  split; [reflexivity|]. split; [reflexivity|].
  intros Hn3 Hk. rewrite (n3_main doc x Hn3 Hk Hx). reflexivity.
Qed.
