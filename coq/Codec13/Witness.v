(* Concrete documents and databases on which the unchanged loaders (hence the faithful model) violate
   C13, with decidable membership so that `vm_compute` settles them.  Definitions only. *)
Require Export KV.Codec13.Model KV.Codec13.Spec KV.Codec13.Wf KV.Codec13.Classes KV.Codec13.Inv.

Definition ostr_eqb (a b : option str) : bool :=
  match a, b with Some x, Some y => str_eqb x y | None, None => true | _, _ => false end.
Definition lquad_eqb (a b : lquad) : bool :=
  let '(a1, a2, a3, ag) := a in let '(b1, b2, b3, bg) := b in
  ostr_eqb a1 b1 && ostr_eqb a2 b2 && ostr_eqb a3 b3 &&
  match ag, bg with None, None => true | Some x, Some y => ostr_eqb x y | _, _ => false end.
Definition lq_mem (q : lquad) (l : list lquad) : bool := existsb (lquad_eqb q) l.

Definition P0 := mkPad [] [32] [32] [32] [32] [].
Definition iA : str := [104;116;116;112;58;47;47;97].          (* http://a *)
Definition iB : str := [104;116;116;112;58;47;47;98].          (* http://b *)
Definition iC : str := [104;116;116;112;58;47;47;99].          (* http://c *)
Definition iE : str := [104;116;116;112;58;47;47;101;47].      (* http://e/ *)
Definition nEX : str := [101;120].                             (* ex *)

(* (a) one triple loaded by parse_n3 into a database that already holds one triple *)
Definition wa_db : db := add_lex db_new [120] [121] [122] None.                 (* (x, y, z) *)
Definition wa_doc : list item := [IStmt P0 (TIri iA) (TIri iB) (TIri iC) None].
Definition wa_missing : lquad := lq_of iA iB iC None.

(* (b) 1500 lines: `@prefix ex: <http://e/> .` on line 1, then 1499 distinct statements using ex:p *)
Fixpoint nseq (fuel : nat) (k : N) : list N := match fuel with O => [] | S f => k :: nseq f (k + 1) end.
Definition wb_stmt (i : N) : item := IStmt P0 (TIri [20000 + i]) (TPname nEX [112]) (TIri [30000 + i]) None.
Definition wb_doc : list item := IPrefix nEX iE :: map wb_stmt (nseq 1499 0).
Definition wb_missing : lquad := lq_of [21200] (iE ++ [112]) [31200] None.   (* the statement of line 1202 *)

(* (c) a literal with a leading blank, N-Triples: right since fix 16f77b9 (encode_cleaned_term).  `encode_triple_old`
   is the encoding of a parsed statement before that repair (every cleaned term through encode_term_star), kept for
   the regression lemma.  The residue of the finding: a literal whose VALUE looks like a quoted triple (wr_doc), and
   Turtle statements with a quoted triple, which still go through encode_term_star (wt_doc). *)
Definition encode_triple_old (x : db) (t : str * str * str) : db * (N * N * N) :=
  let '(s, p, o) := t in
  let (x1, si) := encode_star x s in
  let (x2, pi) := encode_star x1 p in
  let (x3, oi) := encode_star x2 o in
  (x3, (si, pi, oi)).
Definition den_after_old (t : str * str * str) : list lquad :=
  let (x, e) := encode_triple_old db_new t in den (add_triple x e).
Definition wr_doc : list item :=
  [IStmt P0 (TIri iA) (TIri iB) (TLit [LPlain 60; LPlain 60; LPlain 120; LPlain 32; LPlain 121; LPlain 32; LPlain 122; LPlain 62; LPlain 62] SNone) None].
Definition wr_missing : lquad := lq_of iA iB [60; 60; 120; 32; 121; 32; 122; 62; 62] None.    (* the literal "<<x y z>>" *)
Definition wt_doc : list item :=
  [IStmt P0 (TQuoted (TIri iA) (TIri iB) (TIri iC)) (TIri iB) (TLit [LPlain 32; LPlain 118; LPlain 32] SNone) None].
Definition wt_missing : lquad :=
  lq_of ([60;60;32] ++ iA ++ [32] ++ iB ++ [32] ++ iC ++ [32;62;62]) iB [32; 118; 32] None.
Definition wc_doc : list item := [IStmt P0 (TIri iA) (TIri iB) (TLit [LPlain 32; LPlain 120] SNone) None].
Definition wc_missing : lquad := lq_of iA iB [32; 120] None.

(* (d) a literal in N3 *)
Definition wd_doc : list item := [IStmt P0 (TIri iA) (TIri iB) (TLit [LPlain 120] SNone) None].
Definition wd_missing : lquad := lq_of iA iB [120] None.

(* (e) a language-tagged literal in Turtle: right since fix dbe5296; `clean_turtle_term_old` is the cleaning
   function before that repair (kept for the regression lemma) *)
Definition clean_turtle_term_old (term0 : str) : str :=
  let term := trim term0 in
  if starts_with sLTLT term then term
  else if starts_with_c cLT term && ends_with_c cGT term then strip1 term
  else if starts_with_c cDQ term && ends_with_c cDQ term then
    match decode_literal term with
    | Some (v, []) => v
    | _ => strip1 term
    end
  else tm_char cDQ term.
Definition we_doc : list item := [IStmt P0 (TIri iA) (TIri iB) (TLit [LPlain 120] (SLang [101;110])) None].
Definition we_missing : lquad := lq_of iA iB [120; 64; 101; 110] None.

(* (f) an IRI with a fragment in N3 *)
Definition wf_doc : list item := [IStmt P0 (TIri (iA ++ [35; 102])) (TIri iB) (TIri iC) None].
Definition wf_missing : lquad := lq_of (iA ++ [35; 102]) iB iC None.
