(* Loading never changes what an existing identifier denotes (identifiers of existing terms - dictionary ids and
   quoted-triple ids - are stable; new terms get identifiers the prior database did not decode). *)
Require Import KV.Codec13.Model KV.Codec13.Spec KV.Codec13.Wf KV.Codec13.Classes KV.Codec13.Inv.
Require Import KV.Codec13.StrProofs KV.Codec13.ChunkProofs KV.Codec13.TokProofs KV.Codec13.DictProofs KV.Codec13.NtProofs.
Require Import Lia.

Lemma ntriples_ids_stable : forall (n : nat) (doc : list item) (x : db),
  (1 <= n)%nat -> wf_doc_nt doc = true -> known_C13_reclean doc = false -> db_okq x ->
  next_id (d_dict x) + 10 * N.of_nat (length (triples_of doc)) <= QBIT ->
  forall i s, decode_any x i = Some s -> decode_any (load_nt_n n (render_doc doc) x) i = Some s.
Proof.
  intros n doc x Hn1 Hw Hk Hx Hn i s H. rewrite (load_nt_fold n doc x Hn1 Hw Hk).
  pose proof (doc_stmts_ok doc (wf_nt_nq doc Hw) Hk) as Ok.
  rewrite (triples_stmts doc (wf_nt_nq doc Hw)) in Hn. rewrite map_length in Hn.
  destruct (fold_step4_spec (doc_stmts doc) x Ok Hx Hn) as (_ & _ & X & _).
  apply (decode_any_ext x); assumption.
Qed.

Lemma nquads_ids_stable : forall (doc : list item) (x : db),
  wf_doc_nq doc = true -> known_C13_reclean doc = false -> db_okq x ->
  next_id (d_dict x) + 10 * N.of_nat (length (triples_of doc)) <= QBIT ->
  forall i s, decode_any x i = Some s -> decode_any (load_nq (render_doc doc) x) i = Some s.
Proof.
  intros doc x Hw Hk Hx Hn i s H. unfold load_nq. rewrite nq_lines by exact Hw.
  pose proof (doc_stmts_ok doc Hw Hk) as Ok. rewrite (triples_stmts doc Hw) in Hn. rewrite map_length in Hn.
  assert (E : fold_left load_nq_stmt (map cleaned4 (doc_stmts doc)) x = fold_left step4 (doc_stmts doc) x).
  { clear Hn Hx H. revert x. induction Ok as [|q qs Hq Hqs IH]; intro x; [reflexivity|].
    cbn [map fold_left]. rewrite load_nq_stmt_step4 by exact Hq. apply IH. }
  rewrite E. destruct (fold_step4_spec (doc_stmts doc) x Ok Hx Hn) as (_ & _ & X & _).
  apply (decode_any_ext x); assumption.
Qed.
