(* Loading never changes what an existing identifier denotes (identifiers of existing terms are stable;
   new terms get identifiers the prior database did not decode). *)
Require Import KV.Codec13.Model KV.Codec13.Spec KV.Codec13.Wf KV.Codec13.Classes KV.Codec13.Inv.
Require Import KV.Codec13.StrProofs KV.Codec13.ChunkProofs KV.Codec13.TokProofs KV.Codec13.DictProofs KV.Codec13.NtProofs.
Require Import Lia.

Lemma add_quad_ext : forall x q, ext x (add_quad x q).
Proof. intros x q. destruct (add_quad_frame x q) as (D & Q & _). split; [exact Q | rewrite D; auto]. Qed.

Lemma add_lex_ext : forall x s p o g, db_ok x -> next_id (d_dict x) + 4 <= QBIT -> ext x (add_lex x s p o g).
Proof.
  intros x s p o g [Hd _] Hn. rewrite add_lex_enc3. destruct (enc3 x s p o) as [x3 [[si pi] oi]] eqn:E3.
  assert (N3 : next_id (d_dict x) + 3 <= QBIT) by lia.
  destruct (enc3_spec _ _ _ _ _ _ _ _ E3 Hd N3) as (D3 & X3 & _ & _ & _ & _ & _ & _ & U3).
  destruct g as [gs|].
  - destruct (db_encode x3 gs) as [x4 gi] eqn:E4.
    assert (N4 : next_id (d_dict x3) < QBIT) by lia.
    destruct (db_encode_spec _ _ _ _ E4 D3 N4) as (_ & X4 & _).
    apply (ext_trans _ _ _ X3). apply (ext_trans _ _ _ X4). apply add_quad_ext.
  - apply (ext_trans _ _ _ X3). apply add_quad_ext.
Qed.

Lemma fold_add_lex_ext : forall qs x, db_ok x -> next_id (d_dict x) + 4 * N.of_nat (length qs) <= QBIT ->
  ext x (fold_left add_lex4 qs x).
Proof.
  induction qs as [|[[[s p] o] g] qs IH]; intros x Hx Hn; [apply ext_refl|].
  cbn [fold_left add_lex4]. cbn [length] in Hn. rewrite Nat2N.inj_succ in Hn.
  assert (N1 : next_id (d_dict x) + 4 <= QBIT) by lia.
  destruct (add_lex_spec x s p o g Hx N1) as (K1 & _ & K3 & _).
  apply (ext_trans _ _ _ (add_lex_ext x s p o g Hx N1)). apply IH; [exact K1 | lia].
Qed.

Lemma ntriples_ids_stable : forall (n : nat) (doc : list item) (x : db),
  (1 <= n)%nat -> wf_doc_nt doc = true -> known_C13_reclean doc = false -> db_ok x ->
  next_id (d_dict x) + 4 * N.of_nat (length (triples_of doc)) <= QBIT ->
  forall i s, decode_any x i = Some s -> decode_any (load_nt_n n (render_doc doc) x) i = Some s.
Proof.
  intros n doc x Hn1 Hw Hk Hx Hn i s H. unfold load_nt_n, encode_triples. rewrite parsed_concat by exact Hn1.
  destruct (nt_lines doc Hw) as [E1 E2]. rewrite E1.
  pose proof (doc_stable doc (wf_nt_nq doc Hw) Hk) as St.
  rewrite (encode_then_add _ (stable4_drop _ St)). rewrite E2.
  apply (decode_any_ext x); [apply fold_add_lex_ext; assumption | exact H].
Qed.

Lemma nquads_ids_stable : forall (doc : list item) (x : db),
  wf_doc_nq doc = true -> known_C13_reclean doc = false -> db_ok x ->
  next_id (d_dict x) + 4 * N.of_nat (length (triples_of doc)) <= QBIT ->
  forall i s, decode_any x i = Some s -> decode_any (load_nq (render_doc doc) x) i = Some s.
Proof.
  intros doc x Hw Hk Hx Hn i s H. unfold load_nq. rewrite nq_lines by exact Hw.
  rewrite load_nq_stmt_stable by (apply doc_stable; assumption).
  apply (decode_any_ext x); [apply fold_add_lex_ext; assumption | exact H].
Qed.
