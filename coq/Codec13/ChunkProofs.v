(* slice::chunks(n) only regroups the lines: concatenating the chunks gives the document back, so any
   per-line function mapped over the chunks (in order) equals the same function mapped over the lines. *)
Require Import KV.Codec13.Model.
Require Import Lia.

Lemma concat_chunks_aux : forall {A} (fuel n : nat) (l : list A),
  (1 <= n)%nat -> (length l <= fuel)%nat -> concat (chunks_aux fuel n l) = l.
Proof.
  intros A fuel n. induction fuel as [|f IH]; intros l Hn Hl.
  - destruct l; [reflexivity | simpl in Hl; lia].
  - destruct l as [|a l']; [reflexivity|].
    cbn [chunks_aux concat].
    rewrite IH; [apply firstn_skipn | exact Hn |].
    rewrite skipn_length. cbn [length] in Hl |- *. lia.
Qed.

Lemma concat_chunks : forall {A} (n : nat) (l : list A), (1 <= n)%nat -> concat (chunks n l) = l.
Proof. intros A n l Hn. unfold chunks. apply concat_chunks_aux; [exact Hn | lia]. Qed.

Lemma flat_map_flat_map_concat : forall {A B} (f : A -> list B) (ls : list (list A)),
  flat_map (flat_map f) ls = flat_map f (concat ls).
Proof.
  intros A B f ls. induction ls as [|x r IH]; [reflexivity|].
  cbn [flat_map concat]. rewrite IH, flat_map_app. reflexivity.
Qed.

Lemma chunking_any : forall {A B} (f : A -> list B) (n : nat) (l : list A),
  (1 <= n)%nat -> flat_map (flat_map f) (chunks n l) = flat_map f l.
Proof. intros A B f n l Hn. rewrite flat_map_flat_map_concat, concat_chunks by exact Hn. reflexivity. Qed.

Lemma chunking_nt : forall (n : nat) (lines : list str),
  (1 <= n)%nat -> flat_map parse_chunk_nt (chunks n lines) = flat_map nt_line lines.
Proof. intros n lines Hn. unfold parse_chunk_nt. apply chunking_any. exact Hn. Qed.

(* what encode_triples iterates over *)
Lemma parsed_concat : forall (n : nat) (lines : list str),
  (1 <= n)%nat -> concat (parse_ntriples_n n lines) = flat_map nt_line lines.
Proof.
  intros n lines Hn. unfold parse_ntriples_n. rewrite <- flat_map_concat_map.
  apply chunking_nt. exact Hn.
Qed.
