(* Entry points used by the correspondence check (checks/c13.py). *)
Require Import KV.Codec13.Model KV.Codec13.Spec KV.Codec13.Classes KV.Codec13.Inv.

Inductive op :=
| OAdd (s p o : str) (g : option str) (obs : bool)
| OLoad (fmt : N) (lines : list str) (obs : bool)        (* raw text; 0 nt, 1 nq, 2 ttl, 3 n3 *)
| ODoc (fmt : N) (doc : list item) (obs : bool).         (* a document of the subset, as syntax *)

(* a large document given compactly: a table of terms, a table of other items, and one index list per
   line ([s;p;o] / [s;p;o;g] = a statement with default spacing, [f] = the f-th other item) *)
Definition P0 := mkPad [] [32] [32] [32] [32] [].
Definition nth_term (l : list term) (i : N) : term := nth (N.to_nat i) l (TIri []).
Definition expand_doc (terms : list term) (fill : list item) (idx : list (list N)) : list item :=
  map (fun e => match e with
                | [s; p; o] => IStmt P0 (nth_term terms s) (nth_term terms p) (nth_term terms o) None
                | [s; p; o; g] => IStmt P0 (nth_term terms s) (nth_term terms p) (nth_term terms o) (Some (nth_term terms g))
                | [f] => nth (N.to_nat f) fill (IBlank [])
                | _ => IBlank []
                end) idx.

Definition load_fmt (f : N) (lines : list str) (x : db) : db :=
  if f =? 0 then load_nt lines x else if f =? 1 then load_nq lines x
  else if f =? 2 then load_ttl lines x else load_n3 lines x.

(* position-weighted checksum of the rendered text, so that the check can confirm that the text it
   handed to the implementation is the text the model loaded *)
Definition HMASK : N := 17592186044415.       (* 2^44 - 1 *)
Definition hmix (a c : N) : N := N.land (N.shiftl a 5 + a + c) HMASK.      (* (33 a + c) mod 2^44 *)
Definition checksum (lines : list str) : N :=
  fold_left (fun a l => hmix (fold_left (fun a c => hmix a (c + 1)) l a) (cLF + 1)) lines 0.

(* per operation: (observed denotation, Spec quads of the document, checksum, known-class flags) *)
Definition out := (option (list lquad) * option (list squad) * N * list bool)%type.

Definition apply_op (x : db) (o : op) : db * out :=
  match o with
  | OAdd s p o g obs =>
      let x' := add_lex x s p o g in (x', (if obs then Some (den x') else None, None, 0, []))
  | OLoad f lines obs =>
      let x' := load_fmt f lines x in (x', (if obs then Some (den x') else None, None, checksum lines, []))
  | ODoc f doc obs =>
      let lines := render_doc doc in
      let x' := load_fmt f lines x in
      (x', (if obs then Some (den x') else None, Some (triples_of doc), checksum lines,
            [known_C13_n3 doc x; known_C13_reclean doc; known_C13_n3_literal doc; known_C13_n3_hash doc; known_C13_ttl_reclean doc]))
  end.

Fixpoint run_ops (x : db) (ops : list op) : list out :=
  match ops with
  | [] => []
  | o :: r => let (x', res) := apply_op x o in res :: run_ops x' r
  end.
Definition run (ops : list op) := run_ops db_new ops.

(* large cases: every quad is reported as one number (a polynomial hash of its strings, 33^k mod 2^44) *)
Definition hstr (a : N) (s : str) : N := hmix (fold_left (fun a c => hmix a (c + 2)) s a) 1.
Definition hcomp (a : N) (o : option str) : N := match o with None => hmix a 0 | Some s => hmix (hstr a s) 1 end.
Definition qhash (q : lquad) : N :=
  let '(s, p, o, g) := q in
  let a := hcomp (hcomp (hcomp 17 s) p) o in
  match g with None => hmix a 7 | Some x => hcomp (hmix a 8) x end.
Definition squad_l (q : squad) : lquad := lq_of4 q.

Definition out_h := (option (list N) * option (list N) * N * list bool)%type.
Definition hash_out (o : out) : out_h :=
  let '(d, sp, c, f) := o in (option_map (map qhash) d, option_map (map (fun q => qhash (squad_l q))) sp, c, f).
Definition run_h (ops : list op) : list out_h := map hash_out (run ops).
Definition CDoc (fmt : N) (terms : list term) (fill : list item) (idx : list (list N)) (obs : bool) : op :=
  ODoc fmt (expand_doc terms fill idx) obs.

Definition t3 (t : str * str * str) : list str := let '(a, b, c) := t in [a; b; c].
Definition run_nt_chunks (lines : list str) : list (list (list str)) := map (map t3) (parse_ntriples lines).
Definition run_star (terms : list str) : list (option str) :=
  snd (fold_left (fun (acc : db * list (option str)) t =>
                    let (x, outs) := acc in
                    let (x', i) := encode_star x t in (x', outs ++ [decode_any x' i])) terms (db_new, [])).
Definition h3 (t : str * str * str) : N := let '(a, b, c) := t in hstr (hstr (hstr 17 a) b) c.
Definition run_nt_chunks_h (lines : list str) : list (list N) := map (map h3) (parse_ntriples lines).
Definition run_nt_chunks_c (terms : list term) (fill : list item) (idx : list (list N)) : list (list N) :=
  run_nt_chunks_h (render_doc (expand_doc terms fill idx)).
