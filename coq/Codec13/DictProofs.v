(* The dictionary part of the loaders: encoding a term never disturbs what existing identifiers
   denote, a fresh term gets a fresh identifier, and inserting the encoded quads adds exactly their
   lexical quads to the denotation of the database. *)
Require Import KV.Codec13.Model KV.Codec13.Inv KV.Codec13.StrProofs.
Require Import Lia.

(* x' extends x: every identifier that denotes a term in x denotes the same term in x' *)
Definition ext (x x' : db) : Prop :=
  (forall i s, decode_any x i = Some s -> decode_any x' i = Some s) /\
  (forall i s, dict_decode (d_dict x) i = Some s -> dict_decode (d_dict x') i = Some s).

Lemma ext_refl : forall x, ext x x.
Proof. intro x. split; auto. Qed.

Lemma ext_trans : forall x y z, ext x y -> ext y z -> ext x z.
Proof. intros x y z [Q1 D1] [Q2 D2]. split; auto. Qed.

Lemma decode_any_ext : forall x x' i s, ext x x' -> decode_any x i = Some s -> decode_any x' i = Some s.
Proof. intros x x' i s [E _] H. apply E. exact H. Qed.

(* the structural reason: both stores only grow *)
Definition grows (x x' : db) : Prop :=
  (forall i c, assoc_n i (i2c (d_qts x)) = Some c -> assoc_n i (i2c (d_qts x')) = Some c) /\
  (length (i2c (d_qts x)) <= length (i2c (d_qts x')))%nat /\
  (forall i s, dict_decode (d_dict x) i = Some s -> dict_decode (d_dict x') i = Some s).

Lemma decode_term_grows : forall x x', grows x x' -> forall f f' i s, (f <= f')%nat ->
  decode_term f x i = Some s -> decode_term f' x' i = Some s.
Proof.
  intros x x' (Q & _ & D) f. induction f as [|f IH]; intros f' i s Hf H.
  - cbn [decode_term] in H. destruct (is_quoted i) eqn:Eq; [discriminate|].
    destruct f'; cbn [decode_term]; rewrite Eq; apply D; exact H.
  - destruct f' as [|f']; [lia|]. cbn [decode_term] in *. destruct (is_quoted i); [|apply D; exact H].
    destruct (assoc_n i (i2c (d_qts x))) as [[[a b] c]|] eqn:Ei; [|discriminate]. rewrite (Q _ _ Ei).
    destruct (decode_term f x a) as [sa|] eqn:Ea; [|discriminate].
    destruct (decode_term f x b) as [sb|] eqn:Eb; [|discriminate].
    destruct (decode_term f x c) as [sc|] eqn:Ec; [|discriminate].
    rewrite (IH f' _ _ ltac:(lia) Ea), (IH f' _ _ ltac:(lia) Eb), (IH f' _ _ ltac:(lia) Ec). exact H.
Qed.

Lemma ext_of_grows : forall x x', grows x x' -> ext x x'.
Proof.
  intros x x' G. split; [|apply G]. intros i s H. unfold decode_any in *.
  apply (decode_term_grows x x' G (S (length (i2c (d_qts x)))) _ i s); [|exact H]. destruct G as (_ & L & _). lia.
Qed.

Lemma grows_same_qts : forall x x', d_qts x' = d_qts x ->
  (forall i s, dict_decode (d_dict x) i = Some s -> dict_decode (d_dict x') i = Some s) -> grows x x'.
Proof. intros x x' Q D. unfold grows. rewrite Q. auto. Qed.

Lemma quad_ok_ext : forall x x' q, ext x x' -> quad_ok x q -> quad_ok x' q /\ den_quad x' q = den_quad x q.
Proof.
  intros x x' [[[s p] o] g] E (Hs & Hp & Ho & Hg). destruct Hs as [a Ha], Hp as [b Hb], Ho as [c Hc].
  pose proof (decode_any_ext _ _ _ _ E Ha) as Ha'.
  pose proof (decode_any_ext _ _ _ _ E Hb) as Hb'.
  pose proof (decode_any_ext _ _ _ _ E Hc) as Hc'.
  destruct g as [gi|].
  - destruct Hg as [d Hd]. pose proof (proj2 E _ _ Hd) as Hd'.
    split.
    + cbn. repeat split; eauto.
    + cbn [den_quad]. rewrite Ha, Hb, Hc, Ha', Hb', Hc', Hd, Hd'. reflexivity.
  - split.
    + cbn. repeat split; eauto.
    + cbn [den_quad]. rewrite Ha, Hb, Hc, Ha', Hb', Hc'. reflexivity.
Qed.

Lemma den_ext_list : forall x x' l, ext x x' -> Forall (quad_ok x) l ->
  map (den_quad x') l = map (den_quad x) l /\ Forall (quad_ok x') l.
Proof.
  intros x x' l E F. induction F as [|q l Hq F IH]; [split; constructor|].
  destruct IH as [IH1 IH2]. destruct (quad_ok_ext x x' q E Hq) as [K1 K2].
  split; [cbn [map]; rewrite K2, IH1; reflexivity | constructor; assumption].
Qed.

Lemma den_ext : forall x x', ext x x' -> d_quads x' = d_quads x -> Forall (quad_ok x) (d_quads x) ->
  den x' = den x /\ Forall (quad_ok x') (d_quads x').
Proof. intros x x' E Q F. unfold den. rewrite Q. apply den_ext_list; assumption. Qed.

(* ---- Dictionary::encode ---- *)
Lemma db_encode_spec : forall x s x' i,
  db_encode x s = (x', i) -> dict_ok (d_dict x) -> next_id (d_dict x) < QBIT ->
  dict_ok (d_dict x') /\ ext x x' /\ d_quads x' = d_quads x /\ d_pref x' = d_pref x /\
  (decode_any x' i = Some s /\ dict_decode (d_dict x') i = Some s) /\
  next_id (d_dict x) <= next_id (d_dict x') /\ next_id (d_dict x') <= next_id (d_dict x) + 1 /\ d_qts x' = d_qts x.
Proof.
  intros x s x' i H [A B] Hn. unfold db_encode, dict_encode in H.
  destruct (assoc_s s (s2i (d_dict x))) as [j|] eqn:E.
  - inversion H; subst x' i; clear H. unfold set_dict. cbn [d_dict d_qts d_quads d_pref].
    pose proof (A _ _ E) as Hj. pose proof (B _ _ Hj) as Hlt.
    split; [split; assumption|]. split; [apply ext_of_grows; apply grows_same_qts; auto|].
    split; [reflexivity|]. split; [reflexivity|]. split; [|split; [lia | split; [lia | reflexivity]]].
    split; [|exact Hj]. unfold decode_any. cbn [decode_term d_dict].
    unfold is_quoted. replace (QBIT <=? j) with false by (symmetry; apply N.leb_gt; lia). exact Hj.
  - inversion H; subst x' i; clear H. unfold set_dict.
    set (x' := mkDb (mkDict ((s, next_id (d_dict x)) :: s2i (d_dict x)) ((next_id (d_dict x), s) :: i2s (d_dict x)) (next_id (d_dict x) + 1))
                    (d_qts x) (d_quads x) (d_pref x)).
    assert (D : forall i' s', dict_decode (d_dict x) i' = Some s' -> dict_decode (d_dict x') i' = Some s').
    { intros i' s' H'. unfold dict_decode in *. cbn [x' d_dict i2s] in *.
      pose proof (B _ _ H') as Hlt. rewrite assoc_n_cons_neq by lia. exact H'. }
    split.
    { split.
      - intros s' i' H'. cbn [x' d_dict s2i i2s] in *. destruct (str_eqb s' s) eqn:Es.
        + apply str_eqb_eq in Es. subst s'. rewrite assoc_s_cons_eq in H'. inversion H'; subst i'. apply assoc_n_cons_eq.
        + apply str_eqb_neq in Es. rewrite assoc_s_cons_neq in H' by exact Es.
          pose proof (A _ _ H') as Hi. pose proof (B _ _ Hi) as Hlt. rewrite assoc_n_cons_neq by lia. exact Hi.
      - intros i' s' H'. cbn [x' d_dict i2s next_id] in *. destruct (N.eq_dec i' (next_id (d_dict x))) as [Ei|Ei].
        + subst i'. lia.
        + rewrite assoc_n_cons_neq in H' by exact Ei. pose proof (B _ _ H'). lia. }
    split; [apply ext_of_grows; apply grows_same_qts; [reflexivity | exact D]|].
    split; [reflexivity|]. split; [reflexivity|].
    split; [|cbn [x' d_dict next_id d_qts]; split; [lia | split; [lia | reflexivity]]].
    split.
    + unfold decode_any. cbn [decode_term]. unfold is_quoted.
      replace (QBIT <=? next_id (d_dict x)) with false by (symmetry; apply N.leb_gt; lia).
      unfold dict_decode. cbn [x' d_dict i2s]. apply assoc_n_cons_eq.
    + unfold dict_decode. cbn [x' d_dict i2s]. apply assoc_n_cons_eq.
Qed.

(* ---- DatasetIndex::insert_quad ---- *)
Lemma add_quad_frame : forall x q, d_dict (add_quad x q) = d_dict x /\ d_qts (add_quad x q) = d_qts x /\ d_pref (add_quad x q) = d_pref x.
Proof. intros x q. unfold add_quad. destruct (existsb (quad_eqb q) (d_quads x)); auto. Qed.

Lemma quad_eqb_eq : forall a b, quad_eqb a b = true <-> a = b.
Proof.
  intros [[[a1 a2] a3] ag] [[[b1 b2] b3] bg]. unfold quad_eqb. rewrite !andb_true_iff, !N.eqb_eq. split.
  - intros [[[E1 E2] E3] Eg]. subst. destruct ag, bg; try discriminate; [apply N.eqb_eq in Eg; subst|]; reflexivity.
  - intro E. inversion E; subst. repeat split; try reflexivity. destruct bg; [apply N.eqb_refl | reflexivity].
Qed.

Lemma add_quad_in : forall x q r, In r (d_quads (add_quad x q)) <-> In r (d_quads x) \/ r = q.
Proof.
  intros x q r. unfold add_quad. destruct (existsb (quad_eqb q) (d_quads x)) eqn:E.
  - split; [auto|]. intros [H|H]; [exact H|]. subst r.
    apply existsb_exists in E. destruct E as (y & Hy & Ey). apply quad_eqb_eq in Ey. subst y. exact Hy.
  - cbn [d_quads In]. split; intros [H|H]; auto.
Qed.

Lemma decode_any_frame : forall x x' i, d_dict x' = d_dict x -> d_qts x' = d_qts x -> decode_any x' i = decode_any x i.
Proof.
  intros x x' i D Q. unfold decode_any. rewrite Q. generalize (S (length (i2c (d_qts x)))) as f.
  intro f. revert i. induction f as [|f IH]; intro i; cbn [decode_term]; rewrite ?D, ?Q; [reflexivity|].
  destruct (is_quoted i); [|reflexivity].
  destruct (assoc_n i (i2c (d_qts x))) as [[[a b] c]|]; [|reflexivity].
  rewrite !IH. reflexivity.
Qed.

Lemma den_quad_frame : forall x x' q, d_dict x' = d_dict x -> d_qts x' = d_qts x -> den_quad x' q = den_quad x q.
Proof.
  intros x x' [[[s p] o] g] D Q. cbn [den_quad]. rewrite !(decode_any_frame x x') by assumption. rewrite D. reflexivity.
Qed.

Lemma quad_ok_frame : forall x x' q, d_dict x' = d_dict x -> d_qts x' = d_qts x -> quad_ok x q -> quad_ok x' q.
Proof.
  intros x x' [[[s p] o] g] D Q H. unfold quad_ok in *. rewrite !(decode_any_frame x x') by assumption. rewrite D. exact H.
Qed.

Lemma den_add_quad : forall x q lq, In lq (den (add_quad x q)) <-> In lq (den x) \/ lq = den_quad x q.
Proof.
  intros x q lq. destruct (add_quad_frame x q) as (D & Q & _). unfold den. rewrite !in_map_iff. split.
  - intros (r & E & Hr). rewrite (den_quad_frame x) in E by assumption. apply add_quad_in in Hr. destruct Hr as [Hr|Hr].
    + left. exists r. auto.
    + right. subst r. auto.
  - intros [(r & E & Hr)|E].
    + exists r. rewrite (den_quad_frame x) by assumption. split; [exact E | apply add_quad_in; auto].
    + exists q. rewrite (den_quad_frame x) by assumption. split; [auto | apply add_quad_in; auto].
Qed.

Lemma add_quad_ok : forall x q, db_ok x -> quad_ok x q -> db_ok (add_quad x q).
Proof.
  intros x q [Hd Hq] Hn. destruct (add_quad_frame x q) as (D & Q & _). split; [rewrite D; exact Hd|].
  apply Forall_forall. intros r Hr. apply add_quad_in in Hr. apply (quad_ok_frame x); try assumption.
  destruct Hr as [Hr|Hr]; [rewrite Forall_forall in Hq; apply Hq; exact Hr | subst r; exact Hn].
Qed.

(* ---- three terms in a row (subject, predicate, object) ---- *)
Definition enc3 (x : db) (s p o : str) : db * (N * N * N) :=
  let (x1, si) := db_encode x s in
  let (x2, pi) := db_encode x1 p in
  let (x3, oi) := db_encode x2 o in
  (x3, (si, pi, oi)).

Lemma enc3_spec : forall x s p o x3 si pi oi,
  enc3 x s p o = (x3, (si, pi, oi)) -> dict_ok (d_dict x) -> next_id (d_dict x) + 3 <= QBIT ->
  dict_ok (d_dict x3) /\ ext x x3 /\ d_quads x3 = d_quads x /\ d_pref x3 = d_pref x /\
  decode_any x3 si = Some s /\ decode_any x3 pi = Some p /\ decode_any x3 oi = Some o /\
  next_id (d_dict x) <= next_id (d_dict x3) /\ next_id (d_dict x3) <= next_id (d_dict x) + 3.
Proof.
  intros x s p o x3 si pi oi H Hd Hn. unfold enc3 in H.
  destruct (db_encode x s) as [x1 i1] eqn:E1.
  destruct (db_encode x1 p) as [x2 i2] eqn:E2.
  destruct (db_encode x2 o) as [x3' i3] eqn:E3.
  inversion H; subst x3' i1 i2 i3; clear H.
  assert (N1 : next_id (d_dict x) < QBIT) by lia.
  destruct (db_encode_spec _ _ _ _ E1 Hd N1) as (D1 & X1 & Q1 & P1 & [C1 _] & L1 & U1 & T1).
  assert (N2 : next_id (d_dict x1) < QBIT) by lia.
  destruct (db_encode_spec _ _ _ _ E2 D1 N2) as (D2 & X2 & Q2 & P2 & [C2 _] & L2 & U2 & T2).
  assert (N3 : next_id (d_dict x2) < QBIT) by lia.
  destruct (db_encode_spec _ _ _ _ E3 D2 N3) as (D3 & X3 & Q3 & P3 & [C3 _] & L3 & U3 & T3).
  split; [exact D3|]. split; [apply (ext_trans _ _ _ X1 (ext_trans _ _ _ X2 X3))|].
  split; [congruence|]. split; [congruence|].
  split; [apply (decode_any_ext x1 x3); [apply (ext_trans _ _ _ X2 X3) | exact C1]|].
  split; [apply (decode_any_ext x2 x3); [exact X3 | exact C2]|].
  split; [exact C3|]. split; lia.
Qed.

Lemma add_lex_enc3 : forall x s p o g,
  add_lex x s p o g =
  let '(x3, (si, pi, oi)) := enc3 x s p o in
  match g with
  | None => add_quad x3 (si, pi, oi, None)
  | Some gs => let (x4, gi) := db_encode x3 gs in add_quad x4 (si, pi, oi, Some gi)
  end.
Proof.
  intros x s p o g. unfold add_lex, enc3.
  destruct (db_encode x s) as [x1 si]. destruct (db_encode x1 p) as [x2 pi]. destruct (db_encode x2 o) as [x3 oi].
  reflexivity.
Qed.

Lemma add_lex_spec : forall x s p o g,
  db_ok x -> next_id (d_dict x) + 4 <= QBIT ->
  db_ok (add_lex x s p o g) /\
  (forall lq, In lq (den (add_lex x s p o g)) <-> In lq (den x) \/ lq = lq_of s p o g) /\
  next_id (d_dict (add_lex x s p o g)) <= next_id (d_dict x) + 4 /\
  d_pref (add_lex x s p o g) = d_pref x.
Proof.
  intros x s p o g [Hd Hq] Hn. rewrite add_lex_enc3.
  destruct (enc3 x s p o) as [x3 [[si pi] oi]] eqn:E3.
  assert (N3 : next_id (d_dict x) + 3 <= QBIT) by lia.
  destruct (enc3_spec _ _ _ _ _ _ _ _ E3 Hd N3) as (D3 & X3 & Q3 & P3 & Cs & Cp & Co & L3 & U3).
  destruct g as [gs|].
  - destruct (db_encode x3 gs) as [x4 gi] eqn:E4.
    assert (N4 : next_id (d_dict x3) < QBIT) by lia.
    destruct (db_encode_spec _ _ _ _ E4 D3 N4) as (D4 & X4 & Q4 & P4 & [Cg Cg'] & L4 & U4 & T4).
    assert (X : ext x x4) by (apply (ext_trans _ _ _ X3 X4)).
    assert (Qx : d_quads x4 = d_quads x) by congruence.
    destruct (den_ext x x4 X Qx Hq) as [Dn Fq].
    assert (Kq : quad_ok x4 (si, pi, oi, Some gi)).
    { unfold quad_ok.
      split; [exists s; apply (decode_any_ext x3 x4 _ _ X4 Cs)|].
      split; [exists p; apply (decode_any_ext x3 x4 _ _ X4 Cp)|].
      split; [exists o; apply (decode_any_ext x3 x4 _ _ X4 Co)|].
      exists gs; exact Cg'. }
    assert (Kd : den_quad x4 (si, pi, oi, Some gi) = lq_of s p o (Some gs)).
    { cbn [den_quad]. rewrite (decode_any_ext _ _ _ _ X4 Cs), (decode_any_ext _ _ _ _ X4 Cp), (decode_any_ext _ _ _ _ X4 Co), Cg'. reflexivity. }
    destruct (add_quad_frame x4 (si, pi, oi, Some gi)) as (Fd & _ & Fp).
    split; [apply add_quad_ok; [split; assumption | exact Kq]|].
    split; [intro lq; rewrite den_add_quad, Dn, Kd; reflexivity|].
    split; [rewrite Fd; lia | rewrite Fp; congruence].
  - destruct (den_ext x x3 X3 Q3 Hq) as [Dn Fq].
    assert (Kq : quad_ok x3 (si, pi, oi, None)).
    { unfold quad_ok. split; [exists s; exact Cs|]. split; [exists p; exact Cp|]. split; [exists o; exact Co | exact I]. }
    assert (Kd : den_quad x3 (si, pi, oi, None) = lq_of s p o None) by (cbn [den_quad]; rewrite Cs, Cp, Co; reflexivity).
    destruct (add_quad_frame x3 (si, pi, oi, None)) as (Fd & _ & Fp).
    split; [apply add_quad_ok; [split; assumption | exact Kq]|].
    split; [intro lq; rewrite den_add_quad, Dn, Kd; reflexivity|].
    split; [rewrite Fd; lia | rewrite Fp; exact P3].
Qed.

Lemma fold_add_lex_spec : forall qs x,
  db_ok x -> next_id (d_dict x) + 4 * N.of_nat (length qs) <= QBIT ->
  db_ok (fold_left add_lex4 qs x) /\
  (forall lq, In lq (den (fold_left add_lex4 qs x)) <-> In lq (den x) \/ In lq (map lq_of4 qs)) /\
  d_pref (fold_left add_lex4 qs x) = d_pref x.
Proof.
  induction qs as [|[[[s p] o] g] qs IH]; intros x Hx Hn.
  - cbn [fold_left map In]. split; [exact Hx|]. split; [intro lq; tauto | reflexivity].
  - cbn [fold_left add_lex4]. cbn [length] in Hn. rewrite Nat2N.inj_succ in Hn.
    assert (N1 : next_id (d_dict x) + 4 <= QBIT) by lia.
    destruct (add_lex_spec x s p o g Hx N1) as (K1 & K2 & K3 & K4).
    assert (N2 : next_id (d_dict (add_lex x s p o g)) + 4 * N.of_nat (length qs) <= QBIT) by lia.
    destruct (IH (add_lex x s p o g) K1 N2) as (J1 & J2 & J3).
    split; [exact J1|]. split; [|congruence].
    intro lq. rewrite J2, K2. cbn [map In lq_of4]. split; intro H.
    + destruct H as [[H|H]|H]; [left; exact H | right; left; symmetry; exact H | right; right; exact H].
    + destruct H as [H|[H|H]]; [left; left; exact H | left; right; symmetry; exact H | right; exact H].
Qed.
