(* The one-statement-per-line Turtle subset of the C13 Turtle theorem (decidable predicates, no proofs). *)
Require Export KV.Codec13.Wf.

(* an IRI that resolve_query_term leaves alone: http(s):// or no colon at all *)
Definition ttl_iri_ok (s : str) : bool :=
  wf_iri s && (starts_with sHTTP_ s || starts_with sHTTPS_ s || negb (contains_c cCOLON s))
  && negb (contains_c cLBRACE s).        (* `{|` after the object starts an annotation *)
(* a plain literal whose value resolve_query_term leaves alone *)
Definition ttl_value_ok (v : str) : bool :=
  negb (starts_with_c cLT v) && negb (starts_with_c cDQ v) && negb (contains_c cCOLON v).
(* a component of a quoted triple in Turtle: as in N-Triples, and no '{' anywhere in its text (the annotation
   marker `{|` is looked for in the whole object text) *)
Definition nobrace_c (c : N) : bool := negb (c =? cLBRACE).
Definition comp_ttl (t : term) : bool := comp_ok t && forallb nobrace_c (render_term t).
Definition sPREFIX_UP_ : str := [80;82;69;70;73;88].
Definition wf_term_ttl (t : term) : bool :=
  match t with
  | TIri s => ttl_iri_ok s
  | TBnode l => forallb name_char l
  | TPname p l => forallb name_char p && forallb name_char l
                  && negb (starts_with sHTTP_ (p ++ cCOLON :: l)) && negb (starts_with sHTTPS_ (p ++ cCOLON :: l))
                  && negb (starts_with sPREFIX_UP_ (p ++ cCOLON :: l))
  | TLit b x => forallb wf_lchar b && ttl_value_ok (lit_value b) &&
                match x with
                | SNone => true
                | SLang tag => forallb tag_char tag
                | SDt iri => wf_iri iri && negb (contains_c cLBRACE iri)
                end
  | TQuoted s p o => comp_ttl s && comp_ttl p && comp_ttl o
  end.
Definition is_lit (t : term) : bool := match t with TLit _ _ => true | _ => false end.
Definition ws4_char (c : N) : bool := (c =? cSP) || (c =? cTAB) || (c =? cLF) || (c =? cCR).
Definition sep4_ok (w : str) : bool := negb (is_empty w) && forallb ws4_char w.
Definition wf_pad_ttl (pd : pad) : bool :=
  ws_ok (w0 pd) && sep4_ok (w1 pd) && sep4_ok (w2 pd) && forallb ws4_char (w3 pd) && ws_ok (w4 pd).
Definition wf_objs (os : list term) : bool := negb (is_empty os) && forallb (fun o => wf_term_ttl o && negb (is_quoted_term o)) os.
Definition wf_po (po : term * list term) : bool :=
  wf_term_ttl (fst po) && negb (is_lit (fst po)) && negb (is_quoted_term (fst po)) && wf_objs (snd po).
Definition wf_list (s : term) (pos : list (term * list term)) : bool :=
  wf_term_ttl s && negb (is_lit s) && negb (is_quoted_term s) && negb (is_empty pos) && forallb wf_po pos.
Definition wf_item_ttl (i : item) : bool :=
  match i with
  | IBlank ws => ws_ok ws
  | IComment ws _ => ws_ok ws
  | IStmt pd s p o None => wf_pad_ttl pd && wf_term_ttl s && negb (is_lit s) && wf_term_ttl p && negb (is_lit p)
                           && negb (is_quoted_term p) && wf_term_ttl o
  | IPrefix name iri => forallb name_char name && forallb n3_char iri
  | IList s pos => wf_list s pos          (* s p o , o ; p o .   with single blanks, as Spec.render_item writes it *)
  | _ => false
  end.
Definition wf_doc_ttl (d : list item) : bool := forallb wf_item_ttl d.
