(* encode_term_star on the text of a one-level quoted triple: split_quoted_triple_content returns the three
   component texts, each is cleaned and encoded, and the triple of identifiers goes to the quoted-triple store. *)
Require Import KV.Codec13.Model KV.Codec13.Spec KV.Codec13.Wf KV.Codec13.Classes KV.Codec13.Inv.
Require Import KV.Codec13.StrProofs KV.Codec13.TokProofs KV.Codec13.DictProofs KV.Codec13.QtDictProofs.
Require Import Lia PeanoNat.

(* ---- split_quoted_triple_content, one step ---- *)
Definition q0 (parts : list str) (cur : str) : sst := mkS parts cur 0 false false false.
Definition qU (parts : list str) (cur : str) : sst := mkS parts cur 0 true false false.
Definition qL (parts : list str) (cur : str) : sst := mkS parts cur 0 false true false.
Definition qLE (parts : list str) (cur : str) : sst := mkS parts cur 0 false true true.

Ltac sstep :=
  cbv [s_step q0 qU qL qLE s_parts s_cur s_depth s_uri s_lit s_esc is_ws4 negb andb orb sLTLT sGTGT starts_with];
  eval_closed; cbv iota.

Lemma q_open_uri : forall parts cur, match cur with c :: _ => (cLT =? c) = false | [] => True end ->
  s_step (q0 parts cur) cLT = qU parts (cLT :: cur).
Proof. intros parts [|c cur] H; sstep; [reflexivity|]. rewrite H. kill_ifs. Qed.

Lemma iri_char_ws4 : forall c, iri_char c = true ->
  (c =? cSP) = false /\ (c =? cTAB) = false /\ (c =? cLF) = false /\ (c =? cCR) = false.
Proof.
  intros c H. apply iri_char_facts in H. destruct H as [Hw _].
  repeat split; apply N.eqb_neq; intro E; subst c; discriminate.
Qed.

Lemma q_uri_char : forall parts cur c, iri_char c = true -> s_step (qU parts cur) c = qU parts (c :: cur).
Proof.
  intros parts cur c H. destruct (iri_char_ws4 c H) as (W1 & W2 & W3 & W4).
  apply iri_char_facts in H. destruct H as (_ & H1 & H2 & H3 & H4).
  sstep. rewrite ?H1, ?H2, ?H3, ?H4, ?W1, ?W2, ?W3, ?W4. kill_ifs.
Qed.

Lemma q_close_uri : forall parts cur, s_step (qU parts cur) cGT = q0 parts (cGT :: cur).
Proof. intros. sstep. kill_ifs. Qed.

Lemma q_bare_char : forall parts cur c, iri_char c = true -> s_step (q0 parts cur) c = q0 parts (c :: cur).
Proof.
  intros parts cur c H. destruct (iri_char_ws4 c H) as (W1 & W2 & W3 & W4).
  apply iri_char_facts in H. destruct H as (_ & H1 & H2 & H3 & H4).
  sstep. rewrite ?H1, ?H2, ?H3, ?H4, ?W1, ?W2, ?W3, ?W4. kill_ifs.
Qed.

Lemma q_open_lit : forall parts cur, s_step (q0 parts cur) cDQ = qL parts (cDQ :: cur).
Proof. intros. sstep. kill_ifs. Qed.
Lemma q_lit_plain : forall parts cur c, plain_char c = true -> s_step (qL parts cur) c = qL parts (c :: cur).
Proof.
  intros parts cur c H. unfold plain_char in H. apply andb_true_iff in H. destruct H as [H1 H2].
  apply negb_true_iff in H1, H2. sstep. rewrite ?H1, ?H2. kill_ifs.
Qed.
Lemma q_lit_bs : forall parts cur, s_step (qL parts cur) cBS = qLE parts (cBS :: cur).
Proof. intros. sstep. kill_ifs. Qed.
Lemma q_lit_escaped : forall parts cur c, s_step (qLE parts cur) c = qL parts (c :: cur).
Proof. intros. sstep. kill_ifs. Qed.
Lemma q_close_lit : forall parts cur, s_step (qL parts cur) cDQ = q0 parts (cDQ :: cur).
Proof. intros. sstep. kill_ifs. Qed.
Lemma q_sep : forall parts cur, is_empty (trim (rev cur)) = false ->
  s_step (q0 parts cur) cSP = q0 (trim (rev cur) :: parts) [].
Proof. intros parts cur H. sstep. rewrite H. reflexivity. Qed.

(* ---- whole component texts ---- *)
Lemma fold_app : forall {A B} (f : A -> B -> A) l1 l2 a, fold_left f (l1 ++ l2) a = fold_left f l2 (fold_left f l1 a).
Proof. intros. apply fold_left_app. Qed.

Lemma q_uri_chars : forall l parts pre, forallb iri_char l = true ->
  fold_left s_step l (qU parts (rev pre)) = qU parts (rev (pre ++ l)).
Proof.
  induction l as [|c l IH]; intros parts pre H; [rewrite app_nil_r; reflexivity|].
  cbn [forallb] in H. apply andb_true_iff in H. destruct H as [Hc H].
  cbn [fold_left]. rewrite q_uri_char by exact Hc. rewrite rev_snoc_cons, IH by exact H. rewrite <- app_assoc. reflexivity.
Qed.

Lemma q_bare_chars : forall l parts pre, forallb iri_char l = true ->
  fold_left s_step l (q0 parts (rev pre)) = q0 parts (rev (pre ++ l)).
Proof.
  induction l as [|c l IH]; intros parts pre H; [rewrite app_nil_r; reflexivity|].
  cbn [forallb] in H. apply andb_true_iff in H. destruct H as [Hc H].
  cbn [fold_left]. rewrite q_bare_char by exact Hc. rewrite rev_snoc_cons, IH by exact H. rewrite <- app_assoc. reflexivity.
Qed.

Lemma q_plain_chars : forall l parts pre, forallb plain_char l = true ->
  fold_left s_step l (qL parts (rev pre)) = qL parts (rev (pre ++ l)).
Proof.
  induction l as [|c l IH]; intros parts pre H; [rewrite app_nil_r; reflexivity|].
  cbn [forallb] in H. apply andb_true_iff in H. destruct H as [Hc H].
  cbn [fold_left]. rewrite q_lit_plain by exact Hc. rewrite rev_snoc_cons, IH by exact H. rewrite <- app_assoc. reflexivity.
Qed.

Lemma q_lchar : forall x parts pre, wf_lchar x = true ->
  fold_left s_step (lchar_text x) (qL parts (rev pre)) = qL parts (rev (pre ++ lchar_text x)).
Proof.
  intros x parts pre H. destruct x as [c|c|d|d]; cbn [lchar_text wf_lchar] in *.
  - apply q_plain_chars. cbn [forallb]. rewrite H. reflexivity.
  - cbn [fold_left]. rewrite q_lit_bs, q_lit_escaped. rewrite !rev_snoc_cons, <- app_assoc. reflexivity.
  - unfold wf_hex in H. apply andb_true_iff in H. destruct H as [H _]. apply andb_true_iff in H. destruct H as [_ H].
    cbn [fold_left]. rewrite q_lit_bs, q_lit_escaped. rewrite !rev_snoc_cons.
    rewrite q_plain_chars by (apply hexes_plain; exact H). rewrite <- !app_assoc. reflexivity.
  - unfold wf_hex in H. apply andb_true_iff in H. destruct H as [H _]. apply andb_true_iff in H. destruct H as [_ H].
    cbn [fold_left]. rewrite q_lit_bs, q_lit_escaped. rewrite !rev_snoc_cons.
    rewrite q_plain_chars by (apply hexes_plain; exact H). rewrite <- !app_assoc. reflexivity.
Qed.

Lemma q_lit_body : forall b parts pre, forallb wf_lchar b = true ->
  fold_left s_step (lit_text b) (qL parts (rev pre)) = qL parts (rev (pre ++ lit_text b)).
Proof.
  induction b as [|x b IH]; intros parts pre H.
  - cbn [lit_text flat_map fold_left]. rewrite app_nil_r. reflexivity.
  - cbn [forallb] in H. apply andb_true_iff in H. destruct H as [Hx H].
    unfold lit_text in *. cbn [flat_map]. rewrite fold_app, q_lchar by exact Hx. rewrite IH by exact H.
    rewrite <- app_assoc. reflexivity.
Qed.

Lemma q_component : forall t parts, comp_ok t = true ->
  fold_left s_step (render_term t) (q0 parts []) = q0 parts (rev (render_term t)).
Proof.
  intros t parts H. destruct t as [s|l|p l|b x|s p o]; cbn [comp_ok] in H; try discriminate.
  - cbn [render_term fold_left]. rewrite q_open_uri by exact I. change (qU parts [cLT]) with (qU parts (rev [cLT])).
    rewrite fold_app, q_uri_chars by exact H. cbn [fold_left]. rewrite q_close_uri. rewrite rev_snoc_cons, <- app_assoc. reflexivity.
  - cbn [render_term]. change (q0 parts []) with (q0 parts (rev [])).
    rewrite q_bare_chars by (cbn [forallb]; unfold wf_iri in H; rewrite H; reflexivity). reflexivity.
  - destruct x as [|tag|iri]; try discriminate.
    + cbn [render_term fold_left]. rewrite q_open_lit. change (qL parts [cDQ]) with (qL parts (rev [cDQ])).
      rewrite fold_app, q_lit_body by exact H. cbn [fold_left]. rewrite q_close_lit.
      rewrite rev_snoc_cons, <- app_assoc. reflexivity.
    + apply andb_true_iff in H. destruct H as [Hb Hi].
      cbn [render_term fold_left]. rewrite q_open_lit. change (qL parts [cDQ]) with (qL parts (rev [cDQ])).
      rewrite fold_app, q_lit_body by exact Hb. cbn [fold_left]. rewrite q_close_lit.
      rewrite !q_bare_char by reflexivity. rewrite q_open_uri by reflexivity.
      rewrite !rev_snoc_cons. rewrite fold_app, q_uri_chars by exact Hi. cbn [fold_left]. rewrite q_close_uri.
      rewrite rev_snoc_cons. repeat (rewrite <- app_assoc). cbn [app]. repeat (rewrite <- app_assoc). reflexivity.
Qed.

Lemma comp_nt : forall t, comp_ok t = true -> wf_term_nt t = true.
Proof.
  intros t H. destruct t as [s|l|p l|b x|s p o]; cbn [comp_ok wf_term_nt] in *; try discriminate; try exact H.
  destruct x as [|tag|iri]; try discriminate.
  - rewrite H. reflexivity.
  - apply andb_true_iff in H. destruct H as [Hb Hi]. rewrite Hb. cbn [andb wf_suffix].
    unfold wf_iri in Hi. clear -Hi. induction iri as [|c iri IH]; [reflexivity|]. cbn [forallb] in *.
    apply andb_true_iff in Hi. destruct Hi as [Hc Hi]. apply iri_char_facts in Hc. destruct Hc as (_ & _ & G & _).
    rewrite G. cbn [negb andb]. apply IH. exact Hi.
Qed.

Lemma comp_tight : forall t, comp_ok t = true -> tight (render_term t) /\ is_empty (render_term t) = false.
Proof.
  intros t H. pose proof (comp_nt t H) as W. split; [apply tight_term; exact W|].
  destruct (render_first t W) as (c & r & E & _). rewrite E. reflexivity.
Qed.

Lemma split_quoted_components : forall s p o, comp_ok s = true -> comp_ok p = true -> comp_ok o = true ->
  split_quoted (render_term s ++ cSP :: render_term p ++ cSP :: render_term o) = (render_term s, render_term p, render_term o).
Proof.
  intros s p o Hs Hp Ho. unfold split_quoted.
  destruct (comp_tight s Hs) as [Ts Ns]. destruct (comp_tight p Hp) as [Tp Np]. destruct (comp_tight o Ho) as [To No].
  change (mkS [] [] 0 false false false) with (q0 [] []).
  rewrite fold_app, q_component by exact Hs. cbn [fold_left].
  rewrite q_sep by (rewrite rev_involutive, (trim_tight _ Ts); exact Ns). rewrite rev_involutive, (trim_tight _ Ts).
  rewrite fold_app, q_component by exact Hp. cbn [fold_left].
  rewrite q_sep by (rewrite rev_involutive, (trim_tight _ Tp); exact Np). rewrite rev_involutive, (trim_tight _ Tp).
  rewrite q_component by exact Ho. unfold q0. cbn [s_cur s_parts]. rewrite rev_involutive, (trim_tight _ To), No.
  cbn [rev app join_sp]. reflexivity.
Qed.

(* ---- encode_term_star ---- *)
Lemma star_component : forall t, comp_ok t = true -> forall f x,
  encode_term_star f x (render_term t) = db_encode x (lex [] t).
Proof.
  intros t H f x. pose proof (comp_nt t H) as W. pose proof (trim_tight _ (tight_term t W)) as T.
  assert (C : star_clean (render_term t) = lex [] t /\ starts_with sLTLT (render_term t) && ends_with sGTGT (render_term t) = false).
  { destruct t as [s|l|p l|b x0|s p o]; cbn [comp_ok] in H; try discriminate.
    - cbn [render_term lex]. rewrite starts_ltlt_iri by exact H. split; [|reflexivity].
      unfold star_clean. rewrite starts_with_c_cons. change (cLT :: s ++ [cGT]) with ((cLT :: s) ++ [cGT]).
      rewrite ends_with_c_snoc. change (cLT =? cLT) with true. change (cGT =? cGT) with true. cbn [andb].
      change ((cLT :: s) ++ [cGT]) with (cLT :: s ++ [cGT]). apply strip1_wrap.
    - cbn [render_term lex]. split; reflexivity.
    - assert (Hb : forallb wf_lchar b = true) by (destruct x0; try discriminate; [exact H | apply andb_true_iff in H; tauto]).
      split; [|rewrite render_lit; reflexivity].
      unfold star_clean. rewrite (decode_rendered_lit b x0 Hb). rewrite render_lit. cbn [app].
      rewrite !starts_with_c_cons. change (cDQ =? cLT) with false. change (cDQ =? cDQ) with true. cbn [andb].
      destruct x0; try discriminate; reflexivity. }
  destruct C as [C1 C2]. destruct f; cbn [encode_term_star]; rewrite T; [rewrite C1; reflexivity|].
  rewrite C2, C1. reflexivity.
Qed.

Lemma strip2_wrap : forall a b (m : str) c d, strip2 (a :: b :: m ++ [c; d]) = m.
Proof.
  intros. unfold strip2. cbn [tl]. replace (m ++ [c; d]) with ((m ++ [c]) ++ [d]) by (rewrite <- app_assoc; reflexivity).
  rewrite removelast_snoc, removelast_snoc. reflexivity.
Qed.

Definition enc_term (x : db) (t : term) : db * N :=
  match t with
  | TQuoted s p o =>
      let '(x3, (si, pi, oi)) := enc3 x (lex [] s) (lex [] p) (lex [] o) in
      let (q, i) := qts_encode (d_qts x3) (si, pi, oi) in (set_qts x3 q, i)
  | _ => db_encode x (lex [] t)
  end.

Lemma star_quoted : forall s p o, comp_ok s = true -> comp_ok p = true -> comp_ok o = true -> forall f x,
  encode_term_star (S f) x (render_term (TQuoted s p o)) = enc_term x (TQuoted s p o).
Proof.
  intros s p o Hs Hp Ho f x. cbn [encode_term_star]. rewrite (trim_tight _ (tight_quoted s p o)).
  destruct (quoted_brackets s p o) as [A B]. rewrite A, B. cbn [andb].
  assert (E : trim (strip2 (render_term (TQuoted s p o))) = render_term s ++ cSP :: render_term p ++ cSP :: render_term o).
  { rewrite render_quoted.
    replace (cLT :: cLT :: cSP :: (render_term s ++ [cSP]) ++ (render_term p ++ [cSP]) ++ (render_term o ++ [cSP]) ++ [cGT; cGT])
      with (cLT :: cLT :: ([cSP] ++ (render_term s ++ cSP :: render_term p ++ cSP :: render_term o) ++ [cSP]) ++ [cGT; cGT])
      by (cbn [app]; repeat (rewrite <- app_assoc); cbn [app]; repeat (rewrite <- app_assoc); reflexivity).
    rewrite strip2_wrap. apply trim_pad; try reflexivity.
    destruct (comp_tight s Hs) as [Ts Ns]. destruct (comp_tight o Ho) as [To No].
    replace (render_term s ++ cSP :: render_term p ++ cSP :: render_term o)
      with (render_term s ++ (cSP :: render_term p ++ [cSP]) ++ render_term o)
      by (cbn [app]; rewrite <- app_assoc; reflexivity).
    apply tight_concat; try assumption; intro E0; [rewrite E0 in Ns | rewrite E0 in No]; discriminate. }
  rewrite E. rewrite split_quoted_components by assumption.
  unfold enc_term, enc3.
  rewrite (star_component s Hs). destruct (db_encode x (lex [] s)) as [x1 si].
  rewrite (star_component p Hp). destruct (db_encode x1 (lex [] p)) as [x2 pi].
  rewrite (star_component o Ho). destruct (db_encode x2 (lex [] o)) as [x3 oi]. reflexivity.
Qed.

Lemma enc3_qts : forall x s p o x3 e, enc3 x s p o = (x3, e) -> d_qts x3 = d_qts x.
Proof.
  intros x s p o x3 e H. unfold enc3, db_encode in H.
  destruct (dict_encode (d_dict x) s) as [d1 i1]. cbn [set_dict d_dict] in H.
  destruct (dict_encode d1 p) as [d2 i2]. cbn [set_dict d_dict] in H.
  destruct (dict_encode d2 o) as [d3 i3]. inversion H. reflexivity.
Qed.

Lemma comp_lex_env : forall t e, comp_ok t = true -> lex e t = lex [] t.
Proof. intros t e H. destruct t as [s|l|p l|b x|s p o]; try discriminate; try reflexivity. Qed.

(* what encoding one term of a statement does *)
Lemma enc_term_spec : forall t x x' i,
  wf_term_nt t = true -> enc_term x t = (x', i) ->
  dict_ok (d_dict x) -> qts_ok x -> next_id (d_dict x) + 3 <= QBIT ->
  dict_ok (d_dict x') /\ qts_ok x' /\ ext x x' /\ d_quads x' = d_quads x /\ d_pref x' = d_pref x /\
  decode_any x' i = Some (lex [] t) /\
  next_id (d_dict x) <= next_id (d_dict x') /\ next_id (d_dict x') <= next_id (d_dict x) + 3.
Proof.
  intros t x x' i W H Hd Hq Hn.
  assert (Simple : forall s, db_encode x s = (x', i) ->
    dict_ok (d_dict x') /\ qts_ok x' /\ ext x x' /\ d_quads x' = d_quads x /\ d_pref x' = d_pref x /\
    decode_any x' i = Some s /\ next_id (d_dict x) <= next_id (d_dict x') /\ next_id (d_dict x') <= next_id (d_dict x) + 3).
  { intros s E. assert (N1 : next_id (d_dict x) < QBIT) by lia.
    destruct (db_encode_spec _ _ _ _ E Hd N1) as (D1 & X1 & Q1 & P1 & [C1 _] & L1 & U1 & T1).
    split; [exact D1|]. split; [apply (qts_ok_same x); assumption|]. split; [exact X1|].
    split; [exact Q1|]. split; [exact P1|]. split; [exact C1|]. split; lia. }
  destruct t as [s|l|p l|b x0|s p o]; cbn [wf_term_nt] in W; try discriminate; cbn [enc_term] in H; try (apply Simple; exact H).
  apply andb_true_iff in W. destruct W as [W Ho]. apply andb_true_iff in W. destruct W as [Hs Hp].
  destruct (enc3 x (lex [] s) (lex [] p) (lex [] o)) as [x3 [[si pi] oi]] eqn:E3.
  destruct (qts_encode (d_qts x3) (si, pi, oi)) as [q j] eqn:Eq. inversion H; subst x' i; clear H.
  destruct (enc3_spec _ _ _ _ _ _ _ _ E3 Hd Hn) as (D3 & X3 & Q3 & P3 & Cs & Cp & Co & L3 & U3).
  pose proof (enc3_qts _ _ _ _ _ _ E3) as T3.
  pose proof (qts_ok_same x x3 T3 X3 Hq) as Hq3.
  destruct (qts_encode_spec x3 si pi oi _ _ _ q j Hq3 Cs Cp Co Eq) as (G & Hq' & Dj).
  split; [exact D3|]. split; [exact Hq'|]. split; [apply (ext_trans _ _ _ X3); apply ext_of_grows; exact G|].
  split; [exact Q3|]. split; [exact P3|]. split; [exact Dj|]. cbn [set_qts d_dict]. split; assumption.
Qed.
