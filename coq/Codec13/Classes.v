(* Decidable classes naming the mechanisms by which the unchanged loaders violate C13
   (mirrored by known_findings.json and used by checks/c13.py as classifiers).  No proofs here. *)
Require Export KV.Codec13.Model KV.Codec13.Spec.

(* C13-n3-nonempty-dictionary / C13-n3-multichunk:
   parse_n3 inserts each chunk's triples with the ids of the chunk's private dictionary, so the load
   is right only when the receiving dictionary is empty and there is a single chunk. *)
Definition dict_nonempty (d : dict) : bool :=
  negb (is_empty (s2i d)) || negb (is_empty (i2s d)) || negb (next_id d =? 0).
Definition multichunk (n_lines : nat) : bool := Nat.ltb CHUNK n_lines.
Definition known_C13_n3 (doc : list item) (x : db) : bool :=
  dict_nonempty (d_dict x) || multichunk (length doc).

(* C13-literal-recleaned.  encode_term_star treats a VALUE as a term again: it trims it, strips <...>, and decodes
   or unquotes it when it starts with a quote.  Since fix 16f77b9 the N-Triples / N-Quads loaders intern a cleaned term
   verbatim (encode_cleaned_term) unless it starts with "<<" and ends with ">>" - that residue is `term_looks_quoted`;
   the full re-cleaning (`term_recleaned`) still applies to Turtle statements that go through encode_term_star. *)
Definition unstable_lex (s : str) : bool :=
  negb (str_eqb (trim s) s) || starts_with_c cDQ s || (starts_with_c cLT s && ends_with_c cGT s).
Definition term_recleaned (t : term) : bool :=
  match t with
  | TLit _ _ => unstable_lex (lex [] t)
  | _ => false
  end.
Definition looks_quoted (s : str) : bool := starts_with sLTLT s && ends_with sGTGT s.
Definition term_looks_quoted (t : term) : bool :=
  match t with
  | TLit _ _ => looks_quoted (lex [] t)
  | _ => false
  end.
Definition item_terms (i : item) : list term :=
  match i with
  | IStmt _ s p o g => s :: p :: o :: match g with Some t => [t] | None => [] end
  | IList s pos => s :: flat_map (fun po => fst po :: snd po) pos
  | _ => []
  end.
Definition known_C13_reclean (doc : list item) : bool :=
  existsb (fun i => existsb term_looks_quoted (item_terms i)) doc.

(* C13-n3-literal-quoted: parse_statement/resolve_term keep the quotes (and the datatype) of a literal. *)
Definition is_literal (t : term) : bool := match t with TLit _ _ => true | _ => false end.
Definition known_C13_n3_literal (doc : list item) : bool :=
  existsb (fun i => existsb is_literal (item_terms i)) doc.

(* C13-n3-hash-in-term: parse_n3 cuts every line at the first '#', also inside a term. *)
Definition known_C13_n3_hash (doc : list item) : bool :=
  existsb (fun i => match i with IStmt _ _ _ _ _ => contains_c cHASH (render_item i) | _ => false end) doc.

(* C13-literal-recleaned, Turtle side: a Turtle statement whose subject or object is a quoted triple is encoded
   through encode_term_star, which cleans the already cleaned terms of that statement a second time. *)
Definition ttl_star_stmt (i : item) : bool :=
  match i with
  | IStmt _ s _ o _ => match s, o with TQuoted _ _ _, _ => true | _, TQuoted _ _ _ => true | _, _ => false end
  | _ => false
  end.
Definition known_C13_ttl_reclean (doc : list item) : bool :=
  existsb (fun i => ttl_star_stmt i && existsb term_recleaned (item_terms i)) doc.
