(* parse_turtle on a line with predicate lists (;) and object lists (,). *)
Require Import KV.Codec13.Model KV.Codec13.Spec KV.Codec13.Wf KV.Codec13.WfTtl KV.Codec13.Classes KV.Codec13.Inv.
Require Import KV.Codec13.StrProofs KV.Codec13.TokProofs KV.Codec13.DictProofs KV.Codec13.QtDictProofs KV.Codec13.N3Proofs KV.Codec13.TtlProofs.
Require Import Lia PeanoNat.

(* ---- the two other punctuation tokens ---- *)
Lemma tstep_punct : forall toks c nx, (c = cSEMI \/ c = cCOMMA \/ c = cDOT) -> t_step (tB toks []) c nx = tB ([c] :: toks) [].
Proof. intros toks c nx [H|[H|H]]; subst c; cbv [t_step tB t_tok t_tok_always t_push opt_is is_ws4 t_toks t_cur t_depth t_uri t_lit t_esc t_skip negb andb orb]; eval_closed; cbv iota; reflexivity. Qed.

Lemma tstep_sp_clean : forall toks nx, t_step (tB toks []) cSP nx = tB toks [].
Proof. intros. rewrite tstep_sep by reflexivity. reflexivity. Qed.

(* a term followed by " <punct> " or by " ." *)
Lemma scan_term_punct : forall t toks c rest, wf_term_ttl t = true -> (c = cSEMI \/ c = cCOMMA \/ c = cDOT) ->
  t_scan (tB toks []) (render_term t ++ cSP :: c :: rest) = t_scan (tB ([c] :: render_term t :: toks) []) rest.
Proof.
  intros t toks c rest H Hc. destruct (term_then t toks (cSP :: c :: rest) H) as (s1 & E1 & R1). rewrite E1.
  change (cSP :: c :: rest) with ([cSP] ++ c :: rest). rewrite (tres_sep _ _ _ [cSP] _ R1 eq_refl).
  cbn [t_scan]. rewrite tstep_punct by exact Hc. reflexivity.
Qed.

Lemma scan_term_sp : forall t toks rest, wf_term_ttl t = true ->
  t_scan (tB toks []) (render_term t ++ cSP :: rest) = t_scan (tB (render_term t :: toks) []) rest.
Proof.
  intros t toks rest H. destruct (term_then t toks (cSP :: rest) H) as (s1 & E1 & R1). rewrite E1.
  change (cSP :: rest) with ([cSP] ++ rest). apply (tres_sep _ _ _ [cSP] _ R1 eq_refl).
Qed.

(* token lists *)
Fixpoint toks_objs (os : list term) : list str :=
  match os with
  | [] => []
  | [o] => [render_term o]
  | o :: r => render_term o :: [cCOMMA] :: toks_objs r
  end.
Fixpoint toks_pos (pos : list (term * list term)) : list str :=
  match pos with
  | [] => []
  | [(p, os)] => render_term p :: toks_objs os
  | (p, os) :: r => render_term p :: toks_objs os ++ [cSEMI] :: toks_pos r
  end.

(* scanning an object list followed by " X" where X is the rest (starting with ';' or '.') *)
Lemma scan_objs : forall os toks c rest, wf_objs os = true -> (c = cSEMI \/ c = cDOT) ->
  t_scan (tB toks []) (render_objs os ++ cSP :: c :: rest) = t_scan (tB ([c] :: rev (toks_objs os) ++ toks) []) rest.
Proof.
  induction os as [|o os IH]; intros toks c rest H Hc; [discriminate|].
  unfold wf_objs in H. cbn [is_empty negb andb forallb] in H. apply andb_true_iff in H. destruct H as [Ho Hos].
  apply andb_true_iff in Ho. destruct Ho as [Ho _].
  destruct os as [|o2 os'].
  - cbn [render_objs toks_objs rev app]. apply scan_term_punct; [exact Ho | destruct Hc; auto].
  - cbn [render_objs toks_objs]. rewrite <- app_assoc. cbn [app].
    rewrite scan_term_punct by (auto). cbn [t_scan]. rewrite tstep_sp_clean.
    rewrite IH; [| unfold wf_objs; exact Hos | exact Hc].
    cbn [rev]. rewrite <- !app_assoc. reflexivity.
Qed.

Lemma scan_pos : forall pos toks, negb (is_empty pos) = true -> forallb wf_po pos = true ->
  t_scan (tB toks []) (render_pos pos ++ [cSP; cDOT]) = tB ([cDOT] :: rev (toks_pos pos) ++ toks) [].
Proof.
  induction pos as [|[p os] pos IH]; intros toks Hne H; [discriminate|].
  cbn [forallb] in H. apply andb_true_iff in H. destruct H as [Hpo H].
  unfold wf_po in Hpo. cbn [fst snd] in Hpo. apply andb_true_iff in Hpo. destruct Hpo as [Hpo Hos].
  apply andb_true_iff in Hpo. destruct Hpo as [Hpo _]. apply andb_true_iff in Hpo. destruct Hpo as [Hp _].
  destruct pos as [|po2 pos'].
  - cbn [render_pos toks_pos]. rewrite <- app_assoc. cbn [app]. rewrite scan_term_sp by exact Hp.
    rewrite scan_objs; [| exact Hos | auto]. cbn [t_scan rev]. rewrite <- ?app_assoc. reflexivity.
  - cbn [render_pos toks_pos]. rewrite <- !app_assoc. cbn [app]. rewrite scan_term_sp by exact Hp.
    rewrite <- app_assoc. cbn [app].
    rewrite scan_objs; [| exact Hos | auto]. cbn [t_scan]. rewrite tstep_sp_clean.
    rewrite IH; [| reflexivity | exact H]. cbn [rev]. rewrite !rev_app_distr. cbn [rev app]. rewrite <- !app_assoc. reflexivity.
Qed.

Lemma turtle_tokens_list : forall s pos, wf_list s pos = true ->
  turtle_tokens (render_term s ++ cSP :: render_pos pos ++ [cSP; cDOT]) = render_term s :: toks_pos pos ++ [[cDOT]].
Proof.
  intros s pos H. unfold wf_list in H. repeat (apply andb_true_iff in H; destruct H as [H ?]).
  unfold turtle_tokens. change (mkT [] [] 0 false false false false) with (tB [] []).
  rewrite scan_term_sp by exact H. rewrite scan_pos by assumption.
  rewrite t_tok_clean. unfold tB. cbn [t_toks rev]. rewrite rev_app_distr. cbn [rev app]. rewrite rev_involutive. reflexivity.
Qed.

(* ---------------------------------------------------------------------------------------------- *)
(* the statement loop of parse_turtle over those tokens *)
Definition A0 (x : db) : tloop := mkL x None None [] true false false.
Definition A1 (x : db) (s : str) : tloop := mkL x (Some s) None [] false true false.
Definition A2 (x : db) (s p : str) : tloop := mkL x (Some s) (Some p) [] false false true.
Definition A3 (x : db) (s p t : str) : tloop := mkL x (Some s) (Some p) [t] false false true.

Lemma tok_comma : forall x s p t, ttl_token (A3 x s p t) [cCOMMA] =
  let (x', objs) := ttl_flush x (Some s) (Some p) [t] in mkL x' (Some s) (Some p) objs false false true.
Proof. intros. reflexivity. Qed.

Lemma tok_semi : forall x s p t, ttl_token (A3 x s p t) [cSEMI] =
  let (x', objs) := ttl_flush x (Some s) (Some p) [t] in mkL x' (Some s) None objs false true false.
Proof. intros. reflexivity. Qed.

Definition add1 (e : env) (s p : term) (x : db) (o : term) : db := add_lex x (lex e s) (lex e p) (lex e o) None.

Definition after (c : N) (y : db) (s : str) : tloop := if c =? cSEMI then A1 y s else A0 y.

Lemma add1_pref : forall e s p x o, db_ok x -> next_id (d_dict x) + 4 <= QBIT -> d_pref (add1 e s p x o) = d_pref x.
Proof. intros e s p x o Hx Hn. unfold add1. destruct (add_lex_spec x (lex e s) (lex e p) (lex e o) None Hx Hn) as (_ & _ & _ & K). exact K. Qed.

(* object list, then ';' or '.' *)
Lemma objs_then : forall os x s p c rest,
  wf_objs os = true -> wf_term_ttl s = true -> is_quoted_term s = false ->
  wf_term_ttl p = true -> is_quoted_term p = false -> (c = cSEMI \/ c = cDOT) ->
  db_ok x -> pref_ok (d_pref x) -> next_id (d_dict x) + 4 * N.of_nat (length os) <= QBIT ->
  fold_left ttl_token (toks_objs os ++ [c] :: rest) (A2 x (render_term s) (render_term p))
  = fold_left ttl_token rest (after c (fold_left (add1 (d_pref x) s p) os x) (render_term s)) /\
  db_ok (fold_left (add1 (d_pref x) s p) os x) /\
  d_pref (fold_left (add1 (d_pref x) s p) os x) = d_pref x /\
  next_id (d_dict (fold_left (add1 (d_pref x) s p) os x)) <= next_id (d_dict x) + 4 * N.of_nat (length os).
Proof.
  induction os as [|o os IH]; intros x s p c rest H Hs Hsq Hp Hpq Hc Hx Hpr Hn; [discriminate|].
  unfold wf_objs in H. cbn [is_empty negb andb forallb] in H. apply andb_true_iff in H. destruct H as [Ho Hos].
  apply andb_true_iff in Ho. destruct Ho as [Ho Hoq]. apply negb_true_iff in Hoq.
  cbn [length] in Hn. rewrite Nat2N.inj_succ in Hn.
  assert (N4 : next_id (d_dict x) + 4 <= QBIT) by lia.
  destruct (ttl_not_delim o Ho) as (O1 & O2 & O3).
  destruct (add_lex_spec x (lex (d_pref x) s) (lex (d_pref x) p) (lex (d_pref x) o) None Hx N4) as (K1 & _ & K3 & K4).
  fold (add1 (d_pref x) s p x o) in K1, K3, K4.
  destruct os as [|o2 os'].
  - cbn [toks_objs app fold_left length]. unfold A2. rewrite tok_obj by assumption. fold (A3 x (render_term s) (render_term p) (render_term o)).
    split; [|split; [exact K1 | split; [exact K4 | lia]]].
    f_equal. destruct Hc as [Hc|Hc]; subst c.
    + rewrite tok_semi. rewrite ttl_flush_stmt_plain by assumption. reflexivity.
    + unfold A3. rewrite tok_dot. cbn [l_db l_subj l_pred l_objs]. rewrite ttl_flush_stmt_plain by assumption. reflexivity.
  - cbn [toks_objs app fold_left]. unfold A2 at 1. rewrite tok_obj by assumption.
    fold (A3 x (render_term s) (render_term p) (render_term o)). rewrite tok_comma. rewrite ttl_flush_stmt_plain by assumption.
    fold (add1 (d_pref x) s p x o). fold (A2 (add1 (d_pref x) s p x o) (render_term s) (render_term p)).
    assert (Hpr' : pref_ok (d_pref (add1 (d_pref x) s p x o))) by (rewrite K4; exact Hpr).
    assert (Hn' : next_id (d_dict (add1 (d_pref x) s p x o)) + 4 * N.of_nat (length (o2 :: os')) <= QBIT) by lia.
    assert (W : wf_objs (o2 :: os') = true) by (unfold wf_objs; exact Hos).
    destruct (IH (add1 (d_pref x) s p x o) s p c rest W Hs Hsq Hp Hpq Hc K1 Hpr' Hn') as (J1 & J2 & J3 & J4).
    rewrite K4 in J1, J2, J3, J4. change (toks_objs (o2 :: os')) with (toks_objs (o2 :: os')) in J1.
    split; [exact J1|]. split; [exact J2|]. split; [exact J3|]. cbn [fold_left] in J4. cbn [length] in *. rewrite ?Nat2N.inj_succ in *. lia.
Qed.

(* the quads of a predicate-object list *)
Definition pos_quads (e : env) (s : term) (pos : list (term * list term)) : list squad :=
  flat_map (fun po => map (fun o => (lex e s, lex e (fst po), lex e o, None)) (snd po)) pos.

Lemma fold_add1 : forall os e s p x,
  fold_left (add1 e s p) os x = fold_left add_lex4 (map (fun o => (lex e s, lex e p, lex e o, None)) os) x.
Proof. induction os as [|o os IH]; intros e s p x; [reflexivity|]. cbn [fold_left map add_lex4]. apply IH. Qed.

Lemma pos_quads_cons : forall e s p os pos,
  pos_quads e s ((p, os) :: pos) = map (fun o => (lex e s, lex e p, lex e o, None)) os ++ pos_quads e s pos.
Proof. reflexivity. Qed.

Fixpoint count_objs (pos : list (term * list term)) : nat :=
  match pos with [] => O | po :: r => (length (snd po) + count_objs r)%nat end.

Lemma pos_quads_length : forall e s pos, length (pos_quads e s pos) = count_objs pos.
Proof.
  intros e s pos. induction pos as [|po pos IH]; [reflexivity|].
  unfold pos_quads in *. cbn [flat_map count_objs]. rewrite app_length, map_length. f_equal. exact IH.
Qed.

Lemma pos_then : forall pos x s,
  negb (is_empty pos) = true -> forallb wf_po pos = true -> wf_term_ttl s = true -> is_quoted_term s = false ->
  db_ok x -> pref_ok (d_pref x) -> next_id (d_dict x) + 4 * N.of_nat (count_objs pos) <= QBIT ->
  fold_left ttl_token (toks_pos pos ++ [[cDOT]]) (A1 x (render_term s))
  = A0 (fold_left add_lex4 (pos_quads (d_pref x) s pos) x).
Proof.
  induction pos as [|[p os] pos IH]; intros x s Hne H Hs Hsq Hx Hpr Hn; [discriminate|].
  cbn [forallb] in H. apply andb_true_iff in H. destruct H as [Hpo H].
  unfold wf_po in Hpo. cbn [fst snd] in Hpo. apply andb_true_iff in Hpo. destruct Hpo as [Hpo Hos].
  apply andb_true_iff in Hpo. destruct Hpo as [Hpo Hpq]. apply negb_true_iff in Hpq. apply andb_true_iff in Hpo. destruct Hpo as [Hp _].
  destruct (ttl_not_delim p Hp) as (P1 & P2 & P3).
  cbn [count_objs snd] in Hn. rewrite Nat2N.inj_add in Hn.
  rewrite pos_quads_cons, (fold_left_app add_lex4), <- fold_add1.
  destruct pos as [|po2 pos'].
  - change (pos_quads (d_pref x) s []) with (@nil squad). cbn [toks_pos app fold_left]. unfold A1. rewrite tok_pred by assumption.
    fold (A2 x (render_term s) (render_term p)).
    destruct (objs_then os x s p cDOT [] Hos Hs Hsq Hp Hpq (or_intror eq_refl) Hx Hpr ltac:(lia)) as (J1 & _).
    rewrite J1. reflexivity.
  - change (toks_pos ((p, os) :: po2 :: pos')) with (render_term p :: toks_objs os ++ [cSEMI] :: toks_pos (po2 :: pos')).
    cbn [app]. rewrite <- app_assoc. cbn [app fold_left]. unfold A1 at 1. rewrite tok_pred by assumption.
    fold (A2 x (render_term s) (render_term p)).
    destruct (objs_then os x s p cSEMI (toks_pos (po2 :: pos') ++ [[cDOT]]) Hos Hs Hsq Hp Hpq (or_introl eq_refl) Hx Hpr ltac:(lia)) as (J1 & J2 & J3 & J4).
    etransitivity; [exact J1|]. unfold after. change (cSEMI =? cSEMI) with true. cbv iota.
    rewrite IH; [| reflexivity | exact H | exact Hs | exact Hsq | exact J2 | rewrite J3; exact Hpr | lia].
    rewrite J3. reflexivity.
Qed.

Lemma ttl_line_list : forall x s pos, wf_list s pos = true -> db_ok x -> pref_ok (d_pref x) ->
  next_id (d_dict x) + 4 * N.of_nat (count_objs pos) <= QBIT ->
  ttl_line x (render_item (IList s pos)) = fold_left add_lex4 (item_quads (d_pref x) (IList s pos)) x.
Proof.
  intros x s pos H Hx Hpr Hn. pose proof H as H'. unfold wf_list in H.
  apply andb_true_iff in H. destruct H as [H H0]. apply andb_true_iff in H. destruct H as [H H1].
  apply andb_true_iff in H. destruct H as [H Hsq]. apply andb_true_iff in H. destruct H as [H H2].
  apply negb_true_iff in H2. apply negb_true_iff in Hsq.
  set (L := render_term s ++ cSP :: render_pos pos ++ [cSP; cDOT]).
  assert (EL : render_item (IList s pos) = L) by reflexivity.
  rewrite EL. destruct (ttl_first s H) as (cs & rs & Es & Ks). destruct (first_facts cs Ks) as (F1 & F2 & _).
  assert (TL : tight L).
  { unfold L. rewrite Es. cbn [app]. apply tight_intro; [exact F1|].
    replace (cs :: rs ++ cSP :: render_pos pos ++ [cSP; cDOT]) with ((cs :: rs ++ cSP :: render_pos pos ++ [cSP]) ++ [cDOT])
      by (cbn [app]; rewrite <- !app_assoc; cbn [app]; rewrite <- !app_assoc; reflexivity).
    apply last_nws_snoc. reflexivity. }
  unfold ttl_line. rewrite (trim_tight L TL).
  assert (E3 : is_empty L = false) by (unfold L; rewrite Es; reflexivity).
  assert (E4 : starts_with_c cHASH L = false) by (unfold L; rewrite Es; cbn [app starts_with_c]; exact F2).
  destruct (not_prefix_line s (cSP :: render_pos pos ++ [cSP; cDOT]) H H2) as [E5 E6]. fold L in E5, E6.
  rewrite E3, E4, E5, E6. cbn [orb]. unfold L. rewrite turtle_tokens_list by exact H'.
  destruct (ttl_not_delim s H) as (S1 & S2 & S3).
  cbn [fold_left]. rewrite tok_subj by assumption. fold (A1 x (render_term s)).
  rewrite pos_then by assumption. unfold A0. cbn [l_db l_subj l_pred l_objs ttl_flush fst item_quads]. reflexivity.
Qed.

(* ---------------------------------------------------------------------------------------------- *)
(* documents *)
Lemma star_fine_of_class : forall pd s p o, ttl_star_stmt (IStmt pd s p o None) && existsb term_recleaned (item_terms (IStmt pd s p o None)) = false ->
  star_fine s p o.
Proof.
  intros pd s p o H Hq. apply andb_false_iff in H. destruct H as [H|H].
  - exfalso. cbn [ttl_star_stmt] in H. apply orb_true_iff in Hq. destruct Hq as [Hq|Hq].
    + destruct s; try discriminate.
    + destruct o; try discriminate; destruct s; discriminate.
  - cbn [item_terms existsb] in H. apply orb_false_iff in H. destruct H as [Rs H].
    apply orb_false_iff in H. destruct H as [Rp H]. apply orb_false_iff in H. destruct H as [Ro _]. auto.
Qed.

Lemma ttl_main : forall (doc : list item) (x : db),
  wf_doc_ttl doc = true -> known_C13_ttl_reclean doc = false -> db_okq x -> pref_ok (d_pref x) ->
  next_id (d_dict x) + 9 * N.of_nat (length (quads_from (d_pref x) doc)) <= QBIT ->
  db_okq (load_ttl (render_doc doc) x) /\
  forall lq, In lq (den (load_ttl (render_doc doc) x)) <-> In lq (den x) \/ In lq (map lq_of4 (quads_from (d_pref x) doc)).
Proof.
  induction doc as [|i doc IH]; intros x Hw Hk Hx Hp Hn.
  - cbn [render_doc map load_ttl fold_left quads_from In]. split; [exact Hx | intro lq; tauto].
  - unfold wf_doc_ttl in Hw. cbn [forallb] in Hw. apply andb_true_iff in Hw. destruct Hw as [Hi Hw].
    unfold known_C13_ttl_reclean in Hk. cbn [existsb] in Hk. apply orb_false_iff in Hk. destruct Hk as [Hki Hk].
    cbn [quads_from] in Hn. rewrite app_length, Nat2N.inj_add in Hn.
    unfold load_ttl in *. cbn [render_doc map fold_left quads_from].
    destruct i as [ws|ws text|pd s p o g|name iri|s pos]; cbn [wf_item_ttl] in Hi; try discriminate.
    + cbn [render_item]. rewrite ttl_line_blank by exact Hi. cbn [item_quads item_env app length] in *.
      apply IH; [exact Hw | exact Hk | exact Hx | exact Hp | lia].
    + cbn [render_item]. rewrite ttl_line_comment by exact Hi. cbn [item_quads item_env app length] in *.
      apply IH; [exact Hw | exact Hk | exact Hx | exact Hp | lia].
    + destruct g as [g|]; [discriminate|].
      apply andb_true_iff in Hi. destruct Hi as [Hi Ho]. apply andb_true_iff in Hi. destruct Hi as [Hi Hpq].
      apply andb_true_iff in Hi. destruct Hi as [Hi Hlp]. apply andb_true_iff in Hi. destruct Hi as [Hi Hpp].
      apply andb_true_iff in Hi. destruct Hi as [Hi Hls]. apply andb_true_iff in Hi. destruct Hi as [Hpd Hs].
      apply negb_true_iff in Hls. apply negb_true_iff in Hpq.
      pose proof (star_fine_of_class pd s p o Hki) as Hf.
      cbn [render_item]. rewrite ttl_line_stmt by assumption. cbn [item_quads item_env length] in Hn.
      assert (N9 : next_id (d_dict x) + 9 <= QBIT) by lia.
      destruct (ttl_step_spec x s p o Hx Hp Hs Hpp Ho N9) as (K1 & K2 & K3 & K4).
      set (x' := ttl_step x s p o) in *.
      assert (Hp' : pref_ok (d_pref x')) by (rewrite K4; exact Hp).
      assert (Hn' : next_id (d_dict x') + 9 * N.of_nat (length (quads_from (d_pref x') doc)) <= QBIT) by (rewrite K4; lia).
      destruct (IH x' Hw Hk K1 Hp' Hn') as [J1 J2]. split; [exact J1|].
      intro lq. rewrite J2, K2, K4. cbn [item_quads item_env]. rewrite map_app, in_app_iff. cbn [map In lq_of4].
      split.
      * intros [[H|H]|H]; [left; exact H | right; left; left; symmetry; exact H | right; right; exact H].
      * intros [H|[[H|[]]|H]]; [left; left; exact H | left; right; symmetry; exact H | right; exact H].
    + apply andb_true_iff in Hi. destruct Hi as [Hnm Hiri].
      rewrite render_prefix. rewrite ttl_line_prefix by assumption.
      destruct (set_pref_ok x ((name, iri) :: d_pref x) (proj1 Hx)) as [K1 K2].
      assert (K1q : db_okq (set_pref x ((name, iri) :: d_pref x))) by (split; [exact K1 | apply set_pref_okq; apply Hx]).
      assert (Hp' : pref_ok (d_pref (set_pref x ((name, iri) :: d_pref x)))).
      { cbn [set_pref d_pref]. constructor; [|exact Hp]. cbn [fst snd]. split; [exact Hnm|].
        clear -Hiri. induction iri as [|c r IHr]; [reflexivity|]. cbn [forallb] in *. apply andb_true_iff in Hiri. destruct Hiri as [Hc Hr].
        unfold n3_char in Hc. apply andb_true_iff in Hc. destruct Hc as [Hc _]. rewrite Hc. cbn [andb]. apply IHr. exact Hr. }
      cbn [item_quads item_env length] in Hn.
      assert (Hn' : next_id (d_dict (set_pref x ((name, iri) :: d_pref x))) + 9 * N.of_nat (length (quads_from (d_pref (set_pref x ((name, iri) :: d_pref x))) doc)) <= QBIT)
        by (cbn [set_pref d_dict d_pref]; lia).
      destruct (IH _ Hw Hk K1q Hp' Hn') as [J1 J2]. split; [exact J1|].
      intro lq. rewrite J2, K2. cbn [item_quads item_env app set_pref d_pref]. reflexivity.
    + cbn [item_quads item_env] in Hn. fold (pos_quads (d_pref x) s pos) in Hn. rewrite pos_quads_length in Hn.
      rewrite ttl_line_list; [| exact Hi | apply Hx | exact Hp | lia].
      cbn [item_quads item_env]. fold (pos_quads (d_pref x) s pos).
      assert (Nq : next_id (d_dict x) + 4 * N.of_nat (length (pos_quads (d_pref x) s pos)) <= QBIT)
        by (rewrite pos_quads_length; lia).
      destruct (fold_add_lex_spec (pos_quads (d_pref x) s pos) x (proj1 Hx) Nq) as (K1 & K2 & K4).
      pose proof (fold_add_lex_okq (pos_quads (d_pref x) s pos) x Hx Nq) as K1q.
      set (x' := fold_left add_lex4 (pos_quads (d_pref x) s pos) x) in *.
      assert (K3 : next_id (d_dict x') <= next_id (d_dict x) + 4 * N.of_nat (length (pos_quads (d_pref x) s pos))).
      { unfold x'. clear. generalize (pos_quads (d_pref x) s pos) as qs. intro qs. revert x.
        induction qs as [|[[[a b] c] g] qs IHq]; intro x; [cbn; lia|].
        cbn [fold_left add_lex4 length]. rewrite Nat2N.inj_succ. specialize (IHq (add_lex x a b c g)).
        assert (next_id (d_dict (add_lex x a b c g)) <= next_id (d_dict x) + 4).
        { rewrite add_lex_enc3. unfold enc3, db_encode, dict_encode.
          destruct (assoc_s a (s2i (d_dict x))); cbn [set_dict d_dict next_id s2i];
          repeat match goal with |- context [assoc_s ?k ?l] => destruct (assoc_s k l) end;
          cbn [set_dict d_dict next_id s2i]; destruct g;
          repeat match goal with
                 | |- context [add_quad ?y ?q] => rewrite (proj1 (add_quad_frame y q))
                 | |- context [assoc_s ?k ?l] => destruct (assoc_s k l)
                 end; cbn [set_dict d_dict next_id s2i fst snd]; lia. }
        lia. }
      assert (Hp' : pref_ok (d_pref x')) by (rewrite K4; exact Hp).
      assert (Hn' : next_id (d_dict x') + 9 * N.of_nat (length (quads_from (d_pref x') doc)) <= QBIT)
        by (rewrite K4; rewrite pos_quads_length in K3; lia).
      destruct (IH x' Hw Hk (conj K1 K1q) Hp' Hn') as [J1 J2]. split; [exact J1|].
      intro lq. rewrite J2, K2, K4. rewrite map_app, in_app_iff. tauto.
Qed.

Lemma ttl_main_noprefix : forall (doc : list item) (x : db),
  wf_doc_ttl doc = true -> known_C13_ttl_reclean doc = false -> db_okq x -> d_pref x = [] ->
  next_id (d_dict x) + 9 * N.of_nat (length (triples_of doc)) <= QBIT ->
  db_okq (load_ttl (render_doc doc) x) /\
  forall lq, In lq (den (load_ttl (render_doc doc) x)) <-> In lq (den x) \/ In lq (map lq_of4 (triples_of doc)).
Proof.
  intros doc x Hw Hk Hx Hp Hn. unfold triples_of in *. rewrite <- Hp in *. apply ttl_main; try assumption. rewrite Hp. constructor.
Qed.
