(* C13 - Loading a document adds exactly its triples, whatever its size or prior content.
   Only the property theorems; each is closed by `exact <lemma>` and followed by Print Assumptions. *)
Require Import KV.Codec13.Model KV.Codec13.Spec KV.Codec13.Classes KV.Codec13.ChunkProofs.

(* Splitting the document into chunks of ANY size n >= 1, parsing each chunk on its own (one rayon task
   per chunk) and concatenating the results in chunk order gives exactly the per-line parse of the
   whole document: the chunk size, hence the number of tasks, cannot influence what is parsed. *)
Theorem C13_chunking :
  forall (n : nat) (lines : list str), (1 <= n)%nat ->
    flat_map parse_chunk_nt (chunks n lines) = flat_map nt_line lines.
Proof. exact chunking_nt. Qed.
Print Assumptions C13_chunking.
